//go:build verif

package rhp_test

import (
	"bytes"
	"context"
	"encoding/binary"
	"encoding/json"
	"errors"
	"fmt"
	"math"
	"math/rand"
	"net"
	"path/filepath"
	"strings"
	"testing"
	"time"

	crhp2 "go.sia.tech/core/rhp/v2"
	crhp3 "go.sia.tech/core/rhp/v3"
	"go.sia.tech/core/types"
	"go.sia.tech/coreutils/wallet"
	"go.sia.tech/hostd/v2/host/contracts"
	"go.sia.tech/hostd/v2/internal/testutil"
	proto2 "go.sia.tech/hostd/v2/internal/testutil/rhp/v2"
	proto3 "go.sia.tech/hostd/v2/internal/testutil/rhp/v3"
	rhp2 "go.sia.tech/hostd/v2/rhp/v2"
	rhp3 "go.sia.tech/hostd/v2/rhp/v3"
	"go.uber.org/zap"
)

// TestVerifC10V1 drives a real host (chain manager, wallet, sqlite store, contract manager,
// account manager, RHP2 and RHP3 session handlers) with generated sequences of RHP2/RHP3 RPCs
// whose payments are chosen by the renter (arbitrary over-payment, short payment, malformed
// revisions).  After every RPC it reads back every contract and account of the case, records
// op + observation for coq/Revenue/Model.v and evaluates the conservation monitors.

type c10Rev struct {
	rn                 uint64
	vr, vh, mr, mh, mv types.Currency
}

type c10Host struct {
	t        *testing.T
	node     *testutil.HostNode
	hostKey  types.PrivateKey
	rhp2Addr string
	rhp3Addr string
	sectors  [][crhp2.SectorSize]byte
	roots    []types.Hash256
}

type c10Contract struct {
	// a monitor already reported this contract: later RPCs would only repeat it
	offPayout, offFunding bool
	id                    types.FileContractID
	key     types.PrivateKey
	sectors int // number of sectors the host holds for it
	cleared bool
}

type c10Case struct {
	s2tr  *crhp2.Transport // RHP2 session kept open across RPCs (session2)
	s2con *c10Contract
	keep2 bool // directed: always keep the session open

	h     *c10Host
	em    *verifEmitter
	rng   *rand.Rand
	cons  []*c10Contract
	accts []types.PrivateKey
	pt    crhp3.HostPriceTable
	hasPT bool
	// registry entries written in this case: key index -> revision
	regRev map[int]uint64
	regKey types.PrivateKey
	okOps  int
	// instructions of the running program that returned an output without error
	lastExecuted int
	// directed programs: exec3 runs this program / payment instead of generating one
	forceProg func(put func([]byte) uint64, u64 func(uint64) []byte) []c10Instr
	forcePay  *c10Pay
	forceFund *types.Currency
}

func c10Cur(v types.Currency) string { return v.ExactString() }

func newC10Host(t *testing.T) *c10Host {
	log := zap.NewNop()
	hostKey := types.NewPrivateKeyFromSeed(bytes.Repeat([]byte{7}, 32))
	network, genesis := testutil.V1Network()
	// the test network switches to v2 at height 250; the host of a whole run lives longer
	network.HardforkV2.AllowHeight = 1 << 30
	network.HardforkV2.RequireHeight = 1<<30 + 1000
	node := testutil.NewHostNode(t, hostKey, network, genesis, log)
	testutil.MineAndSync(t, node, node.Wallet.Address(), int(network.MaturityDelay+20))

	l2, err := net.Listen("tcp", "localhost:0")
	if err != nil {
		t.Fatal(err)
	}
	t.Cleanup(func() { l2.Close() })
	l3, err := net.Listen("tcp", "localhost:0")
	if err != nil {
		t.Fatal(err)
	}
	t.Cleanup(func() { l3.Close() })

	res := make(chan error)
	if _, err := node.Volumes.AddVolume(context.Background(), filepath.Join(t.TempDir(), "storage.dat"), 256, res); err != nil {
		t.Fatal(err)
	} else if err := <-res; err != nil {
		t.Fatal(err)
	}

	sh2 := rhp2.NewSessionHandler(l2, hostKey, node.Chain, node.Syncer, node.Wallet, node.Contracts, node.Settings, node.Volumes, log)
	t.Cleanup(func() { sh2.Close() })
	go sh2.Serve()
	sh3 := rhp3.NewSessionHandler(l3, hostKey, node.Chain, node.Syncer, node.Wallet, node.Accounts, node.Contracts, node.Registry, node.Volumes, node.Settings, log)
	t.Cleanup(func() { sh3.Close() })
	go sh3.Serve()

	h := &c10Host{t: t, node: node, hostKey: hostKey, rhp2Addr: sh2.LocalAddr(), rhp3Addr: sh3.LocalAddr()}
	// a small pool of sectors; roots computed once
	for i := 0; i < 4; i++ {
		var s [crhp2.SectorSize]byte
		binary.LittleEndian.PutUint64(s[:8], uint64(i)+1)
		copy(s[8:], "verif-c10")
		h.sectors = append(h.sectors, s)
		h.roots = append(h.roots, crhp2.SectorRoot(&s))
	}
	h.keeper()
	return h
}

// keeper forms a long-lived contract that references every sector of the pool, so that the pool
// roots stay stored (never pruned) whatever the cases trim or drop.
func (h *c10Host) keeper() {
	t := h.t
	s := h.node.Settings.Settings()
	s.AcceptingContracts = true
	s.NetAddress = h.rhp3Addr
	if err := h.node.Settings.UpdateSettings(s); err != nil {
		t.Fatal(err)
	}
	key := types.NewPrivateKeyFromSeed(bytes.Repeat([]byte{9}, 32))
	conn, err := net.Dial("tcp", h.rhp2Addr)
	if err != nil {
		t.Fatal(err)
	}
	tr, err := crhp2.NewRenterTransport(conn, h.hostKey.PublicKey())
	if err != nil {
		t.Fatal(err)
	}
	defer tr.Close()
	st, err := proto2.RPCSettings(tr)
	if err != nil {
		t.Fatal(err)
	}
	fc := crhp2.PrepareContractFormation(key.PublicKey(), h.hostKey.PublicKey(), types.Siacoins(500), types.Siacoins(100), h.node.Chain.Tip().Height+25000, st, h.node.Wallet.Address())
	txn := types.Transaction{FileContracts: []types.FileContract{fc}}
	toSign, err := h.node.Wallet.FundTransaction(&txn, crhp2.ContractFormationCost(h.node.Chain.TipState(), fc, st.ContractPrice), true)
	if err != nil {
		t.Fatal(err)
	}
	h.node.Wallet.SignTransaction(&txn, toSign, wallet.ExplicitCoveredFields(txn))
	rev, _, err := proto2.RPCFormContract(tr, key, append(h.node.Chain.UnconfirmedParents(txn), txn))
	if err != nil {
		t.Fatal("keeper formation:", err)
	}
	testutil.MineAndSync(t, h.node, types.VoidAddress, 1)
	if _, err := proto2.RPCLock(tr, key, rev.ID()); err != nil {
		t.Fatal(err)
	}
	for i := range h.sectors {
		if err := proto2.RPCWrite(tr, key, &rev, []crhp2.RPCWriteAction{{Type: crhp2.RPCWriteActionAppend, Data: h.sectors[i][:]}}, types.Siacoins(50), types.ZeroCurrency); err != nil {
			t.Fatal("keeper write:", err)
		}
	}
	proto2.RPCUnlock(tr)
}

// ---------------------------------------------------------------- views

func (c *c10Case) contract(i int) contracts.Contract {
	ct, err := c.h.node.Contracts.Contract(c.cons[i].id)
	if err != nil {
		c.h.t.Fatalf("contract %d: %v", i+1, err)
	}
	return ct
}

func c10RevOf(r types.FileContractRevision) c10Rev {
	v := c10Rev{rn: r.RevisionNumber, vr: r.ValidProofOutputs[0].Value, vh: r.ValidProofOutputs[1].Value,
		mr: r.MissedProofOutputs[0].Value, mh: r.MissedProofOutputs[1].Value}
	if len(r.MissedProofOutputs) > 2 {
		v.mv = r.MissedProofOutputs[2].Value
	}
	return v
}

func c10UsageTerm(u contracts.Usage) string {
	return fmt.Sprintf("(mkU %s %s %s %s %s %s %s %s)", c10Cur(u.RPCRevenue), c10Cur(u.StorageRevenue), c10Cur(u.IngressRevenue),
		c10Cur(u.EgressRevenue), c10Cur(u.RegistryRead), c10Cur(u.RegistryWrite), c10Cur(u.AccountFunding), c10Cur(u.RiskedCollateral))
}

func c10UsageSum(u contracts.Usage) types.Currency {
	return u.RPCRevenue.Add(u.StorageRevenue).Add(u.IngressRevenue).Add(u.EgressRevenue).Add(u.RegistryRead).Add(u.RegistryWrite).Add(u.AccountFunding)
}

// observe reads everything back, evaluates the property monitors and returns the Coq observation
func (c *c10Case) observe(kind string, ok bool) string {
	var views []string
	fundingByContract := map[types.FileContractID]types.Currency{}
	var bals []string
	for i, k := range c.accts {
		acc := crhp3.Account(k.PublicKey())
		b, err := c.h.node.Accounts.Balance(acc)
		if err != nil {
			c.h.t.Fatal(err)
		}
		bals = append(bals, fmt.Sprintf("(%d, %s)", i+1, c10Cur(b)))
		srcs, err := c.h.node.Accounts.AccountFunding(acc)
		if err != nil {
			c.h.t.Fatal(err)
		}
		for _, s := range srcs {
			fundingByContract[s.ContractID] = fundingByContract[s.ContractID].Add(s.Amount)
		}
	}
	for i := range c.cons {
		ct := c.contract(i)
		r := c10RevOf(ct.Revision)
		views = append(views, fmt.Sprintf("mkV %d (mkRev %d %s %s %s %s %s) %s %s", i+1, r.rn, c10Cur(r.vr), c10Cur(r.vh), c10Cur(r.mr), c10Cur(r.mh), c10Cur(r.mv),
			c10Cur(ct.LockedCollateral), c10UsageTerm(ct.Usage)))
		// property monitor 1: the money that moved = what is recorded
		want := ct.LockedCollateral.Add(c10UsageSum(ct.Usage))
		if !r.vh.Equals(want) && !c.cons[i].offPayout {
			c.cons[i].offPayout = true
			c.em.Monitor("v1-payout-differs-from-locked-plus-usage:"+kind,
				fmt.Sprintf("contract %d after %s: valid host payout %s, locked %s + usage %s = %s", i+1, kind, r.vh, ct.LockedCollateral, c10UsageSum(ct.Usage), want))
		}
		// property monitor 2: unspent account funding is backed by the funding rows
		if !ct.Usage.AccountFunding.Equals(fundingByContract[c.cons[i].id]) && !c.cons[i].offFunding {
			c.cons[i].offFunding = true
			c.em.Monitor("v1-unspent-funding-differs-from-funding-rows:"+kind,
				fmt.Sprintf("contract %d after %s: usage.AccountFunding %s, funding rows %s", i+1, kind, ct.Usage.AccountFunding, fundingByContract[c.cons[i].id]))
		}
		c.cons[i].cleared = r.rn == math.MaxUint64
		c.cons[i].sectors = int(ct.Revision.Filesize / crhp2.SectorSize)
	}
	st := "SErr"
	if ok {
		st = "SOk"
		c.okOps++
	}
	c.em.Count(fmt.Sprintf("op:%s:ok=%v", kind, ok))
	return fmt.Sprintf("Obs %s [%s] [%s]", st, strings.Join(views, "; "), strings.Join(bals, "; "))
}

// payout/usage snapshot for the per-RPC delta monitor
type c10Snap struct {
	vh, sum types.Currency
}

func (c *c10Case) snap(i int) c10Snap {
	ct := c.contract(i)
	return c10Snap{vh: ct.Revision.ValidHostPayout(), sum: c10UsageSum(ct.Usage)}
}

// deltaMonitor: an accepted RPC that moved `paid` to the host must raise the recorded usage by exactly that
func (c *c10Case) deltaMonitor(kind string, i int, before c10Snap, paid types.Currency) {
	if c.cons[i].offPayout {
		return
	}
	after := c.snap(i)
	if !after.vh.Equals(before.vh.Add(paid)) {
		c.em.Monitor("v1-payout-delta-differs-from-payment:"+kind, fmt.Sprintf("contract %d: payout %s -> %s, paid %s", i+1, before.vh, after.vh, paid))
	}
	if !after.sum.Equals(before.sum.Add(paid)) {
		c.em.Monitor("v1-usage-delta-differs-from-payment:"+kind, fmt.Sprintf("contract %d: usage %s -> %s, paid %s", i+1, before.sum, after.sum, paid))
	}
}

// ---------------------------------------------------------------- proposals

type c10Prop struct {
	rn                 uint64
	vr, vh, mr, mh, mv types.Currency
}

func (p c10Prop) term() string {
	return fmt.Sprintf("(mkProp %d %s %s %s %s %s)", p.rn, c10Cur(p.vr), c10Cur(p.vh), c10Cur(p.mr), c10Cur(p.mh), c10Cur(p.mv))
}
func (p c10Prop) valid() []types.Currency  { return []types.Currency{p.vr, p.vh} }
func (p c10Prop) missed() []types.Currency { return []types.Currency{p.mr, p.mh, p.mv} }

func (p c10Prop) apply(r types.FileContractRevision) types.FileContractRevision {
	n := r
	n.RevisionNumber = p.rn
	n.ValidProofOutputs = append([]types.SiacoinOutput(nil), r.ValidProofOutputs...)
	n.MissedProofOutputs = append([]types.SiacoinOutput(nil), r.MissedProofOutputs...)
	n.ValidProofOutputs[0].Value, n.ValidProofOutputs[1].Value = p.vr, p.vh
	n.MissedProofOutputs[0].Value, n.MissedProofOutputs[1].Value = p.mr, p.mh
	if len(n.MissedProofOutputs) > 2 {
		n.MissedProofOutputs[2].Value = p.mv
	}
	return n
}

func c10Min(a, b types.Currency) types.Currency {
	if a.Cmp(b) < 0 {
		return a
	}
	return b
}

// rhp2Prop: the standard RHP2 payment revision (payment moves renter->host on the valid side and
// renter->void on the missed side, `burn` moves host->void), then optionally broken in one way.
// Returns the proposal and whether the amounts are within what the contract can pay at all.
func (c *c10Case) rhp2Prop(cur types.FileContractRevision, pay, burn types.Currency, defect int) c10Prop {
	r := c10RevOf(cur)
	pay = c10Min(pay, c10Min(r.vr, r.mr))
	burn = c10Min(burn, r.mh)
	p := c10Prop{rn: r.rn + 1, vr: r.vr.Sub(pay), vh: r.vh.Add(pay), mr: r.mr.Sub(pay), mh: r.mh.Sub(burn), mv: r.mv.Add(pay).Add(burn)}
	one := types.NewCurrency64(1)
	switch defect {
	case 1: // revision number does not increase
		p.rn = r.rn
	case 2: // valid sum changes
		p.vh = p.vh.Add(one)
	case 3: // missed sum changes
		p.mv = p.mv.Add(one)
	case 4: // renter valid != renter missed
		if !p.mr.IsZero() {
			p.mr = p.mr.Sub(one)
			p.mv = p.mv.Add(one)
		} else {
			p.rn = r.rn
		}
	case 5: // renter payout increases
		if !p.vh.IsZero() && !p.mv.IsZero() {
			p = c10Prop{rn: r.rn + 1, vr: r.vr.Add(one), vh: r.vh.Sub(c10Min(one, r.vh)), mr: r.mr.Add(one), mh: r.mh, mv: r.mv}
		}
	}
	return p
}

// rhp3Prop: a pay-by-contract revision (payment moves renter->host on both sides)
func (c *c10Case) rhp3Prop(cur types.FileContractRevision, pay types.Currency, defect int) c10Prop {
	r := c10RevOf(cur)
	pay = c10Min(pay, c10Min(r.vr, r.mr))
	p := c10Prop{rn: r.rn + 1, vr: r.vr.Sub(pay), vh: r.vh.Add(pay), mr: r.mr.Sub(pay), mh: r.mh.Add(pay), mv: r.mv}
	one := types.NewCurrency64(1)
	switch defect {
	case 1:
		p.rn = r.rn
	case 2: // the missed host payout does not receive the payment (an RHP2-style revision)
		if !pay.IsZero() {
			p.mh = r.mh
			p.mv = r.mv.Add(pay)
		} else {
			p.rn = r.rn
		}
	case 3: // sums broken
		p.vh = p.vh.Add(one)
	}
	return p
}

// ---------------------------------------------------------------- RHP2 client

func (c *c10Case) dial2() *crhp2.Transport {
	conn, err := net.Dial("tcp", c.h.rhp2Addr)
	if err != nil {
		c.h.t.Fatal(err)
	}
	tr, err := crhp2.NewRenterTransport(conn, c.h.hostKey.PublicKey())
	if err != nil {
		c.h.t.Fatal(err)
	}
	return tr
}

func c10Hash(rev types.FileContractRevision) types.Hash256 {
	h := types.NewHasher()
	rev.EncodeTo(h.E)
	return h.Sum()
}

// locked2 runs fn inside RPCLock/RPCUnlock on a fresh transport
func (c *c10Case) locked2(ct *c10Contract, fn func(tr *crhp2.Transport, rev crhp2.ContractRevision) error) error {
	c.end2()
	tr := c.dial2()
	defer tr.Close()
	rev, err := proto2.RPCLock(tr, ct.key, ct.id)
	if err != nil {
		return fmt.Errorf("lock: %w", err)
	}
	defer proto2.RPCUnlock(tr)
	return fn(tr, rev)
}

// end2 ends the RHP2 session kept open by session2, if any
func (c *c10Case) end2() {
	if c.s2tr != nil {
		if !c.s2tr.IsClosed() {
			proto2.RPCUnlock(c.s2tr)
		}
		c.s2tr.Close()
		c.s2tr, c.s2con = nil, nil
	}
}

// session2 is locked2 for the revising RPCs (write, read, sector roots), except that half of the
// time the session stays open afterwards and the next such RPC on the same contract is sent in
// it: the renter then builds on the revision the host signed last in this session, which is the
// one the host has stored.  Any other operation ends the session first.
func (c *c10Case) session2(ct *c10Contract, fn func(tr *crhp2.Transport, rev crhp2.ContractRevision) error) error {
	if c.s2tr != nil && (c.s2con != ct || c.s2tr.IsClosed()) {
		c.end2()
	}
	if c.s2tr != nil {
		stored, err := c.h.node.Contracts.Contract(ct.id)
		if err != nil {
			c.h.t.Fatal(err)
		}
		c.em.Count("rhp2:rpc-in-open-session")
		err = fn(c.s2tr, crhp2.ContractRevision{Revision: stored.Revision})
		if err != nil || !(c.keep2 || c.rng.Intn(2) == 0) {
			c.end2()
		}
		return err
	}
	tr := c.dial2()
	rev, err := proto2.RPCLock(tr, ct.key, ct.id)
	if err != nil {
		tr.Close()
		return fmt.Errorf("lock: %w", err)
	}
	err = fn(tr, rev)
	if err == nil && (c.keep2 || c.rng.Intn(2) == 0) {
		c.s2tr, c.s2con = tr, ct
		return nil
	}
	proto2.RPCUnlock(tr)
	tr.Close()
	return err
}

func (c *c10Case) settings2() crhp2.HostSettings {
	s, err := c.h.node.Settings.RHP2Settings()
	if err != nil {
		c.h.t.Fatal(err)
	}
	return s
}

func c10CostTerm(base, sto, ing, egr, coll types.Currency) string {
	return fmt.Sprintf("(mkRC %s %s %s %s %s)", c10Cur(base), c10Cur(sto), c10Cur(ing), c10Cur(egr), c10Cur(coll))
}

func (c *c10Case) fcTerm(fc types.FileContract) string {
	return fmt.Sprintf("(mkFC %s %s %s %s %s)", c10Cur(fc.ValidProofOutputs[0].Value), c10Cur(fc.ValidProofOutputs[1].Value),
		c10Cur(fc.MissedProofOutputs[0].Value), c10Cur(fc.MissedProofOutputs[1].Value), c10Cur(fc.MissedProofOutputs[2].Value))
}

// over-payments: boundary-dense
func (c *c10Case) over(cost types.Currency) types.Currency {
	switch c.rng.Intn(8) {
	case 0, 1, 2:
		c.em.Count("over:0")
		return types.ZeroCurrency
	case 3:
		c.em.Count("over:1")
		return types.NewCurrency64(1)
	case 4:
		c.em.Count("over:cost")
		return cost
	case 5:
		c.em.Count("over:2^64")
		return types.NewCurrency(0, 1)
	case 6:
		c.em.Count("over:small")
		return types.NewCurrency64(uint64(c.rng.Intn(1000)))
	default:
		c.em.Count("over:large")
		return types.Siacoins(uint32(1 + c.rng.Intn(5)))
	}
}

func (c *c10Case) form2(renterPayout, hostCollateral types.Currency, defect int) {
	c.end2()
	h := c.h
	key := types.NewPrivateKeyFromSeed(frandBytes(c.rng, 32))
	st := c.settings2()
	tr := c.dial2()
	defer tr.Close()
	fc := crhp2.PrepareContractFormation(key.PublicKey(), h.hostKey.PublicKey(), renterPayout, hostCollateral, h.node.Chain.Tip().Height+400, st, h.node.Wallet.Address())
	one := types.NewCurrency64(1)
	if defect == 1 && st.ContractPrice.IsZero() {
		defect = 2 // nothing to fall short of
	}
	switch defect {
	case 1: // host payout below the contract price
		v := st.ContractPrice.Sub(c10Min(one, st.ContractPrice))
		fc.ValidProofOutputs[1].Value, fc.MissedProofOutputs[1].Value = v, v
	case 2: // valid != missed host payout
		fc.MissedProofOutputs[1].Value = fc.MissedProofOutputs[1].Value.Add(one)
	case 3: // more than the maximum collateral
		v := st.MaxCollateral.Add(one)
		fc.ValidProofOutputs[1].Value, fc.MissedProofOutputs[1].Value = v, v
	case 4: // non-zero void output
		fc.MissedProofOutputs[2].Value = one
	}
	cost := crhp2.ContractFormationCost(h.node.Chain.TipState(), fc, st.ContractPrice)
	txn := types.Transaction{FileContracts: []types.FileContract{fc}}
	toSign, err := h.node.Wallet.FundTransaction(&txn, cost, true)
	if err != nil {
		h.t.Fatal("fund formation:", err)
	}
	h.node.Wallet.SignTransaction(&txn, toSign, wallet.ExplicitCoveredFields(txn))
	set := append(h.node.Chain.UnconfirmedParents(txn), txn)
	rev, _, err := proto2.RPCFormContract(tr, key, set)
	id := len(c.cons) + 1
	op := fmt.Sprintf("Form2 %d %s %s %s", id, c10Cur(st.ContractPrice), c10Cur(st.MaxCollateral), c.fcTerm(fc))
	if err == nil {
		c.cons = append(c.cons, &c10Contract{id: rev.ID(), key: key})
		testutil.MineAndSync(h.t, h.node, types.VoidAddress, 1)
	} else {
		h.node.Wallet.ReleaseInputs([]types.Transaction{txn}, nil)
	}
	c.em.Count(fmt.Sprintf("form2:defect=%d", defect))
	c.em.Step(op, c.observe("form2", err == nil))
}

func frandBytes(r *rand.Rand, n int) []byte {
	b := make([]byte, n)
	r.Read(b)
	return b
}

// roots2 / read2: payment revision with the renter's signature in the request
func (c *c10Case) roots2(i int, defect int) {
	ct := c.cons[i]
	if ct.sectors == 0 && !ct.cleared {
		c.read2(i, defect)
		return
	}
	st := c.settings2()
	var opTerm string
	before := c.snap(i)
	var paid types.Currency
	err := c.session2(ct, func(tr *crhp2.Transport, rev crhp2.ContractRevision) error {
		// NumRoots = 0 is never sent: rpcSectorRoots commits the revision and then panics in
		// BuildSectorRangeProof (a C14 matter, seen while building this harness)
		n := uint64(1 + c.rng.Intn(ct.sectors))
		costs := st.RPCSectorRootsCost(0, n)
		cost, _ := costs.Total()
		pay := cost.Add(c.over(cost))
		if defect == 9 && !cost.IsZero() { // short payment
			pay = cost.Sub(types.NewCurrency64(1))
		}
		p := c.rhp2Prop(rev.Revision, pay, types.ZeroCurrency, defect)
		paid = p.vh.Sub(c10Min(p.vh, rev.Revision.ValidHostPayout()))
		opTerm = fmt.Sprintf("Roots2 %d %s %s", i+1, c10CostTerm(costs.Base, costs.Storage, costs.Ingress, costs.Egress, costs.Collateral), p.term())
		nr := p.apply(rev.Revision)
		req := &crhp2.RPCSectorRootsRequest{RootOffset: 0, NumRoots: n, RevisionNumber: p.rn, ValidProofValues: p.valid(), MissedProofValues: p.missed(),
			Signature: ct.key.SignHash(c10Hash(nr))}
		if err := tr.WriteRequest(crhp2.RPCSectorRootsID, req); err != nil {
			return err
		}
		var resp crhp2.RPCSectorRootsResponse
		return tr.ReadResponse(&resp, 1<<20)
	})
	if opTerm == "" { // could not lock: the contract is cleared; the model sees the same through lock
		opTerm = fmt.Sprintf("Roots2 %d rc0 (mkProp 1 0 0 0 0 0)", i+1)
	}
	c.em.Count(fmt.Sprintf("roots2:defect=%d", defect))
	if err == nil {
		c.deltaMonitor("roots2", i, before, paid)
	}
	c.em.Step(opTerm, c.observe("roots2", err == nil))
}

func (c *c10Case) read2(i int, defect int) {
	ct := c.cons[i]
	st := c.settings2()
	var opTerm string
	before := c.snap(i)
	var paid types.Currency
	err := c.session2(ct, func(tr *crhp2.Transport, rev crhp2.ContractRevision) error {
		proof := c.rng.Intn(2) == 0
		nsec := 1 + c.rng.Intn(2)
		var sections []crhp2.RPCReadRequestSection
		for k := 0; k < nsec; k++ {
			sections = append(sections, crhp2.RPCReadRequestSection{MerkleRoot: c.h.roots[0], Offset: uint64(64 * c.rng.Intn(8)), Length: uint64(64 * (1 + c.rng.Intn(16)))})
		}
		costs, err := st.RPCReadCost(sections, proof)
		if err != nil {
			return err
		}
		cost, _ := costs.Total()
		pay := cost.Add(c.over(cost))
		if defect == 9 && !cost.IsZero() {
			pay = cost.Sub(types.NewCurrency64(1))
		}
		p := c.rhp2Prop(rev.Revision, pay, types.ZeroCurrency, defect)
		paid = p.vh.Sub(c10Min(p.vh, rev.Revision.ValidHostPayout()))
		opTerm = fmt.Sprintf("Read2 %d %s %s", i+1, c10CostTerm(costs.Base, costs.Storage, costs.Ingress, costs.Egress, costs.Collateral), p.term())
		nr := p.apply(rev.Revision)
		req := &crhp2.RPCReadRequest{Sections: sections, MerkleProof: proof, RevisionNumber: p.rn, ValidProofValues: p.valid(), MissedProofValues: p.missed(),
			Signature: ct.key.SignHash(c10Hash(nr))}
		if err := tr.WriteRequest(crhp2.RPCReadID, req); err != nil {
			return err
		}
		var rerr error
		for range sections {
			var resp crhp2.RPCReadResponse
			if err := tr.ReadResponse(&resp, 1<<20); err != nil {
				rerr = err
				break
			}
		}
		tr.WriteResponse(&crhp2.RPCReadStop)
		return rerr
	})
	if opTerm == "" {
		opTerm = fmt.Sprintf("Read2 %d rc0 (mkProp 1 0 0 0 0 0)", i+1)
	}
	c.em.Count(fmt.Sprintf("read2:defect=%d", defect))
	if err == nil {
		c.deltaMonitor("read2", i, before, paid)
	}
	c.em.Step(opTerm, c.observe("read2", err == nil))
}

func (c *c10Case) write2(i int, defect int) {
	ct := c.cons[i]
	st := c.settings2()
	var opTerm string
	before := c.snap(i)
	var paid types.Currency
	err := c.session2(ct, func(tr *crhp2.Transport, rev crhp2.ContractRevision) error {
		// actions
		var actions []crhp2.RPCWriteAction
		sectors := ct.sectors
		kind := c.rng.Intn(10)
		switch {
		case kind < 5 || sectors == 0:
			n := 1
			if c.rng.Intn(4) == 0 {
				n = 2
			}
			for k := 0; k < n; k++ {
				s := &c.h.sectors[c.rng.Intn(len(c.h.sectors))]
				actions = append(actions, crhp2.RPCWriteAction{Type: crhp2.RPCWriteActionAppend, Data: s[:]})
			}
			c.em.Count("write2:append")
		case kind < 7:
			actions = append(actions, crhp2.RPCWriteAction{Type: crhp2.RPCWriteActionTrim, A: uint64(1 + c.rng.Intn(sectors))})
			c.em.Count("write2:trim")
		case kind < 9:
			actions = append(actions, crhp2.RPCWriteAction{Type: crhp2.RPCWriteActionSwap, A: uint64(c.rng.Intn(sectors)), B: uint64(c.rng.Intn(sectors))})
			c.em.Count("write2:swap")
		default:
			s := &c.h.sectors[c.rng.Intn(len(c.h.sectors))]
			actions = append(actions, crhp2.RPCWriteAction{Type: crhp2.RPCWriteActionAppend, Data: s[:]},
				crhp2.RPCWriteAction{Type: crhp2.RPCWriteActionSwap, A: 0, B: uint64(sectors)})
			c.em.Count("write2:append+swap")
		}
		proof := c.rng.Intn(2) == 0
		remaining := rev.Revision.WindowEnd - c.h.node.Chain.Tip().Height
		costs, err := st.RPCWriteCost(actions, uint64(sectors), remaining, proof)
		if err != nil {
			return err
		}
		cost, coll := costs.Total()
		pay := cost.Add(c.over(cost))
		if defect == 9 && !cost.IsZero() {
			pay = cost.Sub(types.NewCurrency64(1))
		}
		// the host may be asked to risk anything up to the collateral
		burn := coll
		switch c.rng.Intn(4) {
		case 0:
			burn = types.ZeroCurrency
		case 1:
			burn = coll.Div64(2)
		}
		if defect == 8 {
			burn = coll.Add(types.NewCurrency64(1))
		}
		p := c.rhp2Prop(rev.Revision, pay, burn, defect)
		paid = p.vh.Sub(c10Min(p.vh, rev.Revision.ValidHostPayout()))
		opTerm = fmt.Sprintf("Write2 %d %s %s", i+1, c10CostTerm(costs.Base, costs.Storage, costs.Ingress, costs.Egress, costs.Collateral), p.term())
		req := &crhp2.RPCWriteRequest{Actions: actions, MerkleProof: proof, RevisionNumber: p.rn, ValidProofValues: p.valid(), MissedProofValues: p.missed()}
		if err := tr.WriteRequest(crhp2.RPCWriteID, req); err != nil {
			return err
		}
		var merkle crhp2.RPCWriteMerkleProof
		if err := tr.ReadResponse(&merkle, 1<<20); err != nil {
			return err
		}
		nr := p.apply(rev.Revision)
		size := rev.Revision.Filesize
		for _, a := range actions {
			switch a.Type {
			case crhp2.RPCWriteActionAppend:
				size += crhp2.SectorSize
			case crhp2.RPCWriteActionTrim:
				size -= crhp2.SectorSize * a.A
			}
		}
		nr.Filesize = size
		nr.FileMerkleRoot = merkle.NewMerkleRoot
		sig := &crhp2.RPCWriteResponse{Signature: ct.key.SignHash(c10Hash(nr))}
		if err := tr.WriteResponse(sig); err != nil {
			return err
		}
		var hostSig crhp2.RPCWriteResponse
		return tr.ReadResponse(&hostSig, 4096)
	})
	if opTerm == "" {
		opTerm = fmt.Sprintf("Write2 %d rc0 (mkProp 1 0 0 0 0 0)", i+1)
	}
	c.em.Count(fmt.Sprintf("write2:defect=%d", defect))
	if err == nil {
		c.deltaMonitor("write2", i, before, paid)
	}
	c.em.Step(opTerm, c.observe("write2", err == nil))
}

func (c *c10Case) renew2(i int, defect int) {
	h := c.h
	ct := c.cons[i]
	st := c.settings2()
	var opTerm string
	var newRev crhp2.ContractRevision
	var renewTxn types.Transaction
	before := c.snap(i)
	var finalPay types.Currency
	err := c.locked2(ct, func(tr *crhp2.Transport, rev crhp2.ContractRevision) error {
		cur := rev.Revision
		ext := uint64(0)
		if c.rng.Intn(3) > 0 {
			ext = uint64(1 + c.rng.Intn(20))
		}
		endHeight := cur.WindowEnd - st.WindowSize + ext // new window start; new window end = old + ext
		newColl := types.Siacoins(uint32(c.rng.Intn(3))).Add(types.NewCurrency64(uint64(c.rng.Intn(1000))))
		renterPayout := types.Siacoins(uint32(5 + c.rng.Intn(10)))
		fc, basePrice := crhp2.PrepareContractRenewal(cur, h.node.Wallet.Address(), renterPayout, newColl, st, endHeight)
		one := types.NewCurrency64(1)
		switch defect {
		case 1: // host payout below contract price + base price
			// (only when there is something to fall short of: otherwise the contract would be
			// acceptable to the host but no longer consistent with its payout field)
			if fc.ValidProofOutputs[1].Value.Cmp(fc.MissedProofOutputs[2].Value) > 0 && !st.ContractPrice.Add(basePrice).IsZero() {
				v := st.ContractPrice.Add(basePrice).Sub(c10Min(one, st.ContractPrice.Add(basePrice)))
				fc.ValidProofOutputs[1].Value = v
				fc.MissedProofOutputs[1].Value = types.ZeroCurrency
				fc.MissedProofOutputs[2].Value = v
			}
		case 2: // void output differs from the burn
			fc.MissedProofOutputs[2].Value = fc.MissedProofOutputs[2].Value.Add(one)
		}
		// final exchange: the base RPC price (capped by what the renter has), possibly over-paid
		exchange := c10Min(st.BaseRPCPrice, cur.ValidRenterPayout())
		finalPay = c10Min(exchange.Add(c.over(exchange)), cur.ValidRenterPayout())
		if defect == 9 && !exchange.IsZero() {
			finalPay = exchange.Sub(one)
		}
		extb := uint64(0)
		if fc.WindowEnd > cur.WindowEnd {
			extb = fc.WindowEnd - cur.WindowEnd
		}
		finVr, finVh := cur.ValidRenterPayout().Sub(finalPay), cur.ValidHostPayout().Add(finalPay)
		opTerm = fmt.Sprintf("Renew2 %d %d %s %s %s %s %s %d %d %s %s %s", i+1, len(c.cons)+1, c10Cur(st.BaseRPCPrice), c10Cur(st.ContractPrice),
			c10Cur(st.StoragePrice), c10Cur(st.Collateral), c10Cur(st.MaxCollateral), fc.Filesize, extb, c10Cur(finVr), c10Cur(finVh), c.fcTerm(fc))
		renewTxn = types.Transaction{FileContracts: []types.FileContract{fc}}
		cost := crhp2.ContractRenewalCost(h.node.Chain.TipState(), fc, st.ContractPrice, types.ZeroCurrency, basePrice)
		toSign, err := h.node.Wallet.FundTransaction(&renewTxn, cost, true)
		if err != nil {
			h.t.Fatal("fund renewal:", err)
		}
		h.node.Wallet.SignTransaction(&renewTxn, toSign, wallet.ExplicitCoveredFields(renewTxn))
		set := append(h.node.Chain.UnconfirmedParents(renewTxn), renewTxn)
		newRev, _, err = proto2.RPCRenewContract(tr, ct.key, &rev, set, finalPay)
		return err
	})
	if opTerm == "" {
		opTerm = fmt.Sprintf("Renew2 %d %d 0 0 0 0 0 0 0 0 0 (mkFC 0 0 0 0 0)", i+1, len(c.cons)+1)
	}
	c.em.Count(fmt.Sprintf("renew2:defect=%d", defect))
	if err != nil {
		msg := err.Error()
		if len(msg) > 90 {
			msg = msg[len(msg)-90:]
		}
		c.em.Count("renew2:err:" + msg)
	}
	if err == nil {
		c.deltaMonitor("renew2-cleared", i, before, finalPay)
		c.cons = append(c.cons, &c10Contract{id: newRev.ID(), key: ct.key})
		testutil.MineAndSync(h.t, h.node, types.VoidAddress, 1)
	} else if len(renewTxn.FileContracts) > 0 {
		h.node.Wallet.ReleaseInputs([]types.Transaction{renewTxn}, nil)
	}
	c.em.Step(opTerm, c.observe("renew2", err == nil))
}

// ---------------------------------------------------------------- RHP3 client

func (c *c10Case) dial3() *crhp3.Transport {
	conn, err := net.Dial("tcp", c.h.rhp3Addr)
	if err != nil {
		c.h.t.Fatal(err)
	}
	tr, err := crhp3.NewRenterTransport(conn, c.h.hostKey.PublicKey())
	if err != nil {
		c.h.t.Fatal(err)
	}
	return tr
}

// a payment as the model sees it and as it goes on the wire
type c10Pay struct {
	byContract bool
	con        int // contract index
	acct       int // refund account / paying account index
	prop       c10Prop
	amount     types.Currency
}

func (p c10Pay) term() string {
	if p.byContract {
		return fmt.Sprintf("(PayContract %d %d %s)", p.con+1, p.acct+1, p.prop.term())
	}
	return fmt.Sprintf("(PayAccount %d %s)", p.acct+1, c10Cur(p.amount))
}

func (c *c10Case) writePayment(s *crhp3.Stream, p c10Pay, height uint64) error {
	if p.byContract {
		ct := c.cons[p.con]
		cur := c.contract(p.con).Revision
		nr := p.prop.apply(cur)
		req := crhp3.PayByContractRequest{ContractID: ct.id, RevisionNumber: p.prop.rn, ValidProofValues: p.prop.valid(), MissedProofValues: p.prop.missed(),
			RefundAccount: crhp3.Account(c.accts[p.acct].PublicKey())}
		if len(cur.MissedProofOutputs) == 2 {
			req.MissedProofValues = req.MissedProofValues[:2]
		}
		req.Signature = ct.key.SignHash(req.SigHash(nr))
		if err := s.WriteResponse(&crhp3.PaymentTypeContract); err != nil {
			return err
		} else if err := s.WriteResponse(&req); err != nil {
			return err
		}
		var resp crhp3.PaymentResponse
		return s.ReadResponse(&resp, 4096)
	}
	k := c.accts[p.acct]
	req := crhp3.PayByEphemeralAccount(crhp3.Account(k.PublicKey()), p.amount, height+6, k)
	if err := s.WriteResponse(&crhp3.PaymentTypeEphemeralAccount); err != nil {
		return err
	}
	return s.WriteResponse(&req)
}

// choosePay picks a payment for an RPC that costs `cost`: by contract (with over-payment that
// stays in the refund account) or from an account (budget >= or < cost)
func (c *c10Case) choosePay(cost types.Currency, short bool) c10Pay {
	// candidate accounts with enough balance
	if c.rng.Intn(2) == 0 {
		a := c.rng.Intn(len(c.accts))
		bal, _ := c.h.node.Accounts.Balance(crhp3.Account(c.accts[a].PublicKey()))
		amount := cost.Add(c.over(cost))
		if short && !cost.IsZero() {
			amount = cost.Sub(types.NewCurrency64(1))
		}
		if amount.IsZero() {
			amount = types.NewCurrency64(1)
		}
		if bal.Cmp(amount) >= 0 || c.rng.Intn(6) == 0 {
			c.em.Count("pay:account")
			return c10Pay{acct: a, amount: amount}
		}
	}
	i := c.anyOpen()
	cur := c.contract(i).Revision
	amount := cost.Add(c.over(cost))
	if short && !cost.IsZero() {
		amount = cost.Sub(types.NewCurrency64(1))
	}
	defect := 0
	if c.rng.Intn(12) == 0 {
		defect = 1 + c.rng.Intn(3)
	}
	c.em.Count(fmt.Sprintf("pay:contract:defect=%d", defect))
	var p c10Prop
	if c.cons[i].cleared {
		p = c10Prop{rn: 1}
	} else {
		p = c.rhp3Prop(cur, amount, defect)
	}
	return c10Pay{byContract: true, con: i, acct: c.rng.Intn(len(c.accts)), prop: p}
}

// simple3: update price table / account balance / latest revision: pay, spend one cost, commit
func (c *c10Case) simple3(which int, forcePay *c10Pay) {
	c.end2()
	tr := c.dial3()
	defer tr.Close()
	s := tr.DialStream()
	defer s.Close()
	s.SetDeadline(time.Now().Add(30 * time.Second))
	var cost types.Currency
	var pay c10Pay
	var err error
	kind := ""
	switch which {
	case 0: // price table
		kind = "pricetable3"
		err = s.WriteRequest(crhp3.RPCUpdatePriceTableID, nil)
		var resp crhp3.RPCUpdatePriceTableResponse
		var pt crhp3.HostPriceTable
		if err == nil {
			err = s.ReadResponse(&resp, 1<<16)
		}
		if err == nil {
			err = json.Unmarshal(resp.PriceTableJSON, &pt)
		}
		if err != nil {
			c.h.t.Fatal("price table:", err)
		}
		cost = pt.UpdatePriceTableCost
		if forcePay != nil {
			pay = *forcePay
		} else {
			pay = c.choosePay(cost, c.rng.Intn(10) == 0)
		}
		err = c.writePayment(s, pay, pt.HostBlockHeight)
		if err == nil {
			var confirm crhp3.RPCPriceTableResponse
			err = s.ReadResponse(&confirm, 4096)
		}
		if err == nil {
			c.pt, c.hasPT = pt, true
		}
	case 1: // account balance
		kind = "balance3"
		cost = c.pt.AccountBalanceCost
		pay = c.choosePay(cost, c.rng.Intn(10) == 0)
		err = s.WriteRequest(crhp3.RPCAccountBalanceID, &c.pt.UID)
		if err == nil {
			err = c.writePayment(s, pay, c.pt.HostBlockHeight)
		}
		if err == nil {
			req := crhp3.RPCAccountBalanceRequest{Account: crhp3.Account(c.accts[0].PublicKey())}
			err = s.WriteResponse(&req)
		}
		if err == nil {
			var resp crhp3.RPCAccountBalanceResponse
			err = s.ReadResponse(&resp, 4096)
		}
	default: // latest revision
		kind = "latestrev3"
		cost = c.pt.LatestRevisionCost
		pay = c.choosePay(cost, c.rng.Intn(10) == 0)
		req := crhp3.RPCLatestRevisionRequest{ContractID: c.cons[0].id}
		err = s.WriteRequest(crhp3.RPCLatestRevisionID, &req)
		var resp crhp3.RPCLatestRevisionResponse
		if err == nil {
			err = s.ReadResponse(&resp, 1<<16)
		}
		if err == nil {
			err = s.WriteResponse(&c.pt.UID)
		}
		if err == nil {
			err = c.writePayment(s, pay, c.pt.HostBlockHeight)
		}
		if err == nil {
			// the handler sends nothing after the payment: an error response means it refused
			var dummy crhp3.RPCPriceTableResponse
			if rerr := s.ReadResponse(&dummy, 4096); rerr != nil && !c10Closed(rerr) {
				err = rerr
			}
		}
	}
	c.finish3(s, tr)
	c.em.Step(fmt.Sprintf("Simple3 %s %s", pay.term(), c10Cur(cost)), c.observe(kind, err == nil))
}

// finish3 waits until the host's handler has returned (it closes the stream after its deferred
// commit / rollback ran), then until every contract lock is released
func (c *c10Case) finish3(s *crhp3.Stream, tr *crhp3.Transport) {
	s.SetDeadline(time.Now().Add(20 * time.Second))
	for k := 0; k < 16; k++ {
		var dummy crhp3.RPCPriceTableResponse
		if err := s.ReadResponse(&dummy, 8<<20); err != nil && c10Closed(err) {
			break
		} else if err != nil && strings.Contains(err.Error(), "deadline") {
			c.h.t.Fatal("host handler did not finish:", err)
		}
	}
	s.Close()
	tr.Close()
	c.waitUnlocked()
}

func c10Closed(err error) bool {
	return err != nil && (strings.Contains(err.Error(), "closed") || strings.Contains(err.Error(), "EOF"))
}

func (c *c10Case) fund3(i, a int, defect int) {
	c.end2()
	ct := c.cons[i]
	cur := c.contract(i).Revision
	maxBal := c.h.node.Settings.Settings().MaxAccountBalance
	cost := c.pt.FundAccountCost
	var amount types.Currency
	switch c.rng.Intn(6) {
	case 0:
		amount = types.ZeroCurrency
	case 1:
		amount = types.NewCurrency64(uint64(1 + c.rng.Intn(100000)))
	case 2:
		amount = maxBal // likely exceeds the cap together with the current balance
	default:
		amount = types.Siacoins(1).Div64(uint64(1 + c.rng.Intn(50)))
	}
	if c.forceFund != nil {
		amount = *c.forceFund
	}
	total := cost.Add(amount) // never below the cost: the handler's Sub would take the host down (C14)
	var p c10Prop
	if ct.cleared {
		p = c10Prop{rn: 1}
	} else {
		p = c.rhp3Prop(cur, total, defect)
		if got := c10RevOf(cur).vr.Sub(c10Min(p.vr, c10RevOf(cur).vr)); got.Cmp(cost) < 0 {
			// the contract cannot pay the cost any more: make the revision invalid instead of short
			p.rn = cur.RevisionNumber
		}
	}
	before := c.snap(i)
	tr := c.dial3()
	defer tr.Close()
	s := tr.DialStream()
	defer s.Close()
	s.SetDeadline(time.Now().Add(30 * time.Second))
	err := s.WriteRequest(crhp3.RPCFundAccountID, &c.pt.UID)
	if err == nil {
		req := &crhp3.RPCFundAccountRequest{Account: crhp3.Account(c.accts[a].PublicKey())}
		err = s.WriteResponse(req)
	}
	if err == nil {
		err = c.writePayment(s, c10Pay{byContract: true, con: i, acct: a, prop: p}, c.pt.HostBlockHeight)
	}
	if err == nil {
		var resp crhp3.RPCFundAccountResponse
		err = s.ReadResponse(&resp, 4096)
	}
	c.finish3(s, tr)
	c.em.Count(fmt.Sprintf("fund3:defect=%d", defect))
	if err == nil {
		c.deltaMonitor("fund3", i, before, p.vh.Sub(cur.ValidHostPayout()))
	}
	c.em.Step(fmt.Sprintf("Fund3 %d %d %s %s %s", i+1, a+1, c10Cur(cost), c10Cur(maxBal), p.term()), c.observe("fund3", err == nil))
}

// one generated MDM instruction with what the model needs to know about it
type c10Instr struct {
	instr crhp3.Instruction
	kind  string // KPlain | KRegRead | KRegWrite
	cost  crhp3.ResourceCost
	pre   bool
	post  bool
	con   bool
	fin   bool
	name  string
}

func (i c10Instr) term() string {
	return fmt.Sprintf("mkI %s %s %s %s %s %s", i.kind, c10CostTerm(i.cost.Base, i.cost.Storage, i.cost.Ingress, i.cost.Egress, i.cost.Collateral),
		coqBool(i.pre), coqBool(i.post), coqBool(i.con), coqBool(i.fin))
}

func (c *c10Case) exec3() {
	c.end2()
	pt := c.pt
	// the program's contract (if it needs one)
	ci := c.anyOpen()
	ct := c.cons[ci]
	cur := c.contract(ci).Revision
	remaining := cur.WindowEnd - pt.HostBlockHeight
	var data []byte
	var prog []c10Instr
	sectors := ct.sectors
	put := func(b []byte) uint64 {
		off := uint64(len(data))
		data = append(data, b...)
		return off
	}
	u64 := func(v uint64) []byte {
		b := make([]byte, 8)
		binary.LittleEndian.PutUint64(b, v)
		return b
	}
	// registry state as the program sees it while it runs
	reg := map[int]uint64{}
	for k, v := range c.regRev {
		reg[k] = v
	}
	var pending []c10RegWrite
	n := 1 + c.rng.Intn(3)
	appended := false
	if c.forceProg != nil {
		prog = c.forceProg(put, u64)
		n = 0
	}
	for k := 0; k < n; k++ {
		switch r := c.rng.Intn(14); {
		case r < 2 && !appended: // append a sector (at most one per program: 4 MiB of data)
			s := &c.h.sectors[c.rng.Intn(len(c.h.sectors))]
			off := put(s[:])
			prog = append(prog, c10Instr{instr: &crhp3.InstrAppendSector{SectorDataOffset: off, ProofRequired: c.rng.Intn(2) == 0}, kind: "KPlain",
				cost: pt.AppendSectorCost(remaining), pre: true, post: true, con: true, fin: true, name: "append"})
			sectors++
			appended = true
		case r < 3: // append a root the host already stores (or does not)
			root := c.h.roots[0]
			known := c.hostHas(root)
			off := put(root[:])
			prog = append(prog, c10Instr{instr: &crhp3.InstrAppendSectorRoot{MerkleRootOffset: off, ProofRequired: false}, kind: "KPlain",
				cost: pt.AppendSectorRootCost(remaining), pre: true, post: known, con: true, fin: true, name: "appendroot"})
			if known {
				sectors++
			}
		case r < 4 && sectors > 0: // drop
			cnt := uint64(1 + c.rng.Intn(sectors))
			off := put(u64(cnt))
			prog = append(prog, c10Instr{instr: &crhp3.InstrDropSectors{SectorCountOffset: off, ProofRequired: false}, kind: "KPlain",
				cost: pt.DropSectorsCost(cnt), pre: true, post: true, con: true, fin: true, name: "drop"})
			sectors -= int(cnt)
		case r < 5 && sectors > 1: // swap
			a, b := uint64(c.rng.Intn(sectors)), uint64(c.rng.Intn(sectors))
			oa, ob := put(u64(a)), put(u64(b))
			prog = append(prog, c10Instr{instr: &crhp3.InstrSwapSector{Sector1Offset: oa, Sector2Offset: ob, ProofRequired: false}, kind: "KPlain",
				cost: pt.SwapSectorCost(), pre: true, post: true, con: true, fin: true, name: "swap"})
		case r < 6: // has sector
			off := put(c.h.roots[c.rng.Intn(len(c.h.roots))][:])
			prog = append(prog, c10Instr{instr: &crhp3.InstrHasSector{MerkleRootOffset: off}, kind: "KPlain", cost: pt.HasSectorCost(), pre: true, post: true, name: "has"})
		case r < 8: // read sector: stored / unknown root / zero length
			root := c.h.roots[c.rng.Intn(len(c.h.roots))]
			length := uint64(64 * (1 + c.rng.Intn(32)))
			pre, post := true, c.hostHas(root)
			if c.rng.Intn(16) == 0 {
				length, pre = 0, false
			}
			ol, oo, or := put(u64(length)), put(u64(0)), put(root[:])
			prog = append(prog, c10Instr{instr: &crhp3.InstrReadSector{LengthOffset: ol, OffsetOffset: oo, MerkleRootOffset: or, ProofRequired: c.rng.Intn(2) == 0}, kind: "KPlain",
				cost: pt.ReadSectorCost(length), pre: pre, post: post, name: "readsector"})
		case r < 9 && sectors > 0 && c.rng.Intn(2) == 0: // read at an offset of the contract
			length := uint64(64 * (1 + c.rng.Intn(32)))
			offset := uint64(c.rng.Intn(sectors))*crhp2.SectorSize + uint64(64*c.rng.Intn(16))
			ol, oo := put(u64(length)), put(u64(offset))
			prog = append(prog, c10Instr{instr: &crhp3.InstrReadOffset{LengthOffset: ol, OffsetOffset: oo, ProofRequired: c.rng.Intn(2) == 0}, kind: "KPlain",
				cost: pt.ReadOffsetCost(length), pre: true, post: true, con: true, name: "readoffset"})
		case r < 9 && sectors > 0 && c.rng.Intn(2) == 0: // patch a sector of the contract (a fixed patch: few distinct sectors)
			length := uint64(64)
			offset := uint64(c.rng.Intn(sectors)) * crhp2.SectorSize
			od := put(bytes.Repeat([]byte{0xAB}, int(length)))
			prog = append(prog, c10Instr{instr: &crhp3.InstrUpdateSector{Offset: offset, Length: length, DataOffset: od, ProofRequired: false}, kind: "KPlain",
				cost: pt.UpdateSectorCost(length), pre: true, post: true, con: true, fin: true, name: "updatesector"})
		case r < 9: // revision
			prog = append(prog, c10Instr{instr: &crhp3.InstrRevision{}, kind: "KPlain", cost: pt.RevisionCost(), pre: true, post: true, con: true, name: "revision"})
		case r < 10: // store a temporary sector (small programs only: 4 MiB)
			if appended {
				continue
			}
			s := &c.h.sectors[c.rng.Intn(len(c.h.sectors))]
			off := put(s[:])
			dur := uint64(1 + c.rng.Intn(10))
			prog = append(prog, c10Instr{instr: &crhp3.InstrStoreSector{DataOffset: off, Duration: dur}, kind: "KPlain", cost: pt.StoreSectorCost(dur), pre: true, post: true, name: "store"})
			appended = true
		case r < 12 && (len(reg) > 0 || c.rng.Intn(4) == 0): // read registry (mostly once something was written)
			ki := c.rng.Intn(3)
			if _, exists := reg[ki]; !exists && c.rng.Intn(4) > 0 {
				for k2 := 0; k2 < 3; k2++ { // mostly read keys that exist
					if _, ok := reg[k2]; ok {
						ki = k2
						break
					}
				}
			}
			uk := c.regKey.PublicKey().UnlockKey()
			var tweak types.Hash256
			tweak[0] = byte(ki + 1)
			ok := put(append(append([]byte{}, uk.Algorithm[:]...), uk.Key...))
			ot := put(tweak[:])
			_, exists := reg[ki]
			prog = append(prog, c10Instr{instr: &crhp3.InstrReadRegistry{PublicKeyOffset: ok, PublicKeyLength: 48, TweakOffset: ot, Version: 2}, kind: "KRegRead",
				cost: pt.ReadRegistryCost(), pre: true, post: exists, name: "readregistry"})
		default: // update registry
			ki := c.rng.Intn(3)
			var tweak types.Hash256
			tweak[0] = byte(ki + 1)
			revn := reg[ki] + 1
			good := true
			if _, exists := reg[ki]; exists && c.rng.Intn(4) == 0 {
				revn, good = reg[ki]-c10MinU(reg[ki], 1), false // not newer: rejected after payment
			}
			val := crhp3.RegistryEntry{RegistryKey: crhp3.RegistryKey{PublicKey: c.regKey.PublicKey(), Tweak: tweak},
				RegistryValue: crhp3.RegistryValue{Revision: revn, Type: crhp3.EntryTypeArbitrary, Data: []byte{byte(revn), 1, 2}}}
			val.Signature = c.regKey.SignHash(val.Hash())
			uk := c.regKey.PublicKey().UnlockKey()
			ot, orv, os := put(tweak[:]), put(u64(revn)), put(val.Signature[:])
			ok := put(append(append([]byte{}, uk.Algorithm[:]...), uk.Key...))
			od := put(val.Data)
			// note: the executor prices UpdateRegistry with ReadRegistryCost (execute.go)
			prog = append(prog, c10Instr{instr: &crhp3.InstrUpdateRegistry{TweakOffset: ot, RevisionOffset: orv, SignatureOffset: os, PublicKeyOffset: ok, PublicKeyLength: 48,
				DataOffset: od, DataLength: uint64(len(val.Data)), EntryType: crhp3.EntryTypeArbitrary}, kind: "KRegWrite", cost: pt.ReadRegistryCost(), pre: true, post: good, name: "updateregistry"})
			if good {
				reg[ki] = revn
				pending = append(pending, c10RegWrite{idx: len(prog) - 1, key: ki, rev: revn})
			}
		}
	}
	if len(prog) == 0 {
		off := put(c.h.roots[0][:])
		prog = append(prog, c10Instr{instr: &crhp3.InstrHasSector{MerkleRootOffset: off}, kind: "KPlain", cost: pt.HasSectorCost(), pre: true, post: true, name: "has"})
	}
	needc, needf := false, false
	total := pt.InitBaseCost
	var instrs []crhp3.Instruction
	var terms []string
	for _, in := range prog {
		needc = needc || in.con || in.fin
		needf = needf || in.fin
		t, _ := in.cost.Total()
		total = total.Add(t)
		instrs = append(instrs, in.instr)
		terms = append(terms, in.term())
		c.em.Count("instr:" + in.name)
	}
	// budget: enough (with over-payment), or one hasting short of the whole program
	short := c.rng.Intn(8) == 0
	var pay c10Pay
	if c.forcePay != nil {
		pay = *c.forcePay
	} else {
		pay = c.choosePay(total, short)
	}
	// the payment may revise the program's own contract: finalisation builds on the revision after it
	base := cur
	if pay.byContract && pay.con == ci {
		base = pay.prop.apply(cur)
	}

	req := crhp3.RPCExecuteProgramRequest{Program: instrs, ProgramData: data}
	pcTerm := "None"
	if needc && c.rng.Intn(12) > 0 {
		req.FileContractID = ct.id
		pcTerm = fmt.Sprintf("(Some %d)", ci+1)
	} else if !needc && c.rng.Intn(3) == 0 {
		req.FileContractID = ct.id // harmless: not used by the program
	}

	tr := c.dial3()
	defer tr.Close()
	s := tr.DialStream()
	defer s.Close()
	s.SetDeadline(time.Now().Add(60 * time.Second))
	c.lastExecuted = 0
	finProp := c10Prop{}
	err := s.WriteRequest(crhp3.RPCExecuteProgramID, &pt.UID)
	if err == nil {
		err = c.writePayment(s, pay, pt.HostBlockHeight)
	}
	if err == nil {
		err = s.WriteResponse(&req)
	}
	if err == nil {
		var cancel types.Specifier
		err = s.ReadResponse(&cancel, 4096)
	}
	var last crhp3.RPCExecuteProgramResponse
	if err == nil {
		for range prog {
			var resp crhp3.RPCExecuteProgramResponse
			if err = s.ReadResponse(&resp, 8<<20); err != nil {
				break
			} else if resp.Error != nil {
				err = resp.Error
				break
			}
			last = resp
			c.lastExecuted++
		}
	}
	if err == nil && needf {
		// finalise: burn anything up to collateral + storage from the host's missed payout
		r := c10RevOf(base)
		maxBurn := c10Min(last.AdditionalCollateral.Add(last.FailureRefund), r.mh)
		burn := maxBurn
		defect := 0
		switch c.rng.Intn(8) {
		case 0:
			burn = types.ZeroCurrency
		case 1:
			burn = maxBurn.Div64(2)
		case 2:
			defect = 1 // burns more than allowed
			burn = last.AdditionalCollateral.Add(last.FailureRefund).Add(types.NewCurrency64(1))
			if burn.Cmp(r.mh) > 0 {
				burn, defect = maxBurn, 0
			}
		case 3:
			defect = 2 // moves renter funds
		}
		finProp = c10Prop{rn: r.rn + 1, vr: r.vr, vh: r.vh, mr: r.mr, mh: r.mh.Sub(burn), mv: r.mv.Add(burn)}
		if defect == 2 && !r.vr.IsZero() {
			one := types.NewCurrency64(1)
			finProp.vr, finProp.vh, finProp.mr, finProp.mv = r.vr.Sub(one), r.vh.Add(one), r.mr.Sub(one), finProp.mv.Add(one)
		}
		c.em.Count(fmt.Sprintf("finalize:defect=%d", defect))
		nr := finProp.apply(base)
		nr.Filesize = last.NewSize
		nr.FileMerkleRoot = last.NewMerkleRoot
		freq := crhp3.RPCFinalizeProgramRequest{Signature: ct.key.SignHash(c10Hash(nr)), RevisionNumber: finProp.rn, ValidProofValues: finProp.valid(), MissedProofValues: finProp.missed()}
		if err = s.WriteResponse(&freq); err == nil {
			var fresp crhp3.RPCFinalizeProgramResponse
			err = s.ReadResponse(&fresp, 4096)
		}
	}
	c.finish3(s, tr)
	for _, w := range pending {
		if w.idx < c.lastExecuted {
			c.regRev[w.key] = w.rev
		}
	}
	if err != nil {
		msg := err.Error()
		if len(msg) > 60 {
			msg = msg[:60]
		}
		c.em.Count("exec3:err:" + msg)
	}
	c.em.Count(fmt.Sprintf("exec3:len=%d,fin=%v", len(prog), needf))
	c.em.Step(fmt.Sprintf("Exec3 %s %s %s [%s] %s", pay.term(), pcTerm, c10Cur(pt.InitBaseCost), strings.Join(terms, "; "), finProp.term()),
		c.observe("exec3", err == nil))
}

type c10RegWrite struct {
	idx, key int
	rev      uint64
}

func c10MinU(a, b uint64) uint64 {
	if a < b {
		return a
	}
	return b
}

func (c *c10Case) hostHas(root types.Hash256) bool {
	ok, err := c.h.node.Volumes.HasSector(root)
	return err == nil && ok
}

// waitUnlocked waits until the handlers of the previous RPC have released every contract of the
// case (a handler may still be committing after it sent its last response)
func (c *c10Case) waitUnlocked() {
	for _, ct := range c.cons {
		ctx, cancel := context.WithTimeout(context.Background(), 20*time.Second)
		_, err := c.h.node.Contracts.Lock(ctx, ct.id)
		cancel()
		if err == nil {
			c.h.node.Contracts.Unlock(ct.id)
		}
	}
}

func (c *c10Case) renew3(i int) {
	c.end2()
	h := c.h
	ct := c.cons[i]
	cur := c.contract(i)
	pt, err := h.node.Settings.RHP3PriceTable()
	if err != nil {
		h.t.Fatal(err)
	}
	ext := uint64(0)
	if c.rng.Intn(3) > 0 {
		ext = uint64(1 + c.rng.Intn(20))
	}
	endHeight := cur.Revision.WindowEnd - pt.WindowSize + ext
	newColl := types.Siacoins(uint32(c.rng.Intn(3))).Add(types.NewCurrency64(uint64(c.rng.Intn(1000))))
	renterPayout := types.Siacoins(uint32(5 + c.rng.Intn(10)))
	opTerm := fmt.Sprintf("Renew3 %d %d 0 0 0 0 0 0 0 0 0 (mkFC 0 0 0 0 0)", i+1, len(c.cons)+1)
	var rerr error
	var newRev crhp2.ContractRevision
	if ct.cleared {
		// the session helper would refuse locally; the host refuses through Lock
		rerr = errors.New("cleared")
	} else {
		sess, err := proto3.NewSession(context.Background(), h.hostKey.PublicKey(), h.rhp3Addr, h.node.Chain, h.node.Wallet)
		if err != nil {
			h.t.Fatal(err)
		}
		defer sess.Close()
		rev := crhp2.ContractRevision{Revision: cur.Revision}
		// mirror of the helper's payout computation, for the model
		basePrice := pt.RenewContractCost
		baseColl := types.ZeroCurrency
		extb := uint64(0)
		if endHeight+pt.WindowSize > cur.Revision.WindowEnd {
			extb = endHeight + pt.WindowSize - cur.Revision.WindowEnd
			basePrice = basePrice.Add(pt.WriteStoreCost.Mul64(cur.Revision.Filesize).Mul64(extb))
			baseColl = pt.CollateralCost.Mul64(cur.Revision.Filesize).Mul64(extb)
		}
		hv := pt.ContractPrice.Add(basePrice).Add(baseColl).Add(newColl)
		void := basePrice.Add(baseColl)
		opTerm = fmt.Sprintf("Renew3 %d %d %s %s %s %s %s %d %d %s %s (mkFC %s %s %s %s %s)", i+1, len(c.cons)+1, c10Cur(pt.RenewContractCost), c10Cur(pt.ContractPrice),
			c10Cur(pt.WriteStoreCost), c10Cur(pt.CollateralCost), c10Cur(pt.MaxCollateral), cur.Revision.Filesize, extb,
			c10Cur(cur.Revision.ValidRenterPayout()), c10Cur(cur.Revision.ValidHostPayout()),
			c10Cur(renterPayout), c10Cur(hv), c10Cur(renterPayout), c10Cur(hv.Sub(void)), c10Cur(void))
		newRev, _, rerr = sess.RenewContract(&rev, h.node.Wallet.Address(), ct.key, renterPayout, newColl, endHeight)
	}
	if rerr == nil {
		c.cons = append(c.cons, &c10Contract{id: newRev.ID(), key: ct.key})
		testutil.MineAndSync(h.t, h.node, types.VoidAddress, 1)
	}
	c.waitUnlocked()
	c.em.Step(opTerm, c.observe("renew3", rerr == nil))
}

// ---------------------------------------------------------------- cases

func (c *c10Case) randomSettings() {
	h := c.h
	s := h.node.Settings.Settings()
	pick := func(vals ...uint64) types.Currency { return types.NewCurrency64(vals[c.rng.Intn(len(vals))]) }
	s.AcceptingContracts = true
	s.NetAddress = h.rhp3Addr
	s.MaxCollateral = types.Siacoins(1000)
	s.MaxAccountBalance = types.Siacoins(uint32(1 + c.rng.Intn(3)))
	s.ContractPrice = pick(0, 1, 1000, 200000000000000000).Mul64(uint64(1 + c.rng.Intn(3)))
	s.BaseRPCPrice = pick(0, 1, 7, 1000000000000)
	s.SectorAccessPrice = pick(0, 1, 13, 1000000000000)
	s.StoragePrice = pick(0, 1, 3, 50000)
	s.IngressPrice = pick(0, 1, 5, 10000)
	s.EgressPrice = pick(0, 1, 11, 500000)
	s.CollateralMultiplier = []float64{0, 1, 2, 2.5}[c.rng.Intn(4)]
	s.MaxRegistryEntries = 1 << 30
	if err := h.node.Settings.UpdateSettings(s); err != nil {
		h.t.Fatal(err)
	}
}

func (c *c10Case) anyOpen() int {
	var open []int
	for i, ct := range c.cons {
		if !ct.cleared {
			open = append(open, i)
		}
	}
	if len(open) == 0 || c.rng.Intn(15) == 0 {
		return c.rng.Intn(len(c.cons)) // sometimes a cleared contract: must be refused
	}
	return open[c.rng.Intn(len(open))]
}

func (c *c10Case) defect(max int) int {
	if c.rng.Intn(7) == 0 {
		d := 1 + c.rng.Intn(max)
		if c.rng.Intn(3) == 0 {
			d = 9 // short payment
		}
		return d
	}
	return 0
}

func (c *c10Case) run(id int) {
	c.em.BeginCase(id, "rhp2/rhp3 rpc sequence")
	c.randomSettings()
	for i := 0; i < 3; i++ {
		c.accts = append(c.accts, types.NewPrivateKeyFromSeed(frandBytes(c.rng, 32)))
	}
	c.regKey = types.NewPrivateKeyFromSeed(frandBytes(c.rng, 32))
	c.regRev = map[int]uint64{}
	form := func() {
		coll := types.Siacoins(uint32(c.rng.Intn(20))).Add(types.NewCurrency64(uint64(c.rng.Intn(1000))))
		if c.rng.Intn(6) == 0 {
			coll = types.ZeroCurrency
		}
		c.form2(types.Siacoins(uint32(20+c.rng.Intn(30))), coll, 0)
	}
	switch id {
	case 0:
		// directed: the registry regression (fix cb8ed00) — registry programs paid by contract and by account
		form()
		p := c.rhp3Prop(c.contract(0).Revision, types.NewCurrency64(1000), 0)
		c.simple3(0, &c10Pay{byContract: true, con: 0, acct: 0, prop: p})
		c.directedRegistry()
	case 1:
		// directed: over-payment on every RHP2 RPC, then renew-and-clear with an over-paid final exchange
		form()
		c.keep2 = true // ... all in one session: every RPC builds on what the previous one signed
		c.write2(0, 0)
		c.roots2(0, 0)
		c.read2(0, 0)
		c.write2(0, 0)
		c.roots2(0, 0)
		c.write2(0, 0)
		c.keep2 = false
		c.renew2(0, 0)
		c.write2(len(c.cons)-1, 0)
	case 2:
		// directed: fund, spend from the account, renew through RHP3, keep spending the old funding
		form()
		p := c.rhp3Prop(c.contract(0).Revision, types.NewCurrency64(5), 0)
		c.simple3(0, &c10Pay{byContract: true, con: 0, acct: 1, prop: p})
		c.fund3(0, 0, 0)
		c.exec3()
		c.renew3(0)
		c.exec3()
		c.fund3(len(c.cons)-1, 0, 0)
		c.exec3()
		c.simple3(1, nil)
	default:
		form()
		if c.rng.Intn(3) == 0 {
			c.form2(types.Siacoins(10), types.Siacoins(1), 1+c.rng.Intn(4)) // a formation the host must refuse
		}
		if c.rng.Intn(2) == 0 {
			form()
		}
		// register a price table, paying from a contract
		p := c.rhp3Prop(c.contract(0).Revision, c.over(types.NewCurrency64(1)).Add(types.NewCurrency64(1)), 0)
		c.simple3(0, &c10Pay{byContract: true, con: 0, acct: c.rng.Intn(3), prop: p})
		steps := 8 + c.rng.Intn(14)
		for k := 0; k < steps; k++ {
			i := c.anyOpen()
			switch r := c.rng.Intn(100); {
			case r < 12:
				c.write2(i, c.defect(5))
			case r < 20:
				c.read2(i, c.defect(5))
			case r < 28:
				c.roots2(i, c.defect(5))
			case r < 44:
				d := 0
				if c.rng.Intn(8) == 0 {
					d = 1 + c.rng.Intn(3)
				}
				c.fund3(i, c.rng.Intn(3), d)
			case r < 56:
				c.simple3(c.rng.Intn(3), nil)
			case r < 88:
				c.exec3()
			case r < 94:
				if len(c.cons) < 5 {
					c.renew2(i, c.defect(2))
				}
			default:
				if len(c.cons) < 5 {
					c.renew3(i)
				}
			}
		}
	}
	c.end2()
	c.em.EndCase(c.okOps >= 3)
}

// directedRegistry: UpdateRegistry and ReadRegistry programs, paid by contract and by account
func (c *c10Case) directedRegistry() {
	half := types.Siacoins(1).Div64(2)
	c.forceFund = &half
	c.fund3(0, 0, 0)
	c.forceFund = nil
	for round := 0; round < 2; round++ {
		for _, write := range []bool{true, false} {
			c.execRegistry(write, round == 0)
		}
	}
	// a program that pays for a registry read and a temporary sector and then fails: the rollback
	// refunds the storage spending only
	c.forceProg = func(put func([]byte) uint64, u64 func(uint64) []byte) []c10Instr {
		pt := c.pt
		uk := c.regKey.PublicKey().UnlockKey()
		var tweak types.Hash256
		tweak[0] = 1
		ok := put(append(append([]byte{}, uk.Algorithm[:]...), uk.Key...))
		ot := put(tweak[:])
		os := put(c.h.sectors[0][:])
		ol, oo, or := put(u64(0)), put(u64(0)), put(c.h.roots[0][:])
		return []c10Instr{
			{instr: &crhp3.InstrReadRegistry{PublicKeyOffset: ok, PublicKeyLength: 48, TweakOffset: ot, Version: 2}, kind: "KRegRead", cost: pt.ReadRegistryCost(), pre: true, post: true, name: "readregistry"},
			{instr: &crhp3.InstrStoreSector{DataOffset: os, Duration: 3}, kind: "KPlain", cost: pt.StoreSectorCost(3), pre: true, post: true, name: "store"},
			{instr: &crhp3.InstrReadSector{LengthOffset: ol, OffsetOffset: oo, MerkleRootOffset: or}, kind: "KPlain", cost: pt.ReadSectorCost(0), pre: false, post: false, name: "readsector"},
		}
	}
	c.forcePay = &c10Pay{acct: 0, amount: types.Siacoins(1).Div64(100)}
	c.exec3()
	c.forcePay = &c10Pay{byContract: true, con: 0, acct: 2, prop: c.rhp3Prop(c.contract(0).Revision, types.Siacoins(1).Div64(100), 0)}
	c.exec3()
	c.forceProg, c.forcePay = nil, nil
}

func (c *c10Case) execRegistry(write, byContract bool) {
	c.end2()
	pt := c.pt
	var data []byte
	put := func(b []byte) uint64 {
		off := uint64(len(data))
		data = append(data, b...)
		return off
	}
	var tweak types.Hash256
	tweak[0] = 1
	uk := c.regKey.PublicKey().UnlockKey()
	var in c10Instr
	if write {
		revn := c.regRev[0] + 1
		val := crhp3.RegistryEntry{RegistryKey: crhp3.RegistryKey{PublicKey: c.regKey.PublicKey(), Tweak: tweak},
			RegistryValue: crhp3.RegistryValue{Revision: revn, Type: crhp3.EntryTypeArbitrary, Data: []byte{byte(revn)}}}
		val.Signature = c.regKey.SignHash(val.Hash())
		b := make([]byte, 8)
		binary.LittleEndian.PutUint64(b, revn)
		ot, orv, os := put(tweak[:]), put(b), put(val.Signature[:])
		ok := put(append(append([]byte{}, uk.Algorithm[:]...), uk.Key...))
		od := put(val.Data)
		in = c10Instr{instr: &crhp3.InstrUpdateRegistry{TweakOffset: ot, RevisionOffset: orv, SignatureOffset: os, PublicKeyOffset: ok, PublicKeyLength: 48,
			DataOffset: od, DataLength: uint64(len(val.Data)), EntryType: crhp3.EntryTypeArbitrary}, kind: "KRegWrite", cost: pt.ReadRegistryCost(), pre: true, post: true, name: "updateregistry"}
		c.regRev[0] = revn
	} else {
		ok := put(append(append([]byte{}, uk.Algorithm[:]...), uk.Key...))
		ot := put(tweak[:])
		in = c10Instr{instr: &crhp3.InstrReadRegistry{PublicKeyOffset: ok, PublicKeyLength: 48, TweakOffset: ot, Version: 2}, kind: "KRegRead",
			cost: pt.ReadRegistryCost(), pre: true, post: true, name: "readregistry"}
	}
	t, _ := in.cost.Total()
	total := pt.InitBaseCost.Add(t)
	var pay c10Pay
	if byContract {
		pay = c10Pay{byContract: true, con: 0, acct: 1, prop: c.rhp3Prop(c.contract(0).Revision, total.Add(types.NewCurrency64(17)), 0)}
	} else {
		pay = c10Pay{acct: 0, amount: total}
	}
	tr := c.dial3()
	defer tr.Close()
	s := tr.DialStream()
	defer s.Close()
	s.SetDeadline(time.Now().Add(30 * time.Second))
	req := crhp3.RPCExecuteProgramRequest{Program: []crhp3.Instruction{in.instr}, ProgramData: data}
	err := s.WriteRequest(crhp3.RPCExecuteProgramID, &pt.UID)
	if err == nil {
		err = c.writePayment(s, pay, pt.HostBlockHeight)
	}
	if err == nil {
		err = s.WriteResponse(&req)
	}
	if err == nil {
		var cancel types.Specifier
		err = s.ReadResponse(&cancel, 4096)
	}
	if err == nil {
		var resp crhp3.RPCExecuteProgramResponse
		if err = s.ReadResponse(&resp, 1<<20); err == nil && resp.Error != nil {
			err = resp.Error
		}
	}
	c.finish3(s, tr)
	c.em.Count("instr:" + in.name + ":directed")
	c.em.Step(fmt.Sprintf("Exec3 %s None %s [%s] (mkProp 0 0 0 0 0 0)", pay.term(), c10Cur(pt.InitBaseCost), in.term()), c.observe("exec3-registry", err == nil))
}

func TestVerifC10V1(t *testing.T) {
	em := newVerifEmitter(t, "From HostdBase Require Import Base.\nFrom HostdRevenue Require Import Model.\nOpen Scope N_scope.", "case", "check")
	defer em.Close()
	h := newC10Host(t)
	n := verifN(40)
	for id := 0; id < n+3; id++ {
		if em.Skip(id) {
			continue
		}
		c := &c10Case{h: h, em: em, rng: verifCaseRand(id)}
		c.run(id)
	}
}
