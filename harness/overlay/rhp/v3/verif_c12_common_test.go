//go:build verif

// Shared by the C12 harnesses of rhp/v2 and rhp/v3 (the same file is kept in both package
// directories): harness-side contracts/settings, their Coq terms, the candidate generator and
// the property's conjunction evaluated with big integers.
package rhp

import (
	"fmt"
	"math"
	"math/big"
	"math/rand"
	"strings"

	rhp2 "go.sia.tech/core/rhp/v2"
	rhp3 "go.sia.tech/core/rhp/v3"
	"go.sia.tech/core/types"
)

// ---------------------------------------------------------------- values

type c12Out struct {
	addr int // 0 = types.VoidAddress
	val  types.Currency
}

// a file contract or (with uc/parent set by the caller) a revision
type c12FC struct {
	size   uint64
	root   int // 0 = Hash256{}
	ws, we uint64
	valid  []c12Out
	missed []c12Out
	uh     int // 1 = the expected unlock hash of the case, k >= 2 = another address
	num    uint64
}

func (f c12FC) clone() c12FC {
	f.valid = append([]c12Out(nil), f.valid...)
	f.missed = append([]c12Out(nil), f.missed...)
	return f
}

func c12Addr(id int) types.Address {
	var a types.Address
	if id == 0 {
		return types.VoidAddress
	}
	a[0], a[1], a[31] = byte(id), byte(id>>8), 0xaa
	return a
}

func c12AddrID(a types.Address) int {
	if a == types.VoidAddress {
		return 0
	}
	id := int(a[0]) | int(a[1])<<8
	if c12Addr(id) == a {
		return id
	}
	return 60000 + int(a[5])
}

func c12Hash(id int) types.Hash256 {
	var h types.Hash256
	if id != 0 {
		h[0], h[9] = byte(id), 0xbb
	}
	return h
}

// ids of the hashes of one case; equal id <-> equal value
type c12IDs struct {
	expUH types.Address // c12UC(hostKey, renterKey).UnlockHash() of the case = id 1
	uhs   map[types.Address]int
	roots map[types.Hash256]int
}

func newC12IDs(expUH types.Address) *c12IDs {
	return &c12IDs{expUH: expUH, uhs: map[types.Address]int{expUH: 1}, roots: map[types.Hash256]int{{}: 0}}
}

func (ids *c12IDs) uhID(a types.Address) int {
	if v, ok := ids.uhs[a]; ok {
		return v
	}
	v := 50 + len(ids.uhs)
	ids.uhs[a] = v
	return v
}

func (ids *c12IDs) rootID(h types.Hash256) int {
	if v, ok := ids.roots[h]; ok {
		return v
	}
	v := len(ids.roots)
	ids.roots[h] = v
	return v
}

func (ids *c12IDs) uhAddr(uh int) types.Address {
	if uh == 1 {
		return ids.expUH
	}
	a := types.Address(c12Hash(100 + uh))
	ids.uhs[a] = uh
	return a
}

func (ids *c12IDs) build(f c12FC) types.FileContract {
	fc := types.FileContract{
		Filesize:       f.size,
		FileMerkleRoot: c12Hash(f.root),
		WindowStart:    f.ws,
		WindowEnd:      f.we,
		UnlockHash:     ids.uhAddr(f.uh),
		RevisionNumber: f.num,
	}
	ids.roots[fc.FileMerkleRoot] = f.root
	for _, o := range f.valid {
		fc.ValidProofOutputs = append(fc.ValidProofOutputs, types.SiacoinOutput{Address: c12Addr(o.addr), Value: o.val})
	}
	for _, o := range f.missed {
		fc.MissedProofOutputs = append(fc.MissedProofOutputs, types.SiacoinOutput{Address: c12Addr(o.addr), Value: o.val})
	}
	return fc
}

func c12OutsTerm(os []types.SiacoinOutput) string {
	items := make([]string, len(os))
	for i, o := range os {
		items[i] = fmt.Sprintf("O %d %s", c12AddrID(o.Address), o.Value.ExactString())
	}
	return "[" + strings.Join(items, "; ") + "]"
}

// fcTerm renders a file contract as the model's `R ...` term; ucid numbers the unlock
// conditions of a revision (0 for a bare file contract)
func (ids *c12IDs) fcTerm(fc types.FileContract, ucid int) string {
	return fmt.Sprintf("(R 0 %d %d %d %d %d %s %s %d %d)", ucid, fc.Filesize, ids.rootID(fc.FileMerkleRoot),
		fc.WindowStart, fc.WindowEnd, c12OutsTerm(fc.ValidProofOutputs), c12OutsTerm(fc.MissedProofOutputs),
		ids.uhID(fc.UnlockHash), fc.RevisionNumber)
}

func c12CursTerm(cs []types.Currency) string {
	items := make([]string, len(cs))
	for i, c := range cs {
		items[i] = c.ExactString()
	}
	return "[" + strings.Join(items, "; ") + "]"
}

// host-side configuration of a case, protocol independent
type c12Cfg struct {
	accepting   bool
	addr        int // the host's wallet address
	height      uint64
	require     uint64 // HardforkV2.RequireHeight
	window      uint64
	maxdur      uint64
	price       types.Currency // ContractPrice
	maxcoll     types.Currency // MaxCollateral
	unitStorage types.Currency // StoragePrice / WriteStoreCost
	unitColl    types.Currency // Collateral / CollateralCost
	fixed       types.Currency // RHP3: RenewContractCost
	baserpc     types.Currency // RHP2: BaseRPCPrice
}

func (c c12Cfg) settings2() rhp2.HostSettings {
	return rhp2.HostSettings{
		AcceptingContracts: c.accepting, Address: c12Addr(c.addr), WindowSize: c.window, MaxDuration: c.maxdur,
		ContractPrice: c.price, MaxCollateral: c.maxcoll, StoragePrice: c.unitStorage, Collateral: c.unitColl,
		BaseRPCPrice: c.baserpc,
	}
}

func (c c12Cfg) settings2Term() string {
	return fmt.Sprintf("(S2 %v %d %d %d %s %s %s %s %s)", c.accepting, c.addr, c.window, c.maxdur, c.price.ExactString(),
		c.maxcoll.ExactString(), c.unitStorage.ExactString(), c.unitColl.ExactString(), c.baserpc.ExactString())
}

func (c c12Cfg) priceTable() rhp3.HostPriceTable {
	return rhp3.HostPriceTable{
		HostBlockHeight: c.height, WindowSize: c.window, MaxDuration: c.maxdur, ContractPrice: c.price,
		MaxCollateral: c.maxcoll, RenewContractCost: c.fixed, WriteStoreCost: c.unitStorage, CollateralCost: c.unitColl,
	}
}

func (c c12Cfg) priceTableTerm() string {
	return fmt.Sprintf("(PT %d %d %d %s %s %s %s %s)", c.height, c.window, c.maxdur, c.price.ExactString(),
		c.maxcoll.ExactString(), c.fixed.ExactString(), c.unitStorage.ExactString(), c.unitColl.ExactString())
}

// ---------------------------------------------------------------- currency helpers

var (
	c12Two64  = types.NewCurrency(0, 1)
	c12Two127 = types.NewCurrency(0, 1<<63)
	c12Max    = types.NewCurrency(math.MaxUint64, math.MaxUint64)
)

func c12C(v uint64) types.Currency { return types.NewCurrency64(v) }

func c12Grid(rng *rand.Rand) types.Currency {
	switch rng.Intn(12) {
	case 0:
		return types.ZeroCurrency
	case 1:
		return c12C(1)
	case 2:
		return c12C(math.MaxUint64)
	case 3:
		return c12Two64
	case 4:
		return c12Two127
	case 5:
		return c12Max
	case 6:
		return types.NewCurrency(math.MaxUint64-uint64(rng.Intn(3)), math.MaxUint64)
	case 7:
		return types.NewCurrency(uint64(rng.Intn(3)), 1<<63)
	case 8:
		return types.NewCurrency(rng.Uint64(), rng.Uint64())
	case 9:
		return types.NewCurrency(rng.Uint64(), rng.Uint64()>>uint(rng.Intn(64)))
	case 10:
		return c12C(rng.Uint64())
	default:
		return c12C(uint64(rng.Intn(100)))
	}
}

func c12Amount(rng *rand.Rand) types.Currency {
	switch rng.Intn(6) {
	case 0:
		return c12C(uint64(rng.Intn(50)))
	case 1:
		return c12C(rng.Uint64() >> uint(rng.Intn(40)))
	case 2:
		return types.Siacoins(uint32(1 + rng.Intn(5000)))
	case 3:
		return types.NewCurrency(rng.Uint64(), uint64(rng.Intn(1<<20)))
	case 4:
		return types.NewCurrency(rng.Uint64(), rng.Uint64()>>4) // < 2^124
	default:
		return c12C(uint64(rng.Intn(1000)) * 1000)
	}
}

// portion returns a value in [0, c], boundary-dense
func c12Portion(rng *rand.Rand, c types.Currency) types.Currency {
	switch rng.Intn(6) {
	case 0:
		return types.ZeroCurrency
	case 1:
		return c
	case 2:
		return c12Dec(c)
	case 3:
		if c.IsZero() {
			return c
		}
		return c12C(1)
	default:
		return c.Div64(uint64(2 + rng.Intn(9)))
	}
}

func c12Inc(c types.Currency) types.Currency {
	if c == c12Max {
		return c
	}
	return c.Add(c12C(1))
}

func c12Dec(c types.Currency) types.Currency {
	if c.IsZero() {
		return c
	}
	return c.Sub(c12C(1))
}

// saturating add
func c12Add(a, b types.Currency) types.Currency {
	s, ov := a.AddWithOverflow(b)
	if ov {
		return c12Max
	}
	return s
}

func c12SubSat(a, b types.Currency) types.Currency {
	s, uf := a.SubWithUnderflow(b)
	if uf {
		return types.ZeroCurrency
	}
	return s
}

func c12Mul(a types.Currency, b, c uint64) types.Currency {
	s, ov := a.Mul64WithOverflow(b)
	if ov {
		return c12Max
	}
	s, ov = s.Mul64WithOverflow(c)
	if ov {
		return c12Max
	}
	return s
}

func c12FromBig(b *big.Int) (types.Currency, bool) {
	if b.Sign() < 0 || b.BitLen() > 128 {
		return types.ZeroCurrency, false
	}
	lo := new(big.Int).And(b, new(big.Int).SetUint64(math.MaxUint64)).Uint64()
	hi := new(big.Int).Rsh(b, 64).Uint64()
	return types.NewCurrency(lo, hi), true
}

// ---------------------------------------------------------------- candidates

type c12Cand struct {
	cfg      c12Cfg
	ex       c12FC // existing revision (renewals)
	exOK     bool  // renewals only
	fc       c12FC // candidate contract
	baseRev  types.Currency
	baseRisk types.Currency
	vals     []types.Currency // RHP2: final valid proof values of the clearing revision
	clr      c12FC            // RHP3: clearing revision proposed by the renter
	desc     string
}

func c12GenCfg(rng *rand.Rand) c12Cfg {
	cfg := c12Cfg{accepting: true, addr: 5}
	cfg.window = []uint64{1, 2, 10, 144}[rng.Intn(4)]
	cfg.maxdur = cfg.window + []uint64{0, 1, 100, 4320 * 6}[rng.Intn(4)]
	cfg.height = []uint64{0, 1, 1000, 500000, 1 << 32}[rng.Intn(5)]
	cfg.require = cfg.height + cfg.maxdur + uint64(1+rng.Intn(1000))
	if rng.Intn(4) == 0 {
		cfg.require = math.MaxUint64
	}
	cfg.price = c12Amount(rng).Div64(4)
	cfg.maxcoll = c12Add(c12Amount(rng), c12Amount(rng))
	cfg.unitStorage = c12C(uint64(rng.Intn(1 << 20)))
	cfg.unitColl = c12C(uint64(rng.Intn(1 << 21)))
	if rng.Intn(4) == 0 {
		cfg.unitStorage = types.ZeroCurrency
	}
	if rng.Intn(4) == 0 {
		cfg.unitColl = types.ZeroCurrency
	}
	cfg.fixed = c12Amount(rng).Div64(8)
	cfg.baserpc = c12C(uint64(rng.Intn(1000)))
	return cfg
}

// honest formation candidate for cfg
func c12GenFormation(rng *rand.Rand, cfg c12Cfg) c12Cand {
	c := c12Cand{cfg: cfg}
	ws := cfg.height + cfg.window + uint64(rng.Int63n(int64(cfg.maxdur-cfg.window+1)))
	switch rng.Intn(4) {
	case 0:
		ws = cfg.height + cfg.window
	case 1:
		ws = cfg.height + cfg.maxdur
	}
	we := ws + cfg.window + uint64(rng.Intn(3))*uint64(rng.Intn(100))
	R := c12Amount(rng)
	// host payout within [price, maxcoll] when possible
	H := cfg.price
	if cfg.maxcoll.Cmp(cfg.price) >= 0 {
		H = c12Add(cfg.price, c12Portion(rng, cfg.maxcoll.Sub(cfg.price)))
	}
	c.fc = c12FC{ws: ws, we: we, uh: 1,
		valid:  []c12Out{{1, R}, {cfg.addr, H}},
		missed: []c12Out{{1, R}, {cfg.addr, H}, {0, types.ZeroCurrency}}}
	return c
}

// c12BaseCosts mirrors what the handlers derive from the unit prices, in big integers
func c12BaseCosts(cfg c12Cfg, ex, fc c12FC) (storage, coll *big.Int) {
	storage, coll = new(big.Int), new(big.Int)
	if fc.we > ex.we {
		ext := new(big.Int).SetUint64(fc.we - ex.we)
		size := new(big.Int).SetUint64(fc.size)
		storage.Mul(cfg.unitStorage.Big(), size).Mul(storage, ext)
		coll.Mul(cfg.unitColl.Big(), size).Mul(coll, ext)
	}
	return
}

// honest renewal candidate: v3 selects the RHP3 cost structure (fixed renew cost, price on top)
func c12GenRenewal(rng *rand.Rand, cfg c12Cfg, v3 bool) c12Cand {
	c := c12Cand{cfg: cfg, exOK: true}
	// existing contract
	exWS := cfg.height + uint64(rng.Intn(200))
	c.ex = c12FC{size: []uint64{0, 1 << 22, 3 << 22, 1 << 30}[rng.Intn(4)], root: 1 + rng.Intn(2), ws: exWS, we: exWS + cfg.window,
		uh: 1, num: uint64(1 + rng.Intn(100))}
	if c.ex.size == 0 {
		c.ex.root = 0
	}
	exR, exH := c12Amount(rng), c12Amount(rng)
	exHm := c12Portion(rng, exH)
	c.ex.valid = []c12Out{{1, exR}, {cfg.addr, exH}}
	c.ex.missed = []c12Out{{1, exR}, {cfg.addr, exHm}, {0, exH.Sub(exHm)}}
	// clearing revision: pay x >= baserpc (capped)
	x := c12Portion(rng, exR)
	if x.Cmp(cfg.baserpc) < 0 {
		x = cfg.baserpc
		if x.Cmp(exR) > 0 {
			x = exR
		}
	}
	c.vals = []types.Currency{exR.Sub(x), c12Add(exH, x)}
	c.clr = c12FC{ws: c.ex.ws, we: c.ex.we, uh: 1, num: math.MaxUint64,
		valid:  []c12Out{{1, c.vals[0]}, {cfg.addr, c.vals[1]}},
		missed: []c12Out{{1, c.vals[0]}, {cfg.addr, c.vals[1]}}}
	// renewal
	ws := cfg.height + cfg.window + uint64(rng.Int63n(int64(cfg.maxdur-cfg.window+1)))
	we := ws + cfg.window + uint64(rng.Intn(3))*uint64(rng.Intn(100))
	if we < c.ex.we {
		we = c.ex.we
	}
	switch rng.Intn(5) {
	case 0:
		we = c.ex.we // no extension
		if we < ws+cfg.window {
			we = ws + cfg.window
		}
	}
	c.fc = c12FC{size: c.ex.size, root: c.ex.root, ws: ws, we: we, uh: 1}
	storage, coll := c12BaseCosts(cfg, c.ex, c.fc)
	var ok1, ok2 bool
	var st types.Currency
	st, ok1 = c12FromBig(storage)
	c.baseRisk, ok2 = c12FromBig(coll)
	if !ok1 || !ok2 {
		st, c.baseRisk = c12C(1000), c12C(500)
	}
	minValid := c12Add(cfg.price, st) // RHP2: baseRev = price + storage
	c.baseRev = minValid
	if v3 {
		c.baseRev = c12Add(cfg.fixed, st)
		minValid = c12Add(cfg.price, c.baseRev)
	}
	locked := c12Portion(rng, cfg.maxcoll)
	V := c12Add(minValid, locked)
	burn := c12Portion(rng, c12Add(c.baseRev, c.baseRisk))
	if burn.Cmp(V) > 0 {
		burn = V
	}
	R := c12Amount(rng)
	c.fc.valid = []c12Out{{1, R}, {cfg.addr, V}}
	c.fc.missed = []c12Out{{1, R}, {cfg.addr, V.Sub(burn)}, {0, burn}}
	return c
}

var c12Perturbations = []string{
	"none", "none", "ws=min", "ws=min-1", "ws=max", "ws=max+1", "we=min", "we=min-1", "we<ws",
	"size", "num", "root", "valid-count", "missed-count", "valid-host-addr", "missed-host-addr",
	"swap-valid-addrs", "swap-missed-addrs", "void-addr", "void-value+1", "host=price", "host=price-1",
	"host=maxcoll", "host=maxcoll+1", "missed-host+1", "missed-host-1", "unlock-hash", "edge-values",
	"wrap-window", "wrap-maxdur", "height-edge", "price-edge", "maxcoll-edge", "maxcoll=locked", "maxcoll=locked-1",
	"not-accepting", "require=ws", "require=ws+1", "require<=height",
	// renewals
	"we<ex.we", "we=ex.we", "burn=expected", "burn=expected+1", "void!=burn", "valid<base", "valid=base",
	"base-grid", "base-overflow", "units-overflow", "we-max", "size-max", "ex-shape", "ex-locked",
	"clearing-underpaid", "clearing-renter-up", "clearing-shape", "clearing-size", "clearing-num", "missed-host-low",
}

// perturb changes one aspect of the candidate; renewal says whether the renewal fields exist
func c12Perturb(rng *rand.Rand, c *c12Cand, p string, renewal, v3 bool) {
	// a perturbation that does not apply to the shape an earlier one left behind is a no-op
	defer func() { recover() }()
	cfg := &c.cfg
	fc := &c.fc
	hostV := func() *types.Currency {
		if len(fc.valid) >= 2 {
			return &fc.valid[1].val
		}
		return nil
	}
	minValid := func() types.Currency {
		if !renewal {
			return cfg.price
		}
		if v3 {
			return c12Add(cfg.price, c.baseRev)
		}
		return c.baseRev
	}
	// setHost sets the host's valid payout keeping the candidate otherwise consistent
	setHost := func(v types.Currency) {
		if len(fc.valid) < 2 || len(fc.missed) < 3 {
			return
		}
		fc.valid[1].val = v
		if !renewal {
			fc.missed[1].val = v
			return
		}
		burn := fc.missed[2].val
		if burn.Cmp(v) > 0 {
			burn = v
			fc.missed[2].val = burn
		}
		fc.missed[1].val = v.Sub(burn)
	}
	switch p {
	case "ws=min":
		fc.ws = cfg.height + cfg.window
		if fc.we < fc.ws+cfg.window {
			fc.we = fc.ws + cfg.window
		}
	case "ws=min-1":
		fc.ws = cfg.height + cfg.window - 1
	case "ws=max":
		fc.ws = cfg.height + cfg.maxdur
		if fc.we < fc.ws+cfg.window {
			fc.we = fc.ws + cfg.window
		}
	case "ws=max+1":
		fc.ws = cfg.height + cfg.maxdur + 1
		if fc.we < fc.ws+cfg.window {
			fc.we = fc.ws + cfg.window
		}
	case "we=min":
		fc.we = fc.ws + cfg.window
	case "we=min-1":
		fc.we = fc.ws + cfg.window - 1
	case "we<ws":
		if fc.ws > 0 {
			fc.we = fc.ws - uint64(1+rng.Intn(2))
		}
	case "size":
		fc.size = fc.size + uint64(1+rng.Intn(2))<<22
	case "num":
		fc.num = uint64(1 + rng.Intn(3))
	case "root":
		fc.root = fc.root + 1 + rng.Intn(2)
	case "valid-count":
		n := rng.Intn(5)
		for len(fc.valid) > n {
			fc.valid = fc.valid[:len(fc.valid)-1]
		}
		for len(fc.valid) < n {
			fc.valid = append(fc.valid, c12Out{cfg.addr, c12Grid(rng)})
		}
	case "missed-count":
		n := rng.Intn(5)
		for len(fc.missed) > n {
			fc.missed = fc.missed[:len(fc.missed)-1]
		}
		for len(fc.missed) < n {
			fc.missed = append(fc.missed, c12Out{0, types.ZeroCurrency})
		}
	case "valid-host-addr":
		if len(fc.valid) >= 2 {
			fc.valid[1].addr = []int{1, 0, 6}[rng.Intn(3)]
		}
	case "missed-host-addr":
		if len(fc.missed) >= 2 {
			fc.missed[1].addr = []int{1, 0, 6}[rng.Intn(3)]
		}
	case "swap-valid-addrs":
		if len(fc.valid) >= 2 {
			fc.valid[0].addr, fc.valid[1].addr = fc.valid[1].addr, fc.valid[0].addr
		}
	case "swap-missed-addrs":
		if len(fc.missed) >= 3 {
			i := rng.Intn(2)
			fc.missed[i].addr, fc.missed[i+1].addr = fc.missed[i+1].addr, fc.missed[i].addr
		}
	case "void-addr":
		if len(fc.missed) >= 3 {
			fc.missed[2].addr = []int{1, cfg.addr, 6}[rng.Intn(3)]
		}
	case "void-value+1":
		if len(fc.missed) >= 3 {
			fc.missed[2].val = c12Inc(fc.missed[2].val)
		}
	case "host=price":
		setHost(minValid())
	case "host=price-1":
		setHost(c12Dec(minValid()))
	case "host=maxcoll":
		if renewal {
			setHost(c12Add(minValid(), cfg.maxcoll))
		} else {
			setHost(cfg.maxcoll)
		}
	case "host=maxcoll+1":
		if renewal {
			setHost(c12Inc(c12Add(minValid(), cfg.maxcoll)))
		} else {
			setHost(c12Inc(cfg.maxcoll))
		}
	case "missed-host+1":
		if len(fc.missed) >= 2 {
			fc.missed[1].val = c12Inc(fc.missed[1].val)
		}
	case "missed-host-1":
		if len(fc.missed) >= 2 {
			fc.missed[1].val = c12Dec(fc.missed[1].val)
		}
	case "unlock-hash":
		fc.uh = 2 + rng.Intn(2)
	case "edge-values":
		k := 1 + rng.Intn(3)
		for j := 0; j < k; j++ {
			if rng.Intn(2) == 0 && len(fc.valid) > 0 {
				fc.valid[rng.Intn(len(fc.valid))].val = c12Grid(rng)
			} else if len(fc.missed) > 0 {
				fc.missed[rng.Intn(len(fc.missed))].val = c12Grid(rng)
			}
		}
	case "wrap-window":
		// height + window wraps around 2^64
		cfg.window = math.MaxUint64 - cfg.height - uint64(rng.Intn(3)) + uint64(rng.Intn(3))
	case "wrap-maxdur":
		cfg.maxdur = math.MaxUint64 - cfg.height - uint64(rng.Intn(3)) + uint64(rng.Intn(3))
	case "height-edge":
		d := fc.ws - cfg.height
		e := fc.we - fc.ws
		cfg.height = math.MaxUint64 - uint64(rng.Intn(3)) - []uint64{0, cfg.window, cfg.maxdur, cfg.maxdur + cfg.window}[rng.Intn(4)]
		fc.ws = cfg.height + d
		fc.we = fc.ws + e
		cfg.require = math.MaxUint64
	case "price-edge":
		cfg.price = c12Grid(rng)
	case "maxcoll-edge":
		cfg.maxcoll = c12Grid(rng)
	case "maxcoll=locked":
		if h := hostV(); h != nil {
			cfg.maxcoll = c12SubSat(*h, minValid())
			if !renewal {
				cfg.maxcoll = *h
			}
		}
	case "maxcoll=locked-1":
		if h := hostV(); h != nil {
			cfg.maxcoll = c12Dec(c12SubSat(*h, minValid()))
			if !renewal {
				cfg.maxcoll = c12Dec(*h)
			}
		}
	case "not-accepting":
		cfg.accepting = false
	case "require=ws":
		cfg.require = fc.ws
	case "require=ws+1":
		cfg.require = fc.ws + 1
	case "require<=height":
		cfg.require = cfg.height - uint64(rng.Intn(2))
	}
	if !renewal {
		return
	}
	switch p {
	case "we<ex.we":
		c.ex.we = fc.we + uint64(1+rng.Intn(3))
		c.clr.we = c.ex.we
	case "we=ex.we":
		c.ex.we = fc.we
		c.clr.we = c.ex.we
	case "burn=expected", "burn=expected+1":
		exp := c12Add(c.baseRev, c.baseRisk)
		if p == "burn=expected+1" {
			exp = c12Inc(exp)
		}
		if len(fc.valid) >= 2 && len(fc.missed) >= 3 {
			if fc.valid[1].val.Cmp(exp) < 0 {
				fc.valid[1].val = exp
			}
			fc.missed[1].val = fc.valid[1].val.Sub(exp)
			fc.missed[2].val = exp
		}
	case "void!=burn":
		if len(fc.missed) >= 3 {
			if rng.Intn(2) == 0 {
				fc.missed[2].val = c12Inc(fc.missed[2].val)
			} else {
				fc.missed[2].val = c12Dec(fc.missed[2].val)
			}
		}
	case "valid<base":
		setHost(c12Dec(c.baseRev))
	case "valid=base":
		setHost(c.baseRev)
	case "base-grid":
		if rng.Intn(2) == 0 {
			c.baseRev = c12Grid(rng)
		} else {
			c.baseRisk = c12Grid(rng)
		}
	case "base-overflow":
		// baseRev + baseRisk >= 2^128
		c.baseRev = types.NewCurrency(rng.Uint64(), 1<<63|rng.Uint64())
		c.baseRisk = c12Inc(c12Max.Sub(c.baseRev))
		if rng.Intn(2) == 0 {
			c.baseRisk = c12Max
		}
	case "units-overflow":
		// the handlers' price * size * extension leaves 128 bits
		if rng.Intn(2) == 0 {
			cfg.unitStorage = types.NewCurrency(rng.Uint64(), rng.Uint64()>>uint(rng.Intn(40)))
		} else {
			cfg.unitColl = types.NewCurrency(rng.Uint64(), rng.Uint64()>>uint(rng.Intn(40)))
		}
		if fc.size == 0 {
			fc.size, c.ex.size = 1<<22, 1<<22
			fc.root, c.ex.root = 1, 1
		}
		if fc.we <= c.ex.we {
			fc.we = c.ex.we + 1000
		}
	case "we-max":
		fc.we = math.MaxUint64 - uint64(rng.Intn(2))
	case "size-max":
		fc.size = math.MaxUint64 - uint64(rng.Intn(2))<<22
		if rng.Intn(2) == 0 {
			c.ex.size = fc.size
		}
		if fc.we <= c.ex.we {
			fc.we = c.ex.we + 1
		}
	case "ex-shape":
		c.exOK = false
		// (the host's own stored revision always has a renter output; the handlers read it)
		nv, nm := 1+rng.Intn(3), rng.Intn(5)
		c.ex.valid, c.ex.missed = nil, nil
		for i := 0; i < nv; i++ {
			c.ex.valid = append(c.ex.valid, c12Out{1 + i, c12Amount(rng)})
		}
		for i := 0; i < nm; i++ {
			c.ex.missed = append(c.ex.missed, c12Out{1 + i, c12Amount(rng)})
		}
		c.vals = nil
		for i := 0; i < nv; i++ {
			c.vals = append(c.vals, c.ex.valid[i].val)
		}
	case "ex-locked":
		c.ex.num = math.MaxUint64
	case "clearing-underpaid":
		// the final payment is one below what the host expects
		if len(c.ex.valid) >= 2 && len(c.vals) >= 2 {
			exp := cfg.baserpc
			if exp.Cmp(c.ex.valid[0].val) > 0 {
				exp = c.ex.valid[0].val
			}
			if v3 {
				exp = types.ZeroCurrency
			}
			x := c12Dec(exp)
			c.vals = []types.Currency{c.ex.valid[0].val.Sub(x), c12Add(c.ex.valid[1].val, x)}
			if rng.Intn(2) == 0 { // or exactly what is expected
				c.vals = []types.Currency{c.ex.valid[0].val.Sub(exp), c12Add(c.ex.valid[1].val, exp)}
			}
			c.clr.valid[0].val, c.clr.valid[1].val = c.vals[0], c.vals[1]
			c.clr.missed[0].val, c.clr.missed[1].val = c.vals[0], c.vals[1]
		}
	case "clearing-renter-up":
		if len(c.ex.valid) >= 2 && len(c.vals) >= 2 && !c.ex.valid[1].val.IsZero() {
			c.vals = []types.Currency{c12Inc(c.ex.valid[0].val), c12Dec(c.ex.valid[1].val)}
			c.clr.valid[0].val, c.clr.valid[1].val = c.vals[0], c.vals[1]
			c.clr.missed[0].val, c.clr.missed[1].val = c.vals[0], c.vals[1]
		}
	case "clearing-shape":
		n := rng.Intn(4)
		c.vals = nil
		for i := 0; i < n; i++ {
			c.vals = append(c.vals, c12Grid(rng))
		}
		c.clr.valid, c.clr.missed = nil, nil
		for i := 0; i < n; i++ {
			c.clr.valid = append(c.clr.valid, c12Out{1 + i, c.vals[i]})
		}
		for i := 0; i < rng.Intn(4); i++ {
			c.clr.missed = append(c.clr.missed, c12Out{1 + i, c12Grid(rng)})
		}
	case "clearing-size":
		c.clr.size = 1 << 22
	case "clearing-num":
		c.clr.num = math.MaxUint64 - 1
	case "missed-host-low":
		// host missed payout low, void takes the rest (burn above what is expected unless base is large)
		if len(fc.missed) >= 3 && len(fc.valid) >= 2 {
			fc.missed[1].val = c12Portion(rng, fc.missed[1].val)
			fc.missed[2].val = fc.valid[1].val.Sub(fc.missed[1].val)
		}
	}
}

// ---------------------------------------------------------------- the property's conjunction

type c12Monitor func(sig, detail string)

func c12U(v uint64) *big.Int { return new(big.Int).SetUint64(v) }

// c12MonitorAccepted evaluates what the property promises about an accepted formation/renewal
// candidate fc under cfg, in unbounded integers.  minValid: contract price (+ base storage
// revenue of renewed data); locked: the collateral figure the host computed.
func c12MonitorAccepted(mon c12Monitor, what string, cfg c12Cfg, walletAddr types.Address, fc types.FileContract, minValid *big.Int, locked types.Currency) {
	h, w, d := c12U(cfg.height), c12U(cfg.window), c12U(cfg.maxdur)
	two64 := new(big.Int).Lsh(big.NewInt(1), 64)
	ws, we := c12U(fc.WindowStart), c12U(fc.WindowEnd)
	// Reading: heights are uint64 in the code; the time bounds are evaluated only when
	// height+window, height+maxdur and height+maxdur+window are representable
	// (a host whose settings wrap around 2^64 is outside the property's wording).
	hw, hd := new(big.Int).Add(h, w), new(big.Int).Add(h, d)
	if new(big.Int).Add(hd, w).Cmp(two64) < 0 && hw.Cmp(two64) < 0 {
		if ws.Cmp(hw) < 0 {
			mon("accepted-window-start-sooner-than-window-size", fmt.Sprintf("%s: start %v height %v window %v", what, ws, h, w))
		}
		if ws.Cmp(hd) > 0 {
			mon("accepted-window-start-later-than-max-duration", fmt.Sprintf("%s: start %v height %v maxdur %v", what, ws, h, d))
		}
		if new(big.Int).Sub(we, ws).Cmp(w) < 0 {
			mon("accepted-proof-window-shorter-than-window-size", fmt.Sprintf("%s: %v..%v window %v", what, ws, we, w))
		}
	}
	if len(fc.ValidProofOutputs) != 2 || len(fc.MissedProofOutputs) != 3 {
		mon("accepted-wrong-output-count", fmt.Sprintf("%s: %d/%d", what, len(fc.ValidProofOutputs), len(fc.MissedProofOutputs)))
		return
	}
	if fc.ValidProofOutputs[1].Address != walletAddr || fc.MissedProofOutputs[1].Address != walletAddr {
		mon("accepted-host-payout-not-to-wallet-address", what)
	}
	if fc.MissedProofOutputs[2].Address != types.VoidAddress {
		mon("accepted-third-missed-output-not-void", what)
	}
	if locked.Cmp(cfg.maxcoll) > 0 {
		mon("accepted-collateral-above-maximum", fmt.Sprintf("%s: %v > %v", what, locked.ExactString(), cfg.maxcoll.ExactString()))
	}
	if fc.ValidProofOutputs[1].Value.Big().Cmp(minValid) < 0 {
		mon("accepted-host-payout-below-price-and-base-revenue", fmt.Sprintf("%s: %v < %v", what, fc.ValidProofOutputs[1].Value.ExactString(), minValid))
	}
	// the collateral figure is exactly what the payouts and prices imply
	if want := new(big.Int).Sub(fc.ValidProofOutputs[1].Value.Big(), minValid); want.Cmp(locked.Big()) != 0 {
		mon("locked-collateral-differs-from-payout-minus-prices", fmt.Sprintf("%s: got %v want %v", what, locked.ExactString(), want))
	}
}

// c12UC: the unlock conditions of a contract between the two keys - the renter's key first,
// both signatures required - written out here instead of calling the package-private
// contractUnlockConditions: an oracle that does not depend on the code under test, and that
// survives a refactoring which inlines or renames that helper.
func c12UC(hostKey, renterKey types.UnlockKey) types.UnlockConditions {
	return types.UnlockConditions{PublicKeys: []types.UnlockKey{renterKey, hostKey}, SignaturesRequired: 2}
}
