//go:build verif

package rhp_test

// C02 — the RHP3 UpdateSector instruction must not change the bytes the host serves for the OLD
// root (the buffer returned by VolumeManager.ReadSector is the sector cache's).  The program is
// not finalized, so it is rolled back and the contract keeps referencing the old root.
// Pure monitor.

import (
	"context"
	"fmt"
	"testing"

	crhp2 "go.sia.tech/core/rhp/v2"
	crhp3 "go.sia.tech/core/rhp/v3"
	"go.sia.tech/core/types"
	"go.sia.tech/hostd/v2/internal/testutil"
	proto3 "go.sia.tech/hostd/v2/internal/testutil/rhp/v3"
	"go.uber.org/zap"
)

func TestVerifC02Update3(t *testing.T) {
	em := newVerifEmitter(t, "From HostdBase Require Import Base.\nFrom HostdStorage Require Import Model DataModel.\nOpen Scope N_scope.", "dcase", "dcheck")
	defer em.Close()

	for id, cacheSize := range []uint32{4, 0} {
		if em.Skip(id) {
			continue
		}
		em.BeginCase(id, fmt.Sprintf("RHP3 UpdateSector, sector cache size %d", cacheSize))
		log := zap.NewNop()
		hostKey, renterKey := types.GeneratePrivateKey(), types.GeneratePrivateKey()
		network, genesis := testutil.V1Network()
		node := testutil.NewHostNode(t, hostKey, network, genesis, log)
		testutil.MineAndSync(t, node, node.Wallet.Address(), int(network.MaturityDelay+5))
		sh2, sh3 := setupRHP3Host(t, node, hostKey, 10, log)
		node.Volumes.ResizeCache(cacheSize)

		session, err := proto3.NewSession(context.Background(), hostKey.PublicKey(), sh3.LocalAddr(), node.Chain, node.Wallet)
		if err != nil {
			t.Fatal(err)
		}
		revision := formContract(t, node.Chain, node.Wallet, sh2.LocalAddr(), renterKey, hostKey.PublicKey(), 200)
		account := crhp3.Account(renterKey.PublicKey())
		payment := proto3.ContractPayment(&revision, renterKey, account)
		pt, err := session.RegisterPriceTable(payment)
		if err != nil {
			t.Fatal(err)
		}
		if _, err = session.FundAccount(account, payment, types.Siacoins(10)); err != nil {
			t.Fatal(err)
		}

		var sector [crhp2.SectorSize]byte
		for i := 0; i < 256; i++ {
			sector[i] = byte(i + 1)
		}
		root := crhp2.SectorRoot(&sector)
		cost, _ := pt.BaseCost().Add(pt.AppendSectorCost(revision.Revision.WindowEnd - node.Chain.Tip().Height)).Total()
		if _, err = session.AppendSector(&sector, &revision, renterKey, payment, cost); err != nil {
			t.Fatal(err)
		}
		em.Count("rhp3:append")
		check := func(when string) {
			buf, err := node.Volumes.ReadSector(root)
			if err != nil {
				em.Monitor("referenced-sector-unreadable", fmt.Sprintf("%s: %v", when, err))
			} else if crhp2.SectorRoot(buf) != root {
				em.Monitor("update-sector-changed-bytes-served-for-old-root", fmt.Sprintf("RHP3 %s (cache size %d): ReadSector(old root) no longer hashes to it", when, cacheSize))
			}
		}
		check("after append")

		patch := make([]byte, 64)
		for i := range patch {
			patch[i] = 0xff
		}
		resp, uerr := session.VerifUpdateSector(0, patch, &revision, payment, types.Siacoins(1))
		em.Count(fmt.Sprintf("rhp3:update:executed=%v", uerr == nil && resp.Error == nil))
		roots := node.Contracts.SectorRoots(revision.ID())
		stillReferenced := len(roots) == 1 && roots[0] == root
		em.Count(fmt.Sprintf("rhp3:update:old-root-still-referenced=%v", stillReferenced))
		if stillReferenced {
			check("after an unfinalized UpdateSector program")
		}
		session.Close()
		em.FunCase(id, "0", "[]", true)
	}
}
