//go:build verif

package rhp_test

// C03 / C13 (WP-Y) — list edits made by the real RHP2 / RHP3 handlers while a second caller is queued on
// the contract lock.
//
// The host is WP-L's two-session host (verif_c07_conc_test.go: a real host node; two RHP2 and two RHP3
// session handlers "A" / "B" over ONE contract manager, whose Lock / Unlock / RenewContract and whose
// ContractStore.ReviseContract pass gates at which a handler can be parked) with one difference: the
// store wrapper of this file also keeps what ContractUpdater.Commit handed to the store (the old list and
// the sector changes), so that the run can be recorded for the model as the manager calls the handler made.
//
// One pair = caller A runs a revising RPC that EDITS THE LIST (RHP2 write with append / swap / trim /
// update actions; RHP3 program AppendSector / AppendSectorRoot / SwapSector / DropSectors / UpdateSector
// with finalisation) and is parked after Lock returned (before its decision), after it counter-signed
// (before the store is called), after the store returned (before the renter hears of it) or before
// Unlock; caller B (RHP2 sector roots, read, a second write, an RHP3 appending program, a payment, an
// RHP3 / RHP2 renewal of the same contract) is started meanwhile, is counted as queued only when the
// manager's own lock table shows a waiter (VerifC03LockWaiters), and is stopped right behind the lock when
// it gets it.  No sleep decides an outcome.  Failures are injected at the real seams: the renter's
// finalisation signature is invalid; the payment does not cover the edit (RHP2: the revision underpays;
// RHP3: the account withdrawal runs out in the middle of the program); the store call fails; the renter
// hangs up between the program / the Merkle response and the finalisation; an RHP3 swap names an index
// outside the list; an RHP2 update action produces a root the host does not store (the store refuses it).
//
// After every step (A parked; B behind the lock; both done; a fresh manager on the same database at the
// end of the case = what a restart would serve) the three lists of C03 are compared — persisted
// contract_sector_roots order, the list served from memory (Manager.SectorRoots, and what the RHP2
// sector-roots RPC of the queued caller returns), the list implied by the accepted modifications (a fold
// of the accepted actions kept by the harness) — plus filesize = len x sector size and Merkle root of the
// latest signed revision, and what Lock handed to the queued caller.
//
//   handler-list-differs-from-accepted-modifications   persisted or served list != reference fold
//   persisted-list-differs-from-served-list
//   revision-differs-from-list                         file size / Merkle root of the stored revision
//   handler-output-differs-from-accepted-modifications NewSize / NewMerkleRoot reported while editing
//   queued-caller-handed-stale-revision                what Lock returned to B is not the stored revision
//   queued-caller-served-stale-list                    RHP2 sector roots returned another list
//   second-caller-passed-held-lock
//   failed-modification-changes-state
//   live-contract-refuses-revision                     a well-formed edit (or B) was refused
//   successor-list-differs-from-predecessor            B renewed: the successor holds another list
//   restart-changes-served-list
//
// Recorded for coq/Roots/Hand.v (hcase / hcheck) in the order the gates saw it.

import (
	"bytes"
	"context"
	"encoding/binary"
	"errors"
	"fmt"
	"math"
	"net"
	"path/filepath"
	"strings"
	"sync"
	"testing"
	"time"

	crhp2 "go.sia.tech/core/rhp/v2"
	crhp3 "go.sia.tech/core/rhp/v3"
	"go.sia.tech/core/types"
	"go.sia.tech/coreutils/wallet"
	"go.sia.tech/hostd/v2/certificates"
	"go.sia.tech/hostd/v2/host/accounts"
	"go.sia.tech/hostd/v2/host/contracts"
	"go.sia.tech/hostd/v2/host/registry"
	"go.sia.tech/hostd/v2/host/settings"
	"go.sia.tech/hostd/v2/host/storage"
	"go.sia.tech/hostd/v2/index"
	"go.sia.tech/hostd/v2/internal/testutil"
	proto2 "go.sia.tech/hostd/v2/internal/testutil/rhp/v2"
	"go.sia.tech/hostd/v2/persist/sqlite"
	rhp2 "go.sia.tech/hostd/v2/rhp/v2"
	rhp3 "go.sia.tech/hostd/v2/rhp/v3"
	"go.uber.org/zap"
)

const yhHeader = "From HostdBase Require Import Base.\nFrom HostdRoots Require Import Model Sess Chain Hand.\nOpen Scope N_scope."

// ---------------------------------------------------------------- the store wrapper and the host

type yhCall struct {
	key     string
	rev     types.FileContractRevision
	old     []types.Hash256
	changes []contracts.SectorChange
}

// yhStore = concStore + a record of what every Commit handed over
type yhStore struct {
	*sqlite.Store
	g     *concGate
	mu    sync.Mutex
	calls []yhCall
}

func (s *yhStore) ReviseContract(revision contracts.SignedRevision, oldRoots []types.Hash256, usage contracts.Usage, sectorChanges []contracts.SectorChange) error {
	id := revision.Revision.ParentID
	s.mu.Lock()
	s.calls = append(s.calls, yhCall{key: concRevKey(revision.Revision), rev: concCopyRev(revision.Revision),
		old: append([]types.Hash256(nil), oldRoots...), changes: append([]contracts.SectorChange(nil), sectorChanges...)})
	s.mu.Unlock()
	s.g.hit("", cpPersistIn, "revise", id, &revision.Revision)
	if s.g.takeFault("", id, &revision.Revision) {
		s.g.hit("", "persist-fault", "revise", id, &revision.Revision)
		return errConcInjected
	}
	err := s.Store.ReviseContract(revision, oldRoots, usage, sectorChanges)
	if err != nil {
		s.g.hit("", "persist-fail", "revise", id, &revision.Revision)
		return err
	}
	s.g.hit("", cpPersistOut, "revise", id, &revision.Revision)
	return nil
}

func (s *yhStore) call(key string) (yhCall, bool) {
	s.mu.Lock()
	defer s.mu.Unlock()
	for i := len(s.calls) - 1; i >= 0; i-- {
		if s.calls[i].key == key {
			return s.calls[i], true
		}
	}
	return yhCall{}, false
}

type yhHost struct {
	*concHost
	store *yhStore
	cm    *contracts.Manager
	vm    *storage.VolumeManager
	wm    *wallet.SingleAddressWallet
}

// newYHHost is newConcHost with yhStore under the contract manager
func newYHHost(t *testing.T) *yhHost {
	log := zap.NewNop()
	hostKey := types.NewPrivateKeyFromSeed(bytes.Repeat([]byte{7}, 32))
	network, genesis := testutil.V1Network()
	network.HardforkV2.AllowHeight = 1 << 30
	network.HardforkV2.RequireHeight = 1<<30 + 1000
	g := newConcGate()

	cn := testutil.NewConsensusNode(t, network, genesis, log)
	wm, err := wallet.NewSingleAddressWallet(hostKey, cn.Chain, cn.Store)
	if err != nil {
		t.Fatal("failed to create wallet:", err)
	}
	t.Cleanup(func() { wm.Close() })
	vm, err := storage.NewVolumeManager(cn.Store, storage.WithLogger(log), storage.WithPruneInterval(30*time.Second))
	if err != nil {
		t.Fatal("failed to create volume manager:", err)
	}
	t.Cleanup(func() { vm.Close() })
	ys := &yhStore{Store: cn.Store, g: g}
	cm, err := contracts.NewManager(ys, vm, cn.Chain, cn.Syncer, wm, contracts.WithRejectAfter(10), contracts.WithRevisionSubmissionBuffer(5), contracts.WithLog(log))
	if err != nil {
		t.Fatal("failed to create contracts manager:", err)
	}
	t.Cleanup(func() { cm.Close() })
	initialSettings := settings.DefaultSettings
	initialSettings.AcceptingContracts = true
	initialSettings.NetAddress = "127.0.0.1"
	initialSettings.WindowSize = 10
	sm, err := settings.NewConfigManager(hostKey, cn.Store, cn.Chain, cn.Syncer, vm, wm, settings.WithAnnounceInterval(10), settings.WithValidateNetAddress(false), settings.WithInitialSettings(initialSettings))
	if err != nil {
		t.Fatal(err)
	}
	idx, err := index.NewManager(cn.Store, cn.Chain, cm, wm, sm, vm, index.WithLog(log), index.WithBatchSize(1))
	if err != nil {
		t.Fatal("failed to create index manager:", err)
	}
	t.Cleanup(func() { idx.Close() })
	am := accounts.NewManager(cn.Store, sm)
	rm := registry.NewManager(hostKey, cn.Store, log)
	t.Cleanup(func() { rm.Close() })
	certs, err := certificates.NewManager("", hostKey, certificates.WithLog(log))
	if err != nil {
		t.Fatal("failed to create certificates manager:", err)
	}
	t.Cleanup(func() { certs.Close() })
	amObs := accounts.NewManager(cn.Store, sm)
	node := &testutil.HostNode{ConsensusNode: *cn, Certs: certs, Settings: sm, Wallet: wm, Contracts: cm, Volumes: vm, Indexer: idx, Accounts: amObs, Registry: rm}

	testutil.MineAndSync(t, node, node.Wallet.Address(), int(network.MaturityDelay+20))
	res := make(chan error)
	if _, err := node.Volumes.AddVolume(context.Background(), filepath.Join(t.TempDir(), "storage.dat"), 256, res); err != nil {
		t.Fatal(err)
	} else if err := <-res; err != nil {
		t.Fatal(err)
	}

	h := &concHost{g: g, addr2: map[string]string{}, addr3: map[string]string{}}
	for _, tag := range []string{"A", "B"} {
		l2, err := net.Listen("tcp", "localhost:0")
		if err != nil {
			t.Fatal(err)
		}
		t.Cleanup(func() { l2.Close() })
		l3, err := net.Listen("tcp", "localhost:0")
		if err != nil {
			t.Fatal(err)
		}
		t.Cleanup(func() { l3.Close() })
		cw := &concContracts{Manager: cm, g: g, tag: tag}
		aw := &concAccounts{AccountManager: am, g: g, tag: tag}
		sh2 := rhp2.NewSessionHandler(l2, hostKey, node.Chain, node.Syncer, node.Wallet, cw, node.Settings, node.Volumes, log)
		t.Cleanup(func() { sh2.Close() })
		go sh2.Serve()
		sh3 := rhp3.NewSessionHandler(l3, hostKey, node.Chain, node.Syncer, node.Wallet, aw, cw, node.Registry, node.Volumes, node.Settings, log)
		t.Cleanup(func() { sh3.Close() })
		go sh3.Serve()
		h.addr2[tag], h.addr3[tag] = sh2.LocalAddr(), sh3.LocalAddr()
	}
	h.c10Host = &c10Host{t: t, node: node, hostKey: hostKey, rhp2Addr: h.addr2["A"], rhp3Addr: h.addr3["A"]}
	for i := 0; i < 4; i++ {
		var s [crhp2.SectorSize]byte
		binary.LittleEndian.PutUint64(s[:8], uint64(i)+1)
		copy(s[8:], "verif-conc")
		h.sectors = append(h.sectors, s)
		h.roots = append(h.roots, crhp2.SectorRoot(&s))
	}
	h.keeper()
	return &yhHost{concHost: h, store: ys, cm: cm, vm: vm, wm: wm}
}

// ---------------------------------------------------------------- the edits

type yhAct struct {
	kind string // append | appendroot | swap | trim | update | updatestored
	a, b uint64 // swap: indices; trim: n; update: index (a) and byte offset inside the sector (b)
	pool int    // append / appendroot / updatestored: which pool sector
}

func (a yhAct) String() string {
	switch a.kind {
	case "append", "appendroot", "updatestored":
		return fmt.Sprintf("%s(pool %d @%d)", a.kind, a.pool, a.a)
	case "swap":
		return fmt.Sprintf("swap(%d,%d)", a.a, a.b)
	case "trim":
		return fmt.Sprintf("trim(%d)", a.a)
	}
	return fmt.Sprintf("update(%d+%d)", a.a, a.b)
}

// failure seams of the editing RPC
const (
	ysNone   = ""
	ysSig    = "bad-finalisation-signature"
	ysPay    = "payment-insufficient"
	ysStore  = "store-error"
	ysDrop   = "connection-dropped-before-finalisation"
	ysRange  = "swap-out-of-range"   // RHP3 only
	ysAbsent = "root-not-stored"     // RHP2 update with new content (the store refuses), RHP3 AppendSectorRoot of an unknown root
)

type yhReq struct {
	proto int // 2 | 3
	acts  []yhAct
	seam  string
	extra types.Currency

	// prepared
	base      types.FileContractRevision
	baseRoots []types.Hash256
	prop      c10Prop
	expRoots  []types.Hash256 // the list if the host accepts
	expected  types.FileContractRevision
	willFail  bool
	u         int // updater slot of the model

	// outcome
	err      error
	executed int               // actions the handler reported as executed (RHP3: outputs without error; RHP2: all or none)
	rejected bool              // the action after those was refused by the updater (RHP3 swap out of range)
	opened   bool              // the handler got as far as opening the updater
	newRoots []types.Hash256   // roots of sectors the host was sent while editing (append with data, update)
	outsBad  string
}

type yhPair struct {
	a     yhReq
	point string
	b     concKind // ckRoots2 | ckRead2 | ckWrite2 | ckExec3C | ckFund3 | ckRenew3 | ckRenew2 | ckSession2
}

func (p yhPair) String() string {
	var as []string
	for _, a := range p.a.acts {
		as = append(as, a.String())
	}
	seam := p.a.seam
	if seam == "" {
		seam = "no failure"
	}
	return fmt.Sprintf("A=rhp%d[%s] (%s) parked at %s, B=%s", p.a.proto, strings.Join(as, " "), seam, p.point, p.b)
}

type yhCase struct {
	*concCase
	yh      *yhHost
	real    *verifEmitter
	rootNum map[types.Hash256]int
	hashNum map[types.Hash256]int
	cidNum  map[types.FileContractID]int
	known   map[types.Hash256]bool // roots the model has been told are stored
	data    map[types.Hash256]*[crhp2.SectorSize]byte
	ref     map[types.FileContractID][]types.Hash256 // the list implied by the accepted modifications
	hit     map[string]bool
	nextU   int
	edits   int
	desc    string
	pending []yhPending // looks taken while handlers were parked, by position in the gate log
	gave    map[types.Hash256]bool // roots under which a handler of this case wrote a sector it was sent
}

func (x *yhCase) rN(r types.Hash256) int {
	if n, ok := x.rootNum[r]; ok {
		return n
	}
	x.rootNum[r] = len(x.rootNum) + 1
	return x.rootNum[r]
}
func (x *yhCase) hN(h types.Hash256) int {
	if h == (types.Hash256{}) {
		return 0
	}
	if n, ok := x.hashNum[h]; ok {
		return n
	}
	x.hashNum[h] = len(x.hashNum) + 1
	return x.hashNum[h]
}
func (x *yhCase) cN(id types.FileContractID) int {
	if n, ok := x.cidNum[id]; ok {
		return n
	}
	x.cidNum[id] = len(x.cidNum) + 1
	return x.cidNum[id]
}
func (x *yhCase) roots(l []types.Hash256) string {
	items := make([]string, len(l))
	for i, r := range l {
		items[i] = fmt.Sprint(x.rN(r))
	}
	return "[" + strings.Join(items, "; ") + "]"
}
func (x *yhCase) opt(id types.FileContractID) string {
	if id == (types.FileContractID{}) {
		return "None"
	}
	return fmt.Sprintf("(Some %d)", x.cN(id))
}

func (x *yhCase) monitor(sig, detail string) {
	if x.hit[sig] {
		return
	}
	x.hit[sig] = true
	x.real.Monitor(sig, detail+"; "+x.desc)
}

func (x *yhCase) sop(t int, op, obs string) {
	x.real.Step(fmt.Sprintf("HS (SOp %d (%s))", t, op), "hs (SO ("+obs+"))")
}
func (x *yhCase) ev(e, obs string) { x.real.Step("HS ("+e+")", "hs ("+obs+")") }

// the model learns that the host stores r
func (x *yhCase) storeSec(t int, r types.Hash256) {
	if !x.known[r] {
		x.known[r] = true
		x.sop(t, fmt.Sprintf("StoreSec %d", x.rN(r)), "ORes (Ok tt)")
	}
}

type yhPending struct {
	pos     int
	op, obs string
}

type yhView struct {
	db, cache []types.Hash256
	c         contracts.Contract
}

func (x *yhCase) view(id types.FileContractID) yhView {
	node := x.h.node
	all, err := node.Store.SectorRoots()
	if err != nil {
		x.t.Fatal(err)
	}
	c, err := node.Contracts.Contract(id)
	if err != nil {
		x.t.Fatal(err)
	}
	return yhView{db: all[id], cache: node.Contracts.SectorRoots(id), c: c}
}

// look records the contract and evaluates C03's predicate on it: want = the list implied by the accepted
// modifications at this moment
func (x *yhCase) look(id types.FileContractID, want []types.Hash256, when string) yhView {
	v := x.view(id)
	op, obs := x.lookTerm(id, v)
	x.real.Step(op, obs)
	x.check(id, v, want, when, false)
	return v
}

func (x *yhCase) lookTerm(id types.FileContractID, v yhView) (string, string) {
	return fmt.Sprintf("HS (SOp 0 (Look1 %d))", x.cN(id)), fmt.Sprintf("hs (SO (OLook true %s %s %d %d %d %s %s))", x.roots(v.db), x.roots(v.cache),
		v.c.Revision.RevisionNumber, v.c.Revision.Filesize, x.hN(v.c.Revision.FileMerkleRoot), x.opt(v.c.RenewedTo), x.opt(v.c.RenewedFrom))
}

// lookMid is a look while the handlers of a pair are parked: evaluated now, written into the record at
// the place of the gate log where it was taken.  midCommit = the holder is parked inside
// ContractUpdater.Commit, between the store's commit and the cache update (the store's list and revision
// are the new ones, the cache is replaced when the store call returns): only the persisted side is
// compared, and the look is not a step of the model, whose Commit1 is one step
func (x *yhCase) lookMid(id types.FileContractID, want []types.Hash256, when string, midCommit bool) yhView {
	v := x.view(id)
	if !midCommit {
		op, obs := x.lookTerm(id, v)
		x.pending = append(x.pending, yhPending{pos: len(x.ch.g.snapshot()), op: op, obs: obs})
	}
	x.check(id, v, want, when, midCommit)
	return v
}

func (x *yhCase) check(id types.FileContractID, v yhView, want []types.Hash256, when string, midCommit bool) {
	if v.c.RenewedTo != (types.FileContractID{}) {
		return // superseded by a renewal: C03 says nothing about it
	}
	n := x.cN(id)
	if midCommit {
		if !c13Eq(v.db, want) || v.c.Revision.Filesize != uint64(len(want))*crhp2.SectorSize || v.c.Revision.FileMerkleRoot != crhp2.MetaRoot(want) {
			x.monitor("handler-list-differs-from-accepted-modifications", fmt.Sprintf("contract %d %s: store %s with revision %d of size %d, the modifications being accepted give %s", n, when, x.roots(v.db), v.c.Revision.RevisionNumber, v.c.Revision.Filesize, x.roots(want)))
		}
		return
	}
	if !c13Eq(v.db, v.cache) {
		x.monitor("persisted-list-differs-from-served-list", fmt.Sprintf("contract %d %s: store %s, manager %s", n, when, x.roots(v.db), x.roots(v.cache)))
	}
	if !c13Eq(v.db, want) || !c13Eq(v.cache, want) {
		x.monitor("handler-list-differs-from-accepted-modifications", fmt.Sprintf("contract %d %s: store %s, manager %s, accepted modifications give %s", n, when, x.roots(v.db), x.roots(v.cache), x.roots(want)))
	}
	if v.c.Revision.Filesize != uint64(len(v.cache))*crhp2.SectorSize || v.c.Revision.FileMerkleRoot != crhp2.MetaRoot(v.cache) {
		x.monitor("revision-differs-from-list", fmt.Sprintf("contract %d %s: revision %d has file size %d and root %v, the served list %s has %d sectors and root %v", n, when,
			v.c.Revision.RevisionNumber, v.c.Revision.Filesize, v.c.Revision.FileMerkleRoot, x.roots(v.cache), len(v.cache), crhp2.MetaRoot(v.cache)))
	}
}

// fold: the reference semantics of the actions (what "accepted modification" means for the list); the
// second result is false when an action is out of range
func (x *yhCase) fold(l []types.Hash256, acts []yhAct) ([]types.Hash256, bool) {
	l = append([]types.Hash256(nil), l...)
	for _, a := range acts {
		switch a.kind {
		case "append", "appendroot":
			l = append(l, x.h.roots[a.pool])
		case "swap":
			if a.a >= uint64(len(l)) || a.b >= uint64(len(l)) {
				return l, false
			}
			l[a.a], l[a.b] = l[a.b], l[a.a]
		case "trim":
			if a.a > uint64(len(l)) {
				return l, false
			}
			l = l[:uint64(len(l))-a.a]
		case "updatestored":
			if a.a >= uint64(len(l)) {
				return l, false
			}
			l[a.a] = x.h.roots[a.pool]
		case "update":
			if a.a >= uint64(len(l)) {
				return l, false
			}
			old, ok := x.data[l[a.a]]
			if !ok {
				return l, false
			}
			upd := *old
			copy(upd[a.b:], yhPatch(a))
			r := crhp2.SectorRoot(&upd)
			x.data[r] = &upd
			l[a.a] = r
		}
	}
	return l, true
}

func yhPatch(a yhAct) []byte {
	p := make([]byte, 64)
	for i := range p {
		p[i] = byte(a.a*31 + a.b + uint64(i))
	}
	copy(p, "verif-Y-patch")
	return p
}

// ---------------------------------------------------------------- the editing RPC of caller A

var errYHDropped = errors.New("renter hung up before the finalisation")

func (x *yhCase) prepareA(q *yhReq, con int) {
	ct := x.cons[con]
	q.base = x.stored0(con)
	q.baseRoots = x.h.node.Contracts.SectorRoots(ct.id)
	q.u = x.nextU
	x.nextU++
	exp, ok := x.fold(q.baseRoots, q.acts)
	q.willFail = q.seam != ysNone || !ok
	if q.proto == 3 { // UpdateSector stores the patched sector under its new root (the RHP2 update action does not)
		l := q.baseRoots
		for _, a := range q.acts {
			next, ok := x.fold(l, []yhAct{a})
			if !ok {
				break
			}
			if a.kind == "update" {
				x.gave[next[a.a]] = true
			}
			l = next
		}
	}
	r := c10RevOf(q.base)
	if q.proto == 2 {
		st := x.settings2()
		costs, err := st.RPCWriteCost(x.actions2(q), q.base.Filesize/crhp2.SectorSize, q.base.WindowEnd-x.h.node.Chain.Tip().Height, false)
		if err != nil {
			x.t.Fatalf("write cost of %v: %v", q.acts, err)
		}
		cost, coll := costs.Total()
		pay := cost.Add(q.extra)
		if q.seam == ysPay {
			pay = cost.Sub(c10Min(cost, types.NewCurrency64(1))) // one hasting short
			if cost.IsZero() {
				q.seam, q.willFail = ysSig, true
			}
		}
		q.prop = x.rhp2Prop(q.base, pay, coll, 0)
	} else {
		// a program is paid from the account; the finalisation moves nothing but the number
		q.prop = c10Prop{rn: q.base.RevisionNumber + 1, vr: r.vr, vh: r.vh, mr: r.mr, mh: r.mh, mv: r.mv}
	}
	q.expected, q.expRoots = concCopyRev(q.base), q.baseRoots
	if !q.willFail {
		q.expRoots = exp
		q.expected = q.prop.apply(q.base)
		q.expected.Filesize = uint64(len(exp)) * crhp2.SectorSize
		q.expected.FileMerkleRoot = crhp2.MetaRoot(exp)
	}
	missed := q.prop.missed()
	if len(q.base.MissedProofOutputs) == 2 {
		missed = missed[:2]
	}
	x.ch.g.announce("A", concKey(q.prop.rn, q.prop.valid(), missed))
}

func (x *yhCase) stored0(con int) types.FileContractRevision { return x.concCase.stored(con) }

func (x *yhCase) actions2(q *yhReq) []crhp2.RPCWriteAction {
	var out []crhp2.RPCWriteAction
	for _, a := range q.acts {
		switch a.kind {
		case "append":
			out = append(out, crhp2.RPCWriteAction{Type: crhp2.RPCWriteActionAppend, Data: x.h.sectors[a.pool][:]})
		case "swap":
			out = append(out, crhp2.RPCWriteAction{Type: crhp2.RPCWriteActionSwap, A: a.a, B: a.b})
		case "trim":
			out = append(out, crhp2.RPCWriteAction{Type: crhp2.RPCWriteActionTrim, A: a.a})
		case "updatestored":
			out = append(out, crhp2.RPCWriteAction{Type: crhp2.RPCWriteActionUpdate, A: a.a, B: 0, Data: x.h.sectors[a.pool][:]})
		case "update":
			out = append(out, crhp2.RPCWriteAction{Type: crhp2.RPCWriteActionUpdate, A: a.a, B: a.b, Data: yhPatch(a)})
		}
	}
	return out
}

func (x *yhCase) runA(q *yhReq, con int) {
	defer func() {
		if r := recover(); r != nil {
			q.err = fmt.Errorf("renter side panic: %v", r)
		}
	}()
	if q.proto == 2 {
		q.err = x.runWrite2(q, con)
	} else {
		q.err = x.runProg3(q, con)
	}
}

func (x *yhCase) runWrite2(q *yhReq, con int) error {
	ct := x.cons[con]
	tr, err := x.dialTag2("A")
	if err != nil {
		return err
	}
	defer tr.Close()
	locked, err := proto2.RPCLock(tr, ct.key, ct.id)
	if err != nil {
		return fmt.Errorf("lock: %w", err)
	}
	defer proto2.RPCUnlock(tr)
	return x.write2On(q, tr, ct, locked)
}

// write2On sends the RHP2 write of q inside the locked session tr
func (x *yhCase) write2On(q *yhReq, tr *crhp2.Transport, ct *c10Contract, locked crhp2.ContractRevision) error {
	req := &crhp2.RPCWriteRequest{Actions: x.actions2(q), MerkleProof: false, RevisionNumber: q.prop.rn, ValidProofValues: q.prop.valid(), MissedProofValues: q.prop.missed()}
	if err := tr.WriteRequest(crhp2.RPCWriteID, req); err != nil {
		return err
	}
	var merkle crhp2.RPCWriteMerkleProof
	if err := tr.ReadResponse(&merkle, 1<<20); err != nil {
		return err
	}
	// the handler has opened the updater and applied every action
	q.opened, q.executed = true, len(q.acts)
	if exp, ok := x.fold(q.baseRoots, q.acts); ok && merkle.NewMerkleRoot != crhp2.MetaRoot(exp) {
		q.outsBad = fmt.Sprintf("RHP2 write reports the new Merkle root %v, the accepted actions give %v", merkle.NewMerkleRoot, crhp2.MetaRoot(exp))
	}
	if q.seam == ysDrop {
		tr.Close()
		return errYHDropped
	}
	exp, _ := x.fold(q.baseRoots, q.acts)
	nr := q.prop.apply(locked.Revision)
	nr.Filesize = uint64(len(exp)) * crhp2.SectorSize
	nr.FileMerkleRoot = merkle.NewMerkleRoot
	sig := ct.key.SignHash(c10Hash(nr))
	if q.seam == ysSig {
		sig[7] ^= 0x40
	}
	if err := tr.WriteResponse(&crhp2.RPCWriteResponse{Signature: sig}); err != nil {
		return err
	}
	var hostSig crhp2.RPCWriteResponse
	if err := tr.ReadResponse(&hostSig, 4096); err != nil {
		return err
	}
	x.ch.g.note("A", "host-sig")
	return nil
}

func (x *yhCase) runProg3(q *yhReq, con int) error {
	ct := x.cons[con]
	pt := x.pts["A"]
	tr, err := x.dialTag3("A")
	if err != nil {
		return err
	}
	defer tr.Close()
	s := tr.DialStream()
	defer s.Close()
	s.SetDeadline(time.Now().Add(60 * time.Second))
	defer concDrain(s)
	var data []byte
	put := func(b []byte) uint64 {
		off := uint64(len(data))
		data = append(data, b...)
		return off
	}
	u64 := func(v uint64) []byte {
		b := make([]byte, 8)
		binary.LittleEndian.PutUint64(b, v)
		return b
	}
	var prog []crhp3.Instruction
	dur := q.base.WindowEnd - pt.HostBlockHeight
	firstCost := types.ZeroCurrency
	for i, a := range q.acts {
		var cost crhp3.ResourceCost
		switch a.kind {
		case "append":
			prog = append(prog, &crhp3.InstrAppendSector{SectorDataOffset: put(x.h.sectors[a.pool][:])})
			cost = pt.AppendSectorCost(dur)
		case "appendroot":
			r := x.h.roots[a.pool]
			if q.seam == ysAbsent && i == len(q.acts)-1 {
				r[3] ^= 0x11 // a root the host has never seen
			}
			prog = append(prog, &crhp3.InstrAppendSectorRoot{MerkleRootOffset: put(r[:])})
			cost = pt.AppendSectorRootCost(dur)
		case "swap":
			prog = append(prog, &crhp3.InstrSwapSector{Sector1Offset: put(u64(a.a)), Sector2Offset: put(u64(a.b))})
			cost = pt.SwapSectorCost()
		case "trim":
			prog = append(prog, &crhp3.InstrDropSectors{SectorCountOffset: put(u64(a.a))})
			cost = pt.DropSectorsCost(a.a)
		case "update":
			p := yhPatch(a)
			prog = append(prog, &crhp3.InstrUpdateSector{Offset: a.a*crhp2.SectorSize + a.b, Length: uint64(len(p)), DataOffset: put(p)})
			cost = pt.UpdateSectorCost(uint64(len(p)))
		default:
			return fmt.Errorf("action %s has no RHP3 instruction", a.kind)
		}
		if i == 0 {
			firstCost, _ = cost.Total()
		}
	}
	payAmt := types.Siacoins(1).Div64(2)
	if q.seam == ysPay {
		// covers the program's base cost and its first instruction, not the second
		base, _ := pt.BaseCost().Total()
		payAmt = base.Add(firstCost)
	}
	if err := s.WriteRequest(crhp3.RPCExecuteProgramID, &pt.UID); err != nil {
		return err
	}
	k := x.accts[0]
	pay := crhp3.PayByEphemeralAccount(crhp3.Account(k.PublicKey()), payAmt, pt.HostBlockHeight+6, k)
	if err := s.WriteResponse(&crhp3.PaymentTypeEphemeralAccount); err != nil {
		return err
	} else if err := s.WriteResponse(&pay); err != nil {
		return err
	}
	req := crhp3.RPCExecuteProgramRequest{FileContractID: ct.id, Program: prog, ProgramData: data}
	if err := s.WriteResponse(&req); err != nil {
		return err
	}
	var cancel types.Specifier
	if err := s.ReadResponse(&cancel, 4096); err != nil {
		return err
	}
	q.opened = true // the token is written after Lock; the executor (and its updater) is built right after
	var last crhp3.RPCExecuteProgramResponse
	for i := range q.acts {
		var out crhp3.RPCExecuteProgramResponse
		if err := s.ReadResponse(&out, 8<<20); err != nil {
			return err
		} else if out.Error != nil {
			q.rejected = strings.Contains(out.Error.Error(), "failed to swap sectors")
			return out.Error
		}
		q.executed = i + 1
		last = out
		if exp, ok := x.fold(q.baseRoots, q.acts[:i+1]); ok && q.outsBad == "" && (out.NewSize != uint64(len(exp))*crhp2.SectorSize || out.NewMerkleRoot != crhp2.MetaRoot(exp)) {
			q.outsBad = fmt.Sprintf("after instruction %d (%v) the program reports size %d and root %v, the accepted actions give %d sectors and root %v", i+1, q.acts[i], out.NewSize, out.NewMerkleRoot, len(exp), crhp2.MetaRoot(exp))
		}
	}
	if q.seam == ysDrop {
		s.Close()
		tr.Close()
		return errYHDropped
	}
	nr := q.prop.apply(q.base)
	nr.Filesize, nr.FileMerkleRoot = last.NewSize, last.NewMerkleRoot
	missed := q.prop.missed()
	if len(q.base.MissedProofOutputs) == 2 {
		missed = missed[:2]
	}
	sig := ct.key.SignHash(c10Hash(nr))
	if q.seam == ysSig {
		sig[9] ^= 0x02
	}
	freq := crhp3.RPCFinalizeProgramRequest{Signature: sig, RevisionNumber: q.prop.rn, ValidProofValues: q.prop.valid(), MissedProofValues: missed}
	if err := s.WriteResponse(&freq); err != nil {
		return err
	}
	var fresp crhp3.RPCFinalizeProgramResponse
	if err := s.ReadResponse(&fresp, 4096); err != nil {
		return err
	}
	x.ch.g.note("A", "host-sig")
	return nil
}

// ---------------------------------------------------------------- caller B

// runRoots2 is the sector-roots RPC of the queued caller: what it is served is kept
func (x *yhCase) runRoots2(q *concReq, got *[]types.Hash256, lockedRev *types.FileContractRevision) error {
	ct := q.ct
	tr, err := x.dialTag2("B")
	if err != nil {
		return err
	}
	defer tr.Close()
	locked, err := proto2.RPCLock(tr, ct.key, ct.id)
	if err != nil {
		return fmt.Errorf("lock: %w", err)
	}
	defer proto2.RPCUnlock(tr)
	*lockedRev = locked.Revision
	n := locked.Revision.Filesize / crhp2.SectorSize
	if n == 0 {
		return nil // nothing to ask for: a bare lock / unlock session
	}
	st := x.settings2()
	cost, _ := st.RPCSectorRootsCost(0, n).Total()
	p := x.rhp2Prop(locked.Revision, cost.Add(q.extra), types.ZeroCurrency, 0)
	x.ch.g.announce("B", concKey(p.rn, p.valid(), p.missed()))
	nr := p.apply(locked.Revision)
	req := &crhp2.RPCSectorRootsRequest{RootOffset: 0, NumRoots: n, RevisionNumber: p.rn, ValidProofValues: p.valid(), MissedProofValues: p.missed(), Signature: ct.key.SignHash(c10Hash(nr))}
	if err := tr.WriteRequest(crhp2.RPCSectorRootsID, req); err != nil {
		return err
	}
	var resp crhp2.RPCSectorRootsResponse
	if err := tr.ReadResponse(&resp, 1<<20); err != nil {
		return err
	}
	*got = append([]types.Hash256{}, resp.SectorRoots...)
	x.ch.g.note("B", "host-sig")
	return nil
}

// ---------------------------------------------------------------- one pair

func (x *yhCase) waiters(id types.FileContractID) int { return x.yh.cm.VerifC03LockWaiters(id) }

// pair returns false when the contract cannot be used any more
func (x *yhCase) pair(p yhPair) bool {
	g := x.ch.g
	con := len(x.cons) - 1
	ct := x.cons[con]
	base := x.stored0(con)
	if base.RevisionNumber == math.MaxUint64 || base.ValidRenterPayout().Cmp(types.Siacoins(3)) < 0 {
		return false
	}
	x.desc = p.String()
	x.real.Count(fmt.Sprintf("A:rhp%d", p.a.proto))
	x.real.Count("A:seam=" + p.a.seam)
	x.real.Count("A:park=" + p.point)
	x.real.Count("B:" + p.b.String())
	for _, a := range p.a.acts {
		x.real.Count("A:action=" + a.kind)
	}
	g.begin(ct.id)
	defer g.end()
	qa := &p.a
	x.prepareA(qa, con)
	if qa.seam == ysStore {
		g.armFault("A")
	}
	qb := &concReq{kind: p.b, tag: "B", con: con, acct: 1, bump: 1, extra: types.Siacoins(1).Div64(10).Mul64(7), poolIdx: x.rng.Intn(4),
		from: qa.expected, sigBase: qa.expected, roots: qa.expRoots}
	var served []types.Hash256
	var lockedB types.FileContractRevision
	if p.b != ckRoots2 {
		x.prepare(qb)
	} else {
		qb.ct = ct
	}

	doneA, doneB := make(chan struct{}), make(chan struct{})
	finished := func(ch chan struct{}) bool {
		select {
		case <-ch:
			return true
		default:
			return false
		}
	}
	g.arm("A", p.point)
	go func() { x.runA(qa, con); close(doneA); g.note("A", "client-done") }()
	if !g.wait(concLong, func() bool { return g.isParked("A", p.point) || (finished(doneA) && !g.holds("A")) }) {
		x.t.Fatalf("pair %v: A neither reached %s nor finished: %s", p, p.point, concTrace(g.snapshot()))
	}
	g.mu.Lock()
	aParked := g.isParked("A", p.point)
	g.mu.Unlock()
	queued := false
	ref := x.ref[ct.id]
	if !aParked {
		x.real.Count("pair:A-never-parked")
		g.disarm("A", p.point)
		x.waitUnlocked()
	} else {
		// A holds the lock.  What the contract looks like at this point: the edit is visible from
		// persist-out on, not before
		mid := ref
		if (p.point == cpPersistOut || p.point == cpUnlockReq) && !qa.willFail {
			mid = qa.expRoots
		}
		x.lookMid(ct.id, mid, "while A is parked at "+p.point, p.point == cpPersistOut)
		g.arm("B", cpLockAcq)
	}
	runB := func() {
		defer func() {
			if r := recover(); r != nil {
				qb.err = fmt.Errorf("renter side panic: %v", r)
			}
			close(doneB)
			g.note("B", "client-done")
		}()
		if p.b == ckRoots2 {
			qb.err = x.runRoots2(qb, &served, &lockedB)
		} else {
			x.run(qb)
		}
	}
	go runB()
	if !g.wait(concLong, func() bool { return g.has("B", cpLockReq) || finished(doneB) }) {
		x.t.Fatalf("pair %v: B neither asked for the lock nor finished: %s", p, concTrace(g.snapshot()))
	}
	if aParked {
		// B counts as queued when the manager's own lock table shows a waiter behind A
		deadline := time.Now().Add(concLong)
		for !finished(doneB) && time.Now().Before(deadline) {
			if x.waiters(ct.id) >= 1 {
				queued = true
				break
			}
			g.wait(5*time.Millisecond, func() bool { return finished(doneB) })
		}
		g.mu.Lock()
		passed := g.isParked("B", cpLockAcq)
		g.mu.Unlock()
		if passed {
			x.monitor("second-caller-passed-held-lock", fmt.Sprintf("B got the lock of contract %d while A was parked holding it: %s", x.cN(ct.id), concTrace(g.snapshot())))
			g.release("B", cpLockAcq)
		}
		if queued {
			x.real.Count("pair:B-queued-behind-A")
		} else {
			x.real.Count("pair:B-not-seen-queued")
		}
		g.release("A", p.point)
		if !g.wait(concLong, func() bool { return finished(doneA) }) {
			x.t.Fatalf("pair %v: A did not finish after it was released: %s", p, concTrace(g.snapshot()))
		}
		if !g.wait(concLong, func() bool { return g.isParked("B", cpLockAcq) || finished(doneB) }) {
			x.t.Fatalf("pair %v: B neither got the lock nor finished after A was done: %s", p, concTrace(g.snapshot()))
		}
		g.mu.Lock()
		bp := g.isParked("B", cpLockAcq)
		g.mu.Unlock()
		if bp {
			// B holds the lock and has been handed a revision; nothing else has happened since A let go
			want := ref
			if qa.err == nil {
				want = qa.expRoots
			}
			v := x.lookMid(ct.id, want, "when the queued caller B has just been given the lock", false)
			for _, e := range g.snapshot() {
				if e.tag == "B" && e.point == cpLockAcq && e.rev != nil {
					if e.rev.RevisionNumber != v.c.Revision.RevisionNumber || e.rev.Filesize != v.c.Revision.Filesize || e.rev.FileMerkleRoot != v.c.Revision.FileMerkleRoot {
						x.monitor("queued-caller-handed-stale-revision", fmt.Sprintf("Lock handed B revision %d (size %d) of contract %d, the stored revision is %d (size %d)", e.rev.RevisionNumber, e.rev.Filesize, x.cN(ct.id), v.c.Revision.RevisionNumber, v.c.Revision.Filesize))
					}
					if e.rev.Filesize != uint64(len(want))*crhp2.SectorSize || e.rev.FileMerkleRoot != crhp2.MetaRoot(want) {
						x.monitor("queued-caller-handed-stale-revision", fmt.Sprintf("Lock handed B revision %d of contract %d with size %d / root %v, the accepted modifications give %s", e.rev.RevisionNumber, x.cN(ct.id), e.rev.Filesize, e.rev.FileMerkleRoot, x.roots(want)))
					}
				}
			}
			g.release("B", cpLockAcq)
		}
	}
	g.disarm("B", cpLockAcq)
	if !g.wait(concLong, func() bool { return finished(doneA) && finished(doneB) }) {
		x.t.Fatalf("pair %v: the RPCs did not finish: %s", p, concTrace(g.snapshot()))
	}
	x.waitUnlocked()
	evs := g.snapshot()
	x.desc = fmt.Sprintf("%v: A %v, B %v; %s", p, qa.err, qb.err, concTrace(evs))

	// ---- what was accepted
	if qa.err == nil {
		if qa.willFail {
			x.monitor("failed-modification-changes-state", fmt.Sprintf("the edit of contract %d with %s was accepted", x.cN(ct.id), qa.seam))
		}
		exp, _ := x.fold(ref, qa.acts)
		ref = exp
		x.edits++
		x.real.Count("A:accepted")
	} else {
		x.real.Count("A:refused")
		if !qa.willFail && !strings.Contains(qa.err.Error(), "not sent") {
			x.monitor("live-contract-refuses-revision", fmt.Sprintf("a well-formed edit of contract %d was refused: %v", x.cN(ct.id), qa.err))
		}
	}
	if qa.outsBad != "" {
		x.monitor("handler-output-differs-from-accepted-modifications", qa.outsBad)
	}
	afterA := ref
	if p.b == ckRoots2 && qb.err == nil && lockedB.Filesize > 0 {
		if !c13Eq(served, afterA) {
			x.monitor("queued-caller-served-stale-list", fmt.Sprintf("the sector-roots RPC of B on contract %d returned %s, the list after A's edit is %s", x.cN(ct.id), x.roots(served), x.roots(afterA)))
		}
	}
	if qb.err == nil {
		x.real.Count("B:accepted")
		switch p.b {
		case ckWrite2, ckExec3C:
			ref = append(append([]types.Hash256(nil), ref...), x.h.roots[qb.poolIdx])
		}
	} else {
		x.real.Count("B:refused")
		if qa.err == nil == !qa.willFail && qb.skipped == "" { // A went as expected, so B was built on the right revision
			x.monitor("live-contract-refuses-revision", fmt.Sprintf("%s of the queued caller on contract %d was refused: %v", p.b, x.cN(ct.id), qb.err))
		}
	}
	x.ref[ct.id] = ref
	x.record(ct.id, qa, evs, queued)
	if qa.err != nil {
		// a failed modification leaves list and revision unchanged (B may have revised afterwards:
		// compare what B was handed, or the final state when B did nothing)
		v := x.view(ct.id)
		if qb.err != nil && (v.c.Revision.RevisionNumber != base.RevisionNumber || v.c.Revision.Filesize != base.Filesize || v.c.Revision.FileMerkleRoot != base.FileMerkleRoot || !c13Eq(v.db, qa.baseRoots) || !c13Eq(v.cache, qa.baseRoots)) {
			x.monitor("failed-modification-changes-state", fmt.Sprintf("contract %d after the refused edit (%v): revision %d size %d store %s manager %s; before: revision %d size %d list %s", x.cN(ct.id), qa.err,
				v.c.Revision.RevisionNumber, v.c.Revision.Filesize, x.roots(v.db), x.roots(v.cache), base.RevisionNumber, base.Filesize, x.roots(qa.baseRoots)))
		}
	}
	x.look(ct.id, ref, "after the pair")
	if qb.renewed {
		x.afterRPC(qb)
		nid := x.cons[len(x.cons)-1].id
		x.ref[nid] = ref
		v := x.look(nid, ref, "the successor after the pair")
		if !c13Eq(v.db, afterA) || v.c.RenewedFrom != ct.id {
			x.monitor("successor-list-differs-from-predecessor", fmt.Sprintf("contract %d was renewed to %d by the queued caller after A's edit left %s; the successor holds %s (renewed from %s)", x.cN(ct.id), x.cN(nid), x.roots(afterA), x.roots(v.db), x.opt(v.c.RenewedFrom)))
		}
		testutil.MineAndSync(x.t, x.h.node, types.VoidAddress, 1)
		x.mine = false
	}
	return true
}

// ---------------------------------------------------------------- the record

func (x *yhCase) actTerm(ch contracts.SectorChange) string {
	switch ch.Action {
	case contracts.SectorActionAppend:
		return fmt.Sprintf("Append %d", x.rN(ch.Root))
	case contracts.SectorActionSwap:
		return fmt.Sprintf("Swap %d %d", ch.A, ch.B)
	case contracts.SectorActionTrim:
		return fmt.Sprintf("Trim %d", ch.A)
	}
	return fmt.Sprintf("Update %d %d", x.rN(ch.Root), ch.A)
}

// what the handler of A asked its updater to do, as far as the renter saw it happen (used when the
// store was never reached)
func (x *yhCase) editsSeen(q *yhReq) []contracts.SectorChange {
	var out []contracts.SectorChange
	l := append([]types.Hash256(nil), q.baseRoots...)
	n := q.executed
	if q.rejected {
		n++
	}
	for i := 0; i < n && i < len(q.acts); i++ {
		a := q.acts[i]
		next, ok := x.fold(l, []yhAct{a})
		switch a.kind {
		case "append", "appendroot":
			out = append(out, contracts.SectorChange{Action: contracts.SectorActionAppend, Root: x.h.roots[a.pool]})
		case "swap":
			lo, hi := a.a, a.b
			if q.proto == 3 && lo > hi {
				lo, hi = hi, lo
			}
			out = append(out, contracts.SectorChange{Action: contracts.SectorActionSwap, A: lo, B: hi})
		case "trim":
			out = append(out, contracts.SectorChange{Action: contracts.SectorActionTrim, A: a.a})
		case "update", "updatestored":
			var r types.Hash256
			if ok {
				r = next[a.a]
			}
			out = append(out, contracts.SectorChange{Action: contracts.SectorActionUpdate, Root: r, A: a.a})
		}
		if ok {
			l = next
		}
	}
	return out
}

func (x *yhCase) emitEdits(t int, q *yhReq, changes []contracts.SectorChange, rejectedLast bool) {
	x.sop(t, fmt.Sprintf("Open1 %d %d", q.u, x.cN(x.cons[len(x.cons)-1].id)), "ORes (Ok tt)")
	for i, ch := range changes {
		if ch.Action == contracts.SectorActionAppend || ch.Action == contracts.SectorActionUpdate {
			if x.gave[ch.Root] { // the handler was sent the sector's data and wrote it under this root
				x.storeSec(t, ch.Root)
			}
		}
		res := "Ok tt"
		if rejectedLast && i == len(changes)-1 {
			res = "Err EInvalid"
		}
		x.real.Step(fmt.Sprintf("HAct %d %d (%s)", t, q.u, x.actTerm(ch)), fmt.Sprintf("HORes (%s)", res))
	}
}

func (x *yhCase) record(pred types.FileContractID, qa *yhReq, evs []concEvent, queued bool) {
	node := x.h.node
	n := x.cN(pred)
	sess := map[string]int{"A": 1, "B": 2}
	holder := ""
	aEdits := false // the updater calls of A have been written
	slot := map[string]int{}
	pend := x.pending
	x.pending = nil
	defer func() {
		for _, l := range pend {
			x.real.Step(l.op, l.obs)
		}
	}()
	for k, e := range evs {
		for len(pend) > 0 && pend[0].pos <= k {
			x.real.Step(pend[0].op, pend[0].obs)
			pend = pend[1:]
		}
		t, ok := sess[e.tag]
		if !ok {
			continue
		}
		switch {
		case e.point == cpLockReq:
			if holder != "" && holder != e.tag && e.tag == "B" && queued {
				x.ev(fmt.Sprintf("SReq %d %d", t, n), "SO (ORes (Ok tt))")
			}
		case e.point == cpLockAcq && e.rev != nil:
			holder = e.tag
			x.ev(fmt.Sprintf("SAcq1 %d %d", t, n), fmt.Sprintf("SOLock1 (Ok (%d, %d, %d))", e.rev.RevisionNumber, e.rev.Filesize, x.hN(e.rev.FileMerkleRoot)))
		case e.point == "lock-fail":
			// Manager.Lock took the lock, read the contract and let go again: refused by isGoodForModification
			if c, err := node.Contracts.Contract(pred); err == nil && c.Revision.RevisionNumber == math.MaxUint64 {
				x.ev(fmt.Sprintf("SAcq1 %d %d", t, n), "SOLock1 (Err EInvalid)")
			} else {
				x.real.Count("record:lock-fail-not-recorded")
			}
		case e.point == cpPersistIn && e.what == "revise" && e.rev != nil:
			call, ok := x.yh.store.call(concRevKey(*e.rev))
			if !ok {
				x.t.Fatalf("no store call recorded for revision %d", e.rev.RevisionNumber)
			}
			u := -1
			if e.tag == "A" {
				x.emitEdits(t, qa, call.changes, false)
				aEdits = true
				u = qa.u
			} else {
				// B's own edit (second write / appending program): same shape
				qb := &yhReq{u: x.nextU}
				x.nextU++
				x.emitEdits(t, qb, call.changes, false)
				u = qb.u
			}
			slot[e.tag] = u
		case e.what == "revise" && e.rev != nil && (e.point == cpPersistOut || e.point == "persist-fail" || e.point == "persist-fault"):
			u, res, fault := slot[e.tag], "Ok tt", "None"
			if e.point == "persist-fault" {
				// the store call failed before its first statement: statement 3 of Commit (0-2 are the read
				// transaction of the guard)
				res, fault = "Err EOther", "(Some 3%nat)"
			} else if e.point == "persist-fail" {
				res = "Err EOther"
			}
			x.sop(t, fmt.Sprintf("Commit1 %d %d %d %d %s", u, e.rev.RevisionNumber, e.rev.Filesize, x.hN(e.rev.FileMerkleRoot), fault), "ORes ("+res+")")
			x.sop(t, fmt.Sprintf("Close1 %d", u), "ORes (Ok tt)")
		case e.point == cpPersistIn && e.what == "credit" && e.rev != nil:
			x.ev(fmt.Sprintf("SPayDecide %d %d", t, e.rev.RevisionNumber), "SO (ORes (Ok tt))")
		case e.point == cpPersistOut && e.what == "credit":
			x.ev(fmt.Sprintf("SPayPersist %d true", t), "SO (ORes (Ok tt))")
		case e.point == "persist-fail" && e.what == "credit":
			x.ev(fmt.Sprintf("SPayPersist %d false", t), "SO (ORes (Err EOther))")
		case e.point == cpPersistOut && e.what == "renew":
			pc, err := node.Contracts.Contract(pred)
			if err != nil {
				x.t.Fatal(err)
			}
			sc, err := node.Contracts.Contract(pc.RenewedTo)
			if err != nil {
				x.t.Fatalf("the renewal of contract %d was stored but its successor %v cannot be read: %v", n, pc.RenewedTo, err)
			}
			x.ev(fmt.Sprintf("SRenewH %d true (Renew1 %d %d %d 0 0 %d %d %d %d %d None)", t, n, x.cN(pc.RenewedTo), uint64(math.MaxUint64),
				sc.Revision.RevisionNumber, sc.Revision.Filesize, x.hN(sc.Revision.FileMerkleRoot), sc.Revision.WindowStart+c13WindowShift, x.hN(sc.Revision.FileMerkleRoot)),
				"SO (ORes (Ok tt))")
		case e.point == cpUnlockReq || (e.point == "released" && e.what == cpUnlockReq):
			parkedHere := e.point == cpUnlockReq && k+1 < len(evs) && evs[k+1].tag == e.tag && evs[k+1].point == "parked" && evs[k+1].what == cpUnlockReq
			if parkedHere {
				continue
			}
			if e.tag == "A" && !aEdits && qa.opened {
				// the store was never reached: the updater calls the renter saw succeed, then Close
				x.emitEdits(t, qa, x.editsSeen(qa), qa.rejected)
				x.sop(t, fmt.Sprintf("Close1 %d", qa.u), "ORes (Ok tt)")
				aEdits = true
			}
			if holder == e.tag {
				holder = ""
			}
			x.ev(fmt.Sprintf("SRel %d %d", t, n), "SO (ORes (Ok tt))")
		}
	}
}

// prefix: the contract of the case as the model has to know it before the first pair
func (x *yhCase) prefix() {
	node := x.h.node
	id := x.cons[0].id
	c, err := node.Contracts.Contract(id)
	if err != nil {
		x.t.Fatal(err)
	}
	list := node.Contracts.SectorRoots(id)
	for k := range x.h.roots {
		x.data[x.h.roots[k]] = &x.h.sectors[k]
		x.storeSec(0, x.h.roots[k])
	}
	n := x.cN(id)
	x.sop(0, fmt.Sprintf("Form1 %d 1 0 0 %d", n, c.Revision.WindowStart+c13WindowShift), "ORes (Ok tt)")
	x.sop(0, fmt.Sprintf("Lock1 %d", n), "ORes (Ok tt)")
	x.sop(0, fmt.Sprintf("Open1 %d %d", x.nextU, n), "ORes (Ok tt)")
	for _, r := range list {
		x.real.Step(fmt.Sprintf("HAct 0 %d (Append %d)", x.nextU, x.rN(r)), "HORes (Ok tt)")
	}
	x.sop(0, fmt.Sprintf("Commit1 %d %d %d %d None", x.nextU, c.Revision.RevisionNumber, c.Revision.Filesize, x.hN(c.Revision.FileMerkleRoot)), "ORes (Ok tt)")
	x.sop(0, fmt.Sprintf("Close1 %d", x.nextU), "ORes (Ok tt)")
	x.sop(0, fmt.Sprintf("Unlock1 %d", n), "ORes (Ok tt)")
	x.nextU++
	x.ref[id] = list
	x.look(id, list, "before the first pair")
}

// restart: a fresh contract manager on the same database serves the same lists (what NewManager loads
// is what a restarted host serves)
func (x *yhCase) restart() {
	node := x.h.node
	fresh, err := contracts.NewManager(x.yh.store.Store, x.yh.vm, node.Chain, node.Syncer, x.yh.wm, contracts.WithRejectAfter(10), contracts.WithRevisionSubmissionBuffer(5), contracts.WithLog(zap.NewNop()))
	if err != nil {
		x.t.Fatal("fresh manager:", err)
	}
	defer fresh.Close()
	x.sop(0, "Restart", "ORes (Ok tt)")
	all, err := node.Store.SectorRoots()
	if err != nil {
		x.t.Fatal(err)
	}
	for _, ct := range x.cons {
		c, err := node.Contracts.Contract(ct.id)
		if err != nil {
			x.t.Fatal(err)
		}
		after := fresh.SectorRoots(ct.id)
		x.sop(0, fmt.Sprintf("Look1 %d", x.cN(ct.id)), fmt.Sprintf("OLook true %s %s %d %d %d %s %s", x.roots(all[ct.id]), x.roots(after),
			c.Revision.RevisionNumber, c.Revision.Filesize, x.hN(c.Revision.FileMerkleRoot), x.opt(c.RenewedTo), x.opt(c.RenewedFrom)))
		if before := node.Contracts.SectorRoots(ct.id); c.RenewedTo == (types.FileContractID{}) && (!c13Eq(before, after) || !c13Eq(after, x.ref[ct.id])) {
			x.monitor("restart-changes-served-list", fmt.Sprintf("contract %d: served %s before, %s by a manager loaded from the database, accepted modifications give %s", x.cN(ct.id), x.roots(before), x.roots(after), x.roots(x.ref[ct.id])))
		}
	}
}

// ---------------------------------------------------------------- cases

func yhA(proto int, seam string, acts ...yhAct) yhReq {
	return yhReq{proto: proto, seam: seam, acts: acts, extra: types.Siacoins(1).Div64(10).Mul64(3)}
}

// the contract starts with one sector (the setup's write)
func yhDirected(id int) []yhPair {
	ap := func(k int) yhAct { return yhAct{kind: "append", pool: k} }
	apr := func(k int) yhAct { return yhAct{kind: "appendroot", pool: k} }
	sw := func(a, b uint64) yhAct { return yhAct{kind: "swap", a: a, b: b} }
	tr := func(n uint64) yhAct { return yhAct{kind: "trim", a: n} }
	upd := func(i, off uint64) yhAct { return yhAct{kind: "update", a: i, b: off} }
	ups := func(i uint64, k int) yhAct { return yhAct{kind: "updatestored", a: i, pool: k} }
	switch id {
	case 0: // RHP2 write edits, the queued caller reads the list / writes / renews
		return []yhPair{
			{a: yhA(2, ysNone, ap(1), ap(2)), point: cpPersistIn, b: ckRoots2},
			{a: yhA(2, ysNone, sw(0, 2), tr(1)), point: cpPersistOut, b: ckWrite2},
			{a: yhA(2, ysNone, ups(0, 3), ap(0)), point: cpLockAcq, b: ckRead2},
			{a: yhA(2, ysNone, sw(1, 1), tr(2), ap(2)), point: cpUnlockReq, b: ckRenew3},
		}
	case 1: // RHP3 program edits with finalisation
		return []yhPair{
			{a: yhA(3, ysNone, ap(1), apr(2), sw(0, 2)), point: cpPersistIn, b: ckRoots2},
			{a: yhA(3, ysNone, upd(1, 128), tr(1)), point: cpPersistOut, b: ckExec3C},
			{a: yhA(3, ysNone, tr(3), apr(3), apr(0)), point: cpLockAcq, b: ckFund3},
			{a: yhA(3, ysNone, sw(1, 0), upd(0, 4096)), point: cpUnlockReq, b: ckRenew2},
		}
	case 2: // failures of the editing RPC, RHP2
		return []yhPair{
			{a: yhA(2, ysSig, ap(1), sw(0, 1)), point: cpLockAcq, b: ckRoots2},
			{a: yhA(2, ysStore, ap(2)), point: cpPersistIn, b: ckRoots2},
			{a: yhA(2, ysDrop, ap(3), tr(1)), point: cpLockAcq, b: ckWrite2},
			{a: yhA(2, ysPay, ap(1)), point: cpLockAcq, b: ckRoots2},
			{a: yhA(2, ysAbsent, upd(0, 256)), point: cpPersistIn, b: ckRoots2},
			{a: yhA(2, ysNone, ap(1)), point: cpPersistIn, b: ckRoots2},
		}
	case 3: // failures of the editing RPC, RHP3
		return []yhPair{
			{a: yhA(3, ysNone, apr(1), apr(2)), point: cpPersistOut, b: ckRoots2},
			{a: yhA(3, ysSig, sw(0, 1), tr(1)), point: cpLockAcq, b: ckRoots2},
			{a: yhA(3, ysStore, upd(0, 64), apr(3)), point: cpPersistIn, b: ckRoots2},
			{a: yhA(3, ysDrop, tr(2), ap(3)), point: cpLockAcq, b: ckExec3C},
			{a: yhA(3, ysPay, apr(0), ap(1), tr(1)), point: cpLockAcq, b: ckRoots2},
			{a: yhA(3, ysRange, apr(0), sw(1, 9)), point: cpLockAcq, b: ckRoots2},
			{a: yhA(3, ysAbsent, sw(0, 1), apr(2)), point: cpLockAcq, b: ckRenew3},
		}
	}
	return nil
}

const yhDirectedCases = 4

var yhPoints = []string{cpLockAcq, cpPersistIn, cpPersistIn, cpPersistOut, cpUnlockReq}
var yhBKinds = []concKind{ckRoots2, ckRoots2, ckRead2, ckWrite2, ckExec3C, ckFund3, ckRenew3, ckRenew2}

func (x *yhCase) genPair(last bool) yhPair {
	r := x.rng
	n := uint64(len(x.ref[x.cons[len(x.cons)-1].id]))
	proto := 2 + r.Intn(2)
	var acts []yhAct
	for k := 1 + r.Intn(3); k > 0; k-- {
		var a yhAct
		switch c := r.Intn(10); {
		case c < 3 || n == 0:
			a = yhAct{kind: "append", pool: r.Intn(4)}
			if proto == 3 && r.Intn(2) == 0 {
				a.kind = "appendroot"
			}
			n++
		case c < 5 && n >= 1:
			a = yhAct{kind: "swap", a: uint64(r.Intn(int(n))), b: uint64(r.Intn(int(n)))}
		case c < 7 && n >= 1 && n < 6:
			a = yhAct{kind: "trim", a: uint64(r.Intn(int(n) + 1))}
			if r.Intn(3) == 0 {
				a.a = n // to zero
			}
			n -= a.a
		case c < 9:
			if proto == 2 {
				a = yhAct{kind: "updatestored", a: uint64(r.Intn(int(n))), pool: r.Intn(4)}
			} else {
				a = yhAct{kind: "update", a: uint64(r.Intn(int(n))), b: uint64(64 * r.Intn(1000))}
			}
		default:
			a = yhAct{kind: "trim", a: uint64(r.Intn(int(n) + 1))}
			n -= a.a
		}
		acts = append(acts, a)
	}
	p := yhPair{a: yhA(proto, ysNone, acts...), point: yhPoints[r.Intn(len(yhPoints))], b: yhBKinds[r.Intn(len(yhBKinds))]}
	if n > 6 { // keep the lists (and the uploads) small
		p.a.acts = append(p.a.acts, yhAct{kind: "trim", a: n - 2})
	}
	if !last && p.b.renews() && r.Intn(2) == 0 {
		p.b = ckRoots2
	}
	if r.Intn(3) == 0 {
		seams := []string{ysSig, ysStore, ysDrop, ysPay}
		p.a.seam = seams[r.Intn(len(seams))]
		switch p.a.seam {
		case ysStore:
			p.point = cpPersistIn
		default:
			p.point = cpLockAcq
		}
		if p.a.seam == ysPay && proto == 3 && len(p.a.acts) < 2 {
			p.a.acts = append(p.a.acts, yhAct{kind: "appendroot", pool: r.Intn(4)})
		}
	}
	return p
}

const yhPairsPerCase = 4

func (x *yhCase) runCase(id int) {
	x.out.BeginCase(id, "scratch")
	x.setup()
	// the accounts of the two callers pay for the programs
	five := types.Siacoins(5)
	x.forceFund = &five
	x.fund3(0, 0, 0)
	x.fund3(0, 1, 0)
	x.forceFund = nil
	x.end2()
	x.prefix()
	pairs := yhDirected(id)
	for k := 0; k < len(pairs) || (pairs == nil && k < yhPairsPerCase); k++ {
		var p yhPair
		if pairs != nil {
			p = pairs[k]
		} else {
			p = x.genPair(k == yhPairsPerCase-1)
		}
		if !x.pair(p) {
			break
		}
	}
	x.restart()
	x.end2()
	x.out.EndCase(false)
}

func newYHCase(t *testing.T, yh *yhHost, em *verifEmitter, id int) *yhCase {
	scratch := concScratchEmitter(t)
	return &yhCase{concCase: &concCase{c10Case: &c10Case{h: yh.c10Host, em: scratch, rng: verifCaseRand(id)}, ch: yh.concHost, mode: "c10", t: t, out: scratch,
		pts: map[string]crhp3.HostPriceTable{}, monitored: map[string]bool{}},
		yh: yh, real: em, rootNum: map[types.Hash256]int{}, hashNum: map[types.Hash256]int{}, cidNum: map[types.FileContractID]int{},
		known: map[types.Hash256]bool{}, data: map[types.Hash256]*[crhp2.SectorSize]byte{}, ref: map[types.FileContractID][]types.Hash256{}, hit: map[string]bool{}, gave: map[types.Hash256]bool{}}
}

func TestVerifC03Handlers(t *testing.T) {
	em := newVerifEmitter(t, yhHeader, "hcase", "hcheck")
	defer em.Close()
	yh := newYHHost(t)
	n := verifN(4)
	for id := 0; id < n+yhDirectedCases; id++ {
		if em.Skip(id) {
			continue
		}
		x := newYHCase(t, yh, em, id)
		em.BeginCase(id, "list edits through the real RHP2 / RHP3 handlers with a second caller queued on the contract lock")
		x.runCase(id)
		em.EndCase(x.edits > 0)
	}
}
