//go:build verif

package rhp

import (
	"context"
	"fmt"
	"math/big"
	"math/rand"
	"net"
	"path/filepath"
	"runtime"
	"strings"
	"testing"
	"time"

	rhp2 "go.sia.tech/core/rhp/v2"
	rhp3 "go.sia.tech/core/rhp/v3"
	"go.sia.tech/core/types"
	"go.sia.tech/hostd/v2/host/accounts"
	"go.sia.tech/hostd/v2/host/contracts"
	"go.sia.tech/hostd/v2/internal/testutil"
	"go.sia.tech/hostd/v2/rhp"
	"go.uber.org/zap"
)

// c14Host is a real host (sqlite store, contract/volume/account/registry managers, RHP3
// session handler) with one revisable contract and one funded ephemeral account.
type c14Host struct {
	t         *testing.T
	node      *testutil.HostNode
	sh        *SessionHandler
	hostKey   types.PrivateKey
	renterKey types.PrivateKey
	contract  contracts.SignedRevision
	account   rhp3.Account
	acctKey   types.PrivateKey
	addr      string
}

func c14Contract(t *testing.T, node *testutil.HostNode, hostKey, renterKey types.PrivateKey, salt byte) contracts.SignedRevision {
	t.Helper()
	height := node.Chain.Tip().Height
	uc := types.UnlockConditions{
		PublicKeys:         []types.UnlockKey{renterKey.PublicKey().UnlockKey(), hostKey.PublicKey().UnlockKey()},
		SignaturesRequired: 2,
	}
	hostAddr := node.Wallet.Address()
	fc := types.FileContract{
		WindowStart: height + 1<<33,
		WindowEnd:   height + 1<<33 + 10,
		Payout:      types.Siacoins(2000002000),
		UnlockHash:  uc.UnlockHash(),
		ValidProofOutputs: []types.SiacoinOutput{
			{Address: types.Address{salt, 1}, Value: types.Siacoins(2000000000)},
			{Address: hostAddr, Value: types.Siacoins(2000)},
		},
		MissedProofOutputs: []types.SiacoinOutput{
			{Address: types.Address{salt, 1}, Value: types.Siacoins(2000000000)},
			{Address: hostAddr, Value: types.Siacoins(2000)},
			{Address: types.VoidAddress, Value: types.ZeroCurrency},
		},
	}
	txn := types.Transaction{FileContracts: []types.FileContract{fc}, ArbitraryData: [][]byte{{salt}}}
	rev := types.FileContractRevision{ParentID: txn.FileContractID(0), UnlockConditions: uc, FileContract: fc}
	rev.RevisionNumber = 1
	sigHash := rhp.HashRevision(rev)
	sr := contracts.SignedRevision{Revision: rev, HostSignature: hostKey.SignHash(sigHash), RenterSignature: renterKey.SignHash(sigHash)}
	if err := node.Contracts.AddContract(sr, []types.Transaction{txn}, types.Siacoins(1000), contracts.Usage{}); err != nil {
		t.Fatal(err)
	}
	return sr
}

// payRevision moves amount from the renter to the host outputs of cur and signs it.
func c14PayRevision(cur types.FileContractRevision, amount types.Currency, hostKey, renterKey types.PrivateKey) contracts.SignedRevision {
	rev := cur
	rev.RevisionNumber++
	rev.ValidProofOutputs = append([]types.SiacoinOutput(nil), cur.ValidProofOutputs...)
	rev.MissedProofOutputs = append([]types.SiacoinOutput(nil), cur.MissedProofOutputs...)
	rev.ValidProofOutputs[0].Value = rev.ValidProofOutputs[0].Value.Sub(amount)
	rev.MissedProofOutputs[0].Value = rev.MissedProofOutputs[0].Value.Sub(amount)
	rev.ValidProofOutputs[1].Value = rev.ValidProofOutputs[1].Value.Add(amount)
	rev.MissedProofOutputs[1].Value = rev.MissedProofOutputs[1].Value.Add(amount)
	sigHash := rhp.HashRevision(rev)
	return contracts.SignedRevision{Revision: rev, HostSignature: hostKey.SignHash(sigHash), RenterSignature: renterKey.SignHash(sigHash)}
}

func newC14Host(t *testing.T) *c14Host {
	t.Helper()
	log := zap.NewNop()
	hostKey := types.NewPrivateKeyFromSeed(make([]byte, 32))
	renterKey := types.NewPrivateKeyFromSeed([]byte(strings.Repeat("r", 32)))
	acctKey := types.NewPrivateKeyFromSeed([]byte(strings.Repeat("a", 32)))
	network, genesis := testutil.V1Network()
	node := testutil.NewHostNode(t, hostKey, network, genesis, log)

	s := node.Settings.Settings()
	s.AcceptingContracts = true
	s.MaxAccountBalance = types.Siacoins(1000000)
	s.MaxRegistryEntries = 1000
	if err := node.Settings.UpdateSettings(s); err != nil {
		t.Fatal(err)
	}
	res := make(chan error, 1)
	if _, err := node.Volumes.AddVolume(context.Background(), filepath.Join(t.TempDir(), "storage.dat"), 256, res); err != nil {
		t.Fatal(err)
	} else if err := <-res; err != nil {
		t.Fatal(err)
	}
	l, err := net.Listen("tcp", "127.0.0.1:0")
	if err != nil {
		t.Fatal(err)
	}
	t.Cleanup(func() { l.Close() })
	sh := NewSessionHandler(l, hostKey, node.Chain, node.Syncer, node.Wallet, node.Accounts, node.Contracts, node.Registry, node.Volumes, node.Settings, log)
	t.Cleanup(func() { sh.Close() })

	h := &c14Host{t: t, node: node, sh: sh, hostKey: hostKey, renterKey: renterKey, acctKey: acctKey,
		account: rhp3.Account(acctKey.PublicKey()), addr: l.Addr().String()}
	h.contract = c14Contract(t, node, hostKey, renterKey, 1)
	// fund the account from the contract
	h.fund(types.Siacoins(1000))
	return h
}

func (h *c14Host) fund(amount types.Currency) {
	h.t.Helper()
	cur, err := h.node.Contracts.Contract(h.contract.Revision.ParentID)
	if err != nil {
		h.t.Fatal(err)
	}
	sr := c14PayRevision(cur.Revision, amount, h.hostKey, h.renterKey)
	if _, err := h.node.Accounts.Credit(accounts.FundAccountWithContract{Account: h.account, Amount: amount, Revision: sr, Expiration: time.Now().Add(time.Hour)}, false); err != nil {
		h.t.Fatal(err)
	}
	h.contract = sr
}

func (h *c14Host) balance() types.Currency {
	b, err := h.node.Accounts.Balance(h.account)
	if err != nil {
		h.t.Fatal(err)
	}
	return b
}

// ---- Coq printers

func coqBig(b *big.Int) string { return b.String() + "%N" }

func coqCur(c types.Currency) string { return c.Big().String() + "%N" }

// leNum is the little-endian number of a byte string: the model's identity of hashes, keys
// and specifiers.
func leNum(b []byte) *big.Int {
	r := make([]byte, len(b))
	for i := range b {
		r[len(b)-1-i] = b[i]
	}
	return new(big.Int).SetBytes(r)
}

func coqHash(h types.Hash256) string { return coqBig(leNum(h[:])) }

func coqHashes(hs []types.Hash256) string {
	items := make([]string, len(hs))
	for i := range hs {
		items[i] = coqHash(hs[i])
	}
	return coqList(items)
}

func coqBytes(b []byte) string {
	items := make([]string, len(b))
	for i := range b {
		items[i] = fmt.Sprint(b[i])
	}
	return "[" + strings.Join(items, ";") + "]%N"
}

// panicSite names the hostd function in which a recovered panic was raised (the first
// frame below the runtime that belongs to hostd and is not the harness; core's frame when
// there is none).
func panicSite() string {
	pcs := make([]uintptr, 64)
	n := runtime.Callers(3, pcs)
	frames := runtime.CallersFrames(pcs[:n])
	first := ""
	for {
		f, more := frames.Next()
		fn := f.Function
		if fn != "" && !strings.HasPrefix(fn, "runtime.") && !strings.Contains(fn, "verif") && !strings.Contains(fn, "Verif") && !strings.Contains(fn, "c14") && !strings.HasPrefix(fn, "testing.") {
			short := fn
			if i := strings.LastIndex(short, "/"); i >= 0 {
				short = short[i+1:]
			}
			if first == "" {
				first = short
			}
			if strings.Contains(fn, "go.sia.tech/hostd/") {
				return short
			}
		}
		if !more {
			break
		}
	}
	if first == "" {
		return "unknown"
	}
	return first
}

// c14Data is program data with len = cap over a shared buffer: explicit prefix and suffix,
// constant filler in between (the model's mkpd).
type c14Data struct {
	buf    []byte
	fill   byte
	prefix []byte
	suffix []byte
	n      int
}

func (d *c14Data) pd() programData { return programData(d.buf[:d.n:d.n]) }

func (d *c14Data) coq() string {
	return fmt.Sprintf("(mkpd %d %s %d %s)", d.n, coqBytes(d.prefix), d.fill, coqBytes(d.suffix))
}

// newC14Data lays out prefix/suffix in the shared buffer (which holds fill everywhere
// else); release restores the filler.
func newC14Data(buf []byte, fill byte, n int, prefix, suffix []byte) *c14Data {
	if len(prefix) > n {
		prefix = prefix[:n]
	}
	if len(suffix) > n {
		suffix = suffix[len(suffix)-n:]
	}
	d := &c14Data{buf: buf, fill: fill, n: n}
	// the suffix wins where both overlap only if the prefix does not cover the position
	// (mkpd tests the prefix first)
	copy(buf[n-len(suffix):n], suffix)
	copy(buf[:n], prefix)
	d.prefix = append([]byte(nil), prefix...)
	d.suffix = append([]byte(nil), suffix...)
	return d
}

func (d *c14Data) release() {
	for i := range d.prefix {
		d.buf[i] = d.fill
	}
	for i := d.n - len(d.suffix); i < d.n; i++ {
		d.buf[i] = d.fill
	}
}

// c14Operand draws a boundary-dense uint64 around the interesting lengths.
func c14Operand(rng *rand.Rand, n uint64) uint64 {
	const ss = rhp2.SectorSize
	switch rng.Intn(14) {
	case 0:
		return uint64(rng.Intn(2))
	case 1:
		return []uint64{7, 8, 9, 15, 16, 17, 31, 32, 33, 63, 64, 65}[rng.Intn(12)]
	case 2, 3:
		return n - 72 + uint64(rng.Intn(76)) // len-72 .. len+3 (wraps below zero for short data)
	case 4:
		return ss - 2 + uint64(rng.Intn(5))
	case 5:
		return n - ss - 2 + uint64(rng.Intn(5))
	case 6:
		return 1<<63 - 2 + uint64(rng.Intn(5))
	case 7, 8:
		return ^uint64(0) - uint64(rng.Intn(80))
	case 9:
		return ^uint64(0) - ss - 2 + uint64(rng.Intn(5))
	case 10:
		return uint64(rng.Intn(256))
	case 11:
		return uint64(rng.Intn(64)) * 64
	case 12:
		return ss*uint64(rng.Intn(4)) + uint64(rng.Intn(3))*64
	default:
		return rng.Uint64()
	}
}
