//go:build verif

package rhp_test

// C15 — the RHP3 stream handlers as users of the contract lock.  Real SessionHandler (Serve,
// handleHostStream, handleRPCFundAccount / processFundAccountPayment, handleRPCAccountBalance and
// handleRPCLatestRevision / processPayment / processContractPayment, handleRPCRenew,
// handleRPCExecute) on a real host node; real streams driven by a renter one message at a time, each
// with a fault that makes the handler leave through a chosen `return` (before the Lock, from the
// Lock, from each check after it, from a failing write, from the end), the renewal stopped while
// its handler holds the lock; together with direct callers of Manager.Lock / Unlock under
// controlled schedules.  The manager handed to the session handler is the real one behind
// contracts.VerifC15UManager; driver and view: host/contracts/verif_c15_users.go; renter side:
// internal/testutil/rhp/v3/verif_c15_stream.go.  Recorded for coq/Lock/Users.v (trace inclusion).

import (
	"context"
	"fmt"
	"math/rand"
	"net"
	"os"
	"strings"
	"sync"
	"testing"
	"time"

	crhp3 "go.sia.tech/core/rhp/v3"
	"go.sia.tech/core/types"
	"go.sia.tech/hostd/v2/host/contracts"
	"go.sia.tech/hostd/v2/internal/testutil"
	proto3 "go.sia.tech/hostd/v2/internal/testutil/rhp/v3"
	rhp2 "go.sia.tech/hostd/v2/rhp/v2"
	rhp3 "go.sia.tech/hostd/v2/rhp/v3"
	"go.uber.org/zap"
)

const c15v3Header = "From HostdBase Require Import Base.\nFrom HostdLock Require Import Model Users."

const (
	c15v3Fund = iota
	c15v3Balance
	c15v3Revision
	c15v3Renew
	c15v3Execute
	c15v3Kinds
)

var (
	c15v3FundFaults    = []int{proto3.VerifC15PayOK, proto3.VerifC15PayOldRevision, proto3.VerifC15PayMoreFunds, proto3.VerifC15PayBadOutputs, proto3.VerifC15PayBadSig, proto3.VerifC15PayTooBig, proto3.VerifC15PayHangUp, proto3.VerifC15PayBelowCost}
	c15v3PayFaults     = []int{proto3.VerifC15PayOK, proto3.VerifC15PayOldRevision, proto3.VerifC15PayMoreFunds, proto3.VerifC15PayBadOutputs, proto3.VerifC15PayBadSig, proto3.VerifC15PayHangUp}
	c15v3RevFaults     = []int{proto3.VerifC15PayOK, proto3.VerifC15PayBadSig, proto3.VerifC15PayHangUp}
	c15v3RenewFaults   = 4 // 0: pause, released by bad signatures; 1: pause, released by hanging up; 2: bad clearing revision; 3: bad final revision signature
	c15v3ExecuteFaults = proto3.VerifC15ExecFaults
)

type c15v3World struct {
	t         *testing.T
	node      *testutil.HostNode
	hostKey   types.PrivateKey
	renterKey types.PrivateKey
	stranger  types.PrivateKey
	sess      *proto3.Session // registers price tables, funds the program account
	hostAddr  string
	m         *contracts.VerifC15UManager
	hs        map[int]*proto3.Session // one connection per handler slot
	haddr     map[int]string
	ids       []types.FileContractID
	bad       []bool
	account   crhp3.Account // funded, pays for programs
	mu        sync.Mutex
	paused    map[int]*proto3.VerifC15Renewal
	hangUp    map[int]bool
	seq       uint64
}

// current revision of contract id as the host has it; for an unknown contract any revision with
// that id will do (the handler fails in Manager.Lock, before it looks at anything else)
func (w *c15v3World) current(id int) types.FileContractRevision {
	c, err := w.node.Contracts.Contract(w.ids[id])
	if err != nil {
		c, err = w.node.Contracts.Contract(w.ids[0])
		if err != nil {
			w.t.Fatal(err)
		}
		c.Revision.ParentID = w.ids[id]
	}
	return c.Revision
}

func (w *c15v3World) throwaway() crhp3.Account {
	w.mu.Lock()
	w.seq++
	n := w.seq
	w.mu.Unlock()
	seed := make([]byte, 32)
	seed[0], seed[1], seed[2], seed[3] = 0xc3, byte(n), byte(n>>8), byte(n>>16)
	return crhp3.Account(types.NewPrivateKeyFromSeed(seed).PublicKey())
}

// open gives handler slot t its own connection: every stream of it is served by a goroutine
// started by that connection's accept loop, which is how the tracker knows whose calls it sees.
func (w *c15v3World) open(t int) (string, error) {
	w.mu.Lock()
	defer w.mu.Unlock()
	if a, ok := w.haddr[t]; ok {
		w.hs[t].VerifC15UsePriceTable(w.sess.VerifC15PriceTable())
		return a, nil
	}
	conn, err := net.Dial("tcp", w.hostAddr)
	if err != nil {
		return "", err
	}
	s, err := proto3.VerifC15NewSession(conn, w.hostKey.PublicKey(), w.node.Chain, w.node.Wallet)
	if err != nil {
		conn.Close()
		return "", err
	}
	s.VerifC15UsePriceTable(w.sess.VerifC15PriceTable())
	w.hs[t], w.haddr[t] = s, conn.LocalAddr().String()
	return w.haddr[t], nil
}

// enter runs the RPC of handler slot t; held = true: the handler is known to hold the lock and to
// wait for the renter.  When the renter hangs up it cannot see the handler finish: then (and, to
// be on the safe side, always) the call returns once the host's goroutines of this connection are
// outside the manager and hold nothing by their own calls — a predicted event, long deadline.
func (w *c15v3World) enter(t, kind, id, fault int) bool {
	w.mu.Lock()
	sess, prefix := w.hs[t], "conn@"+w.haddr[t]
	w.mu.Unlock()
	before := w.m.T.LockCalls(prefix)
	t0 := time.Now()
	held, hungUp := w.enter1(sess, t, kind, id, fault)
	if os.Getenv("VERIF_C15_DEBUG") != "" {
		defer func() {
			fmt.Fprintf(os.Stderr, "c15dbg enter slot=%d kind=%d id=%d fault=%d held=%v hungUp=%v before=%d after=%d quiet=%v rpc=%v total=%v\n", t, kind, id, fault, held, hungUp, before, w.m.T.LockCalls(prefix), w.m.T.Quiet(prefix), time.Since(t0), time.Since(t0))
		}()
	}
	if held {
		return true
	}
	// a latest-revision request for an unknown contract is refused before any payment is read
	expectLock := hungUp && !(kind == c15v3Revision && id == 3)
	deadline := time.Now().Add(8 * time.Second)
	for time.Now().Before(deadline) {
		if w.m.T.QuietSince(prefix, before, expectLock) {
			break
		}
		time.Sleep(50 * time.Microsecond)
	}
	return false
}

func (w *c15v3World) enter1(sess *proto3.Session, t, kind, id, fault int) (held, hungUp bool) {
	cur := w.current(id)
	switch kind {
	case c15v3Fund:
		f := c15v3FundFaults[fault]
		amount := types.Siacoins(1).Div64(1000)
		if f == proto3.VerifC15PayTooBig {
			amount = types.Siacoins(50)
		}
		sess.VerifC15FundAccount(cur, w.renterKey, w.throwaway(), amount, f)
		hungUp = f == proto3.VerifC15PayHangUp
	case c15v3Balance:
		sess.VerifC15AccountBalance(cur, w.renterKey, w.throwaway(), types.ZeroCurrency, c15v3PayFaults[fault])
		hungUp = c15v3PayFaults[fault] == proto3.VerifC15PayHangUp
	case c15v3Revision:
		sess.VerifC15LatestRevision(cur, w.renterKey, w.throwaway(), c15v3RevFaults[fault])
		hungUp = c15v3RevFaults[fault] == proto3.VerifC15PayHangUp
	case c15v3Renew:
		rf := proto3.VerifC15RenewPause
		if fault == 2 {
			rf = proto3.VerifC15RenewBadClearing
		} else if fault == 3 {
			rf = proto3.VerifC15RenewBadFinalSig
		}
		r, paused, err := sess.VerifC15RenewBegin(cur, w.node.Wallet.Address(), w.renterKey, w.stranger, rf)
		if !paused && fault <= 1 && !w.bad[id] {
			w.t.Logf("renewal of contract %d did not reach the host's additions: %v", id, err)
		}
		if paused {
			w.mu.Lock()
			w.paused[t], w.hangUp[t] = r, fault == 1
			w.mu.Unlock()
			return true, false
		}
	case c15v3Execute:
		sess.VerifC15Execute(w.ids[id], proto3.AccountPayment(w.account, w.renterKey), fault)
		hungUp = fault == proto3.VerifC15ExecHangUp
	}
	return false, hungUp
}

func (w *c15v3World) release(t int) {
	w.mu.Lock()
	r, hang := w.paused[t], w.hangUp[t]
	delete(w.paused, t)
	w.mu.Unlock()
	if r != nil {
		r.Release(hang)
	}
	w.mu.Lock()
	prefix := "conn@" + w.haddr[t]
	w.mu.Unlock()
	deadline := time.Now().Add(8 * time.Second)
	for time.Now().Before(deadline) && !w.m.T.Quiet(prefix) {
		time.Sleep(50 * time.Microsecond)
	}
}

func TestVerifC15Handlers(t *testing.T) {
	em := newVerifEmitter(t, c15v3Header, "ucase", "ucheck")
	defer em.Close()

	log := zap.NewNop()
	w := &c15v3World{t: t, paused: map[int]*proto3.VerifC15Renewal{}, hangUp: map[int]bool{}, hs: map[int]*proto3.Session{}, haddr: map[int]string{}}
	w.hostKey = types.NewPrivateKeyFromSeed(make([]byte, 32))
	w.renterKey = types.NewPrivateKeyFromSeed(append(make([]byte, 31), 1))
	w.stranger = types.NewPrivateKeyFromSeed(append(make([]byte, 31), 2))
	network, genesis := testutil.V1Network()
	node := testutil.NewHostNode(t, w.hostKey, network, genesis, log)
	w.node = node
	testutil.MineAndSync(t, node, node.Wallet.Address(), int(network.MaturityDelay+24))

	l2, err := net.Listen("tcp", "localhost:0")
	if err != nil {
		t.Fatal(err)
	}
	l3, err := net.Listen("tcp", "localhost:0")
	if err != nil {
		t.Fatal(err)
	}
	s := node.Settings.Settings()
	s.AcceptingContracts = true
	s.MaxCollateral = types.Siacoins(100000)
	s.StoragePrice = types.NewCurrency64(1)
	s.ContractPrice = types.NewCurrency64(1)
	s.EgressPrice = types.NewCurrency64(1)
	s.IngressPrice = types.NewCurrency64(1)
	s.BaseRPCPrice = types.NewCurrency64(1)
	s.NetAddress = l3.Addr().String()
	if err := node.Settings.UpdateSettings(s); err != nil {
		t.Fatal(err)
	}
	// contracts are formed over RHP2 with the plain manager
	sh2 := rhp2.NewSessionHandler(l2, w.hostKey, node.Chain, node.Syncer, node.Wallet, node.Contracts, node.Settings, node.Volumes, log)
	go sh2.Serve()
	defer sh2.Close()

	m := contracts.NewVerifC15UManager(node.Contracts)
	w.m = m
	w.hostAddr = l3.Addr().String()
	sh3 := rhp3.NewSessionHandler(&contracts.VerifC15UListener{Listener: l3, T: m.T}, w.hostKey, node.Chain, node.Syncer, node.Wallet, node.Accounts, m, node.Registry, node.Volumes, node.Settings, log)
	go sh3.Serve()
	defer sh3.Close()

	// contracts 0, 1: formed with real funds; 2: exists, too close to its proof window; 3: unknown
	c0 := formContract(t, node.Chain, node.Wallet, sh2.LocalAddr(), w.renterKey, w.hostKey.PublicKey(), 190)
	c1 := formContract(t, node.Chain, node.Wallet, sh2.LocalAddr(), w.renterKey, w.hostKey.PublicKey(), 190)
	payC := formContract(t, node.Chain, node.Wallet, sh2.LocalAddr(), w.renterKey, w.hostKey.PublicKey(), 190) // pays for price tables and the program account; not part of the schedules
	uc := c0.Revision.UnlockConditions
	late := c0.Revision
	late.ParentID = types.FileContractID{0xc3, 2}
	late.UnlockConditions = uc
	late.WindowStart = node.Chain.Tip().Height + 2
	late.WindowEnd = late.WindowStart + 100
	late.RevisionNumber = 1
	if err := node.Contracts.AddContract(contracts.SignedRevision{Revision: late}, []types.Transaction{}, types.ZeroCurrency, contracts.Usage{}); err != nil {
		t.Fatal(err)
	}
	w.ids = []types.FileContractID{c0.ID(), c1.ID(), late.ParentID, {0xc3, 0xff}}
	w.bad = []bool{false, false, true, true}
	for i, id := range w.ids {
		_, err := node.Contracts.Lock(context.Background(), id)
		if (err != nil) != w.bad[i] {
			t.Fatalf("contract %d: Lock err=%v, harness expects refusal=%v", i, err, w.bad[i])
		}
		if err == nil {
			node.Contracts.Unlock(id)
		}
	}

	sess, err := proto3.NewSession(context.Background(), w.hostKey.PublicKey(), sh3.LocalAddr(), node.Chain, node.Wallet)
	if err != nil {
		t.Fatal(err)
	}
	defer sess.Close()
	w.sess = sess
	w.account = crhp3.Account(w.renterKey.PublicKey())
	payment := proto3.ContractPayment(&payC, w.renterKey, w.account)
	if _, err := sess.RegisterPriceTable(payment); err != nil {
		t.Fatal(err)
	} else if _, err := sess.FundAccount(w.account, payment, types.Siacoins(5)); err != nil {
		t.Fatal(err)
	}
	// the harness predicts which requests stop their handler in its body: check it once, alone
	if r, paused, err := sess.VerifC15RenewBegin(w.current(1), node.Wallet.Address(), w.renterKey, w.stranger, proto3.VerifC15RenewPause); !paused {
		t.Fatalf("harness: a valid renewal request does not reach the host's additions: %v", err)
	} else {
		if tbl := node.Contracts.VerifC15UTable(w.ids); tbl[1] != [2]int{1, 0} {
			t.Fatalf("harness: the renewal handler waits for the renter but the lock table says %v", tbl)
		}
		r.Release(false)
	}
	for i := 0; i < 5000; i++ {
		if tbl := node.Contracts.VerifC15UTable(w.ids); len(tbl) == 0 {
			break
		}
		time.Sleep(time.Millisecond)
	}
	if tbl := node.Contracts.VerifC15UTable(w.ids); len(tbl) != 0 {
		node.Contracts.VerifC15UResetLocks() // for the cases to find and report, with a schedule
	}
	m.T.Drain()

	// the faults against the host, alone: each must make the handler leave where the harness says
	// it does (recognised by the host's error), with the lock table empty afterwards
	if _, err := w.open(99); err != nil {
		t.Fatal(err)
	}
	selfCheck := func(kind, fault int, want string) {
		t.Helper()
		cur := w.current(0)
		acct := w.throwaway()
		before := m.T.LockCalls("conn@" + w.haddr[99])
		var err error
		switch kind {
		case c15v3Fund:
			amount := types.Siacoins(1).Div64(1000)
			if c15v3FundFaults[fault] == proto3.VerifC15PayTooBig {
				amount = types.Siacoins(50)
			}
			err = w.hs[99].VerifC15FundAccount(cur, w.renterKey, acct, amount, c15v3FundFaults[fault])
		case c15v3Balance:
			err = w.hs[99].VerifC15AccountBalance(cur, w.renterKey, acct, types.ZeroCurrency, c15v3PayFaults[fault])
		case c15v3Revision:
			err = w.hs[99].VerifC15LatestRevision(cur, w.renterKey, acct, c15v3RevFaults[fault])
		case c15v3Execute:
			err = w.hs[99].VerifC15Execute(w.ids[0], proto3.AccountPayment(w.account, w.renterKey), fault)
		case c15v3Renew:
			rf := proto3.VerifC15RenewBadClearing
			if fault == 3 {
				rf = proto3.VerifC15RenewBadFinalSig
			}
			_, _, err = w.hs[99].VerifC15RenewBegin(w.current(1), node.Wallet.Address(), w.renterKey, w.stranger, rf)
		}
		switch {
		case want == "" && err != nil:
			t.Fatalf("harness: kind %d fault %d: expected success, got %v", kind, fault, err)
		case want != "" && (err == nil || !strings.Contains(err.Error(), want)):
			t.Fatalf("harness: kind %d fault %d: expected an error with %q, got %v", kind, fault, want, err)
		}
		for i := 0; i < 5000 && !m.T.QuietSince("conn@"+w.haddr[99], before, true); i++ {
			time.Sleep(time.Millisecond)
		}
		// the handler has answered / the stream is closed: whatever it locked must be free again
		tbl := node.Contracts.VerifC15UTable(w.ids)
		for i := 0; i < 3000 && len(tbl) != 0; i++ {
			time.Sleep(time.Millisecond)
			tbl = node.Contracts.VerifC15UTable(w.ids)
		}
		if len(tbl) != 0 {
			em.Monitor("handler-return-kept-lock", fmt.Sprintf("handler kind %d, fault %d, alone on contract 0/1: it has returned, the lock table still has %v", kind, fault, tbl))
			node.Contracts.VerifC15UResetLocks()
			defer m.T.Reset()
		}
		for _, v := range m.T.Drain() {
			em.Monitor("unlock-of-unheld-lock", fmt.Sprintf("handler kind %d, fault %d, alone: %s", kind, fault, v.Detail))
		}
	}
	payWant := map[int]string{proto3.VerifC15PayOK: "", proto3.VerifC15PayOldRevision: "revision number must be greater", proto3.VerifC15PayMoreFunds: "more funds",
		proto3.VerifC15PayBadOutputs: "invalid payment revision", proto3.VerifC15PayBadSig: "invalid renter signature", proto3.VerifC15PayTooBig: "balance",
		proto3.VerifC15PayHangUp: "", proto3.VerifC15PayBelowCost: "less than the fund account cost"}
	for f, pf := range c15v3FundFaults {
		selfCheck(c15v3Fund, f, payWant[pf])
	}
	for f, pf := range c15v3PayFaults {
		selfCheck(c15v3Balance, f, payWant[pf])
	}
	for f, pf := range c15v3RevFaults {
		selfCheck(c15v3Revision, f, payWant[pf])
	}
	selfCheck(c15v3Execute, proto3.VerifC15ExecOK, "")
	selfCheck(c15v3Execute, proto3.VerifC15ExecFails, "failed to execute instruction")
	selfCheck(c15v3Renew, 2, "failed to validate clearing revision")
	selfCheck(c15v3Renew, 3, "failed to verify final revision signature")
	if tbl := node.Contracts.VerifC15UTable(w.ids); len(tbl) != 0 {
		node.Contracts.VerifC15UResetLocks()
	}
	m.T.Drain()

	ops := &contracts.VerifC15UOps{
		IDs:    w.ids,
		Bad:    func(id int) bool { return w.bad[id] },
		HKinds: c15v3Kinds,
		HFaults: func(kind int) int {
			switch kind {
			case c15v3Fund:
				return len(c15v3FundFaults)
			case c15v3Balance:
				return len(c15v3PayFaults)
			case c15v3Revision:
				return len(c15v3RevFaults)
			case c15v3Renew:
				return c15v3RenewFaults
			}
			return c15v3ExecuteFaults
		},
		HPauses:  func(kind, fault int) bool { return kind == c15v3Renew && fault <= 1 },
		HNeedsOK: func(kind int) bool { return false },
		// whether a renewal request stops its handler in the body is predicted when it is sent; a
		// payment admitted before it would make its clearing revision stale.  So generated
		// schedules renew contract 1 and pay from contract 0 only (directed ones order them).
		HAllowed: func(kind, id int) bool {
			if kind == c15v3Renew {
				return id != 0
			}
			if kind == c15v3Fund || kind == c15v3Balance || kind == c15v3Revision {
				return id != 1
			}
			return true
		},
		HOpen:    w.open,
		HEnter:   w.enter,
		HRelease: w.release,
		// a fresh price table now and then (paid from the contract that is not part of the schedules)
		BeforeCase: func(id int) {
			if os.Getenv("VERIF_C15_DEBUG") != "" {
				fmt.Fprintf(os.Stderr, "c15dbg case %d\n", id)
			}
			if id > 0 && id%100 == 0 {
				if _, err := sess.RegisterPriceTable(payment); err != nil {
					t.Fatal(err)
				}
				m.T.Drain()
			}
		},
	}

	F, H := contracts.VerifC15UFree, contracts.VerifC15UHandler
	// behind: caller 0 takes the contract, the handler (slot 1) and caller 2 queue up behind it,
	// caller 0 releases; a late caller (3) arrives; everything is released
	behind := func(kind, id, fault int) contracts.VerifC15UCase {
		return contracts.VerifC15UCase{Kinds: []int{F, H, F, F}, Run: func(d *contracts.VerifC15UDir) {
			d.FreeLock(0, id, false)
			d.HEnter(1, kind, id, fault)
			d.FreeLock(2, id, false)
			d.FreeUnlock(0)
			d.FreeLock(3, id, false)
			d.HRelease(1)
			d.FreeUnlock(2)
			d.HRelease(1)
			d.FreeUnlock(3)
			d.HRelease(1)
		}}
	}
	var directed []contracts.VerifC15UCase
	// every return of processFundAccountPayment / processContractPayment after the Lock, under contention
	for f := range c15v3FundFaults {
		directed = append(directed, behind(c15v3Fund, 0, f))
	}
	for f := range c15v3PayFaults {
		directed = append(directed, behind(c15v3Balance, 0, f))
	}
	for f := range c15v3RevFaults {
		directed = append(directed, behind(c15v3Revision, 0, f))
	}
	for f := 0; f < c15v3RenewFaults; f++ {
		directed = append(directed, behind(c15v3Renew, 1, f))
	}
	for f := 0; f < c15v3ExecuteFaults; f++ {
		directed = append(directed, behind(c15v3Execute, 0, f))
	}
	directed = append(directed,
		// the Lock itself fails (contract too close to its window / unknown) while a caller waits for the same id
		behind(c15v3Fund, 2, 0), behind(c15v3Balance, 3, 0), behind(c15v3Renew, 2, 0), behind(c15v3Execute, 3, 0),
		// a renewal holds the contract while its handler waits for the renter: two handlers and a
		// caller queue up; the renter hangs up
		contracts.VerifC15UCase{Kinds: []int{F, H, H, H}, Run: func(d *contracts.VerifC15UDir) {
			d.HEnter(1, c15v3Renew, 1, 1)
			d.HEnter(2, c15v3Fund, 1, 0)
			d.HEnter(3, c15v3Execute, 1, 1)
			d.FreeLock(0, 1, false)
			d.HRelease(1)
			d.FreeUnlock(0)
		}},
		// two renewals of the same contract: the second waits for the first
		contracts.VerifC15UCase{Kinds: []int{F, H, H}, Run: func(d *contracts.VerifC15UDir) {
			d.HEnter(1, c15v3Renew, 1, 0)
			d.HEnter(2, c15v3Renew, 1, 1)
			d.FreeLock(0, 1, false)
			d.HRelease(1)
			d.HRelease(2)
			d.FreeUnlock(0)
			d.HRelease(2)
		}},
		// handlers and a caller arrive at a free contract together
		contracts.VerifC15UCase{Kinds: []int{F, H, H}, Run: func(d *contracts.VerifC15UDir) {
			d.Par(true, d.ActHEnter(1, c15v3Fund, 0, 4), d.ActHEnter(2, c15v3Balance, 0, 0), d.ActFreeLock(0, 0))
			d.FreeUnlock(0)
		}},
		// a waiting caller is cancelled while the renewal's handler is released
		contracts.VerifC15UCase{Kinds: []int{F, H, F}, Run: func(d *contracts.VerifC15UDir) {
			d.HEnter(1, c15v3Renew, 1, 0)
			d.FreeLock(0, 1, false)
			d.FreeLock(2, 1, false)
			d.Par(true, d.ActHRelease(1), d.ActFreeCancel(0))
			d.FreeUnlock(0)
			d.FreeUnlock(2)
		}},
	)

	genKinds := func(rng *rand.Rand) []int {
		k := []int{F, H}
		for len(k) < 3+rng.Intn(2) {
			if rng.Intn(2) == 0 {
				k = append(k, H)
			} else {
				k = append(k, F)
			}
		}
		rng.Shuffle(len(k), func(i, j int) { k[i], k[j] = k[j], k[i] })
		return k
	}
	start := time.Now()
	wedged := contracts.VerifC15UDrive(t.Logf, em, m, ops, "rhp3-handlers", directed, verifN(150), genKinds, verifCaseRand)
	t.Logf("C15 rhp3 handlers: %v", time.Since(start))
	for _, hs := range w.hs {
		hs.Close()
	}
	if wedged {
		em.Close()
		fmt.Println("locker wedged")
		os.Exit(3)
	}
}
