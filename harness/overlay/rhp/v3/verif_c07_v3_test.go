//go:build verif

package rhp

import (
	"errors"
	"fmt"
	"math"
	"math/big"
	"math/rand"
	"testing"

	rhp2 "go.sia.tech/core/rhp/v2"
	rhp3 "go.sia.tech/core/rhp/v3"
	"go.sia.tech/core/types"
	"go.sia.tech/hostd/v2/host/accounts"
	"go.sia.tech/hostd/v2/host/contracts"
	"go.sia.tech/hostd/v2/internal/threadgroup"
	"go.sia.tech/hostd/v2/rhp"
	"go.uber.org/zap"
)

// TestVerifC07V3 reaches rhp.Revise + rhp.ValidatePaymentRevision the way a renter does: through
// the real pay-by-contract handler (SessionHandler.processContractPayment) over a loopback
// connection, with hostile revision numbers and proof values but an honest signature, and stubbed
// contract/account managers (stubs of verif_c12_v3_test.go).  Observable: the deposit handed to
// the account manager (accepted), an error, or a panic.
// Model: coq/Revision/Model.v `run (HPayByContract ..)`.

type c07Accounts struct {
	credits []accounts.FundAccountWithContract
}

func (a *c07Accounts) Balance(rhp3.Account) (types.Currency, error) {
	return types.ZeroCurrency, nil
}
func (a *c07Accounts) Credit(req accounts.FundAccountWithContract, refund bool) (types.Currency, error) {
	a.credits = append(a.credits, req)
	return req.Amount, nil
}
func (a *c07Accounts) Budget(rhp3.Account, types.Currency) (*accounts.Budget, error) {
	return nil, errors.New("not used")
}

type c07V3Settings struct{}

func (c07V3Settings) AcceptingContracts() bool                     { return true }
func (c07V3Settings) RHP2Settings() (rhp2.HostSettings, error)     { return rhp2.HostSettings{}, nil }
func (c07V3Settings) RHP3PriceTable() (rhp3.HostPriceTable, error) { return rhp3.HostPriceTable{}, nil }

type c07V3Case struct {
	ex     c12FC
	num    uint64
	vs, ms []types.Currency
}

func c07V3Honest(rng *rand.Rand) c07V3Case {
	R := c12Amount(rng)
	H := c12Amount(rng)
	Hm := c12Portion(rng, H)
	V := H.Sub(Hm)
	ex := c12FC{ws: 5000, we: 5144, uh: 1, num: uint64(1 + rng.Intn(1000)),
		valid:  []c12Out{{1, R}, {5, H}},
		missed: []c12Out{{1, R}, {5, Hm}, {0, V}}}
	p := c12Portion(rng, R)
	return c07V3Case{ex: ex, num: ex.num + 1 + uint64(rng.Intn(3)),
		vs: []types.Currency{R.Sub(p), c12Add(H, p)},
		ms: []types.Currency{R.Sub(p), c12Add(Hm, p), V}}
}

func TestVerifC07V3(t *testing.T) {
	em := newVerifEmitter(t, "From HostdBase Require Import Base.\nFrom HostdRevision Require Import Model.\nLocal Open Scope N_scope.", "case", "check")
	defer em.Close()

	perts := []string{"none", "none", "none", "num-equal", "num-lower", "num-max", "locked", "valid-count", "missed-count",
		"grid-valid", "grid-missed", "max-valid", "renter-up", "missed-host-1", "missed-host+1", "void+1", "valid-host+1", "renter-unequal",
		"ex-shape", "ex-missed-renter-low", "ex-missed-host-max"}
	n := verifN(600)
	for id := 0; id < 3+n; id++ {
		if em.Skip(id) {
			continue
		}
		rng := verifCaseRand(id)
		c := c07V3Honest(rng)
		p := "none"
		switch id {
		case 0:
			p = "max-valid" // witness: renter-chosen value near 2^128 (Currency.Add overflow in the unpatched code)
		case 1:
			p = "ex-missed-host-max" // witness: host missed payout + payment overflows (unpatched code)
		case 2:
			p = "none"
		default:
			p = perts[rng.Intn(len(perts))]
		}
		switch p {
		case "num-equal":
			c.num = c.ex.num
		case "num-lower":
			c.num = c.ex.num - 1
		case "num-max":
			c.num = math.MaxUint64
		case "locked":
			c.ex.num, c.num = math.MaxUint64, math.MaxUint64
		case "valid-count":
			k := rng.Intn(5)
			c.vs = nil
			for i := 0; i < k; i++ {
				c.vs = append(c.vs, c12Grid(rng))
			}
		case "missed-count":
			k := rng.Intn(5)
			c.ms = nil
			for i := 0; i < k; i++ {
				c.ms = append(c.ms, c12Grid(rng))
			}
		case "grid-valid":
			c.vs[rng.Intn(len(c.vs))] = c12Grid(rng)
		case "grid-missed":
			c.ms[rng.Intn(len(c.ms))] = c12Grid(rng)
		case "max-valid":
			// the renter's own payouts go down, the rest is as large as it gets: the missed sum overflows
			c.ms[1], c.ms[2] = c12Max, c12Max
		case "renter-up":
			c.vs = []types.Currency{c12Inc(c.ex.valid[0].val), c12Dec(c.ex.valid[1].val)}
		case "missed-host-1":
			if !c.ms[1].IsZero() {
				c.ms[1], c.ms[2] = c12Dec(c.ms[1]), c12Inc(c.ms[2])
			}
		case "missed-host+1":
			if !c.ms[2].IsZero() {
				c.ms[1], c.ms[2] = c12Inc(c.ms[1]), c12Dec(c.ms[2])
			}
		case "void+1":
			c.ms[2] = c12Inc(c.ms[2])
		case "valid-host+1":
			c.vs[1] = c12Inc(c.vs[1])
		case "renter-unequal":
			if !c.ms[0].IsZero() {
				c.ms[0], c.ms[2] = c12Dec(c.ms[0]), c12Inc(c.ms[2])
			}
		case "ex-shape":
			nv, nm := 1+rng.Intn(3), rng.Intn(5)
			c.ex.valid, c.ex.missed, c.vs, c.ms = nil, nil, nil, nil
			for i := 0; i < nv; i++ {
				c.ex.valid = append(c.ex.valid, c12Out{1 + i, c12C(uint64(rng.Intn(5000)))})
				c.vs = append(c.vs, c.ex.valid[i].val)
			}
			for i := 0; i < nm; i++ {
				c.ex.missed = append(c.ex.missed, c12Out{1 + i, c12C(uint64(rng.Intn(5000)))})
				c.ms = append(c.ms, c.ex.missed[i].val)
			}
		case "ex-missed-renter-low":
			// stored contract whose missed renter payout is below the valid one (sums still equal)
			if d := c12Portion(rng, c.ex.missed[0].val); true {
				c.ex.missed[0].val = c.ex.missed[0].val.Sub(d)
				c.ex.missed[2].val = c12Add(c.ex.missed[2].val, d)
			}
		case "ex-missed-host-max":
			// stored host missed payout 2^128-1: adding the payment to it overflows
			c.ex.missed[1].val = c12Max
			if c.vs[0] == c.ex.valid[0].val && !c.vs[0].IsZero() { // make sure something is paid
				c.vs[0], c.vs[1] = c12Dec(c.vs[0]), c12Inc(c.vs[1])
			}
			c.ms = []types.Currency{c.vs[0], c.vs[1], types.ZeroCurrency} // missed sum = valid sum
		}
		em.Count("perturbation:" + p)
		em.BeginCase(id, "pay-by-contract "+p)

		hostUK := c12HostKey.PublicKey().UnlockKey()
		exUC := c12UC(hostUK, c12RenterKey.PublicKey().UnlockKey())
		ids := newC12IDs(exUC.UnlockHash())
		existing := types.FileContractRevision{ParentID: types.FileContractID{1, 2, 3}, UnlockConditions: exUC}
		existing.FileContract = ids.build(c.ex)

		cm := &c12Contracts{existing: contracts.SignedRevision{Revision: existing}}
		am := &c07Accounts{}
		sh := &SessionHandler{privateKey: c12HostKey, chain: &c12Chain{height: 100, require: math.MaxUint64}, syncer: c12Syncer{},
			wallet: &c12Wallet{}, contracts: cm, accounts: am, settings: c07V3Settings{}, log: zap.NewNop(), tg: threadgroup.New(),
			priceTables: newPriceTableManager()}

		// host side: the payment handler alone, on the accepted stream
		hostConn, renterConn := c12ConnPair(t)
		done := make(chan struct{})
		go func() {
			defer close(done)
			defer renterConn.Close()
			rt, err := rhp3.NewRenterTransport(renterConn, c12HostKey.PublicKey())
			if err != nil {
				return
			}
			defer rt.Close()
			s := rt.DialStream()
			defer s.Close()
			req := &rhp3.PayByContractRequest{ContractID: existing.ParentID, RevisionNumber: c.num, ValidProofValues: c.vs, MissedProofValues: c.ms,
				RefundAccount: rhp3.Account(c12RenterKey.PublicKey())}
			if rev, err := rhp.Revise(existing, c.num, c.vs, c.ms); err == nil {
				req.Signature = c12RenterKey.SignHash(rhp.HashRevision(rev))
			}
			// a stream starts with an RPC id; the handler under test is entered after it
			if s.WriteRequest(rhp3.RPCFundAccountID, req) != nil {
				return
			}
			var resp rhp3.PaymentResponse
			s.ReadResponse(&resp, 4096)
		}()
		var pmsg string
		func() {
			defer hostConn.Close()
			ht, err := rhp3.NewHostTransport(hostConn, c12HostKey)
			if err != nil {
				t.Fatal(err)
			}
			defer ht.Close()
			stream, err := ht.AcceptStream()
			if err != nil {
				return
			}
			defer stream.Close()
			defer func() {
				if r := recover(); r != nil {
					pmsg = fmt.Sprint(r)
				}
			}()
			if _, err := stream.ReadID(); err != nil {
				return
			}
			sh.processContractPayment(stream, 100)
		}()
		<-done

		inp := fmt.Sprintf("(HPayByContract %s %d %s %s)", ids.fcTerm(existing.FileContract, 1), c.num, c12CursTerm(c.vs), c12CursTerm(c.ms))
		var out string
		switch {
		case pmsg != "":
			out = "Panic"
			em.Count("result:panic")
			em.Monitor("revision-rpc-handler-panics", "processContractPayment: "+pmsg)
		case len(am.credits) == 0:
			out = "(Err EInvalid)"
			em.Count("result:err")
		default:
			em.Count("result:ok")
			cr := am.credits[0]
			out = "(Ok (OCur " + cr.Amount.ExactString() + "))"
			rev := cr.Revision.Revision
			cur := existing
			if rev.RevisionNumber <= cur.RevisionNumber {
				em.Monitor("accepted-revision-number-not-increased", "processContractPayment")
			}
			if len(rev.ValidProofOutputs) != len(cur.ValidProofOutputs) || len(rev.MissedProofOutputs) != len(cur.MissedProofOutputs) ||
				len(rev.ValidProofOutputs) < 2 || len(rev.MissedProofOutputs) < 2 {
				em.Monitor("accepted-output-count-changed", "processContractPayment")
				break
			}
			amt := cr.Amount.Big()
			if rev.ValidProofOutputs[0].Value.Cmp(cur.ValidProofOutputs[0].Value) > 0 || rev.MissedProofOutputs[0].Value.Cmp(cur.MissedProofOutputs[0].Value) > 0 {
				em.Monitor("accepted-renter-payout-increased", "processContractPayment")
			}
			// the deposit is exactly what the host's valid payout gains, and no collateral is burned
			if new(big.Int).Add(cur.ValidProofOutputs[1].Value.Big(), amt).Cmp(rev.ValidProofOutputs[1].Value.Big()) != 0 {
				em.Monitor("accepted-host-valid-payout-below-price", "processContractPayment: deposit differs from the host's gain")
			}
			if rev.MissedProofOutputs[1].Value.Cmp(cur.MissedProofOutputs[1].Value) < 0 {
				em.Monitor("accepted-host-missed-payout-burn-above-collateral", "processContractPayment")
			}
		}
		em.FunCase(id, inp, out, out != "(Err EInvalid)" && out != "Panic")
	}
}
