//go:build verif

package rhp_test

// TestVerifC10Conc: the pairs of concurrent revising RPCs of verif_c07_conc_test.go, seen by C10.
// After the first and after the second RPC of every pair (in commit order) every contract and
// account of the case is read back: recorded for coq/Revenue (the RPC sequence in commit order is
// what the model replays) and checked by the conservation monitors
//
//   v1-payout-differs-from-locked-plus-usage:<rpc>-concurrent   valid host payout = locked collateral + sum of usage
//   v1-unspent-funding-differs-from-funding-rows:<rpc>-concurrent
//   payment-booked-twice / payment-not-booked                    usage delta of the pair = the money that moved
//   decision-outside-lock                                        (structural, see verif_c07_conc_test.go)

import (
	"fmt"
	"testing"
)

func (c *concCase) monitorsC10(p concPair, con int, before c10Snap, first, second *concReq, desc string) {
	after := c.snap(con)
	if after.vh.Cmp(before.vh) < 0 || after.sum.Cmp(before.sum) < 0 {
		c.monitor("host-payout-or-recorded-usage-decreased", fmt.Sprintf("payout %s -> %s, usage %s -> %s; %s", before.vh, after.vh, before.sum, after.sum, desc))
		return
	}
	dvh, dsum := after.vh.Sub(before.vh), after.sum.Sub(before.sum)
	switch dsum.Cmp(dvh) {
	case 1:
		c.monitor("payment-booked-twice", fmt.Sprintf("the pair moved %s to the host but %s was recorded as usage (%s then %s); %s", dvh, dsum, first.kind, second.kind, desc))
	case -1:
		c.monitor("payment-not-booked", fmt.Sprintf("the pair moved %s to the host but only %s was recorded as usage (%s then %s); %s", dvh, dsum, first.kind, second.kind, desc))
	}
}

func TestVerifC10Conc(t *testing.T) {
	em := newVerifEmitter(t, "From HostdBase Require Import Base.\nFrom HostdRevenue Require Import Model.\nOpen Scope N_scope.", "case", "check")
	defer em.Close()
	ch := newConcHost(t)
	n := verifN(6)
	for id := 0; id < n+concDirectedCases; id++ {
		if em.Skip(id) {
			continue
		}
		c := newConcCase(t, ch, em, "c10", id)
		c.runCase(id)
		em.EndCase(c.pairs >= 2)
	}
}
