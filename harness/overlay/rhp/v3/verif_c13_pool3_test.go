//go:build verif

package rhp_test

// C13 (WP-Y) — RHP3 renewals whose transaction set the host's pool refuses.
//
// Drives the real rhp/v3 handleRPCRenew (on the gated two-session host of verif_c03_handlers_test.go) with
// renewal requests in which every protocol-level field is fine — clearing revision, renewal contract,
// both revision signatures — but whose transaction set chain.Manager.AddPoolTransactions cannot accept:
//
//   wrong-signature      one renter signature of a funding input is corrupted
//   conflict-in-pool     the renter's funding inputs are spent by a transaction that is already in the pool
//   spent-input          ... by a transaction that is already in a block
//
// The renter is the repository's own test client (internal/testutil/rhp/v3 Session.RenewContract); the
// variants are produced by the wallet it funds and signs with.  After every refused renewal C13's last
// sentence is evaluated on the real node: the predecessor is exactly as it was (persisted list, served
// list, revision number, size, root, links), no successor row exists (contract count), Manager.Lock admits
// it, and it accepts a list edit (RHP2 write / RHP3 program with a second caller queued, as in
// TestVerifC03Handlers); at the end a valid RHP3 renewal still goes through and hands the list over.
//
//   malformed-or-failed-renewal-accepted   failed-renewal-changes-state   live-contract-refuses-lock
//   (and the monitors of TestVerifC03Handlers for the edits / the final renewal)
//
// Recorded for coq/Roots/Hand.v: the lock events as the gates saw them and the tail of the handler as
// [SRenewH t false (Renew1 ...)] -> Err EInvalid.

import (
	"context"
	"fmt"
	"strings"
	"testing"
	"time"

	"go.sia.tech/core/types"
	"go.sia.tech/coreutils/wallet"
	"go.sia.tech/hostd/v2/host/contracts"
	"go.sia.tech/hostd/v2/internal/testutil"
)

const (
	ypBadSig   = "wrong-signature"
	ypConflict = "conflict-in-pool"
	ypSpent    = "spent-input"
)

var ypVariants = []string{ypBadSig, ypConflict, ypSpent}

// ypWallet is the wallet of the renter's session: the node's wallet, bent in one way
type ypWallet struct {
	*wallet.SingleAddressWallet
	x       *yhCase
	variant string
	setup   error
}

func (w *ypWallet) FundTransaction(txn *types.Transaction, amount types.Currency, _ bool) ([]types.Hash256, error) {
	toSign, err := w.SingleAddressWallet.FundTransaction(txn, amount, false)
	if err != nil || w.variant == ypBadSig {
		return toSign, err
	}
	// the same inputs, spent by another transaction
	node := w.x.h.node
	var total types.Currency
	conflict := types.Transaction{SiacoinInputs: append([]types.SiacoinInput(nil), txn.SiacoinInputs...)}
	for _, in := range txn.SiacoinInputs {
		for _, el := range w.elements(in.ParentID) {
			total = total.Add(el)
		}
	}
	conflict.SiacoinOutputs = []types.SiacoinOutput{{Address: node.Wallet.Address(), Value: total}}
	w.SingleAddressWallet.SignTransaction(&conflict, toSign, types.CoveredFields{WholeTransaction: true})
	if _, err := node.Chain.AddPoolTransactions([]types.Transaction{conflict}); err != nil {
		w.setup = fmt.Errorf("the conflicting spend was refused: %w", err)
		return toSign, nil
	}
	if w.variant == ypSpent {
		testutil.MineAndSync(w.x.t, node, types.VoidAddress, 1)
	}
	return toSign, nil
}

// the value of the wallet's unspent output id
func (w *ypWallet) elements(id types.SiacoinOutputID) []types.Currency {
	utxos, err := w.SingleAddressWallet.UnspentSiacoinElements()
	if err != nil {
		return nil
	}
	for _, u := range utxos {
		if u.ID == id {
			return []types.Currency{u.SiacoinOutput.Value}
		}
	}
	return nil
}

func (w *ypWallet) SignTransaction(txn *types.Transaction, toSign []types.Hash256, cf types.CoveredFields) {
	before := len(txn.Signatures)
	w.SingleAddressWallet.SignTransaction(txn, toSign, cf)
	if w.variant == ypBadSig && len(txn.Signatures) > before {
		k := before + w.x.rng.Intn(len(txn.Signatures)-before)
		sig := append([]byte(nil), txn.Signatures[k].Signature...)
		sig[w.x.rng.Intn(len(sig))] ^= 0x20
		txn.Signatures[k].Signature = sig
	}
}

func (x *yhCase) contractCount() int {
	_, n, err := x.h.node.Contracts.Contracts(contracts.ContractFilter{})
	if err != nil {
		x.t.Fatal(err)
	}
	return n
}

// rejectedRenew3 sends one RHP3 renewal the pool cannot accept and evaluates C13's last sentence
func (x *yhCase) rejectedRenew3(variant string) bool {
	g := x.ch.g
	con := len(x.cons) - 1
	ct := x.cons[con]
	base := x.stored0(con)
	if base.RevisionNumber == types.MaxRevisionNumber || base.ValidRenterPayout().Cmp(types.Siacoins(3)) < 0 {
		return false
	}
	x.desc = "RHP3 renewal with " + variant
	before := x.view(ct.id)
	nBefore := x.contractCount()
	g.begin(ct.id)
	w := &ypWallet{SingleAddressWallet: x.h.node.Wallet, x: x, variant: variant}
	q := &concReq{kind: ckRenew3, tag: "A", con: con, acct: 0, bump: 1, from: base, sigBase: base, roots: before.cache, wallet3: w}
	x.prepare(q)
	x.run(q)
	x.waitUnlocked()
	evs := g.snapshot()
	g.end()
	x.desc = fmt.Sprintf("RHP3 renewal with %s: %v; %s", variant, q.err, concTrace(evs))
	n := x.cN(ct.id)
	if w.setup != nil {
		x.t.Fatalf("setup of %s: %v", variant, w.setup)
	}
	atPool := q.err != nil && strings.Contains(q.err.Error(), "broadcast renewal transaction")
	x.real.Count(fmt.Sprintf("renew3:%s:refused=%v:by-pool=%v", variant, q.err != nil, atPool))
	if q.err == nil {
		x.monitor("malformed-or-failed-renewal-accepted", fmt.Sprintf("the RHP3 renewal of contract %d with a transaction set the pool cannot accept (%s) was accepted", n, variant))
		x.afterRPC(q)
		return false
	}
	// the record: Lock, the tail of the handler, Unlock
	for _, e := range evs {
		if e.tag != "A" {
			continue
		}
		switch {
		case e.point == cpLockAcq && e.rev != nil:
			x.ev(fmt.Sprintf("SAcq1 1 %d", n), fmt.Sprintf("SOLock1 (Ok (%d, %d, %d))", e.rev.RevisionNumber, e.rev.Filesize, x.hN(e.rev.FileMerkleRoot)))
			if atPool {
				var fresh types.FileContractID
				x.rng.Read(fresh[:])
				x.ev(fmt.Sprintf("SRenewH 1 false (Renew1 %d %d %d 0 0 1 %d %d %d %d None)", n, x.cN(fresh), uint64(types.MaxRevisionNumber),
					base.Filesize, x.hN(base.FileMerkleRoot), base.WindowStart+c13WindowShift, x.hN(base.FileMerkleRoot)), "SO (ORes (Err EInvalid))")
			}
		case e.point == cpPersistIn && e.what == "renew":
			x.monitor("failed-renewal-changes-state", fmt.Sprintf("Manager.RenewContract was called for the renewal of contract %d although the pool cannot accept its set (%s)", n, variant))
		case e.point == cpUnlockReq:
			x.ev(fmt.Sprintf("SRel 1 %d", n), "SO (ORes (Ok tt))")
		}
	}
	// predecessor fully usable and unchanged, no successor row
	after := x.look(ct.id, x.ref[ct.id], "after the refused renewal")
	if !c13Eq(after.db, before.db) || !c13Eq(after.cache, before.cache) || after.c.Revision.RevisionNumber != before.c.Revision.RevisionNumber ||
		after.c.Revision.Filesize != before.c.Revision.Filesize || after.c.Revision.FileMerkleRoot != before.c.Revision.FileMerkleRoot ||
		after.c.RenewedTo != before.c.RenewedTo || after.c.RenewedFrom != before.c.RenewedFrom || after.c.Status != before.c.Status {
		x.monitor("failed-renewal-changes-state", fmt.Sprintf("contract %d changed: before {store %s, manager %s, revision %d, size %d, renewed to %s, status %v} after {store %s, manager %s, revision %d, size %d, renewed to %s, status %v}",
			n, x.roots(before.db), x.roots(before.cache), before.c.Revision.RevisionNumber, before.c.Revision.Filesize, x.opt(before.c.RenewedTo), before.c.Status,
			x.roots(after.db), x.roots(after.cache), after.c.Revision.RevisionNumber, after.c.Revision.Filesize, x.opt(after.c.RenewedTo), after.c.Status))
	}
	if m := x.contractCount(); m != nBefore {
		x.monitor("failed-renewal-changes-state", fmt.Sprintf("the host stores %d contracts instead of %d after the refused renewal of contract %d", m, nBefore, n))
	}
	ctx, cancel := context.WithTimeout(context.Background(), 10*time.Second)
	if _, err := x.h.node.Contracts.Lock(ctx, ct.id); err != nil {
		x.monitor("live-contract-refuses-lock", fmt.Sprintf("contract %d after the refused renewal: %v", n, err))
	} else {
		x.h.node.Contracts.Unlock(ct.id)
	}
	cancel()
	return true
}

func (x *yhCase) runPoolCase(id int) {
	x.out.BeginCase(id, "scratch")
	x.setup()
	five := types.Siacoins(5)
	x.forceFund = &five
	x.fund3(0, 0, 0)
	x.fund3(0, 1, 0)
	x.forceFund = nil
	x.end2()
	x.prefix()
	ap := func(k int) yhAct { return yhAct{kind: "append", pool: k} }
	variants := ypVariants
	if id > 0 {
		variants = nil
		for k := 1 + x.rng.Intn(3); k > 0; k-- {
			variants = append(variants, ypVariants[x.rng.Intn(len(ypVariants))])
		}
		// a list worth handing over
		x.pair(x.genPair(false))
	} else {
		x.pair(yhPair{a: yhA(2, ysNone, ap(1), ap(2)), point: cpPersistIn, b: ckRoots2})
	}
	for k, v := range variants {
		if !x.rejectedRenew3(v) {
			break
		}
		// ... and accepts a write afterwards
		var p yhPair
		if id == 0 {
			p = yhPair{a: yhA(2+k%2, ysNone, ap(k), yhAct{kind: "swap", a: 0, b: 1}), point: cpLockAcq, b: ckRoots2}
		} else {
			p = x.genPair(false)
			p.a.seam = ysNone
			if p.b.renews() {
				p.b = ckRoots2
			}
		}
		if !x.pair(p) {
			break
		}
	}
	// the valid renewal still works: the queued caller renews after one more edit
	x.pair(yhPair{a: yhA(3, ysNone, yhAct{kind: "appendroot", pool: 3}), point: cpPersistIn, b: ckRenew3})
	x.restart()
	x.end2()
	x.out.EndCase(false)
}

func TestVerifC13PoolRejected(t *testing.T) {
	em := newVerifEmitter(t, yhHeader, "hcase", "hcheck")
	defer em.Close()
	yh := newYHHost(t)
	n := verifN(3)
	for id := 0; id < n+1; id++ {
		if em.Skip(id) {
			continue
		}
		x := newYHCase(t, yh, em, id)
		em.BeginCase(id, "RHP3 renewals with a transaction set the pool refuses, each followed by a list edit of the untouched predecessor; then a valid renewal")
		x.runPoolCase(id)
		em.EndCase(x.edits > 0)
	}
}
