//go:build verif

package rhp_test

// WP-Q7 — the renter never holds a host signature for a revision the host has not stored (C07).
//
// The per-decision theorems and c07_life_safe speak about the STORED revision.  What binds the host
// on chain is every revision that carries its signature and that the renter got hold of.  This
// harness uses the host of verif_c07_conc_test.go (gated store / account manager / contract manager
// under real RHP2 and RHP3 session handlers) and runs every revising RPC kind on its own, three
// times in a row on one contract:
//
//   park   the RPC is parked at "counter-signed, not persisted" (inside the persisting call, before
//          the store is touched).  The harness waits — long deadline — for the predicted event "A is
//          parked", then looks for a short quiet period for the extra event "the renter side has
//          received the host's signature".  It must not come.
//   fault  the persisting call returns an injected error (disk I/O error) without touching the
//          store.  The RPC must fail on the renter side without a host signature; the stored
//          revision stays.
//   cheap  the renter reconnects and sends the cheapest acceptable revision with the same number on
//          the stored base (the fault run over-paid).  The host signs it.
//
// After every run the host-signed revisions the renter holds (each signature verified with the
// host key against the exact revision) are compared with the chain of revisions the host had stored:
//
//   host-signature-sent-before-revision-persisted:<rpc>
//   renter-holds-signature-for-unstored-revision
//   two-host-signatures-for-one-revision-number
//
// RHP3 renewal: the protocol makes the host send its signature for the clearing revision together
// with its transaction additions, before the renter's signatures arrive and long before
// RenewContract stores anything.  The repository's own client verifies that signature and then asks
// the wallet to sign: the wallet handed to the client notes the event (and, in the walk-away run,
// hangs up).  Reported under sigs of its own (recorded findings, see known_findings.d/C07.json):
//
//   host-signature-sent-before-revision-persisted:renew3
//   renter-holds-clearing-signature-while-contract-is-revised-on:renew3
//
// Every run is also recorded as a schedule of coq/Lifetime/Signed.v (SLock / SRead / SDecide /
// SReply / SPersist / SFault / SUnlock with the reply where it was observed) and replayed through
// [srun code_order]: the model must accept the schedule and end with the same stored revision and
// the same held revision numbers.

import (
	"fmt"
	"math"
	"strings"
	"testing"
	"time"

	crhp2 "go.sia.tech/core/rhp/v2"
	crhp3 "go.sia.tech/core/rhp/v3"
	"go.sia.tech/core/types"
	"go.sia.tech/coreutils/wallet"
	"go.sia.tech/hostd/v2/internal/testutil"
	"go.sia.tech/hostd/v2/rhp"
)

const sgQuiet = 300 * time.Millisecond // looking for the signature that must NOT have arrived

type sgMode int

const (
	sgPark sgMode = iota
	sgFault
	sgCheap
	sgWalk // renew3: the renter hangs up once it has the host's clearing signature
)

func (m sgMode) String() string { return [...]string{"park", "fault", "cheap", "walk-away"}[m] }

type sgWalkAway struct{}

// sgWallet is the renter's wallet in an RHP3 renewal.  The repository's client
// (internal/testutil/rhp/v3 Session.RenewContract) calls SignTransaction right after it has read the
// host's additions and verified FinalRevisionSignature with the host key.
type sgWallet struct {
	*wallet.SingleAddressWallet
	onVerified func(txn *types.Transaction) (walk bool)
	onFunded   func(txn *types.Transaction) (walk bool) // the renewal transaction is built and funded, nothing sent yet
}

func (w *sgWallet) FundTransaction(txn *types.Transaction, amount types.Currency, unconfirmed bool) ([]types.Hash256, error) {
	toSign, err := w.SingleAddressWallet.FundTransaction(txn, amount, unconfirmed)
	if err == nil && w.onFunded != nil && len(txn.FileContractRevisions) == 1 && len(txn.FileContracts) == 1 && w.onFunded(txn) {
		w.SingleAddressWallet.ReleaseInputs([]types.Transaction{*txn}, nil)
		panic(sgWalkAway{})
	}
	return toSign, err
}

func (w *sgWallet) SignTransaction(txn *types.Transaction, toSign []types.Hash256, cf types.CoveredFields) {
	if w.onVerified != nil && len(txn.FileContractRevisions) == 1 && len(txn.FileContracts) == 1 {
		if w.onVerified(txn) {
			w.SingleAddressWallet.ReleaseInputs([]types.Transaction{*txn}, nil)
			panic(sgWalkAway{})
		}
	}
	w.SingleAddressWallet.SignTransaction(txn, toSign, cf)
}

type sgHeld struct {
	rev types.FileContractRevision
	rpc string
}

// sgTrack: what the renter holds and what the host had stored, for one contract
type sgTrack struct {
	c0       types.FileContractRevision
	chain    []types.FileContractRevision // revisions the host had stored, in order
	held     []sgHeld                     // host-signed revisions the renter holds, in order
	clearing []sgHeld                     // renew3: host-signed clearing revisions of unfinished renewals
	labels   []string                     // the schedule for coq/Lifetime/Signed.v
	sess     int
	ids      *concIDs
	cut      bool // a renewal ran: nothing more is recorded for the model
	// the recorded part: stored revision and held numbers when the recording stopped
	recFinal types.FileContractRevision
	recHeld  []uint64
}

type sgOut struct {
	q           *concReq
	mode        sgMode
	base, after types.FileContractRevision
	evs         []concEvent
	parked      bool
	early       bool                         // the renter had the host's signature while the RPC was parked before persisting
	clearing    *types.FileContractRevision // renew3: the clearing revision whose host signature the client verified
	clearingAt  string                       // "parked-before-persist" | "walked-away" | ""
}

func sgHas(evs []concEvent, tag, point string) bool {
	for _, e := range evs {
		if e.tag == tag && e.point == point {
			return true
		}
	}
	return false
}

// solo runs one RPC of kind on contract con, alone, in the given mode
func (c *concCase) solo(con int, kind concKind, mode sgMode, extraTenths, pool int) sgOut {
	g := c.ch.g
	ct := c.cons[con]
	base := c.stored(con)
	roots := c.h.node.Contracts.SectorRoots(ct.id)
	g.begin(ct.id)
	defer g.end()
	out := sgOut{mode: mode, base: concCopyRev(base)}
	q := &concReq{kind: kind, tag: "A", con: con, acct: 0, bump: 1, extra: types.Siacoins(1).Div64(10).Mul64(uint64(extraTenths)), poolIdx: pool,
		from: base, sigBase: base, roots: roots}
	out.q = q
	if kind == ckRenew3 {
		q.wallet3 = &sgWallet{SingleAddressWallet: c.h.node.Wallet, onVerified: func(txn *types.Transaction) bool {
			cl := concCopyRev(txn.FileContractRevisions[0])
			out.clearing = &cl
			g.note("A", "host-sig-clearing")
			return mode == sgWalk
		}}
	}
	c.prepare(q)
	c.out.Count(fmt.Sprintf("solo:%s:%s", kind, mode))
	done := make(chan struct{})
	finished := func() bool {
		select {
		case <-done:
			return true
		default:
			return false
		}
	}
	switch mode {
	case sgPark:
		g.arm("A", cpPersistIn)
	case sgFault:
		g.armFault("A")
	}
	go func() {
		c.run(q)
		close(done)
		g.note("A", "client-done")
	}()
	if mode == sgPark {
		// the predicted event: A is parked inside the persisting call -- or the RPC is over: its renter
		// side has returned AND its handler has let go of the contract (a renter that already has its
		// signature returns before the handler reaches the store)
		if !g.wait(concLong, func() bool { return g.isParked("A", cpPersistIn) || (finished() && !g.holds("A")) }) {
			c.t.Fatalf("solo %s park: neither parked nor finished: %s", kind, concTrace(g.snapshot()))
		}
		g.mu.Lock()
		out.parked = g.isParked("A", cpPersistIn)
		g.mu.Unlock()
		if out.parked {
			// the extra event that must not come: the renter side has the host's signature
			g.wait(sgQuiet, func() bool { return g.has("A", "host-sig") })
			g.mu.Lock()
			out.early = g.has("A", "host-sig")
			if g.has("A", "host-sig-clearing") {
				out.clearingAt = "parked-before-persist"
			}
			g.mu.Unlock()
			g.release("A", cpPersistIn)
		} else {
			c.out.Count(fmt.Sprintf("solo:%s:never-parked", kind))
		}
	}
	if !g.wait(concLong, finished) {
		c.t.Fatalf("solo %s %s: did not finish: %s", kind, mode, concTrace(g.snapshot()))
	}
	g.disarm("A", cpPersistIn)
	c.waitUnlocked()
	out.evs = g.snapshot()
	if mode == sgWalk && out.clearing != nil {
		out.clearingAt = "walked-away"
	}
	c.afterRPC(q)
	if c.mine {
		c.mine = false
		testutil.MineAndSync(c.t, c.h.node, types.VoidAddress, 1)
	}
	out.after = concCopyRev(c.stored(con))
	if q.err == nil {
		c.out.Count(fmt.Sprintf("solo:%s:%s:ok", kind, mode))
	} else {
		c.out.Count(fmt.Sprintf("solo:%s:%s:err", kind, mode))
	}
	return out
}

func sgRevStr(r types.FileContractRevision) string {
	return fmt.Sprintf("#%d valid %s missed %s size %d", r.RevisionNumber, concVals(r.ValidProofOutputs), concVals(r.MissedProofOutputs), r.Filesize)
}

// account books one run: what the renter now holds, what the host has stored, the schedule for the
// model, and the monitors
func (c *concCase) sgAccount(tk *sgTrack, o sgOut) {
	q := o.q
	kind := q.kind.String()
	desc := fmt.Sprintf("%s %s on stored %s: renter side %v; %s", kind, o.mode, sgRevStr(o.base), q.err, concTrace(o.evs))
	hostPK := c.h.hostKey.PublicKey()
	signed, persisted, faulted := false, false, false
	for _, e := range o.evs {
		if e.tag != "A" {
			continue
		}
		switch e.point {
		case cpPersistIn:
			signed = true
		case cpPersistOut:
			persisted = true
		case "persist-fault":
			faulted = true
		}
	}
	sigValid := q.hasSig && hostPK.VerifyHash(c10Hash(q.sigRev), q.gotSig)
	if q.hasSig && !sigValid {
		c.out.Count("solo:signature-does-not-verify:" + kind)
	}
	if o.early {
		c.monitor("host-signature-sent-before-revision-persisted:"+kind,
			fmt.Sprintf("the renter had the host's signature for revision %d while the handler was parked in front of the store; %s", q.prop.rn, desc))
	}
	if o.clearingAt == "parked-before-persist" {
		c.monitor("host-signature-sent-before-revision-persisted:"+kind,
			fmt.Sprintf("the renter's client had verified the host's signature for the clearing revision %s while the handler was parked in front of RenewContract; %s", sgRevStr(*o.clearing), desc))
	}
	if sigValid {
		tk.held = append(tk.held, sgHeld{rev: q.sigRev, rpc: kind + "/" + o.mode.String()})
	}
	if o.clearing != nil && !persisted {
		tk.clearing = append(tk.clearing, sgHeld{rev: *o.clearing, rpc: kind + "/" + o.mode.String()})
	}
	if c10Hash(o.after) != c10Hash(tk.chain[len(tk.chain)-1]) {
		tk.chain = append(tk.chain, o.after)
	}
	if o.mode == sgFault && faulted && c10Hash(o.after) != c10Hash(o.base) {
		c.monitor("stored-revision-changed-although-persisting-failed", desc)
	}
	c.sgHeldMonitors(tk, desc)

	// the schedule for the model
	if q.kind.renews() {
		tk.cut = true
	}
	if tk.cut {
		return
	}
	tk.recFinal = o.after
	if sigValid {
		tk.recHeld = append(tk.recHeld, q.sigRev.RevisionNumber)
	}
	if q.lifeKind == "" || q.skipped != "" || !sgHas(o.evs, "A", cpLockAcq) {
		return
	}
	i := tk.sess
	tk.sess++
	tk.labels = append(tk.labels, fmt.Sprintf("SLock %d; SRead %d", i, i))
	if signed {
		rv, err := rhp.Revise(o.base, q.prop.rn, q.prop.valid(), q.propMissedFor(o.base))
		if err != nil {
			tk.cut = true // cannot happen: the host accepted it
			return
		}
		var term string
		switch q.lifeKind {
		case "rev":
			term = fmt.Sprintf("QRevision %s %s %s", tk.ids.term(rv), q.price.ExactString(), q.maxburn.ExactString())
		case "prog":
			term = fmt.Sprintf("QProgram %s %s %s", tk.ids.term(rv), q.icost.Storage.ExactString(), q.icost.Collateral.ExactString())
		case "pay":
			amount, underflow := o.base.ValidRenterPayout().SubWithUnderflow(rv.ValidRenterPayout())
			if underflow {
				amount = types.ZeroCurrency
			}
			term = fmt.Sprintf("QPayment %s %s", tk.ids.term(rv), amount.ExactString())
		}
		tk.labels = append(tk.labels, fmt.Sprintf("SDecide %d (%s)", i, term))
		replyEarly := sigValid && (o.early || !persisted)
		if replyEarly {
			tk.labels = append(tk.labels, fmt.Sprintf("SReply %d", i))
		}
		if persisted {
			tk.labels = append(tk.labels, fmt.Sprintf("SPersist %d", i))
			if sigValid && !replyEarly {
				tk.labels = append(tk.labels, fmt.Sprintf("SReply %d", i))
			}
		} else {
			tk.labels = append(tk.labels, fmt.Sprintf("SFault %d", i))
		}
	}
	tk.labels = append(tk.labels, fmt.Sprintf("SUnlock %d", i))
}

// sgHeldMonitors: every host-signed revision the renter holds is one the host had stored; no two
// different ones carry the same number
func (c *concCase) sgHeldMonitors(tk *sgTrack, desc string) {
	inChain := func(r types.FileContractRevision) bool {
		h := c10Hash(r)
		for _, s := range tk.chain {
			if c10Hash(s) == h {
				return true
			}
		}
		return false
	}
	stored := tk.chain[len(tk.chain)-1]
	for _, h := range tk.held {
		if !inChain(h.rev) {
			c.monitor("renter-holds-signature-for-unstored-revision",
				fmt.Sprintf("the renter holds the host's signature (from %s) for %s, which the host never stored; the host has %s; last run: %s", h.rpc, sgRevStr(h.rev), sgRevStr(stored), desc))
		}
	}
	for a := 0; a < len(tk.held); a++ {
		for b := a + 1; b < len(tk.held); b++ {
			x, y := tk.held[a], tk.held[b]
			if x.rev.RevisionNumber == y.rev.RevisionNumber && c10Hash(x.rev) != c10Hash(y.rev) {
				c.monitor("two-host-signatures-for-one-revision-number",
					fmt.Sprintf("the renter holds two host signatures for revision number %d: %s (from %s) and %s (from %s); the host has %s; last run: %s",
						x.rev.RevisionNumber, sgRevStr(x.rev), x.rpc, sgRevStr(y.rev), y.rpc, sgRevStr(stored), desc))
			}
		}
	}
	// RHP3 renewal: a host-signed clearing revision (number 2^64-1) built on a revision the host has
	// since revised; it pays the renter more than what the host has stored and, having the highest
	// number, replaces whatever the host submits
	for _, h := range tk.clearing {
		if stored.RevisionNumber != math.MaxUint64 && h.rev.ValidRenterPayout().Cmp(stored.ValidRenterPayout()) > 0 {
			c.monitor("renter-holds-clearing-signature-while-contract-is-revised-on:renew3",
				fmt.Sprintf("the renter holds the host's signature (from %s) for the clearing revision %s of a renewal that was never completed or stored; the host went on revising the contract and now has %s: the clearing revision pays the renter %s more and carries the maximum number; last run: %s",
					h.rpc, sgRevStr(h.rev), sgRevStr(stored), h.rev.ValidRenterPayout().Sub(stored.ValidRenterPayout()), desc))
		}
	}
}

// sgRenterConfirmsClearing plays the RHP3 renewal finding to its end on contract con (directed,
// case 0): the renter lets the repository's client build the renewal transaction, sends the request
// itself, reads the host's additions, keeps FinalRevisionSignature and hangs up; it goes on paying
// with the contract; then it funds the renewal contract alone, attaches its own and the host's
// signature for (renewal contract, clearing revision) and has the pair mined.  The host never stored
// the clearing revision; the revision it has stored is refused by the transaction pool from then on.
func (c *concCase) sgRenterConfirmsClearing(con int) {
	h := c.h
	ct := c.cons[con]
	base := concCopyRev(c.stored(con))
	// 1. the renewal transaction as the repository's client builds it (nothing is sent)
	var built *types.Transaction
	q := &concReq{kind: ckRenew3, tag: "A", con: con, acct: 0, bump: 1, from: base, sigBase: base}
	q.wallet3 = &sgWallet{SingleAddressWallet: h.node.Wallet, onFunded: func(txn *types.Transaction) bool {
		cp := types.Transaction{MinerFees: append([]types.Currency(nil), txn.MinerFees...),
			FileContracts:         append([]types.FileContract(nil), txn.FileContracts...),
			FileContractRevisions: []types.FileContractRevision{concCopyRev(txn.FileContractRevisions[0])}}
		built = &cp
		return true
	}}
	c.prepare(q)
	c.run(q)
	c.waitUnlocked()
	if built == nil {
		c.out.Count("confirm-clearing:renewal-not-built")
		return
	}
	renewal, clearing := built.FileContracts[0], built.FileContractRevisions[0]
	hsh := types.NewHasher()
	renewal.EncodeTo(hsh.E)
	clearing.EncodeTo(hsh.E)
	sigHash := hsh.Sum() // = consensus PartialSigHash with CoveredFields{FileContracts: [0], FileContractRevisions: [0]}
	// 2. the request, funded by the renter for its own share as usual; the host's additions
	reqTxn := *built
	toSign, err := h.node.Wallet.FundTransaction(&reqTxn, crhp2.ContractRenewalCost(h.node.Chain.TipState(), renewal, c.pts["A"].ContractPrice, reqTxn.MinerFees[0], types.ZeroCurrency), true)
	if err != nil {
		c.out.Count("confirm-clearing:fund-failed")
		return
	}
	_ = toSign
	tr, err := c.dialTag3("A")
	if err != nil {
		c.t.Fatal(err)
	}
	s := tr.DialStream()
	s.SetDeadline(time.Now().Add(30 * time.Second))
	var zero crhp3.SettingsID
	var ptResp crhp3.RPCUpdatePriceTableResponse
	var add crhp3.RPCRenewContractHostAdditions
	err = s.WriteRequest(crhp3.RPCRenewContractID, &zero)
	if err == nil {
		err = s.ReadResponse(&ptResp, 1<<16)
	}
	if err == nil {
		err = s.WriteResponse(&crhp3.RPCRenewContractRequest{TransactionSet: []types.Transaction{reqTxn}, RenterKey: ct.key.PublicKey().UnlockKey(), FinalRevisionSignature: ct.key.SignHash(sigHash)})
	}
	if err == nil {
		err = s.ReadResponse(&add, 4096)
	}
	s.Close() // the renter hangs up
	tr.Close()
	h.node.Wallet.ReleaseInputs([]types.Transaction{reqTxn}, nil)
	c.waitUnlocked()
	if err != nil || !h.hostKey.PublicKey().VerifyHash(sigHash, add.FinalRevisionSignature) {
		c.out.Count(fmt.Sprintf("confirm-clearing:no-host-signature:%v", err != nil))
		return
	}
	if c10Hash(c.stored(con)) != c10Hash(base) {
		c.out.Count("confirm-clearing:host-stored-something")
		return
	}
	// 3. the renter goes on paying with the contract
	tk := c.sgNewTrack(con)
	tk.cut = true
	c.sgAccount(tk, c.solo(con, ckFund3, sgCheap, 5, 0))
	stored, err := h.node.Contracts.Contract(ct.id)
	if err != nil {
		c.t.Fatal(err)
	}
	// 4. the renter funds the renewal contract alone and has (renewal, clearing) mined
	txn := *built
	total := renewal.Payout
	for _, f := range txn.MinerFees {
		total = total.Add(f)
	}
	toSign, err = h.node.Wallet.FundTransaction(&txn, total, true)
	if err != nil {
		c.out.Count("confirm-clearing:fund-failed")
		return
	}
	cf := types.CoveredFields{FileContracts: []uint64{0}, FileContractRevisions: []uint64{0}}
	renterSig := ct.key.SignHash(sigHash)
	txn.Signatures = []types.TransactionSignature{
		{ParentID: types.Hash256(ct.id), PublicKeyIndex: 0, CoveredFields: cf, Signature: renterSig[:]},
		{ParentID: types.Hash256(ct.id), PublicKeyIndex: 1, CoveredFields: cf, Signature: add.FinalRevisionSignature[:]},
	}
	h.node.Wallet.SignTransaction(&txn, toSign, types.CoveredFields{WholeTransaction: true})
	if _, err := h.node.Chain.AddPoolTransactions(append(h.node.Chain.UnconfirmedParents(txn), txn)); err != nil {
		h.node.Wallet.ReleaseInputs([]types.Transaction{txn}, nil)
		c.out.Count("confirm-clearing:pool-refused")
		c.out.Count("confirm-clearing:pool-refused:" + err.Error())
		return
	}
	testutil.MineAndSync(c.t, h.node, types.VoidAddress, 1)
	tip := h.node.Chain.Tip()
	blk, _ := h.node.Chain.Block(tip.ID)
	mined := false
	for _, bt := range blk.Transactions {
		for _, fcr := range bt.FileContractRevisions {
			if fcr.ParentID == ct.id && fcr.RevisionNumber == math.MaxUint64 {
				mined = true
			}
		}
	}
	if !mined {
		c.out.Count("confirm-clearing:not-mined")
		return
	}
	// 5. what the host has: its stored revision can no longer be confirmed
	hostRev := types.Transaction{FileContractRevisions: []types.FileContractRevision{stored.Revision}, Signatures: stored.SignedRevision.Signatures()[:]}
	_, perr := h.node.Chain.AddPoolTransactions([]types.Transaction{hostRev})
	after := c.stored(con)
	c.out.Count("confirm-clearing:mined")
	c.monitor("renter-confirmed-clearing-revision-the-host-never-stored:renew3",
		fmt.Sprintf("block %d contains the renter-funded renewal of contract %v with the clearing revision %s, signed by the host in RPCRenew on stored revision %s before the renter hung up; the host never stored it, went on to counter-sign and store %s (renter payout %s lower) and still holds that as its latest revision (%s); submitting the host's revision now: %v",
			tip.Height, ct.id, sgRevStr(clearing), sgRevStr(base), sgRevStr(stored.Revision), clearing.ValidRenterPayout().Sub(stored.Revision.ValidRenterPayout()), sgRevStr(after), perr))
}

func (c *concCase) sgNewTrack(con int) *sgTrack {
	r := concCopyRev(c.stored(con))
	return &sgTrack{c0: r, recFinal: r, chain: []types.FileContractRevision{r}, ids: &concIDs{addrs: map[types.Address]int{}, hashes: map[types.Hash256]int{}}}
}

// sgFinish records the schedule of the contract as one run of the model
func (c *concCase) sgFinish(tk *sgTrack, recIn, recOut *[]string) {
	if len(tk.labels) == 0 {
		return
	}
	final := tk.recFinal
	var nums []string
	for _, n := range tk.recHeld {
		nums = append(nums, fmt.Sprintf("%d", n))
	}
	*recIn = append(*recIn, fmt.Sprintf("(%s,\n     [%s])", tk.ids.term(tk.c0), strings.Join(tk.labels, ";\n      ")))
	*recOut = append(*recOut, fmt.Sprintf("Some (%d, %s, %s, [%s])", final.RevisionNumber, concVals(final.ValidProofOutputs), concVals(final.MissedProofOutputs), strings.Join(nums, "; ")))
}

var sgKinds = []concKind{ckWrite2, ckRead2, ckRoots2, ckPT3, ckBal3, ckRev3, ckFund3, ckExec3P, ckExec3C}

// triple: park, fault, cheap for one kind
func (c *concCase) sgTriple(tk *sgTrack, con int, kind concKind) {
	r := c.rng
	c.sgAccount(tk, c.solo(con, kind, sgPark, 1+r.Intn(3), r.Intn(4)))
	c.sgAccount(tk, c.solo(con, kind, sgFault, 4+r.Intn(3), r.Intn(4)))
	c.sgAccount(tk, c.solo(con, kind, sgCheap, 0, r.Intn(4)))
}

func (c *concCase) sgCase(id int, recIn, recOut *[]string) {
	c.setup()
	// contract 1: every revising kind, then the RHP3 renewal
	kinds := append([]concKind(nil), sgKinds...)
	if id > 0 {
		c.rng.Shuffle(len(kinds), func(a, b int) { kinds[a], kinds[b] = kinds[b], kinds[a] })
	}
	con := len(c.cons) - 1
	tk := c.sgNewTrack(con)
	for _, k := range kinds {
		c.sgTriple(tk, con, k)
	}
	// the renter asks for a renewal, takes the host's signature for the clearing revision and
	// hangs up; then it goes on paying with the contract
	c.sgAccount(tk, c.solo(con, ckRenew3, sgWalk, 0, 0))
	c.sgAccount(tk, c.solo(con, ckFund3, sgCheap, 3, 0))
	c.sgAccount(tk, c.solo(con, ckRenew3, sgPark, 0, 0))
	c.sgFinish(tk, recIn, recOut)
	if len(c.cons)-1 == con {
		return // the renewal did not go through
	}
	// contract 2 (the renewed one): a few kinds, then the RHP2 renewal
	con = len(c.cons) - 1
	tk = c.sgNewTrack(con)
	few := []concKind{ckWrite2, ckFund3, ckExec3C}
	if id > 0 {
		few = []concKind{sgKinds[c.rng.Intn(len(sgKinds))], sgKinds[c.rng.Intn(len(sgKinds))], sgKinds[c.rng.Intn(len(sgKinds))]}
	}
	for _, k := range few {
		c.sgTriple(tk, con, k)
	}
	c.sgAccount(tk, c.solo(con, ckRenew2, sgPark, 1, 0))
	c.sgFinish(tk, recIn, recOut)
	if len(c.cons)-1 == con {
		return
	}
	// contract 3: a renewal whose RenewContract fails (last: the renewal transaction is in the pool)
	con = len(c.cons) - 1
	tk = c.sgNewTrack(con)
	c.sgAccount(tk, c.solo(con, ckRenew2, sgFault, 1, 0))
	c.sgAccount(tk, c.solo(con, ckFund3, sgCheap, 0, 0))
	c.sgFinish(tk, recIn, recOut)
	if id == 0 {
		// directed: the RHP3 renewal finding played to its end on a fresh contract
		c.form2(types.Siacoins(30), types.Siacoins(5), 0)
		c.sgRenterConfirmsClearing(len(c.cons) - 1)
	}
}

func TestVerifC07Signed(t *testing.T) {
	em := newVerifEmitter(t, "From HostdBase Require Import Base.\nFrom HostdRevision Require Import Model.\nFrom HostdLifetime Require Import Life Conc Signed.\nLocal Open Scope N_scope.", "scase", "scheck")
	defer em.Close()
	ch := newConcHost(t)
	n := verifN(1)
	for id := 0; id < n; id++ {
		if em.Skip(id) {
			continue
		}
		c := newConcCase(t, ch, em, "c07", id)
		c.out.BeginCase(id, "every revising rpc alone: parked before persisting / persisting fails / cheapest revision on the stored base")
		var recIn, recOut []string
		c.sgCase(id, &recIn, &recOut)
		c.end2()
		em.FunCase(id, "["+strings.Join(recIn, ";\n    ")+"]", "["+strings.Join(recOut, ";\n    ")+"]", len(recIn) >= 1)
	}
}
