//go:build verif

package rhp

import (
	"bytes"
	"context"
	"database/sql"
	"encoding/binary"
	"encoding/hex"
	"fmt"
	"math/rand"
	"net"
	"path/filepath"
	"strings"
	"errors"
	"sync"
	"sync/atomic"
	"testing"
	"time"

	rhp3 "go.sia.tech/core/rhp/v3"
	"go.sia.tech/core/types"
	"go.sia.tech/hostd/v2/host/registry"
	"go.sia.tech/hostd/v2/host/settings"
	"go.sia.tech/hostd/v2/index"
	"go.sia.tech/hostd/v2/internal/testutil"
	"go.sia.tech/hostd/v2/persist/sqlite"
	"go.sia.tech/hostd/v2/rhp"
	"go.uber.org/zap"
	"lukechampine.com/frand"
)

// c20Reg is the RegistryManager handed to the session handler: it forwards to the real
// registry.Manager of the current case (a fresh sqlite store per case, so that every case
// starts from the model's init).
type c20Reg struct {
	mu  sync.Mutex
	cur *registry.Manager
}

func (r *c20Reg) get() *registry.Manager { r.mu.Lock(); defer r.mu.Unlock(); return r.cur }
func (r *c20Reg) set(m *registry.Manager) { r.mu.Lock(); r.cur = m; r.mu.Unlock() }
func (r *c20Reg) Get(key rhp3.RegistryKey) (rhp3.RegistryValue, error) {
	return r.get().Get(key)
}
func (r *c20Reg) Entries() (uint64, uint64, error) { return r.get().Entries() }
func (r *c20Reg) Put(value rhp3.RegistryEntry, expirationHeight uint64) (rhp3.RegistryValue, error) {
	return r.get().Put(value, expirationHeight)
}

// c20FaultStore is the registry.Store of a case: the real sqlite store, with a one-shot failure of
// GetRegistryValue (an error that is not ErrEntryNotFound, as the store returns when it gives up on a
// busy database) and a note of access-recorder flushes the harness did not ask for.
type c20FaultStore struct {
	*sqlite.Store
	failGet      atomic.Bool
	expectFlush  atomic.Bool
	timerFlushes atomic.Int32
}

var errC20Injected = errors.New("transaction failed (attempt 10): database is locked (injected)")

func (f *c20FaultStore) GetRegistryValue(key rhp3.RegistryKey) (rhp3.RegistryValue, error) {
	if f.failGet.CompareAndSwap(true, false) {
		return rhp3.RegistryValue{}, errC20Injected
	}
	return f.Store.GetRegistryValue(key)
}

func (f *c20FaultStore) IncrementRegistryAccess(read, write uint64) error {
	if !f.expectFlush.Load() {
		f.timerFlushes.Add(1)
	}
	return f.Store.IncrementRegistryAccess(read, write)
}

// newC20Host is newC14Host with the registry of the session handler replaced by reg.
func newC20Host(t *testing.T, reg RegistryManager) *c14Host {
	t.Helper()
	log := zap.NewNop()
	hostKey := types.NewPrivateKeyFromSeed(make([]byte, 32))
	renterKey := types.NewPrivateKeyFromSeed([]byte(strings.Repeat("r", 32)))
	acctKey := types.NewPrivateKeyFromSeed([]byte(strings.Repeat("a", 32)))
	network, genesis := testutil.V1Network()
	node := testutil.NewHostNode(t, hostKey, network, genesis, log)
	s := node.Settings.Settings()
	s.AcceptingContracts = true
	s.MaxAccountBalance = types.Siacoins(1000000)
	if err := node.Settings.UpdateSettings(s); err != nil {
		t.Fatal(err)
	}
	res := make(chan error, 1)
	if _, err := node.Volumes.AddVolume(context.Background(), filepath.Join(t.TempDir(), "storage.dat"), 64, res); err != nil {
		t.Fatal(err)
	} else if err := <-res; err != nil {
		t.Fatal(err)
	}
	l, err := net.Listen("tcp", "127.0.0.1:0")
	if err != nil {
		t.Fatal(err)
	}
	t.Cleanup(func() { l.Close() })
	sh := NewSessionHandler(l, hostKey, node.Chain, node.Syncer, node.Wallet, node.Accounts, node.Contracts, reg, node.Volumes, node.Settings, log)
	t.Cleanup(func() { sh.Close() })
	h := &c14Host{t: t, node: node, sh: sh, hostKey: hostKey, renterKey: renterKey, acctKey: acctKey,
		account: rhp3.Account(acctKey.PublicKey()), addr: l.Addr().String()}
	h.contract = c14Contract(t, node, hostKey, renterKey, 1)
	h.fund(types.Siacoins(1000))
	return h
}

// c20Instr is one instruction of a generated program with the model's view of it.
type c20Instr struct {
	in    rhp3.Instruction
	kind  string // update | read | fail | skip | updateF | readF (the manager's lookup fails)
	k     int
	entry rhp3.RegistryEntry // update: the entry the operands decode to
	ver   uint8              // read: effective version
	label string
}

// c20Resp is what the renter read for one instruction.
type c20Resp struct {
	err error
	out []byte
}

type c20World struct {
	t       *testing.T
	h       *c14Host
	reg     *c20Reg
	conn    *c14Conn
	hostID  types.Hash256
	renters []types.PrivateKey
	tweaks  []types.Hash256
}

func (w *c20World) keyOf(k int) rhp3.RegistryKey {
	return rhp3.RegistryKey{PublicKey: w.renters[k/2].PublicKey(), Tweak: w.tweaks[k%2]}
}

// c20Data lays the operands of the instructions out in the program data.
type c20Data struct{ buf []byte }

func (d *c20Data) put(b []byte) uint64 {
	off := uint64(len(d.buf))
	d.buf = append(d.buf, b...)
	return off
}

func (w *c20World) updateInstr(d *c20Data, e rhp3.RegistryEntry, noType bool) rhp3.Instruction {
	uk := e.PublicKey.UnlockKey()
	var rev [8]byte
	binary.LittleEndian.PutUint64(rev[:], e.Revision)
	in := rhp3.InstrUpdateRegistry{EntryType: e.Type}
	in.TweakOffset = d.put(e.Tweak[:])
	in.RevisionOffset = d.put(rev[:])
	in.SignatureOffset = d.put(e.Signature[:])
	in.PublicKeyOffset = d.put(append(append([]byte{}, uk.Algorithm[:]...), uk.Key...))
	in.PublicKeyLength = uint64(16 + len(uk.Key))
	in.DataOffset = d.put(e.Data)
	in.DataLength = uint64(len(e.Data))
	if noType {
		return &rhp3.InstrUpdateRegistryNoType{InstrUpdateRegistry: in}
	}
	return &in
}

func (w *c20World) readInstr(d *c20Data, key rhp3.RegistryKey, ver uint8, noVersion bool) rhp3.Instruction {
	uk := key.PublicKey.UnlockKey()
	in := rhp3.InstrReadRegistry{Version: ver}
	in.PublicKeyOffset = d.put(append(append([]byte{}, uk.Algorithm[:]...), uk.Key...))
	in.PublicKeyLength = uint64(16 + len(uk.Key))
	in.TweakOffset = d.put(key.Tweak[:])
	if noVersion {
		return &rhp3.InstrReadRegistryNoVersion{InstrReadRegistry: in}
	}
	return &in
}

// genEntry draws an entry for key k: valid, stale, equal revision with other data (more or less
// work), wrongly signed, oversized, too short, unknown type.
func (w *c20World) genEntry(rng *rand.Rand, k int, noType bool, stored *rhp3.RegistryValue) (e rhp3.RegistryEntry, what string) {
	e = rhp3.RegistryEntry{RegistryKey: w.keyOf(k)}
	e.Revision = uint64(rng.Intn(4))
	if stored != nil {
		// around the stored revision: lower, equal (the work decides), higher
		e.Revision = stored.Revision + uint64(rng.Intn(4))
		if e.Revision > 0 && rng.Intn(4) == 0 {
			e.Revision = stored.Revision - 1
		}
		if stored.Revision == ^uint64(0) {
			e.Revision = stored.Revision
		}
	} else if rng.Intn(16) == 0 {
		e.Revision = []uint64{1<<63 - 1, 1 << 63, ^uint64(0) - 1, ^uint64(0)}[rng.Intn(4)]
	}
	kind := rng.Intn(12)
	if noType && kind >= 5 && kind < 8 {
		kind = 0 // the pre-1.5.7 encoding has no type byte: arbitrary
	}
	switch {
	case kind < 5:
		e.Type, e.Data, what = rhp3.EntryTypeArbitrary, []byte{byte(rng.Intn(3))}, "arbitrary"
	case kind < 7:
		e.Type, what = rhp3.EntryTypePubKey, "primary"
		e.Data = append(append([]byte{}, w.hostID[:20]...), byte(rng.Intn(2)))
	case kind < 8:
		e.Type, what = rhp3.EntryTypePubKey, "secondary"
		e.Data = append(bytes.Repeat([]byte{9}, 20), byte(rng.Intn(2)))
	case kind < 9:
		e.Type, e.Data, what = rhp3.EntryTypeArbitrary, bytes.Repeat([]byte{7}, rhp3.MaxValueDataSize+1+rng.Intn(3)), "oversized"
	case kind < 10:
		e.Type, e.Data, what = rhp3.EntryTypeArbitrary, bytes.Repeat([]byte{byte(rng.Intn(2))}, rhp3.MaxValueDataSize), "max-size"
	case kind < 11 && !noType:
		e.Type, e.Data, what = rhp3.EntryTypePubKey, []byte{1, 2, 3}, "too-short"
	case !noType:
		e.Type, e.Data, what = uint8(3+rng.Intn(3)), []byte{1}, "unknown-type"
	default:
		e.Type, e.Data, what = rhp3.EntryTypeArbitrary, []byte{5}, "arbitrary"
	}
	e.Signature = w.renters[k/2].SignHash(e.Hash())
	if rng.Intn(8) == 0 {
		e.Signature[3] ^= 0xff
		what += "+forged"
	}
	return
}

// c20Program is a generated request.
type c20Program struct {
	pt       rhp3.HostPriceTable
	amount   types.Currency
	instrs   []c20Instr
	data     []byte
	finalize bool // a finalisation-requiring instruction is present
	badFinal bool // the renter signs the final revision wrongly
}

func c20Cost(pt rhp3.HostPriceTable) (initc, icost types.Currency) {
	initc, _ = pt.BaseCost().Total()
	c := pt.ReadRegistryCost()
	return initc, c.Base.Add(c.Storage).Add(c.Ingress).Add(c.Egress)
}

func (w *c20World) genPT(rng *rand.Rand, hbh uint64) rhp3.HostPriceTable {
	// only the fields that price the init cost and the registry instructions are non-zero:
	// the other instructions used here (HasSector, DropSectors of 0 sectors) are free
	pt := rhp3.HostPriceTable{
		InitBaseCost:    types.NewCurrency64(uint64(rng.Intn(4))),
		WriteBaseCost:   types.NewCurrency64(uint64(rng.Intn(4))),
		WriteLengthCost: types.NewCurrency64(uint64(rng.Intn(2))),
	}
	if rng.Intn(3) == 0 {
		pt.WriteStoreCost = types.NewCurrency64(1)
	}
	pt.HostBlockHeight = hbh
	return pt
}

// run sends the program through the real handleRPCExecute and returns what the renter read.
func (w *c20World) run(p *c20Program) (started bool, resps []c20Resp, done bool, pan any, site string) {
	h := w.h
	pt := h.registerPT(p.pt)
	cid := h.contract.Revision.ParentID
	cur, err := h.node.Contracts.Contract(cid)
	if err != nil {
		w.t.Fatal(err)
	}
	var prog []rhp3.Instruction
	for _, in := range p.instrs {
		prog = append(prog, in.in)
	}
	pan, site = w.conn.rpc(func(s *rhp3.Stream) {
		if err := s.WriteRequest(rhp3.RPCExecuteProgramID, &pt.UID); err != nil {
			return
		}
		pay := rhp3.PayByEphemeralAccountRequest{Account: h.account, Expiry: pt.HostBlockHeight + 5, Amount: p.amount}
		frand.Read(pay.Nonce[:])
		pay.Signature = h.acctKey.SignHash(pay.SigHash())
		if err := s.WriteResponse(&rhp3.PaymentTypeEphemeralAccount); err != nil {
			return
		} else if err := s.WriteResponse(&pay); err != nil {
			return
		}
		req := rhp3.RPCExecuteProgramRequest{Program: prog, ProgramData: p.data}
		if p.finalize {
			req.FileContractID = cid
		}
		if err := s.WriteResponse(&req); err != nil {
			return
		}
		var cancel types.Specifier
		if err := s.ReadResponse(&cancel, 4096); err != nil {
			return // init cost not covered (or payment refused)
		}
		started = true
		var last rhp3.RPCExecuteProgramResponse
		for range p.instrs {
			var resp rhp3.RPCExecuteProgramResponse
			if err := s.ReadResponse(&resp, 1<<20); err != nil {
				w.t.Fatalf("reading instruction response: %v", err)
			}
			resps = append(resps, c20Resp{err: resp.Error, out: resp.Output})
			if resp.Error != nil {
				return
			}
			last = resp
		}
		if !p.finalize {
			done = true
			return
		}
		rev := cur.Revision
		rev.RevisionNumber++
		rev.Filesize = last.NewSize
		rev.FileMerkleRoot = last.NewMerkleRoot
		rev.ValidProofOutputs = append([]types.SiacoinOutput(nil), cur.Revision.ValidProofOutputs...)
		rev.MissedProofOutputs = append([]types.SiacoinOutput(nil), cur.Revision.MissedProofOutputs...)
		transfer := last.AdditionalCollateral.Add(last.FailureRefund)
		rev.MissedProofOutputs[1].Value = rev.MissedProofOutputs[1].Value.Sub(transfer)
		rev.MissedProofOutputs[2].Value = rev.MissedProofOutputs[2].Value.Add(transfer)
		fin := rhp3.RPCFinalizeProgramRequest{RevisionNumber: rev.RevisionNumber, Signature: h.renterKey.SignHash(rhp.HashRevision(rev))}
		for _, o := range rev.ValidProofOutputs {
			fin.ValidProofValues = append(fin.ValidProofValues, o.Value)
		}
		for _, o := range rev.MissedProofOutputs {
			fin.MissedProofValues = append(fin.MissedProofValues, o.Value)
		}
		if p.badFinal {
			fin.Signature[7] ^= 0x11
		}
		if err := s.WriteResponse(&fin); err != nil {
			return
		}
		var fresp rhp3.RPCFinalizeProgramResponse
		done = s.ReadResponse(&fresp, 4096) == nil
	})
	if after, err := h.node.Contracts.Contract(cid); err == nil {
		h.contract = after.SignedRevision
	}
	return
}

// c20Probe finds out which of the two models this tree corresponds to: does the output that an
// instruction returned together with its error reach the renter (fixes/C20-rhp3-refused-update-
// returns-stored-entry.patch) or not (HEAD 8fe98f6).
func (w *c20World) probe() (fwd bool) {
	dbPath := filepath.Join(w.t.TempDir(), "probe.db")
	db, err := sqlite.OpenDatabase(dbPath, zap.NewNop())
	if err != nil {
		w.t.Fatal(err)
	}
	defer db.Close()
	if err := db.UpdateSettings(settings.Settings{MaxRegistryEntries: 1}); err != nil {
		w.t.Fatal(err)
	}
	m := registry.NewManager(w.h.hostKey, db, zap.NewNop())
	defer m.Close()
	w.reg.set(m)
	e := rhp3.RegistryEntry{RegistryKey: w.keyOf(0), RegistryValue: rhp3.RegistryValue{Revision: 1, Type: rhp3.EntryTypeArbitrary, Data: []byte{1}}}
	e.Signature = w.renters[0].SignHash(e.Hash())
	for i := 0; i < 2; i++ {
		d := &c20Data{}
		in := w.updateInstr(d, e, false)
		p := &c20Program{pt: rhp3.HostPriceTable{HostBlockHeight: 10}, amount: types.NewCurrency64(10), data: d.buf,
			instrs: []c20Instr{{in: in, kind: "update", entry: e}}}
		started, resps, _, pan, _ := w.run(p)
		if pan != nil || !started || len(resps) != 1 {
			w.t.Fatalf("probe program %d: started=%v responses=%d panic=%v", i, started, len(resps), pan)
		}
		if i == 0 && resps[0].err != nil {
			w.t.Fatalf("probe: first update refused: %v", resps[0].err)
		}
		if i == 1 {
			if resps[0].err == nil {
				w.t.Fatal("probe: repeated update accepted")
			}
			fwd = len(resps[0].out) > 0
		}
	}
	return fwd
}

// TestVerifC20RHP3 drives generated registry programs through the real handleRPCExecute of a
// real host whose registry manager works on a real sqlite store, and records them for
// Registry/Prog.v.
func TestVerifC20RHP3(t *testing.T) {
	reg := &c20Reg{}
	h := newC20Host(t, reg)
	w := &c20World{t: t, h: h, reg: reg, conn: h.connect(),
		hostID: rhp3.RegistryHostID(h.hostKey.PublicKey()),
		renters: []types.PrivateKey{
			types.NewPrivateKeyFromSeed(bytes.Repeat([]byte{1}, 32)),
			types.NewPrivateKeyFromSeed(bytes.Repeat([]byte{2}, 32)),
		},
		tweaks: []types.Hash256{{1}, {2}},
	}
	fwd := w.probe()
	checkFn := "pcheck_head"
	if fwd {
		checkFn = "pcheck"
	}
	em := newVerifEmitter(t, "From HostdBase Require Import Base.\nFrom HostdRegistry Require Import Model Prog.", "pcase", checkFn)
	defer em.Close()
	em.Count(fmt.Sprintf("tree:failing-instruction-output-forwarded=%v", fwd))

	const directed = 7
	n := verifN(120)
	for id := 0; id < n+directed; id++ {
		if em.Skip(id) {
			continue
		}
		rng := verifCaseRand(id)
		if h.balance().Cmp(types.Siacoins(100)) < 0 {
			h.fund(types.Siacoins(1000))
		}
		log := zap.NewNop()
		dbPath := filepath.Join(t.TempDir(), fmt.Sprintf("c20r_%d.db", id))
		db, err := sqlite.OpenDatabase(dbPath, log)
		if err != nil {
			t.Fatal(err)
		}
		raw, err := sql.Open("sqlite3", "file:"+dbPath+"?_busy_timeout=5000&_journal_mode=WAL")
		if err != nil {
			t.Fatal(err)
		}
		fs := &c20FaultStore{Store: db}
		mgr := registry.NewManager(h.hostKey, fs, log) // replaced by flush()
		reg.set(mgr)
		flushed := false
		var accR, accW, perR, perW int64 // reference: pending and persisted access counts

		vids := map[string]uint64{}
		vidNum := func(data []byte, sig types.Signature) uint64 {
			k := hex.EncodeToString(data) + "/" + hex.EncodeToString(sig[:])
			if _, ok := vids[k]; !ok {
				vids[k] = uint64(len(vids) + 1)
			}
			return vids[k]
		}
		entryTerm := func(v rhp3.RegistryValue) string {
			return fmt.Sprintf("{| rev := %d; ety := %d; vid := %d |}", v.Revision, v.Type, vidNum(v.Data, v.Signature))
		}
		optEntry := func(v rhp3.RegistryValue, ok bool) string {
			if !ok {
				return "None"
			}
			return "(Some " + entryTerm(v) + ")"
		}

		type shadowed struct {
			v   rhp3.RegistryValue
			exp uint64
		}
		shadow := map[int]shadowed{} // reference: last update seen accepted, per key
		lowered := false
		curLimit := uint64(0)
		em.BeginCase(id, "registry programs through handleRPCExecute")

		setLimit := func(l uint64) {
			cnt, _, _ := mgr.Entries()
			if l < cnt {
				lowered = true
			}
			if err := db.UpdateSettings(settings.Settings{MaxRegistryEntries: l}); err != nil {
				t.Fatal(err)
			}
			curLimit = l
			em.Step(fmt.Sprintf("Base (SetLimit %d)", l), "PBase ODone")
			em.Count(fmt.Sprintf("limit:%d", l))
		}
		info := func() {
			cnt, lim, err := mgr.Entries()
			if err != nil {
				t.Fatal(err)
			}
			m, err := db.Metrics(time.Now().Add(time.Hour))
			if err != nil {
				t.Fatal(err)
			}
			em.Step("Base Info", fmt.Sprintf("PBase (OInfo %d %d %d)", cnt, lim, m.Registry.Entries))
			if lim != curLimit {
				em.Monitor("limit-not-applied", fmt.Sprintf("limit %d, set %d", lim, curLimit))
			}
			if cnt > lim {
				if lowered {
					em.Monitor("count-exceeds-limit-after-limit-lowered", fmt.Sprintf("count %d > limit %d", cnt, lim))
				} else {
					em.Monitor("count-exceeds-limit", fmt.Sprintf("count %d > limit %d", cnt, lim))
				}
			}
			if cnt != m.Registry.Entries {
				if flushed {
					em.Monitor("metric-differs-from-count-after-flush", fmt.Sprintf("count %d, registry-entries metric %d after the access recorder was flushed", cnt, m.Registry.Entries))
				} else {
					em.Monitor("count-differs-from-metric", fmt.Sprintf("count %d metric %d", cnt, m.Registry.Entries))
				}
			}
			if int(cnt) != len(shadow) {
				em.Monitor("count-differs-from-accepted-keys", fmt.Sprintf("count %d accepted keys %d", cnt, len(shadow)))
			}
		}
		// direct read through the manager and the stored expiration height, after a program
		look := func(k int) {
			v, err := mgr.Get(w.keyOf(k))
			if err == nil {
				accR++
			}
			em.Step(fmt.Sprintf("Base (Get %d)", k), "PBase (OGet "+optEntry(v, err == nil)+")")
			sh, ok := shadow[k]
			if ok != (err == nil) || (ok && (v.Revision != sh.v.Revision || v.Type != sh.v.Type || !bytes.Equal(v.Data, sh.v.Data) || v.Signature != sh.v.Signature)) {
				em.Monitor("read-differs-from-last-accepted", fmt.Sprintf("key %d after programs: stored %v (%v), last accepted %v (%v)", k, v, err, sh.v, ok))
			}
			kh := w.keyOf(k)
			hh := kh.Hash()
			var blob []byte
			qerr := raw.QueryRow(`SELECT expiration_height FROM registry_entries WHERE registry_key=$1`, hh[:]).Scan(&blob)
			got, have := uint64(0), false
			if qerr == nil && len(blob) == 8 {
				got, have = binary.LittleEndian.Uint64(blob), true
			} else if qerr != sql.ErrNoRows {
				t.Fatalf("expiration_height of key %d: %v (%d bytes)", k, qerr, len(blob))
			}
			obs := "PBase (OExp None)"
			if have {
				obs = fmt.Sprintf("PBase (OExp (Some %d%%N))", got)
			}
			em.Step(fmt.Sprintf("Base (Exp %d)", k), obs)
			if have != ok || (ok && got != sh.exp) {
				em.Monitor("expiration-height-differs-from-last-accepted", fmt.Sprintf("key %d stored %d (%v) want %d (%v)", k, got, have, sh.exp, ok))
			}
		}
		tip := func(hgt uint64) {
			err := db.UpdateChainState(func(tx index.UpdateTx) error {
				return tx.SetLastIndex(types.ChainIndex{Height: hgt, ID: types.BlockID{byte(hgt), 1}})
			})
			if err != nil {
				t.Fatal(err)
			}
			em.Step(fmt.Sprintf("Base (Tip %d)", hgt), "PBase ODone")
			em.Count("op:Tip")
		}

		// flush: Manager.Close flushes the access recorder into the store; a new manager takes over.
		// The registry-entries metric must not move; registryReads / registryWrites take the pending counts.
		flush := func() {
			fs.expectFlush.Store(true)
			func() {
				defer func() {
					if r := recover(); r != nil {
						em.Monitor("registry-close-panics", fmt.Sprint(r))
					}
				}()
				mgr.Close()
			}()
			fs.expectFlush.Store(false)
			mgr = registry.NewManager(h.hostKey, fs, log)
			reg.set(mgr)
			perR, perW = perR+accR, perW+accW
			accR, accW = 0, 0
			flushed = true
			em.Step("Base (Flush true)", "PBase ODone")
			em.Count("op:Flush")
			if fs.timerFlushes.Load() > 0 {
				em.Count("access:skipped-timer-flush")
				return
			}
			m, err := db.Metrics(time.Now().Add(time.Hour))
			if err != nil {
				t.Fatal(err)
			}
			em.Step("Base Access", fmt.Sprintf("PBase (OAccess %d %d)", m.Registry.Reads, m.Registry.Writes))
			if int64(m.Registry.Reads) != perR || int64(m.Registry.Writes) != perW {
				em.Monitor("access-metrics-differ-from-flushed-accesses", fmt.Sprintf("reads %d writes %d, flushed %d / %d", m.Registry.Reads, m.Registry.Writes, perR, perW))
			}
		}

		// runProgram sends p, records it, and evaluates the monitors on what came back
		runProgram := func(p *c20Program) {
			initc, icost := c20Cost(p.pt)
			exp := p.pt.HostBlockHeight + 144*365
			// oracle bits against what the host stores when the instruction is reached: the
			// registry changes only through this program, so replaying the accepted updates of
			// its own prefix on the stored values gives the stored value at each instruction
			stored := map[int]shadowed{}
			for k := 0; k < 4; k++ {
				if v, err := db.GetRegistryValue(w.keyOf(k)); err == nil { // not through the manager: its Get counts as an access
					stored[k] = shadowed{v: v}
				}
			}
			cntBefore, limBefore, _ := mgr.Entries()
			for _, in := range p.instrs {
				if in.kind == "updateF" || in.kind == "readF" {
					fs.failGet.Store(true) // consumed by the first lookup the program makes
				}
			}
			started, resps, done, pan, site := w.run(p)
			fs.failGet.Store(false)
			if pan != nil {
				em.Monitor("panic-"+site, fmt.Sprint(pan))
				w.conn = h.connect()
			}
			var body, rs []string
			rem := types.ZeroCurrency
			if p.amount.Cmp(initc) >= 0 {
				rem = p.amount.Sub(initc)
			}
			cnt := cntBefore
			for i, in := range p.instrs {
				var r *c20Resp
				if i < len(resps) {
					r = &resps[i]
				}
				paid := rem.Cmp(icost) >= 0
				switch in.kind {
				case "update":
					valid := rhp3.ValidateRegistryEntry(in.entry) == nil
					old, hasOld := stored[in.k]
					tie := false
					if hasOld && valid {
						tie = rhp3.ValidateRegistryUpdate(rhp3.RegistryEntry{RegistryKey: in.entry.RegistryKey, RegistryValue: old.v}, in.entry, w.hostID) == nil
					}
					body = append(body, fmt.Sprintf("IUpdate %d %s %s %s", in.k, entryTerm(in.entry.RegistryValue), coqBool(valid), coqBool(tie)))
					if r == nil {
						break
					}
					em.Count(fmt.Sprintf("update:%s,valid=%v,stored=%v,paid=%v,accepted=%v", in.label, valid, hasOld, paid, r.err == nil))
					if r.err == nil {
						rs = append(rs, "RAccepted")
						if len(r.out) != 0 {
							em.Monitor("accepted-update-has-output", fmt.Sprintf("%d bytes", len(r.out)))
						}
						if !valid {
							em.Monitor("accepted-invalid-entry", fmt.Sprintf("key %d (%s)", in.k, in.label))
						}
						if hasOld && !tie {
							em.Monitor("accepted-non-superseding-update", fmt.Sprintf("key %d stored rev %d new rev %d", in.k, old.v.Revision, in.entry.Revision))
						}
						if !hasOld && cnt >= limBefore {
							em.Monitor("insert-accepted-without-room", fmt.Sprintf("new key %d accepted with count %d >= limit %d", in.k, cnt, limBefore))
						}
						if !paid {
							em.Monitor("instruction-ran-without-budget", fmt.Sprintf("update with %v left, cost %v", rem, icost))
						}
						if !hasOld {
							cnt++
						} else {
							accW++
						}
						stored[in.k] = shadowed{v: in.entry.RegistryValue}
						shadow[in.k] = shadowed{v: in.entry.RegistryValue, exp: exp}
					} else {
						out := "None"
						if len(r.out) >= 64 {
							out = fmt.Sprintf("(Some %d%%N)", vidNum(r.out[64:], *(*types.Signature)(r.out[:64])))
						} else if len(r.out) > 0 {
							em.Monitor("refused-update-output-malformed", fmt.Sprintf("%d bytes", len(r.out)))
						}
						rs = append(rs, "RError "+out)
						// property: "otherwise the stored entry is returned unchanged together with an error"
						if valid && hasOld && paid {
							want := append(append([]byte{}, old.v.Signature[:]...), old.v.Data...)
							if len(r.out) > 0 && !bytes.Equal(r.out, want) {
								em.Monitor("refused-update-returns-other-than-stored-entry", fmt.Sprintf("key %d: output %x, stored signature+data %x", in.k, r.out, want))
							} else if !bytes.Equal(r.out, want) {
								em.Monitor("refused-update-does-not-return-stored-entry", fmt.Sprintf("key %d: update refused (%v) with %d bytes of output, stored signature+data is %d bytes", in.k, r.err, len(r.out), len(want)))
							}
						}
					}
				case "read":
					body = append(body, fmt.Sprintf("IRead %d %d", in.k, in.ver))
					if r == nil {
						break
					}
					sh, has := shadow[in.k]
					verOK := in.ver == 1 || in.ver == 2
					em.Count(fmt.Sprintf("read:%s,stored=%v,paid=%v,ok=%v", in.label, has, paid, r.err == nil))
					if r.err != nil {
						rs = append(rs, "RError None")
						if len(r.out) != 0 {
							em.Monitor("failed-read-has-output", fmt.Sprintf("%d bytes", len(r.out)))
						}
						if has && verOK && paid {
							em.Monitor("read-instruction-differs-from-last-accepted-update", fmt.Sprintf("key %d: read failed (%v), last accepted update has revision %d", in.k, r.err, sh.v.Revision))
						}
						break
					}
					// signature ++ revision ++ data (++ type)
					minLen := 72
					if in.ver == 2 {
						minLen = 73
					}
					if len(r.out) < minLen {
						em.Monitor("read-instruction-differs-from-last-accepted-update", fmt.Sprintf("key %d: %d bytes of output", in.k, len(r.out)))
						rs = append(rs, "RError None")
						break
					}
					sig := *(*types.Signature)(r.out[:64])
					rev := binary.LittleEndian.Uint64(r.out[64:72])
					data := r.out[72:]
					ty := "None"
					var tyv uint8
					if in.ver == 2 {
						tyv = data[len(data)-1]
						data = data[:len(data)-1]
						ty = fmt.Sprintf("(Some %d%%N)", tyv)
					}
					accR++
					rs = append(rs, fmt.Sprintf("RValue %d %d %s", rev, vidNum(data, sig), ty))
					if !has || rev != sh.v.Revision || sig != sh.v.Signature || !bytes.Equal(data, sh.v.Data) || (in.ver == 2 && tyv != sh.v.Type) {
						em.Monitor("read-instruction-differs-from-last-accepted-update", fmt.Sprintf("key %d: read revision %d data %x, last accepted update revision %d data %x (any: %v)", in.k, rev, data, sh.v.Revision, sh.v.Data, has))
					}
					if !verOK || !paid {
						em.Monitor("instruction-ran-without-budget", fmt.Sprintf("read version %d with %v left, cost %v", in.ver, rem, icost))
					}
				case "updateF":
					valid := rhp3.ValidateRegistryEntry(in.entry) == nil
					body = append(body, fmt.Sprintf("IUpdateF %d %s %s", in.k, entryTerm(in.entry.RegistryValue), coqBool(valid)))
					if r == nil {
						break
					}
					old, hasOld := stored[in.k]
					em.Count(fmt.Sprintf("update-lookup-fault:valid=%v,stored=%v,paid=%v,accepted=%v", valid, hasOld, paid, r.err == nil))
					if r.err == nil {
						rs = append(rs, "RAccepted")
						em.Monitor("update-accepted-although-lookup-failed", fmt.Sprintf("key %d: update instruction accepted although the manager's lookup of the stored entry failed (stored: %v)", in.k, hasOld))
						if hasOld && rhp3.ValidateRegistryUpdate(rhp3.RegistryEntry{RegistryKey: in.entry.RegistryKey, RegistryValue: old.v}, in.entry, w.hostID) != nil {
							em.Monitor("accepted-non-superseding-update", fmt.Sprintf("key %d stored rev %d new rev %d (the lookup of the stored entry failed)", in.k, old.v.Revision, in.entry.Revision))
						}
					} else {
						out := "None"
						if len(r.out) > 0 {
							out = "(Some 0%N)"
							em.Monitor("failed-update-has-output", fmt.Sprintf("%d bytes", len(r.out)))
						}
						rs = append(rs, "RError "+out)
					}
				case "readF":
					body = append(body, fmt.Sprintf("IReadF %d %d", in.k, in.ver))
					if r == nil {
						break
					}
					em.Count(fmt.Sprintf("read-lookup-fault:paid=%v,ok=%v", paid, r.err == nil))
					if r.err == nil {
						rs = append(rs, "RSkipped")
						em.Monitor("read-succeeded-although-lookup-failed", fmt.Sprintf("key %d", in.k))
					} else {
						rs = append(rs, "RError None")
					}
				case "fail":
					body = append(body, "IFail")
					if r == nil {
						break
					}
					em.Count("fail:" + in.label)
					if r.err == nil {
						em.Monitor("malformed-instruction-succeeded", in.label)
						rs = append(rs, "RSkipped")
					} else {
						rs = append(rs, "RError None")
					}
				default:
					body = append(body, "ISkip")
					if r == nil {
						break
					}
					em.Count("skip:" + in.label)
					if r.err != nil {
						rs = append(rs, "RError None")
						em.Count("skip-failed:" + in.label)
					} else {
						rs = append(rs, "RSkipped")
					}
				}
				if r != nil && r.err == nil && (in.kind == "update" || in.kind == "read") {
					if rem.Cmp(icost) >= 0 {
						rem = rem.Sub(icost)
					} else {
						rem = types.ZeroCurrency // reported above: the instruction ran without budget
					}
				}
			}
			em.Step(fmt.Sprintf("Run {| hbh := %d; budget := %s; initc := %s; icost := %s; body := %s; fin := %s |}",
				p.pt.HostBlockHeight, coqCur(p.amount), coqCur(initc), coqCur(icost), coqList(body), coqBool(!(p.finalize && p.badFinal))),
				fmt.Sprintf("PRun %s %s %s", coqBool(started), coqList(rs), coqBool(done)))
			em.Count(fmt.Sprintf("program:len=%d,started=%v,done=%v,finalize=%v", len(p.instrs), started, done, p.finalize))
			if started != (p.amount.Cmp(initc) >= 0) {
				em.Monitor("program-start-differs-from-budget", fmt.Sprintf("started %v with budget %v, init cost %v", started, p.amount, initc))
			}
		}

		// genProgram draws a program of 1..5 instructions over the four keys
		genProgram := func(hbh uint64) *c20Program {
			p := &c20Program{pt: w.genPT(rng, hbh)}
			d := &c20Data{buf: make([]byte, rng.Intn(3)*8)}
			ninstr := 1 + rng.Intn(5)
			for i := 0; i < ninstr; i++ {
				k := rng.Intn(4)
				var cur *rhp3.RegistryValue
				if sh, ok := shadow[k]; ok {
					cur = &sh.v
				}
				switch r := rng.Intn(20); {
				case r < 10:
					noType := rng.Intn(5) == 0
					e, what := w.genEntry(rng, k, noType, cur)
					if noType {
						what += ",no-type-encoding"
					}
					p.instrs = append(p.instrs, c20Instr{in: w.updateInstr(d, e, noType), kind: "update", k: k, entry: e, label: what})
				case r < 17:
					if len(shadow) > 0 && rng.Intn(5) != 0 {
						// mostly keys that answer: an absent key ends the program
						for !func() bool { _, ok := shadow[k]; return ok }() {
							k = (k + 1) % 4
						}
					}
					ver, noVersion, label := uint8(1+rng.Intn(2)), false, ""
					switch rng.Intn(10) {
					case 0:
						ver, noVersion, label = 1, true, "no-version-encoding"
					case 1:
						ver = []uint8{0, 3, 255}[rng.Intn(3)]
					}
					if label == "" {
						label = fmt.Sprintf("version-%d", ver)
					}
					p.instrs = append(p.instrs, c20Instr{in: w.readInstr(d, w.keyOf(k), ver, noVersion), kind: "read", k: k, ver: ver, label: label})
				case r < 18 && i > 0:
					// registry instructions whose operands do not decode, or another instruction that fails
					var in rhp3.Instruction
					label := ""
					switch rng.Intn(5) {
					case 0:
						e, _ := w.genEntry(rng, k, false, cur)
						u := w.updateInstr(d, e, false).(*rhp3.InstrUpdateRegistry)
						u.DataLength = 1 << 40
						in, label = u, "update:data-out-of-bounds"
					case 1:
						e, _ := w.genEntry(rng, k, false, cur)
						u := w.updateInstr(d, e, false).(*rhp3.InstrUpdateRegistry)
						u.PublicKeyLength = 16 + 31
						in, label = u, "update:key-length-31"
					case 2:
						rd := w.readInstr(d, w.keyOf(k), 2, false).(*rhp3.InstrReadRegistry)
						rd.TweakOffset = ^uint64(0) - 3
						in, label = rd, "read:tweak-out-of-bounds"
					case 3:
						off := d.put(append([]byte("notanalgorithm!!"), bytes.Repeat([]byte{1}, 32)...))
						rd := w.readInstr(d, w.keyOf(k), 1, false).(*rhp3.InstrReadRegistry)
						rd.PublicKeyOffset = off
						in, label = rd, "read:unsupported-algorithm"
					default:
						in, label = &rhp3.InstrHasSector{MerkleRootOffset: 1 << 50}, "has-sector:root-out-of-bounds"
					}
					p.instrs = append(p.instrs, c20Instr{in: in, kind: "fail", label: label})
				default:
					off := d.put(bytes.Repeat([]byte{0xab}, 32))
					p.instrs = append(p.instrs, c20Instr{in: &rhp3.InstrHasSector{MerkleRootOffset: off}, kind: "skip", label: "has-sector"})
				}
			}
			if rng.Intn(6) == 0 {
				// the manager's lookup of the stored entry fails during the first registry instruction
				// of the program (the one-shot fault is consumed by the first lookup)
				for i := range p.instrs {
					if p.instrs[i].kind == "update" || p.instrs[i].kind == "read" {
						p.instrs[i].kind += "F"
						break
					}
				}
			}
			if rng.Intn(12) == 0 {
				// an instruction that needs the contract and a finalisation: drop 0 sectors
				off := d.put(make([]byte, 8))
				p.instrs = append(p.instrs, c20Instr{in: &rhp3.InstrDropSectors{SectorCountOffset: off}, kind: "skip", label: "drop-0-sectors"})
				p.finalize = true
				p.badFinal = rng.Intn(2) == 0
			}
			p.data = d.buf
			// budget: ample, or running out at some instruction, or below the init cost
			initc, icost := c20Cost(p.pt)
			switch r := rng.Intn(12); {
			case r < 9:
				p.amount = initc.Add(icost.Mul64(uint64(len(p.instrs)))).Add(types.NewCurrency64(uint64(1 + rng.Intn(3))))
			case r < 11:
				p.amount = initc.Add(icost.Mul64(uint64(rng.Intn(len(p.instrs) + 1))))
				if !icost.IsZero() && rng.Intn(2) == 0 {
					p.amount = p.amount.Add(icost.Sub(types.NewCurrency64(1)))
				}
			default:
				if !initc.IsZero() {
					p.amount = initc.Sub(types.NewCurrency64(1))
				}
			}
			if p.amount.IsZero() {
				p.amount = types.NewCurrency64(1) // a zero withdrawal is refused before the program
			}
			return p
		}
		// a one-key program helper for the directed cases
		mk := func(k int, rev uint64, data byte) rhp3.RegistryEntry {
			e := rhp3.RegistryEntry{RegistryKey: w.keyOf(k), RegistryValue: rhp3.RegistryValue{Revision: rev, Type: rhp3.EntryTypeArbitrary, Data: []byte{data}}}
			e.Signature = w.renters[k/2].SignHash(e.Hash())
			return e
		}
		prog := func(hbh uint64, build func(d *c20Data) []c20Instr) *c20Program {
			d := &c20Data{}
			p := &c20Program{pt: rhp3.HostPriceTable{HostBlockHeight: hbh, InitBaseCost: types.NewCurrency64(1), WriteBaseCost: types.NewCurrency64(3)}}
			p.instrs = build(d)
			p.data = d.buf
			p.amount = types.NewCurrency64(1000)
			return p
		}
		upd := func(d *c20Data, e rhp3.RegistryEntry, k int) c20Instr {
			return c20Instr{in: w.updateInstr(d, e, false), kind: "update", k: k, entry: e, label: "directed"}
		}
		rd := func(d *c20Data, k int, ver uint8) c20Instr {
			return c20Instr{in: w.readInstr(d, w.keyOf(k), ver, false), kind: "read", k: k, ver: ver, label: fmt.Sprintf("version-%d", ver)}
		}
		failing := func() c20Instr {
			return c20Instr{in: &rhp3.InstrHasSector{MerkleRootOffset: 1 << 50}, kind: "fail", label: "has-sector:root-out-of-bounds"}
		}
		after := func() {
			for k := 0; k < 4; k++ {
				look(k)
			}
			info()
		}
		tipHeight := h.node.Chain.Tip().Height

		switch id {
		case 0:
			// the witness of c20_rhp3_refused_update_returns_stored_refuted: an update that does not
			// supersede the stored entry is refused; the stored entry must come back with the error
			setLimit(1)
			e := mk(0, 1, 1)
			runProgram(prog(10, func(d *c20Data) []c20Instr { return []c20Instr{upd(d, e, 0)} }))
			runProgram(prog(10, func(d *c20Data) []c20Instr { return []c20Instr{upd(d, e, 0)} }))
			runProgram(prog(10, func(d *c20Data) []c20Instr { return []c20Instr{upd(d, mk(0, 0, 2), 0), rd(d, 0, 2)} }))
			after()
		case 1:
			// c20_rhp3_nonvacuous: a program whose update is accepted and which then fails; the next
			// program reads the update in both versions; a key never written cannot be read
			setLimit(2)
			runProgram(prog(10, func(d *c20Data) []c20Instr {
				return []c20Instr{upd(d, mk(1, 1, 7), 1), failing(), upd(d, mk(2, 1, 7), 2)}
			}))
			after()
			runProgram(prog(11, func(d *c20Data) []c20Instr { return []c20Instr{rd(d, 1, 2), rd(d, 1, 1), rd(d, 2, 1)} }))
			after()
		case 2:
			// an accepted update in a program whose finalisation the renter then breaks
			setLimit(2)
			p := prog(tipHeight, func(d *c20Data) []c20Instr {
				off := d.put(make([]byte, 8))
				return []c20Instr{upd(d, mk(0, 2, 1), 0), rd(d, 0, 2),
					{in: &rhp3.InstrDropSectors{SectorCountOffset: off}, kind: "skip", label: "drop-0-sectors"}}
			})
			p.finalize, p.badFinal = true, true
			runProgram(p)
			after()
			// and the same with a sound finalisation
			p = prog(tipHeight, func(d *c20Data) []c20Instr {
				off := d.put(make([]byte, 8))
				return []c20Instr{upd(d, mk(0, 3, 1), 0), upd(d, mk(1, 1, 1), 1),
					{in: &rhp3.InstrDropSectors{SectorCountOffset: off}, kind: "skip", label: "drop-0-sectors"}, rd(d, 1, 1)}
			})
			p.finalize = true
			runProgram(p)
			after()
		case 3:
			// registry full, limit 0, the limit lowered under stored entries; reads keep answering
			setLimit(0)
			runProgram(prog(10, func(d *c20Data) []c20Instr { return []c20Instr{upd(d, mk(0, 1, 1), 0)} }))
			setLimit(2)
			runProgram(prog(10, func(d *c20Data) []c20Instr {
				return []c20Instr{upd(d, mk(0, 1, 1), 0), upd(d, mk(1, 1, 1), 1), upd(d, mk(2, 1, 1), 2)}
			}))
			after()
			runProgram(prog(10, func(d *c20Data) []c20Instr { return []c20Instr{upd(d, mk(0, 2, 2), 0), rd(d, 0, 2), rd(d, 1, 1)} }))
			setLimit(1)
			runProgram(prog(10, func(d *c20Data) []c20Instr { return []c20Instr{upd(d, mk(1, 5, 2), 1), rd(d, 1, 2), upd(d, mk(3, 1, 1), 3)} }))
			after()
		case 4:
			// expiry: the tip far beyond height + one year of every update; a price table height for
			// which the uint64 sum wraps
			setLimit(3)
			runProgram(prog(10, func(d *c20Data) []c20Instr { return []c20Instr{upd(d, mk(0, 1, 1), 0), upd(d, mk(1, 1, 1), 1)} }))
			after()
			tip(10 + 144*365 + 1)
			after()
			runProgram(prog(12, func(d *c20Data) []c20Instr { return []c20Instr{rd(d, 0, 2), rd(d, 1, 1), upd(d, mk(0, 0, 9), 0)} }))
			tip(1 << 40)
			runProgram(prog(12, func(d *c20Data) []c20Instr { return []c20Instr{rd(d, 0, 1), upd(d, mk(2, 1, 1), 2), upd(d, mk(3, 1, 1), 3)} }))
			after()
			runProgram(prog(^uint64(0)-1000, func(d *c20Data) []c20Instr { return []c20Instr{upd(d, mk(0, 7, 1), 0), rd(d, 0, 2)} }))
			after()
		case 5:
			// budgets: below the init cost; exhausted at the second instruction
			setLimit(2)
			p := prog(10, func(d *c20Data) []c20Instr { return []c20Instr{upd(d, mk(0, 1, 1), 0)} })
			p.pt.InitBaseCost = types.NewCurrency64(5)
			p.amount = types.NewCurrency64(4)
			runProgram(p)
			p = prog(10, func(d *c20Data) []c20Instr { return []c20Instr{upd(d, mk(0, 1, 1), 0), upd(d, mk(1, 1, 1), 1), rd(d, 0, 1)} })
			p.amount = types.NewCurrency64(1 + 3 + 2)
			runProgram(p)
			after()
			p = prog(10, func(d *c20Data) []c20Instr { return []c20Instr{rd(d, 0, 1), rd(d, 0, 2)} })
			p.amount = types.NewCurrency64(1 + 3)
			runProgram(p)
			after()
		case 6:
			// the manager's lookup of the stored entry fails while a stale, the same and a newer update
			// arrive (seeded C20-mut9) and while a read arrives; then updates of a stored key, reads and a
			// flush of the access recorder (seeded C20-mut10: the registry-entries metric must not move)
			setLimit(2)
			runProgram(prog(10, func(d *c20Data) []c20Instr { return []c20Instr{upd(d, mk(0, 5, 1), 0)} }))
			faulty := func(in c20Instr) c20Instr { in.kind += "F"; return in }
			runProgram(prog(10, func(d *c20Data) []c20Instr { return []c20Instr{faulty(upd(d, mk(0, 3, 2), 0)), rd(d, 0, 1)} }))
			after()
			runProgram(prog(10, func(d *c20Data) []c20Instr { return []c20Instr{faulty(upd(d, mk(0, 5, 1), 0))} }))
			runProgram(prog(10, func(d *c20Data) []c20Instr { return []c20Instr{faulty(upd(d, mk(0, 7, 3), 0))} }))
			runProgram(prog(10, func(d *c20Data) []c20Instr { return []c20Instr{faulty(rd(d, 0, 2)), rd(d, 0, 1)} }))
			after()
			runProgram(prog(10, func(d *c20Data) []c20Instr { return []c20Instr{upd(d, mk(0, 6, 4), 0), upd(d, mk(0, 7, 5), 0), rd(d, 0, 2), rd(d, 0, 1)} }))
			flush()
			after()
			runProgram(prog(10, func(d *c20Data) []c20Instr { return []c20Instr{upd(d, mk(1, 1, 1), 1), upd(d, mk(0, 8, 6), 0), rd(d, 1, 2)} }))
			flush()
			after()
		default:
			setLimit([]uint64{0, 1, 1, 2, 2, 3, 3, 4}[rng.Intn(8)])
			nprog := 3 + rng.Intn(7)
			for i := 0; i < nprog; i++ {
				hbh := tipHeight
				switch rng.Intn(6) {
				case 0:
					hbh = uint64(rng.Intn(200))
				case 1:
					hbh = ^uint64(0) - 100 - uint64(rng.Intn(144*365*2))
				}
				runProgram(genProgram(hbh))
				switch rng.Intn(10) {
				case 0:
					setLimit(uint64(rng.Intn(5)))
				case 1:
					tip(uint64(rng.Intn(3)) * 60000)
				}
				if rng.Intn(6) == 0 {
					flush()
				}
				if rng.Intn(2) == 0 {
					after()
				} else {
					info()
				}
			}
			after()
			flush()
			info()
		}

		func() {
			defer func() {
				if r := recover(); r != nil {
					em.Monitor("registry-close-panics", fmt.Sprint(r))
				}
			}()
			mgr.Close()
		}()
		em.EndCase(len(shadow) > 0)
		raw.Close()
		db.Close()
	}
}
