//go:build verif

package rhp

// WP-P (C12): the price table an RHP3 RPC is validated against is one the host registered and that
// is still in force.  Drives the real priceTableManager (rhp/v3/pricetable.go, with the fix that makes
// Get compare the table's own expiry: the map's values are registeredPriceTable{pt, expiry}).  The manager reads
// the clock through time.Now/time.Until and owns a *time.Timer: there is no seam for a virtual
// clock, so the cases run in real time with short validities, under the timing rule of DESIGN §7:
//
//   - what is recorded for the Coq model (coq/PriceTable/Model.v) never depends on how long
//     something took: the harness reads the manager's list and map (in-package, under its mutex)
//     before and after each of its own operations; a change it did not make itself is a run of the
//     timer function and is recorded as `Tick now`, `now` being the latest expiry that was removed
//     (the model then says exactly which prefix a run at that instant removes);
//   - whether a served table had expired needs no tolerance: the harness reads its clock before it
//     calls Get and Get reads the clock after that, so a table served when the harness's reading
//     was already at or past the expiry was served expired;
//   - monitors that judge how long the manager HOLDS a table (memory) wait for a predicted event
//     ("the table is gone") with a long deadline: 20x the validity, at least 1.5 s (at most 3 s).
//
// Case 0 is the seeded scenario (C12-mut7) through real RPCs on a host node: register a table, lower
// MaxCollateral, other renters keep registering, renew under the old table after its expiry.

import (
	"context"
	"fmt"
	"net"
	"os"
	"path/filepath"
	"sort"
	"strings"
	"sync"
	"testing"
	"time"

	crhp2 "go.sia.tech/core/rhp/v2"
	rhp3 "go.sia.tech/core/rhp/v3"
	"go.sia.tech/core/types"
	"go.sia.tech/coreutils/chain"
	"go.sia.tech/coreutils/wallet"
	"go.sia.tech/hostd/v2/internal/testutil"
	proto2 "go.sia.tech/hostd/v2/internal/testutil/rhp/v2"
	proto3 "go.sia.tech/hostd/v2/internal/testutil/rhp/v3"
	hrhp2 "go.sia.tech/hostd/v2/rhp/v2"
	"go.uber.org/zap"
)

const c12ptHeader = "From HostdBase Require Import Base.\nFrom HostdPriceTable Require Import Model."

// ---------------------------------------------------------------- recorder

type c12ptEntry struct {
	uid int   // number of the UID
	exp int64 // expiry, ns since the case's origin
}

// a value of the manager's map: contents id and expiry (registeredPriceTable)
type c12ptTab struct {
	tid int
	exp int64
}

type c12ptSnap struct {
	before int64 // ns since origin, read before the manager's mutex was taken
	after  int64 // ... and after it was released
	list   []c12ptEntry
	tabs   map[int]c12ptTab // UID number -> (table id, expiry)
}

// what the harness knows about one registration
type c12ptReg struct {
	uid, tid     int
	validity     int64
	expLo, expHi int64 // the expiry the code computed lies in [expLo, expHi] (equal when it was read from the list)
	boundHi      int64 // latest expHi among this and all earlier registrations
	dup          bool  // the UID was registered more than once in this case: outside the monitors
	pt           rhp3.HostPriceTable
}

type c12ptHit struct{ sig, detail string }

type c12ptRec struct {
	pm      *priceTableManager
	origin  time.Time
	direct  bool // tables are registered by the harness itself: contents id = HostBlockHeight
	prev    c12ptSnap
	last    int64 // instant of the last recorded operation
	uidNos  map[rhp3.SettingsID]int
	regs    []*c12ptReg
	byUID   map[int]*c12ptReg // latest registration of the UID
	tidUID  map[rhp3.SettingsID]int
	steps   [][2]string
	hits    []c12ptHit
	hitSeen map[string]bool
	counts  map[string]int
	bound   int64
	accepts int
	seenAt  int64 // end of the latest look at the manager
	frozen  bool  // nothing more is recorded for the model (see register)
}

func newC12ptRec(pm *priceTableManager, direct bool) *c12ptRec {
	r := &c12ptRec{pm: pm, origin: time.Now(), direct: direct, uidNos: map[rhp3.SettingsID]int{},
		byUID: map[int]*c12ptReg{}, tidUID: map[rhp3.SettingsID]int{}, hitSeen: map[string]bool{}, counts: map[string]int{}}
	r.prev = c12ptSnap{tabs: map[int]c12ptTab{}}
	return r
}

func (r *c12ptRec) now() int64 { return int64(time.Since(r.origin)) }

func (r *c12ptRec) uidNo(uid rhp3.SettingsID) int {
	if n, ok := r.uidNos[uid]; ok {
		return n
	}
	n := len(r.uidNos) + 1
	r.uidNos[uid] = n
	return n
}

func (r *c12ptRec) tidOf(pt rhp3.HostPriceTable) int {
	if r.direct {
		return int(pt.HostBlockHeight)
	}
	return r.tidUID[pt.UID]
}

func (r *c12ptRec) monitor(sig, detail string) {
	if r.hitSeen[sig] {
		return
	}
	r.hitSeen[sig] = true
	r.hits = append(r.hits, c12ptHit{sig, detail})
}

func (r *c12ptRec) count(k string) { r.counts[k]++ }

// grace period of the time-judging monitors
func c12ptGrace(validity int64) int64 {
	g := 20 * validity
	if g < int64(1500*time.Millisecond) {
		g = int64(1500 * time.Millisecond)
	}
	if g > int64(3*time.Second) {
		g = int64(3 * time.Second)
	}
	return g
}

func (r *c12ptRec) snapshot() c12ptSnap {
	s := c12ptSnap{before: r.now(), tabs: map[int]c12ptTab{}}
	r.pm.mu.RLock()
	for e := r.pm.expirationList.Front(); e != nil; e = e.Next() {
		ept := e.Value.(expiringPriceTable)
		s.list = append(s.list, c12ptEntry{uid: r.uidNo(ept.uid), exp: int64(ept.expiry.Sub(r.origin))})
	}
	for uid, v := range r.pm.priceTables {
		s.tabs[r.uidNo(uid)] = c12ptTab{tid: r.tidOf(v.pt), exp: int64(v.expiry.Sub(r.origin))}
	}
	r.pm.mu.RUnlock()
	s.after = r.now()
	r.seenAt = s.after
	return s
}

func c12ptStateObs(list []c12ptEntry, tabs map[int]c12ptTab) string {
	if len(list) > 32 || len(tabs) > 32 {
		fs, bs := "None", "None"
		if len(list) > 0 {
			f, b := list[0], list[len(list)-1]
			fs, bs = fmt.Sprintf("(Some (%d%%N, %d%%N))", f.uid, f.exp), fmt.Sprintf("(Some (%d%%N, %d%%N))", b.uid, b.exp)
		}
		return fmt.Sprintf("OSumm %d%%N %s %s %d%%N", len(list), fs, bs, len(tabs))
	}
	ls := make([]string, 0, len(list))
	for _, e := range list {
		ls = append(ls, fmt.Sprintf("(%d%%N, %d%%N)", e.uid, e.exp))
	}
	keys := make([]int, 0, len(tabs))
	for k := range tabs {
		keys = append(keys, k)
	}
	sort.Ints(keys)
	c12ms := make([]string, 0, len(keys))
	for _, k := range keys {
		c12ms = append(c12ms, fmt.Sprintf("(%d%%N, (%d%%N, %d%%N))", k, tabs[k].tid, tabs[k].exp))
	}
	return "OState [" + strings.Join(ls, "; ") + "] [" + strings.Join(c12ms, "; ") + "]"
}

// step records an operation for the model.  Once a table has been found to outlive its grace period
// the case has its failing input: nothing more is recorded (the manager's list only grows from then
// on, and with it every recorded state).
func (r *c12ptRec) step(op, obs string) {
	if r.hitSeen["expired-price-table-served"] || r.frozen {
		return
	}
	r.steps = append(r.steps, [2]string{op, obs})
}

// suffixAt returns k with post == want[k:], or -1
func c12ptSuffixAt(want, post []c12ptEntry) int {
	k := len(want) - len(post)
	if k < 0 {
		return -1
	}
	for i := range post {
		if want[k+i] != post[i] {
			return -1
		}
	}
	return k
}

// without returns the state the removal of the entries [removed] leaves (what the timer function
// does: delete(pm.priceTables, uid) for each)
func c12ptWithout(list []c12ptEntry, tabs map[int]c12ptTab, k int) ([]c12ptEntry, map[int]c12ptTab) {
	t := map[int]c12ptTab{}
	for u, v := range tabs {
		t[u] = v
	}
	for _, e := range list[:k] {
		delete(t, e.uid)
	}
	return list[k:], t
}

func c12ptMaxExp(es []c12ptEntry, lo int64) int64 {
	for _, e := range es {
		if e.exp > lo {
			lo = e.exp
		}
	}
	return lo
}

// tick records a run of the timer function that removed [removed] and left (list, tabs)
func (r *c12ptRec) tick(removed, list []c12ptEntry, tabs map[int]c12ptTab) {
	for _, e := range removed {
		// r.seenAt: the look at the manager that found them gone had ended by then
		if g := r.byUID[e.uid]; r.seenAt < e.exp && (g == nil || !g.dup) {
			r.monitor("price-table-removed-before-expiry", fmt.Sprintf("the entry of UID %d expiring at %v was gone at %v", e.uid, time.Duration(e.exp), time.Duration(r.seenAt)))
		}
	}
	r.last = c12ptMaxExp(removed, r.last)
	r.step(fmt.Sprintf("Tick %d%%N", r.last), c12ptStateObs(list, tabs))
	switch n := len(removed); {
	case n == 1:
		r.count("tick:removes-1")
	case n <= 4:
		r.count("tick:removes-2..4")
	default:
		r.count("tick:removes-5+")
	}
	if len(list) == 0 {
		r.count("tick:list-emptied")
	}
}

// checkSnap: monitors on a state of the manager (no table stays beyond the grace period)
func (r *c12ptRec) checkSnap(s c12ptSnap) {
	seen := map[int]bool{}
	for _, e := range s.list {
		seen[e.uid] = true
	}
	for u := range s.tabs {
		seen[u] = true
	}
	for u := range seen {
		g := r.byUID[u]
		if g == nil || g.dup {
			continue
		}
		if s.before > g.boundHi+c12ptGrace(g.validity) {
			// since /repo's Get compares the table's own expiry, a table the manager still holds
			// past its expiry is never served: memory only, not a violation of C12.  Counted, and
			// the recording goes on (the model's Tick would have removed it: reported as a broken
			// correspondence without a failing input if it happens)
			r.count("held-past-expiry-plus-grace")
			_ = fmt.Sprintf("table %d (validity %v, expiry at %v, latest expiry of the tables registered before it %v) is still held by the manager at %v: list %d entries, map %d entries",
				g.tid, time.Duration(g.validity), time.Duration(g.expHi), time.Duration(g.boundHi), time.Duration(s.before), len(s.list), len(s.tabs))
		}
	}
	if len(s.list) == 0 && len(s.tabs) != 0 || len(s.list) != 0 && len(s.tabs) == 0 {
		dups := false
		for _, g := range r.regs {
			dups = dups || g.dup
		}
		if !dups {
			r.monitor("price-table-list-and-map-disagree", fmt.Sprintf("list %d entries, map %d entries", len(s.list), len(s.tabs)))
		}
	}
}

// sync looks at the manager and records what the timer function did since the last look
func (r *c12ptRec) sync() c12ptSnap {
	s := r.snapshot()
	k := c12ptSuffixAt(r.prev.list, s.list)
	switch {
	case k < 0:
		// not a removal of a prefix: recorded as it is, the model will not agree
		r.tick(nil, s.list, s.tabs)
	case k > 0:
		r.tick(r.prev.list[:k], s.list, s.tabs)
	case !c12ptSameTabs(r.prev.tabs, s.tabs):
		r.tick(nil, s.list, s.tabs)
	}
	r.prev = s
	r.checkSnap(s)
	return s
}

func c12ptSameTabs(a, b map[int]c12ptTab) bool {
	if len(a) != len(b) {
		return false
	}
	for k, v := range a {
		if w, ok := b[k]; !ok || w != v {
			return false
		}
	}
	return true
}

// register runs a registration ([do] performs it and returns the UID) and records it
func (r *c12ptRec) register(validity time.Duration, pt rhp3.HostPriceTable, do func() (rhp3.SettingsID, error)) (*c12ptReg, error) {
	r.sync()
	tid := len(r.regs) + 1
	t0 := r.now()
	uid, err := do()
	t1 := r.now()
	if err != nil {
		return nil, err
	}
	no := r.uidNo(uid)
	r.tidUID[uid] = tid
	pt.UID = uid
	post := r.snapshot()
	g := &c12ptReg{uid: no, tid: tid, validity: int64(validity), pt: pt}
	present := len(post.list) > 0 && post.list[len(post.list)-1].uid == no && len(post.list) <= len(r.prev.list)+1
	if present {
		g.expLo = post.list[len(post.list)-1].exp
		g.expHi = g.expLo
		if g.expLo < t0+int64(validity) || g.expLo > t1+int64(validity) {
			r.monitor("price-table-expiry-differs-from-validity", fmt.Sprintf("table %d registered between %v and %v with validity %v expires at %v", tid, time.Duration(t0), time.Duration(t1), validity, time.Duration(g.expLo)))
		}
	} else {
		g.expLo, g.expHi = t0+int64(validity), t1+int64(validity)
	}
	if old := r.byUID[no]; old != nil {
		old.dup, g.dup = true, true
	}
	if g.expHi > r.bound {
		r.bound = g.expHi
	}
	g.boundHi = r.bound
	r.regs = append(r.regs, g)
	r.byUID[no] = g

	// Only with a repeated UID can the map hold a single table while the list holds more entries: the
	// registration then resets a timer that is running (or whose function the runtime has already
	// started and which waits for the mutex - a state the model, in which a run of the timer
	// function is one atomic step, does not have).  The recording of such a case ends here.
	if len(post.tabs) == 1 && len(post.list) > 1 && !r.frozen {
		r.frozen = true
		r.count("repeated-uid:timer-reset-while-running:recording-ends")
	}
	rnow := g.expLo - int64(validity)
	op := fmt.Sprintf("Register %d%%N %d%%N %d%%N %d%%N", no, tid, rnow, int64(validity))
	newEntry := c12ptEntry{uid: no, exp: g.expLo}
	withNew := append(append([]c12ptEntry{}, r.prev.list...), newEntry)
	tabsNew := map[int]c12ptTab{}
	for u, v := range r.prev.tabs {
		tabsNew[u] = v
	}
	tabsNew[no] = c12ptTab{tid: tid, exp: g.expLo}

	k := -1
	if present {
		k = c12ptSuffixAt(r.prev.list, post.list[:len(post.list)-1])
	}
	switch {
	case present && k == 0:
		r.last = max(r.last, rnow)
		r.step(op, c12ptStateObs(post.list, post.tabs))
	case present && k > 0 && c12ptMaxExp(r.prev.list[:k], 0) <= rnow:
		// the timer function ran between the last look and the registration
		l, t := c12ptWithout(r.prev.list, r.prev.tabs, k)
		r.tick(r.prev.list[:k], l, t)
		r.last = max(r.last, rnow)
		r.step(op, c12ptStateObs(post.list, post.tabs))
		r.count("interleaved:tick-before-register")
	case present && k > 0:
		// ... or after the registration read the clock
		r.last = max(r.last, rnow)
		r.step(op, c12ptStateObs(withNew, tabsNew))
		r.tick(withNew[:k], post.list, post.tabs)
		r.count("interleaved:tick-after-register")
	case !present && len(post.list) == 0:
		// the new entry is gone already (with everything before it)
		r.last = max(r.last, rnow)
		r.step(op, c12ptStateObs(withNew, tabsNew))
		r.tick(withNew, post.list, post.tabs)
		r.count("interleaved:registered-table-expired-at-once")
	default:
		// not explainable by a registration and removals of a prefix: recorded as seen
		r.last = max(r.last, rnow)
		r.step(op, c12ptStateObs(post.list, post.tabs))
	}
	r.prev = post
	r.checkSnap(post)
	r.count("op:Register")
	return g, nil
}

// get asks the manager for a table, as readPriceTable does, and records the answer
func (r *c12ptRec) get(uid rhp3.SettingsID) (rhp3.HostPriceTable, bool) {
	r.sync()
	no := r.uidNo(uid)
	t0 := r.now()
	pt, err := r.pm.Get(uid)
	t1 := r.now()
	found := err == nil
	post := r.snapshot()
	obs := "OGet None"
	if found {
		obs = fmt.Sprintf("OGet (Some %d%%N)", r.tidOf(pt))
	}
	k := c12ptSuffixAt(r.prev.list, post.list)
	held, stillThere := post.tabs[no]
	getFirst := true
	if k > 0 && !found && !stillThere {
		getFirst = false // the timer function removed it before the lookup
	}
	// The instant Get read the clock lies between the harness's readings t0 and t1.  A table that
	// was refused although the map (still) holds it had expired by then: the recorded instant is
	// not before its expiry.  A table that was served had not: max(t0, last) is before its expiry
	// whenever the code is right (both are instants that had passed when Get read the clock).
	emitGet := func() {
		r.last = max(r.last, t0)
		if !found && stillThere {
			r.last = max(r.last, held.exp)
		}
		r.step(fmt.Sprintf("Get %d%%N %d%%N", no, r.last), obs)
	}
	switch {
	case k > 0 && getFirst:
		emitGet()
		r.tick(r.prev.list[:k], post.list, post.tabs)
		r.count("interleaved:get-before-tick")
	case k > 0:
		r.tick(r.prev.list[:k], post.list, post.tabs)
		emitGet()
		r.count("interleaved:tick-before-get")
	case k < 0 || !c12ptSameTabs(r.prev.tabs, post.tabs):
		emitGet()
		r.tick(nil, post.list, post.tabs)
	default:
		emitGet()
	}
	r.prev = post
	r.checkSnap(post)
	r.count("op:Get")

	// monitors
	g := r.byUID[no]
	switch {
	case g == nil:
		if found {
			r.monitor("unregistered-price-table-served", fmt.Sprintf("Get of a UID that was never registered returned table %d", r.tidOf(pt)))
		}
		r.count("get:unknown-uid")
	case g.dup:
		r.count("get:repeated-uid")
	case found:
		r.accepts++
		if r.tidOf(pt) != g.tid || (r.direct && pt != g.pt) {
			r.monitor("served-price-table-differs-from-registered", fmt.Sprintf("UID %d: registered table %d, served table %d", no, g.tid, r.tidOf(pt)))
		}
		switch {
		case t0 >= g.expHi && t0 < g.boundHi:
			r.monitor("price-table-outlives-own-validity", fmt.Sprintf("table %d (validity %v, expired at %v) was served at %v, %v after its expiry: it sits behind a table registered earlier with a longer validity (expiring at %v) in the expiration list",
				g.tid, time.Duration(g.validity), time.Duration(g.expHi), time.Duration(t0), time.Duration(t0-g.expHi), time.Duration(g.boundHi)))
		case t0 >= g.expHi:
			r.monitor("expired-price-table-served", fmt.Sprintf("table %d (validity %v, expired at %v) was served at %v, %v after its expiry",
				g.tid, time.Duration(g.validity), time.Duration(g.expHi), time.Duration(t0), time.Duration(t0-g.expHi)))
		default:
			r.count("get:served-in-force")
		}
	default:
		if t1 < g.expLo {
			r.monitor("registered-price-table-not-served", fmt.Sprintf("table %d (validity %v, expiring at %v) was refused at %v", g.tid, time.Duration(g.validity), time.Duration(g.expLo), time.Duration(t1)))
		}
		if stillThere {
			r.count("get:refused-after-expiry-while-still-held")
		} else {
			r.count("get:refused-after-expiry")
		}
	}
	return pt, found
}

// drain waits until every table is gone (predicted event; deadline = latest expiry + grace)
func (r *c12ptRec) drain() {
	var grace int64
	for _, g := range r.regs {
		if c := c12ptGrace(g.validity); c > grace {
			grace = c
		}
	}
	deadline := r.bound + grace + int64(100*time.Millisecond)
	for {
		s := r.sync()
		if len(s.list) == 0 && len(s.tabs) == 0 {
			break
		}
		if r.now() > deadline {
			r.count("drain:gave-up")
			break
		}
		time.Sleep(2 * time.Millisecond)
	}
	r.pm.mu.Lock()
	if r.pm.expirationTimer != nil {
		r.pm.expirationTimer.Stop()
	}
	r.pm.mu.Unlock()
}

func (r *c12ptRec) sleepUntil(at time.Duration) {
	if d := at - time.Since(r.origin); d > 0 {
		time.Sleep(d)
	}
}

// ---------------------------------------------------------------- manager-level cases

type c12ptAct struct {
	at       time.Duration
	kind     int // 0 register, 1 get
	validity time.Duration
	reuse    int // register: 0 = fresh UID, k>0 = the UID of the k-th registration (repeated UID)
	target   int // get: index of the registration asked for (-1: a UID never registered)
}

func c12ptUID(caseID, n int) (u rhp3.SettingsID) {
	copy(u[:], fmt.Sprintf("c%06d-t%06d", caseID, n))
	return
}

const c12ms = time.Millisecond

// directed plans (ids 1..)
func c12ptDirected(id int) (string, []c12ptAct) {
	var p []c12ptAct
	switch id {
	case 1:
		// the seeded scenario at the manager: table 1, then a registration every 12 c12ms (validity 40 c12ms)
		// for longer than validity + grace; table 1 is asked for all along
		v := 40 * c12ms
		p = append(p, c12ptAct{at: 0, kind: 0, validity: v})
		for at, i := 12*c12ms, 0; at < v+time.Duration(c12ptGrace(int64(v)))+200*c12ms; at, i = at+12*c12ms, i+1 {
			p = append(p, c12ptAct{at: at, kind: 0, validity: v})
			if i%4 == 3 {
				p = append(p, c12ptAct{at: at + 3*c12ms, kind: 1, target: 0})
			}
		}
		return "busy host: registrations more frequent than the validity for longer than validity + grace", p
	case 2:
		// validity lowered from 2.2 s to 20 c12ms: the second table outlives its validity (known finding)
		p = append(p, c12ptAct{at: 0, kind: 0, validity: 2200 * c12ms})
		p = append(p, c12ptAct{at: 5 * c12ms, kind: 0, validity: 20 * c12ms})
		p = append(p, c12ptAct{at: 15 * c12ms, kind: 1, target: 1})
		p = append(p, c12ptAct{at: 1700 * c12ms, kind: 1, target: 1})
		p = append(p, c12ptAct{at: 2300 * c12ms, kind: 1, target: 1})
		return "validity lowered between two registrations", p
	case 3:
		// the timer goes idle between registrations and is re-armed by the next one
		for i := 0; i < 6; i++ {
			at := time.Duration(i) * 60 * c12ms
			p = append(p, c12ptAct{at: at, kind: 0, validity: 20 * c12ms})
			p = append(p, c12ptAct{at: at + 10*c12ms, kind: 1, target: i})
			p = append(p, c12ptAct{at: at + 45*c12ms, kind: 1, target: i})
		}
		return "sparse registrations: the timer is idle in between", p
	case 4:
		// bursts at one instant
		for b := 0; b < 3; b++ {
			at := time.Duration(b) * 25 * c12ms
			for i := 0; i < 20; i++ {
				p = append(p, c12ptAct{at: at, kind: 0, validity: 30 * c12ms})
			}
			p = append(p, c12ptAct{at: at + 1*c12ms, kind: 1, target: b * 20})
		}
		p = append(p, c12ptAct{at: 100 * c12ms, kind: 1, target: 59})
		return "bursts of registrations", p
	case 5:
		// a repeated UID (model only: the expiry of the first registration deletes the second one's table)
		p = append(p, c12ptAct{at: 0, kind: 0, validity: 30 * c12ms})
		p = append(p, c12ptAct{at: 5 * c12ms, kind: 0, validity: 30 * c12ms})
		p = append(p, c12ptAct{at: 15 * c12ms, kind: 0, validity: 30 * c12ms, reuse: 1})
		p = append(p, c12ptAct{at: 20 * c12ms, kind: 1, target: 2})
		p = append(p, c12ptAct{at: 33 * c12ms, kind: 1, target: 2})
		p = append(p, c12ptAct{at: 40 * c12ms, kind: 1, target: 2})
		p = append(p, c12ptAct{at: 60 * c12ms, kind: 1, target: 2})
		return "repeated UID", p
	case 6:
		// validity zero and one nanosecond: expired on registration
		p = append(p, c12ptAct{at: 0, kind: 0, validity: 0})
		p = append(p, c12ptAct{at: 5 * c12ms, kind: 1, target: 0})
		p = append(p, c12ptAct{at: 10 * c12ms, kind: 0, validity: 1})
		p = append(p, c12ptAct{at: 12 * c12ms, kind: 0, validity: 20 * c12ms})
		p = append(p, c12ptAct{at: 13 * c12ms, kind: 0, validity: 0})
		p = append(p, c12ptAct{at: 15 * c12ms, kind: 1, target: 3})
		p = append(p, c12ptAct{at: 40 * c12ms, kind: 1, target: 2})
		return "validity zero", p
	}
	return "", nil
}

const c12ptDirectedN = 6

func c12ptGenerated(id int) (string, []c12ptAct) {
	rng := verifCaseRand(id)
	v := []time.Duration{8 * c12ms, 15 * c12ms, 25 * c12ms, 40 * c12ms}[rng.Intn(4)]
	var p []c12ptAct
	nreg := 0
	reg := func(at, val time.Duration) {
		a := c12ptAct{at: at, kind: 0, validity: val}
		p = append(p, a)
		nreg++
	}
	get := func(at time.Duration) {
		if nreg == 0 {
			return
		}
		t := rng.Intn(nreg)
		switch rng.Intn(10) {
		case 0:
			t = -1
		case 1, 2:
			t = 0
		case 3, 4:
			t = nreg - 1
		}
		p = append(p, c12ptAct{at: at, kind: 1, target: t})
	}
	jitter := func(d time.Duration) time.Duration {
		if d <= 0 {
			return 0
		}
		return time.Duration(rng.Int63n(int64(d)))
	}
	class := rng.Intn(100)
	var desc string
	switch {
	case class < 8:
		desc = fmt.Sprintf("busy for longer than validity+grace, validity %v", v)
		sp := v / time.Duration(2+rng.Intn(3))
		end := v + time.Duration(c12ptGrace(int64(v))) + 150*c12ms
		for at, i := time.Duration(0), 0; at < end; at, i = at+sp+jitter(sp/4), i+1 {
			reg(at, v)
			if rng.Intn(6) == 0 {
				get(at + jitter(sp))
			}
		}
	case class < 38:
		desc = fmt.Sprintf("steady, validity %v", v)
		sp := []time.Duration{v / 4, v / 2, v, 2 * v, 3 * v}[rng.Intn(5)]
		at := time.Duration(0)
		for i, n := 0, 4+rng.Intn(16); i < n; i++ {
			reg(at, v)
			for rng.Intn(2) == 0 {
				get(at + jitter(sp))
			}
			at += sp + jitter(sp/3)
		}
		get(at + v)
	case class < 58:
		desc = fmt.Sprintf("bursts, validity %v", v)
		at := time.Duration(0)
		for b, nb := 0, 2+rng.Intn(4); b < nb; b++ {
			for i, n := 0, 1+rng.Intn(8); i < n; i++ {
				reg(at, v)
				if rng.Intn(4) == 0 {
					get(at)
				}
			}
			get(at + jitter(2*v))
			at += v/2 + jitter(3*v)
		}
	case class < 80:
		desc = fmt.Sprintf("changing validity around %v (expiries out of order)", v)
		at := time.Duration(0)
		for i, n := 0, 4+rng.Intn(14); i < n; i++ {
			val := []time.Duration{v / 4, v / 2, v, 2 * v, 4 * v, 0}[rng.Intn(6)]
			reg(at, val)
			for rng.Intn(2) == 0 {
				get(at + jitter(2*v))
			}
			at += jitter(2 * v)
		}
	case class < 92:
		desc = fmt.Sprintf("gets around the expiry, validity %v", v)
		at := time.Duration(0)
		for i, n := 0, 2+rng.Intn(5); i < n; i++ {
			reg(at, v)
			t := nreg - 1
			for _, off := range []time.Duration{v - 2*c12ms, v - c12ms/2, v, v + c12ms/2, v + 2*c12ms} {
				p = append(p, c12ptAct{at: at + off + jitter(c12ms/2), kind: 1, target: t})
			}
			at += []time.Duration{v / 3, v, 2 * v}[rng.Intn(3)]
		}
	default:
		desc = fmt.Sprintf("repeated UIDs, validity %v", v)
		at := time.Duration(0)
		for i, n := 0, 3+rng.Intn(8); i < n; i++ {
			a := c12ptAct{at: at, kind: 0, validity: v}
			if nreg > 0 && rng.Intn(3) == 0 {
				a.reuse = 1 + rng.Intn(nreg)
			}
			p = append(p, a)
			nreg++
			for rng.Intn(2) == 0 {
				get(at + jitter(v))
			}
			at += jitter(v)
		}
	}
	sort.SliceStable(p, func(i, j int) bool { return p[i].at < p[j].at })
	// a get must not precede the registration it names
	seen := 0
	for i := range p {
		if p[i].kind == 0 {
			seen++
		} else if p[i].target >= seen {
			p[i].target = seen - 1
		}
	}
	return desc, p
}

type c12ptResult struct {
	id   int
	desc string
	rec  *c12ptRec
}

func c12ptRunPlan(id int, desc string, plan []c12ptAct) (res c12ptResult) {
	pm := newPriceTableManager()
	r := newC12ptRec(pm, true)
	res = c12ptResult{id: id, desc: desc, rec: r}
	defer func() {
		if e := recover(); e != nil {
			r.monitor("price-table-manager-panics", fmt.Sprint(e))
		}
	}()
	var uids []rhp3.SettingsID
	for _, a := range plan {
		r.sleepUntil(a.at)
		switch a.kind {
		case 0:
			uid := c12ptUID(id, len(uids)+1)
			if a.reuse > 0 && a.reuse <= len(uids) {
				uid = uids[a.reuse-1]
				r.count("register:repeated-uid")
			}
			uids = append(uids, uid)
			pt := rhp3.HostPriceTable{UID: uid, Validity: a.validity, HostBlockHeight: uint64(len(r.regs) + 1),
				MaxCollateral: types.Siacoins(uint32(len(r.regs) + 1))}
			if _, err := r.register(a.validity, pt, func() (rhp3.SettingsID, error) { pm.Register(pt); return uid, nil }); err != nil {
				panic(err)
			}
		case 1:
			uid := c12ptUID(id, 0)
			if a.target >= 0 && a.target < len(uids) {
				uid = uids[a.target]
			}
			r.get(uid)
		}
	}
	r.drain()
	return
}

// ---------------------------------------------------------------- case 0: the seeded scenario through real RPCs

func c12ptFormContract(t *testing.T, cm *chain.Manager, wm *wallet.SingleAddressWallet, hostAddr string, renterKey types.PrivateKey, hostKey types.PublicKey, duration uint64) crhp2.ContractRevision {
	t.Helper()
	conn, err := net.Dial("tcp", hostAddr)
	if err != nil {
		t.Fatal("failed to dial host", err)
	}
	defer conn.Close()
	transport, err := crhp2.NewRenterTransport(conn, hostKey)
	if err != nil {
		t.Fatal("failed to create transport", err)
	}
	defer transport.Close()
	settings, err := proto2.RPCSettings(transport)
	if err != nil {
		t.Fatal("failed to get settings", err)
	}
	fc := crhp2.PrepareContractFormation(renterKey.PublicKey(), hostKey, types.Siacoins(1000), types.Siacoins(1000), cm.Tip().Height+duration, settings, wm.Address())
	formationCost := crhp2.ContractFormationCost(cm.TipState(), fc, settings.ContractPrice)
	txn := types.Transaction{FileContracts: []types.FileContract{fc}}
	toSign, err := wm.FundTransaction(&txn, formationCost, true)
	if err != nil {
		t.Fatal("failed to fund formation txn:", err)
	}
	wm.SignTransaction(&txn, toSign, wallet.ExplicitCoveredFields(txn))
	formationSet := append(cm.UnconfirmedParents(txn), txn)
	revision, _, err := proto2.RPCFormContract(transport, renterKey, formationSet)
	if err != nil {
		t.Fatal("failed to form contract:", err)
	}
	return revision
}

func c12ptHandlerCase(t *testing.T) c12ptResult {
	log := zap.NewNop()
	hostKey, renterKey := types.NewPrivateKeyFromSeed(make([]byte, 32)), types.GeneratePrivateKey()
	network, genesis := testutil.V1Network()
	node := testutil.NewHostNode(t, hostKey, network, genesis, log)
	testutil.MineAndSync(t, node, node.Wallet.Address(), int(network.MaturityDelay+5))

	l2, err := net.Listen("tcp", "localhost:0")
	if err != nil {
		t.Fatal(err)
	}
	t.Cleanup(func() { l2.Close() })
	l3, err := net.Listen("tcp", "localhost:0")
	if err != nil {
		t.Fatal(err)
	}
	t.Cleanup(func() { l3.Close() })

	const validity = 250 * time.Millisecond
	s := node.Settings.Settings()
	s.AcceptingContracts = true
	s.MaxCollateral = types.Siacoins(100000)
	s.MaxAccountBalance = types.Siacoins(100000)
	s.StoragePrice = types.NewCurrency64(1)
	s.ContractPrice = types.NewCurrency64(1)
	s.EgressPrice = types.NewCurrency64(1)
	s.IngressPrice = types.NewCurrency64(1)
	s.BaseRPCPrice = types.NewCurrency64(1)
	s.NetAddress = l3.Addr().String()
	s.PriceTableValidity = validity
	if err := node.Settings.UpdateSettings(s); err != nil {
		t.Fatal(err)
	}
	res := make(chan error)
	if _, err := node.Volumes.AddVolume(context.Background(), filepath.Join(t.TempDir(), "storage.dat"), 10, res); err != nil {
		t.Fatal(err)
	} else if err := <-res; err != nil {
		t.Fatal(err)
	}
	sh2 := hrhp2.NewSessionHandler(l2, hostKey, node.Chain, node.Syncer, node.Wallet, node.Contracts, node.Settings, node.Volumes, log)
	t.Cleanup(func() { sh2.Close() })
	go sh2.Serve()
	sh3 := NewSessionHandler(l3, hostKey, node.Chain, node.Syncer, node.Wallet, node.Accounts, node.Contracts, node.Registry, node.Volumes, node.Settings, log)
	t.Cleanup(func() { sh3.Close() })
	go sh3.Serve()

	origin := c12ptFormContract(t, node.Chain, node.Wallet, sh2.LocalAddr(), renterKey, hostKey.PublicKey(), 200)
	otherKey := types.GeneratePrivateKey()
	other := c12ptFormContract(t, node.Chain, node.Wallet, sh2.LocalAddr(), otherKey, hostKey.PublicKey(), 200)
	testutil.MineAndSync(t, node, node.Wallet.Address(), 5)

	session, err := proto3.NewSession(context.Background(), hostKey.PublicKey(), sh3.LocalAddr(), node.Chain, node.Wallet)
	if err != nil {
		t.Fatal(err)
	}
	defer session.Close()
	otherSession, err := proto3.NewSession(context.Background(), hostKey.PublicKey(), sh3.LocalAddr(), node.Chain, node.Wallet)
	if err != nil {
		t.Fatal(err)
	}
	defer otherSession.Close()

	r := newC12ptRec(sh3.priceTables, false)
	out := c12ptResult{id: 0, desc: "real RPCs: register a table, lower MaxCollateral, other renters keep registering, renew under the old table after its expiry", rec: r}

	// a price table that was sent but not paid for is not registered (a short quiet period, looking
	// for an extra event only)
	scanned, err := session.ScanPriceTable()
	if err != nil {
		t.Fatal("failed to scan price table:", err)
	}
	for start := time.Now(); time.Since(start) < 150*time.Millisecond; time.Sleep(15 * time.Millisecond) {
		if _, ok := r.get(scanned.UID); ok {
			break
		}
	}

	// the renter registers table A
	payment := proto3.ContractPayment(&origin, renterKey, rhp3.Account(renterKey.PublicKey()))
	var ptA rhp3.HostPriceTable
	regA, err := r.register(validity, rhp3.HostPriceTable{}, func() (rhp3.SettingsID, error) {
		pt, err := session.RegisterPriceTable(payment)
		ptA = pt
		return pt.UID, err
	})
	if err != nil {
		t.Fatal("failed to register price table:", err)
	} else if ptA.Validity != validity {
		t.Fatalf("expected validity %v, got %v", validity, ptA.Validity)
	}

	// the operator lowers the maximum collateral
	configuredMax := types.Siacoins(10)
	additionalCollateral := types.Siacoins(20) // fine under A, too much now
	if ptA.MaxCollateral.Cmp(additionalCollateral) < 0 {
		t.Fatal("price table A must allow the collateral")
	}
	s = node.Settings.Settings()
	s.MaxCollateral = configuredMax
	if err := node.Settings.UpdateSettings(s); err != nil {
		t.Fatal(err)
	}

	// other renters keep registering price tables until A has been expired for longer than the grace period
	otherPayment := proto3.ContractPayment(&other, otherKey, rhp3.Account(otherKey.PublicKey()))
	until := regA.expHi + c12ptGrace(int64(validity)) + int64(100*time.Millisecond)
	for i := 0; r.now() <= until; i++ {
		if _, err := r.register(validity, rhp3.HostPriceTable{}, func() (rhp3.SettingsID, error) {
			pt, err := otherSession.RegisterPriceTable(otherPayment)
			return pt.UID, err
		}); err != nil {
			t.Fatal("failed to register price table:", err)
		}
		if i%5 == 4 {
			r.get(ptA.UID)
		}
		time.Sleep(validity / 6)
	}
	_, served := r.get(ptA.UID)

	// the prices in force do not allow the collateral
	current, err := node.Settings.RHP3PriceTable()
	if err != nil {
		t.Fatal(err)
	} else if !current.MaxCollateral.Equals(configuredMax) {
		t.Fatalf("expected current max collateral %v, got %v", configuredMax, current.MaxCollateral)
	}

	// renew under A
	expiredFor := time.Duration(r.now() - regA.expHi)
	renewal, _, renewErr := session.RenewContract(&origin, node.Wallet.Address(), renterKey, types.Siacoins(10), additionalCollateral, origin.Revision.WindowEnd+10)
	if renewErr == nil {
		locked := "?"
		if c, err := node.Contracts.Contract(renewal.ID()); err == nil {
			locked = c.LockedCollateral.String()
		}
		r.monitor("renewal-accepted-under-expired-price-table", fmt.Sprintf("the host accepted a renewal under a price table that expired %v ago (table still served by the manager: %v): locked collateral %v exceeds the configured maximum %v",
			expiredFor, served, locked, configuredMax))
	} else {
		r.count("handler:renewal-under-expired-table-refused")
		if old, err := node.Contracts.Contract(origin.ID()); err != nil {
			t.Fatal(err)
		} else if old.RenewedTo != (types.FileContractID{}) {
			r.monitor("refused-renewal-was-recorded", fmt.Sprintf("contract renewed to %v although the renewal failed with %v", old.RenewedTo, renewErr))
		}
	}
	r.drain()
	return out
}

// ---------------------------------------------------------------- the test

func TestVerifC12PriceTable(t *testing.T) {
	em := newVerifEmitter(t, c12ptHeader, "case", "check")
	defer em.Close()

	n := verifN(300)
	par := verifEnvInt("VERIF_C12PT_PAR", 24)
	total := 1 + c12ptDirectedN + n
	results := make([]*c12ptResult, total)

	if !em.Skip(0) && os.Getenv("VERIF_C12PT_NO_HANDLER") == "" {
		res := c12ptHandlerCase(t)
		results[0] = &res
	}

	var wg sync.WaitGroup
	sem := make(chan struct{}, par)
	for id := 1; id < total; id++ {
		if em.Skip(id) {
			continue
		}
		var desc string
		var plan []c12ptAct
		if id <= c12ptDirectedN {
			desc, plan = c12ptDirected(id)
		} else {
			desc, plan = c12ptGenerated(id)
		}
		wg.Add(1)
		sem <- struct{}{}
		go func(id int, desc string, plan []c12ptAct) {
			defer wg.Done()
			defer func() { <-sem }()
			res := c12ptRunPlan(id, desc, plan)
			results[id] = &res
		}(id, desc, plan)
	}
	wg.Wait()

	for id, res := range results {
		if res == nil {
			continue
		}
		r := res.rec
		em.BeginCase(id, res.desc)
		for _, s := range r.steps {
			em.Step(s[0], s[1])
		}
		for _, h := range r.hits {
			em.Monitor(h.sig, h.detail)
		}
		for k, c := range r.counts {
			for i := 0; i < c; i++ {
				em.Count(k)
			}
		}
		switch {
		case id == 0:
			em.Count("case:handler-level")
		case id <= c12ptDirectedN:
			em.Count("case:directed")
		default:
			em.Count("case:" + strings.SplitN(res.desc, ",", 2)[0])
		}
		em.EndCase(r.accepts > 0)
	}
}
