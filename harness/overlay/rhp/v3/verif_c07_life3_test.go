//go:build verif

package rhp_test

// WP-L7 — C07 over a chain of contracts, RHP3.  A real host node (contract manager, account
// manager, store, chain manager with its transaction pool) behind the real RHP3 session handler:
// pay-by-contract RPCs (price table registration, fund account) on the latest contract of the
// chain — honest and built on a revision the renter held earlier —, RPCRenewContract (honest;
// with a clearing revision that moves coins to the renter / keeps the file size / has not the
// maximum number; with a renewal contract whose renter outputs differ — the host's own
// validators pass it, the pool must not —; whose host payout is below the contract price; with a
// corrupted transaction signature), then requests to the renewed predecessors (on the revision
// held before the renewal and on the clearing revision), through chains of 3-4 contracts.  Every
// decided request is a step of coq/Lifetime/Renew.v (xcase/xcheck: accepted or not, the stored
// revision of EVERY contract of the chain afterwards); independent monitors evaluate the
// property text on the stored revisions.

import (
	"context"
	"encoding/json"
	"fmt"
	"math/rand"
	"net"
	"path/filepath"
	"strings"
	"testing"

	crhp2 "go.sia.tech/core/rhp/v2"
	crhp3 "go.sia.tech/core/rhp/v3"
	"go.sia.tech/core/types"
	"go.sia.tech/hostd/v2/host/contracts"
	"go.sia.tech/hostd/v2/internal/testutil"
	proto3 "go.sia.tech/hostd/v2/internal/testutil/rhp/v3"
	"go.sia.tech/hostd/v2/rhp"
	rhp3 "go.sia.tech/hostd/v2/rhp/v3"
	"go.uber.org/zap"
)

const c07Life3Header = "From HostdBase Require Import Base.\nFrom HostdRevision Require Import Model.\nFrom HostdLifetime Require Import Life Renew.\nLocal Open Scope N_scope."

type c07L3IDs struct {
	addrs  map[types.Address]int
	hashes map[types.Hash256]int
}

func (ids *c07L3IDs) addr(a types.Address) int {
	if a == types.VoidAddress {
		return 0
	}
	if v, ok := ids.addrs[a]; ok {
		return v
	}
	v := len(ids.addrs) + 1
	ids.addrs[a] = v
	return v
}

func (ids *c07L3IDs) hash(h types.Hash256) int {
	if h == (types.Hash256{}) {
		return 0
	}
	if v, ok := ids.hashes[h]; ok {
		return v
	}
	v := len(ids.hashes) + 1
	ids.hashes[h] = v
	return v
}

func (ids *c07L3IDs) outs(os []types.SiacoinOutput) string {
	items := make([]string, len(os))
	for i, o := range os {
		items[i] = fmt.Sprintf("O %d %s", ids.addr(o.Address), o.Value.ExactString())
	}
	return "[" + strings.Join(items, "; ") + "]"
}

func (ids *c07L3IDs) term(rev types.FileContractRevision) string {
	return fmt.Sprintf("(R 0 %d %d %d %d %d %s %s %d %d)", ids.hash(types.Hash256(rev.UnlockConditions.UnlockHash())), rev.Filesize,
		ids.hash(rev.FileMerkleRoot), rev.WindowStart, rev.WindowEnd, ids.outs(rev.ValidProofOutputs), ids.outs(rev.MissedProofOutputs),
		ids.hash(types.Hash256(rev.UnlockHash)), rev.RevisionNumber)
}

func (ids *c07L3IDs) fcTerm(fc types.FileContract) string {
	return fmt.Sprintf("(R 0 0 %d %d %d %d %s %s %d %d)", fc.Filesize, ids.hash(fc.FileMerkleRoot), fc.WindowStart, fc.WindowEnd,
		ids.outs(fc.ValidProofOutputs), ids.outs(fc.MissedProofOutputs), ids.hash(types.Hash256(fc.UnlockHash)), fc.RevisionNumber)
}

type c07Life3 struct {
	t         *testing.T
	em        *verifEmitter
	rng       *rand.Rand
	node      *testutil.HostNode
	addr      string
	renterKey types.PrivateKey
	hostKey   types.PrivateKey
	require   uint64
	ids       *c07L3IDs
	sess      *proto3.Session
	account   crhp3.Account
	chain     []types.FileContractID
	renewed   map[types.FileContractID]types.FileContractRevision
	nonce     uint64
	accepted  int
}

func (w *c07Life3) stored(id types.FileContractID) types.FileContractRevision {
	c, err := w.node.Contracts.Contract(id)
	if err != nil {
		w.t.Fatal(err)
	}
	return c.Revision
}

func (w *c07Life3) contractCount() int {
	_, n, err := w.node.Store.Contracts(contracts.ContractFilter{})
	if err != nil {
		w.t.Fatal(err)
	}
	return n
}

func (w *c07Life3) view() string {
	items := make([]string, len(w.chain))
	for i, id := range w.chain {
		items[i] = w.ids.term(w.stored(id))
	}
	return "[" + strings.Join(items, ";\n      ") + "]"
}

func (w *c07Life3) snapshot() []types.FileContractRevision {
	out := make([]types.FileContractRevision, len(w.chain))
	for i, id := range w.chain {
		out[i] = w.stored(id)
	}
	return out
}

func (w *c07Life3) record(op string, accepted bool, before []types.FileContractRevision) {
	w.em.Step("XDo ("+op+")", fmt.Sprintf("Some (%v, %s)", accepted, w.view()))
	if accepted {
		w.accepted++
	}
	for i, id := range w.chain {
		if i >= len(before) {
			break
		}
		after := w.stored(id)
		if clr, ok := w.renewed[id]; ok && rhp.HashRevision(after) != rhp.HashRevision(clr) {
			w.em.Monitor("revision-signed-for-cleared-contract", fmt.Sprintf("contract %d of the chain was renewed, its stored revision changed afterwards (number %d)", i, after.RevisionNumber))
		}
		if !accepted && rhp.HashRevision(after) != rhp.HashRevision(before[i]) {
			w.em.Monitor("rejected-rpc-changed-persisted-revision", fmt.Sprintf("contract %d of the chain", i))
		}
	}
}

func c07L3Copy(r types.FileContractRevision) types.FileContractRevision {
	r.ValidProofOutputs = append([]types.SiacoinOutput(nil), r.ValidProofOutputs...)
	r.MissedProofOutputs = append([]types.SiacoinOutput(nil), r.MissedProofOutputs...)
	return r
}

func c07L3Force(cur types.FileContractRevision, num uint64, vs, ms []types.SiacoinOutput) types.FileContractRevision {
	rv := cur
	rv.RevisionNumber = num
	mk := func(old, vals []types.SiacoinOutput) []types.SiacoinOutput {
		out := make([]types.SiacoinOutput, len(vals))
		for i := range vals {
			if i < len(old) {
				out[i].Address = old[i].Address
			}
			out[i].Value = vals[i].Value
		}
		return out
	}
	rv.ValidProofOutputs, rv.MissedProofOutputs = mk(cur.ValidProofOutputs, vs), mk(cur.MissedProofOutputs, ms)
	return rv
}

// pay sends one pay-by-contract RPC for contract k built on `from` (a revision of that contract
// the renter holds): the price table registration (register) or a fund-account of `amount`
func (w *c07Life3) pay(k int, from types.FileContractRevision, amount types.Currency, register bool, what string) {
	id := w.chain[k]
	cur := w.stored(id)
	before := w.snapshot()
	_, wasRenewed := w.renewed[id]
	w.em.Count(fmt.Sprintf("pay:%s:on-renewed=%v", what, wasRenewed))
	held := crhp2.ContractRevision{Revision: c07L3Copy(from)}
	if len(held.Revision.MissedProofOutputs) < 2 || len(held.Revision.ValidProofOutputs) < 2 {
		return
	}
	pm := proto3.ContractPayment(&held, w.renterKey, w.account)
	var err error
	if register {
		_, err = w.sess.RegisterPriceTable(pm)
	} else {
		_, err = w.sess.FundAccount(w.account, pm, amount)
	}
	if held.Revision.RevisionNumber == from.RevisionNumber && len(from.ValidProofOutputs) == len(held.Revision.ValidProofOutputs) && held.Revision.ValidProofOutputs[0].Value.Equals(from.ValidProofOutputs[0].Value) {
		return // the helper could not build the payment: nothing was sent
	}
	accepted := err == nil
	w.em.Count(fmt.Sprintf("pay:accepted=%v", accepted))
	// the candidate the host builds: the renter's number and values on what it has stored
	vs := make([]types.Currency, len(held.Revision.ValidProofOutputs))
	for i, o := range held.Revision.ValidProofOutputs {
		vs[i] = o.Value
	}
	ms := make([]types.Currency, len(held.Revision.MissedProofOutputs))
	for i, o := range held.Revision.MissedProofOutputs {
		ms[i] = o.Value
	}
	cand, rerr := rhp.Revise(cur, held.Revision.RevisionNumber, vs, ms)
	if rerr != nil {
		cand = c07L3Force(cur, held.Revision.RevisionNumber, held.Revision.ValidProofOutputs, held.Revision.MissedProofOutputs)
	}
	paid := types.ZeroCurrency
	if len(cand.ValidProofOutputs) > 0 && len(cur.ValidProofOutputs) > 0 {
		if d, uf := cur.ValidProofOutputs[0].Value.SubWithUnderflow(cand.ValidProofOutputs[0].Value); !uf {
			paid = d
		}
	}
	after := w.stored(id)
	if accepted {
		if wasRenewed {
			w.em.Monitor("revision-signed-for-cleared-contract", fmt.Sprintf("pay-by-contract accepted on contract %d of the chain after it was renewed", k))
		}
		sum := func(os []types.SiacoinOutput) (s types.Currency) {
			for _, o := range os {
				s = s.Add(o.Value)
			}
			return
		}
		toHost, uf := after.ValidProofOutputs[1].Value.SubWithUnderflow(cur.ValidProofOutputs[1].Value)
		switch {
		case after.RevisionNumber <= cur.RevisionNumber:
			w.em.Monitor("accepted-revision-number-not-increased", fmt.Sprintf("stored %d, accepted %d", cur.RevisionNumber, after.RevisionNumber))
		case after.ValidProofOutputs[0].Value.Cmp(cur.ValidProofOutputs[0].Value) > 0 || after.MissedProofOutputs[0].Value.Cmp(cur.MissedProofOutputs[0].Value) > 0:
			w.em.Monitor("accepted-renter-payout-increased", "relative to the stored revision")
		case uf || !toHost.Equals(paid):
			w.em.Monitor("accepted-host-valid-payout-below-price", fmt.Sprintf("host valid payout %v -> %v, paid %v", cur.ValidProofOutputs[1].Value.ExactString(), after.ValidProofOutputs[1].Value.ExactString(), paid.ExactString()))
		case after.MissedProofOutputs[1].Value.Cmp(cur.MissedProofOutputs[1].Value) < 0:
			w.em.Monitor("accepted-host-missed-payout-burn-above-collateral", "a payment puts no collateral at risk")
		case !sum(after.ValidProofOutputs).Equals(sum(cur.ValidProofOutputs)):
			w.em.Monitor("accepted-valid-sum-changed", "")
		case !sum(after.MissedProofOutputs).Equals(sum(cur.MissedProofOutputs)):
			w.em.Monitor("accepted-missed-sum-changed", fmt.Sprintf("%v -> %v", sum(cur.MissedProofOutputs).ExactString(), sum(after.MissedProofOutputs).ExactString()))
		case after.UnlockHash != cur.UnlockHash || after.WindowStart != cur.WindowStart || after.WindowEnd != cur.WindowEnd:
			w.em.Monitor("accepted-proof-window-changed", "")
		}
		if rerr != nil || rhp.HashRevision(after) != rhp.HashRevision(cand) {
			w.em.Monitor("persisted-revision-differs-from-accepted-candidate", "")
		}
	}
	w.record(fmt.Sprintf("XRev %d (QPayment %s %s)", k, w.ids.term(cand), paid.ExactString()), accepted, before)
}

const (
	c07R3Honest = iota
	c07R3ToRenter
	c07R3KeepsFile
	c07R3NotMax
	c07R3Unequal
	c07R3HostShort
	c07R3BadSig
)

var c07R3Name = [...]string{"honest", "clearing-pays-the-renter", "clearing-keeps-file-size", "clearing-number-not-max", "renter-outputs-differ", "host-payout-below-price", "bad-transaction-signature"}

// renew runs RPCRenewContract for contract k of the chain, the renter holding `from`
func (w *c07Life3) renew(k int, from types.FileContractRevision, variant int) {
	node := w.node
	id := w.chain[k]
	cur := w.stored(id)
	before := w.snapshot()
	nBefore := w.contractCount()
	_, wasRenewed := w.renewed[id]
	w.em.Count(fmt.Sprintf("renew:%s:on-renewed=%v", c07R3Name[variant], wasRenewed))

	conn, err := net.Dial("tcp", w.addr)
	if err != nil {
		w.t.Fatal(err)
	}
	defer conn.Close()
	tr, err := crhp3.NewRenterTransport(conn, w.hostKey.PublicKey())
	if err != nil {
		w.t.Fatal(err)
	}
	defer tr.Close()
	stream := tr.DialStream()
	defer stream.Close()
	var zero crhp3.SettingsID
	var pt crhp3.HostPriceTable
	if err := stream.WriteRequest(crhp3.RPCRenewContractID, &zero); err != nil {
		w.t.Fatal(err)
	}
	var ptResp crhp3.RPCUpdatePriceTableResponse
	if err := stream.ReadResponse(&ptResp, 4096); err != nil {
		w.t.Fatal("renew: price table: ", err)
	} else if err := json.Unmarshal(ptResp.PriceTableJSON, &pt); err != nil {
		w.t.Fatal(err)
	}

	// the clearing revision (the renter builds it in RHP3)
	clr := c07L3Copy(from)
	clr.ValidProofOutputs = clr.ValidProofOutputs[:2]
	clr.MissedProofOutputs = append([]types.SiacoinOutput(nil), clr.ValidProofOutputs...)
	clr.RevisionNumber = types.MaxRevisionNumber
	clr.Filesize, clr.FileMerkleRoot = 0, types.Hash256{}
	switch variant {
	case c07R3ToRenter:
		clr.ValidProofOutputs[0].Value = clr.ValidProofOutputs[0].Value.Add(types.NewCurrency64(5))
		clr.ValidProofOutputs[1].Value = clr.ValidProofOutputs[1].Value.Sub(types.NewCurrency64(5))
		clr.MissedProofOutputs = append([]types.SiacoinOutput(nil), clr.ValidProofOutputs...)
	case c07R3KeepsFile:
		clr.Filesize = from.Filesize + crhp2.SectorSize*uint64(1-w.rng.Intn(2)) // the file size kept, or one sector
		if clr.Filesize == 0 {
			clr.Filesize = crhp2.SectorSize
		}
	case c07R3NotMax:
		clr.RevisionNumber = from.RevisionNumber + 1
	}
	// the renewal contract: core's RHP2 helper with the price table's prices; RenewContractCost is
	// part of the base price in RHP3 (goes to the void when the host misses the proof)
	ext := uint64(w.rng.Intn(8))
	endHeight := from.WindowEnd - pt.WindowSize + ext
	w.nonce++
	renterPayout := types.Siacoins(uint32(5 + w.rng.Intn(5))).Add(types.NewCurrency64(w.nonce))
	newColl := types.Siacoins(uint32(w.rng.Intn(3))).Add(types.NewCurrency64(uint64(w.rng.Intn(1000))))
	hs := crhp2.HostSettings{ContractPrice: pt.ContractPrice, StoragePrice: pt.WriteStoreCost, Collateral: pt.CollateralCost, WindowSize: pt.WindowSize, Address: node.Wallet.Address()}
	sizeSrc := from
	fc, basePrice := crhp2.PrepareContractRenewal(sizeSrc, node.Wallet.Address(), renterPayout, newColl.Add(pt.RenewContractCost), hs, endHeight)
	basePrice = basePrice.Add(pt.RenewContractCost)
	fc.MissedProofOutputs[1].Value = fc.MissedProofOutputs[1].Value.Sub(pt.RenewContractCost)
	fc.MissedProofOutputs[2].Value = fc.MissedProofOutputs[2].Value.Add(pt.RenewContractCost)
	uc := types.UnlockConditions{PublicKeys: []types.UnlockKey{w.renterKey.PublicKey().UnlockKey(), w.hostKey.PublicKey().UnlockKey()}, SignaturesRequired: 2}
	fc.UnlockHash = uc.UnlockHash()
	switch variant {
	case c07R3Unequal:
		fc.MissedProofOutputs[0].Value = fc.MissedProofOutputs[0].Value.Sub(types.NewCurrency64(1000))
	case c07R3HostShort:
		fc.ValidProofOutputs[1].Value = pt.ContractPrice.Add(pt.RenewContractCost).Sub(types.NewCurrency64(1))
		fc.MissedProofOutputs[1].Value = fc.ValidProofOutputs[1].Value
		fc.MissedProofOutputs[2].Value = types.ZeroCurrency
	}
	txnFee := types.Siacoins(1)
	txn := types.Transaction{MinerFees: []types.Currency{txnFee}, FileContractRevisions: []types.FileContractRevision{clr}, FileContracts: []types.FileContract{fc}}
	renterCost := crhp2.ContractRenewalCost(node.Chain.TipState(), fc, pt.ContractPrice, txnFee, basePrice)
	toSign, err := node.Wallet.FundTransaction(&txn, renterCost, true)
	if err != nil {
		w.t.Fatal(err)
	}
	release := func() { node.Wallet.ReleaseInputs([]types.Transaction{txn}, nil) }

	// hashFinalRevision of rhp/v3
	hh := types.NewHasher()
	fc.EncodeTo(hh.E)
	clr.EncodeTo(hh.E)
	clearingSigHash := hh.Sum()
	var initRev types.FileContractRevision
	rerr := func() error {
		req := &crhp3.RPCRenewContractRequest{TransactionSet: []types.Transaction{txn}, RenterKey: w.renterKey.PublicKey().UnlockKey(), FinalRevisionSignature: w.renterKey.SignHash(clearingSigHash)}
		if err := stream.WriteResponse(req); err != nil {
			return err
		}
		var add crhp3.RPCRenewContractHostAdditions
		if err := stream.ReadResponse(&add, 4096); err != nil {
			return err
		}
		txn.SiacoinInputs = append(txn.SiacoinInputs, add.SiacoinInputs...)
		txn.SiacoinOutputs = append(txn.SiacoinOutputs, add.SiacoinOutputs...)
		node.Wallet.SignTransaction(&txn, toSign, types.CoveredFields{WholeTransaction: true})
		if variant == c07R3BadSig {
			sig := append([]byte(nil), txn.Signatures[0].Signature...)
			sig[9] ^= 0x10
			txn.Signatures[0].Signature = sig
		}
		initRev = rhp.InitialRevision(txn, w.hostKey.PublicKey().UnlockKey(), w.renterKey.PublicKey().UnlockKey())
		sig := w.renterKey.SignHash(rhp.HashRevision(initRev))
		sigs := &crhp3.RPCRenewSignatures{TransactionSignatures: txn.Signatures,
			RevisionSignature: types.TransactionSignature{ParentID: types.Hash256(initRev.ParentID), PublicKeyIndex: 0, CoveredFields: types.CoveredFields{FileContractRevisions: []uint64{0}}, Signature: sig[:]}}
		if err := stream.WriteResponse(sigs); err != nil {
			return err
		}
		var hostSigs crhp3.RPCRenewSignatures
		return stream.ReadResponse(&hostSigs, 4096)
	}()
	accepted := rerr == nil
	if !accepted {
		release()
		if variant == c07R3Unequal || variant == c07R3BadSig {
			w.em.Count(fmt.Sprintf("renew:%s:refused-by-pool=%v", c07R3Name[variant], strings.Contains(rerr.Error(), "broadcast renewal transaction")))
		}
	}
	w.em.Count(fmt.Sprintf("renew:accepted=%v", accepted))

	uhexp := w.ids.hash(types.Hash256(uc.UnlockHash()))
	tail := variant != c07R3BadSig
	op := fmt.Sprintf("XRenew %d (mkRnw (Renew3 true %s %s %d %d %d (FM.PT %d %d %d %s %s %s %s %s)) 0 %d %v)", k, w.ids.term(clr), w.ids.fcTerm(fc), uhexp,
		w.ids.addr(node.Wallet.Address()), w.require, pt.HostBlockHeight, pt.WindowSize, pt.MaxDuration, pt.ContractPrice.ExactString(), pt.MaxCollateral.ExactString(),
		pt.RenewContractCost.ExactString(), pt.WriteStoreCost.ExactString(), pt.CollateralCost.ExactString(), uhexp, tail)
	if accepted {
		newID := initRev.ParentID
		if wasRenewed {
			w.em.Monitor("revision-signed-for-cleared-contract", fmt.Sprintf("contract %d of the chain renewed a second time", k))
		}
		if variant != c07R3Honest {
			w.em.Monitor("successor-initial-revision-not-from-validated-renewal", fmt.Sprintf("a renewal with %s was accepted", c07R3Name[variant]))
		}
		st := w.stored(id)
		same := func(a, b []types.SiacoinOutput) bool {
			if len(a) != len(b) {
				return false
			}
			for i := range a {
				if a[i] != b[i] {
					return false
				}
			}
			return true
		}
		toHost, uf := st.ValidProofOutputs[1].Value.SubWithUnderflow(cur.ValidProofOutputs[1].Value)
		fromRenter, uf2 := cur.ValidProofOutputs[0].Value.SubWithUnderflow(st.ValidProofOutputs[0].Value)
		switch {
		case st.Filesize != 0 || st.FileMerkleRoot != (types.Hash256{}):
			w.em.Monitor("clearing-revision-not-clearing", "file not zeroed")
		case st.RevisionNumber != types.MaxRevisionNumber:
			w.em.Monitor("clearing-revision-not-clearing", fmt.Sprintf("revision number %d", st.RevisionNumber))
		case !same(st.MissedProofOutputs, st.ValidProofOutputs):
			w.em.Monitor("clearing-revision-not-clearing", "missed outputs differ from valid outputs")
		case st.UnlockHash != cur.UnlockHash || st.UnlockConditions.UnlockHash() != cur.UnlockConditions.UnlockHash() || st.WindowStart != cur.WindowStart || st.WindowEnd != cur.WindowEnd || st.ParentID != cur.ParentID:
			w.em.Monitor("clearing-revision-not-clearing", "unlock hash, unlock conditions, window or id changed")
		case len(st.ValidProofOutputs) != 2 || st.ValidProofOutputs[0].Address != cur.ValidProofOutputs[0].Address || st.ValidProofOutputs[1].Address != cur.ValidProofOutputs[1].Address:
			w.em.Monitor("clearing-revision-not-clearing", "output addresses changed")
		case uf || uf2 || !toHost.Equals(fromRenter):
			w.em.Monitor("clearing-revision-not-clearing", fmt.Sprintf("host gains %v, renter gives %v", toHost.ExactString(), fromRenter.ExactString()))
		}
		succ := w.stored(newID)
		vsum, msum := types.ZeroCurrency, types.ZeroCurrency
		for _, o := range succ.ValidProofOutputs {
			vsum = vsum.Add(o.Value)
		}
		for _, o := range succ.MissedProofOutputs {
			msum = msum.Add(o.Value)
		}
		switch {
		case rhp.HashRevision(succ) != rhp.HashRevision(initRev) || succ.ParentID != newID || succ.UnlockConditions.UnlockHash() != uc.UnlockHash():
			w.em.Monitor("successor-initial-revision-not-from-validated-renewal", "stored initial revision is not InitialRevision of the renewal transaction")
		case succ.RevisionNumber != 1 || !same(succ.ValidProofOutputs, fc.ValidProofOutputs) || !same(succ.MissedProofOutputs, fc.MissedProofOutputs):
			w.em.Monitor("successor-initial-revision-not-from-validated-renewal", "number or outputs differ from the renewal contract")
		case succ.Filesize != cur.Filesize || succ.FileMerkleRoot != cur.FileMerkleRoot:
			w.em.Monitor("successor-initial-revision-not-from-validated-renewal", "file size or root differ from the predecessor's")
		case len(succ.ValidProofOutputs) != 2 || len(succ.MissedProofOutputs) != 3 || !vsum.Equals(msum):
			w.em.Monitor("successor-initial-revision-not-from-validated-renewal", fmt.Sprintf("not well formed: %d/%d outputs, sums %v / %v", len(succ.ValidProofOutputs), len(succ.MissedProofOutputs), vsum.ExactString(), msum.ExactString()))
		case succ.ValidProofOutputs[1].Address != node.Wallet.Address() || succ.MissedProofOutputs[1].Address != node.Wallet.Address() || succ.MissedProofOutputs[2].Address != types.VoidAddress:
			w.em.Monitor("successor-initial-revision-not-from-validated-renewal", "host or void address")
		case !succ.MissedProofOutputs[1].Value.Add(succ.MissedProofOutputs[2].Value).Equals(succ.ValidProofOutputs[1].Value):
			w.em.Monitor("successor-initial-revision-not-from-validated-renewal", "host valid payout differs from host missed payout + void")
		}
		w.renewed[id] = st
		w.chain = append(w.chain, newID)
	} else {
		if variant == c07R3Honest && !wasRenewed {
			w.em.Monitor("honest-renewal-refused", rerr.Error())
		}
		if n := w.contractCount(); n != nBefore {
			w.em.Monitor("refused-renewal-created-contract", fmt.Sprintf("%s: %d contracts before, %d after", c07R3Name[variant], nBefore, n))
		}
	}
	w.record(op, accepted, before)
	if accepted {
		testutil.MineAndSync(w.t, node, node.Wallet.Address(), 1)
	}
}

func TestVerifC07Life3(t *testing.T) {
	em := newVerifEmitter(t, c07Life3Header, "xcase", "xcheck")
	defer em.Close()
	n := verifN(3)
	log := zap.NewNop()
	hostKey := types.GeneratePrivateKey()
	network, genesis := testutil.V1Network()
	network.HardforkV2.AllowHeight = 1 << 30
	network.HardforkV2.RequireHeight = 1<<30 + 1000
	node := testutil.NewHostNode(t, hostKey, network, genesis, log)
	testutil.MineAndSync(t, node, node.Wallet.Address(), int(network.MaturityDelay+20))
	s := node.Settings.Settings()
	s.AcceptingContracts = true
	s.NetAddress = "localhost:9983"
	s.MaxCollateral = types.Siacoins(1000)
	s.MaxAccountBalance = types.Siacoins(100)
	if err := node.Settings.UpdateSettings(s); err != nil {
		t.Fatal(err)
	}
	res := make(chan error)
	if _, err := node.Volumes.AddVolume(context.Background(), filepath.Join(t.TempDir(), "storage.dat"), 32, res); err != nil {
		t.Fatal(err)
	} else if err := <-res; err != nil {
		t.Fatal(err)
	}
	l3, err := net.Listen("tcp", "localhost:0")
	if err != nil {
		t.Fatal(err)
	}
	defer l3.Close()
	sh3 := rhp3.NewSessionHandler(l3, hostKey, node.Chain, node.Syncer, node.Wallet, node.Accounts, node.Contracts, node.Registry, node.Volumes, node.Settings, log)
	defer sh3.Close()
	go sh3.Serve()

	for id := 0; id < n; id++ {
		if em.Skip(id) {
			continue
		}
		rng := verifCaseRand(id)
		w := &c07Life3{t: t, em: em, rng: rng, node: node, addr: sh3.LocalAddr(), hostKey: hostKey, renterKey: types.GeneratePrivateKey(),
			require: network.HardforkV2.RequireHeight, ids: &c07L3IDs{addrs: map[types.Address]int{}, hashes: map[types.Hash256]int{}},
			renewed: map[types.FileContractID]types.FileContractRevision{}}
		w.account = crhp3.Account(w.renterKey.PublicKey())
		// the first contract of the chain is formed through the manager (formation is C12's)
		rev := c07L3Form(t, node, w.renterKey, hostKey, types.Siacoins(uint32(20+rng.Intn(10))), types.Siacoins(uint32(10+rng.Intn(10))), node.Chain.Tip().Height+120+uint64(rng.Intn(20)))
		w.chain = []types.FileContractID{rev.ParentID}
		sess, err := proto3.NewSession(context.Background(), hostKey.PublicKey(), sh3.LocalAddr(), node.Chain, node.Wallet)
		if err != nil {
			t.Fatal(err)
		}
		w.sess = sess
		// set-up (not recorded): a registered price table and one sector in the contract, so that
		// renewals carry data, base storage revenue and base collateral
		{
			held := crhp2.ContractRevision{Revision: c07L3Copy(w.stored(rev.ParentID))}
			pm := proto3.ContractPayment(&held, w.renterKey, w.account)
			pt, err := sess.RegisterPriceTable(pm)
			if err != nil {
				t.Fatal("set-up: price table: ", err)
			}
			cost, _ := pt.BaseCost().Add(pt.AppendSectorCost(held.Revision.WindowEnd - node.Chain.Tip().Height)).Total()
			var sector [crhp2.SectorSize]byte
			sector[0], sector[1], sector[2] = 0x4c, 0x37, 0x7c // one sector for all cases: the volume stores it once
			if _, err := sess.AppendSector(&sector, &held, w.renterKey, pm, cost); err != nil {
				t.Fatal("set-up: append: ", err)
			}
		}

		em.BeginCase(id, "rhp3 through renewals: pay by contract, renew (honest and hostile), pay from the successor, pay from and renew the predecessors")
		em.Step("XStart "+w.ids.term(w.stored(rev.ParentID)), "Some (true, "+w.view()+")")
		w.pay(0, w.stored(w.chain[0]), types.ZeroCurrency, true, "register-price-table")
		gens := 2 + rng.Intn(2)
		if id == 0 {
			gens = 3
		}
		for g := 0; g < gens; g++ {
			k := len(w.chain) - 1
			first := w.stored(w.chain[k])
			w.pay(k, w.stored(w.chain[k]), types.NewCurrency64(uint64(1+rng.Intn(1000000))), false, "honest")
			if id == 0 || rng.Intn(2) == 0 {
				w.pay(k, first, types.NewCurrency64(uint64(1+rng.Intn(1000))), false, "stale")
			}
			if rng.Intn(2) == 0 {
				w.pay(k, w.stored(w.chain[k]), types.Siacoins(1).Div64(uint64(1+rng.Intn(50))), false, "honest")
			}
			var hostile []int
			if id == 0 {
				hostile = [][]int{{c07R3ToRenter, c07R3Unequal}, {c07R3KeepsFile, c07R3BadSig, c07R3NotMax}, {c07R3HostShort, c07R3Unequal}}[g%3]
			} else if rng.Intn(3) > 0 {
				hostile = []int{1 + rng.Intn(6)}
			}
			for _, v := range hostile {
				w.renew(k, w.stored(w.chain[k]), v)
			}
			if len(hostile) > 0 {
				w.pay(k, w.stored(w.chain[k]), types.NewCurrency64(uint64(1+rng.Intn(1000))), false, "honest")
			}
			held := w.stored(w.chain[k])
			w.renew(k, held, c07R3Honest)
			if len(w.chain) != k+2 {
				break
			}
			// the predecessors: on the revision held before the renewal, on the clearing revision
			for j := 0; j <= k; j++ {
				if j == k || rng.Intn(2) == 0 {
					if (g+j+id)%2 == 0 {
						w.pay(j, held, types.NewCurrency64(7), false, "predecessor-held-revision")
					} else {
						w.pay(j, w.stored(w.chain[j]), types.NewCurrency64(7), false, "predecessor-clearing-revision")
					}
				}
			}
			if id == 0 || rng.Intn(2) == 0 {
				w.renew(rng.Intn(k+1), held, c07R3Honest)
			}
		}
		w.pay(len(w.chain)-1, w.stored(w.chain[len(w.chain)-1]), types.NewCurrency64(11), false, "honest")
		em.Count(fmt.Sprintf("chain-length:%d", len(w.chain)))
		em.EndCase(w.accepted > 0)
		sess.Close()
	}
}

// c07L3Form: a contract as rpcFormContract would store it (contracts.Manager.AddContract with the
// formation transaction in the pool), confirmed
func c07L3Form(t *testing.T, node *testutil.HostNode, renterKey, hostKey types.PrivateKey, renterFunds, hostCollateral types.Currency, windowStart uint64) types.FileContractRevision {
	t.Helper()
	settings, err := node.Settings.RHP2Settings()
	if err != nil {
		t.Fatal(err)
	}
	fc := crhp2.PrepareContractFormation(renterKey.PublicKey(), hostKey.PublicKey(), renterFunds, hostCollateral, windowStart, settings, node.Wallet.Address())
	cost := crhp2.ContractFormationCost(node.Chain.TipState(), fc, settings.ContractPrice)
	txn := types.Transaction{FileContracts: []types.FileContract{fc}}
	toSign, err := node.Wallet.FundTransaction(&txn, cost.Add(hostCollateral), true)
	if err != nil {
		t.Fatal(err)
	}
	node.Wallet.SignTransaction(&txn, toSign, types.CoveredFields{WholeTransaction: true})
	set := append(node.Chain.UnconfirmedParents(txn), txn)
	if _, err := node.Chain.AddPoolTransactions(set); err != nil {
		t.Fatal(err)
	}
	init := rhp.InitialRevision(txn, hostKey.PublicKey().UnlockKey(), renterKey.PublicKey().UnlockKey())
	h := rhp.HashRevision(init)
	signed := contracts.SignedRevision{Revision: init, HostSignature: hostKey.SignHash(h), RenterSignature: renterKey.SignHash(h)}
	if err := node.Contracts.AddContract(signed, set, hostCollateral, contracts.Usage{}); err != nil {
		t.Fatal(err)
	}
	testutil.MineAndSync(t, node, types.VoidAddress, 1)
	return init
}
