//go:build verif

package rhp_test

// WP-Q7 — hostile program finalisation (C07).
//
// validate_program is proved sound for the (storage, collateral) figures it is GIVEN; which figures
// programExecutor.commit hands to it is decided in rhp/v3/execute.go, and an honest renter only ever
// sends the one finalisation that burns exactly storage + collateral.  This harness runs honest
// RHP3 programs against a real host node
//
//     append 1-3 sectors (AppendSector / AppendSectorRoot) | update a sector | swap + trim |
//     store a temporary sector + swap (StoreSector alone needs no finalisation)
//
// paid from an ephemeral account, and then plays the hostile renter: a hand-built
// RPCFinalizeProgramRequest whose missed-output burn is exact / 0 / +1 / the program's price +
// collateral (what ResourceCost.Total() would allow) / that plus the whole price once more / all
// of the host's missed payout, or whose valid / renter outputs are moved about, or whose number does
// not increase.  One program is executed per finalisation (a refused finalisation ends the RPC).
//
// Monitors (independent of the model; maxburn = sum of Storage + Collateral of the instructions'
// costs, computed with core's price functions from the price table and the instructions alone):
//
//   accepted-finalisation-burns-more-than-storage-plus-collateral
//   accepted-finalisation-violates-c07-conjunction     number / valid payouts / renter missed payout / sums / shape
//   refused-finalisation-changed-the-stored-revision
//
// Every finalisation the host decided is recorded as a run of coq/Lifetime: the stored revision,
// the request QProgram (Revise(stored, renter's number and values)) storage collateral -> decision
// and stored revision afterwards (lcase / lcheck of Conc.v, i.e. validate_program through life).

import (
	"encoding/binary"
	"fmt"
	"strings"
	"testing"
	"time"

	crhp2 "go.sia.tech/core/rhp/v2"
	crhp3 "go.sia.tech/core/rhp/v3"
	"go.sia.tech/core/types"
	"go.sia.tech/hostd/v2/rhp"
)

type finInstr struct {
	instr crhp3.Instruction
	cost  crhp3.ResourceCost
	name  string
}

type finCase struct {
	*c10Case
	t       *testing.T
	out     *verifEmitter
	in, obs []string
	decided int
	accepted int
	monitored map[string]bool
}

func (c *finCase) monitor(sig, detail string) {
	if c.monitored[sig] {
		return
	}
	c.monitored[sig] = true
	c.out.Monitor(sig, detail)
}

func (c *finCase) setup() {
	h := c.h
	s := h.node.Settings.Settings()
	pick := func(vals ...uint64) types.Currency { return types.NewCurrency64(vals[c.rng.Intn(len(vals))]) }
	s.AcceptingContracts = true
	s.NetAddress = h.rhp3Addr
	s.MaxCollateral = types.Siacoins(1000)
	s.MaxAccountBalance = types.Siacoins(100)
	s.ContractPrice = pick(1, 1000, 200000000000000000)
	s.BaseRPCPrice = pick(1, 7, 1000000000000)
	s.SectorAccessPrice = pick(1, 13, 1000000000000)
	s.StoragePrice = pick(1, 3, 50000)
	s.IngressPrice = pick(1, 5, 10000)
	s.EgressPrice = pick(1, 11, 500000)
	s.CollateralMultiplier = []float64{1, 2, 2.5}[c.rng.Intn(3)]
	s.MaxRegistryEntries = 1 << 30
	if err := h.node.Settings.UpdateSettings(s); err != nil {
		c.t.Fatal(err)
	}
	c.accts = append(c.accts, types.NewPrivateKeyFromSeed(frandBytes(c.rng, 32)))
	c.regRev = map[int]uint64{}
	c.form2(types.Siacoins(uint32(40+c.rng.Intn(20))), types.Siacoins(uint32(5+c.rng.Intn(10))).Add(types.NewCurrency64(uint64(c.rng.Intn(1000)))), 0)
	if len(c.cons) != 1 {
		c.t.Fatal("formation failed")
	}
	p := c.rhp3Prop(c.contract(0).Revision, types.NewCurrency64(1000), 0)
	c.simple3(0, &c10Pay{byContract: true, con: 0, acct: 0, prop: p})
	if !c.hasPT {
		c.t.Fatal("price table registration failed")
	}
	five := types.Siacoins(5)
	c.forceFund = &five
	c.fund3(0, 0, 0)
	c.forceFund = nil
}

// the honest programs
func (c *finCase) program(which int, sectors uint64, remaining uint64) (prog []finInstr, data []byte, name string) {
	pt := c.pt
	put := func(b []byte) uint64 {
		off := uint64(len(data))
		data = append(data, b...)
		return off
	}
	u64 := func(v uint64) []byte {
		b := make([]byte, 8)
		binary.LittleEndian.PutUint64(b, v)
		return b
	}
	appendRoot := func() {
		root := c.h.roots[c.rng.Intn(len(c.h.roots))]
		prog = append(prog, finInstr{&crhp3.InstrAppendSectorRoot{MerkleRootOffset: put(root[:]), ProofRequired: false}, pt.AppendSectorRootCost(remaining), "appendroot"})
	}
	appendData := func() {
		s := &c.h.sectors[c.rng.Intn(len(c.h.sectors))]
		prog = append(prog, finInstr{&crhp3.InstrAppendSector{SectorDataOffset: put(s[:]), ProofRequired: false}, pt.AppendSectorCost(remaining), "append"})
	}
	switch {
	case which == 1 && sectors >= 1:
		name = "update"
		length := uint64(64 * (1 + c.rng.Intn(8)))
		patch := make([]byte, length)
		for i := range patch {
			patch[i] = byte(c.rng.Intn(4)) // few distinct sectors
		}
		prog = append(prog, finInstr{&crhp3.InstrUpdateSector{Offset: uint64(c.rng.Intn(int(sectors))) * crhp2.SectorSize, Length: length, DataOffset: put(patch), ProofRequired: false}, pt.UpdateSectorCost(length), "update"})
	case which == 2 && sectors >= 2:
		name = "swap+trim"
		prog = append(prog, finInstr{&crhp3.InstrSwapSector{Sector1Offset: put(u64(0)), Sector2Offset: put(u64(sectors - 1)), ProofRequired: false}, pt.SwapSectorCost(), "swap"})
		prog = append(prog, finInstr{&crhp3.InstrDropSectors{SectorCountOffset: put(u64(1)), ProofRequired: false}, pt.DropSectorsCost(1), "drop"})
	case which == 3 && sectors >= 2:
		name = "store+swap"
		s := &c.h.sectors[c.rng.Intn(len(c.h.sectors))]
		dur := uint64(1 + c.rng.Intn(10))
		prog = append(prog, finInstr{&crhp3.InstrStoreSector{DataOffset: put(s[:]), Duration: dur}, pt.StoreSectorCost(dur), "store"})
		prog = append(prog, finInstr{&crhp3.InstrSwapSector{Sector1Offset: put(u64(0)), Sector2Offset: put(u64(1)), ProofRequired: false}, pt.SwapSectorCost(), "swap"})
	default:
		n := 1 + c.rng.Intn(3)
		name = fmt.Sprintf("append%d", n)
		withData := c.rng.Intn(n) // one of them carries the sector itself
		for k := 0; k < n; k++ {
			if k == withData && which != 4 {
				appendData()
			} else {
				appendRoot()
			}
		}
	}
	return
}

const (
	fvExact = iota
	fvZero
	fvPlusOne
	fvTotal       // price of the instructions + collateral: what Total() would allow
	fvTotalPlus   // that + the whole price of the program once more
	fvAll         // all of the host's missed payout
	fvRenterMissedToVoid
	fvRenterValidToHost
	fvHostValidToRenter
	fvSameNumber
	fvLaterNumber // exact burn, number + 2
	fvHostMissedUp
	fvHalf
	finVariants
)

var finVariantName = [...]string{"exact", "zero", "exact+1", "price+collateral", "price+collateral+program-price", "all-of-host-missed", "renter-missed-to-void",
	"renter-valid-to-host", "host-valid-to-renter", "same-number", "number+2", "host-missed-up", "half"}

// one program + one finalisation
func (c *finCase) round(which, variant int) {
	ct := c.cons[0]
	cur := c.contract(0).Revision
	pt := c.pt
	if cur.WindowEnd <= pt.HostBlockHeight {
		return
	}
	remaining := cur.WindowEnd - pt.HostBlockHeight
	prog, data, pname := c.program(which, cur.Filesize/crhp2.SectorSize, remaining)
	// what the program may burn and what it costs: from the price table and the instructions alone
	var sumS, sumC, price types.Currency
	var instrs []crhp3.Instruction
	for _, in := range prog {
		sumS, sumC = sumS.Add(in.cost.Storage), sumC.Add(in.cost.Collateral)
		t, _ := in.cost.Total()
		price = price.Add(t)
		instrs = append(instrs, in.instr)
	}
	maxburn := sumS.Add(sumC)
	c.out.Count("program:" + pname)
	c.out.Count("variant:" + finVariantName[variant])

	tr := c.dial3()
	defer tr.Close()
	s := tr.DialStream()
	defer s.Close()
	s.SetDeadline(time.Now().Add(60 * time.Second))
	k := c.accts[0]
	payAmt := pt.InitBaseCost.Add(price).Add(types.NewCurrency64(1000))
	pay := crhp3.PayByEphemeralAccount(crhp3.Account(k.PublicKey()), payAmt, pt.HostBlockHeight+6, k)
	req := crhp3.RPCExecuteProgramRequest{FileContractID: ct.id, Program: instrs, ProgramData: data}
	err := s.WriteRequest(crhp3.RPCExecuteProgramID, &pt.UID)
	if err == nil {
		err = s.WriteResponse(&crhp3.PaymentTypeEphemeralAccount)
	}
	if err == nil {
		err = s.WriteResponse(&pay)
	}
	if err == nil {
		err = s.WriteResponse(&req)
	}
	if err == nil {
		var cancel types.Specifier
		err = s.ReadResponse(&cancel, 4096)
	}
	var last crhp3.RPCExecuteProgramResponse
	if err == nil {
		for range prog {
			var resp crhp3.RPCExecuteProgramResponse
			if err = s.ReadResponse(&resp, 8<<20); err != nil {
				break
			} else if resp.Error != nil {
				err = resp.Error
				break
			}
			last = resp
		}
	}
	if err != nil {
		msg := err.Error()
		if len(msg) > 50 {
			msg = msg[:50]
		}
		c.out.Count("program-failed:" + pname + ":" + msg)
		c.finish3(s, tr)
		return
	}

	// the hostile finalisation
	r := c10RevOf(cur)
	one := types.NewCurrency64(1)
	exact := c10Min(maxburn, r.mh)
	p := c10Prop{rn: r.rn + 1, vr: r.vr, vh: r.vh, mr: r.mr, mh: r.mh, mv: r.mv}
	burn := func(b types.Currency) {
		b = c10Min(b, r.mh)
		p.mh, p.mv = r.mh.Sub(b), r.mv.Add(b)
	}
	x := maxburn
	if x.IsZero() {
		x = one
	}
	switch variant {
	case fvExact:
		burn(exact)
	case fvZero:
	case fvHalf:
		burn(exact.Div64(2))
	case fvPlusOne:
		burn(maxburn.Add(one))
	case fvTotal:
		burn(price.Add(sumC))
	case fvTotalPlus:
		burn(price.Add(sumC).Add(price).Add(pt.InitBaseCost))
	case fvAll:
		burn(r.mh)
	case fvRenterMissedToVoid:
		burn(exact)
		y := c10Min(x, r.mr)
		p.mr, p.mv = r.mr.Sub(y), p.mv.Add(y)
	case fvRenterValidToHost:
		burn(exact)
		y := c10Min(x, r.vr)
		p.vr, p.vh = r.vr.Sub(y), r.vh.Add(y)
	case fvHostValidToRenter:
		burn(exact)
		y := c10Min(x, r.vh)
		p.vr, p.vh = r.vr.Add(y), r.vh.Sub(y)
	case fvSameNumber:
		burn(exact)
		p.rn = r.rn
	case fvLaterNumber:
		burn(exact)
		p.rn = r.rn + 2
	case fvHostMissedUp:
		y := c10Min(x, r.mv)
		p.mh, p.mv = r.mh.Add(y), r.mv.Sub(y)
	}
	nr := p.apply(cur)
	nr.Filesize, nr.FileMerkleRoot = last.NewSize, last.NewMerkleRoot
	freq := crhp3.RPCFinalizeProgramRequest{Signature: ct.key.SignHash(c10Hash(nr)), RevisionNumber: p.rn, ValidProofValues: p.valid(), MissedProofValues: p.missed()}
	var fresp crhp3.RPCFinalizeProgramResponse
	ferr := s.WriteResponse(&freq)
	if ferr == nil {
		ferr = s.ReadResponse(&fresp, 4096)
	}
	c.finish3(s, tr)
	after := c.contract(0).Revision
	accepted := ferr == nil
	if accepted && !c.h.hostKey.PublicKey().VerifyHash(c10Hash(nr), fresp.Signature) {
		c.out.Count("finalize:signature-does-not-verify")
	}
	c.decided++
	c.out.Count(fmt.Sprintf("finalize:%s:accepted=%v", finVariantName[variant], accepted))
	desc := fmt.Sprintf("program %s (instructions' price %s, storage %s, collateral %s, init %s), finalisation %q: number %d valid %v missed %v on stored #%d valid %s missed %s -> %v; stored afterwards #%d valid %s missed %s",
		pname, price, sumS, sumC, pt.InitBaseCost, finVariantName[variant], p.rn, p.valid(), p.missed(), cur.RevisionNumber, concVals(cur.ValidProofOutputs), concVals(cur.MissedProofOutputs),
		ferr, after.RevisionNumber, concVals(after.ValidProofOutputs), concVals(after.MissedProofOutputs))

	changed := c10Hash(after) != c10Hash(cur)
	if !accepted && changed {
		c.monitor("refused-finalisation-changed-the-stored-revision", desc)
	}
	if accepted {
		c.accepted++
		a := c10RevOf(after)
		// the burn
		if a.mh.Add(maxburn).Cmp(r.mh) < 0 {
			c.monitor("accepted-finalisation-burns-more-than-storage-plus-collateral",
				fmt.Sprintf("the host's missed payout dropped by %s, storage + collateral of the executed instructions is %s; %s", r.mh.Sub(a.mh), maxburn, desc))
		}
		// the rest of the conjunction
		var why []string
		if after.RevisionNumber <= cur.RevisionNumber {
			why = append(why, "revision number did not increase")
		}
		if after.UnlockHash != cur.UnlockHash || after.UnlockConditions.UnlockHash() != cur.UnlockConditions.UnlockHash() || after.WindowStart != cur.WindowStart || after.WindowEnd != cur.WindowEnd {
			why = append(why, "unlock hash / conditions / window changed")
		}
		if len(after.ValidProofOutputs) != len(cur.ValidProofOutputs) || len(after.MissedProofOutputs) != len(cur.MissedProofOutputs) {
			why = append(why, "number of outputs changed")
		} else {
			for i := range after.ValidProofOutputs {
				if after.ValidProofOutputs[i].Address != cur.ValidProofOutputs[i].Address {
					why = append(why, "valid output address changed")
				}
			}
			for i := range after.MissedProofOutputs {
				if after.MissedProofOutputs[i].Address != cur.MissedProofOutputs[i].Address {
					why = append(why, "missed output address changed")
				}
			}
		}
		if a.vr.Add(a.vh) != r.vr.Add(r.vh) || a.mr.Add(a.mh).Add(a.mv) != r.mr.Add(r.mh).Add(r.mv) {
			why = append(why, "payout sums changed")
		}
		if a.vr.Cmp(r.vr) > 0 || a.mr.Cmp(r.mr) > 0 {
			why = append(why, "a renter payout increased")
		}
		if a.vh.Cmp(r.vh) < 0 {
			why = append(why, "the host's valid payout decreased")
		}
		if len(why) > 0 {
			c.monitor("accepted-finalisation-violates-c07-conjunction", strings.Join(why, "; ")+"; "+desc)
		}
	}

	// for the model: the request as the host builds it
	rv, rerr := rhp.Revise(cur, p.rn, p.valid(), p.missed())
	if rerr != nil {
		if accepted {
			c.monitor("accepted-finalisation-violates-c07-conjunction", "Revise refuses the renter's number and values: "+rerr.Error()+"; "+desc)
		}
		return
	}
	ids := &concIDs{addrs: map[types.Address]int{}, hashes: map[types.Hash256]int{}}
	c0 := ids.term(cur)
	c.in = append(c.in, fmt.Sprintf("(%s, [QProgram %s %s %s])", c0, ids.term(rv), sumS.ExactString(), sumC.ExactString()))
	c.obs = append(c.obs, fmt.Sprintf("Some ([%s], %d, %s, %s)", coqBool(accepted), after.RevisionNumber, concVals(after.ValidProofOutputs), concVals(after.MissedProofOutputs)))
}

func (c *finCase) run(id int) {
	c.setup()
	// two sectors first, so that update / swap / trim have something to work on
	c.round(4, fvExact)
	c.round(4, fvExact)
	if id == 0 {
		// directed: every variant on an append program, the burn ladder on the others
		for v := 0; v < finVariants; v++ {
			c.round(4, v)
		}
		for which := 0; which <= 3; which++ {
			for _, v := range []int{fvPlusOne, fvTotal, fvExact} {
				c.round(which, v)
			}
		}
		return
	}
	for k := 0; k < 14; k++ {
		which := c.rng.Intn(5)
		v := c.rng.Intn(finVariants)
		if c.rng.Intn(3) == 0 {
			v = []int{fvPlusOne, fvTotal, fvTotalPlus, fvAll}[c.rng.Intn(4)]
		}
		c.round(which, v)
	}
}

func TestVerifC07Fin(t *testing.T) {
	em := newVerifEmitter(t, "From HostdBase Require Import Base.\nFrom HostdRevision Require Import Model.\nFrom HostdLifetime Require Import Life Conc.\nLocal Open Scope N_scope.", "lcase", "lcheck")
	defer em.Close()
	h := newC10Host(t)
	n := verifN(2)
	for id := 0; id < n; id++ {
		if em.Skip(id) {
			continue
		}
		c := &finCase{c10Case: &c10Case{h: h, em: concScratchEmitter(t), rng: verifCaseRand(id)}, t: t, out: em, monitored: map[string]bool{}}
		em.BeginCase(id, "honest rhp3 programs with hostile finalisation requests")
		c.run(id)
		c.end2()
		em.FunCase(id, "["+strings.Join(c.in, ";\n    ")+"]", "["+strings.Join(c.obs, ";\n    ")+"]", c.accepted >= 2 && c.decided > c.accepted)
	}
}
