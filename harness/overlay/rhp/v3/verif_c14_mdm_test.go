//go:build verif

package rhp

import (
	"encoding/binary"
	"errors"
	"fmt"
	"math/rand"
	"strings"
	"testing"

	rhp2 "go.sia.tech/core/rhp/v2"
	rhp3 "go.sia.tech/core/rhp/v3"
	"go.sia.tech/core/types"
	"go.sia.tech/hostd/v2/host/accounts"
	"go.sia.tech/hostd/v2/host/contracts"
	"go.sia.tech/hostd/v2/host/storage"
	"go.sia.tech/hostd/v2/rhp"
	"go.uber.org/zap"
)

// layout of the operand area at the start of the program data
const (
	c14SlotU64   = 0   // 16 x uint64: three per instruction
	c14SlotHash  = 128 // 2 x hash
	c14SlotKey   = 192 // specifier(16) + key(32)
	c14SlotSig   = 240 // signature(64)
	c14SlotTweak = 304 // hash
	c14SlotRev   = 336 // uint64
	c14SlotData  = 344 // registry data (32)
	c14Prefix    = 376
)

type c14Exec struct {
	out    []byte
	proof  []types.Hash256
	err    error
	pan    any
	site   string
	hasOut bool
}

// c14ExecOne is executeProgram's dispatch for one instruction, run in the caller's
// goroutine so that a panic of the code under test can be recovered and reported.
func c14ExecOne(pe *programExecutor, instruction rhp3.Instruction, log *zap.Logger) (r c14Exec) {
	defer func() {
		if r.pan = recover(); r.pan != nil {
			r.site = panicSite()
		}
	}()
	switch instr := instruction.(type) {
	case *rhp3.InstrAppendSector:
		r.out, r.proof, r.err = pe.executeAppendSector(instr, log)
	case *rhp3.InstrAppendSectorRoot:
		r.out, r.proof, r.err = pe.executeAppendSectorRoot(instr, log)
	case *rhp3.InstrDropSectors:
		r.out, r.proof, r.err = pe.executeDropSectors(instr, log)
	case *rhp3.InstrHasSector:
		r.out, r.proof, r.err = pe.executeHasSector(instr)
	case *rhp3.InstrReadOffset:
		r.out, r.proof, r.err = pe.executeReadOffset(instr, log)
	case *rhp3.InstrReadSector:
		r.out, r.proof, r.err = pe.executeReadSector(instr, log)
	case *rhp3.InstrSwapSector:
		r.out, r.proof, r.err = pe.executeSwapSector(instr, log)
	case *rhp3.InstrUpdateSector:
		r.out, r.proof, r.err = pe.executeUpdateSector(instr, log)
	case *rhp3.InstrStoreSector:
		r.out, r.err = pe.executeStoreSector(instr, log)
	case *rhp3.InstrRevision:
		r.out, r.err = pe.executeRevision(instr)
	case *rhp3.InstrReadRegistry:
		r.out, r.err = pe.executeReadRegistry(instr)
	case *rhp3.InstrReadRegistryNoVersion:
		instr.Version = 1
		r.out, r.err = pe.executeReadRegistry(&instr.InstrReadRegistry)
	case *rhp3.InstrUpdateRegistry:
		r.out, r.err = pe.executeUpdateRegistry(instr)
	case *rhp3.InstrUpdateRegistryNoType:
		r.out, r.err = pe.executeUpdateRegistry(&instr.InstrUpdateRegistry)
	default:
		r.err = fmt.Errorf("unknown instruction: %T", instr)
	}
	return
}

func c14InstrCoq(instruction rhp3.Instruction) (term, name string) {
	switch i := instruction.(type) {
	case *rhp3.InstrAppendSector:
		return fmt.Sprintf("IAppendSector %d %s", i.SectorDataOffset, coqBool(i.ProofRequired)), "AppendSector"
	case *rhp3.InstrAppendSectorRoot:
		return fmt.Sprintf("IAppendSectorRoot %d %s", i.MerkleRootOffset, coqBool(i.ProofRequired)), "AppendSectorRoot"
	case *rhp3.InstrDropSectors:
		return fmt.Sprintf("IDropSectors %d %s", i.SectorCountOffset, coqBool(i.ProofRequired)), "DropSectors"
	case *rhp3.InstrHasSector:
		return fmt.Sprintf("IHasSector %d", i.MerkleRootOffset), "HasSector"
	case *rhp3.InstrReadOffset:
		return fmt.Sprintf("IReadOffset %d %d %s", i.LengthOffset, i.OffsetOffset, coqBool(i.ProofRequired)), "ReadOffset"
	case *rhp3.InstrReadSector:
		return fmt.Sprintf("IReadSector %d %d %d %s", i.LengthOffset, i.OffsetOffset, i.MerkleRootOffset, coqBool(i.ProofRequired)), "ReadSector"
	case *rhp3.InstrSwapSector:
		return fmt.Sprintf("ISwapSector %d %d %s", i.Sector1Offset, i.Sector2Offset, coqBool(i.ProofRequired)), "SwapSector"
	case *rhp3.InstrUpdateSector:
		return fmt.Sprintf("IUpdateSector %d %d %d %s", i.Offset, i.Length, i.DataOffset, coqBool(i.ProofRequired)), "UpdateSector"
	case *rhp3.InstrStoreSector:
		return fmt.Sprintf("IStoreSector %d %d", i.DataOffset, i.Duration), "StoreSector"
	case *rhp3.InstrRevision:
		return "IRevision", "Revision"
	case *rhp3.InstrReadRegistry:
		return fmt.Sprintf("IReadRegistry %d %d %d %d", i.PublicKeyOffset, i.PublicKeyLength, i.TweakOffset, i.Version), "ReadRegistry"
	case *rhp3.InstrReadRegistryNoVersion:
		return fmt.Sprintf("IReadRegistry %d %d %d 1", i.PublicKeyOffset, i.PublicKeyLength, i.TweakOffset), "ReadRegistry"
	case *rhp3.InstrUpdateRegistry:
		return fmt.Sprintf("IUpdateRegistry %d %d %d %d %d %d %d", i.TweakOffset, i.RevisionOffset, i.SignatureOffset, i.PublicKeyOffset, i.PublicKeyLength, i.DataOffset, i.DataLength), "UpdateRegistry"
	case *rhp3.InstrUpdateRegistryNoType:
		return fmt.Sprintf("IUpdateRegistry %d %d %d %d %d %d %d", i.TweakOffset, i.RevisionOffset, i.SignatureOffset, i.PublicKeyOffset, i.PublicKeyLength, i.DataOffset, i.DataLength), "UpdateRegistry"
	}
	panic("unknown instruction")
}

func c14PtCoq(pt rhp3.HostPriceTable) string {
	return fmt.Sprintf("{| ptInit := %s; ptDownload := %s; ptUpload := %s; ptDropBase := %s; ptDropUnit := %s; ptHasSector := %s; ptReadBase := %s; ptReadLength := %s; ptRevision := %s; ptSwap := %s; ptWriteBase := %s; ptWriteLength := %s; ptWriteStore := %s; ptCollateral := %s; ptHeight := %d |}",
		coqCur(pt.InitBaseCost), coqCur(pt.DownloadBandwidthCost), coqCur(pt.UploadBandwidthCost), coqCur(pt.DropSectorsBaseCost), coqCur(pt.DropSectorsUnitCost),
		coqCur(pt.HasSectorBaseCost), coqCur(pt.ReadBaseCost), coqCur(pt.ReadLengthCost), coqCur(pt.RevisionBaseCost), coqCur(pt.SwapSectorBaseCost),
		coqCur(pt.WriteBaseCost), coqCur(pt.WriteLengthCost), coqCur(pt.WriteStoreCost), coqCur(pt.CollateralCost), pt.HostBlockHeight)
}

func c14Price(rng *rand.Rand, maxBits uint) types.Currency {
	switch rng.Intn(8) {
	case 0:
		return types.ZeroCurrency
	case 1, 2, 3:
		return types.NewCurrency64(uint64(1 + rng.Intn(3)))
	case 4:
		return types.NewCurrency64(uint64(rng.Intn(100000)))
	case 5:
		return types.NewCurrency64(1).Mul64(1 << (maxBits / 2))
	case 6:
		return types.NewCurrency64(1 << (maxBits - 1)).Sub(types.NewCurrency64(uint64(rng.Intn(3))))
	default:
		return types.NewCurrency64(uint64(rng.Intn(50)))
	}
}

// c14U64 draws an operand value: sector counts/indices, offsets and lengths around the
// sector and leaf boundaries, and values that wrap.
func c14U64(rng *rand.Rand, nroots uint64) uint64 {
	const ss = rhp2.SectorSize
	switch rng.Intn(16) {
	case 0, 1:
		return uint64(rng.Intn(3))
	case 2, 3:
		return nroots - 1 + uint64(rng.Intn(3))
	case 4:
		return uint64(rng.Intn(4)) * ss
	case 5:
		return uint64(rng.Intn(4))*ss + uint64(rng.Intn(4))*64
	case 6:
		return ss - 128 + uint64(rng.Intn(5))*64
	case 7:
		return uint64(rng.Intn(4))*ss + ss - 64
	case 8:
		return 64 * uint64(1+rng.Intn(8))
	case 9:
		return uint64(rng.Intn(200))
	case 10:
		return ss - 1 + uint64(rng.Intn(3))
	case 11:
		return ^uint64(0) - uint64(rng.Intn(130))
	case 12:
		return 1<<63 - 1 + uint64(rng.Intn(3))
	case 13:
		return nroots*ss - 64 + uint64(rng.Intn(3))*64
	case 14:
		return ^uint64(0) - ss + 1 - 64 + uint64(rng.Intn(3))*64
	default:
		return rng.Uint64()
	}
}

// c14World is the fixed environment the generated programs refer to.
type c14World struct {
	h         *c14Host
	known     []types.Hash256 // sectors the host stores (referenced as temporary sectors)
	absent    types.Hash256   // a root stored nowhere
	baseRoots []types.Hash256 // sector roots of the contract
	windowEnd uint64
	buf       []byte
	fill      byte
	tempRef   map[types.Hash256]bool // roots referenced as temporary sectors by committed programs
}

// c14Program is one generated MDM program with its price table, duration and budget.
type c14Program struct {
	prog     []rhp3.Instruction
	d        *c14Data
	pt       rhp3.HostPriceTable
	dur      uint64
	amount   types.Currency
	attach   bool
	finalize bool
}

func (w *c14World) directed(id int) (p *c14Program) {
	const ss = rhp2.SectorSize
	max := ^uint64(0)
	pt := rhp3.HostPriceTable{InitBaseCost: types.NewCurrency64(1), ReadBaseCost: types.NewCurrency64(1), ReadLengthCost: types.NewCurrency64(1),
		DownloadBandwidthCost: types.NewCurrency64(1), UploadBandwidthCost: types.NewCurrency64(1), WriteBaseCost: types.NewCurrency64(1),
		DropSectorsUnitCost: types.NewCurrency64(1), SwapSectorBaseCost: types.NewCurrency64(1), HasSectorBaseCost: types.NewCurrency64(1)}
	pt.HostBlockHeight = w.windowEnd - 10
	prefix := make([]byte, c14Prefix)
	u := func(slot int, v uint64) { binary.LittleEndian.PutUint64(prefix[8*slot:], v) }
	copy(prefix[c14SlotHash:], w.known[0][:])
	spec := types.SpecifierEd25519
	copy(prefix[c14SlotKey:], spec[:])
	var prog []rhp3.Instruction
	switch id {
	case 0: // DropSectors of 0 sectors with a proof: an empty proof range
		u(0, 0)
		prog = []rhp3.Instruction{&rhp3.InstrDropSectors{SectorCountOffset: 0, ProofRequired: true}}
	case 1: // DropSectors of more sectors than the contract has, with a proof
		u(0, uint64(len(w.baseRoots))+1)
		prog = []rhp3.Instruction{&rhp3.InstrDropSectors{SectorCountOffset: 0, ProofRequired: true}}
	case 2: // ReadOffset beyond the sector, without a proof
		u(0, ss+1)
		u(1, 0)
		prog = []rhp3.Instruction{&rhp3.InstrReadOffset{LengthOffset: 0, OffsetOffset: 8}}
	case 3: // ReadOffset of one byte with a proof: an empty leaf range
		u(0, 1)
		u(1, 0)
		prog = []rhp3.Instruction{&rhp3.InstrReadOffset{LengthOffset: 0, OffsetOffset: 8, ProofRequired: true}}
	case 4: // ReadSector whose offset+length wraps around
		u(0, 128)
		u(1, max-63)
		prog = []rhp3.Instruction{&rhp3.InstrReadSector{LengthOffset: 0, OffsetOffset: 8, MerkleRootOffset: c14SlotHash, ProofRequired: true}}
	case 5: // ReadRegistry with an 8-byte unlock key
		prog = []rhp3.Instruction{&rhp3.InstrReadRegistry{PublicKeyOffset: c14SlotKey, PublicKeyLength: 8, TweakOffset: c14SlotTweak, Version: 1}}
	case 6: // operand offset 2^64-8
		prog = []rhp3.Instruction{&rhp3.InstrHasSector{MerkleRootOffset: c14SlotHash}, &rhp3.InstrDropSectors{SectorCountOffset: max - 7}}
	case 7: // SwapSector with indices beyond the contract and a proof
		u(0, max)
		u(1, uint64(len(w.baseRoots)))
		prog = []rhp3.Instruction{&rhp3.InstrSwapSector{Sector1Offset: 0, Sector2Offset: 8, ProofRequired: true}}
	case 8: // UpdateSector whose patch lies at data offset 2^64-1
		prog = []rhp3.Instruction{&rhp3.InstrUpdateSector{Offset: 0, Length: 2, DataOffset: max}}
	case 9: // a well-formed program: read a leaf with proof, swap, drop one sector with proof
		u(0, 64)
		u(1, ss-64)
		u(2, 0)
		u(3, 1)
		u(4, 1)
		prog = []rhp3.Instruction{&rhp3.InstrReadOffset{LengthOffset: 0, OffsetOffset: 8, ProofRequired: true},
			&rhp3.InstrSwapSector{Sector1Offset: 16, Sector2Offset: 24, ProofRequired: true},
			&rhp3.InstrDropSectors{SectorCountOffset: 32, ProofRequired: true}}
	case 10: // StoreSector reading its sector at offset 2^64-SectorSize+1
		prog = []rhp3.Instruction{&rhp3.InstrStoreSector{DataOffset: max - ss + 2, Duration: 10}}
	default: // UpdateRegistry with a signature offset that wraps
		prog = []rhp3.Instruction{&rhp3.InstrUpdateRegistry{TweakOffset: c14SlotTweak, RevisionOffset: c14SlotRev, SignatureOffset: max - 63,
			PublicKeyOffset: c14SlotKey, PublicKeyLength: 48, DataOffset: c14SlotData, DataLength: 32}}
	}
	d := newC14Data(w.buf, w.fill, c14Prefix+8, prefix, nil)
	p = &c14Program{prog: prog, d: d, pt: pt, dur: 10, amount: types.Siacoins(1)}
	p.flags()
	return
}

const c14Directed = 12

func (p *c14Program) flags() {
	for _, in := range p.prog {
		p.attach = p.attach || in.RequiresContract() || in.RequiresFinalization()
		p.finalize = p.finalize || in.RequiresFinalization()
	}
}

// generate draws a program: mostly valid operands in per-instruction slots of the operand
// area, hostile operand offsets, truncated data, cheap and expensive price tables.
func (w *c14World) generate(rng *rand.Rand, registryWrites bool) *c14Program {
	// ---- price table, duration, budget
	pt := rhp3.HostPriceTable{
		InitBaseCost:          c14Price(rng, 60),
		DownloadBandwidthCost: c14Price(rng, 60),
		UploadBandwidthCost:   c14Price(rng, 60),
		DropSectorsBaseCost:   c14Price(rng, 60),
		DropSectorsUnitCost:   c14Price(rng, 60),
		HasSectorBaseCost:     c14Price(rng, 60),
		ReadBaseCost:          c14Price(rng, 60),
		ReadLengthCost:        c14Price(rng, 60),
		RevisionBaseCost:      c14Price(rng, 60),
		SwapSectorBaseCost:    c14Price(rng, 60),
		WriteBaseCost:         c14Price(rng, 60),
		WriteLengthCost:       c14Price(rng, 60),
		WriteStoreCost:        c14Price(rng, 40),
		CollateralCost:        c14Price(rng, 40),
	}
	if rng.Intn(3) > 0 { // mostly cheap, so that programs run to the interesting checks
		pt = rhp3.HostPriceTable{InitBaseCost: types.NewCurrency64(uint64(rng.Intn(5))), ReadBaseCost: types.NewCurrency64(1), ReadLengthCost: types.NewCurrency64(uint64(rng.Intn(2))),
			WriteBaseCost: types.NewCurrency64(2), UploadBandwidthCost: types.NewCurrency64(uint64(rng.Intn(2))), DownloadBandwidthCost: types.NewCurrency64(uint64(rng.Intn(3))),
			WriteStoreCost: types.NewCurrency64(uint64(rng.Intn(2))), CollateralCost: types.NewCurrency64(uint64(rng.Intn(3))), SwapSectorBaseCost: types.NewCurrency64(1),
			DropSectorsUnitCost: types.NewCurrency64(uint64(rng.Intn(2))), HasSectorBaseCost: types.NewCurrency64(1), RevisionBaseCost: types.NewCurrency64(3)}
	}
	dur := []uint64{1, 10, 1000, 1<<32 - 1}[rng.Intn(4)]
	pt.HostBlockHeight = w.windowEnd - dur
	var amount types.Currency
	switch rng.Intn(8) {
	case 0:
		amount = types.NewCurrency64(uint64(rng.Intn(40)))
	case 1:
		amount = types.NewCurrency64(uint64(rng.Intn(5000000)))
	case 2:
		amount = types.NewCurrency64(1 << 40).Mul64(uint64(1 + rng.Intn(100)))
	default:
		amount = types.Siacoins(1).Div64(uint64(1 + rng.Intn(4)))
	}

	// ---- operand area
	curRoots := append([]types.Hash256(nil), w.baseRoots...)
	prefix := make([]byte, c14Prefix)
	rng.Read(prefix)
	for k := 0; k < 16; k++ {
		binary.LittleEndian.PutUint64(prefix[c14SlotU64+8*k:], c14U64(rng, uint64(len(curRoots))))
	}
	setU64 := func(slot int, v uint64) { binary.LittleEndian.PutUint64(prefix[c14SlotU64+8*slot:], v) }
	curN := uint64(len(curRoots)) // expected number of roots if everything so far succeeds
	pickRoot := func() types.Hash256 {
		switch rng.Intn(5) {
		case 0:
			return w.absent
		case 1:
			var r types.Hash256
			rng.Read(r[:])
			return r
		default:
			return w.known[rng.Intn(len(w.known))]
		}
	}
	h0, h1 := pickRoot(), pickRoot()
	copy(prefix[c14SlotHash:], h0[:])
	copy(prefix[c14SlotHash+32:], h1[:])
	spec := types.SpecifierEd25519
	if rng.Intn(10) == 0 {
		spec = types.NewSpecifier("entropy")
	}
	copy(prefix[c14SlotKey:], spec[:])
	pk := w.h.renterKey.PublicKey()
	copy(prefix[c14SlotKey+16:], pk[:])
	var tweak types.Hash256
	tweak[0] = byte(rng.Intn(3))
	copy(prefix[c14SlotTweak:], tweak[:])
	regRev := uint64(rng.Intn(4))
	binary.LittleEndian.PutUint64(prefix[c14SlotRev:], regRev)
	regData := prefix[c14SlotData : c14SlotData+32]
	entry := rhp3.RegistryEntry{RegistryKey: rhp3.RegistryKey{PublicKey: pk, Tweak: tweak},
		RegistryValue: rhp3.RegistryValue{Revision: regRev, Type: rhp3.EntryTypeArbitrary, Data: regData}}
	sig := w.h.renterKey.SignHash(entry.Hash())
	if rng.Intn(6) == 0 {
		sig[5] ^= 0xff
	}
	copy(prefix[c14SlotSig:], sig[:])

	var dn int
	switch rng.Intn(10) {
	case 0:
		dn = rng.Intn(c14Prefix) // truncated program data
	case 1, 2, 3:
		dn = rhp2.SectorSize + c14Prefix + rng.Intn(3)*32
	case 4:
		dn = 2*rhp2.SectorSize + c14Prefix + rng.Intn(64)
	default:
		dn = c14Prefix + rng.Intn(100)
	}
	suffix := make([]byte, rng.Intn(16))
	rng.Read(suffix)

	off := func(slot int) uint64 { // mostly the slot, sometimes hostile
		if rng.Intn(10) == 0 {
			return c14Operand(rng, uint64(dn))
		}
		return uint64(slot)
	}
	hashoff := func() uint64 { return off(c14SlotHash + 32*rng.Intn(2)) }
	sectoroff := func() uint64 {
		switch rng.Intn(6) {
		case 0:
			return c14Operand(rng, uint64(dn))
		case 1:
			return uint64(dn) - rhp2.SectorSize
		case 2:
			return c14Prefix
		default:
			return 0
		}
	}
	keylen := func() uint64 {
		switch rng.Intn(8) {
		case 0:
			return uint64(rng.Intn(18))
		case 1:
			return 48 + uint64(rng.Intn(3)) - 1
		case 2:
			return c14Operand(rng, uint64(dn))
		default:
			return 48
		}
	}
	proof := func() bool { return rng.Intn(2) == 0 }
	valid := func() bool { return rng.Intn(10) < 7 }
	// a range inside one sector: offset and length (leaf aligned when aligned is set)
	inSector := func(aligned bool) (o, l uint64) {
		if aligned {
			o = 64 * uint64(rng.Intn(rhp2.SectorSize/64))
			if rng.Intn(2) == 0 {
				o = 64 * uint64(rng.Intn(4))
			}
			l = 64 * uint64(1+rng.Intn(8))
			if rng.Intn(6) == 0 {
				l = rhp2.SectorSize - o
			}
			if o+l > rhp2.SectorSize {
				l = rhp2.SectorSize - o
			}
			return
		}
		o = uint64(rng.Intn(rhp2.SectorSize))
		l = uint64(rng.Intn(300))
		if o+l > rhp2.SectorSize {
			l = rhp2.SectorSize - o
		}
		return
	}
	var prog []rhp3.Instruction
	nin := 1 + rng.Intn(5)
	for k := 0; k < nin; k++ {
		s0, s1 := 3*k, 3*k+1
		switch rng.Intn(16) {
		case 0:
			prog = append(prog, &rhp3.InstrAppendSector{SectorDataOffset: sectoroff(), ProofRequired: proof()})
			curN++
		case 1:
			prog = append(prog, &rhp3.InstrAppendSectorRoot{MerkleRootOffset: hashoff(), ProofRequired: proof()})
			curN++
		case 2, 3:
			if valid() {
				c := uint64(rng.Intn(int(curN) + 1))
				setU64(s0, c)
				curN -= c
			}
			prog = append(prog, &rhp3.InstrDropSectors{SectorCountOffset: off(c14SlotU64 + 8*s0), ProofRequired: proof()})
		case 4:
			prog = append(prog, &rhp3.InstrHasSector{MerkleRootOffset: hashoff()})
		case 5, 6:
			pr := proof()
			if valid() && curN > 0 {
				o, l := inSector(pr || rng.Intn(2) == 0)
				setU64(s0, l)
				setU64(s1, uint64(rng.Intn(int(curN)))*rhp2.SectorSize+o)
			}
			prog = append(prog, &rhp3.InstrReadOffset{LengthOffset: off(c14SlotU64 + 8*s0), OffsetOffset: off(c14SlotU64 + 8*s1), ProofRequired: pr})
		case 7, 8:
			pr := proof()
			if valid() {
				o, l := inSector(pr || rng.Intn(2) == 0)
				if l == 0 {
					l = 64
					o = 0
				}
				setU64(s0, l)
				setU64(s1, o)
			}
			prog = append(prog, &rhp3.InstrReadSector{LengthOffset: off(c14SlotU64 + 8*s0), OffsetOffset: off(c14SlotU64 + 8*s1), MerkleRootOffset: hashoff(), ProofRequired: pr})
		case 9, 10:
			if valid() && curN > 0 {
				setU64(s0, uint64(rng.Intn(int(curN))))
				setU64(s1, uint64(rng.Intn(int(curN))))
			}
			prog = append(prog, &rhp3.InstrSwapSector{Sector1Offset: off(c14SlotU64 + 8*s0), Sector2Offset: off(c14SlotU64 + 8*s1), ProofRequired: proof()})
		case 11:
			ln := uint64(rng.Intn(3)) * 16
			if rng.Intn(4) == 0 {
				ln = c14Operand(rng, uint64(dn))
			}
			o := c14U64(rng, curN)
			if valid() && curN > 0 {
				ro, _ := inSector(false)
				o = uint64(rng.Intn(int(curN)))*rhp2.SectorSize + ro
				if ro+ln > rhp2.SectorSize && rng.Intn(3) > 0 {
					o -= ro
				}
			}
			prog = append(prog, &rhp3.InstrUpdateSector{Offset: o, Length: ln, DataOffset: off(c14SlotData), ProofRequired: proof()})
		case 12:
			du := []uint64{0, 1, 10, storage.MaxTempSectorBlocks, storage.MaxTempSectorBlocks + 1, ^uint64(0), 1 << 63}[rng.Intn(7)]
			prog = append(prog, &rhp3.InstrStoreSector{DataOffset: sectoroff(), Duration: du})
		case 13:
			prog = append(prog, &rhp3.InstrRevision{})
		case 14:
			if rng.Intn(4) == 0 {
				prog = append(prog, &rhp3.InstrReadRegistryNoVersion{InstrReadRegistry: rhp3.InstrReadRegistry{PublicKeyOffset: off(c14SlotKey), PublicKeyLength: keylen(), TweakOffset: off(c14SlotTweak)}})
			} else {
				prog = append(prog, &rhp3.InstrReadRegistry{PublicKeyOffset: off(c14SlotKey), PublicKeyLength: keylen(), TweakOffset: off(c14SlotTweak), Version: uint8(rng.Intn(4))})
			}
		default:
			if !registryWrites {
				prog = append(prog, &rhp3.InstrHasSector{MerkleRootOffset: hashoff()})
				break
			}
			dl := uint64(32)
			if rng.Intn(5) == 0 {
				dl = c14Operand(rng, uint64(dn))
			}
			prog = append(prog, &rhp3.InstrUpdateRegistry{TweakOffset: off(c14SlotTweak), RevisionOffset: off(c14SlotRev), SignatureOffset: off(c14SlotSig),
				PublicKeyOffset: off(c14SlotKey), PublicKeyLength: keylen(), DataOffset: off(c14SlotData), DataLength: dl, EntryType: rhp3.EntryTypeArbitrary})
		}
	}
	d := newC14Data(w.buf, w.fill, dn, prefix, suffix)
	p := &c14Program{prog: prog, d: d, pt: pt, dur: dur, amount: amount}
	p.flags()
	return p
}

// newC14World stores three sectors on the host (referenced as temporary sectors), puts
// two of them into the contract and returns the environment programs are generated against.
func newC14World(t *testing.T, h *c14Host) *c14World {
	cid := h.contract.Revision.ParentID
	const fill = 0x5A
	buf := make([]byte, 2*rhp2.SectorSize+1024)
	for i := range buf {
		buf[i] = fill
	}

	// sectors known to the host: three referenced as temporary sectors, two of them also in
	// the contract; one root that is stored nowhere
	var known []types.Hash256
	for i := 0; i < 3; i++ {
		var sector [rhp2.SectorSize]byte
		sector[0], sector[100] = byte(i+1), 0x77
		root := rhp2.SectorRoot(&sector)
		if err := h.node.Volumes.StoreSector(root, &sector, h.node.Chain.Tip().Height+100000); err != nil {
			t.Fatal(err)
		}
		known = append(known, root)
	}
	absent := types.Hash256{0xde, 0xad}
	{
		u, err := h.node.Contracts.ReviseContract(cid)
		if err != nil {
			t.Fatal(err)
		}
		u.AppendSector(known[0])
		u.AppendSector(known[1])
		rev := h.contract.Revision
		rev.RevisionNumber++
		rev.FileMerkleRoot = u.MerkleRoot()
		rev.Filesize = u.SectorCount() * rhp2.SectorSize
		sigHash := rhp.HashRevision(rev)
		sr := contracts.SignedRevision{Revision: rev, HostSignature: h.hostKey.SignHash(sigHash), RenterSignature: h.renterKey.SignHash(sigHash)}
		if err := u.Commit(sr, contracts.Usage{}); err != nil {
			t.Fatal(err)
		}
		u.Close()
		h.contract = sr
	}
	baseRoots := h.node.Contracts.SectorRoots(cid)
	if err := h.node.Volumes.Sync(); err != nil {
		t.Fatal(err)
	}

	w := &c14World{h: h, known: known, absent: absent, baseRoots: baseRoots, windowEnd: h.contract.Revision.WindowEnd, buf: buf, fill: fill, tempRef: map[types.Hash256]bool{}}
	for _, r := range known {
		w.tempRef[r] = true
	}
	return w
}

// c14Step is one instruction executed on a programExecutor: the Coq terms of the
// instruction and of what the environment answered, and what the executor did.
type c14Step struct {
	term, name, env string
	r               c14Exec
	rootsBefore     []types.Hash256
	rootsAfter      []types.Hash256
	tempsBefore     int
}

// step executes one instruction under recover and collects the oracle values of the step.
func (w *c14World) step(pe *programExecutor, in rhp3.Instruction, d *c14Data, log *zap.Logger) (st c14Step) {
	term, name := c14InstrCoq(in)
	// what the environment will answer
	var ohas, oread bool
	oget := "None"
	pd := d.pd()
	hashAt := func(o uint64) (r types.Hash256, ok bool) {
		if o <= uint64(len(pd)) && uint64(len(pd))-o >= 32 {
			copy(r[:], pd[o:])
			return r, true
		}
		return
	}
	u64At := func(o uint64) (uint64, bool) {
		if o <= uint64(len(pd)) && uint64(len(pd))-o >= 8 {
			return binary.LittleEndian.Uint64(pd[o:]), true
		}
		return 0, false
	}
	readable := func(r types.Hash256) bool { _, err := w.h.node.Volumes.ReadSector(r); return err == nil }
	rootAt := func(idx uint64) (types.Hash256, bool) {
		if pe.updater == nil {
			return types.Hash256{}, false
		}
		rs := pe.updater.SectorRoots()
		if idx < uint64(len(rs)) {
			return rs[idx], true
		}
		return types.Hash256{}, false
	}
	switch i := in.(type) {
	case *rhp3.InstrAppendSectorRoot:
		if r, ok := hashAt(i.MerkleRootOffset); ok {
			ohas, _ = w.h.node.Volumes.HasSector(r)
		}
	case *rhp3.InstrReadSector:
		if r, ok := hashAt(i.MerkleRootOffset); ok {
			oread = readable(r)
		}
	case *rhp3.InstrReadOffset:
		if o, ok := u64At(i.OffsetOffset); ok {
			if r, ok := rootAt(o / rhp2.SectorSize); ok {
				oread = readable(r)
			}
		}
	case *rhp3.InstrUpdateSector:
		if r, ok := rootAt(i.Offset / rhp2.SectorSize); ok {
			oread = readable(r)
		}
	case *rhp3.InstrReadRegistry, *rhp3.InstrReadRegistryNoVersion:
		var rr *rhp3.InstrReadRegistry
		if a, ok := i.(*rhp3.InstrReadRegistry); ok {
			rr = a
		} else {
			rr = &i.(*rhp3.InstrReadRegistryNoVersion).InstrReadRegistry
		}
		if tw, ok := hashAt(rr.TweakOffset); ok && rr.PublicKeyLength == 48 {
			if k, ok := hashAt(rr.PublicKeyOffset + 16); ok && rr.PublicKeyOffset < 1<<32 {
				if v, err := w.h.node.Registry.Get(rhp3.RegistryKey{PublicKey: types.PublicKey(k), Tweak: tw}); err == nil {
					oget = fmt.Sprintf("(Some %d%%N)", len(v.Data))
				}
			}
		}
	}
	var rootsBefore []types.Hash256
	if pe.updater != nil {
		rootsBefore = pe.updater.SectorRoots()
	}
	tempsBefore := len(pe.tempSectors)

	r := c14ExecOne(pe, in, log)

	// oracle values that are only known afterwards
	oroot := types.Hash256{}
	owrite, oput := true, true
	if r.pan == nil && r.err == nil {
		switch in.(type) {
		case *rhp3.InstrAppendSector:
			rs := pe.updater.SectorRoots()
			oroot = rs[len(rs)-1]
		case *rhp3.InstrStoreSector, *rhp3.InstrUpdateSector:
			copy(oroot[:], r.out)
		}
	} else if r.err != nil {
		if errors.Is(r.err, storage.ErrNotEnoughStorage) || strings.Contains(r.err.Error(), "failed to write sector") {
			owrite = false
		}
		if _, ok := in.(*rhp3.InstrUpdateRegistry); ok {
			early := false
			for _, p := range []string{"failed to read", "unsupported unlock key", "invalid unlock key", "failed to pay"} {
				early = early || strings.Contains(r.err.Error(), p)
			}
			oput = early
		}
	}
	envTerm := fmt.Sprintf("{| oroot := %s; owrite := %s; ohas := %s; oread := %s; oget := %s; oput := %s |}",
		coqHash(oroot), coqBool(owrite), coqBool(ohas), coqBool(oread), oget, coqBool(oput))

	if pe.updater != nil {
		st.rootsAfter = pe.updater.SectorRoots()
	}
	st.term, st.name, st.env, st.r, st.rootsBefore, st.tempsBefore = term, name, envTerm, r, rootsBefore, tempsBefore
	return
}

// TestVerifC14MDM runs generated MDM programs instruction by instruction on a real
// programExecutor (real updater, budget, volume manager, registry) under recover, then
// rolls back or commits, and records every step for MDM/Model.v.
func TestVerifC14MDM(t *testing.T) {
	em := newVerifEmitter(t, "From HostdBase Require Import Base.\nFrom HostdMDM Require Import Model.", "case", "check")
	defer em.Close()
	h := newC14Host(t)
	log := zap.NewNop()
	cid := h.contract.Revision.ParentID

	w := newC14World(t, h)
	baseRoots := w.baseRoots
	n := verifN(400)
	for id := 0; id < n; id++ {
		if em.Skip(id) {
			continue
		}
		rng := verifCaseRand(id)
		if h.balance().Cmp(types.Siacoins(100)) < 0 {
			h.fund(types.Siacoins(1000))
		}

		var p *c14Program
		if id < c14Directed {
			p = w.directed(id)
		} else {
			p = w.generate(rng, true)
		}
		prog, d, pt, dur, amount, attach, finalize := p.prog, p.d, p.pt, p.dur, p.amount, p.attach, p.finalize
		dn := d.n

		em.BeginCase(id, fmt.Sprintf("mdm program of %d instructions, data %d bytes", len(prog), dn))
		balBefore := h.balance()
		revBefore, err := h.node.Contracts.Contract(cid)
		if err != nil {
			t.Fatal(err)
		}

		// ---- handleRPCExecute up to newExecutor
		x := fmt.Sprintf("{| xdata := %s; xpt := %s; xdur := %d; xcontract := %s |}", d.coq(), c14PtCoq(pt), dur, coqBool(attach))
		roots0 := "[]"
		if attach {
			roots0 = coqHashes(baseRoots)
		}
		initOp := fmt.Sprintf("OpInit %s %s %s %s", x, roots0, coqCur(balBefore), coqCur(amount))
		budget, err := h.node.Accounts.Budget(h.account, amount)
		if err == nil {
			if err = budget.Spend(accounts.Usage{RPCRevenue: pt.InitBaseCost}); err != nil {
				budget.Rollback()
			}
		}
		if err != nil {
			em.Step(initOp, "OInit false")
			em.Count("init:rejected")
			if !h.balance().Equals(balBefore) {
				em.Monitor("rejected-payment-changed-balance", fmt.Sprintf("%v -> %v", balBefore, h.balance()))
			}
			em.EndCase(false)
			d.release()
			continue
		}
		em.Step(initOp, "OInit true")
		var revision *contracts.SignedRevision
		if attach {
			sr := revBefore.SignedRevision
			revision = &sr
		}
		pe, err := h.sh.newExecutor(prog, d.pd(), pt, budget, revision, finalize, log)
		if err != nil {
			t.Fatal(err)
		}

		// ---- instructions
		failed, crashed := false, false
		executed := 0
		for _, in := range prog {
			st := w.step(pe, in, d, log)
			executed++
			term, name, envTerm, r, rootsBefore, rootsAfter, tempsBefore := st.term, st.name, st.env, st.r, st.rootsBefore, st.rootsAfter, st.tempsBefore
			spent := amount.Sub(budget.Remaining())
			res := ""
			switch {
			case r.pan != nil:
				res = "Panic"
				crashed = true
				em.Monitor("panic-"+r.site, fmt.Sprintf("%s: %v", term, r.pan))
				em.Count("instr:" + name + ":panic")
			case r.err != nil:
				res = "(Err EInvalid)"
				failed = true
				em.Count("instr:" + name + ":err")
				// property monitor: a failed instruction leaves the sector list and the
				// pending temporary sectors as they were
				if fmt.Sprint(rootsBefore) != fmt.Sprint(rootsAfter) {
					em.Monitor("rejected-instruction-changed-roots", term)
				}
				if len(pe.tempSectors) != tempsBefore {
					em.Monitor("rejected-instruction-added-temp-sector", term)
				}
			default:
				outLen := len(r.out)
				if _, ok := in.(*rhp3.InstrRevision); ok {
					outLen = 0
				}
				res = fmt.Sprintf("(Ok %d%%N)", outLen)
				em.Count("instr:" + name + ":ok")
			}
			em.Step(fmt.Sprintf("OpInstr (%s) %s", term, envTerm),
				fmt.Sprintf("OInstr %s %s %s %s %d", res, coqHashes(rootsAfter), coqCur(spent), coqCur(pe.cost.Collateral), len(pe.tempSectors)))
			if failed || crashed {
				break
			}
		}

		// ---- end of the program
		if crashed {
			// the host process would be gone; release what the executor holds
			func() {
				defer func() { recover() }()
				pe.rollback()
			}()
			budget.Rollback()
		} else if failed || finalize {
			// rollback (also the only way to end a program that needs a finalize exchange here)
			nonStorage := pe.usage.RPCRevenue.Add(pe.usage.EgressRevenue).Add(pe.usage.IngressRevenue).Add(pe.usage.RegistryRead).Add(pe.usage.RegistryWrite).Add(pt.InitBaseCost)
			var pan any
			func() {
				defer func() { pan = recover() }()
				pe.rollback()
			}()
			bal := h.balance()
			if pan != nil {
				em.Monitor("panic-rollback", fmt.Sprint(pan))
				em.Step("OpRollback", fmt.Sprintf("OEnd Panic %s 0", coqCur(bal)))
			} else {
				em.Step("OpRollback", fmt.Sprintf("OEnd (Ok tt) %s 0", coqCur(bal)))
				// property monitors on the rejected program
				if charged := balBefore.Sub(bal); !charged.Equals(nonStorage) {
					em.Monitor("rejected-program-charge-differs", fmt.Sprintf("charged %v, executed non-storage usage %v", charged, nonStorage))
				}
				for _, ts := range pe.tempSectors {
					if ok, _ := h.node.Volumes.HasSector(ts.Root); ok && !w.tempRef[ts.Root] {
						em.Monitor("rejected-program-kept-temp-sector", ts.Root.String())
					}
				}
			}
			em.Count("end:rollback")
		} else {
			var pan any
			var cerr error
			func() {
				defer func() { pan = recover() }()
				cerr = pe.commit(nil)
			}()
			bal := h.balance()
			nt := 0
			for _, ts := range pe.tempSectors {
				if ok, _ := h.node.Volumes.HasSector(ts.Root); ok {
					nt++
				}
			}
			switch {
			case pan != nil:
				em.Monitor("panic-commit", fmt.Sprint(pan))
				em.Step("OpCommit", fmt.Sprintf("OEnd Panic %s 0", coqCur(bal)))
			case cerr != nil:
				t.Logf("case %d: commit: %v", id, cerr)
				em.Step("OpCommit", fmt.Sprintf("OEnd (Err EInvalid) %s 0", coqCur(bal)))
			default:
				em.Step("OpCommit", fmt.Sprintf("OEnd (Ok tt) %s %d", coqCur(bal), nt))
				for _, ts := range pe.tempSectors {
					w.tempRef[ts.Root] = true
				}
			}
			budget.Rollback()
			em.Count("end:commit")
		}
		// nothing at this level signs a revision: the contract must be as it was
		after, err := h.node.Contracts.Contract(cid)
		if err != nil {
			t.Fatal(err)
		}
		if after.Revision.RevisionNumber != revBefore.Revision.RevisionNumber || after.Revision.FileMerkleRoot != revBefore.Revision.FileMerkleRoot ||
			fmt.Sprint(h.node.Contracts.SectorRoots(cid)) != fmt.Sprint(baseRoots) {
			em.Monitor("unfinalized-program-changed-contract", fmt.Sprintf("revision %d -> %d", revBefore.Revision.RevisionNumber, after.Revision.RevisionNumber))
		}
		em.Count(fmt.Sprintf("program:len=%d", len(prog)))
		em.EndCase(executed > 1 || (!failed && !crashed))
		d.release()
	}
}
