//go:build verif

package rhp_test

// C04 (WP-M4) — every exit of an RHP3 handler releases its budget.
//
// Real rhp3.SessionHandler on a real host node (testutil.NewHostNode: real sqlite store, contract
// manager, volume manager, chain, wallet) with a real accounts.AccountManager; real RHP3 streams
// driven by this file one message at a time, each with a fault that makes the handler leave
// through a chosen `return`: bad / insufficient / too small payments, unreadable, oversized and
// refused requests, a program that needs a contract sent without one, an unknown contract, a
// contract lock that times out (the test holds the lock), the renter hanging up where the host
// reads and — parked at a gate so that the order of events is fixed — where it writes, failing
// and succeeding programs with and without finalization, a store that refuses the debit; paid
// from an ephemeral account and by contract.
//
// The components handed to the session handler are the real ones behind thin wrappers that only
// record calls (AccountManager: Credit/Budget/Balance; AccountStore: DebitAccount), park a
// goroutine at a gate (Credit, contract Lock, HasSector) or shorten the contract-lock timeout.
// "The handler has returned" is the log line handleHostStream writes after rpcFn returned
// ("RPC failed" / "RPC success", rhp.go:179-183) — a predicted event, waited for with a long
// deadline; no sleep decides an outcome.
//
// After every stream: AccountManager.Balance against Store.AccountBalance and the accountBalance
// metric; at the end of a case the whole balance must be reservable.  The streams are recorded
// as steps of the handler programs of coq/Ledger/Handlers.v (hcase / hcheck) with what the
// wrappers saw of each ledger call.

import (
	"context"
	"encoding/binary"
	"errors"
	"fmt"
	"net"
	"os"
	"path/filepath"
	"strings"
	"sync"
	"testing"
	"time"

	crhp2 "go.sia.tech/core/rhp/v2"
	crhp3 "go.sia.tech/core/rhp/v3"
	"go.sia.tech/core/types"
	"go.sia.tech/hostd/v2/host/accounts"
	"go.sia.tech/hostd/v2/host/contracts"
	"go.sia.tech/hostd/v2/internal/testutil"
	proto3 "go.sia.tech/hostd/v2/internal/testutil/rhp/v3"
	rhp2 "go.sia.tech/hostd/v2/rhp/v2"
	rhp3 "go.sia.tech/hostd/v2/rhp/v3"
	"go.uber.org/zap"
	"go.uber.org/zap/zapcore"
)

const c04hHeader = "From HostdBase Require Import Base.\nFrom HostdLedger Require Import Model Handlers."

// ---- wrappers ---------------------------------------------------------------------------------

type c04hEv struct {
	kind   string // credit | budget | balance | debit
	acct   crhp3.Account
	amt    types.Currency
	refund bool
	usage  accounts.Usage
	err    error
	bal    types.Currency
}

// a gate parks the goroutine that passes an armed point until the harness releases it
type c04hTicket struct {
	arrived chan struct{}
	release chan struct{}
}

type c04hGate struct {
	mu    sync.Mutex
	armed map[string]*c04hTicket
}

func (g *c04hGate) arm(point string) *c04hTicket {
	tk := &c04hTicket{arrived: make(chan struct{}), release: make(chan struct{})}
	g.mu.Lock()
	if g.armed == nil {
		g.armed = map[string]*c04hTicket{}
	}
	g.armed[point] = tk
	g.mu.Unlock()
	return tk
}

func (g *c04hGate) pass(point string) {
	g.mu.Lock()
	tk := g.armed[point]
	delete(g.armed, point)
	g.mu.Unlock()
	if tk == nil {
		return
	}
	close(tk.arrived)
	<-tk.release
}

type c04hLog struct {
	mu sync.Mutex
	ev []c04hEv
}

func (l *c04hLog) add(e c04hEv) {
	l.mu.Lock()
	l.ev = append(l.ev, e)
	l.mu.Unlock()
}

func (l *c04hLog) take() []c04hEv {
	l.mu.Lock()
	defer l.mu.Unlock()
	ev := l.ev
	l.ev = nil
	return ev
}

// the account store under the real AccountManager
type c04hStore struct {
	accounts.AccountStore
	log       *c04hLog
	gate      *c04hGate
	mu        sync.Mutex
	failDebit bool
}

var errC04hInjected = errors.New("injected store failure")

func (s *c04hStore) DebitAccount(id crhp3.Account, u accounts.Usage) error {
	s.mu.Lock()
	fail := s.failDebit
	s.failDebit = false
	s.mu.Unlock()
	var err error
	if fail {
		err = errC04hInjected
	} else {
		err = s.AccountStore.DebitAccount(id, u)
	}
	s.log.add(c04hEv{kind: "debit", acct: id, usage: u, err: err})
	s.gate.pass("debit-after") // inside Budget.Commit, am.mu held
	return err
}

// the rhp3.AccountManager handed to the session handler
type c04hAccounts struct {
	am   *accounts.AccountManager
	log  *c04hLog
	gate *c04hGate
}

func (a *c04hAccounts) Balance(id crhp3.Account) (types.Currency, error) {
	b, err := a.am.Balance(id)
	a.log.add(c04hEv{kind: "balance", acct: id, bal: b, err: err})
	return b, err
}

func (a *c04hAccounts) Credit(req accounts.FundAccountWithContract, refund bool) (types.Currency, error) {
	b, err := a.am.Credit(req, refund)
	a.log.add(c04hEv{kind: "credit", acct: req.Account, amt: req.Amount, refund: refund, bal: b, err: err})
	a.gate.pass("credit-after")
	return b, err
}

func (a *c04hAccounts) Budget(id crhp3.Account, amount types.Currency) (*accounts.Budget, error) {
	b, err := a.am.Budget(id, amount)
	a.log.add(c04hEv{kind: "budget", acct: id, amt: amount, err: err})
	return b, err
}

// the contract manager: the real one; Lock can be parked before it starts and given a short deadline
type c04hContracts struct {
	*contracts.Manager
	gate *c04hGate
	mu   sync.Mutex
	shrt time.Duration
}

func (c *c04hContracts) Lock(ctx context.Context, id types.FileContractID) (contracts.SignedRevision, error) {
	c.gate.pass("lock-before")
	c.mu.Lock()
	d := c.shrt
	c.mu.Unlock()
	if d > 0 {
		var cancel context.CancelFunc
		ctx, cancel = context.WithTimeout(ctx, d)
		defer cancel()
	}
	return c.Manager.Lock(ctx, id)
}

// the sector store: the real volume manager; HasSector can be parked
type c04hSectors struct {
	rhp3.Sectors
	gate *c04hGate
}

func (s *c04hSectors) HasSector(root types.Hash256) (bool, error) {
	s.gate.pass("hassector-before")
	return s.Sectors.HasSector(root)
}

// the log core: counts returned handlers
type c04hCore struct {
	mu   *sync.Mutex
	cond *sync.Cond
	n    *int
	last *string // how the last handler ended (development aid, VERIF_C04H_DEBUG)
}

func (c c04hCore) Enabled(l zapcore.Level) bool      { return l >= zapcore.InfoLevel }
func (c c04hCore) With([]zapcore.Field) zapcore.Core { return c }
func (c c04hCore) Sync() error                       { return nil }
func (c c04hCore) Check(e zapcore.Entry, ce *zapcore.CheckedEntry) *zapcore.CheckedEntry {
	if c.Enabled(e.Level) {
		return ce.AddCore(e, c)
	}
	return ce
}
func (c c04hCore) Write(e zapcore.Entry, fields []zapcore.Field) error {
	if e.Message == "RPC failed" || e.Message == "RPC success" {
		c.mu.Lock()
		*c.last = e.LoggerName + ": " + e.Message
		for _, f := range fields {
			if f.Key == "error" {
				if err, ok := f.Interface.(error); ok {
					*c.last += ": " + err.Error()
				}
			}
		}
		*c.n++
		c.cond.Broadcast()
		c.mu.Unlock()
	}
	return nil
}

// ---- world -------------------------------------------------------------------------------------

type c04hStep struct {
	act  string
	want string // the ledger call the wrappers must have seen: credit | budget | balance | debit | ""
	obs  string // fixed observation (reads by the harness)
}

type c04hWorld struct {
	t         *testing.T
	em        *verifEmitter
	node      *testutil.HostNode
	hostKey   types.PrivateKey
	renterKey types.PrivateKey
	mgr       *accounts.AccountManager
	store     *c04hStore
	cm        *c04hContracts
	log       *c04hLog
	gate      *c04hGate
	core      c04hCore
	tr        *crhp3.Transport
	tr2       *crhp3.Transport // for the stream that runs while another one is parked: unread data of one stream holds up its whole connection
	pt        crhp3.HostPriceTable
	payC      types.FileContractID // pays by contract
	progC     types.FileContractID // the contract programs run on
	sector    [crhp2.SectorSize]byte
	stored    int

	// per case
	keys  []types.PrivateKey
	accts []crhp3.Account
	steps []c04hStep
	moved bool
	cur   string // rpc:exit:pay of the stream being driven
	hit   map[string]bool
}

func (w *c04hWorld) done() int {
	w.core.mu.Lock()
	defer w.core.mu.Unlock()
	return *w.core.n
}

// waitDone waits until n handlers have returned since the test started
func (w *c04hWorld) waitDone(n int) bool {
	deadline := time.AfterFunc(20*time.Second, func() {
		w.core.mu.Lock()
		w.core.cond.Broadcast()
		w.core.mu.Unlock()
	})
	defer deadline.Stop()
	start := time.Now()
	w.core.mu.Lock()
	defer w.core.mu.Unlock()
	for *w.core.n < n {
		if time.Since(start) > 20*time.Second {
			return false
		}
		w.core.cond.Wait()
	}
	return true
}

// monitor reports a violation once per case and sig
func (w *c04hWorld) monitor(sig, detail string) {
	if w.hit[sig] {
		return
	}
	w.hit[sig] = true
	w.em.Monitor(sig, detail)
}

func (w *c04hWorld) idx(a crhp3.Account) int {
	for i, x := range w.accts {
		if x == a {
			return i
		}
	}
	return 99
}

func c04hUsage(u accounts.Usage) string {
	return fmt.Sprintf("{| uRpc := %s; uStorage := %s; uEgress := %s; uIngress := %s; uRegR := %s; uRegW := %s |}",
		u.RPCRevenue.ExactString(), u.StorageRevenue.ExactString(), u.EgressRevenue.ExactString(),
		u.IngressRevenue.ExactString(), u.RegistryRead.ExactString(), u.RegistryWrite.ExactString())
}

func c04hCostUsage(c crhp3.ResourceCost) accounts.Usage {
	return accounts.Usage{RPCRevenue: c.Base, StorageRevenue: c.Storage, IngressRevenue: c.Ingress, EgressRevenue: c.Egress}
}

func c04hErr(err error) string {
	switch {
	case err == nil:
		return "ODone"
	case errors.Is(err, accounts.ErrInsufficientFunds):
		return "(OErr EInsufficient)"
	case errors.Is(err, accounts.ErrBalanceExceeded):
		return "(OErr EInvalid)"
	default:
		return "(OErr EOther)"
	}
}

// ---- recording ---------------------------------------------------------------------------------

func (w *c04hWorld) add(slot int, x, want string) {
	w.steps = append(w.steps, c04hStep{act: fmt.Sprintf("SH %d %s", slot, x), want: want})
}
func (w *c04hWorld) start(slot int, kind string) { w.add(slot, "(XStart "+kind+")", "") }
func (w *c04hWorld) ext(slot int, ok bool)       { w.add(slot, "(XExt "+coqBool(ok)+")", "") }
func (w *c04hWorld) tau(slot int)                { w.add(slot, "XTau", "") }
func (w *c04hWorld) unwind(slot int, sok bool, want string) {
	w.add(slot, "(XUnwind "+coqBool(sok)+")", want)
}
func (w *c04hWorld) pay(slot int, byc bool, a int, amt types.Currency) {
	want := ""
	if byc {
		want = "credit"
	}
	w.add(slot, fmt.Sprintf("(XPay %s %d %s false true)", coqBool(byc), a, amt.ExactString()), want)
}
func (w *c04hWorld) budget(slot int) { w.add(slot, "(XBudget true)", "budget") }
func (w *c04hWorld) spend(slot int, u accounts.Usage) {
	w.add(slot, "(XSpend "+c04hUsage(u)+")", "")
}
func (w *c04hWorld) balance(slot, a int, ok bool) {
	w.add(slot, fmt.Sprintf("(XBalance %d %s)", a, coqBool(ok)), "balance")
}
func (w *c04hWorld) commit(slot int, sok bool) {
	w.add(slot, "(XCommit "+coqBool(sok)+")", "debit")
}
func (w *c04hWorld) instr(slot int, u accounts.Usage, ok bool) {
	w.add(slot, fmt.Sprintf("(XInstr %s %s)", c04hUsage(u), coqBool(ok)), "")
}
func (w *c04hWorld) instrFail(slot int) { w.add(slot, "XInstrFail", "") }
func (w *c04hWorld) loopEnd(slot int)   { w.add(slot, "XLoopEnd", "") }

// flush pairs the recorded steps with what the wrappers saw, in order, and emits them.  Called
// when no handler is running.
func (w *c04hWorld) flush() {
	ev := w.log.take()
	if os.Getenv("VERIF_C04H_DEBUG") != "" {
		for _, e := range ev {
			fmt.Fprintf(os.Stderr, "c04h   saw %s account %d amount %s usage %s err %v\n", e.kind, w.idx(e.acct), e.amt.ExactString(), c04hUsage(e.usage), e.err)
		}
	}
	for _, s := range w.steps {
		obs := s.obs
		if obs == "" {
			obs = "HSkip"
		}
		if s.want != "" {
			if len(ev) == 0 || ev[0].kind != s.want {
				// the call the model's program makes here was not made: the recorded case will disagree
				obs = "(HSaw OPanic)"
			} else {
				e := ev[0]
				ev = ev[1:]
				switch e.kind {
				case "credit":
					if e.err == nil {
						obs = "(HSaw (OBal " + e.bal.ExactString() + "))"
						w.moved = true
					} else {
						obs = "(HSaw " + c04hErr(e.err) + ")"
					}
				case "budget":
					obs = "(HSaw " + c04hErr(e.err) + ")"
				case "balance":
					obs = "(HSaw (OBal " + e.bal.ExactString() + "))"
				case "debit":
					obs = "(HSaw " + c04hErr(e.err) + ")"
					if e.err == nil && !e.usage.Total().IsZero() {
						w.moved = true
					}
				}
			}
		}
		w.em.Step(s.act, obs)
	}
	w.steps = w.steps[:0]
	for _, e := range ev {
		// a ledger call no step of the model's program accounts for
		w.em.Step("SH 9 XTau", fmt.Sprintf("(HSaw ODone) (* unexpected %s *)", e.kind))
	}
}

// read records the three views of account a and evaluates the monitors; open = what running
// handlers hold reserved on it (0 when none is running)
func (w *c04hWorld) read(a int, open types.Currency, quiescent bool) {
	mb, err1 := w.mgr.Balance(w.accts[a])
	sb, err2 := w.node.Store.AccountBalance(w.accts[a])
	if err1 != nil || err2 != nil {
		w.t.Fatalf("harness: balance reads failed: %v %v", err1, err2)
	}
	w.em.Step(fmt.Sprintf("SEnv (Balance %d)", a), "(HSaw (OBal "+mb.ExactString()+"))")
	w.em.Step(fmt.Sprintf("SEnv (StoreBalance %d)", a), "(HSaw (OBal "+sb.ExactString()+"))")
	if !mb.Add(open).Equals(sb) {
		detail := fmt.Sprintf("after %s returned: account %d spendable %s H, persisted %s H, reserved by running handlers %s H", w.cur, a, mb.ExactString(), sb.ExactString(), open.ExactString())
		w.monitor("budget-left-open-after-handler-returned:"+w.cur, detail)
		if quiescent {
			w.monitor("balance-views-differ-with-no-open-budget", detail)
		}
	}
}

func (w *c04hWorld) metric() {
	m, err := w.node.Store.Metrics(time.Now())
	if err != nil {
		w.t.Fatal(err)
	}
	var sum types.Currency
	for off := 0; ; off += 500 {
		accs, err := w.node.Store.Accounts(500, off)
		if err != nil {
			w.t.Fatal(err)
		}
		for _, a := range accs {
			sum = sum.Add(a.Balance)
		}
		if len(accs) < 500 {
			break
		}
	}
	if !m.Accounts.Balance.Equals(sum) {
		w.monitor("balance-metric-differs-from-sum-of-balances", fmt.Sprintf("after %s: accountBalance metric %s H, sum of balances %s H", w.cur, m.Accounts.Balance.ExactString(), sum.ExactString()))
	}
}

// probe: with no RPC in flight the whole persisted balance must be reservable
func (w *c04hWorld) probe(a int) {
	sb, err := w.node.Store.AccountBalance(w.accts[a])
	if err != nil {
		w.t.Fatal(err)
	}
	b, err := w.mgr.Budget(w.accts[a], sb)
	w.em.Step("SH 3 (XStart KProbe)", "HSkip")
	w.em.Step(fmt.Sprintf("SH 3 (XPay false %d %s false true)", a, sb.ExactString()), "HSkip")
	w.em.Step("SH 3 (XBudget true)", "(HSaw "+c04hErr(err)+")")
	if err != nil {
		w.monitor("whole-balance-not-withdrawable-after-handler-returned:"+w.cur, fmt.Sprintf("account %d: persisted balance %s H, no RPC in flight, Budget for it: %v", a, sb.ExactString(), err))
		return
	}
	w.em.Step("SH 3 XTau", "HSkip")
	w.em.Step("SH 3 XTau", "HSkip")
	b.Rollback()
	w.em.Step("SH 3 (XUnwind true)", "HSkip")
}

// cached: with no RPC in flight the manager must not hold a balance of its own — a deposit that
// reaches the store without passing through it (as RHP4 deposits do) must show in Balance at
// once.  A budget left open keeps the account cached even when nothing is reserved by it (a
// budget of 0 H).  Not recorded for the model.
func (w *c04hWorld) cached(a int) {
	c, err := w.node.Contracts.Contract(w.payC)
	if err != nil {
		w.t.Fatal(err)
	}
	err = w.node.Store.CreditAccountWithContract(accounts.FundAccountWithContract{Account: w.accts[a], Amount: types.NewCurrency64(1), Revision: c.SignedRevision, Expiration: time.Now().Add(time.Hour)})
	if err != nil {
		w.t.Fatalf("harness: direct deposit failed: %v", err)
	}
	mb, err1 := w.mgr.Balance(w.accts[a])
	sb, err2 := w.node.Store.AccountBalance(w.accts[a])
	if err1 != nil || err2 != nil {
		w.t.Fatalf("harness: balance reads failed: %v %v", err1, err2)
	}
	if !mb.Equals(sb) {
		detail := fmt.Sprintf("no RPC in flight, last %s: 1 H deposited into account %d through the store; persisted %s H, AccountManager.Balance still %s H: the account is cached by a budget that was never ended", w.cur, a, sb.ExactString(), mb.ExactString())
		w.monitor("budget-left-open-after-handler-returned:"+w.cur, detail)
		w.monitor("balance-views-differ-with-no-open-budget", detail)
	}
}

// ---- the renter --------------------------------------------------------------------------------

type c04hBlob []byte

func (b c04hBlob) EncodeTo(e *types.Encoder)    { e.Write(b) }
func (b *c04hBlob) DecodeFrom(d *types.Decoder) {}

const (
	c04hPayOK = iota
	c04hPayBadType
	c04hPayBadSig
	c04hPayStale  // account: expired withdrawal; contract: revision number not increased
	c04hPayHangUp // contract: the renter hangs up instead of reading the host's signature
)

type c04hPayment struct {
	byc   bool
	a     int
	amt   types.Currency
	fault int
}

func (p c04hPayment) tag() string {
	if p.byc {
		return "contract"
	}
	return "account"
}

// sendPayment plays the renter's side of processPayment and records the handler's steps up to
// and including sh.accounts.Budget.  ok = the handler now holds an open budget.
func (w *c04hWorld) sendPayment(s *crhp3.Stream, slot int, p c04hPayment, bal types.Currency) (ok bool) {
	if p.fault == c04hPayBadType {
		bad := types.NewSpecifier("PayByNothing")
		s.WriteResponse(&bad)
		w.ext(slot, false)
		return false
	}
	if !p.byc {
		expiry := w.pt.HostBlockHeight + 6
		if p.fault == c04hPayStale && w.pt.HostBlockHeight > 0 {
			expiry = w.pt.HostBlockHeight - 1
		}
		req := crhp3.PayByEphemeralAccount(w.accts[p.a], p.amt, expiry, w.keys[p.a])
		if p.fault == c04hPayBadSig {
			req.Signature[3] ^= 0x40
		}
		s.WriteResponse(&crhp3.PaymentTypeEphemeralAccount)
		s.WriteResponse(&req)
		w.ext(slot, true)
		if p.fault != c04hPayOK || p.amt.IsZero() {
			w.ext(slot, false)
			return false
		}
		w.ext(slot, true)
		w.pay(slot, false, p.a, p.amt)
		w.budget(slot)
		return p.amt.Cmp(bal) <= 0
	}
	c, err := w.node.Contracts.Contract(w.payC)
	if err != nil {
		w.t.Fatal(err)
	}
	rev := c.Revision
	rev.ValidProofOutputs = append([]types.SiacoinOutput(nil), rev.ValidProofOutputs...)
	rev.MissedProofOutputs = append([]types.SiacoinOutput(nil), rev.MissedProofOutputs...)
	req, ok := crhp3.PayByContract(&rev, p.amt, w.accts[p.a], w.renterKey)
	if !ok {
		w.t.Fatal("harness: payment contract is out of funds")
	}
	var parked *c04hTicket
	switch p.fault {
	case c04hPayBadSig:
		req.Signature[3] ^= 0x40
	case c04hPayStale:
		req.RevisionNumber = c.Revision.RevisionNumber
		rev.RevisionNumber = req.RevisionNumber
		req.Signature = w.renterKey.SignHash(req.SigHash(rev))
	case c04hPayHangUp:
		parked = w.gate.arm("credit-after")
	}
	s.WriteResponse(&crhp3.PaymentTypeContract)
	s.WriteResponse(&req)
	w.ext(slot, true)
	if p.fault == c04hPayBadSig || p.fault == c04hPayStale {
		w.ext(slot, false)
		return false
	}
	w.ext(slot, true)
	w.pay(slot, true, p.a, p.amt)
	if p.fault == c04hPayHangUp {
		// the handler is parked after its Credit; the renter hangs up; once the host has seen
		// that (barrier) the handler goes on to write its signature, which fails (payments.go:93)
		<-parked.arrived
		s.Close()
		w.barrier(w.tr)
		close(parked.release)
		w.ext(slot, false)
		return false
	}
	var sig crhp3.PaymentResponse
	if err := s.ReadResponse(&sig, 4096); err != nil {
		w.t.Fatalf("harness: %s: host did not sign the contract payment: %v", w.cur, err)
	}
	w.ext(slot, true)
	w.budget(slot)
	return true
}

// barrier returns when the host's mux has processed every frame this renter sent before: a
// round trip on a fresh stream (frames of one connection are consumed in order)
func (w *c04hWorld) barrier(tr *crhp3.Transport) {
	s := tr.DialStream()
	defer s.Close()
	id := types.NewSpecifier("Barrier")
	s.WriteRequest(id, nil)
	var x c04hBlob
	s.ReadResponse(&x, 64)
}

// after the handler's `return` with its rollback deferred
func (w *c04hWorld) retRollback(slot int) { w.unwind(slot, true, "") }

// ---- scenarios ---------------------------------------------------------------------------------

const (
	c04hPT = iota // RPCUpdatePriceTable
	c04hAB        // RPCAccountBalance
	c04hLR        // RPCLatestRevision
	c04hEX        // RPCExecuteProgram
	c04hFA        // RPCFundAccount
)

var c04hRPCName = []string{"UpdatePriceTable", "AccountBalance", "LatestRevision", "ExecuteProgram", "FundAccount"}
var c04hKind = []string{"KPriceTable", "KAccountBalance", "KLatestRevision", "KExecute", "KFundAccount"}

// exits
const (
	xOK            = "ok"
	xNoPay         = "renter-leaves-before-paying"
	xBadType       = "unknown-payment-type"
	xBadSig        = "bad-payment-signature"
	xStale         = "stale-payment"
	xZero          = "zero-amount"
	xPayHangUp     = "renter-hangs-up-at-host-signature"
	xInsufficient  = "balance-below-payment"
	xLowPay        = "payment-below-cost"
	xCommitFail    = "debit-refused-by-store"
	xNoReq         = "renter-hangs-up-after-paying"
	xBigReq        = "oversized-request"
	xErrReq        = "renter-sends-error"
	xBadReq        = "malformed-request"
	xUnknownC      = "unknown-contract"
	xNoContract    = "contract-required"
	xLockTimeout   = "contract-lock-timeout"
	xTokenHangUp   = "renter-hangs-up-at-cancel-token"
	xInstrLow      = "budget-below-instruction-cost"
	xInstrFail     = "instruction-fails"
	xInstrEarly    = "instruction-fails-before-paying"
	xOutputHangUp  = "renter-hangs-up-at-output"
	xStoreThenFail = "stored-sector-then-failing-instruction"
	xStoreOK       = "store-sector"
	xFinNoReq      = "renter-hangs-up-at-finalize"
	xFinBadSig     = "bad-finalize-signature"
	xFinOK         = "finalized"
	xRbCommitFail  = "instruction-fails-and-debit-refused"
	xTooBig        = "deposit-above-max-balance"
	xBelowCost     = "payment-below-fund-cost"
)

type c04hScenario struct {
	rpc   int
	exit  string
	byc   bool
	extra uint64 // payment above the cost, H
}

func (sc c04hScenario) String() string {
	pay := "account"
	if sc.byc {
		pay = "contract"
	}
	return c04hRPCName[sc.rpc] + ":" + sc.exit + ":" + pay
}

func (w *c04hWorld) paymentFor(sc c04hScenario, a int, cost, bal types.Currency) c04hPayment {
	p := c04hPayment{byc: sc.byc, a: a, amt: cost.Add(types.NewCurrency64(sc.extra))}
	switch sc.exit {
	case xBadType:
		p.fault = c04hPayBadType
	case xBadSig:
		p.fault = c04hPayBadSig
	case xStale:
		p.fault = c04hPayStale
	case xZero:
		p.amt = types.ZeroCurrency
	case xPayHangUp:
		p.fault = c04hPayHangUp
	case xInsufficient:
		p.amt = bal.Add(types.NewCurrency64(1 + sc.extra))
	case xLowPay:
		if cost.IsZero() {
			p.amt = types.NewCurrency64(1)
		} else {
			p.amt = cost.Sub(types.NewCurrency64(1))
		}
	}
	return p
}

func c04hPayExit(exit string) bool {
	switch exit {
	case xBadType, xBadSig, xStale, xZero, xPayHangUp, xInsufficient:
		return true
	}
	return false
}

// run drives one stream on handler slot `slot` for account a and returns when its handler has
// returned.  The handler's steps are appended to w.steps as the stream goes.
func (w *c04hWorld) run(slot int, sc c04hScenario, a int) {
	w.cur = sc.String()
	w.em.Count(w.cur)
	before := w.done()
	bal, err := w.mgr.Balance(w.accts[a])
	if err != nil {
		w.t.Fatal(err)
	}
	s := w.tr.DialStream()
	if slot == 1 {
		s = w.tr2.DialStream()
	}
	expectLog := true
	switch sc.rpc {
	case c04hPT:
		w.runPriceTable(s, slot, sc, a, bal)
	case c04hAB:
		w.runAccountBalance(s, slot, sc, a, bal)
	case c04hLR:
		w.runLatestRevision(s, slot, sc, a, bal)
	case c04hEX:
		w.runExecute(s, slot, sc, a, bal, nil)
	case c04hFA:
		w.runFundAccount(s, slot, sc, a)
	}
	s.Close()
	if expectLog && !w.waitDone(before+1) {
		w.monitor("handler-did-not-return:"+w.cur, "no 'RPC failed'/'RPC success' line 20 s after the renter was done")
	}
	if os.Getenv("VERIF_C04H_DEBUG") != "" {
		w.core.mu.Lock()
		fmt.Fprintf(os.Stderr, "c04h %-70s %s\n", w.cur, *w.core.last)
		w.core.mu.Unlock()
	}
}

func (w *c04hWorld) runPriceTable(s *crhp3.Stream, slot int, sc c04hScenario, a int, bal types.Currency) {
	w.start(slot, c04hKind[c04hPT])
	if err := s.WriteRequest(crhp3.RPCUpdatePriceTableID, nil); err != nil {
		w.t.Fatal(err)
	}
	var resp crhp3.RPCUpdatePriceTableResponse
	if err := s.ReadResponse(&resp, 8192); err != nil {
		w.t.Fatalf("harness: no price table: %v", err)
	}
	w.ext(slot, true)
	w.ext(slot, true)
	w.ext(slot, true)
	// the table just sent has the same costs as the registered one (settings do not change)
	cost := w.pt.UpdatePriceTableCost
	if sc.exit == xNoPay {
		s.Close()
		w.ext(slot, false)
		return
	}
	p := w.paymentFor(sc, a, cost, bal)
	if sc.exit == xCommitFail {
		w.armCommitFail() // before the payment: the handler does not wait for the renter again
	}
	if !w.sendPayment(s, slot, p, bal) {
		return
	}
	w.tau(slot)
	w.spend(slot, accounts.Usage{RPCRevenue: cost})
	if sc.exit == xLowPay {
		w.retRollback(slot)
		return
	}
	if sc.exit == xCommitFail {
		w.commit(slot, false)
		w.retRollback(slot)
		return
	}
	w.commit(slot, true)
	var ok crhp3.RPCPriceTableResponse
	s.ReadResponse(&ok, 4096)
	w.ext(slot, true)
	w.tau(slot)
	w.retRollback(slot)
}

func (w *c04hWorld) armCommitFail() {
	w.store.mu.Lock()
	w.store.failDebit = true
	w.store.mu.Unlock()
}

func (w *c04hWorld) runAccountBalance(s *crhp3.Stream, slot int, sc c04hScenario, a int, bal types.Currency) {
	w.start(slot, c04hKind[c04hAB])
	if err := s.WriteRequest(crhp3.RPCAccountBalanceID, &w.pt.UID); err != nil {
		w.t.Fatal(err)
	}
	w.ext(slot, true)
	cost := w.pt.AccountBalanceCost
	p := w.paymentFor(sc, a, cost, bal)
	if !w.sendPayment(s, slot, p, bal) {
		return
	}
	w.tau(slot)
	w.spend(slot, accounts.Usage{RPCRevenue: cost})
	if sc.exit == xLowPay {
		w.retRollback(slot)
		return
	}
	switch sc.exit {
	case xNoReq:
		s.Close()
		w.ext(slot, false)
		w.retRollback(slot)
		return
	case xBigReq:
		big := make(c04hBlob, 4000)
		s.WriteResponse(&big)
		w.ext(slot, false)
		w.retRollback(slot)
		return
	case xErrReq:
		s.WriteResponseErr(errors.New("renter changed its mind"))
		w.ext(slot, false)
		w.retRollback(slot)
		return
	}
	if sc.exit == xCommitFail {
		w.armCommitFail()
	}
	s.WriteResponse(&crhp3.RPCAccountBalanceRequest{Account: w.accts[a]})
	w.ext(slot, true)
	w.balance(slot, a, true)
	if sc.exit == xCommitFail {
		w.commit(slot, false)
		w.retRollback(slot)
		return
	}
	w.commit(slot, true)
	var resp crhp3.RPCAccountBalanceResponse
	s.ReadResponse(&resp, 4096)
	w.ext(slot, true)
	w.tau(slot)
	w.retRollback(slot)
}

func (w *c04hWorld) runLatestRevision(s *crhp3.Stream, slot int, sc c04hScenario, a int, bal types.Currency) {
	w.start(slot, c04hKind[c04hLR])
	id := w.progC
	if sc.exit == xUnknownC {
		id = types.FileContractID{0xc4, 0xff, 1}
	}
	if err := s.WriteRequest(crhp3.RPCLatestRevisionID, &crhp3.RPCLatestRevisionRequest{ContractID: id}); err != nil {
		w.t.Fatal(err)
	}
	w.ext(slot, true)
	var resp crhp3.RPCLatestRevisionResponse
	err := s.ReadResponse(&resp, 8192)
	if sc.exit == xUnknownC {
		w.ext(slot, false)
		return
	} else if err != nil {
		w.t.Fatalf("harness: no latest revision: %v", err)
	}
	w.ext(slot, true)
	w.ext(slot, true)
	if sc.exit == xNoPay {
		s.Close()
		w.ext(slot, false)
		return
	}
	s.WriteResponse(&w.pt.UID)
	w.ext(slot, true)
	cost := w.pt.LatestRevisionCost
	p := w.paymentFor(sc, a, cost, bal)
	if sc.exit == xCommitFail {
		w.armCommitFail()
	}
	if !w.sendPayment(s, slot, p, bal) {
		return
	}
	w.tau(slot)
	w.spend(slot, accounts.Usage{RPCRevenue: cost})
	if sc.exit == xLowPay {
		w.retRollback(slot)
		return
	}
	if sc.exit == xCommitFail {
		w.commit(slot, false)
		w.retRollback(slot)
		return
	}
	w.commit(slot, true)
	w.tau(slot)
	w.retRollback(slot)
}

func (w *c04hWorld) runFundAccount(s *crhp3.Stream, slot int, sc c04hScenario, a int) {
	w.start(slot, c04hKind[c04hFA])
	if err := s.WriteRequest(crhp3.RPCFundAccountID, &w.pt.UID); err != nil {
		w.t.Fatal(err)
	}
	w.ext(slot, true)
	s.WriteResponse(&crhp3.RPCFundAccountRequest{Account: w.accts[a]})
	w.ext(slot, true)
	amount := types.NewCurrency64(sc.extra)
	total := w.pt.FundAccountCost.Add(amount)
	switch sc.exit {
	case xTooBig:
		amount = w.node.Settings.Settings().MaxAccountBalance.Add(types.NewCurrency64(1))
		total = w.pt.FundAccountCost.Add(amount)
	case xBelowCost:
		total = types.ZeroCurrency
	}
	c, err := w.node.Contracts.Contract(w.payC)
	if err != nil {
		w.t.Fatal(err)
	}
	rev := c.Revision
	rev.ValidProofOutputs = append([]types.SiacoinOutput(nil), rev.ValidProofOutputs...)
	rev.MissedProofOutputs = append([]types.SiacoinOutput(nil), rev.MissedProofOutputs...)
	req, ok := crhp3.PayByContract(&rev, total, w.accts[a], w.renterKey)
	if !ok {
		w.t.Fatal("harness: payment contract is out of funds")
	}
	if sc.exit == xBadSig {
		req.Signature[3] ^= 0x40
	}
	var parked *c04hTicket
	if sc.exit == xPayHangUp {
		parked = w.gate.arm("credit-after")
	}
	s.WriteResponse(&crhp3.PaymentTypeContract)
	s.WriteResponse(&req)
	if sc.exit == xBelowCost || sc.exit == xBadSig {
		w.ext(slot, false)
		return
	}
	w.ext(slot, true)
	w.add(slot, fmt.Sprintf("(XPay true %d %s false true)", a, amount.ExactString()), "credit")
	if sc.exit == xTooBig {
		return // Credit refused: `return`, nothing deferred
	}
	if sc.exit == xPayHangUp {
		<-parked.arrived
		s.Close()
		w.barrier(w.tr)
		close(parked.release)
		w.ext(slot, false)
		return
	}
	var sig crhp3.PaymentResponse
	if err := s.ReadResponse(&sig, 4096); err != nil {
		w.t.Fatalf("harness: %s: host did not sign the deposit: %v", w.cur, err)
	}
	w.ext(slot, true)
	var resp crhp3.RPCFundAccountResponse
	s.ReadResponse(&resp, 4096)
	w.ext(slot, true)
	w.tau(slot)
}

// c04hHeld lets runExecute stop while the handler is parked at the contract lock with its
// budget open, so that another stream can run meanwhile
type c04hHeld struct {
	during func(reserved types.Currency)
}

func (w *c04hWorld) runExecute(s *crhp3.Stream, slot int, sc c04hScenario, a int, bal types.Currency, held *c04hHeld) {
	w.start(slot, c04hKind[c04hEX])
	if err := s.WriteRequest(crhp3.RPCExecuteProgramID, &w.pt.UID); err != nil {
		w.t.Fatal(err)
	}
	w.ext(slot, true)
	initCost, _ := w.pt.BaseCost().Total()

	// the program
	var prog []crhp3.Instruction
	var costs []crhp3.ResourceCost // of the instructions that get as far as paying
	var okUpTo int                 // instructions that succeed
	failsEarly := false            // the first failing instruction fails before it pays
	data := make([]byte, 64)
	needsContract, finalize := false, false
	contract := types.FileContractID{}
	switch sc.exit {
	case xNoContract, xUnknownC, xLockTimeout, xTokenHangUp:
		prog = []crhp3.Instruction{&crhp3.InstrRevision{}}
		costs = []crhp3.ResourceCost{w.pt.RevisionCost()}
		okUpTo, needsContract = 1, true
	case xInstrFail, xRbCommitFail:
		// HasSector, then ReadSector of a root the host does not have: pays, then fails
		binary.LittleEndian.PutUint64(data[32:], 64) // length
		binary.LittleEndian.PutUint64(data[40:], 0)  // offset
		data[0] = 0xee
		prog = []crhp3.Instruction{&crhp3.InstrHasSector{MerkleRootOffset: 0}, &crhp3.InstrReadSector{MerkleRootOffset: 0, LengthOffset: 32, OffsetOffset: 40}}
		costs = []crhp3.ResourceCost{w.pt.HasSectorCost(), w.pt.ReadSectorCost(64)}
		okUpTo = 1
	case xOutputHangUp:
		prog = []crhp3.Instruction{&crhp3.InstrHasSector{MerkleRootOffset: 0}}
		costs = []crhp3.ResourceCost{w.pt.HasSectorCost()}
		okUpTo = 1
	case xInstrEarly:
		// HasSector, then ReadSector with length 0: fails before it pays
		prog = []crhp3.Instruction{&crhp3.InstrHasSector{MerkleRootOffset: 0}, &crhp3.InstrReadSector{MerkleRootOffset: 0, LengthOffset: 32, OffsetOffset: 40}}
		costs = []crhp3.ResourceCost{w.pt.HasSectorCost()}
		okUpTo, failsEarly = 1, true
	case xStoreThenFail, xStoreOK:
		data = make([]byte, crhp2.SectorSize+64)
		copy(data, w.sector[:])
		data[5] = byte(w.stored % 48) // a few distinct sectors only: the volume is small, stored sectors stay
		w.stored++
		prog = []crhp3.Instruction{&crhp3.InstrStoreSector{DataOffset: 0, Duration: 3}}
		costs = []crhp3.ResourceCost{w.pt.StoreSectorCost(3)}
		okUpTo = 1
		if sc.exit == xStoreThenFail {
			// then ReadSector of a root the host does not have: pays, then fails; the storage
			// cost of the first instruction is refunded by pe.rollback
			data[crhp2.SectorSize] = 0xee
			binary.LittleEndian.PutUint64(data[crhp2.SectorSize+32:], 64) // length
			binary.LittleEndian.PutUint64(data[crhp2.SectorSize+40:], 0)  // offset
			prog = append(prog, &crhp3.InstrReadSector{MerkleRootOffset: crhp2.SectorSize, LengthOffset: crhp2.SectorSize + 32, OffsetOffset: crhp2.SectorSize + 40})
			costs = append(costs, w.pt.ReadSectorCost(64))
		}
	case xFinNoReq, xFinBadSig, xFinOK:
		// dropping zero sectors: needs the contract and a finalization, moves no data
		prog = []crhp3.Instruction{&crhp3.InstrDropSectors{SectorCountOffset: 0}}
		costs = []crhp3.ResourceCost{w.pt.DropSectorsCost(0)}
		okUpTo, needsContract, finalize = 1, true, true
	default:
		prog = []crhp3.Instruction{&crhp3.InstrHasSector{MerkleRootOffset: 0}, &crhp3.InstrHasSector{MerkleRootOffset: 8}}
		costs = []crhp3.ResourceCost{w.pt.HasSectorCost(), w.pt.HasSectorCost()}
		okUpTo = 2
	}
	if needsContract {
		contract = w.progC
	}
	switch sc.exit {
	case xNoContract:
		contract = types.FileContractID{}
	case xUnknownC:
		contract = types.FileContractID{0xc4, 0xff, 2}
	}
	total := initCost
	for _, c := range costs {
		t, _ := c.Total()
		total = total.Add(t)
	}
	p := w.paymentFor(sc, a, total, bal)
	switch sc.exit {
	case xLowPay:
		// below the init cost
		if initCost.IsZero() {
			w.t.Fatal("harness: init cost is zero")
		}
		p.amt = initCost.Sub(types.NewCurrency64(1))
	case xInstrLow:
		// covers the init cost and the first instruction, not the second
		t0, _ := costs[0].Total()
		p.amt = initCost.Add(t0)
	}
	if !w.sendPayment(s, slot, p, bal) {
		return
	}
	w.tau(slot) // rpc.go:497

	// the program request
	switch sc.exit {
	case xNoReq:
		s.Close()
		w.ext(slot, false)
		w.retRollback(slot)
		return
	case xBadReq:
		// more instructions than a request can hold (rpc.go:46)
		hdr := make(c04hBlob, 40)
		binary.LittleEndian.PutUint64(hdr[32:], 1<<40)
		s.WriteResponse(&hdr)
		w.ext(slot, false)
		w.retRollback(slot)
		return
	case xErrReq:
		s.WriteResponseErr(errors.New("renter changed its mind"))
		w.ext(slot, false)
		w.retRollback(slot)
		return
	}
	var atLock, atSector *c04hTicket
	if sc.exit == xTokenHangUp || held != nil {
		atLock = w.gate.arm("lock-before")
	}
	if sc.exit == xOutputHangUp {
		atSector = w.gate.arm("hassector-before")
	}
	if sc.exit == xLockTimeout {
		if _, err := w.node.Contracts.Lock(context.Background(), w.progC); err != nil {
			w.t.Fatal(err)
		}
		w.cm.mu.Lock()
		w.cm.shrt = 40 * time.Millisecond
		w.cm.mu.Unlock()
		defer func() {
			w.cm.mu.Lock()
			w.cm.shrt = 0
			w.cm.mu.Unlock()
		}()
	}
	if sc.exit == xCommitFail || sc.exit == xRbCommitFail {
		w.armCommitFail()
	}
	req := crhp3.RPCExecuteProgramRequest{FileContractID: contract, Program: prog, ProgramData: data}
	if err := s.WriteResponse(&req); err != nil {
		w.t.Fatal(err)
	}
	w.ext(slot, true)
	w.spend(slot, accounts.Usage{RPCRevenue: initCost})
	if sc.exit == xLowPay {
		w.retRollback(slot)
		return
	}
	if sc.exit == xNoContract {
		w.ext(slot, false)
		w.retRollback(slot)
		return
	}
	w.ext(slot, true)
	if sc.exit == xUnknownC || sc.exit == xLockTimeout {
		var tok types.Specifier
		s.ReadResponse(&tok, 4096) // the host's error
		if sc.exit == xLockTimeout {
			w.node.Contracts.Unlock(w.progC)
		}
		w.ext(slot, false)
		w.retRollback(slot)
		return
	}
	if held != nil {
		// parked before the contract lock: budget open, init cost spent
		<-atLock.arrived
		held.during(p.amt)
		close(atLock.release)
	}
	if sc.exit == xTokenHangUp {
		<-atLock.arrived
		s.Close()
		w.barrier(w.tr)
		close(atLock.release)
		w.ext(slot, true)  // Lock
		w.ext(slot, false) // the cancel token cannot be written
		w.retRollback(slot)
		return
	}
	w.ext(slot, true) // Lock (or none needed)
	var tok types.Specifier
	if err := s.ReadResponse(&tok, 4096); err != nil {
		w.t.Fatalf("harness: %s: no cancel token: %v", w.cur, err)
	}
	w.ext(slot, true) // token
	w.ext(slot, true) // newExecutor
	w.tau(slot)       // execute.go:811

	// what the handler does after Execute returned with pe.committed = false
	rollbackPath := func(sok bool) {
		w.unwind(slot, true, "")     // Refund
		w.unwind(slot, sok, "debit") // Commit
		w.unwind(slot, true, "")     // Rollback
	}

	if sc.exit == xOutputHangUp {
		// the first instruction is parked before it runs (it has paid); the renter hangs up
		<-atSector.arrived
		s.Close()
		w.barrier(w.tr)
		close(atSector.release)
		// the instruction has paid and runs; its output cannot be written
		w.instr(slot, c04hCostUsage(costs[0]), true)
		w.instrFail(slot)
		rollbackPath(true)
		return
	}
	// outputs
	readOut := func() error {
		var out crhp3.RPCExecuteProgramResponse
		if err := s.ReadResponse(&out, 8192); err != nil {
			return err
		}
		if os.Getenv("VERIF_C04H_DEBUG") != "" {
			fmt.Fprintf(os.Stderr, "c04h   output: total cost %s refund %s len %d err %v\n", out.TotalCost.ExactString(), out.FailureRefund.ExactString(), out.OutputLength, out.Error)
		}
		return out.Error
	}
	for i := 0; i < okUpTo; i++ {
		if sc.exit == xInstrLow && i == 1 {
			break
		}
		if err := readOut(); err != nil {
			w.t.Fatalf("harness: %s: instruction %d failed: %v", w.cur, i, err)
		}
		w.instr(slot, c04hCostUsage(costs[i]), true)
	}
	switch {
	case sc.exit == xInstrLow:
		if err := readOut(); err == nil || !strings.Contains(err.Error(), "insufficient") {
			w.t.Fatalf("harness: %s: expected the second instruction to be unaffordable, got %v", w.cur, err)
		}
		w.instr(slot, c04hCostUsage(costs[1]), true) // the Spend fails: `return`
		rollbackPath(true)
		return
	case okUpTo < len(prog):
		if err := readOut(); err == nil {
			w.t.Fatalf("harness: %s: expected instruction %d to fail", w.cur, okUpTo)
		}
		if failsEarly {
			w.instrFail(slot)
		} else {
			w.instr(slot, c04hCostUsage(costs[okUpTo]), false)
		}
		rollbackPath(sc.exit != xRbCommitFail)
		return
	}
	w.loopEnd(slot)
	w.tau(slot)       // execute.go:661
	w.ext(slot, true) // Sync
	if finalize {
		c, err := w.node.Contracts.Contract(w.progC)
		if err != nil {
			w.t.Fatal(err)
		}
		if sc.exit == xFinNoReq {
			s.Close()
			w.ext(slot, false)
			w.retRollback(slot)
			return
		}
		rev := c.Revision
		rev.RevisionNumber++
		valid := make([]types.Currency, len(rev.ValidProofOutputs))
		for i := range valid {
			valid[i] = rev.ValidProofOutputs[i].Value
		}
		missed := make([]types.Currency, len(rev.MissedProofOutputs))
		for i := range missed {
			missed[i] = rev.MissedProofOutputs[i].Value
		}
		h := types.NewHasher()
		rev.EncodeTo(h.E)
		fin := crhp3.RPCFinalizeProgramRequest{Signature: w.renterKey.SignHash(h.Sum()), RevisionNumber: rev.RevisionNumber, ValidProofValues: valid, MissedProofValues: missed}
		if sc.exit == xFinBadSig {
			fin.Signature[3] ^= 0x40
		}
		s.WriteResponse(&fin)
		w.ext(slot, true) // read
		w.ext(slot, true) // Revise
		w.ext(slot, true) // ValidateProgramRevision
		var fresp crhp3.RPCFinalizeProgramResponse
		err = s.ReadResponse(&fresp, 4096)
		if sc.exit == xFinBadSig {
			w.ext(slot, false)
			w.retRollback(slot)
			return
		} else if err != nil {
			w.t.Fatalf("harness: %s: finalization refused: %v", w.cur, err)
		}
		w.ext(slot, true) // signature
		w.ext(slot, true) // updater.Commit
		w.ext(slot, true) // WriteResponse
	} else {
		for i := 0; i < 6; i++ {
			w.ext(slot, true)
		}
	}
	if sc.exit == xCommitFail {
		w.commit(slot, false)
		w.retRollback(slot)
		return
	}
	w.commit(slot, true)
	w.ext(slot, true) // AddTemporarySectors
	w.tau(slot)
	w.retRollback(slot)
}

// ---- the test ----------------------------------------------------------------------------------

func c04hScenarios() []c04hScenario {
	var l []c04hScenario
	both := func(rpc int, exits ...string) {
		for _, x := range exits {
			l = append(l, c04hScenario{rpc: rpc, exit: x}, c04hScenario{rpc: rpc, exit: x, byc: true})
		}
	}
	acct := func(rpc int, exits ...string) {
		for _, x := range exits {
			l = append(l, c04hScenario{rpc: rpc, exit: x})
		}
	}
	byc := func(rpc int, exits ...string) {
		for _, x := range exits {
			l = append(l, c04hScenario{rpc: rpc, exit: x, byc: true})
		}
	}
	// the exits of handleRPCExecute between processPayment and newExecutor first: C04-mut8
	both(c04hEX, xNoReq, xLowPay, xNoContract, xUnknownC, xLockTimeout, xTokenHangUp, xBadReq, xErrReq)
	both(c04hEX, xOK, xInstrLow, xInstrFail, xInstrEarly, xOutputHangUp, xFinNoReq, xFinBadSig, xFinOK, xCommitFail, xRbCommitFail, xBadSig, xStale, xBadType)
	acct(c04hEX, xInsufficient, xZero, xStoreThenFail, xStoreOK)
	byc(c04hEX, xPayHangUp)
	// (the price table and the balance cost 1 H: an account cannot pay less — 0 H is refused
	// earlier — a contract can: a budget of 0 H)
	both(c04hPT, xOK, xNoPay, xBadType, xBadSig, xStale, xCommitFail)
	acct(c04hPT, xInsufficient, xZero)
	byc(c04hPT, xPayHangUp, xLowPay)
	both(c04hAB, xOK, xBadSig, xStale, xNoReq, xBigReq, xErrReq, xCommitFail)
	acct(c04hAB, xInsufficient, xZero)
	byc(c04hAB, xPayHangUp, xLowPay)
	both(c04hLR, xOK, xNoPay, xBadSig, xLowPay, xCommitFail)
	acct(c04hLR, xUnknownC, xInsufficient)
	byc(c04hLR, xPayHangUp)
	byc(c04hFA, xOK, xTooBig, xBelowCost, xBadSig, xPayHangUp)
	for i := range l {
		if l[i].rpc == c04hFA {
			l[i].extra = 1234
		}
	}
	return l
}

func TestVerifC04Handlers(t *testing.T) {
	em := newVerifEmitter(t, c04hHeader, "hcase", "hcheck")
	defer em.Close()

	w := &c04hWorld{t: t, em: em, log: &c04hLog{}, gate: &c04hGate{}}
	var mu sync.Mutex
	n := 0
	var last string
	w.core = c04hCore{mu: &mu, cond: sync.NewCond(&mu), n: &n, last: &last}
	log := zap.New(w.core)

	w.hostKey = types.NewPrivateKeyFromSeed(make([]byte, 32))
	w.renterKey = types.NewPrivateKeyFromSeed(append(make([]byte, 31), 4))
	network, genesis := testutil.V1Network()
	node := testutil.NewHostNode(t, w.hostKey, network, genesis, zap.NewNop())
	w.node = node
	testutil.MineAndSync(t, node, node.Wallet.Address(), int(network.MaturityDelay+10))

	l2, err := net.Listen("tcp", "localhost:0")
	if err != nil {
		t.Fatal(err)
	}
	l3, err := net.Listen("tcp", "localhost:0")
	if err != nil {
		t.Fatal(err)
	}
	st := node.Settings.Settings()
	st.AcceptingContracts = true
	st.MaxCollateral = types.Siacoins(100000)
	st.MaxAccountBalance = types.Siacoins(100)
	st.StoragePrice = types.NewCurrency64(1)
	st.ContractPrice = types.NewCurrency64(1)
	st.EgressPrice = types.NewCurrency64(3)
	st.IngressPrice = types.NewCurrency64(2)
	st.BaseRPCPrice = types.NewCurrency64(7)
	st.SectorAccessPrice = types.NewCurrency64(5)
	st.NetAddress = l3.Addr().String()
	if err := node.Settings.UpdateSettings(st); err != nil {
		t.Fatal(err)
	}
	res := make(chan error)
	if _, err := node.Volumes.AddVolume(context.Background(), filepath.Join(t.TempDir(), "storage.dat"), 64, res); err != nil {
		t.Fatal(err)
	} else if err := <-res; err != nil {
		t.Fatal(err)
	}

	sh2 := rhp2.NewSessionHandler(l2, w.hostKey, node.Chain, node.Syncer, node.Wallet, node.Contracts, node.Settings, node.Volumes, zap.NewNop())
	go sh2.Serve()
	defer sh2.Close()

	w.store = &c04hStore{AccountStore: node.Store, log: w.log, gate: w.gate}
	w.mgr = accounts.NewManager(w.store, node.Settings)
	w.cm = &c04hContracts{Manager: node.Contracts, gate: w.gate}
	acc := &c04hAccounts{am: w.mgr, log: w.log, gate: w.gate}
	sh3 := rhp3.NewSessionHandler(l3, w.hostKey, node.Chain, node.Syncer, node.Wallet, acc, w.cm, node.Registry, &c04hSectors{Sectors: node.Volumes, gate: w.gate}, node.Settings, log)
	go sh3.Serve()
	defer sh3.Close()

	payC := formContract(t, node.Chain, node.Wallet, sh2.LocalAddr(), w.renterKey, w.hostKey.PublicKey(), 190)
	progC := formContract(t, node.Chain, node.Wallet, sh2.LocalAddr(), w.renterKey, w.hostKey.PublicKey(), 190)
	regC := formContract(t, node.Chain, node.Wallet, sh2.LocalAddr(), w.renterKey, w.hostKey.PublicKey(), 190)
	w.payC, w.progC = payC.ID(), progC.ID()

	sess, err := proto3.NewSession(context.Background(), w.hostKey.PublicKey(), sh3.LocalAddr(), node.Chain, node.Wallet)
	if err != nil {
		t.Fatal(err)
	}
	defer sess.Close()
	regAccount := crhp3.Account(w.renterKey.PublicKey())
	w.pt, err = sess.RegisterPriceTable(proto3.ContractPayment(&regC, w.renterKey, regAccount))
	if err != nil {
		t.Fatal(err)
	}
	conn, err := net.Dial("tcp", sh3.LocalAddr())
	if err != nil {
		t.Fatal(err)
	}
	defer conn.Close()
	w.tr, err = crhp3.NewRenterTransport(conn, w.hostKey.PublicKey())
	if err != nil {
		t.Fatal(err)
	}
	defer w.tr.Close()
	conn2, err := net.Dial("tcp", sh3.LocalAddr())
	if err != nil {
		t.Fatal(err)
	}
	defer conn2.Close()
	w.tr2, err = crhp3.NewRenterTransport(conn2, w.hostKey.PublicKey())
	if err != nil {
		t.Fatal(err)
	}
	defer w.tr2.Close()
	if !w.waitDone(1) {
		t.Fatal("harness: the handler of the price table registration did not report its return")
	}
	w.log.take()
	maxBal := node.Settings.Settings().MaxAccountBalance

	scenarios := c04hScenarios()
	total := len(scenarios) + 3 + verifN(60)
	startT := time.Now()
	for id := 0; id < total; id++ {
		if em.Skip(id) {
			continue
		}
		rng := verifCaseRand(id)
		if id > 0 && id%1000 == 0 {
			// a fresh price table long before the registered one expires
			before := w.done()
			if w.pt, err = sess.RegisterPriceTable(proto3.ContractPayment(&regC, w.renterKey, regAccount)); err != nil {
				t.Fatal(err)
			} else if !w.waitDone(before + 1) {
				t.Fatal("harness: the handler of the price table registration did not report its return")
			}
			w.log.take()
		}
		// fresh accounts: the model starts every case from the empty ledger
		w.keys, w.accts = nil, nil
		for i := 0; i < 2; i++ {
			seed := make([]byte, 32)
			binary.LittleEndian.PutUint64(seed, uint64(verifSeed()))
			binary.LittleEndian.PutUint64(seed[8:], uint64(id))
			seed[16], seed[17] = 0xc4, byte(i)
			k := types.NewPrivateKeyFromSeed(seed)
			w.keys = append(w.keys, k)
			w.accts = append(w.accts, crhp3.Account(k.PublicKey()))
		}
		w.steps, w.moved, w.hit = w.steps[:0], false, map[string]bool{}
		var list []c04hScenario
		interleave := false
		switch {
		case id < len(scenarios):
			list = []c04hScenario{scenarios[id]}
		case id < len(scenarios)+3:
			interleave = true
		default:
			for k := 2 + rng.Intn(3); k > 0; k-- {
				sc := scenarios[rng.Intn(len(scenarios))]
				sc.extra = uint64(rng.Intn(4)) * uint64(1+rng.Intn(50))
				list = append(list, sc)
			}
			interleave = rng.Intn(6) == 0
		}
		desc := "interleaved"
		if len(list) > 0 {
			parts := make([]string, len(list))
			for i, sc := range list {
				parts[i] = sc.String()
			}
			desc = strings.Join(parts, " ; ")
		}
		em.BeginCase(id, desc)
		em.Step("SEnv (SetMax "+maxBal.ExactString()+")", "(HSaw ODone)")
		// deposits through RPCFundAccount: enough for the dearest program
		fund := types.NewCurrency64(uint64(40000000 + rng.Intn(1000)))
		for a := 0; a < 2; a++ {
			w.run(0, c04hScenario{rpc: c04hFA, exit: xOK, byc: true, extra: fund.Big().Uint64() + uint64(a)}, a)
			w.flush()
			w.read(a, types.ZeroCurrency, true)
		}
		for i, sc := range list {
			a := 0
			if id >= len(scenarios) {
				a = (i + id) % 2
			}
			w.run(0, sc, a)
			w.flush()
			w.read(a, types.ZeroCurrency, true)
			w.read(1-a, types.ZeroCurrency, true)
		}
		if interleave {
			// handler 0 (a program on the contract) is parked before the contract lock with its
			// budget open; handler 1 runs a whole RPC on the same account; then 0 goes on
			k := id % 3
			outer := c04hScenario{rpc: c04hEX, exit: []string{xFinOK, xFinOK, xFinNoReq}[k], extra: uint64(rng.Intn(30))}
			inner := []c04hScenario{{rpc: c04hAB, exit: xOK}, {rpc: c04hEX, exit: xInstrFail}, {rpc: c04hAB, exit: xNoReq}}[k]
			w.cur = outer.String()
			em.Count("interleaved:" + outer.String() + "+" + inner.String())
			before := w.done()
			bal, _ := w.mgr.Balance(w.accts[0])
			s := w.tr.DialStream()
			w.runExecuteHeld(s, outer, bal, func(reserved types.Currency) {
				w.run(1, inner, 0)
				w.flush()
				w.read(0, reserved, false)
				w.cur = outer.String()
			})
			s.Close()
			if !w.waitDone(before + 2) {
				w.monitor("handler-did-not-return:"+w.cur, "no 'RPC failed'/'RPC success' line 20 s after the renter was done")
			}
			w.flush()
			w.read(0, types.ZeroCurrency, true)
		}
		w.metric()
		w.probe(0)
		w.probe(1)
		w.read(0, types.ZeroCurrency, true)
		w.cached(0)
		w.cached(1)
		em.EndCase(w.moved)
	}
	if !em.Skip(total) {
		w.commitRace(total, maxBal)
	}
	t.Logf("C04 rhp3 handlers: %d cases in %v", total, time.Since(startT))
}

// commitRace: programExecutor.Execute starts a goroutine that executes the instructions and
// pays for each from the budget (execute.go:570-634, payForExecution).  When an output cannot
// be written Execute returns and its deferred pe.rollback refunds and commits the budget; unless
// Execute waits for that goroutine first, the program keeps spending from a budget that is
// being committed.  Made deterministic with gates: the handler is parked inside Budget.Commit
// right after the store debit, the program is let through one more instruction (which pays),
// then Commit goes on and gives back max - (what the budget says NOW), less than what the debit
// left unspent.  Another RPC holds a budget on the same account open, so the account stays
// cached and the difference shows: spendable + reserved < persisted.
// The model (Handlers.v) has Execute return with the program goroutine finished — the code
// with fixes/C04-executor-joins-program-goroutine.patch; nothing of this case is recorded for it.
func (w *c04hWorld) commitRace(id int, maxBal types.Currency) {
	w.keys, w.accts = nil, nil
	for i := 0; i < 2; i++ {
		seed := make([]byte, 32)
		binary.LittleEndian.PutUint64(seed, uint64(verifSeed()))
		binary.LittleEndian.PutUint64(seed[8:], uint64(id))
		seed[16], seed[17] = 0xc4, byte(i)
		k := types.NewPrivateKeyFromSeed(seed)
		w.keys = append(w.keys, k)
		w.accts = append(w.accts, crhp3.Account(k.PublicKey()))
	}
	w.steps, w.moved, w.hit = w.steps[:0], false, map[string]bool{}
	w.em.BeginCase(id, "a failed program is committed while its instructions are still running; another RPC holds a budget on the account")
	w.em.Step("SEnv (SetMax "+maxBal.ExactString()+")", "(HSaw ODone)")
	w.run(0, c04hScenario{rpc: c04hFA, exit: xOK, byc: true, extra: 50000000}, 0)
	w.flush()
	w.read(0, types.ZeroCurrency, true)
	w.em.Count("commit-race")
	defer func() {
		w.steps = w.steps[:0]
		w.log.take()
		w.em.EndCase(true)
	}()

	bal, _ := w.mgr.Balance(w.accts[0])
	before := w.done()
	outer := w.tr.DialStream()
	w.cur = "ExecuteProgram:" + xOutputHangUp + ":account"
	w.runExecute(outer, 0, c04hScenario{rpc: c04hEX, exit: xFinOK}, 0, bal, &c04hHeld{during: func(reserved types.Currency) {
		s := w.tr2.DialStream()
		defer s.Close()
		initCost, _ := w.pt.BaseCost().Total()
		c, _ := w.pt.HasSectorCost().Total()
		amt := initCost.Add(c.Mul64(3)).Add(types.NewCurrency64(100))
		prog := []crhp3.Instruction{&crhp3.InstrHasSector{MerkleRootOffset: 0}, &crhp3.InstrHasSector{MerkleRootOffset: 0}, &crhp3.InstrHasSector{MerkleRootOffset: 0}}
		req := crhp3.RPCExecuteProgramRequest{Program: prog, ProgramData: make([]byte, 64)}
		pay := crhp3.PayByEphemeralAccount(w.accts[0], amt, w.pt.HostBlockHeight+6, w.keys[0])
		first := w.gate.arm("hassector-before")
		if err := s.WriteRequest(crhp3.RPCExecuteProgramID, &w.pt.UID); err != nil {
			w.t.Fatal(err)
		}
		s.WriteResponse(&crhp3.PaymentTypeEphemeralAccount)
		s.WriteResponse(&pay)
		s.WriteResponse(&req)
		var tok types.Specifier
		if err := s.ReadResponse(&tok, 4096); err != nil {
			w.t.Fatalf("harness: commit race: no cancel token: %v", err)
		}
		<-first.arrived // instruction 1 has paid
		s.Close()
		w.barrier(w.tr2)
		inCommit := w.gate.arm("debit-after")
		second := w.gate.arm("hassector-before")
		close(first.release)
		<-second.arrived // output 1 is out (and cannot be written), instruction 2 has paid
		// does the handler go on to commit the budget while the program is running?  With the
		// program goroutine joined first it cannot get there before `second` is released: the
		// bounded wait only decides how long a repaired host is given the benefit of the doubt.
		raced := false
		select {
		case <-inCommit.arrived:
			raced = true
		case <-time.After(400 * time.Millisecond):
		}
		if !raced {
			go func() { <-inCommit.arrived; close(inCommit.release) }()
			close(second.release)
			if !w.waitDone(before + 1) {
				w.monitor("handler-did-not-return:"+w.cur, "no 'RPC failed'/'RPC success' line 20 s after the renter was done")
			}
			w.em.Count("commit-race:program-joined-before-commit")
			return
		}
		w.em.Count("commit-race:committed-while-program-running")
		third := w.gate.arm("hassector-before")
		close(second.release)
		<-third.arrived // instruction 3 has paid: after the store debit, before Commit computed what is left
		close(inCommit.release)
		if !w.waitDone(before + 1) {
			w.monitor("handler-did-not-return:"+w.cur, "no 'RPC failed'/'RPC success' line 20 s after the renter was done")
		}
		mb, err1 := w.mgr.Balance(w.accts[0])
		sb, err2 := w.node.Store.AccountBalance(w.accts[0])
		if err1 != nil || err2 != nil {
			w.t.Fatalf("harness: balance reads failed: %v %v", err1, err2)
		}
		if !mb.Add(reserved).Equals(sb) {
			w.monitor("commit-returned-less-than-unspent-while-program-kept-spending", fmt.Sprintf("account 0: a 3-instruction program (budget %s H) whose first output could not be written was rolled back: store debit done, then instruction 3 paid %s H from the same budget, then Commit gave back max minus what the budget said by then; with the other RPC still holding %s H: spendable %s H + reserved = %s H, persisted %s H", amt.ExactString(), c.ExactString(), reserved.ExactString(), mb.ExactString(), mb.Add(reserved).ExactString(), sb.ExactString()))
		}
		close(third.release)
	}})
	outer.Close()
	if !w.waitDone(before + 2) {
		w.monitor("handler-did-not-return:"+w.cur, "no 'RPC failed'/'RPC success' line 20 s after the renter was done")
	}
	// with every handler returned the account is dropped from memory and the views agree again
	w.steps = w.steps[:0]
	w.log.take()
	mb, _ := w.mgr.Balance(w.accts[0])
	sb, _ := w.node.Store.AccountBalance(w.accts[0])
	if !mb.Equals(sb) {
		w.monitor("balance-views-differ-with-no-open-budget", fmt.Sprintf("after the commit race: spendable %s H, persisted %s H", mb.ExactString(), sb.ExactString()))
	}
}

// runExecuteHeld: a finalized program on the contract whose handler is parked before the
// contract lock while `during` runs
func (w *c04hWorld) runExecuteHeld(s *crhp3.Stream, sc c04hScenario, bal types.Currency, during func(types.Currency)) {
	w.runExecute(s, 0, sc, 0, bal, &c04hHeld{during: during})
}
