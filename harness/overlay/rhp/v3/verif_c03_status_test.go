//go:build verif

package rhp_test

// C03 / C13 (WP-Y round 2) — a contract's status changes on the real node while one session holds its lock
// and another one waits for it.
//
// A v1 contract is formed through the real RHP2 handler and its formation is never mined (every block of a
// case after the setup is mined WITHOUT transactions).  Session A (RHP2, through handler "A" of the gated
// host of verif_c03_handlers_test.go) locks it while it is pending and edits its list (pending contracts
// are usable); session B asks for the lock and is seen waiting in the manager's lock table; the chain
// moves past the reject buffer: the chain subscriber sets the status to rejected (recorded as
// [HStatus id CRejected]) and the next Manager.ProcessActions deletes the root rows
// (ExpireContractSectors, [HExpire]) — all while A holds the lock.  Then: A's next write (ReviseContract ->
// Manager.Revisable), A's renew-and-clear, A's unlock, B's Lock returning, a new session's Lock, an RHP3
// payment by contract — every one must be refused and leave revision and lists as they are.
//
//   rejected-contract-revised        a modification (write, renewal, payment revision) of the rejected
//                                    contract was accepted
//   rejected-contract-accepts-lock   Manager.Lock admitted a caller (the queued one or a new one)
//   failed-modification-changes-state   revision / persisted list / served list moved although every call
//                                    was refused (the deletion of the rows by the expiry excepted)
//
// Recorded for coq/Roots/Hand.v (hcase / hcheck) in program order (A's RPCs are sequential; B's Lock is
// written where it returns).

import (
	"context"
	"fmt"
	"strings"
	"testing"
	"time"

	"go.sia.tech/core/consensus"
	crhp2 "go.sia.tech/core/rhp/v2"
	crhp3 "go.sia.tech/core/rhp/v3"
	"go.sia.tech/core/types"
	"go.sia.tech/coreutils"
	"go.sia.tech/coreutils/wallet"
	"go.sia.tech/hostd/v2/host/contracts"
	"go.sia.tech/hostd/v2/internal/testutil"
	proto2 "go.sia.tech/hostd/v2/internal/testutil/rhp/v2"
)

var _ consensus.State

// ysMineEmpty mines n blocks without transactions and waits for the indexer after each
func ysMineEmpty(t *testing.T, hn *testutil.HostNode, n int) {
	for ; n > 0; n-- {
		cs := hn.Chain.TipState()
		b := types.Block{ParentID: cs.Index.ID, Timestamp: types.CurrentTimestamp(), MinerPayouts: []types.SiacoinOutput{{Value: cs.BlockReward(), Address: types.VoidAddress}}}
		if !coreutils.FindBlockNonce(cs, &b, 5*time.Second) {
			t.Fatal("failed to mine an empty block")
		} else if err := hn.Chain.AddBlocks([]types.Block{b}); err != nil {
			t.Fatal(err)
		}
		testutil.WaitForSync(t, hn.Chain, hn.Indexer)
	}
}

// formUnconfirmed forms a v1 contract through RHP2; the formation set stays in the pool
func (x *yhCase) formUnconfirmed() *c10Contract {
	h := x.h
	key := types.NewPrivateKeyFromSeed(frandBytes(x.rng, 32))
	st := x.settings2()
	tr, err := x.dialTag2("A")
	if err != nil {
		x.t.Fatal(err)
	}
	defer tr.Close()
	fc := crhp2.PrepareContractFormation(key.PublicKey(), h.hostKey.PublicKey(), types.Siacoins(40), types.Siacoins(10), h.node.Chain.Tip().Height+400, st, h.node.Wallet.Address())
	cost := crhp2.ContractFormationCost(h.node.Chain.TipState(), fc, st.ContractPrice)
	txn := types.Transaction{FileContracts: []types.FileContract{fc}}
	toSign, err := h.node.Wallet.FundTransaction(&txn, cost, true)
	if err != nil {
		x.t.Fatal("fund formation:", err)
	}
	h.node.Wallet.SignTransaction(&txn, toSign, wallet.ExplicitCoveredFields(txn))
	rev, _, err := proto2.RPCFormContract(tr, key, append(h.node.Chain.UnconfirmedParents(txn), txn))
	if err != nil {
		x.t.Fatal("formation:", err)
	}
	ct := &c10Contract{id: rev.ID(), key: key}
	x.cons = append(x.cons, ct)
	return ct
}

func ysRefusedOnStatus(err error) bool {
	return err != nil && (strings.Contains(err.Error(), "not good for modification") || strings.Contains(err.Error(), "contract status") || strings.Contains(err.Error(), "cannot be used"))
}

func (x *yhCase) statusCase(id int) {
	node := x.h.node
	x.out.BeginCase(id, "scratch")
	x.setup()
	x.end2()
	for k := range x.h.roots {
		x.data[x.h.roots[k]] = &x.h.sectors[k]
		x.storeSec(0, x.h.roots[k])
	}
	ct := x.formUnconfirmed()
	con := len(x.cons) - 1
	n := x.cN(ct.id)
	c0, err := node.Contracts.Contract(ct.id)
	if err != nil {
		x.t.Fatal(err)
	}
	x.sop(0, fmt.Sprintf("Form1 %d %d 0 0 %d", n, c0.Revision.RevisionNumber, c0.Revision.WindowStart+c13WindowShift), "ORes (Ok tt)")
	x.ref[ct.id] = nil
	x.look(ct.id, nil, "after the formation")
	x.desc = "a v1 contract rejected while session A holds its lock and session B waits"

	// ---- session A locks the pending contract and edits it
	trA, err := x.dialTag2("A")
	if err != nil {
		x.t.Fatal(err)
	}
	defer trA.Close()
	locked, err := proto2.RPCLock(trA, ct.key, ct.id)
	if err != nil {
		x.t.Fatal("lock of the pending contract:", err)
	}
	x.ev(fmt.Sprintf("SAcq1 1 %d", n), fmt.Sprintf("SOLock1 (Ok (%d, %d, %d))", locked.Revision.RevisionNumber, locked.Revision.Filesize, x.hN(locked.Revision.FileMerkleRoot)))
	write := func(acts []yhAct, expectRefusal bool) {
		q := yhA(2, ysNone, acts...)
		x.prepareA(&q, con)
		cur := crhp2.ContractRevision{Revision: x.stored0(con), Signatures: locked.Signatures}
		before := x.view(ct.id)
		nCalls := len(x.yh.store.calls)
		err := x.write2On(&q, trA, ct, cur)
		x.real.Count(fmt.Sprintf("A:write:rejected=%v:accepted=%v", expectRefusal, err == nil))
		if len(x.yh.store.calls) > nCalls { // Commit reached the store
			call := x.yh.store.calls[len(x.yh.store.calls)-1]
			x.emitEdits(1, &q, call.changes, false)
			res := "Ok tt"
			if err != nil {
				res = "Err EOther"
			}
			x.sop(1, fmt.Sprintf("Commit1 %d %d %d %d None", q.u, call.rev.RevisionNumber, call.rev.Filesize, x.hN(call.rev.FileMerkleRoot)), "ORes ("+res+")")
			x.sop(1, fmt.Sprintf("Close1 %d", q.u), "ORes (Ok tt)")
		} else if ysRefusedOnStatus(err) {
			// rpcWrite: Manager.ReviseContract -> Revisable refused
			x.sop(1, fmt.Sprintf("Open1 %d %d", q.u, n), "ORes (Err EInvalid)")
		} else if err != nil {
			x.real.Count("A:write:refused-elsewhere")
		}
		if err == nil {
			x.ref[ct.id], _ = x.fold(x.ref[ct.id], acts)
			x.edits++
			if expectRefusal {
				v := x.view(ct.id)
				x.monitor("rejected-contract-revised", fmt.Sprintf("contract %d (status %v) accepted an RHP2 write in the session that has held its lock since before the rejection: revision %d -> %d; persisted %s, served %s", n, v.c.Status, before.c.Revision.RevisionNumber, v.c.Revision.RevisionNumber, x.roots(v.db), x.roots(v.cache)))
			}
		} else if !expectRefusal {
			x.monitor("live-contract-refuses-revision", fmt.Sprintf("the pending contract %d refused a write: %v", n, err))
		}
	}
	nw := 1 + x.rng.Intn(2)
	if id == 0 {
		nw = 2
	}
	for k := 0; k < nw; k++ {
		acts := []yhAct{{kind: "append", pool: x.rng.Intn(4)}}
		if k == 1 {
			acts = append(acts, yhAct{kind: "swap", a: 0, b: 1})
		}
		write(acts, false)
	}
	x.look(ct.id, x.ref[ct.id], "while A holds the lock of the pending contract")

	// ---- session B queues
	var errB error
	doneB := make(chan struct{})
	withB := id == 0 || x.rng.Intn(4) > 0
	if withB {
		go func() {
			defer close(doneB)
			tr, err := x.dialTag2("B")
			if err != nil {
				errB = err
				return
			}
			defer tr.Close()
			if _, errB = proto2.RPCLock(tr, ct.key, ct.id); errB == nil {
				proto2.RPCUnlock(tr)
			}
		}()
		deadline := time.Now().Add(concLong)
		queued := false
		for time.Now().Before(deadline) && !queued {
			queued = x.waiters(ct.id) >= 1
			if !queued {
				time.Sleep(2 * time.Millisecond)
			}
		}
		if !queued {
			x.t.Fatal("B was never seen waiting for the lock")
		}
		x.ev(fmt.Sprintf("SReq 2 %d", n), "SO (ORes (Ok tt))")
		x.real.Count("B:queued-behind-A")
	}

	// ---- the chain moves past the reject buffer while A holds the lock
	rejected := false
	for i := 0; i < 30 && !rejected; i++ {
		ysMineEmpty(x.t, node, 1)
		c, err := node.Contracts.Contract(ct.id)
		if err != nil {
			x.t.Fatal(err)
		}
		rejected = c.Status == contracts.ContractStatusRejected
	}
	if !rejected {
		x.t.Fatal("the unconfirmed contract was not rejected")
	}
	x.real.Step(fmt.Sprintf("HStatus %d CRejected", n), "HORes (Ok tt)")
	ysMineEmpty(x.t, node, 1)
	x.real.Step("HExpire", "HORes (Ok tt)")
	frozen := x.view(ct.id)
	op, obs := x.lookTerm(ct.id, frozen)
	x.real.Step(op, obs)
	if len(frozen.db) != 0 {
		x.real.Count("rejected:rows-still-there")
	}
	if !c13Eq(frozen.cache, x.ref[ct.id]) {
		x.monitor("failed-modification-changes-state", fmt.Sprintf("the served list of contract %d changed with the rejection: %s, accepted modifications give %s", n, x.roots(frozen.cache), x.roots(x.ref[ct.id])))
	}

	// ---- the holder is refused
	// (the handler ends the session after the refusal: one attempt per case; case 0 a write, case 1 a renewal)
	tries := []string{[]string{"write", "renew"}[id%2]}
	if id > 1 {
		tries = []string{[]string{"write", "renew"}[x.rng.Intn(2)]}
	}
	for _, what := range tries {
		switch what {
		case "write":
			write([]yhAct{{kind: "append", pool: x.rng.Intn(4)}}, true)
		case "renew":
			q := &concReq{kind: ckRenew2, tag: "A", con: con, acct: 0, bump: 1, from: frozen.c.Revision, sigBase: frozen.c.Revision, roots: frozen.cache}
			x.prepare(q)
			nBefore := x.contractCount()
			err := x.runRenew2(q, trA, crhp2.ContractRevision{Revision: frozen.c.Revision, Signatures: locked.Signatures})
			x.real.Count(fmt.Sprintf("A:renew2:rejected:accepted=%v", err == nil))
			if err == nil || x.contractCount() != nBefore {
				x.monitor("rejected-contract-revised", fmt.Sprintf("contract %d (rejected) was renewed by the session holding its lock: %v; %d contracts before, %d after", n, err, nBefore, x.contractCount()))
			} else if ysRefusedOnStatus(err) {
				// rpcRenewAndClearContract asks Manager.Revisable before the pool step: the tail of the handler
				// is not reached; recorded as the refusal of the renewal call
				var fresh types.FileContractID
				x.rng.Read(fresh[:])
				x.ev(fmt.Sprintf("SRenewH 1 true (Renew1 %d %d %d 0 0 1 %d %d %d %d None)", n, x.cN(fresh), uint64(types.MaxRevisionNumber),
					frozen.c.Revision.Filesize, x.hN(frozen.c.Revision.FileMerkleRoot), frozen.c.Revision.WindowStart+c13WindowShift, x.hN(frozen.c.Revision.FileMerkleRoot)), "SO (ORes (Err EInvalid))")
			} else {
				x.real.Count("A:renew2:refused-elsewhere")
			}
			if trA.IsClosed() { // the handler ended the session
				x.real.Count("A:session-ended-by-host")
			}
		}
		if trA.IsClosed() {
			break
		}
	}
	// ---- A lets go; B's Lock returns
	if !trA.IsClosed() {
		proto2.RPCUnlock(trA)
	}
	trA.Close()
	x.waitUnlockedOf(ct.id, withB)
	x.ev(fmt.Sprintf("SRel 1 %d", n), "SO (ORes (Ok tt))")
	if withB {
		select {
		case <-doneB:
		case <-time.After(40 * time.Second):
			x.t.Fatal("B's lock RPC never returned")
		}
		if errB == nil {
			x.monitor("rejected-contract-accepts-lock", fmt.Sprintf("the caller that was queued on contract %d while it was rejected was given the lock", n))
		} else if ysRefusedOnStatus(errB) {
			x.ev(fmt.Sprintf("SAcq1 2 %d", n), "SOLock1 (Err EInvalid)")
		} else {
			x.real.Count("B:lock-refused-elsewhere:" + strings.SplitN(errB.Error(), ":", 2)[0])
		}
	}
	// ---- a new caller, and a paying RHP3 RPC
	ctx, cancel := context.WithTimeout(context.Background(), 10*time.Second)
	if _, err := node.Contracts.Lock(ctx, ct.id); err == nil {
		node.Contracts.Unlock(ct.id)
		x.monitor("rejected-contract-accepts-lock", fmt.Sprintf("Manager.Lock admits the rejected contract %d", n))
	} else if ysRefusedOnStatus(err) {
		x.ev(fmt.Sprintf("SAcq1 3 %d", n), "SOLock1 (Err EInvalid)")
	}
	cancel()
	pay := &concReq{kind: ckFund3, tag: "A", con: con, acct: 0, bump: 1, extra: types.Siacoins(1).Div64(10), from: frozen.c.Revision, sigBase: frozen.c.Revision, roots: frozen.cache}
	x.ch.g.begin(ct.id)
	x.prepare(pay)
	x.run(pay)
	x.ch.g.end()
	x.real.Count(fmt.Sprintf("fund3:rejected:accepted=%v", pay.err == nil))
	if pay.err == nil {
		x.monitor("rejected-contract-revised", fmt.Sprintf("an RHP3 fund-account payment by the rejected contract %d was accepted", n))
	} else if ysRefusedOnStatus(pay.err) {
		x.ev(fmt.Sprintf("SAcq1 1 %d", n), "SOLock1 (Err EInvalid)")
	}
	// ---- nothing moved
	after := x.view(ct.id)
	op, obs = x.lookTerm(ct.id, after)
	x.real.Step(op, obs)
	if after.c.Revision.RevisionNumber != frozen.c.Revision.RevisionNumber || after.c.Revision.Filesize != frozen.c.Revision.Filesize || after.c.Revision.FileMerkleRoot != frozen.c.Revision.FileMerkleRoot ||
		!c13Eq(after.db, frozen.db) || !c13Eq(after.cache, frozen.cache) || after.c.RenewedTo != frozen.c.RenewedTo {
		x.monitor("failed-modification-changes-state", fmt.Sprintf("the rejected contract %d moved although every call was refused: revision %d -> %d, size %d -> %d, persisted %s -> %s, served %s -> %s", n,
			frozen.c.Revision.RevisionNumber, after.c.Revision.RevisionNumber, frozen.c.Revision.Filesize, after.c.Revision.Filesize, x.roots(frozen.db), x.roots(after.db), x.roots(frozen.cache), x.roots(after.cache)))
	}
	x.end2()
	x.out.EndCase(false)
}

// waitUnlockedOf waits until the lock of id is free (the RHP2 handler unlocks after the renter hung up)
// or, when a caller is queued, until that caller has been served and has let go
func (x *yhCase) waitUnlockedOf(id types.FileContractID, _ bool) {
	deadline := time.Now().Add(concLong)
	for time.Now().Before(deadline) && x.waiters(id) >= 0 {
		time.Sleep(2 * time.Millisecond)
	}
}

var _ crhp3.Account

func TestVerifC03Status(t *testing.T) {
	em := newVerifEmitter(t, yhHeader, "hcase", "hcheck")
	defer em.Close()
	n := verifN(2)
	for id := 0; id < n+1; id++ {
		if em.Skip(id) {
			continue
		}
		yh := newYHHost(t) // a host per case: the formation of the case must never be mined
		x := newYHCase(t, yh, em, id)
		em.BeginCase(id, "a v1 contract is rejected (and its root rows expired) on the real node while one RHP2 session holds its lock and another waits")
		x.statusCase(id)
		em.EndCase(x.edits > 0)
	}
}
