//go:build verif

package rhp

import (
	"context"
	"errors"
	"fmt"
	"math"
	"math/big"
	"net"
	"testing"
	"time"

	"go.sia.tech/core/consensus"
	rhp2 "go.sia.tech/core/rhp/v2"
	rhp3 "go.sia.tech/core/rhp/v3"
	"go.sia.tech/core/types"
	"go.sia.tech/hostd/v2/host/contracts"
	"go.sia.tech/hostd/v2/internal/threadgroup"
	"go.sia.tech/hostd/v2/rhp"
	"go.uber.org/zap"
)

// TestVerifC12V3 drives the RHP3 side of C12 on the real code:
//   - validateContractRenewal called directly (under recover) on field-wise perturbations of
//     valid candidates x price-table grid;
//   - handleRPCRenew through SessionHandler.handleHostStream over a loopback connection with an
//     honest-signing but otherwise hostile renter and stubbed chain/wallet/contract manager,
//     observing what the handler hands to RenewContract (locked collateral, usage).
// Every call is recorded for the Coq model (coq/Formation/Model.v, `frun`).

// ---------------------------------------------------------------- stubs

type c12Chain struct{ height, require uint64 }

func (c *c12Chain) Tip() types.ChainIndex { return types.ChainIndex{Height: c.height} }
func (c *c12Chain) TipState() consensus.State {
	n := &consensus.Network{}
	n.HardforkV2.RequireHeight = c.require
	n.HardforkV2.AllowHeight = c.require
	return consensus.State{Network: n, Index: types.ChainIndex{Height: c.height}}
}
func (c *c12Chain) UnconfirmedParents(types.Transaction) []types.Transaction { return nil }
func (c *c12Chain) AddPoolTransactions([]types.Transaction) (bool, error)   { return false, nil }
func (c *c12Chain) AddV2PoolTransactions(types.ChainIndex, []types.V2Transaction) (bool, error) {
	return false, nil
}
func (c *c12Chain) RecommendedFee() types.Currency { return types.ZeroCurrency }

type c12Syncer struct{}

func (c12Syncer) BroadcastTransactionSet([]types.Transaction)                       {}
func (c12Syncer) BroadcastV2TransactionSet(types.ChainIndex, []types.V2Transaction) {}

type c12Wallet struct {
	addr   types.Address
	funded []types.Currency
}

func (w *c12Wallet) Address() types.Address { return w.addr }
func (w *c12Wallet) FundTransaction(txn *types.Transaction, amount types.Currency, unconfirmed bool) ([]types.Hash256, error) {
	w.funded = append(w.funded, amount)
	return nil, nil
}
func (w *c12Wallet) SignTransaction(*types.Transaction, []types.Hash256, types.CoveredFields) {}
func (w *c12Wallet) ReleaseInputs([]types.Transaction, []types.V2Transaction)                  {}

type c12Recorded struct {
	revision  contracts.SignedRevision
	clearing  contracts.SignedRevision
	locked    types.Currency
	usage     contracts.Usage
	clearingU contracts.Usage
}

type c12Contracts struct {
	existing contracts.SignedRevision
	rec      []c12Recorded
}

func (c *c12Contracts) Contract(types.FileContractID) (contracts.Contract, error) {
	return contracts.Contract{}, errors.New("not used")
}
func (c *c12Contracts) Lock(_ context.Context, id types.FileContractID) (contracts.SignedRevision, error) {
	if id != c.existing.Revision.ParentID {
		return contracts.SignedRevision{}, errors.New("contract not found")
	}
	return c.existing, nil
}
func (c *c12Contracts) Unlock(types.FileContractID) {}
func (c *c12Contracts) AddContract(contracts.SignedRevision, []types.Transaction, types.Currency, contracts.Usage) error {
	return errors.New("not used")
}
func (c *c12Contracts) RenewContract(renewal contracts.SignedRevision, existing contracts.SignedRevision, formationSet []types.Transaction, lockedCollateral types.Currency, clearingUsage, renewalUsage contracts.Usage) error {
	c.rec = append(c.rec, c12Recorded{revision: renewal, clearing: existing, locked: lockedCollateral, usage: renewalUsage, clearingU: clearingUsage})
	return nil
}
func (c *c12Contracts) ReviseContract(types.FileContractID) (*contracts.ContractUpdater, error) {
	return nil, errors.New("not used")
}

type c12SettingsStub struct {
	accepting bool
	pt        rhp3.HostPriceTable
}

func (s c12SettingsStub) AcceptingContracts() bool { return s.accepting }
func (s c12SettingsStub) RHP2Settings() (rhp2.HostSettings, error) {
	return rhp2.HostSettings{}, errors.New("not used")
}
func (s c12SettingsStub) RHP3PriceTable() (rhp3.HostPriceTable, error) { return s.pt, nil }

// ---------------------------------------------------------------- helpers

type c12Res struct {
	class string
	vals  []types.Currency
	pmsg  string
}

func c12Call(f func() ([]types.Currency, error)) (res c12Res) {
	defer func() {
		if r := recover(); r != nil {
			res = c12Res{class: "panic", pmsg: fmt.Sprint(r)}
		}
	}()
	vals, err := f()
	if err != nil {
		return c12Res{class: "err"}
	}
	return c12Res{class: "ok", vals: vals}
}

func c12UsageTerm(u contracts.Usage) string {
	return fmt.Sprintf("(U %s %s %s)", u.RPCRevenue.ExactString(), u.StorageRevenue.ExactString(), u.RiskedCollateral.ExactString())
}

func c12UsageOther(u contracts.Usage) bool {
	return !u.IngressRevenue.IsZero() || !u.EgressRevenue.IsZero() || !u.AccountFunding.IsZero() ||
		!u.RegistryRead.IsZero() || !u.RegistryWrite.IsZero()
}

var (
	c12HostKey    = types.NewPrivateKeyFromSeed(make([]byte, 32))
	c12RenterKey  = types.NewPrivateKeyFromSeed(append(make([]byte, 31), 1))
	c12RenterKey2 = types.NewPrivateKeyFromSeed(append(make([]byte, 31), 2))
)

var c12Listener net.Listener

func c12ConnPair(t *testing.T) (hostConn, renterConn net.Conn) {
	if c12Listener == nil {
		l, err := net.Listen("tcp", "127.0.0.1:0")
		if err != nil {
			t.Fatal(err)
		}
		c12Listener = l
		t.Cleanup(func() { l.Close(); c12Listener = nil })
	}
	ch := make(chan net.Conn, 1)
	go func() {
		c, err := net.Dial("tcp", c12Listener.Addr().String())
		if err != nil {
			ch <- nil
			return
		}
		ch <- c
	}()
	hostConn, err := c12Listener.Accept()
	if err != nil {
		t.Fatal(err)
	}
	renterConn = <-ch
	if renterConn == nil {
		t.Fatal("dial failed")
	}
	return hostConn, renterConn
}

// c12Session runs one RPC of the real session handler against the renter function over a
// loopback connection and reports whether the handler panicked.
func c12Session(t *testing.T, sh *SessionHandler, renter func(s *rhp3.Stream)) (panicMsg string) {
	hostConn, renterConn := c12ConnPair(t)
	done := make(chan struct{})
	go func() {
		defer close(done)
		defer renterConn.Close()
		rt, err := rhp3.NewRenterTransport(renterConn, c12HostKey.PublicKey())
		if err != nil {
			return
		}
		defer rt.Close()
		s := rt.DialStream()
		defer s.Close()
		s.SetDeadline(time.Now().Add(20 * time.Second))
		renter(s)
	}()
	func() {
		defer hostConn.Close()
		ht, err := rhp3.NewHostTransport(hostConn, c12HostKey)
		if err != nil {
			t.Fatal("host transport:", err)
		}
		defer ht.Close()
		stream, err := ht.AcceptStream()
		if err != nil {
			return
		}
		defer func() {
			if r := recover(); r != nil {
				panicMsg = fmt.Sprint(r)
			}
		}()
		sh.handleHostStream(stream, zap.NewNop())
	}()
	<-done
	return
}

// ---------------------------------------------------------------- directed cases

type c12Directed struct {
	kind string // "renew", "hrenew"
	desc string
	mod  func(c *c12Cand)
}

func c12BaseCfg() c12Cfg {
	return c12Cfg{accepting: true, addr: 5, height: 1000, require: 100000, window: 144, maxdur: 4320,
		price: c12C(100), maxcoll: c12C(10000), unitStorage: c12C(2), unitColl: c12C(3), fixed: c12C(7), baserpc: c12C(10)}
}

// existing: 4 MiB stored until 1400; renewal extends to 1500: storage 2*4Mi*100, collateral 3*4Mi*100
func c12BaseRenewal() c12Cand {
	cfg := c12BaseCfg()
	size := uint64(1 << 22)
	storage := c12C(2 * size * 100)
	coll := c12C(3 * size * 100)
	c := c12Cand{cfg: cfg, exOK: true,
		ex: c12FC{size: size, root: 1, ws: 1256, we: 1400, uh: 1, num: 7,
			valid:  []c12Out{{1, c12C(3000)}, {5, c12C(900)}},
			missed: []c12Out{{1, c12C(3000)}, {5, c12C(800)}, {0, c12C(100)}}},
		vals: []types.Currency{c12C(2990), c12C(910)},
	}
	c.clr = c12FC{ws: 1256, we: 1400, uh: 1, num: math.MaxUint64,
		valid: []c12Out{{1, c12C(2990)}, {5, c12C(910)}}, missed: []c12Out{{1, c12C(2990)}, {5, c12C(910)}}}
	c.baseRisk = coll
	c.baseRev = cfg.fixed.Add(storage)
	minValid := cfg.price.Add(c.baseRev)
	V := minValid.Add(c12C(4000)) // locked collateral 4000
	burn := c.baseRev.Add(c12C(50))
	c.fc = c12FC{size: size, root: 1, ws: 1300, we: 1500, uh: 1,
		valid:  []c12Out{{1, c12C(7000)}, {5, V}},
		missed: []c12Out{{1, c12C(7000)}, {5, V.Sub(burn)}, {0, burn}}}
	return c
}

func c12DirectedV3() []c12Directed {
	return []c12Directed{
		{"hrenew", "witness: renter-chosen file size and window end make WriteStoreCost*size*extension overflow (Mul64 panic)", func(c *c12Cand) {
			c.fc.size = math.MaxUint64
			c.fc.we = math.MaxUint64
		}},
		{"renew", "witness: base revenue + base risked collateral overflows (Add panic)", func(c *c12Cand) {
			c.baseRev, c.baseRisk = c12Max, c12C(1)
		}},
		{"renew", "witness: contract price + base revenue overflows (Add panic)", func(c *c12Cand) {
			c.baseRev, c.baseRisk = c12Max, types.ZeroCurrency
			c.fc.valid[1].val = c12Max
			c.fc.missed[1].val, c.fc.missed[2].val = c12Max.Sub(c12C(5)), c12C(5)
		}},
		{"renew", "accept: honest renewal", func(c *c12Cand) {}},
		{"renew", "accept: window start = height + window size", func(c *c12Cand) { c.fc.ws = 1144 }},
		{"renew", "reject: window start = height + window size - 1", func(c *c12Cand) { c.fc.ws = 1143 }},
		{"renew", "accept: window start = height + max duration", func(c *c12Cand) { c.fc.ws, c.fc.we = 5320, 5464 }},
		{"renew", "reject: window start = height + max duration + 1", func(c *c12Cand) { c.fc.ws, c.fc.we = 5321, 5465 }},
		{"renew", "reject: window one block short", func(c *c12Cand) { c.fc.ws, c.fc.we = 1357, 1500 }},
		{"renew", "accept: host payout = price + base revenue", func(c *c12Cand) {
			mv := c.cfg.price.Add(c.baseRev)
			c.fc.valid[1].val = mv
			c.fc.missed[1].val, c.fc.missed[2].val = mv.Sub(c12C(50)), c12C(50)
		}},
		{"renew", "reject: host payout = price + base revenue - 1", func(c *c12Cand) {
			mv := c.cfg.price.Add(c.baseRev).Sub(c12C(1))
			c.fc.valid[1].val = mv
			c.fc.missed[1].val, c.fc.missed[2].val = mv.Sub(c12C(50)), c12C(50)
		}},
		{"renew", "accept: locked collateral = max collateral", func(c *c12Cand) { c.cfg.maxcoll = c12C(4000) }},
		{"renew", "reject: locked collateral = max collateral + 1", func(c *c12Cand) { c.cfg.maxcoll = c12C(3999) }},
		{"renew", "reject: third missed output not the void address", func(c *c12Cand) { c.fc.missed[2].addr = 1 }},
		{"hrenew", "accept: honest renewal through handleRPCRenew", func(c *c12Cand) {}},
		{"hrenew", "reject: window start = v2 require height", func(c *c12Cand) { c.cfg.require = c.fc.ws }},
		{"hrenew", "accept: window start = v2 require height - 1", func(c *c12Cand) { c.cfg.require = c.fc.ws + 1 }},
		{"hrenew", "reject: clearing revision keeps the file size", func(c *c12Cand) { c.clr.size = 1 << 22 }},
	}
}

// ---------------------------------------------------------------- the test

func TestVerifC12V3(t *testing.T) {
	em := newVerifEmitter(t, "From HostdBase Require Import Base.\nFrom HostdRevision Require Import Model.\nFrom HostdFormation Require Import Model.\nLocal Open Scope N_scope.", "fcase", "fcheck")
	defer em.Close()
	mon := func(sig, detail string) { em.Monitor(sig, detail) }

	directed := c12DirectedV3()
	n := verifN(3000)
	for id := 0; id < len(directed)+n; id++ {
		if em.Skip(id) {
			continue
		}
		rng := verifCaseRand(id)
		var c c12Cand
		var kind string
		if id < len(directed) {
			d := directed[id]
			kind = d.kind
			c = c12BaseRenewal()
			d.mod(&c)
			c.desc = d.desc
			em.Count("directed")
		} else {
			kind = []string{"renew", "renew", "hrenew"}[rng.Intn(3)]
			c = c12GenRenewal(rng, c12GenCfg(rng), true)
			p := c12Perturbations[rng.Intn(len(c12Perturbations))]
			c12Perturb(rng, &c, p, true, true)
			if rng.Intn(10) == 0 {
				p2 := c12Perturbations[rng.Intn(len(c12Perturbations))]
				c12Perturb(rng, &c, p2, true, true)
				p += "+" + p2
			}
			c.desc = kind + " " + p
			em.Count("perturbation:" + p)
		}
		em.Count("kind:" + kind)
		em.BeginCase(id, c.desc)

		renterKey := c12RenterKey2 // key of the new contract
		hostUK, renterUK := c12HostKey.PublicKey().UnlockKey(), renterKey.PublicKey().UnlockKey()
		expUH := c12UC(hostUK, renterUK).UnlockHash()
		ids := newC12IDs(expUH)
		fc := ids.build(c.fc)
		pt := c.cfg.priceTable()
		walletAddr := c12Addr(c.cfg.addr)

		// the existing contract
		exUC := c12UC(hostUK, c12RenterKey.PublicKey().UnlockKey())
		existing := types.FileContractRevision{ParentID: types.FileContractID{1, 2, 3}, UnlockConditions: exUC}
		existing.FileContract = ids.build(c.ex)
		existing.UnlockHash = exUC.UnlockHash()
		exTerm := ids.fcTerm(existing.FileContract, 1)

		var inp, out string
		nontrivial := false
		switch kind {
		case "renew":
			res := c12Call(func() ([]types.Currency, error) {
				r, l, err := validateContractRenewal(existing, fc, hostUK, renterUK, walletAddr, c.baseRev, c.baseRisk, pt)
				return []types.Currency{r, l}, err
			})
			inp = fmt.Sprintf("(CRenew3 %s %s 1 %d %s %s %s)", exTerm, ids.fcTerm(fc, 0), c.cfg.addr, c.baseRev.ExactString(), c.baseRisk.ExactString(), c.cfg.priceTableTerm())
			em.Count("result:renew:" + res.class)
			switch res.class {
			case "panic":
				out = "Panic"
				em.Monitor("renewal-validation-panics", "validateContractRenewal: "+res.pmsg)
			case "err":
				out = "(Err EInvalid)"
			case "ok":
				out = "(Ok (OCur2 " + res.vals[0].ExactString() + " " + res.vals[1].ExactString() + "))"
				nontrivial = true
				minValid := new(big.Int).Add(c.cfg.price.Big(), c.baseRev.Big())
				c12MonitorAccepted(mon, "validateContractRenewal", c.cfg, walletAddr, fc, minValid, res.vals[1])
				c12MonitorRenewalFigures(mon, "validateContractRenewal", existing.FileContract, fc, c.baseRev, res.vals[0])
			}
		case "hrenew":
			chain := &c12Chain{height: c.cfg.height, require: c.cfg.require}
			wallet := &c12Wallet{addr: walletAddr}
			cm := &c12Contracts{existing: contracts.SignedRevision{Revision: existing}}
			sh := &SessionHandler{privateKey: c12HostKey, chain: chain, syncer: c12Syncer{}, wallet: wallet, contracts: cm,
				settings: c12SettingsStub{c.cfg.accepting, pt}, log: zap.NewNop(), tg: threadgroup.New(), priceTables: newPriceTableManager()}
			// the clearing revision is the renter's
			clearing := types.FileContractRevision{ParentID: existing.ParentID, UnlockConditions: exUC}
			clearing.FileContract = ids.build(c.clr)
			clearing.UnlockHash = existing.UnlockHash
			if c.clr.uh != 1 {
				clearing.UnlockHash = ids.uhAddr(c.clr.uh)
			}
			txn := types.Transaction{FileContracts: []types.FileContract{fc}, FileContractRevisions: []types.FileContractRevision{clearing}}
			pmsg := c12Session(t, sh, func(s *rhp3.Stream) {
				var uid rhp3.SettingsID
				if s.WriteRequest(rhp3.RPCRenewContractID, &uid) != nil {
					return
				}
				var ptResp rhp3.RPCUpdatePriceTableResponse
				if s.ReadResponse(&ptResp, 1<<16) != nil {
					return
				}
				req := &rhp3.RPCRenewContractRequest{TransactionSet: []types.Transaction{txn}, RenterKey: renterUK,
					FinalRevisionSignature: c12RenterKey.SignHash(hashFinalRevision(clearing, fc))}
				if s.WriteResponse(req) != nil {
					return
				}
				var adds rhp3.RPCRenewContractHostAdditions
				if s.ReadResponse(&adds, 1<<16) != nil {
					return
				}
				rev := rhp.InitialRevision(txn, hostUK, renterUK)
				sig := renterKey.SignHash(rhp.HashRevision(rev))
				sigs := &rhp3.RPCRenewSignatures{RevisionSignature: types.TransactionSignature{ParentID: types.Hash256(rev.ParentID),
					Signature: sig[:], CoveredFields: types.CoveredFields{FileContractRevisions: []uint64{0}}}}
				if s.WriteResponse(sigs) != nil {
					return
				}
				var hostSigs rhp3.RPCRenewSignatures
				s.ReadResponse(&hostSigs, 1<<16)
			})
			inp = fmt.Sprintf("(HRenew3 %v %s %s %s 1 %d %d %s)", c.cfg.accepting, exTerm, ids.fcTerm(clearing.FileContract, 1), ids.fcTerm(fc, 0),
				c.cfg.addr, c.cfg.require, c.cfg.priceTableTerm())
			switch {
			case pmsg != "":
				out = "Panic"
				em.Count("result:hrenew:panic")
				em.Monitor("contract-rpc-handler-panics", "handleRPCRenew: "+pmsg)
			case len(cm.rec) == 0:
				out = "(Err EInvalid)"
				em.Count("result:hrenew:err")
			default:
				nontrivial = true
				em.Count("result:hrenew:ok")
				r := cm.rec[0]
				out = fmt.Sprintf("(Ok (ORenew %s %s %s))", r.locked.ExactString(), c12UsageTerm(r.clearingU), c12UsageTerm(r.usage))
				if len(cm.rec) != 1 {
					em.Monitor("contract-recorded-more-than-once", fmt.Sprint(len(cm.rec)))
				}
				if !c.cfg.accepting {
					em.Monitor("accepted-while-not-accepting-contracts", kind)
				}
				if fc.WindowStart >= c.cfg.require {
					em.Monitor("accepted-window-start-at-or-after-v2-require-height", fmt.Sprintf("start %d require %d", fc.WindowStart, c.cfg.require))
				}
				if len(wallet.funded) != 1 || wallet.funded[0] != r.locked {
					em.Monitor("funded-amount-differs-from-locked-collateral", kind)
				}
				if c12UsageOther(r.usage) || c12UsageOther(r.clearingU) {
					em.Monitor("initial-usage-has-unexpected-categories", kind)
				}
				stored := r.revision.Revision
				if len(stored.ValidProofOutputs) != 2 || len(stored.MissedProofOutputs) != 3 || stored.RevisionNumber != 1 ||
					stored.WindowStart != fc.WindowStart || stored.WindowEnd != fc.WindowEnd {
					em.Monitor("stored-initial-revision-not-well-formed", kind)
				}
				storage, _ := c12BaseCosts(c.cfg, c.ex, c12FC{size: fc.Filesize, we: fc.WindowEnd})
				base := new(big.Int).Add(c.cfg.fixed.Big(), storage) // renew cost + storage of the extension
				minValid := new(big.Int).Add(c.cfg.price.Big(), base)
				c12MonitorAccepted(mon, kind, c.cfg, walletAddr, fc, minValid, r.locked)
				if r.usage.RPCRevenue != c.cfg.price || r.usage.StorageRevenue.Big().Cmp(base) != 0 {
					em.Monitor("initial-usage-differs-from-prices", fmt.Sprintf("rpc %v storage %v, want %v %v", r.usage.RPCRevenue.ExactString(), r.usage.StorageRevenue.ExactString(), c.cfg.price.ExactString(), base))
				}
				sum := new(big.Int).Add(r.locked.Big(), r.usage.RPCRevenue.Big())
				sum.Add(sum, r.usage.StorageRevenue.Big())
				if len(fc.ValidProofOutputs) == 2 && sum.Cmp(fc.ValidProofOutputs[1].Value.Big()) != 0 {
					em.Monitor("host-payout-differs-from-locked-plus-usage", kind)
				}
				br, _ := c12FromBig(base)
				c12MonitorRenewalFigures(mon, kind, existing.FileContract, fc, br, r.usage.RiskedCollateral)
				cl := r.clearing.Revision
				if len(cl.ValidProofOutputs) == 2 && len(existing.ValidProofOutputs) == 2 {
					got := new(big.Int).Sub(cl.ValidProofOutputs[1].Value.Big(), existing.ValidProofOutputs[1].Value.Big())
					if got.Cmp(r.clearingU.RPCRevenue.Big()) != 0 {
						em.Monitor("clearing-usage-differs-from-payout-change", "")
					}
				}
				if cl.RevisionNumber != math.MaxUint64 || cl.Filesize != 0 || cl.FileMerkleRoot != (types.Hash256{}) {
					em.Monitor("clearing-accepted-not-cleared", "")
				}
				if len(cl.ValidProofOutputs) != len(cl.MissedProofOutputs) {
					em.Monitor("clearing-accepted-missed-differs-from-valid", "count")
				} else {
					for i := range cl.ValidProofOutputs {
						if cl.ValidProofOutputs[i] != cl.MissedProofOutputs[i] {
							em.Monitor("clearing-accepted-missed-differs-from-valid", fmt.Sprint(i))
						}
					}
				}
			}
		}
		em.FunCase(id, inp, out, nontrivial)
	}
}

// c12MonitorRenewalFigures: the risked collateral is what the host's missed payout loses beyond
// the base revenue, and the renewal hands the data over unchanged.
func c12MonitorRenewalFigures(mon c12Monitor, what string, existing, fc types.FileContract, baseRev, risked types.Currency) {
	if fc.Filesize != existing.Filesize || fc.FileMerkleRoot != existing.FileMerkleRoot {
		mon("accepted-renewal-changes-data", what)
	}
	if fc.WindowEnd < existing.WindowEnd {
		mon("accepted-renewal-ends-before-existing", what)
	}
	if len(fc.ValidProofOutputs) != 2 || len(fc.MissedProofOutputs) != 3 {
		return
	}
	burn := new(big.Int).Sub(fc.ValidProofOutputs[1].Value.Big(), fc.MissedProofOutputs[1].Value.Big())
	want := new(big.Int).Sub(burn, baseRev.Big())
	if want.Sign() < 0 {
		want.SetInt64(0)
	}
	if want.Cmp(risked.Big()) != 0 {
		mon("risked-collateral-differs-from-payouts", fmt.Sprintf("%s: got %v want %v", what, risked.ExactString(), want))
	}
	if fc.MissedProofOutputs[2].Value.Big().Cmp(burn) != 0 {
		mon("accepted-renewal-burn-not-in-void-output", what)
	}
}
