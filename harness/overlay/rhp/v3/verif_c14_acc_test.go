//go:build verif

package rhp

import (
	"fmt"
	"math/big"
	"testing"

	rhp2 "go.sia.tech/core/rhp/v2"
)

// TestVerifC14Acc calls the programData accessors with boundary-dense operands under
// recover and records (accessor, data, offset, length) -> class/value for MDM/Model.v.
func TestVerifC14Acc(t *testing.T) {
	em := newVerifEmitter(t, "From HostdBase Require Import Base.\nFrom HostdMDM Require Import Model.", "(N * acc_in * res N)%type", "check_acc")
	defer em.Close()

	const fill = 0xA5
	buf := make([]byte, 2*rhp2.SectorSize+512)
	for i := range buf {
		buf[i] = fill
	}
	names := []string{"AUint64", "AHash", "ASignature", "ASector", "ABytes", "AUnlockKey"}
	need := []uint64{8, 32, 64, rhp2.SectorSize, 0, 0}

	type directed struct {
		acc      int
		n        int
		off, len uint64
	}
	max := ^uint64(0)
	dirs := []directed{
		{0, 64, max - 7, 0}, {0, 64, max, 0}, {0, 8, 0, 0}, {0, 8, 1, 0}, {0, 0, 0, 0},
		{1, 64, max - 31, 0}, {1, 32, 0, 0}, {1, 32, 1, 0},
		{2, 64, max - 63, 0}, {2, 64, 0, 0},
		{3, rhp2.SectorSize, max - rhp2.SectorSize + 1, 0}, {3, rhp2.SectorSize, 0, 0}, {3, rhp2.SectorSize, 1, 0},
		{4, 64, max, 2}, {4, 64, 1 << 63, 1 << 63}, {4, 64, 64, 0}, {4, 64, 65, 0}, {4, 64, 0, 64},
		{5, 64, 0, 8}, {5, 8, 0, 8}, {5, 64, 56, 8}, {5, 64, max - 15, 32}, {5, 64, 0, 16}, {5, 64, 0, 48}, {5, 64, 16, 48},
	}
	n := verifN(3000)
	for id := 0; id < n; id++ {
		if em.Skip(id) {
			continue
		}
		rng := verifCaseRand(id)
		em.BeginCase(id, "programData accessor")
		var acc, dn int
		var off, length uint64
		if id < len(dirs) {
			acc, dn, off, length = dirs[id].acc, dirs[id].n, dirs[id].off, dirs[id].len
		} else {
			acc = rng.Intn(6)
			switch rng.Intn(6) {
			case 0:
				dn = rng.Intn(80)
			case 1:
				dn = rhp2.SectorSize - 2 + rng.Intn(70)
			case 2:
				dn = 2*rhp2.SectorSize + rng.Intn(3)
			default:
				dn = rng.Intn(300)
			}
			off = c14Operand(rng, uint64(dn))
			length = c14Operand(rng, uint64(dn))
			if rng.Intn(3) == 0 { // length relative to what is left after the offset
				length = uint64(dn) - off - 2 + uint64(rng.Intn(5))
			}
		}
		prefix := make([]byte, rng.Intn(40))
		rng.Read(prefix)
		suffix := make([]byte, rng.Intn(40))
		rng.Read(suffix)
		d := newC14Data(buf, fill, dn, prefix, suffix)
		pd := d.pd()

		var val uint64
		var err error
		var pan any
		site := ""
		func() {
			defer func() {
				if pan = recover(); pan != nil {
					site = panicSite()
				}
			}()
			switch acc {
			case 0:
				val, err = pd.Uint64(off)
			case 1:
				_, err = pd.Hash(off)
			case 2:
				_, err = pd.Signature(off)
			case 3:
				_, err = pd.Sector(off)
			case 4:
				var b []byte
				b, err = pd.Bytes(off, length)
				val = uint64(len(b))
			case 5:
				uk, e := pd.UnlockKey(off, length)
				err = e
				val = uint64(len(uk.Key))
			}
		}()
		out := ""
		class := ""
		switch {
		case pan != nil:
			out, class = "Panic", "panic"
			em.Monitor("panic-"+site, fmt.Sprintf("%s len=%d off=%d length=%d: %v", names[acc], dn, off, length, pan))
		case err != nil:
			out, class = "(Err EInvalid)", "err"
		default:
			out, class = fmt.Sprintf("(Ok %d%%N)", val), "ok"
			// independent reference: an accepted range lies inside the data
			want := new(big.Int).SetUint64(off)
			l := need[acc]
			if acc >= 4 {
				l = length
			}
			want.Add(want, new(big.Int).SetUint64(l))
			if want.Cmp(big.NewInt(int64(dn))) > 0 {
				em.Monitor("accessor-accepted-out-of-range", fmt.Sprintf("%s len=%d off=%d length=%d", names[acc], dn, off, length))
			}
		}
		em.Count(fmt.Sprintf("%s:%s", names[acc], class))
		em.FunCase(id, fmt.Sprintf("(%s, %s, %d%%N, %d%%N)", names[acc], d.coq(), off, length), out, class == "ok")
		d.release()
	}
}
