//go:build verif

package rhp

import (
	"bytes"
	"encoding/binary"
	"encoding/json"
	"fmt"
	"net"
	"os"
	"os/exec"
	"path/filepath"
	"regexp"
	"strings"
	"testing"
	"time"

	rhp2 "go.sia.tech/core/rhp/v2"
	rhp3 "go.sia.tech/core/rhp/v3"
	"go.sia.tech/core/types"
	"go.sia.tech/hostd/v2/host/accounts"
	"go.sia.tech/hostd/v2/host/contracts"
	"go.sia.tech/hostd/v2/rhp"
	"go.uber.org/zap"
	"lukechampine.com/frand"
)

// c14Conn is an RHP3 connection whose host side runs handleHostStream in a goroutine of
// the harness that recovers, one stream at a time.
type c14Conn struct {
	rt      *rhp3.Transport
	results chan [2]any // recovered panic value and site of the last handled stream
	closeFn func()
}

func (h *c14Host) connect() *c14Conn {
	cr, ch := net.Pipe()
	c := &c14Conn{results: make(chan [2]any, 1)}
	go func() {
		t, err := rhp3.NewHostTransport(ch, h.hostKey)
		if err != nil {
			return
		}
		defer t.Close()
		for {
			stream, err := t.AcceptStream()
			if err != nil {
				return
			}
			var pan any
			site := ""
			func() {
				defer func() {
					if pan = recover(); pan != nil {
						site = panicSite()
						stream.Close()
					}
				}()
				h.sh.handleHostStream(stream, zap.NewNop())
			}()
			c.results <- [2]any{pan, site}
		}
	}()
	rt, err := rhp3.NewRenterTransport(cr, h.hostKey.PublicKey())
	if err != nil {
		h.t.Fatal(err)
	}
	c.rt = rt
	c.closeFn = func() { rt.Close(); cr.Close(); ch.Close() }
	h.t.Cleanup(c.closeFn)
	return c
}

// rpcAbort runs fn on a fresh stream and then drops the whole connection, so that a
// handler left waiting for the rest of a malformed message returns at once.  The
// connection cannot be used afterwards.
func (c *c14Conn) rpcAbort(fn func(s *rhp3.Stream)) (pan any, site string) {
	s := c.rt.DialStream()
	s.SetDeadline(time.Now().Add(2 * time.Second))
	fn(s)
	c.closeFn()
	select {
	case r := <-c.results:
		if r[0] != nil {
			return r[0], r[1].(string)
		}
	case <-time.After(20 * time.Second):
	}
	return nil, ""
}

// rpc runs fn on a fresh stream and waits for the handler to return.
func (c *c14Conn) rpc(fn func(s *rhp3.Stream)) (pan any, site string) {
	s := c.rt.DialStream()
	s.SetDeadline(time.Now().Add(30 * time.Second))
	fn(s)
	s.Close()
	r := <-c.results
	if r[0] != nil {
		return r[0], r[1].(string)
	}
	return nil, ""
}

func (h *c14Host) registerPT(pt rhp3.HostPriceTable) rhp3.HostPriceTable {
	pt.UID = frand.Entropy128()
	pt.Validity = time.Hour
	h.sh.priceTables.Register(pt)
	return pt
}

// c14Raw is a message body sent verbatim.
type c14Raw []byte

func (r *c14Raw) EncodeTo(e *types.Encoder)   { e.Write(*r) }
func (r *c14Raw) DecodeFrom(d *types.Decoder) {}

// c14Progress notes which case is about to be sent to the handler, for the supervisor.
func c14Progress(id int, p *c14Program) {
	var terms []string
	for _, in := range p.prog {
		term, _ := c14InstrCoq(in)
		terms = append(terms, term)
	}
	b, _ := json.Marshal(map[string]any{"case": id, "program": terms, "data": p.d.n})
	os.WriteFile(filepath.Join(os.Getenv("VERIF_OUT"), "exec_progress.json"), b, 0o644)
}

// c14Supervise runs the named test of this binary in a child process.  A panic in a
// goroutine the handler spawns (executeProgram) kills the child; the supervisor turns
// that into a monitor hit naming the hostd function and the case that was being executed,
// so that the check reports a failing input instead of a broken harness.
func c14Supervise(t *testing.T, run string) {
	out := os.Getenv("VERIF_OUT")
	if out == "" {
		out = t.TempDir()
	}
	cmd := exec.Command(os.Args[0], "-test.run="+run, "-test.count=1", "-test.timeout=55m")
	cmd.Env = append(os.Environ(), "VERIF_C14_INNER=1", "VERIF_OUT="+out)
	b, err := cmd.CombinedOutput()
	if err == nil {
		return
	}
	text := string(b)
	i := strings.Index(text, "panic: ")
	if i < 0 && !strings.Contains(text, "fatal error:") {
		t.Fatalf("inner test failed without a panic: %v\n%s", err, text)
	}
	if i < 0 {
		i = strings.Index(text, "fatal error:")
	}
	msg := text[i:]
	if j := strings.Index(msg, "\n"); j > 0 {
		msg = msg[:j]
	}
	site := "unknown"
	if m := regexp.MustCompile(`go\.sia\.tech/hostd/v2/([\w/]+\.[\w.()*]+)\(`).FindStringSubmatch(text[i:]); m != nil {
		site = m[1]
		if k := strings.LastIndex(site, "/"); k >= 0 {
			site = site[k+1:]
		}
		site = strings.NewReplacer("(", "", ")", "", "*", "").Replace(site)
	}
	var prog map[string]any
	if pb, err := os.ReadFile(filepath.Join(out, "exec_progress.json")); err == nil {
		json.Unmarshal(pb, &prog)
	}
	caseID := -1
	if v, ok := prog["case"].(float64); ok {
		caseID = int(v)
	}
	rec, _ := json.Marshal(map[string]any{"case": caseID, "desc": "RPCExecuteProgram through handleRPCExecute (process died)",
		"sig": "panic-handler-goroutine-" + site, "detail": fmt.Sprintf("%s; program %v, data %v bytes", msg, prog["program"], prog["data"])})
	f, err := os.OpenFile(filepath.Join(out, "monitor.jsonl"), os.O_APPEND|os.O_CREATE|os.O_WRONLY, 0o644)
	if err != nil {
		t.Fatal(err)
	}
	f.Write(append(rec, '\n'))
	f.Close()
	if _, err := os.Stat(filepath.Join(out, "stats.json")); err != nil {
		st, _ := json.Marshal(map[string]any{"cases": 0, "steps": 0, "distinct": 0, "distinct_nontrivial": 0, "hist": map[string]int{"exec:process-died": 1},
			"samples": []string{}, "monitor_failures": 1, "seed": verifSeed(), "shards": 0})
		os.WriteFile(filepath.Join(out, "stats.json"), st, 0o644)
	}
	t.Logf("inner test died: %s (site %s, case %d)", msg, site, caseID)
}

// TestVerifC14Exec sends generated MDM programs through the real handleRPCExecute
// (payment by ephemeral account, executeProgram goroutine, finalize exchange).  A panic in
// the executeProgram goroutine cannot be recovered, so every program first runs at function
// level on a scratch executor (which also yields the oracle values of its steps); only
// programs that did not crash there are sent.
func TestVerifC14Exec(t *testing.T) {
	if os.Getenv("VERIF_C14_INNER") == "" {
		c14Supervise(t, "^TestVerifC14Exec$")
		return
	}
	em := newVerifEmitter(t, "From HostdBase Require Import Base.\nFrom HostdMDM Require Import Model.", "case", "check")
	defer em.Close()
	h := newC14Host(t)
	w := newC14World(t, h)
	conn := h.connect()
	log := zap.NewNop()
	cid := h.contract.Revision.ParentID

	n := verifN(60)
	for id := 0; id < n; id++ {
		if em.Skip(id) {
			continue
		}
		rng := verifCaseRand(id)
		if h.balance().Cmp(types.Siacoins(100)) < 0 {
			h.fund(types.Siacoins(1000))
		}
		cur, err := h.node.Contracts.Contract(cid)
		if err != nil {
			t.Fatal(err)
		}
		w.baseRoots = h.node.Contracts.SectorRoots(cid)
		var p *c14Program
		if id < c14Directed {
			p = w.directed(id)
		} else {
			p = w.generate(rng, false)
		}
		// a raw request: contract id, then an instruction count that no request can hold
		var rawCount uint64
		if id == c14Directed {
			rawCount = 1 << 62
		} else if id > c14Directed && rng.Intn(25) == 0 {
			rawCount = []uint64{873814, 1 << 32, 1 << 62, ^uint64(0)}[rng.Intn(4)]
		}
		if rawCount != 0 {
			p.prog = nil
			p.attach, p.finalize = false, false
		}
		// raw byte mutations of a valid request: a search aid, evaluated by the monitors only
		mutate := rawCount == 0 && id > c14Directed && rng.Intn(20) == 0
		// keep amounts such that the account can pay
		if p.amount.Cmp(types.Siacoins(1)) > 0 {
			p.amount = types.Siacoins(1)
		}
		withContract := rng.Intn(8) != 0 || id < c14Directed
		badFinal := rng.Intn(6) == 0
		em.BeginCase(id, fmt.Sprintf("RPCExecuteProgram with %d instructions", len(p.prog)))
		c14Progress(id, p)

		// ---- function level: oracle values and crash screening
		var steps []c14Step
		crashed := false
		if budget, err := h.node.Accounts.Budget(h.account, p.amount); err == nil {
			if err := budget.Spend(accounts.Usage{RPCRevenue: p.pt.InitBaseCost}); err == nil && (withContract || !p.attach) {
				var revision *contracts.SignedRevision
				if p.attach {
					sr := cur.SignedRevision
					revision = &sr
				}
				pe, err := h.sh.newExecutor(p.prog, p.d.pd(), p.pt, budget, revision, p.finalize, log)
				if err != nil {
					t.Fatal(err)
				}
				for _, in := range p.prog {
					st := w.step(pe, in, p.d, log)
					steps = append(steps, st)
					if st.r.pan != nil {
						crashed = true
						em.Monitor("panic-"+st.r.site, fmt.Sprintf("%s: %v", st.term, st.r.pan))
					}
					if st.r.pan != nil || st.r.err != nil {
						break
					}
				}
				if pe.updater != nil {
					pe.updater.Close()
				}
			}
			budget.Rollback()
		}
		if crashed {
			em.Count("exec:skipped-crash-at-function-level")
			em.EndCase(false)
			p.d.release()
			continue
		}

		// ---- the request as the model sees it
		var progTerms []string
		for k, in := range p.prog {
			term, _ := c14InstrCoq(in)
			env := "{| oroot := 0; owrite := true; ohas := false; oread := false; oget := None; oput := true |}"
			if k < len(steps) {
				env = steps[k].env
			}
			progTerms = append(progTerms, fmt.Sprintf("(%s, %s)", term, env))
		}
		balBefore := h.balance()
		hTerm := fmt.Sprintf("{| hbal := %s; hrev := %d; hroots := %s; htemps := [] |}", coqCur(balBefore), cur.Revision.RevisionNumber, coqHashes(w.baseRoots))
		// ---- handler level
		pt := h.registerPT(p.pt)
		var outs []string
		var rerr error
		call := conn.rpc
		if mutate {
			call = conn.rpcAbort
		}
		pan, site := call(func(s *rhp3.Stream) {
			if rerr = s.WriteRequest(rhp3.RPCExecuteProgramID, &pt.UID); rerr != nil {
				return
			}
			pay := rhp3.PayByEphemeralAccountRequest{Account: h.account, Expiry: pt.HostBlockHeight + 5, Amount: p.amount}
			frand.Read(pay.Nonce[:])
			pay.Signature = h.acctKey.SignHash(pay.SigHash())
			if rerr = s.WriteResponse(&rhp3.PaymentTypeEphemeralAccount); rerr != nil {
				return
			} else if rerr = s.WriteResponse(&pay); rerr != nil {
				return
			}
			req := rhp3.RPCExecuteProgramRequest{Program: p.prog, ProgramData: p.d.pd()}
			if withContract {
				req.FileContractID = cid
			}
			if mutate {
				var buf bytes.Buffer
				enc := types.NewEncoder(&buf)
				req.EncodeTo(enc)
				enc.Flush()
				raw := c14Raw(buf.Bytes())
				limit := len(raw)
				if limit > 600 {
					limit = 600 // the header, the instructions and the start of the data
				}
				for k := 0; k < 1+rng.Intn(4); k++ {
					raw[rng.Intn(limit)] ^= byte(1 << uint(rng.Intn(8)))
				}
				if rng.Intn(3) == 0 {
					raw = raw[:rng.Intn(limit)]
				}
				rerr = s.WriteResponse(&raw)
				s.SetDeadline(time.Now().Add(2 * time.Second))
			} else if rawCount != 0 {
				raw := make(c14Raw, 40)
				copy(raw, req.FileContractID[:])
				binary.LittleEndian.PutUint64(raw[32:], rawCount)
				rerr = s.WriteResponse(&raw)
				s.SetDeadline(time.Now().Add(3 * time.Second))
			} else {
				rerr = s.WriteResponse(&req)
			}
			if rerr != nil {
				return
			}
			var cancel types.Specifier
			if rerr = s.ReadResponse(&cancel, 4096); rerr != nil {
				return
			}
			var last rhp3.RPCExecuteProgramResponse
			for k, in := range p.prog {
				var resp rhp3.RPCExecuteProgramResponse
				if rerr = s.ReadResponse(&resp, 6<<20); rerr != nil {
					return
				} else if resp.Error != nil {
					rerr = resp.Error
					return
				}
				ol := len(resp.Output)
				if _, ok := in.(*rhp3.InstrRevision); ok {
					ol = 0
				}
				outs = append(outs, fmt.Sprintf("%d%%N", ol))
				last = resp
				_ = k
			}
			if !p.finalize {
				return
			}
			// finalize: burn collateral and storage revenue from the host's missed output
			rev := cur.Revision
			rev.RevisionNumber++
			rev.Filesize = last.NewSize
			rev.FileMerkleRoot = last.NewMerkleRoot
			rev.ValidProofOutputs = append([]types.SiacoinOutput(nil), cur.Revision.ValidProofOutputs...)
			rev.MissedProofOutputs = append([]types.SiacoinOutput(nil), cur.Revision.MissedProofOutputs...)
			transfer := last.AdditionalCollateral.Add(last.FailureRefund)
			if rev.MissedProofOutputs[1].Value.Cmp(transfer) < 0 {
				// the host's missed output cannot cover the burn: no acceptable revision exists
				badFinal = true
				transfer = types.ZeroCurrency
			}
			rev.MissedProofOutputs[1].Value = rev.MissedProofOutputs[1].Value.Sub(transfer)
			rev.MissedProofOutputs[2].Value = rev.MissedProofOutputs[2].Value.Add(transfer)
			fin := rhp3.RPCFinalizeProgramRequest{RevisionNumber: rev.RevisionNumber, Signature: h.renterKey.SignHash(rhp.HashRevision(rev))}
			for _, o := range rev.ValidProofOutputs {
				fin.ValidProofValues = append(fin.ValidProofValues, o.Value)
			}
			for _, o := range rev.MissedProofOutputs {
				fin.MissedProofValues = append(fin.MissedProofValues, o.Value)
			}
			if badFinal {
				fin.Signature[7] ^= 0x11
			}
			if rerr = s.WriteResponse(&fin); rerr != nil {
				return
			}
			var fresp rhp3.RPCFinalizeProgramResponse
			rerr = s.ReadResponse(&fresp, 4096)
		})
		final := "None"
		if !badFinal {
			final = fmt.Sprintf("(Some %d%%N)", cur.Revision.RevisionNumber+1)
		}
		declared := uint64(len(p.prog))
		if rawCount != 0 {
			declared = rawCount
		}
		qTerm := fmt.Sprintf("{| qamount := %s; qcontract := %s; qdeclared := %d; qprog := %s; qdata := %s; qpt := %s; qdur := %d; qfinal := %s |}",
			coqCur(p.amount), coqBool(withContract), declared, coqList(progTerms), p.d.coq(), c14PtCoq(p.pt), p.dur, final)
		after, err := h.node.Contracts.Contract(cid)
		if err != nil {
			t.Fatal(err)
		}
		rootsAfter := h.node.Contracts.SectorRoots(cid)
		balAfter := h.balance()
		// temporary sectors referenced afterwards: stored roots of executed StoreSector steps
		ntemps, newTemps := 0, 0
		var stored []types.Hash256
		for k, st := range steps {
			if _, ok := p.prog[k].(*rhp3.InstrStoreSector); ok && st.r.err == nil && st.r.pan == nil {
				var root types.Hash256
				copy(root[:], st.r.out)
				if ok, _ := h.node.Volumes.HasSector(root); ok {
					ntemps++
					if !w.tempRef[root] {
						newTemps++
					}
				}
				stored = append(stored, root)
			}
		}
		outcome := ""
		switch {
		case pan != nil:
			outcome = "Crashed"
			em.Monitor("panic-"+site, fmt.Sprint(pan))
			em.Count("exec:panic")
		case rerr != nil:
			outcome = "(Rejected EInvalid)"
			em.Count("exec:rejected")
			// property monitors: a rejected program leaves revision and roots alone and is
			// charged at most its budget
			if after.Revision.RevisionNumber != cur.Revision.RevisionNumber || fmt.Sprint(rootsAfter) != fmt.Sprint(w.baseRoots) {
				em.Monitor("rejected-program-changed-contract", fmt.Sprintf("revision %d -> %d: %v", cur.Revision.RevisionNumber, after.Revision.RevisionNumber, rerr))
			}
			if balBefore.Cmp(balAfter) < 0 || balBefore.Sub(balAfter).Cmp(p.amount) > 0 {
				em.Monitor("rejected-program-overcharged", fmt.Sprintf("balance %v -> %v, budget %v", balBefore, balAfter, p.amount))
			}
			if newTemps > 0 {
				em.Monitor("rejected-program-kept-temp-sector", fmt.Sprint(newTemps))
			}
		default:
			outcome = "(Done " + coqList(outs) + ")"
			em.Count("exec:done")
			for _, r := range stored {
				w.tempRef[r] = true
			}
		}
		if strings.HasPrefix(outcome, "(Rejected") || outcome == "Crashed" {
			ntemps = 0
		}
		if mutate {
			conn = h.connect()
			em.Count("exec:byte-mutated")
			if pan == nil && balBefore.Cmp(balAfter) >= 0 && balBefore.Sub(balAfter).Cmp(p.amount) > 0 {
				em.Monitor("mutated-request-overcharged", fmt.Sprintf("balance %v -> %v, budget %v", balBefore, balAfter, p.amount))
			}
			em.EndCase(false)
			p.d.release()
			h.contract = after.SignedRevision
			continue
		}
		em.Step(fmt.Sprintf("OpProgram %s %s", hTerm, qTerm),
			fmt.Sprintf("OProg %s %s %d %s %d", outcome, coqCur(balAfter), after.Revision.RevisionNumber, coqHashes(rootsAfter), ntemps))
		em.Count(fmt.Sprintf("exec:finalize=%v,contract=%v", p.finalize, withContract))
		em.EndCase(rerr == nil && pan == nil)
		p.d.release()
		h.contract = after.SignedRevision
	}
}

// TestVerifC14Fund drives RPCFundAccount (processFundAccountPayment) and the base-cost
// arithmetic of RPCRenewContract through the real handlers with hostile amounts, and
// records them for MDM/Rpc.v.
func TestVerifC14Fund(t *testing.T) {
	em := newVerifEmitter(t, "From HostdBase Require Import Base.\nFrom HostdMDM Require Import Model Rpc.", "rcase", "check_rpc")
	defer em.Close()
	h := newC14Host(t)
	conn := h.connect()
	cid := h.contract.Revision.ParentID
	settings := h.node.Settings.Settings()
	target := rhp3.Account(types.NewPrivateKeyFromSeed([]byte(strings.Repeat("f", 32))).PublicKey())

	n := verifN(150)
	for id := 0; id < n; id++ {
		if em.Skip(id) {
			continue
		}
		rng := verifCaseRand(id)
		cur, err := h.node.Contracts.Contract(cid)
		if err != nil {
			t.Fatal(err)
		}
		balBefore, err := h.node.Accounts.Balance(target)
		if err != nil {
			t.Fatal(err)
		}
		kind := rng.Intn(9)
		if id < 3 {
			kind = []int{0, 0, 7}[id]
		}
		if kind == 8 {
			// ---------------------------------------------------- RPCLatestRevision / RPCAccountBalance, monitors only
			em.BeginCase(id, "RPCLatestRevision / RPCAccountBalance with unknown ids and truncated payments")
			var rid types.FileContractID
			rng.Read(rid[:])
			if rng.Intn(2) == 0 {
				rid = cid
			}
			pan, site := conn.rpc(func(s *rhp3.Stream) {
				s.SetDeadline(time.Now().Add(2 * time.Second))
				if err := s.WriteRequest(rhp3.RPCLatestRevisionID, &rhp3.RPCLatestRevisionRequest{ContractID: rid}); err != nil {
					return
				}
				var resp rhp3.RPCLatestRevisionResponse
				s.ReadResponse(&resp, 1<<16)
			})
			if pan != nil {
				em.Monitor("panic-"+site, fmt.Sprintf("RPCLatestRevision %v: %v", rid, pan))
			}
			pt := h.registerPT(rhp3.HostPriceTable{AccountBalanceCost: types.NewCurrency64(uint64(rng.Intn(3))), HostBlockHeight: h.node.Chain.Tip().Height})
			pan, site = conn.rpc(func(s *rhp3.Stream) {
				s.SetDeadline(time.Now().Add(2 * time.Second))
				if err := s.WriteRequest(rhp3.RPCAccountBalanceID, &pt.UID); err != nil {
					return
				}
				pay := rhp3.PayByEphemeralAccountRequest{Account: h.account, Expiry: pt.HostBlockHeight + uint64(rng.Intn(40)), Amount: types.NewCurrency64(uint64(rng.Intn(4)))}
				if rng.Intn(3) == 0 {
					pay.Amount = types.NewCurrency(^uint64(0), ^uint64(0))
				}
				pay.Signature = h.acctKey.SignHash(pay.SigHash())
				s.WriteResponse(&rhp3.PaymentTypeEphemeralAccount)
				s.WriteResponse(&pay)
				s.WriteResponse(&rhp3.RPCAccountBalanceRequest{Account: target})
				var resp rhp3.RPCAccountBalanceResponse
				s.ReadResponse(&resp, 4096)
			})
			if pan != nil {
				em.Monitor("panic-"+site, fmt.Sprintf("RPCAccountBalance: %v", pan))
			}
			em.Count("other-handlers")
			em.EndCase(false)
			continue
		}
		if kind < 7 {
			// ---------------------------------------------------- RPCFundAccount
			cost := []types.Currency{types.ZeroCurrency, types.NewCurrency64(1), types.NewCurrency64(5), types.Siacoins(1)}[rng.Intn(4)]
			var total types.Currency
			switch rng.Intn(8) {
			case 0:
				total = types.ZeroCurrency
			case 1:
				if !cost.IsZero() {
					total = cost.Sub(types.NewCurrency64(1))
				}
			case 2:
				total = cost
			case 3:
				total = cost.Add(types.NewCurrency64(1))
			case 4:
				total = settings.MaxAccountBalance.Add(cost).Sub(balBefore) // exactly up to the limit
				if rng.Intn(2) == 0 {
					total = total.Add(types.NewCurrency64(1))
				}
			default:
				total = cost.Add(types.Siacoins(uint32(1 + rng.Intn(50))))
			}
			switch id {
			case 0: // pays nothing although the RPC costs 1 H
				cost, total = types.NewCurrency64(1), types.ZeroCurrency
			case 1:
				cost, total = types.NewCurrency64(5), types.NewCurrency64(4)
			}
			pt := h.registerPT(rhp3.HostPriceTable{FundAccountCost: cost, HostBlockHeight: h.node.Chain.Tip().Height})
			sr := c14PayRevision(cur.Revision, total, h.hostKey, h.renterKey)
			revOk, sigOk := true, true
			switch rng.Intn(10) {
			case 0: // stale revision number
				sr.Revision.RevisionNumber = cur.Revision.RevisionNumber
				sr.RenterSignature = h.renterKey.SignHash(rhp.HashRevision(sr.Revision))
				revOk = false
			case 1: // host missed output not credited
				sr.Revision.MissedProofOutputs[1].Value = cur.Revision.MissedProofOutputs[1].Value
				sr.Revision.MissedProofOutputs[2].Value = sr.Revision.MissedProofOutputs[2].Value.Add(total)
				sr.RenterSignature = h.renterKey.SignHash(rhp.HashRevision(sr.Revision))
				revOk = total.IsZero()
			case 2:
				sr.RenterSignature[9] ^= 0x40
				sigOk = false
			}
			em.BeginCase(id, "RPCFundAccount")
			em.Step(fmt.Sprintf("RSetAccount %s", coqCur(balBefore)), "RDone")
			op := fmt.Sprintf("RFund {| fdRevOk := %s; fdTotal := %s; fdCost := %s; fdSigOk := %s; fdMaxBal := %s |}",
				coqBool(revOk), coqCur(total), coqCur(cost), coqBool(sigOk), coqCur(settings.MaxAccountBalance))
			var rerr error
			var resp rhp3.RPCFundAccountResponse
			pan, site := conn.rpc(func(s *rhp3.Stream) {
				if rerr = s.WriteRequest(rhp3.RPCFundAccountID, &pt.UID); rerr != nil {
					return
				} else if rerr = s.WriteResponse(&rhp3.RPCFundAccountRequest{Account: target}); rerr != nil {
					return
				} else if rerr = s.WriteResponse(&rhp3.PaymentTypeContract); rerr != nil {
					return
				}
				pay := rhp3.PayByContractRequest{ContractID: cid, RevisionNumber: sr.Revision.RevisionNumber, RefundAccount: target, Signature: sr.RenterSignature}
				for _, o := range sr.Revision.ValidProofOutputs {
					pay.ValidProofValues = append(pay.ValidProofValues, o.Value)
				}
				for _, o := range sr.Revision.MissedProofOutputs {
					pay.MissedProofValues = append(pay.MissedProofValues, o.Value)
				}
				if rerr = s.WriteResponse(&pay); rerr != nil {
					return
				}
				var pr rhp3.PaymentResponse
				if rerr = s.ReadResponse(&pr, 4096); rerr != nil {
					return
				}
				rerr = s.ReadResponse(&resp, 4096)
			})
			balAfter, _ := h.node.Accounts.Balance(target)
			after, _ := h.node.Contracts.Contract(cid)
			res := ""
			switch {
			case pan != nil:
				res = "Panic"
				em.Monitor("panic-"+site, fmt.Sprintf("%s: %v", op, pan))
				em.Count("fund:panic")
			case rerr != nil:
				res = "(Err EInvalid)"
				em.Count("fund:err")
				if !balAfter.Equals(balBefore) {
					em.Monitor("rejected-fund-changed-balance", fmt.Sprintf("%v -> %v", balBefore, balAfter))
				}
				if after.Revision.RevisionNumber != cur.Revision.RevisionNumber {
					em.Monitor("rejected-fund-changed-revision", fmt.Sprintf("%d -> %d", cur.Revision.RevisionNumber, after.Revision.RevisionNumber))
				}
			default:
				res = fmt.Sprintf("(Ok %s)", coqCur(resp.Receipt.Amount))
				em.Count("fund:ok")
				if !resp.Receipt.Amount.Add(cost).Equals(total) {
					em.Monitor("fund-amount-differs-from-payment-minus-cost", fmt.Sprintf("amount %v cost %v payment %v", resp.Receipt.Amount, cost, total))
				}
			}
			em.Step(op, fmt.Sprintf("RFundRes %s %s", res, coqCur(balAfter)))
			em.EndCase(rerr == nil && pan == nil)
			// keep the target account away from the limit
			if balAfter.Cmp(settings.MaxAccountBalance.Div64(2)) > 0 {
				target = rhp3.Account(types.NewPrivateKeyFromSeed([]byte(fmt.Sprintf("%032d", id))).PublicKey())
			}
			continue
		}
		// -------------------------------------------------------- RPCRenewContract base costs
		fs := []uint64{0, cur.Revision.Filesize, 1 << 40, 1 << 63, ^uint64(0)}[rng.Intn(5)]
		we := []uint64{0, cur.Revision.WindowEnd, cur.Revision.WindowEnd + 1, cur.Revision.WindowEnd + 1000, ^uint64(0)}[rng.Intn(5)]
		if id == 2 {
			fs, we = ^uint64(0), ^uint64(0)
		}
		ptv := rhp3.HostPriceTable{RenewContractCost: types.NewCurrency64(7), WriteStoreCost: types.NewCurrency64(uint64(1) << uint(rng.Intn(40))),
			CollateralCost: types.NewCurrency64(uint64(1) << uint(rng.Intn(40))), HostBlockHeight: h.node.Chain.Tip().Height}
		pt := h.registerPT(ptv)
		em.BeginCase(id, "RPCRenewContract with hostile filesize / window end")
		em.Step(fmt.Sprintf("RSetContract %d []", cur.Revision.RevisionNumber), "RDone")
		op := fmt.Sprintf("RRenewCosts %s %s %s %d %d %d", coqCur(pt.RenewContractCost), coqCur(pt.WriteStoreCost), coqCur(pt.CollateralCost), fs, cur.Revision.WindowEnd, we)
		var rerr error
		pan, site := conn.rpc(func(s *rhp3.Stream) {
			if rerr = s.WriteRequest(rhp3.RPCRenewContractID, &pt.UID); rerr != nil {
				return
			}
			// the clearing revision: same payouts, maximal revision number, no data
			clearing := cur.Revision
			clearing.RevisionNumber = types.MaxRevisionNumber
			clearing.Filesize, clearing.FileMerkleRoot = 0, types.Hash256{}
			clearing.ValidProofOutputs = append([]types.SiacoinOutput(nil), cur.Revision.ValidProofOutputs...)
			clearing.MissedProofOutputs = append([]types.SiacoinOutput(nil), cur.Revision.ValidProofOutputs...)
			renewal := types.FileContract{Filesize: fs, FileMerkleRoot: cur.Revision.FileMerkleRoot, WindowStart: 10, WindowEnd: we,
				ValidProofOutputs:  []types.SiacoinOutput{{}, {}},
				MissedProofOutputs: []types.SiacoinOutput{{}, {}, {}}}
			req := rhp3.RPCRenewContractRequest{
				TransactionSet: []types.Transaction{{FileContracts: []types.FileContract{renewal}, FileContractRevisions: []types.FileContractRevision{clearing}}},
				RenterKey:      h.renterKey.PublicKey().UnlockKey(),
			}
			req.FinalRevisionSignature = h.renterKey.SignHash(hashFinalRevision(clearing, renewal))
			if rerr = s.WriteResponse(&req); rerr != nil {
				return
			}
			var resp rhp3.RPCRenewContractHostAdditions
			rerr = s.ReadResponse(&resp, 1<<20)
		})
		after, _ := h.node.Contracts.Contract(cid)
		res := "(Ok [])"
		switch {
		case pan != nil:
			res = "Panic"
			em.Monitor("panic-"+site, fmt.Sprintf("%s: %v", op, pan))
		case rerr != nil && strings.Contains(rerr.Error(), "costs overflow"):
			res = "(Err EInvalid)"
			em.Count("renewcosts:overflow")
		default:
			em.Count("renewcosts:computed")
		}
		if rerr != nil && after.Revision.RevisionNumber != cur.Revision.RevisionNumber {
			em.Monitor("rejected-renewal-changed-revision", fmt.Sprintf("%d -> %d", cur.Revision.RevisionNumber, after.Revision.RevisionNumber))
		}
		em.Step(op, fmt.Sprintf("RRes %s %d []", res, after.Revision.RevisionNumber))
		em.EndCase(false)
	}
	_ = rhp2.SectorSize
}
