//go:build verif

package rhp_test

// C13 (WP-N) — renewals racing with paying RPCs on the same contract.
//
// Reuses the two-session machinery of verif_c07_conc_test.go (WP-L: a real host node whose RHP2 /
// RHP3 session handlers see gated ContractManager / AccountManager wrappers; RPC A is parked at a
// chosen point, RPC B is started, the interleaving is controlled, not timed).  Here one RPC of
// every pair is a paying RPC (RHP3 fund-account, price table, account balance, latest revision,
// execute-program paid by contract: all of them counter-sign a payment revision and persist it
// through accounts.Credit) and the other one a renewal of the same contract (RHP3 renew, RHP2
// renew-and-clear), in both roles: the payment parked between counter-signing and persisting while
// the renewal arrives, the renewal parked while the payment arrives, and the other park points.
//
// C13's own predicate is evaluated after every pair in which the host accepted a renewal:
//
//   renewed-predecessor-reports-revisable   the predecessor is not at the maximum revision number /
//                                           still claims a file
//   renewed-predecessor-accepts-lock        Manager.Lock admits it
//   renewed-predecessor-accepts-revision    a paying RPC on it is accepted
//   successor-list-differs-from-predecessor / renewal-links-not-mutual
//
// and the history of the pair (lock hand-overs, decided and persisted payment revisions, the renewal)
// is recorded for coq/Roots/Sess.v in the order the host's gates saw it.

import (
	"context"
	"fmt"
	"math"
	"strings"
	"testing"
	"time"

	crhp2 "go.sia.tech/core/rhp/v2"
	crhp3 "go.sia.tech/core/rhp/v3"
	"go.sia.tech/core/types"
)

const c13ConcHeader = "From HostdBase Require Import Base.\nFrom HostdRoots Require Import Model Sess.\nOpen Scope N_scope."

// the model's window check uses the default revision submission buffer while this host runs with a
// short one: the recorded window starts are moved out of its reach (the implementation's Lock is
// what decides whether a contract is still inside its window, and it is recorded)
const c13WindowShift = 100000

type c13Conc struct {
	*concCase
	real    *verifEmitter
	rootNum map[types.Hash256]int
	hashNum map[types.Hash256]int
	cidNum  map[types.FileContractID]int
	hit     map[string]bool
	renewals int
}

func (x *c13Conc) rN(r types.Hash256) int {
	if n, ok := x.rootNum[r]; ok {
		return n
	}
	x.rootNum[r] = len(x.rootNum) + 1
	return x.rootNum[r]
}
func (x *c13Conc) hN(h types.Hash256) int {
	if h == (types.Hash256{}) {
		return 0
	}
	if n, ok := x.hashNum[h]; ok {
		return n
	}
	x.hashNum[h] = len(x.hashNum) + 1
	return x.hashNum[h]
}
func (x *c13Conc) cN(id types.FileContractID) int {
	if n, ok := x.cidNum[id]; ok {
		return n
	}
	x.cidNum[id] = len(x.cidNum) + 1
	return x.cidNum[id]
}
func (x *c13Conc) roots(l []types.Hash256) string {
	items := make([]string, len(l))
	for i, r := range l {
		items[i] = fmt.Sprint(x.rN(r))
	}
	return "[" + strings.Join(items, "; ") + "]"
}
func (x *c13Conc) opt(id types.FileContractID) string {
	if id == (types.FileContractID{}) {
		return "None"
	}
	return fmt.Sprintf("(Some %d)", x.cN(id))
}

func (x *c13Conc) monitor(sig, detail string) {
	if x.hit[sig] {
		return
	}
	x.hit[sig] = true
	x.real.Monitor(sig, detail)
}

func c13Eq(a, b []types.Hash256) bool {
	if len(a) != len(b) {
		return false
	}
	for i := range a {
		if a[i] != b[i] {
			return false
		}
	}
	return true
}

// look records Store.SectorRoots / Manager.SectorRoots / Store.Contract of one contract
func (x *c13Conc) look(id types.FileContractID) {
	node := x.h.node
	all, err := node.Store.SectorRoots()
	if err != nil {
		x.t.Fatal(err)
	}
	c, err := node.Contracts.Contract(id)
	if err != nil {
		x.t.Fatal(err)
	}
	x.real.Step(fmt.Sprintf("SOp 0 (Look1 %d)", x.cN(id)), fmt.Sprintf("SO (OLook true %s %s %d %d %d %s %s)", x.roots(all[id]), x.roots(node.Contracts.SectorRoots(id)),
		c.Revision.RevisionNumber, c.Revision.Filesize, x.hN(c.Revision.FileMerkleRoot), x.opt(c.RenewedTo), x.opt(c.RenewedFrom)))
}

// prefix: the contract of the case as the model has to know it before the first pair
func (x *c13Conc) prefix() {
	node := x.h.node
	id := x.cons[0].id
	c, err := node.Contracts.Contract(id)
	if err != nil {
		x.t.Fatal(err)
	}
	list := node.Contracts.SectorRoots(id)
	st := func(op, obs string) { x.real.Step("SOp 0 ("+op+")", "SO ("+obs+")") }
	for _, r := range list {
		st(fmt.Sprintf("StoreSec %d", x.rN(r)), "ORes (Ok tt)")
	}
	n := x.cN(id)
	st(fmt.Sprintf("Form1 %d 1 0 0 %d", n, c.Revision.WindowStart+c13WindowShift), "ORes (Ok tt)")
	st(fmt.Sprintf("Lock1 %d", n), "ORes (Ok tt)")
	st(fmt.Sprintf("Open1 0 %d", n), "ORes (Ok tt)")
	for i, r := range list {
		st(fmt.Sprintf("Act 0 (Append %d)", x.rN(r)), fmt.Sprintf("OAct (Ok tt) %s", x.roots(list[:i+1])))
	}
	st(fmt.Sprintf("Commit1 0 %d %d %d None", c.Revision.RevisionNumber, c.Revision.Filesize, x.hN(c.Revision.FileMerkleRoot)), "ORes (Ok tt)")
	st("Close1 0", "ORes (Ok tt)")
	st(fmt.Sprintf("Unlock1 %d", n), "ORes (Ok tt)")
	x.look(id)
}

// record: the events of one pair, in the order the gates saw them, as sessions of coq/Roots/Sess.v
func (x *c13Conc) record(pred types.FileContractID, evs []concEvent) {
	node := x.h.node
	n := x.cN(pred)
	sess := map[string]int{"A": 1, "B": 2}
	for k, e := range evs {
		t, ok := sess[e.tag]
		if !ok {
			continue
		}
		switch {
		case e.point == cpLockAcq && e.rev != nil:
			x.real.Step(fmt.Sprintf("SAcq1 %d %d", t, n), fmt.Sprintf("SOLock1 (Ok (%d, %d, %d))", e.rev.RevisionNumber, e.rev.Filesize, x.hN(e.rev.FileMerkleRoot)))
		case e.point == cpUnlockReq:
			parkedHere := k+1 < len(evs) && evs[k+1].tag == e.tag && evs[k+1].point == "parked" && evs[k+1].what == cpUnlockReq
			if !parkedHere {
				x.real.Step(fmt.Sprintf("SRel %d %d", t, n), "SO (ORes (Ok tt))")
			}
		case e.point == "released" && e.what == cpUnlockReq:
			x.real.Step(fmt.Sprintf("SRel %d %d", t, n), "SO (ORes (Ok tt))")
		case e.point == cpPersistIn && e.what == "credit" && e.rev != nil:
			x.real.Step(fmt.Sprintf("SPayDecide %d %d", t, e.rev.RevisionNumber), "SO (ORes (Ok tt))")
		case e.point == cpPersistOut && e.what == "credit":
			x.real.Step(fmt.Sprintf("SPayPersist %d true", t), "SO (ORes (Ok tt))")
		case e.point == "persist-fail" && e.what == "credit":
			x.real.Step(fmt.Sprintf("SPayPersist %d false", t), "SO (ORes (Err EOther))")
		case e.point == cpPersistOut && e.what == "renew":
			pc, err := node.Contracts.Contract(pred)
			if err != nil {
				x.t.Fatal(err)
			}
			sc, err := node.Contracts.Contract(pc.RenewedTo)
			if err != nil {
				x.t.Fatalf("the renewal of contract %d was stored but its successor %v cannot be read: %v", n, pc.RenewedTo, err)
			}
			// the tail of the handler: the pool accepted the set, then Manager.RenewContract
			x.real.Step(fmt.Sprintf("SRenewH %d true (Renew1 %d %d %d 0 0 %d %d %d %d %d None)", t, n, x.cN(pc.RenewedTo), uint64(math.MaxUint64),
				sc.Revision.RevisionNumber, sc.Revision.Filesize, x.hN(sc.Revision.FileMerkleRoot), sc.Revision.WindowStart+c13WindowShift, x.hN(sc.Revision.FileMerkleRoot)),
				"SO (ORes (Ok tt))")
		}
	}
}

// afterPair: bookkeeping, the record and C13's predicate
func (x *c13Conc) afterPair(con int, p concPair, before []types.Hash256, evs []concEvent) {
	node := x.h.node
	pred := x.cons[con]
	x.record(pred.id, evs)
	pc, err := node.Contracts.Contract(pred.id)
	if err != nil {
		x.t.Fatal(err)
	}
	x.look(pred.id)
	if pc.RenewedTo == (types.FileContractID{}) {
		x.real.Count("pair:no-renewal-accepted")
		return
	}
	x.renewals++
	x.real.Count("pair:renewal-accepted")
	known := false
	for _, ct := range x.cons {
		known = known || ct.id == pc.RenewedTo
	}
	if !known { // the host stored the renewal although its renter did not hear of it
		x.cons = append(x.cons, &c10Contract{id: pc.RenewedTo, key: pred.key})
	}
	x.look(pc.RenewedTo)
	desc := fmt.Sprintf("%v; %s", p, concTrace(evs))
	pn, sn := x.cN(pred.id), x.cN(pc.RenewedTo)

	// the predecessor reports itself non-revisable ...
	if pc.Revision.RevisionNumber != types.MaxRevisionNumber || pc.Revision.Filesize != 0 || pc.Revision.FileMerkleRoot != (types.Hash256{}) {
		x.monitor("renewed-predecessor-reports-revisable", fmt.Sprintf("contract %d was renewed to %d and is at revision %d with file size %d; %s", pn, sn, pc.Revision.RevisionNumber, pc.Revision.Filesize, desc))
	}
	// ... and refuses further revisions
	ctx, cancel := context.WithTimeout(context.Background(), 5*time.Second)
	if _, err := node.Contracts.Lock(ctx, pred.id); err == nil {
		node.Contracts.Unlock(pred.id)
		x.monitor("renewed-predecessor-accepts-lock", fmt.Sprintf("Manager.Lock admits contract %d after it was renewed to %d; %s", pn, sn, desc))
	}
	cancel()
	q := &concReq{kind: ckFund3, tag: "A", con: con, acct: 0, bump: 1, extra: types.Siacoins(1).Div64(10), from: pc.Revision, sigBase: pc.Revision}
	if pc.Revision.RevisionNumber != types.MaxRevisionNumber && len(pc.Revision.ValidProofOutputs) == 2 && len(pc.Revision.MissedProofOutputs) >= 2 {
		x.ch.g.begin(pred.id)
		x.prepare(q)
		x.run(q)
		x.waitUnlocked()
		x.ch.g.end()
		if q.err == nil {
			x.monitor("renewed-predecessor-accepts-revision", fmt.Sprintf("an RHP3 fund-account payment (revision %d) was accepted on contract %d after it was renewed to %d; %s", q.prop.rn, pn, sn, desc))
		}
	}
	// the successor holds the predecessor's data and the links are mutual
	sc, err := node.Contracts.Contract(pc.RenewedTo)
	if err != nil {
		x.monitor("successor-missing-after-renewal", fmt.Sprintf("contract %d: %v", sn, err))
		return
	}
	all, err := node.Store.SectorRoots()
	if err != nil {
		x.t.Fatal(err)
	}
	sdb, scache := all[pc.RenewedTo], node.Contracts.SectorRoots(pc.RenewedTo)
	if !c13Eq(sdb, scache) || !c13Eq(sdb, before) || sc.Revision.Filesize != uint64(len(sdb))*crhp2.SectorSize || sc.Revision.FileMerkleRoot != crhp2.MetaRoot(sdb) {
		x.monitor("successor-list-differs-from-predecessor", fmt.Sprintf("predecessor %d held %s; successor %d: store %s, manager %s, file size %d; %s", pn, x.roots(before), sn, x.roots(sdb), x.roots(scache), sc.Revision.Filesize, desc))
	}
	if sc.RenewedFrom != pred.id || len(all[pred.id]) != 0 {
		x.monitor("renewal-links-not-mutual", fmt.Sprintf("successor %d renewed_from %s; predecessor %d keeps %d roots; %s", sn, x.opt(sc.RenewedFrom), pn, len(all[pred.id]), desc))
	}
}

var c13PayKinds = []concKind{ckFund3, ckPT3, ckBal3, ckRev3, ckExec3P}
var c13RenewKinds = []concKind{ckRenew3, ckRenew2}

func c13Directed(id int) []concPair {
	switch id {
	case 0:
		return []concPair{
			// the seeded C13-mut7 schedule: a fund-account payment that is counter-signed but not yet
			// persisted, a renewal of the same contract built on the stored revision
			{a: ckFund3, point: cpPersistIn, b: ckRenew3, next: false, bumpA: 1, bumpB: 1, extraA: 5},
			// ... and built on the revision the payment will leave
			{a: ckFund3, point: cpPersistIn, b: ckRenew3, next: true, bumpA: 1, bumpB: 1, extraA: 3},
			{a: ckPT3, point: cpPersistIn, b: ckRenew2, next: false, bumpA: 1, bumpB: 1, extraA: 2, extraB: 1},
			{a: ckExec3P, point: cpPersistIn, b: ckRenew2, next: true, bumpA: 1, bumpB: 1, extraA: 2, extraB: 1},
		}
	case 1:
		return []concPair{
			{a: ckBal3, point: cpPersistIn, b: ckRenew3, next: false, bumpA: 1, bumpB: 1, extraA: 4},
			{a: ckRev3, point: cpPersistOut, b: ckRenew3, next: true, bumpA: 1, bumpB: 1, extraA: 2},
			{a: ckFund3, point: cpLockAcq, b: ckRenew2, next: true, bumpA: 1, bumpB: 1, extraA: 3, extraB: 1},
			{a: ckFund3, point: cpUnlockReq, b: ckRenew3, next: true, bumpA: 1, bumpB: 1, extraA: 1},
		}
	case 2:
		return []concPair{
			// the renewal is the parked one
			{a: ckRenew3, point: cpPersistIn, b: ckFund3, next: false, bumpA: 1, bumpB: 1, extraB: 3},
			{a: ckRenew2, point: cpPersistOut, b: ckPT3, next: false, bumpA: 1, bumpB: 1, extraA: 1, extraB: 2},
			{a: ckRenew3, point: cpLockReq, b: ckFund3, next: true, bumpA: 1, bumpB: 1, extraB: 4},
			{a: ckRenew2, point: cpLockAcq, b: ckBal3, next: false, bumpA: 1, bumpB: 1, extraA: 1, extraB: 2},
		}
	}
	return nil
}

const c13ConcDirected = 3

func (x *c13Conc) genPair() concPair {
	r := x.rng
	p := concPair{bumpA: 1, bumpB: 1, extraA: 1 + r.Intn(5), extraB: 1 + r.Intn(5), next: r.Intn(2) == 0}
	pay, renew := c13PayKinds[r.Intn(len(c13PayKinds))], c13RenewKinds[r.Intn(len(c13RenewKinds))]
	if r.Intn(3) > 0 {
		p.a, p.b = pay, renew
		// mostly between counter-signing and persisting
		p.point = []string{cpPersistIn, cpPersistIn, cpPersistIn, cpPersistOut, cpLockAcq, cpUnlockReq, cpLockReq}[r.Intn(7)]
	} else {
		p.a, p.b = renew, pay
		p.point = concPoints[r.Intn(len(concPoints))]
	}
	return p
}

func (x *c13Conc) runCase(id int) {
	x.out.BeginCase(id, "scratch")
	x.setup()
	x.prefix()
	pairs := c13Directed(id)
	if pairs == nil {
		for k := 0; k < 4; k++ {
			pairs = append(pairs, x.genPair())
		}
	}
	for _, p := range pairs {
		con := len(x.cons) - 1
		before := x.h.node.Contracts.SectorRoots(x.cons[con].id)
		x.real.Count("pair:A=" + p.a.String())
		x.real.Count("pair:B=" + p.b.String())
		x.real.Count("pair:park=" + p.point)
		if !x.pair(con, p) {
			break
		}
		x.afterPair(con, p, before, x.ch.g.snapshot())
	}
	x.end2()
	x.out.EndCase(false)
}

func TestVerifC13Conc(t *testing.T) {
	em := newVerifEmitter(t, c13ConcHeader, "scase", "scheck")
	defer em.Close()
	ch := newConcHost(t)
	n := verifN(3)
	for id := 0; id < n+c13ConcDirected; id++ {
		if em.Skip(id) {
			continue
		}
		scratch := concScratchEmitter(t)
		x := &c13Conc{concCase: &concCase{c10Case: &c10Case{h: ch.c10Host, em: scratch, rng: verifCaseRand(id)}, ch: ch, mode: "c10", t: t, out: scratch,
			pts: map[string]crhp3.HostPriceTable{}, monitored: map[string]bool{}},
			real: em, rootNum: map[types.Hash256]int{}, hashNum: map[types.Hash256]int{}, cidNum: map[types.FileContractID]int{}, hit: map[string]bool{}}
		em.BeginCase(id, "a renewal (RHP3 renew / RHP2 renew-and-clear) racing with paying RHP3 RPCs on the same contract")
		x.runCase(id)
		em.EndCase(x.renewals > 0)
	}
}
