//go:build verif

package rhp_test

// WP-L — revising RPCs decide under the contract lock (C07, C10).
//
// Every other session harness runs the RPCs of one contract one after the other.  This file
// runs every revising RPC of RHP2 and RHP3 against a real host node WHILE another revising RPC on
// the same contract is in flight, with the interleaving controlled, not timed:
//
//   * the host node is the repository's own (chain manager, wallet, sqlite store, contract
//     manager, account manager, volume manager) except that the dependencies handed to the RHP2 and
//     RHP3 session handlers are wrapped with gates: the contract manager (Lock, Unlock,
//     RenewContract), the account manager (Credit) and — below the contract manager — the
//     ContractStore (ReviseContract, where every ContractUpdater.Commit ends).  There are two
//     session handlers per protocol ("A" and "B"), each with its own wrappers, over ONE contract
//     manager (one locker), one account manager and one store: an event is attributed to the RPC
//     that caused it.
//   * RPC A is parked at a chosen point (before Lock; after Lock returned; validated and signed,
//     before persisting; persisted, before the caller hears of it; before Unlock), RPC B is started
//     (built by the renter on the base revision, or on the revision the first of the two will
//     produce), the harness waits — long deadline — until B's handler asks for the contract lock,
//     looks for a short while whether B gets any further, releases A, lets both finish.
//   * recorded: the total order of lock / persist events, the revisions the host counter-signed (in
//     the order it signed them) and persisted, what the contract and the accounts look like after
//     the first and after the second RPC in commit order.
//
// TestVerifC07Conc evaluates the C07 monitors on these histories and records the decided requests
// in commit order as runs of coq/Lifetime (life); TestVerifC10Conc (verif_c10_conc_test.go)
// evaluates the conservation monitors and records the RPCs in commit order for coq/Revenue.  Both
// evaluate the structural monitor decision-outside-lock.
//
// Uses the RPC term builders and the read-back (observe) of verif_c10_v1_test.go.

import (
	"bytes"
	"context"
	"encoding/binary"
	"encoding/json"
	"errors"
	"fmt"
	"math"
	"net"
	"os"
	"path/filepath"
	"strings"
	"sync"
	"testing"
	"time"

	crhp2 "go.sia.tech/core/rhp/v2"
	crhp3 "go.sia.tech/core/rhp/v3"
	"go.sia.tech/core/types"
	"go.sia.tech/coreutils/wallet"
	"go.sia.tech/hostd/v2/certificates"
	"go.sia.tech/hostd/v2/host/accounts"
	"go.sia.tech/hostd/v2/host/contracts"
	"go.sia.tech/hostd/v2/host/registry"
	"go.sia.tech/hostd/v2/host/settings"
	"go.sia.tech/hostd/v2/host/storage"
	"go.sia.tech/hostd/v2/index"
	"go.sia.tech/hostd/v2/internal/testutil"
	proto2 "go.sia.tech/hostd/v2/internal/testutil/rhp/v2"
	proto3 "go.sia.tech/hostd/v2/internal/testutil/rhp/v3"
	"go.sia.tech/hostd/v2/persist/sqlite"
	"go.sia.tech/hostd/v2/rhp"
	rhp2 "go.sia.tech/hostd/v2/rhp/v2"
	rhp3 "go.sia.tech/hostd/v2/rhp/v3"
	"go.uber.org/zap"
)

// ---------------------------------------------------------------- gates and the event log

// park points of an RPC
const (
	cpLockReq    = "lock-req"    // the handler asks for the contract lock (holds nothing)
	cpLockAcq    = "lock-acq"    // Lock returned: holds the lock, has read the stored revision
	cpPersistIn  = "persist-in"  // validated and counter-signed, about to persist
	cpPersistOut = "persist-out" // persisted, the caller does not know yet
	cpUnlockReq  = "unlock-req"  // done, about to release the lock
)

var concPoints = []string{cpLockReq, cpLockAcq, cpPersistIn, cpPersistOut, cpUnlockReq}

type concEvent struct {
	tag   string // "A", "B", "?" (a store write nobody announced)
	point string // a park point, or lock-fail, persist-fail, unlocked, parked, released, host-sig
	what  string // credit | revise | renew
	rev   *types.FileContractRevision
}

func (e concEvent) String() string {
	s := e.tag + ":" + e.point
	if e.what != "" {
		s += "(" + e.what + ")"
	}
	if e.rev != nil {
		s += fmt.Sprintf("#%d", e.rev.RevisionNumber)
	}
	return s
}

// concGate is the event log of the contract under test plus the armed / occupied park points.
type concGate struct {
	mu     sync.Mutex
	notify chan struct{}
	active bool
	cid    types.FileContractID
	events []concEvent
	armed  map[string]bool
	parked map[string]chan struct{}
	keys   map[string]string // revision key -> tag that announced it
	faults map[string]bool   // tag -> the next persisting call of this RPC fails (WP-Q7)
}

func newConcGate() *concGate {
	return &concGate{notify: make(chan struct{}), armed: map[string]bool{}, parked: map[string]chan struct{}{}, keys: map[string]string{}}
}

// concKey identifies a proposed revision by what the renter chooses: number and values
func concKey(num uint64, valid, missed []types.Currency) string {
	var sb strings.Builder
	fmt.Fprintf(&sb, "%d", num)
	for _, v := range valid {
		sb.WriteString("|" + v.ExactString())
	}
	sb.WriteString("/")
	for _, v := range missed {
		sb.WriteString("|" + v.ExactString())
	}
	return sb.String()
}

func concRevKey(r types.FileContractRevision) string {
	var vs, ms []types.Currency
	for _, o := range r.ValidProofOutputs {
		vs = append(vs, o.Value)
	}
	for _, o := range r.MissedProofOutputs {
		ms = append(ms, o.Value)
	}
	return concKey(r.RevisionNumber, vs, ms)
}

func (g *concGate) wake() {
	close(g.notify)
	g.notify = make(chan struct{})
}

// begin starts a new history on contract cid
func (g *concGate) begin(cid types.FileContractID) {
	g.mu.Lock()
	defer g.mu.Unlock()
	g.active, g.cid = true, cid
	g.events = nil
	g.armed = map[string]bool{}
	g.keys = map[string]string{}
	g.faults = map[string]bool{}
}

func (g *concGate) end() {
	g.mu.Lock()
	defer g.mu.Unlock()
	g.active = false
	for k, ch := range g.parked { // never leave a handler parked
		close(ch)
		delete(g.parked, k)
	}
	g.wake()
}

func (g *concGate) announce(tag, key string) {
	g.mu.Lock()
	defer g.mu.Unlock()
	if _, taken := g.keys[key]; !taken {
		g.keys[key] = tag
	}
}

func (g *concGate) arm(tag, point string) {
	g.mu.Lock()
	defer g.mu.Unlock()
	g.armed[tag+"/"+point] = true
}

// armFault makes the next persisting call of tag's RPC fail with an injected error (WP-Q7): the
// wrapper returns the error without calling the store, as a full disk or an I/O error would
func (g *concGate) armFault(tag string) {
	g.mu.Lock()
	defer g.mu.Unlock()
	g.faults[tag] = true
}

// takeFault reports (and consumes) the armed fault of the RPC that is persisting rev; tag "" = look
// the tag up by the revision (store level)
func (g *concGate) takeFault(tag string, cid types.FileContractID, rev *types.FileContractRevision) bool {
	g.mu.Lock()
	defer g.mu.Unlock()
	if !g.active || cid != g.cid {
		return false
	}
	if tag == "" && rev != nil {
		tag = g.keys[concRevKey(*rev)]
	}
	if tag == "" || !g.faults[tag] {
		return false
	}
	delete(g.faults, tag)
	return true
}

var errConcInjected = errors.New("injected fault: disk I/O error")

func (g *concGate) disarm(tag, point string) {
	g.mu.Lock()
	defer g.mu.Unlock()
	delete(g.armed, tag+"/"+point)
}

// hit records an event of the contract under test and parks the caller when the point is armed.
// tag "" = look the tag up by the revision (store level).
func (g *concGate) hit(tag, point, what string, cid types.FileContractID, rev *types.FileContractRevision) {
	g.mu.Lock()
	if !g.active || cid != g.cid {
		g.mu.Unlock()
		return
	}
	if tag == "" {
		tag = "?"
		if rev != nil {
			if t, ok := g.keys[concRevKey(*rev)]; ok {
				tag = t
			}
		}
	}
	var cp *types.FileContractRevision
	if rev != nil {
		c := *rev
		c.ValidProofOutputs = append([]types.SiacoinOutput(nil), rev.ValidProofOutputs...)
		c.MissedProofOutputs = append([]types.SiacoinOutput(nil), rev.MissedProofOutputs...)
		cp = &c
	}
	g.events = append(g.events, concEvent{tag: tag, point: point, what: what, rev: cp})
	k := tag + "/" + point
	var rel chan struct{}
	if g.armed[k] {
		delete(g.armed, k)
		rel = make(chan struct{})
		g.parked[k] = rel
		g.events = append(g.events, concEvent{tag: tag, point: "parked", what: point})
	}
	g.wake()
	g.mu.Unlock()
	if rel != nil {
		select {
		case <-rel:
		case <-time.After(25 * time.Second): // the test died: do not hold the host's goroutine forever
		}
	}
}

// note records a renter-side event (a host signature arrived)
func (g *concGate) note(tag, point string) {
	g.mu.Lock()
	defer g.mu.Unlock()
	if g.active {
		g.events = append(g.events, concEvent{tag: tag, point: point})
		g.wake()
	}
}

func (g *concGate) release(tag, point string) {
	g.mu.Lock()
	defer g.mu.Unlock()
	k := tag + "/" + point
	if ch, ok := g.parked[k]; ok {
		close(ch)
		delete(g.parked, k)
		g.events = append(g.events, concEvent{tag: tag, point: "released", what: point})
		g.wake()
	}
}

func (g *concGate) isParked(tag, point string) bool { // g.mu held
	_, ok := g.parked[tag+"/"+point]
	return ok
}

// wait blocks until pred (evaluated under the lock) holds or d has passed
func (g *concGate) wait(d time.Duration, pred func() bool) bool {
	deadline := time.NewTimer(d)
	defer deadline.Stop()
	for {
		g.mu.Lock()
		ok := pred()
		ch := g.notify
		g.mu.Unlock()
		if ok {
			return true
		}
		select {
		case <-ch:
		case <-deadline.C:
			g.mu.Lock()
			ok := pred()
			g.mu.Unlock()
			return ok
		}
	}
}

func (g *concGate) has(tag, point string) bool { // g.mu held
	for _, e := range g.events {
		if e.tag == tag && e.point == point {
			return true
		}
	}
	return false
}

// holds: tag holds the contract lock according to the log (g.mu held)
func (g *concGate) holds(tag string) bool {
	h := false
	for _, e := range g.events {
		if e.tag != tag {
			continue
		}
		switch e.point {
		case cpLockAcq:
			h = true
		case cpUnlockReq:
			h = false
		}
	}
	return h
}

func (g *concGate) snapshot() []concEvent {
	g.mu.Lock()
	defer g.mu.Unlock()
	return append([]concEvent(nil), g.events...)
}

func concTrace(evs []concEvent) string {
	var parts []string
	for _, e := range evs {
		parts = append(parts, e.String())
	}
	return strings.Join(parts, " ")
}

// ---------------------------------------------------------------- wrapped dependencies

type concContracts struct {
	*contracts.Manager
	g   *concGate
	tag string
}

func (c *concContracts) Lock(ctx context.Context, id types.FileContractID) (contracts.SignedRevision, error) {
	c.g.hit(c.tag, cpLockReq, "", id, nil)
	rev, err := c.Manager.Lock(ctx, id)
	if err != nil {
		c.g.hit(c.tag, "lock-fail", "", id, nil)
		return rev, err
	}
	c.g.hit(c.tag, cpLockAcq, "", id, &rev.Revision)
	return rev, nil
}

func (c *concContracts) Unlock(id types.FileContractID) {
	c.g.hit(c.tag, cpUnlockReq, "", id, nil)
	c.Manager.Unlock(id)
	c.g.hit(c.tag, "unlocked", "", id, nil)
}

func (c *concContracts) RenewContract(renewal contracts.SignedRevision, existing contracts.SignedRevision, formationSet []types.Transaction, lockedCollateral types.Currency, clearingUsage, renewalUsage contracts.Usage) error {
	id := existing.Revision.ParentID
	c.g.hit(c.tag, cpPersistIn, "renew", id, &existing.Revision)
	if c.g.takeFault(c.tag, id, &existing.Revision) {
		c.g.hit(c.tag, "persist-fault", "renew", id, &existing.Revision)
		return errConcInjected
	}
	err := c.Manager.RenewContract(renewal, existing, formationSet, lockedCollateral, clearingUsage, renewalUsage)
	if err != nil {
		c.g.hit(c.tag, "persist-fail", "renew", id, &existing.Revision)
		return err
	}
	c.g.hit(c.tag, cpPersistOut, "renew", id, &existing.Revision)
	return nil
}

type concAccounts struct {
	*accounts.AccountManager
	g   *concGate
	tag string
}

func (a *concAccounts) Credit(req accounts.FundAccountWithContract, refund bool) (types.Currency, error) {
	id := req.Revision.Revision.ParentID
	a.g.hit(a.tag, cpPersistIn, "credit", id, &req.Revision.Revision)
	if a.g.takeFault(a.tag, id, &req.Revision.Revision) {
		a.g.hit(a.tag, "persist-fault", "credit", id, &req.Revision.Revision)
		return types.ZeroCurrency, errConcInjected
	}
	bal, err := a.AccountManager.Credit(req, refund)
	if err != nil {
		a.g.hit(a.tag, "persist-fail", "credit", id, &req.Revision.Revision)
		return bal, err
	}
	a.g.hit(a.tag, cpPersistOut, "credit", id, &req.Revision.Revision)
	return bal, nil
}

// concStore sits between the contract manager and the sqlite store: every ContractUpdater.Commit
// (RHP2 read / write / sector roots, RHP3 program finalisation) ends in ReviseContract
type concStore struct {
	*sqlite.Store
	g *concGate
}

func (s *concStore) ReviseContract(revision contracts.SignedRevision, oldRoots []types.Hash256, usage contracts.Usage, sectorChanges []contracts.SectorChange) error {
	id := revision.Revision.ParentID
	s.g.hit("", cpPersistIn, "revise", id, &revision.Revision)
	if s.g.takeFault("", id, &revision.Revision) {
		s.g.hit("", "persist-fault", "revise", id, &revision.Revision)
		return errConcInjected
	}
	err := s.Store.ReviseContract(revision, oldRoots, usage, sectorChanges)
	if err != nil {
		s.g.hit("", "persist-fail", "revise", id, &revision.Revision)
		return err
	}
	s.g.hit("", cpPersistOut, "revise", id, &revision.Revision)
	return nil
}

// ---------------------------------------------------------------- the host

type concHost struct {
	*c10Host
	g            *concGate
	addr2, addr3 map[string]string // tag -> listener address
}

// newConcHost is testutil.NewHostNode with the gated store under the contract manager, two RHP2 and
// two RHP3 session handlers ("A", "B") over the same managers
func newConcHost(t *testing.T) *concHost {
	log := zap.NewNop()
	hostKey := types.NewPrivateKeyFromSeed(bytes.Repeat([]byte{7}, 32))
	network, genesis := testutil.V1Network()
	network.HardforkV2.AllowHeight = 1 << 30
	network.HardforkV2.RequireHeight = 1<<30 + 1000
	g := newConcGate()

	cn := testutil.NewConsensusNode(t, network, genesis, log)
	wm, err := wallet.NewSingleAddressWallet(hostKey, cn.Chain, cn.Store)
	if err != nil {
		t.Fatal("failed to create wallet:", err)
	}
	t.Cleanup(func() { wm.Close() })
	vm, err := storage.NewVolumeManager(cn.Store, storage.WithLogger(log), storage.WithPruneInterval(30*time.Second))
	if err != nil {
		t.Fatal("failed to create volume manager:", err)
	}
	t.Cleanup(func() { vm.Close() })
	cm, err := contracts.NewManager(&concStore{Store: cn.Store, g: g}, vm, cn.Chain, cn.Syncer, wm, contracts.WithRejectAfter(10), contracts.WithRevisionSubmissionBuffer(5), contracts.WithLog(log))
	if err != nil {
		t.Fatal("failed to create contracts manager:", err)
	}
	t.Cleanup(func() { cm.Close() })
	initialSettings := settings.DefaultSettings
	initialSettings.AcceptingContracts = true
	initialSettings.NetAddress = "127.0.0.1"
	initialSettings.WindowSize = 10
	sm, err := settings.NewConfigManager(hostKey, cn.Store, cn.Chain, cn.Syncer, vm, wm, settings.WithAnnounceInterval(10), settings.WithValidateNetAddress(false), settings.WithInitialSettings(initialSettings))
	if err != nil {
		t.Fatal(err)
	}
	idx, err := index.NewManager(cn.Store, cn.Chain, cm, wm, sm, vm, index.WithLog(log), index.WithBatchSize(1))
	if err != nil {
		t.Fatal("failed to create index manager:", err)
	}
	t.Cleanup(func() { idx.Close() })
	am := accounts.NewManager(cn.Store, sm)
	rm := registry.NewManager(hostKey, cn.Store, log)
	t.Cleanup(func() { rm.Close() })
	certs, err := certificates.NewManager("", hostKey, certificates.WithLog(log))
	if err != nil {
		t.Fatal("failed to create certificates manager:", err)
	}
	t.Cleanup(func() { certs.Close() })
	// the harness reads balances through a manager of its own: it has no open budgets, so it
	// reports what is stored (an RPC parked half-way has its budget open in the host's manager)
	amObs := accounts.NewManager(cn.Store, sm)
	node := &testutil.HostNode{ConsensusNode: *cn, Certs: certs, Settings: sm, Wallet: wm, Contracts: cm, Volumes: vm, Indexer: idx, Accounts: amObs, Registry: rm}

	testutil.MineAndSync(t, node, node.Wallet.Address(), int(network.MaturityDelay+20))
	res := make(chan error)
	if _, err := node.Volumes.AddVolume(context.Background(), filepath.Join(t.TempDir(), "storage.dat"), 256, res); err != nil {
		t.Fatal(err)
	} else if err := <-res; err != nil {
		t.Fatal(err)
	}

	h := &concHost{g: g, addr2: map[string]string{}, addr3: map[string]string{}}
	for _, tag := range []string{"A", "B"} {
		l2, err := net.Listen("tcp", "localhost:0")
		if err != nil {
			t.Fatal(err)
		}
		t.Cleanup(func() { l2.Close() })
		l3, err := net.Listen("tcp", "localhost:0")
		if err != nil {
			t.Fatal(err)
		}
		t.Cleanup(func() { l3.Close() })
		cw := &concContracts{Manager: cm, g: g, tag: tag}
		aw := &concAccounts{AccountManager: am, g: g, tag: tag}
		sh2 := rhp2.NewSessionHandler(l2, hostKey, node.Chain, node.Syncer, node.Wallet, cw, node.Settings, node.Volumes, log)
		t.Cleanup(func() { sh2.Close() })
		go sh2.Serve()
		sh3 := rhp3.NewSessionHandler(l3, hostKey, node.Chain, node.Syncer, node.Wallet, aw, cw, node.Registry, node.Volumes, node.Settings, log)
		t.Cleanup(func() { sh3.Close() })
		go sh3.Serve()
		h.addr2[tag], h.addr3[tag] = sh2.LocalAddr(), sh3.LocalAddr()
	}
	h.c10Host = &c10Host{t: t, node: node, hostKey: hostKey, rhp2Addr: h.addr2["A"], rhp3Addr: h.addr3["A"]}
	for i := 0; i < 4; i++ {
		var s [crhp2.SectorSize]byte
		binary.LittleEndian.PutUint64(s[:8], uint64(i)+1)
		copy(s[8:], "verif-conc")
		h.sectors = append(h.sectors, s)
		h.roots = append(h.roots, crhp2.SectorRoot(&s))
	}
	h.keeper()
	return h
}

// ---------------------------------------------------------------- one RPC of a pair

type concKind int

const (
	ckWrite2 concKind = iota
	ckRead2
	ckRoots2
	ckRenew2
	ckSession2
	ckPT3
	ckBal3
	ckRev3
	ckFund3
	ckExec3P
	ckExec3C
	ckRenew3
	concNumKinds
)

var concKindName = [...]string{"write2", "read2", "roots2", "renew2", "session2", "pricetable3", "balance3", "latestrev3", "fund3", "exec3pay", "exec3fin", "renew3"}

func (k concKind) String() string { return concKindName[k] }
func (k concKind) rhp2() bool     { return k <= ckSession2 }
func (k concKind) renews() bool   { return k == ckRenew2 || k == ckRenew3 }

// the store call in which the RPC persists its revision ("" = none)
func (k concKind) persists() string {
	switch k {
	case ckWrite2, ckRead2, ckRoots2, ckExec3C:
		return "revise"
	case ckRenew2, ckRenew3:
		return "renew"
	case ckSession2:
		return ""
	}
	return "credit"
}

type concReq struct {
	kind  concKind
	tag   string
	con   int // contract index in the case
	acct  int // the account of this tag (refund account / fund target / paying account)
	bump  uint64
	extra types.Currency // over-payment
	// what the renter builds on: numbers and values from `from`; file size, root and everything else
	// from `sigBase`, the revision the renter expects the host to hold when it decides
	from, sigBase types.FileContractRevision
	roots         []types.Hash256 // sector roots of sigBase

	// prepared
	prop     c10Prop // payment / revision proposal
	hasProp  bool
	lifeKind string         // rev | pay | prog | "" : how coq/Lifetime sees the request
	price    types.Currency // what the host must at least gain (C07)
	maxburn  types.Currency // what the host may at most lose on the missed side (C07)
	opTerm   string         // the RPC for coq/Revenue
	expected types.FileContractRevision // the stored revision if the host accepts
	expRoots []types.Hash256

	// kind specific
	actions  []crhp2.RPCWriteAction
	costs2   crhp2.RPCCost
	sections []crhp2.RPCReadRequestSection
	cost3    types.Currency
	icost    crhp3.ResourceCost
	payAmt   types.Currency // exec3fin: withdrawal from the account
	poolIdx  int
	nsec      int  // read2: number of sections (default 1)
	earlyStop bool // read2: the renter sends the stop signal right after the request

	ct     *c10Contract // the contract (fixed before the RPC runs in its goroutine)
	nextID int          // model id a renewed contract would get

	// outcome
	err error
	// the host signature the renter received and the revision it is for (WP-Q7)
	gotSig types.Signature
	sigRev types.FileContractRevision
	hasSig bool
	// renew3: the wallet the renter's session signs with (nil = the node's)
	wallet3 proto3.Wallet
	newID   types.FileContractID
	renewed bool
	skipped string // the RPC could not be built (e.g. no funds): nothing was sent
}

// received: the renter side got a host signature for rev
func (q *concReq) received(g *concGate, rev types.FileContractRevision, sig types.Signature) {
	q.gotSig, q.sigRev, q.hasSig = sig, concCopyRev(rev), true
	g.note(q.tag, "host-sig")
}

func (q *concReq) key() string {
	return concKey(q.prop.rn, q.prop.valid(), q.propMissed())
}

func (q *concReq) propMissed() []types.Currency {
	if len(q.sigBase.MissedProofOutputs) == 2 {
		return q.prop.missed()[:2]
	}
	return q.prop.missed()
}

// concCase drives one contract: setup, then pairs
type concCase struct {
	*c10Case
	ch   *concHost
	mode string // "c07" | "c10"
	t    *testing.T
	out  *verifEmitter // the emitter of the running test (c.em is a scratch emitter in c07 mode)
	pts  map[string]crhp3.HostPriceTable
	// life runs recorded for coq/Lifetime (c07 mode)
	lifeIn, lifeOut []string
	pairs           int
	mine            bool
	monitored       map[string]bool
}

func (c *concCase) stored(con int) types.FileContractRevision {
	return c.contract(con).Revision
}

func concCopyRev(r types.FileContractRevision) types.FileContractRevision {
	n := r
	n.ValidProofOutputs = append([]types.SiacoinOutput(nil), r.ValidProofOutputs...)
	n.MissedProofOutputs = append([]types.SiacoinOutput(nil), r.MissedProofOutputs...)
	return n
}

// with numbers and values of `from`, everything else of `sigBase`
func concMerge(from, sigBase types.FileContractRevision) types.FileContractRevision {
	n := concCopyRev(sigBase)
	n.RevisionNumber = from.RevisionNumber
	for i := range n.ValidProofOutputs {
		if i < len(from.ValidProofOutputs) {
			n.ValidProofOutputs[i].Value = from.ValidProofOutputs[i].Value
		}
	}
	for i := range n.MissedProofOutputs {
		if i < len(from.MissedProofOutputs) {
			n.MissedProofOutputs[i].Value = from.MissedProofOutputs[i].Value
		}
	}
	return n
}

// prepare computes the proposal, the model terms and the expected result of q
func (c *concCase) prepare(q *concReq) {
	h := c.h
	st := c.settings2()
	pt := c.pts[q.tag]
	i := q.con
	from := q.from
	sectors := q.sigBase.Filesize / crhp2.SectorSize
	remaining := q.sigBase.WindowEnd - h.node.Chain.Tip().Height
	q.expected, q.expRoots = concCopyRev(q.sigBase), q.roots
	q.ct, q.nextID = c.cons[q.con], len(c.cons)+1
	setNum := func(p c10Prop) c10Prop {
		p.rn = from.RevisionNumber + q.bump
		return p
	}
	acct := q.acct + 1
	switch q.kind {
	case ckWrite2:
		s := &h.sectors[q.poolIdx]
		q.actions = []crhp2.RPCWriteAction{{Type: crhp2.RPCWriteActionAppend, Data: s[:]}}
		costs, err := st.RPCWriteCost(q.actions, sectors, remaining, false)
		if err != nil {
			q.skipped = err.Error()
			return
		}
		q.costs2 = costs
		cost, coll := costs.Total()
		q.prop, q.hasProp = setNum(c.rhp2Prop(from, cost.Add(q.extra), coll, 0)), true
		q.lifeKind, q.price, q.maxburn = "rev", cost, coll
		q.opTerm = fmt.Sprintf("Write2 %d %s %s", i+1, c10CostTerm(costs.Base, costs.Storage, costs.Ingress, costs.Egress, costs.Collateral), q.prop.term())
		q.expected = q.prop.apply(q.sigBase)
		q.expRoots = append(append([]types.Hash256(nil), q.roots...), h.roots[q.poolIdx])
		q.expected.Filesize += crhp2.SectorSize
		q.expected.FileMerkleRoot = crhp2.MetaRoot(q.expRoots)
	case ckRead2, ckRoots2:
		var costs crhp2.RPCCost
		name := "Read2"
		if q.kind == ckRoots2 && sectors > 0 {
			costs = st.RPCSectorRootsCost(0, 1)
			name = "Roots2"
		} else {
			q.kind = ckRead2
			q.sections = []crhp2.RPCReadRequestSection{{MerkleRoot: h.roots[0], Offset: 64, Length: 128}}
			for k := 1; k < q.nsec; k++ {
				q.sections = append(q.sections, crhp2.RPCReadRequestSection{MerkleRoot: h.roots[k%len(h.roots)], Offset: uint64(64 * k), Length: 64})
			}
			var err error
			if costs, err = st.RPCReadCost(q.sections, false); err != nil {
				q.skipped = err.Error()
				return
			}
		}
		q.costs2 = costs
		cost, _ := costs.Total()
		q.prop, q.hasProp = setNum(c.rhp2Prop(from, cost.Add(q.extra), types.ZeroCurrency, 0)), true
		q.lifeKind, q.price = "rev", cost
		q.opTerm = fmt.Sprintf("%s %d %s %s", name, i+1, c10CostTerm(costs.Base, costs.Storage, costs.Ingress, costs.Egress, costs.Collateral), q.prop.term())
		q.expected = q.prop.apply(q.sigBase)
	case ckRenew2, ckRenew3:
		// built when it runs (needs the wallet); if accepted the contract is cleared
		q.expected.RevisionNumber = math.MaxUint64
	case ckSession2:
	case ckPT3, ckBal3, ckRev3, ckExec3P:
		var term string
		switch q.kind {
		case ckPT3:
			q.cost3 = pt.UpdatePriceTableCost
		case ckBal3:
			q.cost3 = pt.AccountBalanceCost
		case ckRev3:
			q.cost3 = pt.LatestRevisionCost
		default:
			q.icost = pt.HasSectorCost()
			t, _ := q.icost.Total()
			q.cost3 = pt.InitBaseCost.Add(t)
		}
		q.prop, q.hasProp = setNum(c.rhp3Prop(from, q.cost3.Add(q.extra), 0)), true
		pay := fmt.Sprintf("(PayContract %d %d %s)", i+1, acct, q.prop.term())
		if q.kind == ckExec3P {
			in := c10Instr{kind: "KPlain", cost: q.icost, pre: true, post: true}
			term = fmt.Sprintf("Exec3 %s None %s [%s] (mkProp 0 0 0 0 0 0)", pay, c10Cur(pt.InitBaseCost), in.term())
		} else {
			term = fmt.Sprintf("Simple3 %s %s", pay, c10Cur(q.cost3))
		}
		q.lifeKind, q.opTerm = "pay", term
		q.expected = q.prop.apply(q.sigBase)
	case ckFund3:
		q.cost3 = pt.FundAccountCost
		q.prop, q.hasProp = setNum(c.rhp3Prop(from, q.cost3.Add(q.extra), 0)), true
		q.lifeKind = "pay"
		q.opTerm = fmt.Sprintf("Fund3 %d %d %s %s %s", i+1, acct, c10Cur(q.cost3), c10Cur(h.node.Settings.Settings().MaxAccountBalance), q.prop.term())
		q.expected = q.prop.apply(q.sigBase)
	case ckExec3C:
		// one AppendSectorRoot of a sector the host stores, paid from the tag's account, finalised
		// with the whole allowance burnt
		q.icost = pt.AppendSectorRootCost(q.sigBase.WindowEnd - pt.HostBlockHeight)
		t, _ := q.icost.Total()
		q.payAmt = pt.InitBaseCost.Add(t).Add(types.NewCurrency64(7))
		r := c10RevOf(from)
		burn := c10Min(q.icost.Collateral.Add(q.icost.Storage), r.mh)
		q.prop, q.hasProp = c10Prop{rn: from.RevisionNumber + q.bump, vr: r.vr, vh: r.vh, mr: r.mr, mh: r.mh.Sub(burn), mv: r.mv.Add(burn)}, true
		q.lifeKind, q.maxburn = "prog", q.icost.Storage.Add(q.icost.Collateral)
		in := c10Instr{kind: "KPlain", cost: q.icost, pre: true, post: true, con: true, fin: true}
		q.opTerm = fmt.Sprintf("Exec3 (PayAccount %d %s) (Some %d) %s [%s] %s", acct, c10Cur(q.payAmt), i+1, c10Cur(pt.InitBaseCost), in.term(), q.prop.term())
		q.expected = q.prop.apply(q.sigBase)
		q.expRoots = append(append([]types.Hash256(nil), q.roots...), h.roots[q.poolIdx])
		q.expected.Filesize += crhp2.SectorSize
		q.expected.FileMerkleRoot = crhp2.MetaRoot(q.expRoots)
	}
	if q.hasProp {
		c.ch.g.announce(q.tag, q.key())
	}
}

func (c *concCase) dialTag2(tag string) (*crhp2.Transport, error) {
	conn, err := net.Dial("tcp", c.ch.addr2[tag])
	if err != nil {
		return nil, err
	}
	tr, err := crhp2.NewRenterTransport(conn, c.h.hostKey.PublicKey())
	if err != nil {
		conn.Close()
		return nil, err
	}
	return tr, nil
}

func (c *concCase) dialTag3(tag string) (*crhp3.Transport, error) {
	conn, err := net.Dial("tcp", c.ch.addr3[tag])
	if err != nil {
		return nil, err
	}
	tr, err := crhp3.NewRenterTransport(conn, c.h.hostKey.PublicKey())
	if err != nil {
		conn.Close()
		return nil, err
	}
	return tr, nil
}

// drain waits until the host's handler has closed the stream (it does so after its deferred
// commit / rollback / unlock ran)
func concDrain(s *crhp3.Stream) {
	s.SetDeadline(time.Now().Add(20 * time.Second))
	for k := 0; k < 16; k++ {
		var dummy crhp3.RPCPriceTableResponse
		if err := s.ReadResponse(&dummy, 8<<20); err != nil && (c10Closed(err) || strings.Contains(err.Error(), "deadline")) {
			return
		}
	}
}

// run performs q against the host (in its own goroutine). No testing.T calls in here.
func (c *concCase) run(q *concReq) {
	defer func() {
		if r := recover(); r != nil {
			q.err = fmt.Errorf("renter side panic: %v", r)
		}
	}()
	if q.skipped != "" {
		q.err = errors.New("not sent: " + q.skipped)
		return
	}
	if q.kind.rhp2() {
		q.err = c.run2(q)
	} else {
		q.err = c.run3(q)
	}
}

func (c *concCase) run2(q *concReq) error {
	ct := q.ct
	tr, err := c.dialTag2(q.tag)
	if err != nil {
		return err
	}
	defer tr.Close()
	locked, err := proto2.RPCLock(tr, ct.key, ct.id)
	if err != nil {
		return fmt.Errorf("lock: %w", err)
	}
	defer proto2.RPCUnlock(tr)
	return c.rpc2(q, tr, locked)
}

// rpc2 sends one RHP2 RPC inside the locked session tr; locked is the revision the renter knows
// the host to hold
func (c *concCase) rpc2(q *concReq, tr *crhp2.Transport, locked crhp2.ContractRevision) error {
	ct := q.ct
	g := c.ch.g
	// the renter signs what the host will build: its own numbers and values on the revision the
	// host returned from the lock
	cand := func() types.FileContractRevision {
		nr := q.prop.apply(locked.Revision)
		return nr
	}
	switch q.kind {
	case ckSession2:
		return nil
	case ckRoots2:
		req := &crhp2.RPCSectorRootsRequest{RootOffset: 0, NumRoots: 1, RevisionNumber: q.prop.rn, ValidProofValues: q.prop.valid(), MissedProofValues: q.prop.missed(),
			Signature: ct.key.SignHash(c10Hash(cand()))}
		if err := tr.WriteRequest(crhp2.RPCSectorRootsID, req); err != nil {
			return err
		}
		var resp crhp2.RPCSectorRootsResponse
		if err := tr.ReadResponse(&resp, 1<<20); err != nil {
			return err
		}
		q.received(g, cand(), resp.Signature)
		return nil
	case ckRead2:
		req := &crhp2.RPCReadRequest{Sections: q.sections, MerkleProof: false, RevisionNumber: q.prop.rn, ValidProofValues: q.prop.valid(), MissedProofValues: q.prop.missed(),
			Signature: ct.key.SignHash(c10Hash(cand()))}
		if err := tr.WriteRequest(crhp2.RPCReadID, req); err != nil {
			return err
		}
		if q.earlyStop {
			// the renter has seen enough before the host has sent anything: the host answers
			// with one more (signed) section and ends the RPC
			if err := tr.WriteResponse(&crhp2.RPCReadStop); err != nil {
				return err
			}
			for range q.sections {
				var resp crhp2.RPCReadResponse
				if err := tr.ReadResponse(&resp, 1<<20); err != nil {
					return err
				} else if resp.Signature != (types.Signature{}) {
					q.received(g, cand(), resp.Signature)
					return nil
				}
			}
			g.note(q.tag, "host-sig")
			return nil
		}
		var rerr error
		for range q.sections {
			var resp crhp2.RPCReadResponse
			if err := tr.ReadResponse(&resp, 1<<20); err != nil {
				rerr = err
				break
			}
			if resp.Signature != (types.Signature{}) {
				q.received(g, cand(), resp.Signature)
			} else {
				g.note(q.tag, "host-sig")
			}
		}
		tr.WriteResponse(&crhp2.RPCReadStop)
		return rerr
	case ckWrite2:
		req := &crhp2.RPCWriteRequest{Actions: q.actions, MerkleProof: false, RevisionNumber: q.prop.rn, ValidProofValues: q.prop.valid(), MissedProofValues: q.prop.missed()}
		if err := tr.WriteRequest(crhp2.RPCWriteID, req); err != nil {
			return err
		}
		var merkle crhp2.RPCWriteMerkleProof
		if err := tr.ReadResponse(&merkle, 1<<20); err != nil {
			return err
		}
		nr := cand()
		nr.Filesize = locked.Revision.Filesize + crhp2.SectorSize
		nr.FileMerkleRoot = merkle.NewMerkleRoot
		if err := tr.WriteResponse(&crhp2.RPCWriteResponse{Signature: ct.key.SignHash(c10Hash(nr))}); err != nil {
			return err
		}
		var hostSig crhp2.RPCWriteResponse
		if err := tr.ReadResponse(&hostSig, 4096); err != nil {
			return err
		}
		q.received(g, nr, hostSig.Signature)
		return nil
	case ckRenew2:
		return c.runRenew2(q, tr, locked)
	}
	return errors.New("unknown rhp2 kind")
}

// runRenew2 mirrors c10Case.renew2: the renewal is built on the locked revision's file, with the
// renter payouts of q.from
func (c *concCase) runRenew2(q *concReq, tr *crhp2.Transport, locked crhp2.ContractRevision) error {
	h := c.h
	ct := q.ct
	st := c.settings2()
	rev := crhp2.ContractRevision{Revision: concMerge(q.from, locked.Revision), Signatures: locked.Signatures}
	cur := rev.Revision
	endHeight := cur.WindowEnd - st.WindowSize + 7
	newColl := types.Siacoins(1).Add(types.NewCurrency64(321))
	renterPayout := types.Siacoins(12)
	fc, basePrice := crhp2.PrepareContractRenewal(cur, h.node.Wallet.Address(), renterPayout, newColl, st, endHeight)
	exchange := c10Min(st.BaseRPCPrice, cur.ValidRenterPayout())
	finalPay := c10Min(exchange.Add(q.extra), cur.ValidRenterPayout())
	extb := uint64(0)
	if fc.WindowEnd > cur.WindowEnd {
		extb = fc.WindowEnd - cur.WindowEnd
	}
	finVr, finVh := cur.ValidRenterPayout().Sub(finalPay), cur.ValidHostPayout().Add(finalPay)
	q.opTerm = fmt.Sprintf("Renew2 %d %d %s %s %s %s %s %d %d %s %s %s", q.con+1, q.nextID, c10Cur(st.BaseRPCPrice), c10Cur(st.ContractPrice),
		c10Cur(st.StoragePrice), c10Cur(st.Collateral), c10Cur(st.MaxCollateral), fc.Filesize, extb, c10Cur(finVr), c10Cur(finVh), c.fcTerm(fc))
	q.prop = c10Prop{rn: math.MaxUint64, vr: finVr, vh: finVh, mr: finVr, mh: finVh}
	c.ch.g.announce(q.tag, concKey(math.MaxUint64, []types.Currency{finVr, finVh}, []types.Currency{finVr, finVh}))
	renewTxn := types.Transaction{FileContracts: []types.FileContract{fc}}
	cost := crhp2.ContractRenewalCost(h.node.Chain.TipState(), fc, st.ContractPrice, types.ZeroCurrency, basePrice)
	toSign, err := h.node.Wallet.FundTransaction(&renewTxn, cost, true)
	if err != nil {
		return fmt.Errorf("fund renewal: %w", err)
	}
	h.node.Wallet.SignTransaction(&renewTxn, toSign, wallet.ExplicitCoveredFields(renewTxn))
	set := append(h.node.Chain.UnconfirmedParents(renewTxn), renewTxn)
	newRev, _, err := proto2.RPCRenewContract(tr, ct.key, &rev, set, finalPay)
	if err != nil {
		h.node.Wallet.ReleaseInputs([]types.Transaction{renewTxn}, nil)
		return err
	}
	c.ch.g.note(q.tag, "host-sig")
	q.newID, q.renewed = newRev.ID(), true
	return nil
}

func (c *concCase) payByContract(s *crhp3.Stream, q *concReq) error {
	ct := q.ct
	nr := q.prop.apply(q.sigBase)
	req := crhp3.PayByContractRequest{ContractID: ct.id, RevisionNumber: q.prop.rn, ValidProofValues: q.prop.valid(), MissedProofValues: q.propMissed(),
		RefundAccount: crhp3.Account(c.accts[q.acct].PublicKey())}
	req.Signature = ct.key.SignHash(req.SigHash(nr))
	if err := s.WriteResponse(&crhp3.PaymentTypeContract); err != nil {
		return err
	} else if err := s.WriteResponse(&req); err != nil {
		return err
	}
	var resp crhp3.PaymentResponse
	if err := s.ReadResponse(&resp, 4096); err != nil {
		return err
	}
	q.received(c.ch.g, nr, resp.Signature)
	return nil
}

func (c *concCase) run3(q *concReq) error {
	if q.kind == ckRenew3 {
		return c.runRenew3(q)
	}
	pt := c.pts[q.tag]
	ct := q.ct
	tr, err := c.dialTag3(q.tag)
	if err != nil {
		return err
	}
	defer tr.Close()
	s := tr.DialStream()
	defer s.Close()
	s.SetDeadline(time.Now().Add(60 * time.Second))
	defer concDrain(s)
	switch q.kind {
	case ckPT3:
		if err := s.WriteRequest(crhp3.RPCUpdatePriceTableID, nil); err != nil {
			return err
		}
		var resp crhp3.RPCUpdatePriceTableResponse
		if err := s.ReadResponse(&resp, 1<<16); err != nil {
			return err
		}
		var fresh crhp3.HostPriceTable
		if err := json.Unmarshal(resp.PriceTableJSON, &fresh); err != nil {
			return err
		}
		if err := c.payByContract(s, q); err != nil {
			return err
		}
		var confirm crhp3.RPCPriceTableResponse
		return s.ReadResponse(&confirm, 4096)
	case ckBal3:
		if err := s.WriteRequest(crhp3.RPCAccountBalanceID, &pt.UID); err != nil {
			return err
		} else if err := c.payByContract(s, q); err != nil {
			return err
		}
		req := crhp3.RPCAccountBalanceRequest{Account: crhp3.Account(c.accts[2].PublicKey())}
		if err := s.WriteResponse(&req); err != nil {
			return err
		}
		var resp crhp3.RPCAccountBalanceResponse
		return s.ReadResponse(&resp, 4096)
	case ckRev3:
		req := crhp3.RPCLatestRevisionRequest{ContractID: ct.id}
		if err := s.WriteRequest(crhp3.RPCLatestRevisionID, &req); err != nil {
			return err
		}
		var resp crhp3.RPCLatestRevisionResponse
		if err := s.ReadResponse(&resp, 1<<16); err != nil {
			return err
		} else if err := s.WriteResponse(&pt.UID); err != nil {
			return err
		} else if err := c.payByContract(s, q); err != nil {
			return err
		}
		var dummy crhp3.RPCPriceTableResponse
		if rerr := s.ReadResponse(&dummy, 4096); rerr != nil && !c10Closed(rerr) {
			return rerr
		}
		return nil
	case ckFund3:
		if err := s.WriteRequest(crhp3.RPCFundAccountID, &pt.UID); err != nil {
			return err
		}
		req := &crhp3.RPCFundAccountRequest{Account: crhp3.Account(c.accts[q.acct].PublicKey())}
		if err := s.WriteResponse(req); err != nil {
			return err
		} else if err := c.payByContract(s, q); err != nil {
			return err
		}
		var resp crhp3.RPCFundAccountResponse
		return s.ReadResponse(&resp, 4096)
	case ckExec3P, ckExec3C:
		var data []byte
		var instr crhp3.Instruction
		req := crhp3.RPCExecuteProgramRequest{}
		if q.kind == ckExec3P {
			data = append(data, c.h.roots[0][:]...)
			instr = &crhp3.InstrHasSector{MerkleRootOffset: 0}
		} else {
			data = append(data, c.h.roots[q.poolIdx][:]...)
			instr = &crhp3.InstrAppendSectorRoot{MerkleRootOffset: 0, ProofRequired: false}
			req.FileContractID = ct.id
		}
		req.Program, req.ProgramData = []crhp3.Instruction{instr}, data
		if err := s.WriteRequest(crhp3.RPCExecuteProgramID, &pt.UID); err != nil {
			return err
		}
		if q.kind == ckExec3P {
			if err := c.payByContract(s, q); err != nil {
				return err
			}
		} else {
			k := c.accts[q.acct]
			pay := crhp3.PayByEphemeralAccount(crhp3.Account(k.PublicKey()), q.payAmt, pt.HostBlockHeight+6, k)
			if err := s.WriteResponse(&crhp3.PaymentTypeEphemeralAccount); err != nil {
				return err
			} else if err := s.WriteResponse(&pay); err != nil {
				return err
			}
		}
		if err := s.WriteResponse(&req); err != nil {
			return err
		}
		var cancel types.Specifier
		if err := s.ReadResponse(&cancel, 4096); err != nil {
			return err
		}
		var out crhp3.RPCExecuteProgramResponse
		if err := s.ReadResponse(&out, 8<<20); err != nil {
			return err
		} else if out.Error != nil {
			return out.Error
		}
		if q.kind == ckExec3P {
			return nil
		}
		// finalise: the renter signs its own numbers and values on the file the host reports
		nr := q.prop.apply(q.sigBase)
		nr.Filesize, nr.FileMerkleRoot = out.NewSize, out.NewMerkleRoot
		freq := crhp3.RPCFinalizeProgramRequest{Signature: ct.key.SignHash(c10Hash(nr)), RevisionNumber: q.prop.rn, ValidProofValues: q.prop.valid(), MissedProofValues: q.propMissed()}
		if err := s.WriteResponse(&freq); err != nil {
			return err
		}
		var fresp crhp3.RPCFinalizeProgramResponse
		if err := s.ReadResponse(&fresp, 4096); err != nil {
			return err
		}
		q.received(c.ch.g, nr, fresp.Signature)
		return nil
	}
	return errors.New("unknown rhp3 kind")
}

// runRenew3 mirrors c10Case.renew3 through the repository's session helper; the clearing revision
// carries the payouts of q.from
func (c *concCase) runRenew3(q *concReq) error {
	h := c.h
	ct := q.ct
	pt, err := h.node.Settings.RHP3PriceTable()
	if err != nil {
		return err
	}
	rev := crhp2.ContractRevision{Revision: concMerge(q.from, q.sigBase)}
	cur := rev.Revision
	endHeight := cur.WindowEnd - pt.WindowSize + 7
	newColl := types.Siacoins(1).Add(types.NewCurrency64(123))
	renterPayout := types.Siacoins(12)
	basePrice := pt.RenewContractCost
	baseColl := types.ZeroCurrency
	extb := uint64(0)
	if endHeight+pt.WindowSize > cur.WindowEnd {
		extb = endHeight + pt.WindowSize - cur.WindowEnd
		basePrice = basePrice.Add(pt.WriteStoreCost.Mul64(cur.Filesize).Mul64(extb))
		baseColl = pt.CollateralCost.Mul64(cur.Filesize).Mul64(extb)
	}
	hv := pt.ContractPrice.Add(basePrice).Add(baseColl).Add(newColl)
	void := basePrice.Add(baseColl)
	q.opTerm = fmt.Sprintf("Renew3 %d %d %s %s %s %s %s %d %d %s %s (mkFC %s %s %s %s %s)", q.con+1, q.nextID, c10Cur(pt.RenewContractCost), c10Cur(pt.ContractPrice),
		c10Cur(pt.WriteStoreCost), c10Cur(pt.CollateralCost), c10Cur(pt.MaxCollateral), cur.Filesize, extb,
		c10Cur(cur.ValidRenterPayout()), c10Cur(cur.ValidHostPayout()),
		c10Cur(renterPayout), c10Cur(hv), c10Cur(renterPayout), c10Cur(hv.Sub(void)), c10Cur(void))
	vr, vh := cur.ValidRenterPayout(), cur.ValidHostPayout()
	q.prop = c10Prop{rn: math.MaxUint64, vr: vr, vh: vh, mr: vr, mh: vh}
	c.ch.g.announce(q.tag, concKey(math.MaxUint64, []types.Currency{vr, vh}, []types.Currency{vr, vh}))
	// the renter's wallet: WP-Q7 observes (and may walk away at) the moment the repository's client
	// has verified the host's signature for the clearing revision
	var w proto3.Wallet = h.node.Wallet
	if q.wallet3 != nil {
		w = q.wallet3
	}
	sess, err := proto3.NewSession(context.Background(), h.hostKey.PublicKey(), c.ch.addr3[q.tag], h.node.Chain, w)
	if err != nil {
		return err
	}
	defer sess.Close()
	newRev, _, err := sess.RenewContract(&rev, h.node.Wallet.Address(), ct.key, renterPayout, newColl, endHeight)
	if err != nil {
		return err
	}
	c.ch.g.note(q.tag, "host-sig")
	q.newID, q.renewed = newRev.ID(), true
	return nil
}

// ---------------------------------------------------------------- one pair

type concPair struct {
	a, b    concKind
	point   string // where A is parked
	next    bool   // the RPC that commits second is built on the result of the first
	bumpA   uint64
	bumpB   uint64
	extraA  int // over-payment in 1/10 SC
	extraB  int
	poolA   int
	poolB   int
}

func (p concPair) String() string {
	v := "base"
	if p.next {
		v = "next"
	}
	return fmt.Sprintf("A=%s@%s B=%s on %s (+%d/+%d, over %d/%d)", p.a, p.point, p.b, v, p.bumpA, p.bumpB, p.extraA, p.extraB)
}

const (
	concLong  = 20 * time.Second       // deadline for events that must come
	concQuiet = 120 * time.Millisecond // looking for events that must NOT come
)

func (c *concCase) monitor(sig, detail string) {
	if c.monitored[sig] {
		return
	}
	c.monitored[sig] = true
	c.out.Monitor(sig, detail)
}

// pair runs one interleaving on contract con. Returns false when the contract cannot be used any more.
func (c *concCase) pair(con int, p concPair) bool {
	g := c.ch.g
	ct := c.cons[con]
	base := c.stored(con)
	if base.RevisionNumber == math.MaxUint64 || base.ValidRenterPayout().Cmp(types.Siacoins(3)) < 0 {
		return false
	}
	baseRoots := c.h.node.Contracts.SectorRoots(ct.id)
	before := c.snap(con)
	g.begin(ct.id)
	defer g.end()

	qa := &concReq{kind: p.a, tag: "A", con: con, acct: 0, bump: p.bumpA, extra: types.Siacoins(1).Div64(10).Mul64(uint64(p.extraA)), poolIdx: p.poolA}
	qb := &concReq{kind: p.b, tag: "B", con: con, acct: 1, bump: p.bumpB, extra: types.Siacoins(1).Div64(10).Mul64(uint64(p.extraB)), poolIdx: p.poolB}
	first, second := qa, qb
	if p.point == cpLockReq {
		first, second = qb, qa // A waits in front of the lock: B goes first
	}
	first.from, first.sigBase, first.roots = base, base, baseRoots
	c.prepare(first)
	second.sigBase, second.roots = first.expected, first.expRoots
	second.from = base
	if first.kind.renews() {
		second.sigBase, second.roots = base, baseRoots // refused anyway
	} else if p.next {
		second.from = first.expected
	}
	c.prepare(second)
	c.out.Count("pair:A=" + qa.kind.String())
	c.out.Count("pair:B=" + qb.kind.String())
	c.out.Count("pair:park=" + p.point)
	c.out.Count(fmt.Sprintf("pair:next=%v", p.next))

	doneA, doneB := make(chan struct{}), make(chan struct{})
	finished := func(ch chan struct{}) bool {
		select {
		case <-ch:
			return true
		default:
			return false
		}
	}
	// when an RPC finishes the log changes
	runIt := func(q *concReq, done chan struct{}) {
		c.run(q)
		close(done)
		g.note(q.tag, "client-done")
	}

	// A, parked at the chosen point
	g.arm("A", p.point)
	go runIt(qa, doneA)
	// either A parks, or it is through: its renter side has returned and its handler has let go
	// of the contract (an RHP2 session unlocks after the renter has hung up)
	if !g.wait(concLong, func() bool { return g.isParked("A", p.point) || (finished(doneA) && !g.holds("A")) }) {
		c.t.Fatalf("pair %v: A neither reached %s nor finished: %s", p, p.point, concTrace(g.snapshot()))
	}
	g.mu.Lock()
	aParked := g.isParked("A", p.point)
	g.mu.Unlock()

	// the state between the two RPCs, when there is one
	var obsMid string
	haveMid := false
	var midRev types.FileContractRevision
	takeMid := func(q *concReq) {
		c.afterRPC(q)
		obsMid = c.observe(q.kind.String()+"-concurrent", q.err == nil)
		midRev = c.stored(con)
		haveMid = true
	}
	if !aParked {
		// A never got to the park point (refused earlier, or the RPC has no such point): the two
		// RPCs simply run one after the other
		c.out.Count("pair:A-never-parked")
		g.disarm("A", p.point)
		c.waitUnlocked()
		first, second = qa, qb
		takeMid(qa)
	}

	// B; when A holds the lock B is stopped right behind the lock so that the state between the
	// two can be read
	if aParked && p.point != cpLockReq {
		g.arm("B", cpLockAcq)
	}
	go runIt(qb, doneB)
	bAsked := func() bool { return g.has("B", cpLockReq) || finished(doneB) }
	if !g.wait(concLong, bAsked) {
		c.t.Fatalf("pair %v: B neither asked for the lock nor finished: %s", p, concTrace(g.snapshot()))
	}
	if aParked && p.point != cpLockReq {
		// short look: does B get past the lock while A is parked?  (a miss is not an alarm)
		if g.wait(concQuiet, func() bool { return g.isParked("B", cpLockAcq) || finished(doneB) }) {
			g.mu.Lock()
			bp := g.isParked("B", cpLockAcq)
			g.mu.Unlock()
			if bp {
				c.out.Count("pair:B-passed-the-lock-while-A-parked")
				g.release("B", cpLockAcq)
				// let B get as far as it can before A moves on
				g.wait(4*concQuiet, func() bool { return finished(doneB) })
			}
		}
	} else if aParked {
		// A waits in front of the lock: B runs to completion first
		if !g.wait(concLong, func() bool { return finished(doneB) && !g.holds("B") }) {
			c.t.Fatalf("pair %v: B did not finish while A waited in front of the lock: %s", p, concTrace(g.snapshot()))
		}
		takeMid(qb)
	}
	g.release("A", p.point)
	if !g.wait(concLong, func() bool { return finished(doneA) }) {
		c.t.Fatalf("pair %v: A did not finish after it was released: %s", p, concTrace(g.snapshot()))
	}
	if aParked && p.point != cpLockReq {
		// when A's handler has unlocked, B is parked behind the lock or has finished
		if !g.wait(concLong, func() bool { return g.isParked("B", cpLockAcq) || finished(doneB) }) {
			c.t.Fatalf("pair %v: B neither got the lock nor finished after A was done: %s", p, concTrace(g.snapshot()))
		}
		g.mu.Lock()
		bp := g.isParked("B", cpLockAcq)
		g.mu.Unlock()
		if bp {
			takeMid(qa)
			g.release("B", cpLockAcq)
		}
	}
	g.disarm("B", cpLockAcq)
	if !g.wait(concLong, func() bool { return finished(doneB) }) {
		c.t.Fatalf("pair %v: B did not finish: %s", p, concTrace(g.snapshot()))
	}
	// both handlers have let go of the contract
	c.waitUnlocked()
	evs := g.snapshot()
	if !haveMid {
		// no point at which only one of the two had committed was observed (B failed before the
		// lock, or the two were not serialised): the first gets the final state as well
		c.afterRPC(first)
		obsMid = c.observe(first.kind.String()+"-concurrent", first.err == nil)
		midRev = c.stored(con)
	}
	c.afterRPC(second)
	obsEnd := c.observe(second.kind.String()+"-concurrent", second.err == nil)
	endRev := c.stored(con)
	c.pairs++
	if c.mine {
		c.mine = false
		testutil.MineAndSync(c.t, c.h.node, types.VoidAddress, 1)
	}

	desc := fmt.Sprintf("%v: A %v, B %v; %s", p, qa.err, qb.err, concTrace(evs))
	if os.Getenv("VERIF_CONC_TRACE") != "" { // development aid: every pair's history in $VERIF_OUT/trace.txt
		if f, err := os.OpenFile(filepath.Join(c.out.dir, "trace.txt"), os.O_APPEND|os.O_CREATE|os.O_WRONLY, 0o644); err == nil {
			fmt.Fprintf(f, "case %d: %s\n", c.out.curID, desc)
			f.Close()
		}
	}
	c.structural(p, evs, desc)
	if c.mode == "c07" {
		c.monitorsC07(p, base, endRev, evs, []*concReq{qa, qb}, desc)
		c.recordLife(base, midRev, endRev, first, second, evs)
	} else {
		c.monitorsC10(p, con, before, first, second, desc)
		if first.opTerm != "" {
			c.out.Step(first.opTerm, obsMid)
		}
		if second.opTerm != "" {
			c.out.Step(second.opTerm, obsEnd)
		}
	}
	if first.err == nil {
		c.out.Count("first:ok:" + first.kind.String())
	} else {
		c.out.Count("first:err:" + first.kind.String())
	}
	if second.err == nil {
		c.out.Count("second:ok:" + second.kind.String())
	} else {
		c.out.Count("second:err:" + second.kind.String())
	}
	return true
}

// afterRPC: bookkeeping of the case after an RPC of a pair (a renewal adds a contract; the block
// that confirms it is mined when the pair is over)
func (c *concCase) afterRPC(q *concReq) {
	if q.renewed {
		q.renewed = false
		c.cons = append(c.cons, &c10Contract{id: q.newID, key: q.ct.key})
		c.mine = true
	}
}

// structural: while one RPC holds the contract lock the other must not get the lock, reach a
// persisting call or hand a signature to the renter
func (c *concCase) structural(p concPair, evs []concEvent, desc string) {
	holder := ""
	parkedHolder := "" // the RPC that is parked while it holds the lock: the other one was started after that
	for k, e := range evs {
		if e.tag != "A" && e.tag != "B" {
			if e.point == cpPersistIn {
				c.monitor("decision-outside-lock", "a revision nobody announced is being persisted: "+desc)
			}
			continue
		}
		other := e.tag != holder && holder != ""
		switch e.point {
		case cpLockAcq:
			if other {
				c.monitor("decision-outside-lock", fmt.Sprintf("%s got the contract lock while %s held it: %s", e.tag, holder, desc))
			}
			holder = e.tag
		case cpUnlockReq:
			// from here on the lock may be free at any moment -- unless the handler is parked right
			// here, in front of Unlock: then it holds the lock until it is released
			parkedHere := k+1 < len(evs) && evs[k+1].tag == e.tag && evs[k+1].point == "parked" && evs[k+1].what == cpUnlockReq
			if e.tag == holder && !parkedHere {
				holder = ""
			}
		case cpPersistIn, cpPersistOut:
			if other {
				c.monitor("decision-outside-lock", fmt.Sprintf("%s reached %s while %s held the contract lock: %s", e.tag, e.point, holder, desc))
			}
		case "parked":
			if e.tag == holder && e.tag == "A" { // B is started when A is parked, not the other way round
				parkedHolder = e.tag
			}
		case "released":
			if e.tag == parkedHolder {
				parkedHolder = ""
			}
			if e.tag == holder && e.what == cpUnlockReq {
				holder = ""
			}
		case "host-sig":
			// seen by the renter, so later than the host wrote it: only conclusive while the
			// other RPC has been parked with the lock since before this one was started
			if parkedHolder != "" && e.tag != parkedHolder && holder == parkedHolder {
				c.monitor("decision-outside-lock", fmt.Sprintf("the renter of %s got a host signature while %s was parked holding the contract lock: %s", e.tag, parkedHolder, desc))
			}
		}
	}
}

// ---------------------------------------------------------------- C07

func concPayouts(r types.FileContractRevision) (vr, vh, mr, mh types.Currency) {
	vr, vh = r.ValidProofOutputs[0].Value, r.ValidProofOutputs[1].Value
	mr, mh = r.MissedProofOutputs[0].Value, r.MissedProofOutputs[1].Value
	return
}

// monitorsC07: the revisions the host counter-signed, in the order it signed them, and the ones it
// persisted, in the order it persisted them: each must be a safe successor of the one before
func (c *concCase) monitorsC07(p concPair, base, end types.FileContractRevision, evs []concEvent, reqs []*concReq, desc string) {
	byKey := map[string]*concReq{}
	for _, q := range reqs {
		if q.hasProp || q.kind.renews() {
			byKey[q.key()] = q
		}
	}
	persisted := map[string]bool{}
	var persistedSeq []types.FileContractRevision
	for _, e := range evs {
		if e.point == cpPersistOut && e.rev != nil {
			persisted[concRevKey(*e.rev)] = true
			persistedSeq = append(persistedSeq, *e.rev)
		}
	}
	prev := base
	for _, e := range evs {
		if e.point != cpPersistIn || e.rev == nil || !persisted[concRevKey(*e.rev)] {
			continue // a signature that never left the host (the persisting call failed)
		}
		rv := *e.rev
		q := byKey[concRevKey(rv)]
		var price, maxburn types.Currency
		if q != nil {
			price, maxburn = q.price, q.maxburn
			if q.lifeKind == "pay" {
				// the price of a payment is the payment: what the renter gives up
				var underflow bool
				if price, underflow = prev.ValidRenterPayout().SubWithUnderflow(rv.ValidRenterPayout()); underflow {
					price = types.ZeroCurrency
				}
			}
		}
		pvr, pvh, pmr, pmh := concPayouts(prev)
		nvr, nvh, nmr, nmh := concPayouts(rv)
		clearing := rv.RevisionNumber == math.MaxUint64
		var why []string
		if rv.RevisionNumber <= prev.RevisionNumber {
			why = append(why, fmt.Sprintf("revision number %d after %d", rv.RevisionNumber, prev.RevisionNumber))
		}
		if nvr.Cmp(pvr) > 0 {
			why = append(why, fmt.Sprintf("renter valid payout %v -> %v", pvr, nvr))
		}
		if !clearing && nmr.Cmp(pmr) > 0 {
			why = append(why, fmt.Sprintf("renter missed payout %v -> %v", pmr, nmr))
		}
		if nvh.Cmp(pvh.Add(price)) < 0 {
			why = append(why, fmt.Sprintf("host valid payout %v -> %v, price %v", pvh, nvh, price))
		}
		if !clearing && nmh.Add(maxburn).Cmp(pmh) < 0 {
			why = append(why, fmt.Sprintf("host missed payout %v -> %v, collateral %v", pmh, nmh, maxburn))
		}
		if len(why) > 0 {
			sig := "concurrent-accepted-revision-below-last-signed"
			if p.point == "one-session" {
				sig = "session-accepted-revision-below-last-signed"
			}
			c.monitor(sig, fmt.Sprintf("%s signed revision %d relative to the revision %d it signed before: %s; %s",
				e.tag, rv.RevisionNumber, prev.RevisionNumber, strings.Join(why, "; "), desc))
		}
		prev = rv
	}
	last := base
	for _, rv := range persistedSeq {
		if rv.RevisionNumber <= last.RevisionNumber {
			c.monitor("persisted-revision-number-went-back", fmt.Sprintf("revision %d persisted after revision %d; %s", rv.RevisionNumber, last.RevisionNumber, desc))
		}
		last = rv
	}
	if len(persistedSeq) > 0 {
		best := persistedSeq[0]
		for _, rv := range persistedSeq {
			if rv.RevisionNumber > best.RevisionNumber {
				best = rv
			}
		}
		if end.RevisionNumber != best.RevisionNumber || concRevKey(end) != concRevKey(best) {
			c.monitor("stored-revision-is-not-the-last-signed", fmt.Sprintf("stored revision %d, highest counter-signed revision %d; %s", end.RevisionNumber, best.RevisionNumber, desc))
		}
	} else if concRevKey(end) != concRevKey(base) {
		c.monitor("stored-revision-changed-without-persisting-call", desc)
	}
}

// ids of addresses / hashes inside one recorded run (equal id <-> equal value)
type concIDs struct {
	addrs  map[types.Address]int
	hashes map[types.Hash256]int
}

func (ids *concIDs) addr(a types.Address) int {
	if a == types.VoidAddress {
		return 0
	}
	if v, ok := ids.addrs[a]; ok {
		return v
	}
	v := len(ids.addrs) + 1
	ids.addrs[a] = v
	return v
}

func (ids *concIDs) hash(h types.Hash256) int {
	if h == (types.Hash256{}) {
		return 0
	}
	if v, ok := ids.hashes[h]; ok {
		return v
	}
	v := len(ids.hashes) + 1
	ids.hashes[h] = v
	return v
}

func (ids *concIDs) term(rev types.FileContractRevision) string {
	outs := func(os []types.SiacoinOutput) string {
		items := make([]string, len(os))
		for i, o := range os {
			items[i] = fmt.Sprintf("O %d %s", ids.addr(o.Address), o.Value.ExactString())
		}
		return "[" + strings.Join(items, "; ") + "]"
	}
	return fmt.Sprintf("(R 0 %d %d %d %d %d %s %s %d %d)", ids.hash(types.Hash256(rev.UnlockConditions.UnlockHash())), rev.Filesize,
		ids.hash(rev.FileMerkleRoot), rev.WindowStart, rev.WindowEnd, outs(rev.ValidProofOutputs), outs(rev.MissedProofOutputs),
		ids.hash(types.Hash256(rev.UnlockHash)), rev.RevisionNumber)
}

func concVals(os []types.SiacoinOutput) string {
	items := make([]string, len(os))
	for i, o := range os {
		items[i] = o.Value.ExactString()
	}
	return "[" + strings.Join(items, "; ") + "]"
}

// recordLife: the decided requests of the pair in commit order as one run of coq/Lifetime:
// (stored revision before, requests) -> (decisions, stored revision after)
func (c *concCase) recordLife(base, mid, end types.FileContractRevision, first, second *concReq, evs []concEvent) {
	persisted := map[string]bool{}
	for _, e := range evs {
		if e.point == cpPersistOut && e.rev != nil {
			persisted[concRevKey(*e.rev)] = true
		}
	}
	ids := &concIDs{addrs: map[types.Address]int{}, hashes: map[types.Hash256]int{}}
	type item struct {
		q        *concReq
		cur, aft types.FileContractRevision
	}
	items := []item{{first, base, mid}, {second, mid, end}}
	// a renewal is not a request of the life model: the run is cut there
	var run []item
	for _, it := range items {
		if it.q.kind.renews() {
			if len(run) > 0 {
				break
			}
			continue
		}
		if it.q.lifeKind == "" || it.q.skipped != "" {
			continue
		}
		if it.q.kind == ckExec3C && it.q.err != nil && !persisted[it.q.key()] && !concReachedFinalize(it.q.err) {
			continue // the program did not get as far as the finalisation request
		}
		run = append(run, it)
	}
	if len(run) == 0 {
		return
	}
	c0 := run[0].cur
	var reqs, decs []string
	for _, it := range run {
		q := it.q
		// the revision the host builds: number and values from the renter on what it holds
		rv, err := rhp.Revise(it.cur, q.prop.rn, q.prop.valid(), q.propMissedFor(it.cur))
		if err != nil {
			return
		}
		switch q.lifeKind {
		case "rev":
			reqs = append(reqs, fmt.Sprintf("QRevision %s %s %s", ids.term(rv), q.price.ExactString(), q.maxburn.ExactString()))
		case "prog":
			reqs = append(reqs, fmt.Sprintf("QProgram %s %s %s", ids.term(rv), q.icost.Storage.ExactString(), q.icost.Collateral.ExactString()))
		case "pay":
			amount, underflow := it.cur.ValidRenterPayout().SubWithUnderflow(rv.ValidRenterPayout())
			if underflow {
				amount = types.ZeroCurrency // refused before the amount is used
			}
			reqs = append(reqs, fmt.Sprintf("QPayment %s %s", ids.term(rv), amount.ExactString()))
		}
		decs = append(decs, coqBool(persisted[q.key()]))
		c.out.Count(fmt.Sprintf("life:%s:accepted=%v", q.kind, persisted[q.key()]))
	}
	final := run[len(run)-1].aft
	c0t := ids.term(c0)
	c.lifeIn = append(c.lifeIn, fmt.Sprintf("(%s, [%s])", c0t, strings.Join(reqs, ";\n     ")))
	c.lifeOut = append(c.lifeOut, fmt.Sprintf("Some ([%s], %d, %s, %s)", strings.Join(decs, "; "), final.RevisionNumber, concVals(final.ValidProofOutputs), concVals(final.MissedProofOutputs)))
}

func (q *concReq) propMissedFor(cur types.FileContractRevision) []types.Currency {
	if len(cur.MissedProofOutputs) == 2 {
		return q.prop.missed()[:2]
	}
	return q.prop.missed()
}

func concReachedFinalize(err error) bool {
	s := err.Error()
	return strings.Contains(s, "program revision") || strings.Contains(s, "revise contract")
}

// ---------------------------------------------------------------- cases

func concScratchEmitter(t *testing.T) *verifEmitter {
	f, err := os.CreateTemp(t.TempDir(), "scratch-monitor")
	if err != nil {
		t.Fatal(err)
	}
	t.Cleanup(func() { f.Close() })
	return &verifEmitter{t: t, dir: t.TempDir(), shardSize: 1 << 30, seen: map[[32]byte]bool{}, hist: map[string]int{}, monitors: f, only: -1}
}

// setup forms the contract of the case, registers a price table with both RHP3 handlers and funds
// the accounts of A and B (all sequential, all recorded for coq/Revenue)
func (c *concCase) setup() {
	h := c.h
	s := h.node.Settings.Settings()
	pick := func(vals ...uint64) types.Currency { return types.NewCurrency64(vals[c.rng.Intn(len(vals))]) }
	s.AcceptingContracts = true
	s.NetAddress = h.rhp3Addr
	s.MaxCollateral = types.Siacoins(1000)
	s.MaxAccountBalance = types.Siacoins(100)
	s.ContractPrice = pick(1, 1000, 200000000000000000)
	s.BaseRPCPrice = pick(1, 7, 1000000000000)
	s.SectorAccessPrice = pick(1, 13, 1000000000000)
	s.StoragePrice = pick(1, 3, 50000)
	s.IngressPrice = pick(1, 5, 10000)
	s.EgressPrice = pick(1, 11, 500000)
	s.CollateralMultiplier = []float64{1, 2, 2.5}[c.rng.Intn(3)]
	s.MaxRegistryEntries = 1 << 30
	if err := h.node.Settings.UpdateSettings(s); err != nil {
		c.t.Fatal(err)
	}
	for i := 0; i < 3; i++ {
		c.accts = append(c.accts, types.NewPrivateKeyFromSeed(frandBytes(c.rng, 32)))
	}
	c.regKey = types.NewPrivateKeyFromSeed(frandBytes(c.rng, 32))
	c.regRev = map[int]uint64{}
	c.form2(types.Siacoins(uint32(40+c.rng.Intn(20))), types.Siacoins(uint32(5+c.rng.Intn(10))).Add(types.NewCurrency64(uint64(c.rng.Intn(1000)))), 0)
	if len(c.cons) != 1 {
		c.t.Fatal("formation failed")
	}
	one := types.Siacoins(1)
	for _, tag := range []string{"B", "A"} {
		acct := map[string]int{"A": 0, "B": 1}[tag]
		h.rhp3Addr = c.ch.addr3[tag]
		p := c.rhp3Prop(c.stored(0), types.NewCurrency64(1000), 0)
		c.simple3(0, &c10Pay{byContract: true, con: 0, acct: 2, prop: p})
		if !c.hasPT {
			c.t.Fatal("price table registration failed")
		}
		c.pts[tag] = c.pt
		c.forceFund = &one
		c.fund3(0, acct, 0)
		c.forceFund = nil
	}
	h.rhp3Addr = c.ch.addr3["A"]
	// one sector, so that sector-roots RPCs have something to ask for
	c.seq(ckWrite2, 0)
}

// sessionSeq: two revising RPCs in ONE RHP2 session, the second one built on the revision from
// before the first: a read of several sections that the renter stops early (the handler leaves
// through a different exit), then a payment revision built on the pre-read revision with a later
// number and a smaller payment.  The session must decide the second against what the first stored.
func (c *concCase) sessionSeq(con int) {
	g := c.ch.g
	ct := c.cons[con]
	base := c.stored(con)
	if base.RevisionNumber == math.MaxUint64 || base.ValidRenterPayout().Cmp(types.Siacoins(3)) < 0 {
		return
	}
	roots := c.h.node.Contracts.SectorRoots(ct.id)
	before := c.snap(con)
	g.begin(ct.id)
	defer g.end()
	tenth := types.Siacoins(1).Div64(10)
	q1 := &concReq{kind: ckRead2, tag: "A", con: con, acct: 0, bump: 1, extra: tenth.Mul64(uint64(3 + c.rng.Intn(3))), nsec: 3, earlyStop: true,
		from: base, sigBase: base, roots: roots}
	c.prepare(q1)
	k2 := ckRead2
	if len(roots) > 0 && c.rng.Intn(2) == 0 {
		k2 = ckRoots2
	}
	q2 := &concReq{kind: k2, tag: "A", con: con, acct: 0, bump: 2, extra: tenth.Mul64(uint64(1 + c.rng.Intn(2))),
		from: base, sigBase: q1.expected, roots: roots}
	c.prepare(q2)
	c.out.Count("session:read-stopped-early-then-stale-" + q2.kind.String())
	tr, err := c.dialTag2("A")
	if err != nil {
		c.t.Fatal(err)
	}
	defer tr.Close()
	locked, err := proto2.RPCLock(tr, ct.key, ct.id)
	if err != nil {
		c.t.Fatal("session lock:", err)
	}
	q1.err = c.rpc2(q1, tr, locked)
	obsMid := c.observe("read2-session", q1.err == nil)
	midRev := c.stored(con)
	q2.err = c.rpc2(q2, tr, crhp2.ContractRevision{Revision: midRev, Signatures: locked.Signatures})
	proto2.RPCUnlock(tr)
	tr.Close()
	c.waitUnlocked()
	evs := g.snapshot()
	obsEnd := c.observe(q2.kind.String()+"-session", q2.err == nil)
	endRev := c.stored(con)
	p := concPair{a: q1.kind, b: q2.kind, point: "one-session"}
	desc := fmt.Sprintf("one RHP2 session: read2 of 3 sections stopped early (%v), then stale %s (%v); %s", q1.err, q2.kind, q2.err, concTrace(evs))
	c.structural(p, evs, desc)
	if c.mode == "c07" {
		c.monitorsC07(p, base, endRev, evs, []*concReq{q1, q2}, desc)
		c.recordLife(base, midRev, endRev, q1, q2, evs)
	} else {
		c.monitorsC10(p, con, before, q1, q2, desc)
		c.out.Step(q1.opTerm, obsMid)
		c.out.Step(q2.opTerm, obsEnd)
	}
	if q1.err != nil {
		c.t.Fatalf("session read failed: %v", q1.err)
	}
}

// seq runs one RPC of the pair drivers on its own through the handlers of A (recorded for coq/Revenue)
func (c *concCase) seq(kind concKind, con int) {
	base := c.stored(con)
	q := &concReq{kind: kind, tag: "A", con: con, acct: 0, bump: 1, extra: types.NewCurrency64(uint64(c.rng.Intn(1000))), poolIdx: c.rng.Intn(4),
		from: base, sigBase: base, roots: c.h.node.Contracts.SectorRoots(c.cons[con].id)}
	c.prepare(q)
	c.run(q)
	c.waitUnlocked()
	c.afterRPC(q)
	obs := c.observe(q.kind.String(), q.err == nil)
	if c.mode == "c10" && q.opTerm != "" {
		c.out.Step(q.opTerm, obs)
	}
	if q.err != nil {
		c.t.Fatalf("sequential %v failed: %v", kind, q.err)
	}
}

// the directed schedules: cases 0..4; between them every kind of RPC is parked at least once after
// it has counter-signed and before it has persisted
func concDirected(id int) []concPair {
	switch id {
	case 0:
		return []concPair{
			// the seeded C07-mut5 schedule: payment A (large) signed but not persisted, payment B
			// (small, a later number) built on the same base
			{a: ckFund3, point: cpPersistIn, b: ckFund3, next: false, bumpA: 1, bumpB: 2, extraA: 5, extraB: 1},
			{a: ckPT3, point: cpPersistIn, b: ckWrite2, next: false, bumpA: 1, bumpB: 2, extraA: 4, extraB: 1, poolB: 1},
			{a: ckExec3P, point: cpPersistIn, b: ckRoots2, next: false, bumpA: 1, bumpB: 2, extraA: 3, extraB: 1},
			{a: ckWrite2, point: cpPersistIn, b: ckFund3, next: false, bumpA: 1, bumpB: 2, extraA: 3, extraB: 1, poolA: 2},
			{a: ckExec3C, point: cpPersistIn, b: ckBal3, next: true, bumpA: 1, bumpB: 1, extraA: 0, extraB: 2, poolA: 3},
			// the seeded C10-mut6 schedule: a renewal whose clearing revision is built on the
			// revision an in-flight write will produce
			{a: ckWrite2, point: cpPersistIn, b: ckRenew3, next: true, bumpA: 1, bumpB: 1, extraA: 10, extraB: 0, poolA: 1},
		}
	case 1:
		return []concPair{
			{a: ckRead2, point: cpLockAcq, b: ckRev3, next: true, bumpA: 1, bumpB: 1, extraA: 2, extraB: 3},
			{a: ckSession2, point: cpUnlockReq, b: ckExec3C, next: false, bumpA: 1, bumpB: 1, extraA: 0, extraB: 0, poolB: 2},
			{a: ckFund3, point: cpPersistOut, b: ckRead2, next: false, bumpA: 1, bumpB: 1, extraA: 2, extraB: 4},
			{a: ckBal3, point: cpUnlockReq, b: ckExec3P, next: true, bumpA: 2, bumpB: 1, extraA: 1, extraB: 2},
			// the renewal waits in front of the lock (after it read the request), a payment commits,
			// the renewal is built on that payment's revision
			{a: ckRenew3, point: cpLockReq, b: ckFund3, next: true, bumpA: 1, bumpB: 1, extraA: 0, extraB: 10},
		}
	case 2:
		return []concPair{
			{a: ckRoots2, point: cpPersistOut, b: ckPT3, next: false, bumpA: 1, bumpB: 2, extraA: 1, extraB: 3},
			{a: ckRev3, point: cpLockAcq, b: ckSession2, next: false, bumpA: 1, bumpB: 1, extraA: 2, extraB: 0},
			{a: ckExec3C, point: cpLockAcq, b: ckWrite2, next: true, bumpA: 1, bumpB: 1, extraA: 0, extraB: 2, poolA: 1, poolB: 2},
			{a: ckFund3, point: cpLockReq, b: ckWrite2, next: false, bumpA: 2, bumpB: 1, extraA: 5, extraB: 2, poolB: 3},
			{a: ckRead2, point: cpPersistIn, b: ckRenew2, next: true, bumpA: 1, bumpB: 1, extraA: 6, extraB: 1},
		}
	case 3:
		return []concPair{
			{a: ckBal3, point: cpPersistIn, b: ckFund3, next: false, bumpA: 1, bumpB: 2, extraA: 4, extraB: 2},
			{a: ckRev3, point: cpPersistIn, b: ckWrite2, next: false, bumpA: 1, bumpB: 1, extraA: 3, extraB: 1, poolB: 2},
			{a: ckRoots2, point: cpPersistIn, b: ckPT3, next: false, bumpA: 1, bumpB: 2, extraA: 5, extraB: 2},
			// a renewal that has counter-signed the clearing revision, a payment built on the base;
			// the case goes on with the renewed contract
			{a: ckRenew3, point: cpPersistIn, b: ckFund3, next: false, bumpA: 1, bumpB: 1, extraA: 0, extraB: 3},
			{a: ckFund3, point: cpUnlockReq, b: ckExec3C, next: true, bumpA: 1, bumpB: 1, extraA: 2, extraB: 0, poolB: 1},
			{a: ckRenew3, point: cpPersistOut, b: ckRenew2, next: false, bumpA: 1, bumpB: 1, extraA: 0, extraB: 1},
		}
	case 4:
		return []concPair{
			{a: ckSession2, point: cpLockAcq, b: ckFund3, next: false, bumpA: 1, bumpB: 1, extraA: 0, extraB: 2},
			{a: ckExec3C, point: cpPersistOut, b: ckExec3C, next: true, bumpA: 1, bumpB: 1, poolA: 2, poolB: 3},
			{a: ckRenew2, point: cpPersistIn, b: ckFund3, next: false, bumpA: 1, bumpB: 1, extraA: 1, extraB: 3},
			{a: ckWrite2, point: cpLockReq, b: ckRoots2, next: true, bumpA: 1, bumpB: 1, extraA: 2, extraB: 4, poolA: 0},
			{a: ckRenew2, point: cpLockReq, b: ckBal3, next: true, bumpA: 1, bumpB: 1, extraA: 1, extraB: 5},
		}
	}
	return nil
}

const concDirectedCases = 5

// the interleavings: (kind of A) x (kind of B) x (park point of A) x (built on base / on the first one's
// result).  The generated cases walk through this space with a stride, starting at a place chosen by
// the seed: the thorough tier covers all of it, the quick tier a slice that differs per seed.
const concSpace = int(concNumKinds) * int(concNumKinds) * 5 * 2

func (c *concCase) enumPair(k int) concPair {
	r := c.rng
	idx := ((int(verifSeed())*7919+k)*611 + 13) % concSpace
	if idx < 0 {
		idx += concSpace
	}
	p := concPair{bumpA: 1, bumpB: 1, poolA: r.Intn(4), poolB: r.Intn(4)}
	p.a = concKind(idx % int(concNumKinds))
	idx /= int(concNumKinds)
	p.b = concKind(idx % int(concNumKinds))
	idx /= int(concNumKinds)
	p.point = concPoints[idx%5]
	idx /= 5
	p.next = idx%2 == 1
	if p.a == ckSession2 { // a bare lock/unlock session persists nothing
		switch p.point {
		case cpPersistIn:
			p.point = cpLockAcq
		case cpPersistOut:
			p.point = cpUnlockReq
		}
	}
	p.extraA = 1 + r.Intn(6)
	for p.extraB = 1 + r.Intn(6); p.extraB == p.extraA; {
		p.extraB = 1 + r.Intn(6)
	}
	if !p.next { // stale proposals come with the same or a later number
		if p.point == cpLockReq {
			p.bumpA = 1 + uint64(r.Intn(2))
		} else {
			p.bumpB = 1 + uint64(r.Intn(2))
		}
	}
	return p
}

const concPairsPerCase = 5

func (c *concCase) runCase(id int) {
	c.out.BeginCase(id, "concurrent rhp2/rhp3 rpc pairs on one contract")
	c.setup()
	c.sessionSeq(0)
	pairs := concDirected(id)
	if pairs == nil {
		for k := 0; k < concPairsPerCase; k++ {
			pairs = append(pairs, c.enumPair((id-concDirectedCases)*concPairsPerCase+k))
		}
	}
	for _, p := range pairs {
		// the newest contract of the case: a renewal moves the case on to the renewed contract
		con := len(c.cons) - 1
		c.out.curDesc = fmt.Sprintf("pair %d of case %d: %v", c.pairs, id, p)
		if !c.pair(con, p) {
			break
		}
	}
	c.end2()
}

func newConcCase(t *testing.T, ch *concHost, out *verifEmitter, mode string, id int) *concCase {
	em := out
	if mode == "c07" {
		em = concScratchEmitter(t)
	}
	return &concCase{c10Case: &c10Case{h: ch.c10Host, em: em, rng: verifCaseRand(id)}, ch: ch, mode: mode, t: t, out: out,
		pts: map[string]crhp3.HostPriceTable{}, monitored: map[string]bool{}}
}

func TestVerifC07Conc(t *testing.T) {
	em := newVerifEmitter(t, "From HostdBase Require Import Base.\nFrom HostdRevision Require Import Model.\nFrom HostdLifetime Require Import Life Conc.\nLocal Open Scope N_scope.", "lcase", "lcheck")
	defer em.Close()
	ch := newConcHost(t)
	n := verifN(6)
	for id := 0; id < n+concDirectedCases; id++ {
		if em.Skip(id) {
			continue
		}
		c := newConcCase(t, ch, em, "c07", id)
		c.runCase(id)
		em.FunCase(id, "["+strings.Join(c.lifeIn, ";\n    ")+"]", "["+strings.Join(c.lifeOut, ";\n    ")+"]", len(c.lifeIn) >= 2)
	}
}
