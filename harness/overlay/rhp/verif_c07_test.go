//go:build verif

package rhp

import (
	"fmt"
	"math"
	"math/big"
	"math/rand"
	"strings"
	"testing"

	"go.sia.tech/core/types"
)

// TestVerifC07 calls the real functions of rhp/contracts.go (under recover) on generated
// (current, proposed, arguments), records call and result for the Coq model
// (coq/Revision/Model.v, `run`) and evaluates the property's own conjunction on every
// accepted proposal.

// ---------------------------------------------------------------- harness-side values

type c07Out struct {
	addr int
	val  types.Currency
}

type c07Rev struct {
	other  int // numbers (ParentID, Payout, UnlockConditions)
	uc     int // which unlock conditions (index into c07UCs)
	size   uint64
	root   int // 0 = Hash256{}
	ws, we uint64
	valid  []c07Out
	missed []c07Out
	uh     int
	num    uint64
}

func (r c07Rev) clone() c07Rev {
	r.valid = append([]c07Out(nil), r.valid...)
	r.missed = append([]c07Out(nil), r.missed...)
	return r
}

// c07UC: the unlock conditions of a contract between the two keys - the renter's key first,
// both signatures required - written out here instead of calling the package-private
// contractUnlockConditions: an oracle that does not depend on the code under test, and that
// survives a refactoring which inlines or renames that helper.
func c07UC(hostKey, renterKey types.UnlockKey) types.UnlockConditions {
	return types.UnlockConditions{PublicKeys: []types.UnlockKey{renterKey, hostKey}, SignaturesRequired: 2}
}

var c07UCs = func() []types.UnlockConditions {
	var out []types.UnlockConditions
	for i := 0; i < 4; i++ {
		k1 := types.NewPrivateKeyFromSeed(make([]byte, 32)).PublicKey()
		k2 := types.PublicKey{byte(i + 1)}
		out = append(out, c07UC(k1.UnlockKey(), k2.UnlockKey()))
	}
	return out
}()

// id registries: equal id <-> equal Go value
type c07IDs struct {
	hashes map[types.Hash256]int
	others map[string]int
}

func newC07IDs() *c07IDs {
	ids := &c07IDs{hashes: map[types.Hash256]int{{}: 0}, others: map[string]int{}}
	return ids
}

func c07Addr(id int) types.Address {
	var a types.Address
	a[0], a[1], a[31] = byte(id), byte(id>>8), byte(id)
	return a
}

func c07AddrID(a types.Address) int {
	id := int(a[0]) | int(a[1])<<8
	if c07Addr(id) == a {
		return id
	}
	return 60000 + int(a[5]) // not an address the harness made
}

func c07Hash(id int) types.Hash256 {
	var h types.Hash256
	h[0], h[7] = byte(id), byte(id)
	return h
}

func (ids *c07IDs) hashID(h types.Hash256) int {
	if v, ok := ids.hashes[h]; ok {
		return v
	}
	v := 1000 + len(ids.hashes)
	ids.hashes[h] = v
	return v
}

func c07OtherKey(parent types.FileContractID, payout types.Currency, uc types.UnlockConditions) string {
	return fmt.Sprintf("%x/%s/%x", parent[:], payout.ExactString(), uc.UnlockHash())
}

func (ids *c07IDs) otherID(parent types.FileContractID, payout types.Currency, uc types.UnlockConditions) int {
	k := c07OtherKey(parent, payout, uc)
	if v, ok := ids.others[k]; ok {
		return v
	}
	v := 5000 + len(ids.others)
	ids.others[k] = v
	return v
}

func (ids *c07IDs) build(r c07Rev) types.FileContractRevision {
	uc := c07UCs[r.uc%len(c07UCs)]
	parent := types.FileContractID(c07Hash(100 + r.other))
	payout := types.NewCurrency64(uint64(r.other) * 13)
	ids.others[c07OtherKey(parent, payout, uc)] = r.other*8 + r.uc%len(c07UCs)
	ids.hashes[c07Hash(r.root)] = r.root
	ids.hashes[c07Hash(200+r.uh)] = 200 + r.uh
	rev := types.FileContractRevision{
		ParentID:         parent,
		UnlockConditions: uc,
		FileContract: types.FileContract{
			Filesize:       r.size,
			FileMerkleRoot: c07Hash(r.root),
			WindowStart:    r.ws,
			WindowEnd:      r.we,
			Payout:         payout,
			UnlockHash:     types.Address(c07Hash(200 + r.uh)),
			RevisionNumber: r.num,
		},
	}
	if r.root == 0 {
		rev.FileMerkleRoot = types.Hash256{}
	}
	// nil and empty slices are both "no outputs"
	for _, o := range r.valid {
		rev.ValidProofOutputs = append(rev.ValidProofOutputs, types.SiacoinOutput{Address: c07Addr(o.addr), Value: o.val})
	}
	for _, o := range r.missed {
		rev.MissedProofOutputs = append(rev.MissedProofOutputs, types.SiacoinOutput{Address: c07Addr(o.addr), Value: o.val})
	}
	return rev
}

func c07Outs(os []types.SiacoinOutput) string {
	items := make([]string, len(os))
	for i, o := range os {
		items[i] = fmt.Sprintf("O %d %s", c07AddrID(o.Address), o.Value.ExactString())
	}
	return "[" + strings.Join(items, "; ") + "]"
}

// term renders a Go revision as the model's `R ...` term
func (ids *c07IDs) term(rev types.FileContractRevision) string {
	ucid := -1
	for i, uc := range c07UCs {
		if uc.UnlockHash() == rev.UnlockConditions.UnlockHash() {
			ucid = i
		}
	}
	if ucid < 0 {
		ucid = ids.hashID(types.Hash256(rev.UnlockConditions.UnlockHash()))
	}
	return fmt.Sprintf("(R %d %d %d %d %d %d %s %s %d %d)",
		ids.otherID(rev.ParentID, rev.Payout, rev.UnlockConditions), ucid, rev.Filesize, ids.hashID(rev.FileMerkleRoot),
		rev.WindowStart, rev.WindowEnd, c07Outs(rev.ValidProofOutputs), c07Outs(rev.MissedProofOutputs),
		ids.hashID(types.Hash256(rev.UnlockHash)), rev.RevisionNumber)
}

func c07Curs(cs []types.Currency) string {
	items := make([]string, len(cs))
	for i, c := range cs {
		items[i] = c.ExactString()
	}
	return "[" + strings.Join(items, "; ") + "]"
}

// ---------------------------------------------------------------- currency helpers

var (
	c07Two64  = types.NewCurrency(0, 1)
	c07Two127 = types.NewCurrency(0, 1<<63)
	c07Max    = types.NewCurrency(math.MaxUint64, math.MaxUint64)
)

func c07Big(c types.Currency) *big.Int { return c.Big() }

func c07Grid(rng *rand.Rand) types.Currency {
	switch rng.Intn(12) {
	case 0:
		return types.ZeroCurrency
	case 1:
		return types.NewCurrency64(1)
	case 2:
		return types.NewCurrency64(math.MaxUint64)
	case 3:
		return c07Two64
	case 4:
		return c07Two127
	case 5:
		return c07Max
	case 6:
		return types.NewCurrency(math.MaxUint64-uint64(rng.Intn(3)), math.MaxUint64)
	case 7:
		return types.NewCurrency(uint64(rng.Intn(3)), 1<<63)
	case 8:
		return types.NewCurrency(rng.Uint64(), rng.Uint64())
	case 9:
		return types.NewCurrency(rng.Uint64(), rng.Uint64()>>uint(rng.Intn(64)))
	case 10:
		return types.NewCurrency64(rng.Uint64())
	default:
		return types.NewCurrency64(uint64(rng.Intn(100)))
	}
}

// a "reasonable" amount: small, 64-bit, ~siacoin sized or half-range
func c07Amount(rng *rand.Rand) types.Currency {
	switch rng.Intn(6) {
	case 0:
		return types.NewCurrency64(uint64(rng.Intn(50)))
	case 1:
		return types.NewCurrency64(rng.Uint64() >> uint(rng.Intn(40)))
	case 2:
		return types.Siacoins(uint32(1 + rng.Intn(5000)))
	case 3:
		return types.NewCurrency(rng.Uint64(), uint64(rng.Intn(1<<20)))
	case 4:
		return types.NewCurrency(rng.Uint64(), rng.Uint64()>>3) // < 2^125: four of them still fit
	default:
		return types.NewCurrency64(uint64(rng.Intn(1000)) * 1000)
	}
}

// portion returns a value in [0, c], boundary-dense
func c07Portion(rng *rand.Rand, c types.Currency) types.Currency {
	switch rng.Intn(6) {
	case 0:
		return types.ZeroCurrency
	case 1:
		return c
	case 2:
		if c.IsZero() {
			return c
		}
		return c.Sub(types.NewCurrency64(1))
	case 3:
		if c.IsZero() {
			return c
		}
		return types.NewCurrency64(1)
	default:
		return c.Div64(uint64(2 + rng.Intn(9)))
	}
}

func c07Sum(os []types.SiacoinOutput) *big.Int {
	s := new(big.Int)
	for _, o := range os {
		s.Add(s, o.Value.Big())
	}
	return s
}

// ---------------------------------------------------------------- result classification

type c07Result struct {
	class string // "ok", "err", "panic"
	vals  []types.Currency
	rev   *types.FileContractRevision
	pmsg  string
}

func c07Call(f func() ([]types.Currency, *types.FileContractRevision, error)) (res c07Result) {
	defer func() {
		if r := recover(); r != nil {
			res = c07Result{class: "panic", pmsg: fmt.Sprint(r)}
		}
	}()
	vals, rev, err := f()
	if err != nil {
		return c07Result{class: "err"}
	}
	return c07Result{class: "ok", vals: vals, rev: rev}
}

func (ids *c07IDs) outTerm(r c07Result) string {
	switch r.class {
	case "panic":
		return "Panic"
	case "err":
		return "(Err EInvalid)"
	}
	switch {
	case r.rev != nil:
		return "(Ok (ORev " + ids.term(*r.rev) + "))"
	case len(r.vals) == 0:
		return "(Ok OUnit)"
	case len(r.vals) == 1:
		return "(Ok (OCur " + r.vals[0].ExactString() + "))"
	default:
		return "(Ok (OCur2 " + r.vals[0].ExactString() + " " + r.vals[1].ExactString() + "))"
	}
}

// ---------------------------------------------------------------- scenario generation

const (
	c07FStd = iota
	c07FValidate
	c07FProgram
	c07FPayment
	c07FClearing
	c07FRevise
	c07FClearingRev
	c07FInitial
	c07NFuncs
)

var c07FuncNames = []string{"std", "validate", "program", "payment", "clearing", "revise", "clearingrev", "initial"}

type c07Case struct {
	fn        int
	cur, prop c07Rev
	a1, a2    types.Currency // payment/storage, collateral
	num       uint64         // Revise
	vs, ms    []types.Currency
	desc      string
}

// wfCurrent makes a well-formed current revision: 2 valid / 3 missed outputs, equal sums
func c07WFCurrent(rng *rand.Rand) c07Rev {
	r := c07Amount(rng)
	h := c07Amount(rng)
	hm := c07Portion(rng, h)
	void := h.Sub(hm)
	ws := uint64(100 + rng.Intn(1000))
	num := uint64(1 + rng.Intn(1000))
	switch rng.Intn(10) {
	case 0:
		num = math.MaxUint64 - 1
	case 1:
		num = math.MaxUint64 - 2
	case 2:
		num = 0
	}
	return c07Rev{
		other: 1 + rng.Intn(3), uc: rng.Intn(2), size: uint64(rng.Intn(4)) << 22, root: 1 + rng.Intn(3),
		ws: ws, we: ws + uint64(1+rng.Intn(200)),
		valid:  []c07Out{{1, r}, {2, h}},
		missed: []c07Out{{1, r}, {2, hm}, {0, void}},
		uh:     1 + rng.Intn(2), num: num,
	}
}

func c07One() types.Currency { return types.NewCurrency64(1) }

// honest builds the honest proposal for fn on a well-formed current, and the arguments
func c07Honest(rng *rand.Rand, fn int, cur c07Rev) c07Case {
	c := c07Case{fn: fn, cur: cur, prop: cur.clone()}
	c.prop.num = cur.num + 1 + uint64(rng.Intn(3))
	if rng.Intn(8) == 0 {
		c.prop.num = math.MaxUint64
	}
	R, H, Hm, V := cur.valid[0].val, cur.valid[1].val, cur.missed[1].val, cur.missed[2].val
	switch fn {
	case c07FStd:
		x := c07Portion(rng, R)
		b := c07Portion(rng, Hm)
		c.prop.valid[0].val, c.prop.valid[1].val = R.Sub(x), H.Add(x)
		c.prop.missed[0].val, c.prop.missed[1].val, c.prop.missed[2].val = R.Sub(x), Hm.Sub(b), V.Add(x).Add(b)
	case c07FValidate:
		x := c07Portion(rng, R)     // what the renter transfers
		pay := c07Portion(rng, x)   // price <= transfer
		b := c07Portion(rng, Hm)    // what the host burns
		coll := b                   // collateral >= burn
		if extra := Hm.Sub(b); rng.Intn(2) == 0 {
			coll = b.Add(c07Portion(rng, extra))
		}
		c.prop.valid[0].val, c.prop.valid[1].val = R.Sub(x), H.Add(x)
		c.prop.missed[0].val, c.prop.missed[1].val, c.prop.missed[2].val = R.Sub(x), Hm.Sub(b), V.Add(x).Add(b)
		c.a1, c.a2 = pay, coll
	case c07FProgram:
		b := c07Portion(rng, Hm)
		st := c07Portion(rng, b)
		coll := b.Sub(st)
		if rng.Intn(2) == 0 {
			coll = coll.Add(c07Amount(rng).Div64(16))
		}
		c.prop.missed[1].val, c.prop.missed[2].val = Hm.Sub(b), V.Add(b)
		c.a1, c.a2 = st, coll
	case c07FPayment:
		p := c07Portion(rng, R)
		c.prop.valid[0].val, c.prop.valid[1].val = R.Sub(p), H.Add(p)
		c.prop.missed[0].val, c.prop.missed[1].val = R.Sub(p), Hm.Add(p)
		c.a1 = p
	case c07FClearing:
		x := c07Portion(rng, R)
		pay := c07Portion(rng, x)
		c.prop.valid[0].val, c.prop.valid[1].val = R.Sub(x), H.Add(x)
		c.prop.missed = append([]c07Out(nil), c.prop.valid...)
		c.prop.size, c.prop.root, c.prop.num = 0, 0, math.MaxUint64
		c.a1 = pay
	}
	return c
}

var c07Perturbations = []string{
	"none", "num-equal", "num-lower", "unlock-hash", "unlock-conditions", "window-start", "window-end",
	"valid-addr", "missed-addr", "valid-addr-swap", "missed-addr-swap", "valid-drop", "valid-add", "missed-drop", "missed-add",
	"valid-sum+1", "valid-sum-1", "missed-sum+1", "missed-sum-1", "renter-valid-up", "renter-missed-up", "renter-unequal",
	"price+1", "collateral-1", "price>renter", "collateral>host", "host-valid-down", "host-missed-up",
	"grid-value", "grid-arg", "filesize", "merkle-root", "num-not-max", "missed-value-differs", "missed-addr-differs", "missed-len-3",
	"cur-shape", "both-shape", "void-down", "other-field", "arg-exact", "host-missed-down",
}

func c07AddOne(c types.Currency) types.Currency {
	if c == c07Max {
		return c
	}
	return c.Add(c07One())
}

func c07SubOne(c types.Currency) types.Currency {
	if c.IsZero() {
		return c
	}
	return c.Sub(c07One())
}

func c07RandOuts(rng *rand.Rand, n int) []c07Out {
	var out []c07Out
	for i := 0; i < n; i++ {
		a := i + 1
		if i == 2 {
			a = 0
		}
		out = append(out, c07Out{a, c07Grid(rng)})
	}
	return out
}

// perturb applies perturbation p; each is meant to break exactly one check of an honest proposal
func c07Perturb(rng *rand.Rand, c *c07Case, p string) {
	// a perturbation that does not apply to the shape an earlier one left behind is a no-op
	defer func() { recover() }()
	pr := &c.prop
	pick := func(os []c07Out) int {
		if len(os) == 0 {
			return -1
		}
		return rng.Intn(len(os))
	}
	switch p {
	case "num-equal":
		pr.num = c.cur.num
	case "num-lower":
		if c.cur.num > 0 {
			pr.num = c.cur.num - 1 - uint64(rng.Int63n(int64(c.cur.num%1000+1)))%c.cur.num
		} else {
			pr.num = 0
		}
	case "unlock-hash":
		pr.uh = c.cur.uh + 1
	case "unlock-conditions":
		pr.uc = (c.cur.uc + 1 + rng.Intn(3)) % 4
	case "window-start":
		pr.ws = c.cur.ws + uint64(1+rng.Intn(2))*2 - 3 // ±1
	case "window-end":
		pr.we = c.cur.we + uint64(1+rng.Intn(2))*2 - 3
	case "valid-addr":
		if i := pick(pr.valid); i >= 0 {
			pr.valid[i].addr = 7 + rng.Intn(3)
		}
	case "missed-addr":
		if i := pick(pr.missed); i >= 0 {
			pr.missed[i].addr = 7 + rng.Intn(3)
		}
	case "valid-addr-swap":
		if len(pr.valid) >= 2 {
			pr.valid[0].addr, pr.valid[1].addr = pr.valid[1].addr, pr.valid[0].addr
		}
	case "missed-addr-swap":
		if len(pr.missed) >= 2 {
			i := rng.Intn(len(pr.missed) - 1)
			pr.missed[i].addr, pr.missed[i+1].addr = pr.missed[i+1].addr, pr.missed[i].addr
		}
	case "valid-drop":
		if len(pr.valid) > 0 {
			// keep the sum: fold the dropped value into the first remaining output where possible
			last := pr.valid[len(pr.valid)-1]
			pr.valid = pr.valid[:len(pr.valid)-1]
			if len(pr.valid) > 0 {
				if s, ov := pr.valid[len(pr.valid)-1].val.AddWithOverflow(last.val); !ov {
					pr.valid[len(pr.valid)-1].val = s
				}
			}
		}
	case "valid-add":
		pr.valid = append(pr.valid, c07Out{3, types.ZeroCurrency})
	case "missed-drop":
		if len(pr.missed) > 0 {
			last := pr.missed[len(pr.missed)-1]
			pr.missed = pr.missed[:len(pr.missed)-1]
			if len(pr.missed) > 0 {
				if s, ov := pr.missed[len(pr.missed)-1].val.AddWithOverflow(last.val); !ov {
					pr.missed[len(pr.missed)-1].val = s
				}
			}
		}
	case "missed-add":
		pr.missed = append(pr.missed, c07Out{0, types.ZeroCurrency})
	case "valid-sum+1":
		if len(pr.valid) >= 2 {
			pr.valid[1].val = c07AddOne(pr.valid[1].val)
		}
	case "valid-sum-1":
		if len(pr.valid) >= 2 {
			pr.valid[1].val = c07SubOne(pr.valid[1].val)
		}
	case "missed-sum+1":
		if i := len(pr.missed) - 1; i >= 0 {
			pr.missed[i].val = c07AddOne(pr.missed[i].val)
		}
	case "missed-sum-1":
		if i := len(pr.missed) - 1; i >= 0 {
			pr.missed[i].val = c07SubOne(pr.missed[i].val)
		}
	case "renter-valid-up":
		// renter gains 1 in both valid and missed, host loses it
		if len(pr.valid) >= 2 && len(pr.missed) >= 2 && !c.cur.valid[1].val.IsZero() && !pr.missed[1].val.IsZero() {
			pr.valid[0].val = c07AddOne(c.cur.valid[0].val)
			pr.valid[1].val = c07SubOne(c.cur.valid[1].val)
			pr.missed[0].val = pr.valid[0].val
			if len(pr.missed) >= 3 {
				// keep the missed sum: take it from wherever there is something
				cm := c.cur.missed
				pr.missed[1].val, pr.missed[2].val = cm[1].val, cm[2].val
				if !cm[2].val.IsZero() {
					pr.missed[2].val = c07SubOne(cm[2].val)
				} else {
					pr.missed[1].val = c07SubOne(cm[1].val)
				}
			}
		}
	case "renter-missed-up":
		if len(pr.missed) >= 3 && !pr.missed[2].val.IsZero() {
			pr.missed[0].val = c07AddOne(c.cur.missed[0].val)
			pr.missed[2].val = c07SubOne(pr.missed[2].val)
			pr.valid[0].val, pr.valid[1].val = c.cur.valid[0].val, c.cur.valid[1].val
		}
	case "renter-unequal":
		// missed renter payout one lower than the valid one, the difference goes to the void
		if len(pr.missed) >= 3 && !pr.missed[0].val.IsZero() {
			pr.missed[0].val = c07SubOne(pr.missed[0].val)
			pr.missed[2].val = c07AddOne(pr.missed[2].val)
		}
	case "price+1":
		// the price is one more than what was transferred
		if len(pr.valid) >= 2 && len(c.cur.valid) >= 2 {
			if x, uf := c.cur.valid[0].val.SubWithUnderflow(pr.valid[0].val); !uf {
				c.a1 = c07AddOne(x)
			}
		}
	case "collateral-1":
		if len(pr.missed) >= 2 && len(c.cur.missed) >= 2 {
			if b, uf := c.cur.missed[1].val.SubWithUnderflow(pr.missed[1].val); !uf {
				if c.fn == c07FProgram {
					// storage + collateral = burn - 1
					c.a1 = c07Portion(rng, c07SubOne(b))
					c.a2 = c07SubOne(b).Sub(c.a1)
				} else {
					c.a2 = c07SubOne(b)
				}
			}
		}
	case "price>renter":
		if len(c.cur.valid) >= 1 {
			c.a1 = c07AddOne(c.cur.valid[0].val)
			if rng.Intn(3) == 0 {
				c.a1 = c07Grid(rng)
			}
		}
	case "collateral>host":
		if len(c.cur.missed) >= 2 {
			c.a2 = c07AddOne(c.cur.missed[1].val)
		}
	case "host-valid-down":
		// host valid goes down by one, renter valid unchanged => sum changes unless the void... (valid has no void)
		if len(pr.valid) >= 2 {
			pr.valid[1].val = c07SubOne(c.cur.valid[1].val)
			pr.valid[0].val = c07AddOne(c.cur.valid[0].val)
		}
	case "host-missed-up":
		if len(pr.missed) >= 3 && !pr.missed[2].val.IsZero() {
			pr.missed[1].val = c07AddOne(c.cur.missed[1].val)
			pr.missed[2].val = c07SubOne(pr.missed[2].val)
		}
	case "grid-value":
		k := 1 + rng.Intn(3)
		for j := 0; j < k; j++ {
			if rng.Intn(2) == 0 {
				if i := pick(pr.valid); i >= 0 {
					pr.valid[i].val = c07Grid(rng)
				}
			} else if i := pick(pr.missed); i >= 0 {
				pr.missed[i].val = c07Grid(rng)
			}
		}
	case "grid-arg":
		if rng.Intn(2) == 0 {
			c.a1 = c07Grid(rng)
		} else {
			c.a2 = c07Grid(rng)
		}
		if rng.Intn(3) == 0 {
			c.a1, c.a2 = c07Grid(rng), c07Grid(rng)
		}
	case "filesize":
		pr.size = uint64(1 + rng.Intn(3))
	case "merkle-root":
		pr.root = 1 + rng.Intn(3)
	case "num-not-max":
		pr.num = math.MaxUint64 - 1 - uint64(rng.Intn(2))
	case "missed-value-differs":
		if len(pr.missed) >= 2 {
			i := rng.Intn(2)
			if rng.Intn(2) == 0 {
				pr.missed[i].val = c07AddOne(pr.missed[i].val)
			} else {
				pr.missed[i].val = c07SubOne(pr.missed[i].val)
			}
		}
	case "missed-addr-differs":
		if len(pr.missed) >= 2 {
			pr.missed[rng.Intn(2)].addr = 9
		}
	case "missed-len-3":
		pr.missed = append(pr.missed, c07Out{0, types.ZeroCurrency})
	case "cur-shape":
		// current revision of another shape, proposal mirrors it (what Revise would build)
		nv, nm := rng.Intn(5), rng.Intn(5)
		c.cur.valid, c.cur.missed = c07RandOuts(rng, nv), c07RandOuts(rng, nm)
		if rng.Intn(2) == 0 { // small values so sums can match
			for i := range c.cur.valid {
				c.cur.valid[i].val = types.NewCurrency64(uint64(rng.Intn(5)))
			}
			for i := range c.cur.missed {
				c.cur.missed[i].val = types.NewCurrency64(uint64(rng.Intn(5)))
			}
		}
		pr.valid, pr.missed = append([]c07Out(nil), c.cur.valid...), append([]c07Out(nil), c.cur.missed...)
		if c.fn == c07FClearing {
			pr.missed = append([]c07Out(nil), pr.valid...)
		}
	case "both-shape":
		c.cur.valid, c.cur.missed = c07RandOuts(rng, rng.Intn(5)), c07RandOuts(rng, rng.Intn(5))
		pr.valid, pr.missed = c07RandOuts(rng, rng.Intn(5)), c07RandOuts(rng, rng.Intn(5))
	case "host-missed-down":
		// the host's missed payout loses k more, the void gains it
		if len(pr.missed) >= 3 && !pr.missed[1].val.IsZero() {
			k := c07One()
			if rng.Intn(2) == 0 {
				k = c07Portion(rng, pr.missed[1].val)
			}
			if s, ov := pr.missed[2].val.AddWithOverflow(k); !ov {
				pr.missed[1].val = pr.missed[1].val.Sub(k)
				pr.missed[2].val = s
			}
		}
	case "void-down":
		// host missed payout up, void down (program revisions must only move host -> void)
		if len(pr.missed) >= 3 && !c.cur.missed[2].val.IsZero() {
			pr.missed[1].val = c07AddOne(c.cur.missed[1].val)
			pr.missed[2].val = c07SubOne(c.cur.missed[2].val)
		}
	case "other-field":
		// fields the validators do not look at
		pr.other = c.cur.other + 1
		if c.fn != c07FClearing {
			pr.size, pr.root = uint64(rng.Intn(3)), rng.Intn(3)
		}
	case "arg-exact":
		// arguments exactly at the boundary: price = transfer, collateral = burn
		if len(pr.valid) >= 2 && len(c.cur.valid) >= 2 && len(pr.missed) >= 2 && len(c.cur.missed) >= 2 {
			if x, uf := c.cur.valid[0].val.SubWithUnderflow(pr.valid[0].val); !uf {
				c.a1 = x
			}
			if b, uf := c.cur.missed[1].val.SubWithUnderflow(pr.missed[1].val); !uf {
				if c.fn == c07FProgram {
					c.a1 = c07Portion(rng, b)
					c.a2 = b.Sub(c.a1)
				} else {
					c.a2 = b
				}
			}
		}
	}
}

// ---------------------------------------------------------------- directed cases

func c07Cur64(v uint64) types.Currency { return types.NewCurrency64(v) }

func c07Directed() []c07Case {
	base := c07Rev{other: 1, uc: 0, size: 1 << 22, root: 1, ws: 100, we: 200,
		valid:  []c07Out{{1, c07Cur64(1000)}, {2, c07Cur64(500)}},
		missed: []c07Out{{1, c07Cur64(1000)}, {2, c07Cur64(400)}, {0, c07Cur64(100)}},
		uh:     1, num: 5}
	mk := func(fn int, desc string, mod func(c *c07Case)) c07Case {
		c := c07Case{fn: fn, cur: base.clone(), prop: base.clone(), desc: desc}
		c.prop.num = 6
		mod(&c)
		return c
	}
	return []c07Case{
		// witnesses of the panics in the unpatched code
		mk(c07FValidate, "witness: renter-chosen values near 2^128 overflow Currency.Add", func(c *c07Case) {
			c.prop.valid[0].val, c.prop.valid[1].val = c07Max, c07Cur64(1)
		}),
		mk(c07FValidate, "witness: proposal has more valid outputs than current (index out of range)", func(c *c07Case) {
			c.prop.valid = append(c.prop.valid, c07Out{3, types.ZeroCurrency})
		}),
		mk(c07FValidate, "witness: neither revision has outputs (index out of range in ValidRenterPayout)", func(c *c07Case) {
			c.cur.valid, c.cur.missed, c.prop.valid, c.prop.missed = nil, nil, nil, nil
		}),
		mk(c07FPayment, "witness: payment above the renter payout (Currency.Sub underflow)", func(c *c07Case) {
			c.a1 = c07Cur64(1001)
		}),
		mk(c07FProgram, "witness: current has two missed outputs (index 2 out of range)", func(c *c07Case) {
			c.cur.missed = []c07Out{{1, c07Cur64(1000)}, {2, c07Cur64(500)}}
			c.prop.missed = []c07Out{{1, c07Cur64(1000)}, {2, c07Cur64(500)}}
		}),
		mk(c07FClearing, "witness: current has one valid output (index out of range)", func(c *c07Case) {
			c.cur.valid = c.cur.valid[:1]
			c.prop.missed = append([]c07Out(nil), c.prop.valid...)
			c.prop.size, c.prop.root, c.prop.num = 0, 0, math.MaxUint64
		}),
		mk(c07FProgram, "witness: storage + collateral overflows", func(c *c07Case) {
			c.a1, c.a2 = c07Max, c07Cur64(1)
		}),
		mk(c07FPayment, "witness: host missed payout + payment overflows", func(c *c07Case) {
			c.cur.missed = []c07Out{{1, c07Cur64(1000)}, {2, c07Max}, {0, types.ZeroCurrency}}
			c.prop.valid = []c07Out{{1, c07Cur64(900)}, {2, c07Cur64(600)}}
			c.prop.missed = []c07Out{{1, c07Cur64(900)}, {2, c07Cur64(500)}, {0, c07Cur64(100)}}
			c.a1 = c07Cur64(100)
		}),
		mk(c07FStd, "witness: current sum overflows", func(c *c07Case) {
			c.cur.valid[0].val, c.cur.valid[1].val = c07Max, c07Max
		}),
		mk(c07FValidate, "witness: proposal has more missed outputs than current", func(c *c07Case) {
			c.prop.missed = append(c.prop.missed, c07Out{0, types.ZeroCurrency})
		}),
		// boundary acceptances
		mk(c07FValidate, "accept: price = transfer, collateral = burn", func(c *c07Case) {
			c.prop.valid[0].val, c.prop.valid[1].val = c07Cur64(990), c07Cur64(510)
			c.prop.missed[0].val, c.prop.missed[1].val, c.prop.missed[2].val = c07Cur64(990), c07Cur64(380), c07Cur64(130)
			c.a1, c.a2 = c07Cur64(10), c07Cur64(20)
		}),
		mk(c07FValidate, "reject: price = transfer + 1", func(c *c07Case) {
			c.prop.valid[0].val, c.prop.valid[1].val = c07Cur64(990), c07Cur64(510)
			c.prop.missed[0].val, c.prop.missed[1].val, c.prop.missed[2].val = c07Cur64(990), c07Cur64(380), c07Cur64(130)
			c.a1, c.a2 = c07Cur64(11), c07Cur64(20)
		}),
		mk(c07FValidate, "reject: collateral = burn - 1", func(c *c07Case) {
			c.prop.valid[0].val, c.prop.valid[1].val = c07Cur64(990), c07Cur64(510)
			c.prop.missed[0].val, c.prop.missed[1].val, c.prop.missed[2].val = c07Cur64(990), c07Cur64(380), c07Cur64(130)
			c.a1, c.a2 = c07Cur64(10), c07Cur64(19)
		}),
		mk(c07FProgram, "accept: burn = storage + collateral", func(c *c07Case) {
			c.prop.missed[1].val, c.prop.missed[2].val = c07Cur64(370), c07Cur64(130)
			c.a1, c.a2 = c07Cur64(10), c07Cur64(20)
		}),
		mk(c07FProgram, "reject: burn = storage + collateral + 1", func(c *c07Case) {
			c.prop.missed[1].val, c.prop.missed[2].val = c07Cur64(369), c07Cur64(131)
			c.a1, c.a2 = c07Cur64(10), c07Cur64(20)
		}),
		mk(c07FPayment, "accept: exact payment", func(c *c07Case) {
			c.prop.valid[0].val, c.prop.valid[1].val = c07Cur64(900), c07Cur64(600)
			c.prop.missed[0].val, c.prop.missed[1].val = c07Cur64(900), c07Cur64(500)
			c.a1 = c07Cur64(100)
		}),
		mk(c07FPayment, "reject: payment moved from the host's missed payout into the void (sums, addresses, renter payouts consistent)", func(c *c07Case) {
			c.prop.valid[0].val, c.prop.valid[1].val = c07Cur64(900), c07Cur64(600)
			c.prop.missed[0].val, c.prop.missed[1].val, c.prop.missed[2].val = c07Cur64(900), c07Cur64(400), c07Cur64(200)
			c.a1 = c07Cur64(100)
		}),
		mk(c07FPayment, "reject: host missed payout drained into the void while the payment is made", func(c *c07Case) {
			c.prop.valid[0].val, c.prop.valid[1].val = c07Cur64(900), c07Cur64(600)
			c.prop.missed[0].val, c.prop.missed[1].val, c.prop.missed[2].val = c07Cur64(900), c07Cur64(0), c07Cur64(600)
			c.a1 = c07Cur64(100)
		}),
		mk(c07FClearing, "accept: clearing revision", func(c *c07Case) {
			c.prop.valid[0].val, c.prop.valid[1].val = c07Cur64(990), c07Cur64(510)
			c.prop.missed = append([]c07Out(nil), c.prop.valid...)
			c.prop.size, c.prop.root, c.prop.num = 0, 0, math.MaxUint64
			c.a1 = c07Cur64(10)
		}),
		mk(c07FClearing, "reject: clearing keeps the file size", func(c *c07Case) {
			c.prop.valid[0].val, c.prop.valid[1].val = c07Cur64(990), c07Cur64(510)
			c.prop.missed = append([]c07Out(nil), c.prop.valid...)
			c.prop.root, c.prop.num = 0, math.MaxUint64
			c.a1 = c07Cur64(10)
		}),
		mk(c07FRevise, "revise: honest", func(c *c07Case) {
			c.num = 6
			c.vs = []types.Currency{c07Cur64(990), c07Cur64(510)}
			c.ms = []types.Currency{c07Cur64(990), c07Cur64(380), c07Cur64(130)}
		}),
		mk(c07FRevise, "revise: locked contract", func(c *c07Case) {
			c.cur.num = math.MaxUint64
			c.num = math.MaxUint64
			c.vs = []types.Currency{c07Cur64(990), c07Cur64(510)}
			c.ms = []types.Currency{c07Cur64(990), c07Cur64(380), c07Cur64(130)}
		}),
		mk(c07FClearingRev, "clearing revision from values", func(c *c07Case) {
			c.vs = []types.Currency{c07Cur64(990), c07Cur64(510)}
		}),
		mk(c07FInitial, "initial revision", func(c *c07Case) {}),
	}
}

// ---------------------------------------------------------------- the property's conjunction

// c07MonitorStd evaluates, independently of the model, what the property promises for an
// accepted standard revision (ValidateRevision / ValidateProgramRevision / ValidatePaymentRevision).
// price: lower bound on the increase of the host's valid payout; maxBurn: upper bound on the
// decrease of the host's missed payout.
func c07MonitorStd(em *verifEmitter, what string, cur, rev types.FileContractRevision, price, maxBurn *big.Int) {
	if rev.RevisionNumber <= cur.RevisionNumber {
		em.Monitor("accepted-revision-number-not-increased", fmt.Sprintf("%s: %d -> %d", what, cur.RevisionNumber, rev.RevisionNumber))
	}
	if rev.UnlockHash != cur.UnlockHash || rev.UnlockConditions.UnlockHash() != cur.UnlockConditions.UnlockHash() {
		em.Monitor("accepted-unlock-conditions-changed", what)
	}
	if rev.WindowStart != cur.WindowStart || rev.WindowEnd != cur.WindowEnd {
		em.Monitor("accepted-proof-window-changed", what)
	}
	if len(rev.ValidProofOutputs) != len(cur.ValidProofOutputs) || len(rev.MissedProofOutputs) != len(cur.MissedProofOutputs) {
		em.Monitor("accepted-output-count-changed", fmt.Sprintf("%s: valid %d -> %d, missed %d -> %d", what,
			len(cur.ValidProofOutputs), len(rev.ValidProofOutputs), len(cur.MissedProofOutputs), len(rev.MissedProofOutputs)))
		return
	}
	for i := range rev.ValidProofOutputs {
		if rev.ValidProofOutputs[i].Address != cur.ValidProofOutputs[i].Address {
			em.Monitor("accepted-output-address-changed", fmt.Sprintf("%s: valid %d", what, i))
		}
	}
	for i := range rev.MissedProofOutputs {
		if rev.MissedProofOutputs[i].Address != cur.MissedProofOutputs[i].Address {
			em.Monitor("accepted-output-address-changed", fmt.Sprintf("%s: missed %d", what, i))
		}
	}
	if c07Sum(rev.ValidProofOutputs).Cmp(c07Sum(cur.ValidProofOutputs)) != 0 {
		em.Monitor("accepted-valid-sum-changed", what)
	}
	// the current revision of a stored contract has equal valid and missed sums (consensus rule)
	if c07Sum(cur.ValidProofOutputs).Cmp(c07Sum(cur.MissedProofOutputs)) == 0 &&
		c07Sum(rev.MissedProofOutputs).Cmp(c07Sum(cur.MissedProofOutputs)) != 0 {
		em.Monitor("accepted-missed-sum-changed", what)
	}
	if len(rev.ValidProofOutputs) < 2 || len(rev.MissedProofOutputs) < 2 {
		em.Monitor("accepted-without-renter-and-host-outputs", what)
		return
	}
	if rev.ValidProofOutputs[0].Value.Cmp(cur.ValidProofOutputs[0].Value) > 0 || rev.MissedProofOutputs[0].Value.Cmp(cur.MissedProofOutputs[0].Value) > 0 {
		em.Monitor("accepted-renter-payout-increased", what)
	}
	// host valid payout increases by at least the price
	if need := new(big.Int).Add(cur.ValidProofOutputs[1].Value.Big(), price); rev.ValidProofOutputs[1].Value.Big().Cmp(need) < 0 {
		em.Monitor("accepted-host-valid-payout-below-price", fmt.Sprintf("%s: %v -> %v, price %v", what, cur.ValidProofOutputs[1].Value.ExactString(), rev.ValidProofOutputs[1].Value.ExactString(), price))
	}
	// host missed payout decreases by at most maxBurn
	if floor := new(big.Int).Sub(cur.MissedProofOutputs[1].Value.Big(), maxBurn); rev.MissedProofOutputs[1].Value.Big().Cmp(floor) < 0 {
		em.Monitor("accepted-host-missed-payout-burn-above-collateral", fmt.Sprintf("%s: %v -> %v, allowed %v", what, cur.MissedProofOutputs[1].Value.ExactString(), rev.MissedProofOutputs[1].Value.ExactString(), maxBurn))
	}
}

func c07MonitorClearing(em *verifEmitter, cur, fin types.FileContractRevision, payment types.Currency, toHost types.Currency) {
	if fin.Filesize != 0 || fin.FileMerkleRoot != (types.Hash256{}) {
		em.Monitor("clearing-accepted-file-not-zeroed", "")
	}
	if fin.RevisionNumber != math.MaxUint64 {
		em.Monitor("clearing-accepted-revision-number-not-max", fmt.Sprint(fin.RevisionNumber))
	}
	if len(fin.ValidProofOutputs) != len(fin.MissedProofOutputs) {
		em.Monitor("clearing-accepted-missed-differs-from-valid", "count")
		return
	}
	for i := range fin.ValidProofOutputs {
		if fin.ValidProofOutputs[i] != fin.MissedProofOutputs[i] {
			em.Monitor("clearing-accepted-missed-differs-from-valid", fmt.Sprintf("output %d", i))
		}
	}
	if fin.UnlockHash != cur.UnlockHash || fin.UnlockConditions.UnlockHash() != cur.UnlockConditions.UnlockHash() {
		em.Monitor("accepted-unlock-conditions-changed", "clearing")
	}
	if fin.WindowStart != cur.WindowStart || fin.WindowEnd != cur.WindowEnd {
		em.Monitor("accepted-proof-window-changed", "clearing")
	}
	if len(fin.ValidProofOutputs) != len(cur.ValidProofOutputs) {
		em.Monitor("accepted-output-count-changed", "clearing")
		return
	}
	for i := range fin.ValidProofOutputs {
		if fin.ValidProofOutputs[i].Address != cur.ValidProofOutputs[i].Address {
			em.Monitor("accepted-output-address-changed", fmt.Sprintf("clearing: valid %d", i))
		}
	}
	if c07Sum(fin.ValidProofOutputs).Cmp(c07Sum(cur.ValidProofOutputs)) != 0 {
		em.Monitor("accepted-valid-sum-changed", "clearing")
	}
	if len(fin.ValidProofOutputs) >= 2 {
		if fin.ValidProofOutputs[0].Value.Cmp(cur.ValidProofOutputs[0].Value) > 0 {
			em.Monitor("accepted-renter-payout-increased", "clearing")
		}
		need := new(big.Int).Add(cur.ValidProofOutputs[1].Value.Big(), payment.Big())
		if fin.ValidProofOutputs[1].Value.Big().Cmp(need) < 0 {
			em.Monitor("accepted-host-valid-payout-below-price", "clearing")
		}
		got := new(big.Int).Sub(fin.ValidProofOutputs[1].Value.Big(), cur.ValidProofOutputs[1].Value.Big())
		if got.Cmp(toHost.Big()) != 0 {
			em.Monitor("returned-transfer-differs-from-payout-change", "clearing")
		}
	}
}

// c07MonitorBuilt: Revise/ClearingRevision take only the revision number and the output values
// from the renter.
func c07MonitorBuiltValues(em *verifEmitter, what string, outs []types.SiacoinOutput, vals []types.Currency) {
	if len(outs) != len(vals) {
		em.Monitor("built-revision-values-differ-from-renter-values", what+": count")
		return
	}
	for i := range outs {
		if outs[i].Value != vals[i] {
			em.Monitor("built-revision-values-differ-from-renter-values", fmt.Sprintf("%s: output %d", what, i))
		}
	}
}

func c07MonitorBuilt(em *verifEmitter, what string, cur, got types.FileContractRevision, clearing bool) {
	same := got.ParentID == cur.ParentID && got.UnlockConditions.UnlockHash() == cur.UnlockConditions.UnlockHash() &&
		got.WindowStart == cur.WindowStart && got.WindowEnd == cur.WindowEnd && got.UnlockHash == cur.UnlockHash &&
		got.Payout == cur.Payout && len(got.ValidProofOutputs) == len(cur.ValidProofOutputs)
	if !clearing {
		same = same && got.Filesize == cur.Filesize && got.FileMerkleRoot == cur.FileMerkleRoot && len(got.MissedProofOutputs) == len(cur.MissedProofOutputs)
	}
	if same {
		for i := range got.ValidProofOutputs {
			same = same && got.ValidProofOutputs[i].Address == cur.ValidProofOutputs[i].Address
		}
		if !clearing {
			for i := range got.MissedProofOutputs {
				same = same && got.MissedProofOutputs[i].Address == cur.MissedProofOutputs[i].Address
			}
		}
	}
	if !same {
		em.Monitor("built-revision-takes-more-than-values-from-renter", what)
	}
}

// ---------------------------------------------------------------- the test

func TestVerifC07(t *testing.T) {
	em := newVerifEmitter(t, "From HostdBase Require Import Base.\nFrom HostdRevision Require Import Model.\nLocal Open Scope N_scope.", "case", "check")
	defer em.Close()

	directed := c07Directed()
	n := verifN(4000)
	for id := 0; id < len(directed)+n; id++ {
		if em.Skip(id) {
			continue
		}
		rng := verifCaseRand(id)
		var c c07Case
		if id < len(directed) {
			c = directed[id]
			em.Count("directed")
		} else {
			// function under test
			fn := []int{c07FStd, c07FValidate, c07FValidate, c07FValidate, c07FProgram, c07FProgram, c07FPayment, c07FPayment,
				c07FClearing, c07FClearing, c07FRevise, c07FClearingRev, c07FInitial}[rng.Intn(13)]
			cur := c07WFCurrent(rng)
			switch fn {
			case c07FRevise, c07FClearingRev, c07FInitial:
				c = c07Case{fn: fn, cur: cur, prop: cur.clone()}
				// shape of the current revision and of the supplied value lists
				if rng.Intn(3) == 0 {
					c.cur.valid, c.cur.missed = c07RandOuts(rng, rng.Intn(5)), c07RandOuts(rng, rng.Intn(5))
				}
				if rng.Intn(6) == 0 {
					c.cur.num = math.MaxUint64
				}
				nv, nm := len(c.cur.valid), len(c.cur.missed)
				if rng.Intn(4) == 0 {
					nv = rng.Intn(5)
				}
				if rng.Intn(4) == 0 {
					nm = rng.Intn(5)
				}
				for i := 0; i < nv; i++ {
					c.vs = append(c.vs, c07Grid(rng))
				}
				for i := 0; i < nm; i++ {
					c.ms = append(c.ms, c07Grid(rng))
				}
				switch rng.Intn(6) {
				case 0:
					c.num = c.cur.num
				case 1:
					c.num = c.cur.num - 1
				case 2:
					c.num = math.MaxUint64
				default:
					c.num = c.cur.num + 1 + uint64(rng.Intn(5))
				}
				c.desc = fmt.Sprintf("%s nv=%d/%d nm=%d/%d", c07FuncNames[fn], nv, len(c.cur.valid), nm, len(c.cur.missed))
			default:
				c = c07Honest(rng, fn, cur)
				// which perturbations make sense for which function
				var p string
				switch r := rng.Intn(10); {
				case r < 2:
					p = "none"
				case r < 3:
					p = "arg-exact"
				default:
					p = c07Perturbations[rng.Intn(len(c07Perturbations))]
				}
				c07Perturb(rng, &c, p)
				// sometimes a second, independent perturbation
				if rng.Intn(12) == 0 {
					p2 := c07Perturbations[rng.Intn(len(c07Perturbations))]
					c07Perturb(rng, &c, p2)
					p += "+" + p2
				}
				c.desc = c07FuncNames[fn] + " " + p
				em.Count("perturbation:" + p)
			}
		}
		em.Count("func:" + c07FuncNames[c.fn])
		em.Count(fmt.Sprintf("shape:cur=%d/%d", len(c.cur.valid), len(c.cur.missed)))

		ids := newC07IDs()
		cur, prop := ids.build(c.cur), ids.build(c.prop)
		// half of the honest-path proposals are built by the real Revise, as the RPC handlers do
		viaRevise := false
		if id >= len(directed) && c.fn <= c07FPayment && rng.Intn(2) == 0 &&
			len(c.prop.valid) == len(c.cur.valid) && len(c.prop.missed) == len(c.cur.missed) && c.prop.num > c.cur.num && c.cur.num != math.MaxUint64 {
			var vs, ms []types.Currency
			for _, o := range c.prop.valid {
				vs = append(vs, o.val)
			}
			for _, o := range c.prop.missed {
				ms = append(ms, o.val)
			}
			if r, err := Revise(cur, c.prop.num, vs, ms); err == nil {
				// Revise ignores everything but number and values: keep the perturbed fields
				// of the candidate only when the perturbation was about values/number
				if HashRevision(r) == HashRevision(prop) {
					viaRevise = true
					prop = r
				}
			}
		}
		if viaRevise {
			em.Count("proposal:via-Revise")
		}

		var inp string
		var res c07Result
		em.BeginCase(id, c.desc) // for Monitor's bookkeeping only; the case is recorded with FunCase
		switch c.fn {
		case c07FStd:
			inp = fmt.Sprintf("(CStd %s %s)", ids.term(cur), ids.term(prop))
			res = c07Call(func() ([]types.Currency, *types.FileContractRevision, error) {
				return nil, nil, validateStdRevision(cur, prop)
			})
		case c07FValidate:
			inp = fmt.Sprintf("(CValidate %s %s %s %s)", ids.term(cur), ids.term(prop), c.a1.ExactString(), c.a2.ExactString())
			res = c07Call(func() ([]types.Currency, *types.FileContractRevision, error) {
				a, b, err := ValidateRevision(cur, prop, c.a1, c.a2)
				return []types.Currency{a, b}, nil, err
			})
			if res.class == "ok" {
				c07MonitorStd(em, "ValidateRevision", cur, prop, c.a1.Big(), c.a2.Big())
				dv := new(big.Int).Sub(prop.ValidProofOutputs[1].Value.Big(), cur.ValidProofOutputs[1].Value.Big())
				db := new(big.Int).Sub(cur.MissedProofOutputs[1].Value.Big(), prop.MissedProofOutputs[1].Value.Big())
				if dv.Cmp(res.vals[0].Big()) != 0 || db.Cmp(res.vals[1].Big()) != 0 {
					em.Monitor("returned-transfer-differs-from-payout-change", "ValidateRevision")
				}
			}
		case c07FProgram:
			inp = fmt.Sprintf("(CProgram %s %s %s %s)", ids.term(cur), ids.term(prop), c.a1.ExactString(), c.a2.ExactString())
			res = c07Call(func() ([]types.Currency, *types.FileContractRevision, error) {
				a, err := ValidateProgramRevision(cur, prop, c.a1, c.a2)
				return []types.Currency{a}, nil, err
			})
			if res.class == "ok" {
				c07MonitorStd(em, "ValidateProgramRevision", cur, prop, new(big.Int), new(big.Int).Add(c.a1.Big(), c.a2.Big()))
				db := new(big.Int).Sub(cur.MissedProofOutputs[1].Value.Big(), prop.MissedProofOutputs[1].Value.Big())
				if db.Cmp(res.vals[0].Big()) != 0 {
					em.Monitor("returned-transfer-differs-from-payout-change", "ValidateProgramRevision")
				}
			}
		case c07FPayment:
			inp = fmt.Sprintf("(CPayment %s %s %s)", ids.term(cur), ids.term(prop), c.a1.ExactString())
			res = c07Call(func() ([]types.Currency, *types.FileContractRevision, error) {
				return nil, nil, ValidatePaymentRevision(cur, prop, c.a1)
			})
			if res.class == "ok" {
				c07MonitorStd(em, "ValidatePaymentRevision", cur, prop, c.a1.Big(), new(big.Int))
			}
		case c07FClearing:
			inp = fmt.Sprintf("(CClearing %s %s %s)", ids.term(cur), ids.term(prop), c.a1.ExactString())
			res = c07Call(func() ([]types.Currency, *types.FileContractRevision, error) {
				a, err := ValidateClearingRevision(cur, prop, c.a1)
				return []types.Currency{a}, nil, err
			})
			if res.class == "ok" {
				c07MonitorClearing(em, cur, prop, c.a1, res.vals[0])
			}
		case c07FRevise:
			inp = fmt.Sprintf("(CRevise %s %d %s %s)", ids.term(cur), c.num, c07Curs(c.vs), c07Curs(c.ms))
			res = c07Call(func() ([]types.Currency, *types.FileContractRevision, error) {
				r, err := Revise(cur, c.num, c.vs, c.ms)
				return nil, &r, err
			})
			if res.class == "ok" {
				c07MonitorBuilt(em, "Revise", cur, *res.rev, false)
				c07MonitorBuiltValues(em, "Revise valid", res.rev.ValidProofOutputs, c.vs)
				c07MonitorBuiltValues(em, "Revise missed", res.rev.MissedProofOutputs, c.ms)
				if res.rev.RevisionNumber != c.num || c.num <= cur.RevisionNumber {
					em.Monitor("built-revision-number-not-renter-number", "Revise")
				}
			}
		case c07FClearingRev:
			inp = fmt.Sprintf("(CClearingRev %s %s)", ids.term(cur), c07Curs(c.vs))
			res = c07Call(func() ([]types.Currency, *types.FileContractRevision, error) {
				r, err := ClearingRevision(cur, c.vs)
				return nil, &r, err
			})
			if res.class == "ok" {
				c07MonitorBuilt(em, "ClearingRevision", cur, *res.rev, true)
				c07MonitorBuiltValues(em, "ClearingRevision valid", res.rev.ValidProofOutputs, c.vs)
				c07MonitorBuiltValues(em, "ClearingRevision missed", res.rev.MissedProofOutputs, c.vs)
				// what ClearingRevision builds from honest values passes ValidateClearingRevision's
				// structural part: cleared, max number, missed = valid
				if r := *res.rev; r.Filesize != 0 || r.FileMerkleRoot != (types.Hash256{}) || r.RevisionNumber != math.MaxUint64 {
					em.Monitor("clearing-revision-not-cleared", "")
				}
			}
		case c07FInitial:
			hostKey := types.NewPrivateKeyFromSeed(make([]byte, 32)).PublicKey().UnlockKey()
			renterKey := types.PublicKey{byte(c.cur.uc%len(c07UCs) + 1)}.UnlockKey()
			txn := types.Transaction{FileContracts: []types.FileContract{cur.FileContract}}
			// extra contracts after the first one are ignored
			for i := 0; i < rng.Intn(2); i++ {
				txn.FileContracts = append(txn.FileContracts, prop.FileContract)
			}
			exp := c07UC(hostKey, renterKey)
			other := ids.otherID(txn.FileContractID(0), cur.Payout, exp)
			_ = other
			fcRev := types.FileContractRevision{FileContract: cur.FileContract}
			ucid := c.cur.uc % len(c07UCs)
			res = c07Call(func() ([]types.Currency, *types.FileContractRevision, error) {
				r := InitialRevision(txn, hostKey, renterKey)
				return nil, &r, nil
			})
			// the payout is not carried over by InitialRevision; register what it should produce
			ids.others[c07OtherKey(txn.FileContractID(0), types.ZeroCurrency, exp)] = 7777
			inp = fmt.Sprintf("(CInitial %s 7777 %d)", ids.term(fcRev), ucid)
		}
		em.Count("result:" + c07FuncNames[c.fn] + ":" + res.class)
		if res.class == "panic" {
			em.Monitor("validation-panics", fmt.Sprintf("%s: %s", c07FuncNames[c.fn], res.pmsg))
		}
		em.FunCase(id, inp, ids.outTerm(res), res.class == "ok")
	}
}
