//go:build verif

package rhp

import (
	rhp2 "go.sia.tech/core/rhp/v2"
	"go.sia.tech/core/types"
	"go.uber.org/zap"
)

// Exports for the external harness package (rhp_test): the in-package test files of
// rhp/v2 cannot import internal/testutil (host/settings imports rhp/v2).

// VerifSession is the host side of one RHP2 session, as SessionHandler.upgrade creates it.
type VerifSession struct{ s *session }

// VerifNewSession wraps a host transport.
func VerifNewSession(t *rhp2.Transport) *VerifSession { return &VerifSession{s: &session{t: t}} }

// VerifRPCLoop handles one RPC of the session (SessionHandler.rpcLoop) in the caller's
// goroutine, so that a panic of the handler can be recovered and reported.
func (sh *SessionHandler) VerifRPCLoop(vs *VerifSession, log *zap.Logger) error {
	return sh.rpcLoop(vs.s, log)
}

// VerifEnd releases the contract lock the way the deferred function of upgrade does.
func (sh *SessionHandler) VerifEnd(vs *VerifSession) {
	if vs.s.contract.Revision.ParentID != (types.FileContractID{}) {
		sh.contracts.Unlock(vs.s.contract.Revision.ParentID)
	}
}
