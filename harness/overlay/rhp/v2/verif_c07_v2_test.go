//go:build verif

package rhp

import (
	"fmt"
	"math"
	"math/rand"
	"testing"

	rhp2 "go.sia.tech/core/rhp/v2"
	"go.sia.tech/core/types"
	"go.sia.tech/hostd/v2/host/contracts"
	"go.sia.tech/hostd/v2/internal/threadgroup"
	"go.sia.tech/hostd/v2/rhp"
	"go.uber.org/zap"
)

// TestVerifC07V2 reaches rhp.Revise + rhp.ValidateRevision the way a renter does: through the
// real RPCSectorRoots handler (SessionHandler.rpcLoop) over a loopback connection, with hostile
// revision numbers and ValidProofValues/MissedProofValues but an honest signature, a locked
// contract and stubbed chain/settings/contract manager (stubs of verif_c12_v2_test.go).
// Observable: did the handler get as far as asking the contract manager to commit the revision
// (accepted), answer with an error, or panic.  Model: coq/Revision/Model.v `run (HRevision ..)`.

type c07ReviseProbe struct {
	c12Contracts
	reviseCalled int
}

// the locked contract of the sector-roots requests holds one sector (an empty range is refused
// before the revision is looked at)
func (c *c07ReviseProbe) SectorRoots(types.FileContractID) []types.Hash256 {
	return []types.Hash256{{7}}
}

func (c *c07ReviseProbe) ReviseContract(id types.FileContractID) (*contracts.ContractUpdater, error) {
	c.reviseCalled++
	return nil, fmt.Errorf("stop here")
}

type c07V2Case struct {
	ex     c12FC
	num    uint64
	vs, ms []types.Currency
	desc   string
}

func c07V2Honest(rng *rand.Rand, cost, coll types.Currency) c07V2Case {
	R := c12Add(cost, c12Amount(rng))
	H := c12Add(coll, c12Amount(rng))
	Hm := c12Add(coll, c12Portion(rng, H.Sub(coll)))
	V := H.Sub(Hm)
	ex := c12FC{ws: 5000, we: 5144, uh: 1, num: uint64(1 + rng.Intn(1000)),
		valid:  []c12Out{{1, R}, {5, H}},
		missed: []c12Out{{1, R}, {5, Hm}, {0, V}}}
	x := c12Add(cost, c12Portion(rng, R.Sub(cost)))
	b := c12Portion(rng, coll) // the host burns at most the collateral
	return c07V2Case{ex: ex, num: ex.num + 1 + uint64(rng.Intn(3)),
		vs: []types.Currency{R.Sub(x), c12Add(H, x)},
		ms: []types.Currency{R.Sub(x), Hm.Sub(b), c12Add(c12Add(V, x), b)}}
}

func TestVerifC07V2(t *testing.T) {
	em := newVerifEmitter(t, "From HostdBase Require Import Base.\nFrom HostdRevision Require Import Model.\nLocal Open Scope N_scope.", "case", "check")
	defer em.Close()

	settings := rhp2.HostSettings{BaseRPCPrice: c12C(1000), DownloadBandwidthPrice: c12C(3), UploadBandwidthPrice: c12C(2),
		SectorAccessPrice: c12C(70), StoragePrice: c12C(5), Collateral: c12C(7)}
	const chainHeight, windowEnd = 100, 5144
	sector := make([]byte, rhp2.SectorSize)
	readSections := []rhp2.RPCReadRequestSection{{MerkleRoot: types.Hash256{1}, Offset: 0, Length: 64}}
	writeActions := []rhp2.RPCWriteAction{{Type: rhp2.RPCWriteActionAppend, Data: sector}}
	rpcCost := func(kind string) (types.Currency, types.Currency) {
		var costs rhp2.RPCCost
		switch kind {
		case "roots":
			costs = settings.RPCSectorRootsCost(0, 1)
		case "read":
			costs, _ = settings.RPCReadCost(readSections, false)
		case "write":
			costs, _ = settings.RPCWriteCost(writeActions, 0, windowEnd-chainHeight, false)
		}
		return costs.Total()
	}

	perts := []string{"none", "none", "exact-cost", "cost-1", "num-equal", "num-lower", "num-max", "locked", "valid-count", "missed-count",
		"grid-valid", "grid-missed", "max-valid", "renter-up", "host-missed-down", "missed-sum+1", "valid-sum+1", "renter-unequal", "ex-shape", "no-outputs",
		"burn=collateral", "burn=collateral+1"}
	n := verifN(600)
	for id := 0; id < 3+n; id++ {
		if em.Skip(id) {
			continue
		}
		rng := verifCaseRand(id)
		kind := []string{"roots", "roots", "read", "read", "write"}[rng.Intn(5)]
		if id < 3 {
			kind = "roots"
		}
		// collateral rate below, at and above the storage price
		settings.Collateral = c12C([]uint64{0, 2, 5, 7}[rng.Intn(4)])
		cost, coll := rpcCost(kind)
		c := c07V2Honest(rng, cost, coll)
		p := "none"
		switch id {
		case 0:
			p = "max-valid" // witness: renter-chosen value near 2^128 (Currency.Add overflow in the unpatched code)
		case 1:
			p = "no-outputs" // witness: contract without outputs (index out of range in the unpatched code)
		case 2:
			p = "exact-cost"
		default:
			p = perts[rng.Intn(len(perts))]
		}
		R, Hm := c.ex.valid[0].val, c.ex.missed[1].val
		switch p {
		case "exact-cost", "cost-1":
			x := cost
			if p == "cost-1" {
				x = c12Dec(cost)
			}
			c.vs = []types.Currency{R.Sub(x), c12Add(c.ex.valid[1].val, x)}
			c.ms = []types.Currency{R.Sub(x), Hm, c12Add(c.ex.missed[2].val, x)}
		case "burn=collateral", "burn=collateral+1":
			b := coll
			if p == "burn=collateral+1" {
				b = c12Inc(coll)
			}
			if c.ex.missed[1].val.Cmp(b) >= 0 {
				x, _ := R.SubWithUnderflow(c.vs[0])
				c.ms = []types.Currency{c.vs[0], c.ex.missed[1].val.Sub(b), c12Add(c12Add(c.ex.missed[2].val, x), b)}
			}
		case "num-equal":
			c.num = c.ex.num
		case "num-lower":
			c.num = c.ex.num - 1
		case "num-max":
			c.num = math.MaxUint64
		case "locked":
			c.ex.num = math.MaxUint64
			c.num = math.MaxUint64
		case "valid-count":
			k := rng.Intn(5)
			c.vs = nil
			for i := 0; i < k; i++ {
				c.vs = append(c.vs, c12Grid(rng))
			}
		case "missed-count":
			k := rng.Intn(5)
			c.ms = nil
			for i := 0; i < k; i++ {
				c.ms = append(c.ms, c12Grid(rng))
			}
		case "grid-valid":
			c.vs[rng.Intn(len(c.vs))] = c12Grid(rng)
		case "grid-missed":
			c.ms[rng.Intn(len(c.ms))] = c12Grid(rng)
		case "max-valid":
			c.vs[0], c.vs[1] = c12Max, c12C(1)
		case "renter-up":
			c.vs = []types.Currency{c12Inc(R), c12Dec(c.ex.valid[1].val)}
		case "host-missed-down":
			if !c.ms[1].IsZero() {
				c.ms[1], c.ms[2] = c12Dec(c.ms[1]), c12Inc(c.ms[2])
			}
		case "missed-sum+1":
			c.ms[2] = c12Inc(c.ms[2])
		case "valid-sum+1":
			c.vs[1] = c12Inc(c.vs[1])
		case "renter-unequal":
			if !c.ms[0].IsZero() {
				c.ms[0], c.ms[2] = c12Dec(c.ms[0]), c12Inc(c.ms[2])
			}
		case "ex-shape":
			nv, nm := 1+rng.Intn(3), rng.Intn(5)
			c.ex.valid, c.ex.missed, c.vs, c.ms = nil, nil, nil, nil
			for i := 0; i < nv; i++ {
				c.ex.valid = append(c.ex.valid, c12Out{1 + i, c12C(uint64(rng.Intn(5000)))})
				c.vs = append(c.vs, c.ex.valid[i].val)
			}
			for i := 0; i < nm; i++ {
				c.ex.missed = append(c.ex.missed, c12Out{1 + i, c12C(uint64(rng.Intn(5000)))})
				c.ms = append(c.ms, c.ex.missed[i].val)
			}
		case "no-outputs":
			c.ex.valid, c.ex.missed, c.vs, c.ms = nil, nil, nil, nil
		}
		if kind == "roots" {
			c.ex.size = rhp2.SectorSize
		}
		c.desc = kind + " " + p
		em.Count("rpc:" + kind)
		em.Count("perturbation:" + p)
		em.BeginCase(id, c.desc)

		hostUK := c12HostKey.PublicKey().UnlockKey()
		exUC := c12UC(hostUK, c12RenterKey.PublicKey().UnlockKey())
		ids := newC12IDs(exUC.UnlockHash())
		existing := types.FileContractRevision{ParentID: types.FileContractID{1, 2, 3}, UnlockConditions: exUC}
		existing.FileContract = ids.build(c.ex)

		probe := &c07ReviseProbe{}
		sh := &SessionHandler{privateKey: c12HostKey, chain: &c12Chain{height: chainHeight, require: math.MaxUint64}, syncer: c12Syncer{},
			wallet: &c12Wallet{}, contracts: probe, settings: c12SettingsStub{settings}, log: zap.NewNop(), tg: threadgroup.New()}
		sess := &session{contract: contracts.SignedRevision{Revision: existing}}
		pmsg := c12Session(t, sh, sess, func(rt *rhp2.Transport) {
			var sig types.Signature
			func() {
				defer func() { recover() }() // the renter's own copy of Revise may panic on the unpatched code
				if rev, err := rhp.Revise(existing, c.num, c.vs, c.ms); err == nil {
					sig = c12RenterKey.SignHash(rhp.HashRevision(rev))
				}
			}()
			switch kind {
			case "roots":
				req := &rhp2.RPCSectorRootsRequest{RootOffset: 0, NumRoots: 1, RevisionNumber: c.num, ValidProofValues: c.vs, MissedProofValues: c.ms, Signature: sig}
				if rt.WriteRequest(rhp2.RPCSectorRootsID, req) != nil {
					return
				}
				var resp rhp2.RPCSectorRootsResponse
				rt.ReadResponse(&resp, 4096)
			case "read":
				req := &rhp2.RPCReadRequest{Sections: readSections, RevisionNumber: c.num, ValidProofValues: c.vs, MissedProofValues: c.ms, Signature: sig}
				if rt.WriteRequest(rhp2.RPCReadID, req) != nil {
					return
				}
				var resp rhp2.RPCReadResponse
				rt.ReadResponse(&resp, 4096)
			case "write":
				req := &rhp2.RPCWriteRequest{Actions: writeActions, RevisionNumber: c.num, ValidProofValues: c.vs, MissedProofValues: c.ms}
				if rt.WriteRequest(rhp2.RPCWriteID, req) != nil {
					return
				}
				var resp rhp2.RPCWriteMerkleProof
				rt.ReadResponse(&resp, 4096)
			}
		})
		inp := fmt.Sprintf("(HRevision %s %d %s %s %s %s)", ids.fcTerm(existing.FileContract, 1), c.num, c12CursTerm(c.vs), c12CursTerm(c.ms), cost.ExactString(), coll.ExactString())
		var out string
		switch {
		case pmsg != "":
			out = "Panic"
			em.Count("result:panic")
			em.Monitor("revision-rpc-handler-panics", "rhp2 "+kind+": "+pmsg)
		case probe.reviseCalled == 0:
			out = "(Err EInvalid)"
			em.Count("result:err")
		default:
			em.Count("result:ok")
			// accepted: the property's conjunction on what was counter-signed
			rev, err := rhp.Revise(existing, c.num, c.vs, c.ms)
			if err != nil {
				em.Monitor("accepted-unbuildable-revision", "")
				out = "(Err EInvalid)"
				break
			}
			toHost := c12SubSat(rev.ValidProofOutputs[1].Value, existing.ValidProofOutputs[1].Value)
			burn := c12SubSat(existing.MissedProofOutputs[1].Value, rev.MissedProofOutputs[1].Value)
			out = fmt.Sprintf("(Ok (OCur2 %s %s))", toHost.ExactString(), burn.ExactString())
			if rev.RevisionNumber <= existing.RevisionNumber {
				em.Monitor("accepted-revision-number-not-increased", "rhp2 "+kind)
			}
			if rev.ValidProofOutputs[0].Value.Cmp(existing.ValidProofOutputs[0].Value) > 0 || rev.MissedProofOutputs[0].Value.Cmp(existing.MissedProofOutputs[0].Value) > 0 {
				em.Monitor("accepted-renter-payout-increased", "rhp2 "+kind)
			}
			if toHost.Cmp(cost) < 0 {
				em.Monitor("accepted-host-valid-payout-below-price", "rhp2 "+kind)
			}
			if burn.Cmp(coll) > 0 {
				em.Monitor("accepted-host-missed-payout-burn-above-collateral", fmt.Sprintf("%s: burn %v collateral %v", kind, burn.ExactString(), coll.ExactString()))
			}
			sv, sm, so := types.ZeroCurrency, types.ZeroCurrency, types.ZeroCurrency
			for _, o := range rev.ValidProofOutputs {
				sv = c12Add(sv, o.Value)
			}
			for _, o := range rev.MissedProofOutputs {
				sm = c12Add(sm, o.Value)
			}
			for _, o := range existing.ValidProofOutputs {
				so = c12Add(so, o.Value)
			}
			if sv != so || sm != so {
				em.Monitor("accepted-valid-sum-changed", "rhp2 "+kind)
			}
		}
		em.FunCase(id, inp, out, out != "(Err EInvalid)" && out != "Panic")
	}
}
