//go:build verif

package rhp_test

// C13 at the RHP2 session level: real SessionHandler on a real host node, the repository's
// own test renter.  A session locks a contract, writes, renews-and-clears it, and then — in
// the same session, on the revision it still holds — tries to write to, read the roots of
// and renew the predecessor again; afterwards new sessions try to lock the predecessor and
// revise the successor.  Every RPC the host accepted is recorded as the manager calls it
// makes (coq/Roots/Model.v) and the C13 predicate is evaluated on Manager/Store.

import (
	"context"
	"fmt"
	"math/rand"
	"net"
	"path/filepath"
	"sort"
	"strings"
	"testing"

	crhp2 "go.sia.tech/core/rhp/v2"
	"go.sia.tech/core/types"
	"go.sia.tech/coreutils/wallet"
	"go.sia.tech/hostd/v2/host/contracts"
	"go.sia.tech/hostd/v2/internal/testutil"
	rpc2 "go.sia.tech/hostd/v2/internal/testutil/rhp/v2"
	rhp2 "go.sia.tech/hostd/v2/rhp/v2"
	"go.uber.org/zap"
)

const vr2CoqHeader = "From HostdBase Require Import Base.\nFrom HostdRoots Require Import Model Sess.\nOpen Scope N_scope."

type vr2World struct {
	t         *testing.T
	em        *verifEmitter
	rng       *rand.Rand
	node      *testutil.HostNode
	addr      string
	hostKey   types.PrivateKey
	renterKey types.PrivateKey
	settings  crhp2.HostSettings
	tr        *crhp2.Transport

	rootNum map[types.Hash256]uint64
	hashNum map[types.Hash256]uint64
	cidNum  map[types.FileContractID]uint64
	ref     map[types.FileContractID][]types.Hash256
	supers  map[types.FileContractID]bool
	stale   map[types.FileContractID][]types.Hash256 // what the manager serves for a renewed contract (nothing, unless it was revised again)
	held    types.FileContractID // contract the current session holds
	slot    int
	accepted int
	nonce    uint64
}

// step records a manager call of the session (coq/Roots/Sess.v: the calls are those of session 1;
// RPCLock / RPCUnlock are its Lock1 / Unlock1)
func (w *vr2World) step(op, obs string) {
	w.em.Step("SOp 1 ("+op+")", "SO ("+obs+")")
}

func (w *vr2World) rN(r types.Hash256) uint64 {
	if n, ok := w.rootNum[r]; ok {
		return n
	}
	n := uint64(len(w.rootNum) + 1)
	w.rootNum[r] = n
	return n
}
func (w *vr2World) hN(h types.Hash256) uint64 {
	if n, ok := w.hashNum[h]; ok {
		return n
	}
	n := uint64(len(w.hashNum))
	w.hashNum[h] = n
	return n
}
func (w *vr2World) cN(id types.FileContractID) uint64 {
	if n, ok := w.cidNum[id]; ok {
		return n
	}
	n := uint64(len(w.cidNum) + 1)
	w.cidNum[id] = n
	return n
}
func (w *vr2World) coqRoots(l []types.Hash256) string {
	items := make([]string, len(l))
	for i, r := range l {
		items[i] = fmt.Sprint(w.rN(r))
	}
	return "[" + strings.Join(items, "; ") + "]"
}
func (w *vr2World) coqOpt(id types.FileContractID) string {
	if id == (types.FileContractID{}) {
		return "None"
	}
	return fmt.Sprintf("(Some %d)", w.cN(id))
}

func vr2Eq(a, b []types.Hash256) bool {
	if len(a) != len(b) {
		return false
	}
	for i := range a {
		if a[i] != b[i] {
			return false
		}
	}
	return true
}

func (w *vr2World) dial() {
	if w.tr != nil {
		w.tr.ForceClose()
	}
	w.tr = dialHost(w.t, w.hostKey.PublicKey(), w.addr)
}

// sessionDied: the host ends a session on the first failing RPC and releases its lock.
func (w *vr2World) sessionDied() {
	if w.held != (types.FileContractID{}) {
		w.step(fmt.Sprintf("Unlock1 %d", w.cN(w.held)), "ORes (Ok tt)")
		w.held = types.FileContractID{}
	}
	w.dial()
}

type vr2Entry struct {
	found      bool
	db, cache  []types.Hash256
	rev, fsize uint64
	mroot      types.Hash256
	to, from   types.FileContractID
}

func (w *vr2World) look(id types.FileContractID) vr2Entry {
	all, err := w.node.Store.SectorRoots()
	if err != nil {
		w.t.Fatal(err)
	}
	e := vr2Entry{db: all[id], cache: w.node.Contracts.SectorRoots(id)}
	if c, err := w.node.Contracts.Contract(id); err == nil {
		e.found, e.rev, e.fsize, e.mroot, e.to, e.from = true, c.Revision.RevisionNumber, c.Revision.Filesize, c.Revision.FileMerkleRoot, c.RenewedTo, c.RenewedFrom
	}
	w.step(fmt.Sprintf("Look1 %d", w.cN(id)), fmt.Sprintf("OLook %s %s %s %d %d %d %s %s", coqBool(e.found), w.coqRoots(e.db),
		w.coqRoots(e.cache), e.rev, e.fsize, w.hN(e.mroot), w.coqOpt(e.to), w.coqOpt(e.from)))
	if e.found && !w.supers[id] {
		n := w.cN(id)
		if !vr2Eq(e.db, e.cache) {
			w.em.Monitor("persisted-list-differs-from-served-list", fmt.Sprintf("contract %d: store %s, manager %s", n, w.coqRoots(e.db), w.coqRoots(e.cache)))
		}
		if want, ok := w.ref[id]; ok && !vr2Eq(e.db, want) {
			w.em.Monitor("persisted-list-differs-from-accepted-modifications", fmt.Sprintf("contract %d: store %s, accepted %s", n, w.coqRoots(e.db), w.coqRoots(want)))
		}
		if e.fsize != uint64(len(e.db))*crhp2.SectorSize || e.mroot != crhp2.MetaRoot(e.db) {
			w.em.Monitor("revision-differs-from-list", fmt.Sprintf("contract %d: size %d, %d roots", n, e.fsize, len(e.db)))
		}
	}
	if e.found && w.supers[id] {
		if e.rev != types.MaxRevisionNumber || e.fsize != 0 || len(e.db) != 0 {
			w.em.Monitor("rhp2-renewed-predecessor-was-revised", fmt.Sprintf("contract %d renewed to %s: revision %d, size %d, %d persisted roots",
				w.cN(id), w.coqOpt(e.to), e.rev, e.fsize, len(e.db)))
		}
	}
	return e
}

func (w *vr2World) setHeight() {
	w.step(fmt.Sprintf("SetHeight %d", w.node.Chain.Tip().Height), "ORes (Ok tt)")
}

func (w *vr2World) form(duration uint64) crhp2.ContractRevision {
	node := w.node
	fc := crhp2.PrepareContractFormation(w.renterKey.PublicKey(), w.hostKey.PublicKey(), types.Siacoins(10), types.Siacoins(20), node.Chain.Tip().Height+duration, w.settings, node.Wallet.Address())
	cost := crhp2.ContractFormationCost(node.Chain.TipState(), fc, w.settings.ContractPrice)
	txn := types.Transaction{FileContracts: []types.FileContract{fc}}
	toSign, err := node.Wallet.FundTransaction(&txn, cost, true)
	if err != nil {
		w.t.Fatal(err)
	}
	node.Wallet.SignTransaction(&txn, toSign, wallet.ExplicitCoveredFields(txn))
	set := append(node.Chain.UnconfirmedParents(txn), txn)
	rev, _, err := rpc2.RPCFormContract(w.tr, w.renterKey, set)
	if err != nil {
		w.t.Fatal(err)
	}
	w.step(fmt.Sprintf("Form1 %d %d %d %d %d", w.cN(rev.ID()), rev.Revision.RevisionNumber, rev.Revision.Filesize,
		w.hN(rev.Revision.FileMerkleRoot), rev.Revision.WindowStart), "ORes (Ok tt)")
	w.em.Count("rpc:form")
	w.ref[rev.ID()] = nil
	return rev
}

func (w *vr2World) lock(id types.FileContractID) (crhp2.ContractRevision, bool) {
	w.setHeight()
	rev, err := rpc2.RPCLock(w.tr, w.renterKey, id)
	cls := "Ok tt"
	if err != nil {
		cls = "Err EInvalid"
		if strings.Contains(err.Error(), "not found") {
			cls = "Err ENotFound"
		}
	}
	w.step(fmt.Sprintf("Lock1 %d", w.cN(id)), "ORes ("+cls+")")
	w.em.Count("rpc:lock:" + cls)
	if err != nil {
		w.sessionDied()
		return rev, false
	}
	w.held = id
	if w.supers[id] {
		w.em.Monitor("renewed-predecessor-accepts-lock", fmt.Sprintf("RPCLock succeeded on renewed contract %d", w.cN(id)))
	}
	return rev, true
}

func (w *vr2World) unlock() {
	if err := rpc2.RPCUnlock(w.tr); err != nil {
		w.t.Fatal(err)
	}
	// the unlock RPC has no response: make sure the host processed it
	if _, err := rpc2.RPCSettings(w.tr); err != nil {
		w.t.Fatal(err)
	}
	w.step(fmt.Sprintf("Unlock1 %d", w.cN(w.held)), "ORes (Ok tt)")
	w.held = types.FileContractID{}
}

type vr2Act struct {
	kind string
	a, b uint64
	root types.Hash256
	data []byte
}

// write sends one RPCWrite with the actions; when the host accepts it the manager calls it
// made are recorded.  rev is the renter's view and is advanced on success.
func (w *vr2World) write(rev *crhp2.ContractRevision, acts []vr2Act, expectRefusal bool) bool {
	id := rev.ID()
	var wire []crhp2.RPCWriteAction
	for _, a := range acts {
		switch a.kind {
		case "append":
			wire = append(wire, crhp2.RPCWriteAction{Type: crhp2.RPCWriteActionAppend, Data: a.data})
		case "swap":
			wire = append(wire, crhp2.RPCWriteAction{Type: crhp2.RPCWriteActionSwap, A: a.a, B: a.b})
		case "trim":
			wire = append(wire, crhp2.RPCWriteAction{Type: crhp2.RPCWriteActionTrim, A: a.a})
		}
	}
	err := rpc2.RPCWrite(w.tr, w.renterKey, rev, wire, types.Siacoins(1).Div64(5), types.ZeroCurrency)
	w.em.Count(fmt.Sprintf("rpc:write:ok=%v:on-renewed=%v", err == nil, w.supers[id]))
	if err != nil {
		if !expectRefusal {
			w.em.Monitor("live-contract-refuses-revision", fmt.Sprintf("contract %d: %v", w.cN(id), err))
		}
		w.sessionDied()
		w.look(id)
		return false
	}
	w.accepted++
	if w.supers[id] {
		w.em.Monitor("rhp2-session-revises-renewed-predecessor", fmt.Sprintf("RPCWrite accepted on contract %d after it was renewed in the same session", w.cN(id)))
	}
	// the manager calls behind an accepted write
	u := w.slot
	w.slot++
	list := append([]types.Hash256(nil), w.node.Contracts.SectorRoots(id)...)
	// the served list before the write is what the updater started from: recompute it
	start := w.ref[id]
	if w.supers[id] {
		start = w.staleOf(id)
	}
	cur := append([]types.Hash256(nil), start...)
	for _, a := range acts {
		if a.kind == "append" {
			w.step(fmt.Sprintf("StoreSec %d", w.rN(a.root)), "ORes (Ok tt)")
		}
	}
	w.step(fmt.Sprintf("Open1 %d %d", u, w.cN(id)), "ORes (Ok tt)")
	for _, a := range acts {
		switch a.kind {
		case "append":
			cur = append(cur, a.root)
			w.step(fmt.Sprintf("Act %d (Append %d)", u, w.rN(a.root)), fmt.Sprintf("OAct (Ok tt) %s", w.coqRoots(cur)))
		case "swap":
			cur[a.a], cur[a.b] = cur[a.b], cur[a.a]
			w.step(fmt.Sprintf("Act %d (Swap %d %d)", u, a.a, a.b), fmt.Sprintf("OAct (Ok tt) %s", w.coqRoots(cur)))
		case "trim":
			cur = cur[:uint64(len(cur))-a.a]
			w.step(fmt.Sprintf("Act %d (Trim %d)", u, a.a), fmt.Sprintf("OAct (Ok tt) %s", w.coqRoots(cur)))
		}
	}
	w.step(fmt.Sprintf("Commit1 %d %d %d %d None", u, rev.Revision.RevisionNumber, rev.Revision.Filesize, w.hN(rev.Revision.FileMerkleRoot)), "ORes (Ok tt)")
	w.step(fmt.Sprintf("Close1 %d", u), "ORes (Ok tt)")
	if !w.supers[id] {
		w.ref[id] = cur
	} else {
		w.stale[id] = cur
	}
	_ = list
	w.look(id)
	return true
}

// sectorRoots sends RPCSectorRoots, which revises the contract (payment) without touching
// its list: the host opens an updater and commits it with no actions.
func (w *vr2World) sectorRoots(rev *crhp2.ContractRevision, expectRefusal bool) bool {
	id := rev.ID()
	served := w.node.Contracts.SectorRoots(id)
	_, err := rpc2.RPCSectorRoots(w.tr, w.renterKey, 0, uint64(len(served)), rev, types.Siacoins(1).Div64(5))
	w.em.Count(fmt.Sprintf("rpc:sector-roots:ok=%v:on-renewed=%v", err == nil, w.supers[id]))
	if err != nil {
		if !expectRefusal {
			w.em.Monitor("live-contract-refuses-revision", fmt.Sprintf("contract %d: %v", w.cN(id), err))
		}
		w.sessionDied()
		w.look(id)
		return false
	}
	w.accepted++
	if w.supers[id] {
		w.em.Monitor("rhp2-session-revises-renewed-predecessor", fmt.Sprintf("RPCSectorRoots accepted on contract %d after it was renewed in the same session", w.cN(id)))
	}
	u := w.slot
	w.slot++
	w.step(fmt.Sprintf("Open1 %d %d", u, w.cN(id)), "ORes (Ok tt)")
	w.step(fmt.Sprintf("Commit1 %d %d %d %d None", u, rev.Revision.RevisionNumber, rev.Revision.Filesize, w.hN(rev.Revision.FileMerkleRoot)), "ORes (Ok tt)")
	w.step(fmt.Sprintf("Close1 %d", u), "ORes (Ok tt)")
	w.look(id)
	return true
}

// stale lists the manager still serves for renewed contracts (model: the cache entry stays)
func (w *vr2World) staleOf(id types.FileContractID) []types.Hash256 { return w.stale[id] }

func (w *vr2World) genActs(n int) []vr2Act {
	var acts []vr2Act
	for k := 1 + w.rng.Intn(2); k > 0; k-- {
		switch r := w.rng.Intn(10); {
		case r < 6 || n == 0:
			var sector [crhp2.SectorSize]byte
			w.rng.Read(sector[:64])
			acts = append(acts, vr2Act{kind: "append", data: sector[:], root: crhp2.SectorRoot(&sector)})
			n++
		case r < 8 && n > 0:
			acts = append(acts, vr2Act{kind: "swap", a: uint64(w.rng.Intn(n)), b: uint64(w.rng.Intn(n))})
		case n > 0:
			t := uint64(1)
			if w.rng.Intn(4) == 0 {
				t = uint64(n)
			}
			acts = append(acts, vr2Act{kind: "trim", a: t})
			n -= int(t)
		}
	}
	return acts
}

func vr2Copy(rev crhp2.ContractRevision) crhp2.ContractRevision {
	c := rev
	c.Revision.ValidProofOutputs = append([]types.SiacoinOutput(nil), rev.Revision.ValidProofOutputs...)
	c.Revision.MissedProofOutputs = append([]types.SiacoinOutput(nil), rev.Revision.MissedProofOutputs...)
	c.Signatures[0].Signature = append([]byte(nil), rev.Signatures[0].Signature...)
	c.Signatures[1].Signature = append([]byte(nil), rev.Signatures[1].Signature...)
	return c
}

// renew runs RPCRenewAndClearContract on the locked contract.
func (w *vr2World) renew(rev crhp2.ContractRevision, expectRefusal bool) (crhp2.ContractRevision, bool) {
	node := w.node
	old := rev.ID()
	before := w.look(old)
	work := vr2Copy(rev)
	current := work.Revision
	windowEnd := current.WindowEnd + 5 + uint64(w.rng.Intn(5))
	collateral := crhp2.ContractRenewalCollateral(current.FileContract, 1<<22, w.settings, node.Chain.Tip().Height, windowEnd)
	renewed, basePrice := crhp2.PrepareContractRenewal(current, node.Wallet.Address(), types.Siacoins(10), collateral, w.settings, windowEnd)
	txn := types.Transaction{FileContracts: []types.FileContract{renewed}}
	cost := crhp2.ContractRenewalCost(node.Chain.TipState(), renewed, w.settings.ContractPrice, types.ZeroCurrency, basePrice)
	toSign, err := node.Wallet.FundTransaction(&txn, cost, true)
	if err != nil {
		w.t.Fatal(err)
	}
	node.Wallet.SignTransaction(&txn, toSign, wallet.ExplicitCoveredFields(txn))
	set := append(node.Chain.UnconfirmedParents(txn), txn)
	served := w.node.Contracts.SectorRoots(old)
	renewal, _, err := rpc2.RPCRenewContract(w.tr, w.renterKey, &work, set, w.settings.BaseRPCPrice)
	w.em.Count(fmt.Sprintf("rpc:renew:ok=%v:on-renewed=%v", err == nil, w.supers[old]))
	if err != nil {
		node.Wallet.ReleaseInputs([]types.Transaction{txn}, nil)
		if !expectRefusal {
			w.em.Monitor("live-contract-refuses-renewal", fmt.Sprintf("contract %d: %v", w.cN(old), err))
		}
		w.sessionDied()
		w.look(old)
		return renewal, false
	}
	w.accepted++
	newID := renewal.ID()
	if w.supers[old] {
		w.em.Monitor("rhp2-session-renews-renewed-predecessor", fmt.Sprintf("contract %d renewed a second time in the session that renewed it", w.cN(old)))
	}
	// the tail of the handler: the pool accepted the renewal set, then Manager.RenewContract
	w.em.Step(fmt.Sprintf("SRenewH 1 true (Renew1 %d %d %d 0 0 %d %d %d %d %d None)", w.cN(old), w.cN(newID), uint64(types.MaxRevisionNumber),
		renewal.Revision.RevisionNumber, renewal.Revision.Filesize, w.hN(renewal.Revision.FileMerkleRoot), renewal.Revision.WindowStart,
		w.hN(crhp2.MetaRoot(served))), "SO (ORes (Ok tt))")
	if !w.supers[old] {
		w.ref[newID] = append([]types.Hash256(nil), w.ref[old]...)
		w.supers[old] = true
	} else {
		w.ref[newID] = append([]types.Hash256(nil), w.stale[old]...)
	}
	w.stale[old] = nil // RenewContract drops the cleared contract's entry from the manager's cache
	o := w.look(old)
	n := w.look(newID)
	if !vr2Eq(n.db, before.db) || !vr2Eq(n.cache, before.db) || n.fsize != before.fsize || n.mroot != before.mroot {
		w.em.Monitor("successor-differs-from-predecessor", fmt.Sprintf("predecessor %d had %s (size %d); successor %d: store %s, manager %s (size %d)",
			w.cN(old), w.coqRoots(before.db), before.fsize, w.cN(newID), w.coqRoots(n.db), w.coqRoots(n.cache), n.fsize))
	}
	if o.to != newID || n.from != old {
		w.em.Monitor("renewal-links-not-mutual", fmt.Sprintf("predecessor %d -> %s; successor %d <- %s", w.cN(old), w.coqOpt(o.to), w.cN(newID), w.coqOpt(n.from)))
	}
	for _, r := range n.db {
		if _, err := w.node.Store.SectorLocation(r); err != nil {
			w.em.Monitor("handed-over-sector-not-stored", fmt.Sprintf("root %d: %v", w.rN(r), err))
		}
	}
	return renewal, true
}

// ---------------------------------------------------------------- renewals the transaction pool rejects

const (
	vr2BadInputSig = iota // one corrupted renter signature on a funding input
	vr2DoubleSpend        // the renter's funding inputs are already spent by a transaction in the host's pool
	vr2MissingParent      // the renter's funding input spends the output of a transaction the host never sees
	vr2PoolVariants
)

var vr2PoolVariantName = [...]string{"bad-input-signature", "double-spent-input", "missing-parent"}

func (w *vr2World) contractCount() int {
	_, n, err := w.node.Store.Contracts(contracts.ContractFilter{})
	if err != nil {
		w.t.Fatal(err)
	}
	return n
}

// renewRejected sends an RPCRenewAndClearContract on the locked contract in which every protocol
// level field is fine (clearing revision, renewal contract, revision signatures) but whose
// transaction set the host's pool validation rejects.  The renewal failed validation: the
// predecessor must be exactly as it was, no successor may exist, and (the host ends the session)
// the contract can be locked and revised again.  Returns the revision of a new lock, false if the
// contract could not be locked again.
func (w *vr2World) renewRejected(rev crhp2.ContractRevision, variant int) (crhp2.ContractRevision, bool) {
	node := w.node
	old := rev.ID()
	before := w.look(old)
	nBefore := w.contractCount()
	work := vr2Copy(rev)
	current := work.Revision
	windowEnd := current.WindowEnd + 5 + uint64(w.rng.Intn(5))
	collateral := crhp2.ContractRenewalCollateral(current.FileContract, 1<<22, w.settings, node.Chain.Tip().Height, windowEnd)
	// (the renter payout differs from the one of the valid renewals of this harness: coreutils' chain
	// manager remembers a rejected set by its transaction ids, which do not cover the signatures, so
	// an otherwise identical valid renewal would be answered with the remembered error)
	w.nonce++
	renewed, basePrice := crhp2.PrepareContractRenewal(current, node.Wallet.Address(), types.Siacoins(10).Add(types.NewCurrency64(w.nonce)), collateral, w.settings, windowEnd)
	txn := types.Transaction{FileContracts: []types.FileContract{renewed}}
	cost := crhp2.ContractRenewalCost(node.Chain.TipState(), renewed, w.settings.ContractPrice, types.ZeroCurrency, basePrice)
	var set []types.Transaction
	var release []types.Transaction
	switch variant {
	case vr2BadInputSig:
		toSign, err := node.Wallet.FundTransaction(&txn, cost, true)
		if err != nil {
			w.t.Fatal(err)
		}
		node.Wallet.SignTransaction(&txn, toSign, wallet.ExplicitCoveredFields(txn))
		k := w.rng.Intn(len(txn.Signatures))
		sig := append([]byte(nil), txn.Signatures[k].Signature...)
		sig[w.rng.Intn(len(sig))] ^= 0x20
		txn.Signatures[k].Signature = sig
		set = append(node.Chain.UnconfirmedParents(txn), txn)
		release = []types.Transaction{txn}
	case vr2DoubleSpend:
		toSign, err := node.Wallet.FundTransaction(&txn, cost, false)
		if err != nil {
			w.t.Fatal(err)
		}
		total := cost
		for _, o := range txn.SiacoinOutputs {
			total = total.Add(o.Value)
		}
		// the same inputs, spent by a transaction that is already in the host's pool
		conflict := types.Transaction{SiacoinInputs: append([]types.SiacoinInput(nil), txn.SiacoinInputs...),
			SiacoinOutputs: []types.SiacoinOutput{{Address: node.Wallet.Address(), Value: total}}}
		node.Wallet.SignTransaction(&conflict, toSign, types.CoveredFields{WholeTransaction: true})
		if _, err := node.Chain.AddPoolTransactions([]types.Transaction{conflict}); err != nil {
			w.t.Fatal("setup: the conflicting spend was refused: ", err)
		}
		node.Wallet.SignTransaction(&txn, toSign, wallet.ExplicitCoveredFields(txn))
		set = []types.Transaction{txn}
	case vr2MissingParent:
		parent := types.Transaction{SiacoinOutputs: []types.SiacoinOutput{{Address: node.Wallet.Address(), Value: cost}}}
		toSign, err := node.Wallet.FundTransaction(&parent, cost, false)
		if err != nil {
			w.t.Fatal(err)
		}
		node.Wallet.SignTransaction(&parent, toSign, types.CoveredFields{WholeTransaction: true})
		pid := parent.SiacoinOutputID(0)
		txn.SiacoinInputs = []types.SiacoinInput{{ParentID: pid, UnlockConditions: types.StandardUnlockConditions(w.hostKey.PublicKey())}}
		node.Wallet.SignTransaction(&txn, []types.Hash256{types.Hash256(pid)}, wallet.ExplicitCoveredFields(txn))
		set = []types.Transaction{txn} // the parent is neither sent nor in the pool
		release = []types.Transaction{parent}
	}
	served := w.node.Contracts.SectorRoots(old)
	renewal, _, err := rpc2.RPCRenewContract(w.tr, w.renterKey, &work, set, w.settings.BaseRPCPrice)
	w.em.Count(fmt.Sprintf("rpc:renew:pool-rejected:%s:refused=%v", vr2PoolVariantName[variant], err != nil))
	if len(release) > 0 {
		node.Wallet.ReleaseInputs(release, nil)
	}
	if err == nil {
		w.em.Monitor("malformed-or-failed-renewal-accepted", fmt.Sprintf("renew-and-clear of contract %d with a transaction set the pool cannot accept (%s) was accepted", w.cN(old), vr2PoolVariantName[variant]))
		w.t.Fatalf("case cannot go on: renewal with %s accepted", vr2PoolVariantName[variant])
	}
	if !strings.Contains(err.Error(), "broadcast renewal transaction") {
		// refused earlier than the pool validation: still a failed renewal, but not the case this is after
		w.em.Count("rpc:renew:pool-rejected:refused-elsewhere")
	}
	// the tail of the handler as the model has it: the pool refuses, RenewContract is never called
	var fresh types.FileContractID
	w.rng.Read(fresh[:])
	w.em.Step(fmt.Sprintf("SRenewH 1 false (Renew1 %d %d %d 0 0 1 %d %d %d %d None)", w.cN(old), w.cN(fresh), uint64(types.MaxRevisionNumber),
		renewed.Filesize, w.hN(renewed.FileMerkleRoot), renewed.WindowStart, w.hN(crhp2.MetaRoot(served))), "SO (ORes (Err EInvalid))")
	_ = renewal
	w.sessionDied()
	after := w.look(old)
	if after.found != before.found || !vr2Eq(after.db, before.db) || !vr2Eq(after.cache, before.cache) || after.rev != before.rev ||
		after.fsize != before.fsize || after.mroot != before.mroot || after.to != before.to || after.from != before.from {
		w.em.Monitor("failed-renewal-changes-state", fmt.Sprintf("renew-and-clear of contract %d refused (%s: %v) yet the contract changed: before {store %s, manager %s, revision %d, size %d, renewed to %s} after {store %s, manager %s, revision %d, size %d, renewed to %s}",
			w.cN(old), vr2PoolVariantName[variant], err, w.coqRoots(before.db), w.coqRoots(before.cache), before.rev, before.fsize, w.coqOpt(before.to),
			w.coqRoots(after.db), w.coqRoots(after.cache), after.rev, after.fsize, w.coqOpt(after.to)))
	}
	if n := w.contractCount(); n != nBefore {
		w.em.Monitor("failed-renewal-changes-state", fmt.Sprintf("renew-and-clear of contract %d refused (%s) yet the host now stores %d contracts instead of %d", w.cN(old), vr2PoolVariantName[variant], n, nBefore))
	}
	// fully usable: lockable, revisable
	again, ok := w.lock(old)
	if !ok {
		w.em.Monitor("live-contract-refuses-lock", fmt.Sprintf("contract %d after a renewal the pool rejected (%s)", w.cN(old), vr2PoolVariantName[variant]))
		return again, false
	}
	if w.rng.Intn(2) == 0 {
		if !w.write(&again, w.genActs(len(w.ref[old])), false) {
			return again, false
		}
	}
	return again, true
}

func TestVerifC13RHP2(t *testing.T) {
	em := newVerifEmitter(t, vr2CoqHeader, "scase", "scheck")
	defer em.Close()
	n := verifN(12)
	for id := 0; id < n+2; id++ {
		if em.Skip(id) {
			continue
		}
		rng := verifCaseRand(id)
		log := zap.NewNop()
		w := &vr2World{t: t, em: em, rng: rng, rootNum: map[types.Hash256]uint64{}, hashNum: map[types.Hash256]uint64{{}: 0},
			cidNum: map[types.FileContractID]uint64{}, ref: map[types.FileContractID][]types.Hash256{},
			supers: map[types.FileContractID]bool{}, stale: map[types.FileContractID][]types.Hash256{}}
		w.renterKey, w.hostKey = types.GeneratePrivateKey(), types.GeneratePrivateKey()
		network, genesis := testutil.V1Network()
		node := testutil.NewHostNode(t, w.hostKey, network, genesis, log)
		w.node = node
		s := node.Settings.Settings()
		s.AcceptingContracts = true
		s.NetAddress = "localhost:9983"
		if err := node.Settings.UpdateSettings(s); err != nil {
			t.Fatal(err)
		}
		res := make(chan error)
		if _, err := node.Volumes.AddVolume(context.Background(), filepath.Join(t.TempDir(), "storage.dat"), 32, res); err != nil {
			t.Fatal(err)
		} else if err := <-res; err != nil {
			t.Fatal(err)
		}
		testutil.MineAndSync(t, node, node.Wallet.Address(), int(network.MaturityDelay+5))
		l, err := net.Listen("tcp", "localhost:0")
		if err != nil {
			t.Fatal(err)
		}
		sh := rhp2.NewSessionHandler(l, w.hostKey, node.Chain, node.Syncer, node.Wallet, node.Contracts, node.Settings, node.Volumes, log)
		go sh.Serve()
		w.addr = l.Addr().String()
		w.dial()
		if w.settings, err = rpc2.RPCSettings(w.tr); err != nil {
			t.Fatal(err)
		}

		em.BeginCase(id, "rhp2 session: write, renew-and-clear, then revise / renew the predecessor in the same session")
		gens := 1 + rng.Intn(3)
		if id == 0 || id == 1 {
			gens = 2
		}
		tip := w.form(150 + uint64(rng.Intn(10)))
		testutil.MineAndSync(t, node, node.Wallet.Address(), 3)
		for g := 0; g < gens; g++ {
			rev, ok := w.lock(tip.ID())
			if !ok {
				em.Monitor("live-contract-refuses-lock", fmt.Sprintf("contract %d", w.cN(tip.ID())))
				break
			}
			for k := rng.Intn(3); k > 0 || (id <= 1 && g == 0 && len(w.ref[rev.ID()]) == 0); k-- {
				if !w.write(&rev, w.genActs(len(w.ref[rev.ID()])), false) {
					break
				}
			}
			if w.held == (types.FileContractID{}) {
				break
			}
			// (an empty range of roots is refused, so only contracts that hold sectors are asked)
			if rng.Intn(3) == 0 && len(w.node.Contracts.SectorRoots(rev.ID())) > 0 {
				if !w.sectorRoots(&rev, false) {
					break
				}
			}
			// renewals whose transaction set the pool rejects: case 1 sends every kind, the generated
			// cases one now and then; the valid renewal that follows must still work
			var variants []int
			if id == 1 && g == 0 {
				variants = []int{vr2BadInputSig, vr2DoubleSpend, vr2MissingParent}
			} else if id == 1 || (id > 1 && rng.Intn(2) == 0) {
				variants = []int{rng.Intn(vr2PoolVariants)}
			}
			usable := true
			for _, v := range variants {
				if rev, usable = w.renewRejected(rev, v); !usable {
					break
				}
			}
			if !usable {
				break
			}
			stale := vr2Copy(rev) // what the renter (and the host session) held before the renewal
			renewal, ok := w.renew(rev, false)
			if !ok {
				break
			}
			em.Count(fmt.Sprintf("generation:%d:sectors=%d", g, len(w.ref[renewal.ID()])))
			// same session, the predecessor is still locked: it must refuse
			probe := rng.Intn(4)
			if id == 0 {
				probe = g // case 0: write after the first renewal, renew again after the second
			}
			switch probe {
			case 0:
				w.write(&stale, w.genActs(len(w.stale[stale.ID()])), true)
			case 1:
				w.renew(stale, true)
			case 2:
				if len(w.stale[stale.ID()]) > 0 {
					w.write(&stale, []vr2Act{{kind: "swap"}}, true) // swap 0 0: nothing but a new revision
				} else {
					w.write(&stale, w.genActs(0), true)
				}
			default:
				w.sectorRoots(&stale, true)
			}
			if w.held != (types.FileContractID{}) {
				w.unlock()
			}
			// a new lock on the predecessor must fail
			if _, ok := w.lock(stale.ID()); ok {
				w.unlock()
			}
			tip = renewal
			if g%2 == 1 {
				testutil.MineAndSync(t, node, node.Wallet.Address(), 1)
			}
		}
		// the tip of the chain accepts a revision
		if rev, ok := w.lock(tip.ID()); ok {
			w.write(&rev, w.genActs(len(w.ref[rev.ID()])), false)
			if w.held != (types.FileContractID{}) {
				w.unlock()
			}
		} else if !w.supers[tip.ID()] {
			em.Monitor("live-contract-refuses-lock", fmt.Sprintf("contract %d", w.cN(tip.ID())))
		}
		ids := make([]types.FileContractID, 0, len(w.ref))
		for cid := range w.ref {
			ids = append(ids, cid)
		}
		sort.Slice(ids, func(i, j int) bool { return w.cN(ids[i]) < w.cN(ids[j]) })
		for _, cid := range ids {
			w.look(cid)
		}
		em.EndCase(w.accepted > 0)
		w.tr.ForceClose()
		sh.Close()
		l.Close()
	}
}
