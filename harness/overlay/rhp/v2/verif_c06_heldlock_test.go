//go:build verif

package rhp_test

// WP-G (C06 consequence clause / C03): an RHP2 session locks a contract once and may keep the lock for as
// long as the renter keeps sending RPCs.  Real SessionHandler on a real host node built like
// testutil.NewHostNode but with the PRODUCTION revision submission buffer (144, the model's rev_buffer); the
// repository's test renter.  Per case one contract: the session locks it right after the formation, revises
// it through the held lock at the last confirmable height L = WindowStart - 144 and the block before, and
// then — still the same lock — sends one more RPC (write, a write whose two phases straddle a block, read,
// sector roots, renew-and-clear) at L+1, L+2, WindowStart-2, WindowStart-1 or WindowStart.  Afterwards the
// chain is mined through the proof window and the contract's fate is observed.
//
// Every RPC is recorded as the manager calls it makes (coq/Roots/Sess.v, session 1) with what the host
// answered; the tip height is recorded before each RPC (SetHeight).  Monitors, independent of the model:
//   revision-accepted-after-last-confirmable-height  a size/root-changing revision (write, renew-and-clear)
//                                                     was persisted although tip + buffer > WindowStart
//   payment-accepted-after-last-confirmable-height   the same for a payment-only revision (read, sector roots)
//   revisable-contract-refused                       an RPC at a height with tip + buffer <= WindowStart was
//                                                     refused with the guard's error
//   contract-with-held-data-failed                   the contract ended failed although the host holds every
//                                                     sector of its stored list (C06's consequence clause)
//   late-rpc-changes-state                           a refused late RPC changed the stored contract

import (
	"bytes"
	"context"
	"errors"
	"fmt"
	"net"
	"path/filepath"
	"strings"
	"testing"
	"time"

	crhp2 "go.sia.tech/core/rhp/v2"
	"go.sia.tech/core/types"
	"go.sia.tech/coreutils/wallet"
	"go.sia.tech/hostd/v2/host/contracts"
	"go.sia.tech/hostd/v2/host/settings"
	"go.sia.tech/hostd/v2/host/storage"
	"go.sia.tech/hostd/v2/index"
	"go.sia.tech/hostd/v2/internal/testutil"
	rpc2 "go.sia.tech/hostd/v2/internal/testutil/rhp/v2"
	rhp2 "go.sia.tech/hostd/v2/rhp/v2"
	"go.uber.org/zap"
)

const vgBuffer = 144 // contracts.Manager's default revisionSubmissionBuffer

// vgNewHostNode: testutil.NewHostNode with the contract manager's production submission buffer (the test
// helper lowers it to 5) — the rest (reject buffer 10, window size 10, index batch size 1) as there.
func vgNewHostNode(t *testing.T, pk types.PrivateKey, log *zap.Logger) *testutil.HostNode {
	network, genesis := testutil.V1Network()
	network.HardforkV2.AllowHeight = 5000 // the v1 contracts of this harness live for ~170 blocks
	network.HardforkV2.RequireHeight = 6000
	cn := testutil.NewConsensusNode(t, network, genesis, log)
	wm, err := wallet.NewSingleAddressWallet(pk, cn.Chain, cn.Store)
	if err != nil {
		t.Fatal(err)
	}
	t.Cleanup(func() { wm.Close() })
	vm, err := storage.NewVolumeManager(cn.Store, storage.WithLogger(log), storage.WithPruneInterval(time.Hour))
	if err != nil {
		t.Fatal(err)
	}
	t.Cleanup(func() { vm.Close() })
	cm, err := contracts.NewManager(cn.Store, vm, cn.Chain, cn.Syncer, wm, contracts.WithRejectAfter(10), contracts.WithLog(log))
	if err != nil {
		t.Fatal(err)
	}
	t.Cleanup(func() { cm.Close() })
	initial := settings.DefaultSettings
	initial.AcceptingContracts = true
	initial.NetAddress = "127.0.0.1"
	initial.WindowSize = 10
	sm, err := settings.NewConfigManager(pk, cn.Store, cn.Chain, cn.Syncer, vm, wm, settings.WithAnnounceInterval(10000), settings.WithValidateNetAddress(false), settings.WithInitialSettings(initial))
	if err != nil {
		t.Fatal(err)
	}
	t.Cleanup(func() { sm.Close() })
	idx, err := index.NewManager(cn.Store, cn.Chain, cm, wm, sm, vm, index.WithLog(log), index.WithBatchSize(1))
	if err != nil {
		t.Fatal(err)
	}
	t.Cleanup(func() { idx.Close() })
	return &testutil.HostNode{ConsensusNode: *cn, Settings: sm, Wallet: wm, Contracts: cm, Volumes: vm, Indexer: idx}
}

type vgWorld struct {
	*vr2World
	ws, we uint64 // proof window of the contract under test
	late   int    // RPCs the host accepted after the last confirmable height
}

func (w *vgWorld) tip() uint64 { return w.node.Chain.Tip().Height }

// confirmable: a revision accepted at the current tip can still be confirmed before the window opens
func (w *vgWorld) confirmable() bool { return w.tip()+vgBuffer <= w.ws }

// mine mines n blocks, one at a time, and waits after each for the host to have processed it (as
// testutil.MineAndSync, but a host that stops processing blocks is reported, not waited for)
func (w *vgWorld) mine(n int) {
	for i := 0; i < n; i++ {
		testutil.MineBlocks(w.t, &w.node.ConsensusNode, w.node.Wallet.Address(), 1)
		deadline := time.Now().Add(30 * time.Second)
		for w.node.Chain.Tip() != w.node.Indexer.Tip() {
			if time.Now().After(deadline) {
				w.em.Monitor("host-stopped-processing-blocks", fmt.Sprintf("chain tip %v, the host's index is still at %v after 30 s", w.node.Chain.Tip(), w.node.Indexer.Tip()))
				w.em.EndCase(true)
				w.t.Fatalf("case cannot go on: the host's index does not follow the chain (tip %v, index %v)", w.node.Chain.Tip(), w.node.Indexer.Tip())
			}
			time.Sleep(time.Millisecond)
		}
	}
}

// mineTo mines up to height h (the session stays connected) and records the new tip for the model
func (w *vgWorld) mineTo(h uint64) {
	if cur := w.tip(); cur < h {
		w.mine(int(h - cur))
	}
	w.setHeight()
}

func vgGuardErr(err error) bool {
	return err != nil && strings.Contains(err.Error(), "not good for modification")
}

// refused: bookkeeping after the host refused an RPC of the session (it ends the session and releases the lock)
func (w *vgWorld) refused(kind string, id types.FileContractID, err error, before vr2Entry) {
	w.em.Count(fmt.Sprintf("rpc:%s:refused:confirmable=%v:guard=%v", kind, w.confirmable(), vgGuardErr(err)))
	if w.confirmable() && vgGuardErr(err) {
		w.em.Monitor("revisable-contract-refused", fmt.Sprintf("%s on contract %d at height %d, window start %d: %v", kind, w.cN(id), w.tip(), w.ws, err))
	}
	w.sessionDied()
	after := w.look(id)
	if after.found != before.found || !vr2Eq(after.db, before.db) || !vr2Eq(after.cache, before.cache) || after.rev != before.rev ||
		after.fsize != before.fsize || after.mroot != before.mroot || after.to != before.to {
		w.em.Monitor("late-rpc-changes-state", fmt.Sprintf("%s on contract %d refused (%v) yet the contract changed: revision %d -> %d, size %d -> %d", kind, w.cN(id), err, before.rev, after.rev, before.fsize, after.fsize))
	}
}

// accepted: an RPC that persisted a revision was accepted at the current tip
func (w *vgWorld) acceptedAt(kind string, id types.FileContractID, changesRoot bool) {
	w.accepted++
	w.em.Count(fmt.Sprintf("rpc:%s:accepted:confirmable=%v", kind, w.confirmable()))
	if w.confirmable() {
		return
	}
	w.late++
	sig := "payment-accepted-after-last-confirmable-height"
	if changesRoot {
		sig = "revision-accepted-after-last-confirmable-height"
	}
	w.em.Monitor(sig, fmt.Sprintf("%s on contract %d accepted through the held lock at height %d: window start %d, submission buffer %d (a fresh RPCLock is refused from height %d on)",
		kind, w.cN(id), w.tip(), w.ws, vgBuffer, w.ws-vgBuffer+1))
}

func vgSector(w *vgWorld) vr2Act {
	var sector [crhp2.SectorSize]byte
	w.rng.Read(sector[:64])
	return vr2Act{kind: "append", data: sector[:], root: crhp2.SectorRoot(&sector)}
}

// write: RPCWrite appending one sector.  between != nil: the renter's signature is held back until
// between() has run (the host has opened the updater, stored the sector and sent the Merkle proof; its
// Commit comes after).
func (w *vgWorld) write(rev *crhp2.ContractRevision, between func()) bool {
	id := rev.ID()
	before := w.look(id)
	a := vgSector(w)
	actions := []crhp2.RPCWriteAction{{Type: crhp2.RPCWriteActionAppend, Data: a.data}}
	price, collateral := types.Siacoins(1).Div64(5), types.ZeroCurrency
	kind := "write"
	if between != nil {
		kind = "write-straddling-a-block"
	}
	u := w.slot
	cur := append(append([]types.Hash256(nil), w.ref[id]...), a.root)
	// phase 1: request -> Merkle proof
	newValid, newMissed := vgTransfer(rev.Revision, price, collateral)
	req := &crhp2.RPCWriteRequest{Actions: actions, MerkleProof: true, RevisionNumber: rev.Revision.RevisionNumber + 1, ValidProofValues: newValid, MissedProofValues: newMissed}
	if err := w.tr.WriteRequest(crhp2.RPCWriteID, req); err != nil {
		w.t.Fatal(err)
	}
	var proof crhp2.RPCWriteMerkleProof
	if err := w.tr.ReadResponse(&proof, 4096); err != nil {
		// refused before anything was stored: ReviseContract
		w.slot++
		cls := "Err EInvalid"
		if !vgGuardErr(err) {
			w.t.Fatalf("case cannot go on: RPCWrite refused for another reason: %v", err)
		}
		w.step(fmt.Sprintf("Open1 %d %d", u, w.cN(id)), "ORes ("+cls+")")
		w.refused(kind, id, err, before)
		return false
	}
	w.slot++
	w.step(fmt.Sprintf("StoreSec %d", w.rN(a.root)), "ORes (Ok tt)")
	w.step(fmt.Sprintf("Open1 %d %d", u, w.cN(id)), "ORes (Ok tt)")
	w.step(fmt.Sprintf("Act %d (Append %d)", u, w.rN(a.root)), fmt.Sprintf("OAct (Ok tt) %s", w.coqRoots(cur)))
	if between != nil {
		between()
	}
	// phase 2: signature -> host signature (Commit in between)
	nr := rev.Revision
	nr.RevisionNumber = req.RevisionNumber
	nr.Filesize += crhp2.SectorSize
	nr.FileMerkleRoot = proof.NewMerkleRoot
	nr.ValidProofOutputs = append([]types.SiacoinOutput(nil), rev.Revision.ValidProofOutputs...)
	nr.MissedProofOutputs = append([]types.SiacoinOutput(nil), rev.Revision.MissedProofOutputs...)
	for i := range newValid {
		nr.ValidProofOutputs[i].Value = newValid[i]
	}
	for i := range newMissed {
		nr.MissedProofOutputs[i].Value = newMissed[i]
	}
	h := types.NewHasher()
	nr.EncodeTo(h.E)
	sigHash := h.Sum()
	renterSig := w.renterKey.SignHash(sigHash)
	if err := w.tr.WriteResponse(&crhp2.RPCWriteResponse{Signature: renterSig}); err != nil {
		w.t.Fatal(err)
	}
	commit := fmt.Sprintf("Commit1 %d %d %d %d None", u, nr.RevisionNumber, nr.Filesize, w.hN(nr.FileMerkleRoot))
	var hostSig crhp2.RPCWriteResponse
	if err := w.tr.ReadResponse(&hostSig, 4096); err != nil {
		if !vgGuardErr(err) {
			w.t.Fatalf("case cannot go on: RPCWrite refused at its commit for another reason: %v", err)
		}
		w.step(commit, "ORes (Err EInvalid)")
		w.step(fmt.Sprintf("Close1 %d", u), "ORes (Ok tt)")
		w.refused(kind, id, err, before)
		return false
	}
	w.step(commit, "ORes (Ok tt)")
	w.step(fmt.Sprintf("Close1 %d", u), "ORes (Ok tt)")
	rev.Revision = nr
	rev.Signatures[0].Signature = renterSig[:]
	rev.Signatures[1].Signature = hostSig.Signature[:]
	w.ref[id] = cur
	w.acceptedAt(kind, id, true)
	w.look(id)
	return true
}

func vgTransfer(rev types.FileContractRevision, cost, collateral types.Currency) (valid, missed []types.Currency) {
	for _, o := range rev.ValidProofOutputs {
		valid = append(valid, o.Value)
	}
	for _, o := range rev.MissedProofOutputs {
		missed = append(missed, o.Value)
	}
	valid[0], valid[1] = valid[0].Sub(cost), valid[1].Add(cost)
	missed[0], missed[2] = missed[0].Sub(cost), missed[2].Add(cost)
	missed[1], missed[2] = missed[1].Sub(collateral), missed[2].Add(collateral)
	return
}

// payOnly: RPCRead of 64 bytes of the first sector / RPCSectorRoots of the whole list — the host opens an
// updater and commits it with no actions (a payment-only revision)
func (w *vgWorld) payOnly(rev *crhp2.ContractRevision, read bool) bool {
	id := rev.ID()
	before := w.look(id)
	kind := "sector-roots"
	var err error
	if read {
		kind = "read"
		var buf bytes.Buffer
		err = rpc2.RPCRead(w.tr, &buf, w.renterKey, rev, []crhp2.RPCReadRequestSection{{MerkleRoot: w.ref[id][0], Offset: 0, Length: 64}}, types.Siacoins(1).Div64(5))
	} else {
		_, err = rpc2.RPCSectorRoots(w.tr, w.renterKey, 0, uint64(len(w.ref[id])), rev, types.Siacoins(1).Div64(5))
	}
	u := w.slot
	w.slot++
	if err != nil {
		if !vgGuardErr(err) {
			w.t.Fatalf("case cannot go on: %s refused for another reason: %v", kind, err)
		}
		w.step(fmt.Sprintf("Open1 %d %d", u, w.cN(id)), "ORes (Err EInvalid)")
		w.refused(kind, id, err, before)
		return false
	}
	w.step(fmt.Sprintf("Open1 %d %d", u, w.cN(id)), "ORes (Ok tt)")
	w.step(fmt.Sprintf("Commit1 %d %d %d %d None", u, rev.Revision.RevisionNumber, rev.Revision.Filesize, w.hN(rev.Revision.FileMerkleRoot)), "ORes (Ok tt)")
	w.step(fmt.Sprintf("Close1 %d", u), "ORes (Ok tt)")
	w.acceptedAt(kind, id, false)
	w.look(id)
	return true
}

// renewLate: RPCRenewAndClearContract through the held lock; returns the successor when the host accepted
func (w *vgWorld) renewLate(rev crhp2.ContractRevision) (crhp2.ContractRevision, bool) {
	node := w.node
	old := rev.ID()
	before := w.look(old)
	work := vr2Copy(rev)
	current := work.Revision
	windowEnd := current.WindowEnd + 20
	collateral := crhp2.ContractRenewalCollateral(current.FileContract, 1<<22, w.settings, node.Chain.Tip().Height, windowEnd)
	renewed, basePrice := crhp2.PrepareContractRenewal(current, node.Wallet.Address(), types.Siacoins(10), collateral, w.settings, windowEnd)
	txn := types.Transaction{FileContracts: []types.FileContract{renewed}}
	cost := crhp2.ContractRenewalCost(node.Chain.TipState(), renewed, w.settings.ContractPrice, types.ZeroCurrency, basePrice)
	toSign, err := node.Wallet.FundTransaction(&txn, cost, true)
	if err != nil {
		w.t.Fatal(err)
	}
	node.Wallet.SignTransaction(&txn, toSign, wallet.ExplicitCoveredFields(txn))
	set := append(node.Chain.UnconfirmedParents(txn), txn)
	served := node.Contracts.SectorRoots(old)
	renewal, _, err := rpc2.RPCRenewContract(w.tr, w.renterKey, &work, set, w.settings.BaseRPCPrice)
	var fresh types.FileContractID
	w.rng.Read(fresh[:])
	if err != nil {
		node.Wallet.ReleaseInputs([]types.Transaction{txn}, nil)
		poolOK := "true"
		switch {
		case vgGuardErr(err):
		case strings.Contains(err.Error(), "broadcast renewal transaction"):
			poolOK = "false" // the pool refused the set (the clearing revision is no longer valid in the next block)
		default:
			w.t.Fatalf("case cannot go on: renew-and-clear refused for another reason: %v", err)
		}
		w.em.Step(fmt.Sprintf("SRenewH 1 %s (Renew1 %d %d %d 0 0 1 %d %d %d %d None)", poolOK, w.cN(old), w.cN(fresh), uint64(types.MaxRevisionNumber),
			renewed.Filesize, w.hN(renewed.FileMerkleRoot), renewed.WindowStart, w.hN(crhp2.MetaRoot(served))), "SO (ORes (Err EInvalid))")
		w.em.Count("rpc:renew:refused-by-pool=" + fmt.Sprint(poolOK == "false"))
		if n := len(node.Chain.PoolTransactions()); vgGuardErr(err) && n > 0 {
			for _, ptxn := range node.Chain.PoolTransactions() {
				if len(ptxn.FileContracts) > 0 {
					w.em.Monitor("refused-renewal-left-in-pool", fmt.Sprintf("renew-and-clear of contract %d refused by the guard, yet the signed renewal transaction is in the host's pool", w.cN(old)))
				}
			}
		}
		w.refused("renew", old, err, before)
		return renewal, false
	}
	newID := renewal.ID()
	w.em.Step(fmt.Sprintf("SRenewH 1 true (Renew1 %d %d %d 0 0 %d %d %d %d %d None)", w.cN(old), w.cN(newID), uint64(types.MaxRevisionNumber),
		renewal.Revision.RevisionNumber, renewal.Revision.Filesize, w.hN(renewal.Revision.FileMerkleRoot), renewal.Revision.WindowStart,
		w.hN(crhp2.MetaRoot(served))), "SO (ORes (Ok tt))")
	w.ref[newID] = append([]types.Hash256(nil), w.ref[old]...)
	w.supers[old] = true
	w.stale[old] = nil
	w.acceptedAt("renew", old, true)
	w.look(old)
	w.look(newID)
	return renewal, true
}

var vgKinds = [...]string{"write", "write-straddling-a-block", "read", "sector-roots", "renew", "none"}

func TestVerifC06HeldLock(t *testing.T) {
	em := newVerifEmitter(t, vr2CoqHeader, "scase", "scheck")
	defer em.Close()
	n := verifN(8)
	const directed = 6
	for id := 0; id < n+directed; id++ {
		if em.Skip(id) {
			continue
		}
		rng := verifCaseRand(id)
		log := zap.NewNop()
		base := &vr2World{t: t, em: em, rng: rng, rootNum: map[types.Hash256]uint64{}, hashNum: map[types.Hash256]uint64{{}: 0},
			cidNum: map[types.FileContractID]uint64{}, ref: map[types.FileContractID][]types.Hash256{},
			supers: map[types.FileContractID]bool{}, stale: map[types.FileContractID][]types.Hash256{}}
		w := &vgWorld{vr2World: base}
		w.renterKey, w.hostKey = types.GeneratePrivateKey(), types.GeneratePrivateKey()
		// the late RPC and its height relative to L = ws - buffer (the last confirmable height)
		kind, off := vgKinds[rng.Intn(len(vgKinds))], int64(0)
		offs := []int64{1, 2, vgBuffer - 2, vgBuffer - 1, vgBuffer}
		switch id {
		case 0: // the audit's execution: a write one block before the window
			kind, off = "write", vgBuffer-1
		case 1:
			kind, off = "renew", 1
		case 2:
			kind, off = "write-straddling-a-block", 0 // request at L, the renter's signature at L+1
		case 3:
			kind, off = "sector-roots", vgBuffer-1
		case 4:
			kind, off = "read", vgBuffer
		case 5:
			kind, off = "write", 1
		default:
			off = offs[rng.Intn(len(offs))]
			if kind == "write-straddling-a-block" {
				off = 0
			}
		}
		em.BeginCase(id, fmt.Sprintf("rhp2 session keeps its lock across blocks: %s through the held lock at (last confirmable height)%+d, then the proof window", kind, off))
		em.Count(fmt.Sprintf("late:%s:%+d", kind, off))

		node := vgNewHostNode(t, w.hostKey, log)
		w.node = node
		res := make(chan error)
		if _, err := node.Volumes.AddVolume(context.Background(), filepath.Join(t.TempDir(), "storage.dat"), 16, res); err != nil {
			t.Fatal(err)
		} else if err := <-res; err != nil {
			t.Fatal(err)
		}
		w.mine(10)
		l, err := net.Listen("tcp", "localhost:0")
		if err != nil {
			t.Fatal(err)
		}
		sh := rhp2.NewSessionHandler(l, w.hostKey, node.Chain, node.Syncer, node.Wallet, node.Contracts, node.Settings, node.Volumes, log)
		go sh.Serve()
		w.addr = l.Addr().String()
		w.dial()
		if w.settings, err = rpc2.RPCSettings(w.tr); err != nil {
			t.Fatal(err)
		}

		// no RPC of this harness takes minutes: a host that never answers is reported, not waited for
		watchdog := time.AfterFunc(5*time.Minute, func() {
			em.Monitor("rpc-never-answered", fmt.Sprintf("case %d: no progress for 5 minutes at chain tip %v (index %v); closing the renter's connection", id, node.Chain.Tip(), node.Indexer.Tip()))
			w.tr.ForceClose()
		})
		rev := w.form(vgBuffer + 3 + uint64(rng.Intn(4)))
		cid := rev.ID()
		w.ws, w.we = rev.Revision.WindowStart, rev.Revision.WindowEnd
		L := w.ws - vgBuffer
		w.mine(1)
		locked, ok := w.lock(cid)
		if !ok {
			em.Monitor("live-contract-refuses-lock", fmt.Sprintf("contract %d at height %d, window start %d", w.cN(cid), w.tip(), w.ws))
			t.Fatal("case cannot go on")
		}
		rev = locked
		alive := w.write(&rev, nil) // sector A, well before the buffer
		// through the held lock at L-1 and at L: still confirmable, must be accepted
		for _, h := range []uint64{L - 1, L} {
			if !alive {
				break
			}
			w.mineTo(h)
			if h == L && kind == "write-straddling-a-block" {
				break
			}
			switch rng.Intn(4) {
			case 0:
				alive = w.write(&rev, nil)
			case 1:
				alive = w.payOnly(&rev, true)
			case 2:
				alive = w.payOnly(&rev, false)
			}
		}
		// the late RPC, same session, same lock
		renewedTo := types.FileContractID{}
		if alive {
			switch kind {
			case "write-straddling-a-block":
				alive = w.write(&rev, func() { w.mineTo(L + 1) })
			case "none":
			default:
				w.mineTo(uint64(int64(L) + off))
				switch kind {
				case "write":
					alive = w.write(&rev, nil)
				case "read":
					alive = w.payOnly(&rev, true)
				case "sector-roots":
					alive = w.payOnly(&rev, false)
				case "renew":
					var renewal crhp2.ContractRevision
					if renewal, alive = w.renewLate(rev); alive {
						renewedTo = renewal.ID()
					}
				}
			}
		}
		if w.held != (types.FileContractID{}) {
			w.unlock()
		}
		// a new session asks for the lock: refused from L+1 on, whoever asks
		if w.tip() > L {
			if _, ok := w.lock(cid); ok {
				em.Monitor("lock-granted-after-last-confirmable-height", fmt.Sprintf("contract %d at height %d, window start %d", w.cN(cid), w.tip(), w.ws))
				w.unlock()
			}
		}
		w.look(cid)

		// ---- the rest of the contract's life (not a model step): through the proof window
		held := true
		for _, r := range w.ref[cid] {
			if _, err := node.Store.SectorLocation(r); err != nil {
				held = false
			}
		}
		for w.tip() < w.we+2 {
			w.mine(1)
		}
		c, err := node.Contracts.Contract(cid)
		if err != nil {
			t.Fatal(err)
		}
		em.Count(fmt.Sprintf("end:%s:late-accepted=%d:renewed=%v", c.Status, w.late, renewedTo != types.FileContractID{}))
		if c.Status == contracts.ContractStatusFailed && held {
			em.Monitor("contract-with-held-data-failed", fmt.Sprintf("contract %d (window [%d,%d)) ended failed; the host holds all %d sectors of its stored list; last stored revision %d, confirmed on chain: %v; %d RPC(s) accepted after the last confirmable height %d",
				w.cN(cid), w.ws, w.we, len(w.ref[cid]), c.Revision.RevisionNumber, c.RevisionConfirmed, w.late, L))
		} else if c.Status != contracts.ContractStatusSuccessful && held {
			em.Monitor("contract-not-successful-after-window", fmt.Sprintf("contract %d: status %s at height %d, window end %d", w.cN(cid), c.Status, w.tip(), w.we))
		}
		watchdog.Stop()
		em.EndCase(w.accepted > 0)
		w.tr.ForceClose()
		sh.Close()
		l.Close()
	}
}

var _ = errors.New
