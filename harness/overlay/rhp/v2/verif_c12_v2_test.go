//go:build verif

package rhp

import (
	"sync"
	"strings"
	"context"
	"errors"
	"fmt"
	"math"
	"math/big"
	"net"
	"testing"
	"time"

	"go.sia.tech/core/consensus"
	rhp2 "go.sia.tech/core/rhp/v2"
	"go.sia.tech/core/types"
	"go.sia.tech/hostd/v2/host/contracts"
	"go.sia.tech/hostd/v2/internal/threadgroup"
	"go.sia.tech/hostd/v2/rhp"
	"go.uber.org/zap"
)

// TestVerifC12V2 drives the RHP2 side of C12 on the real code:
//   - validateContractFormation / validateContractRenewal called directly (under recover) on
//     field-wise perturbations of valid candidates x settings grid;
//   - rpcFormContract / rpcRenewAndClearContract through SessionHandler.rpcLoop over an
//     in-memory transport with an honest-signing but otherwise hostile renter and stubbed
//     chain/wallet/contract manager, observing what the handler hands to AddContract /
//     RenewContract (locked collateral, usage).
// Every call is recorded for the Coq model (coq/Formation/Model.v, `frun`).

// ---------------------------------------------------------------- stubs

// c12Chain: `late` blocks are connected while the RPC is in flight — after the handler has had
// its first look at the chain (it takes the consensus state when the RPC starts) and before the
// renter's request has arrived: the blocks arrive (c12GateConn) at the first read from the
// connection that follows a chain query.  Queries before that see height-late, later ones height.
type c12Chain struct {
	height, require uint64
	late            uint64
	asked, flipped  bool
	writesAtFlip    int // host messages written before the blocks arrived
}

func (c *c12Chain) now() uint64 {
	h := c.height
	if !c.flipped {
		h -= c.late
	}
	c.asked = true
	return h
}

// validatedAt is the height that was current while the handler validated the request: the new
// one if the blocks arrived before the handler wrote anything (validation comes after the
// request is read and before the first answer), else the old one.
func (c *c12Chain) validatedAt() uint64 {
	if c.flipped && c.writesAtFlip == 0 {
		return c.height
	}
	return c.height - c.late
}

type c12GateConn struct {
	net.Conn
	chain  *c12Chain
	writes int
}

func (g *c12GateConn) Read(p []byte) (int, error) {
	if c := g.chain; c != nil && c.asked && !c.flipped {
		c.flipped, c.writesAtFlip = true, g.writes
	}
	return g.Conn.Read(p)
}
func (g *c12GateConn) Write(p []byte) (int, error) {
	g.writes++
	return g.Conn.Write(p)
}

func (c *c12Chain) Tip() types.ChainIndex { return types.ChainIndex{Height: c.now()} }
func (c *c12Chain) TipState() consensus.State {
	n := &consensus.Network{}
	n.HardforkV2.RequireHeight = c.require
	n.HardforkV2.AllowHeight = c.require
	return consensus.State{Network: n, Index: types.ChainIndex{Height: c.now()}}
}
func (c *c12Chain) UnconfirmedParents(types.Transaction) []types.Transaction { return nil }
func (c *c12Chain) AddPoolTransactions([]types.Transaction) (bool, error)   { return false, nil }
func (c *c12Chain) AddV2PoolTransactions(types.ChainIndex, []types.V2Transaction) (bool, error) {
	return false, nil
}

type c12Syncer struct{}

// the order in which a handler hands the contract's transaction set to the network and the
// contract to the store: a block confirming the formation can only be mined elsewhere after the
// broadcast, and the host only recognises a formation as its own if it knows the contract when
// it processes that block (C01: a formed contract must not end rejected)
var (
	c12EvMu  sync.Mutex
	c12Evs   []string
)

func c12Event(e string) { c12EvMu.Lock(); c12Evs = append(c12Evs, e); c12EvMu.Unlock() }
func c12TakeEvents() []string {
	c12EvMu.Lock()
	defer c12EvMu.Unlock()
	e := c12Evs
	c12Evs = nil
	return e
}

func (c12Syncer) BroadcastTransactionSet([]types.Transaction)                       { c12Event("broadcast") }
func (c12Syncer) BroadcastV2TransactionSet(types.ChainIndex, []types.V2Transaction) {}

type c12Wallet struct {
	addr   types.Address
	funded []types.Currency
}

func (w *c12Wallet) Address() types.Address { return w.addr }
func (w *c12Wallet) FundTransaction(txn *types.Transaction, amount types.Currency, unconfirmed bool) ([]types.Hash256, error) {
	w.funded = append(w.funded, amount)
	return nil, nil
}
func (w *c12Wallet) SignTransaction(*types.Transaction, []types.Hash256, types.CoveredFields) {}
func (w *c12Wallet) ReleaseInputs([]types.Transaction, []types.V2Transaction)                  {}

type c12Recorded struct {
	kind      string // "add" or "renew"
	revision  contracts.SignedRevision
	clearing  contracts.SignedRevision
	locked    types.Currency
	usage     contracts.Usage
	clearingU contracts.Usage
}

type c12Contracts struct {
	rec []c12Recorded
}

func (c *c12Contracts) Lock(context.Context, types.FileContractID) (contracts.SignedRevision, error) {
	return contracts.SignedRevision{}, errors.New("not used")
}
func (c *c12Contracts) Unlock(types.FileContractID) {}

// (WP-G, fixes/C06-revise-guard-at-commit.patch: rpcRenewAndClearContract asks the manager once more before
// the renewal set enters the pool; the stubbed contract is always revisable)
func (c *c12Contracts) Revisable(types.FileContractID) error { return nil }
func (c *c12Contracts) AddContract(revision contracts.SignedRevision, formationSet []types.Transaction, lockedCollateral types.Currency, initialUsage contracts.Usage) error {
	c.rec = append(c.rec, c12Recorded{kind: "add", revision: revision, locked: lockedCollateral, usage: initialUsage})
	c12Event("store")
	return nil
}
func (c *c12Contracts) RenewContract(renewal contracts.SignedRevision, existing contracts.SignedRevision, formationSet []types.Transaction, lockedCollateral types.Currency, clearingUsage, renewalUsage contracts.Usage) error {
	c.rec = append(c.rec, c12Recorded{kind: "renew", revision: renewal, clearing: existing, locked: lockedCollateral, usage: renewalUsage, clearingU: clearingUsage})
	c12Event("store")
	return nil
}
func (c *c12Contracts) ReviseContract(types.FileContractID) (*contracts.ContractUpdater, error) {
	return nil, errors.New("not used")
}
func (c *c12Contracts) SectorRoots(types.FileContractID) []types.Hash256 { return nil }

type c12SettingsStub struct{ s rhp2.HostSettings }

func (s c12SettingsStub) RHP2Settings() (rhp2.HostSettings, error) { return s.s, nil }

// ---------------------------------------------------------------- helpers

type c12Res struct {
	class string
	vals  []types.Currency
	pmsg  string
}

func c12Call(f func() ([]types.Currency, error)) (res c12Res) {
	defer func() {
		if r := recover(); r != nil {
			res = c12Res{class: "panic", pmsg: fmt.Sprint(r)}
		}
	}()
	vals, err := f()
	if err != nil {
		return c12Res{class: "err"}
	}
	return c12Res{class: "ok", vals: vals}
}

func c12ValsTerm(r c12Res) string {
	switch r.class {
	case "panic":
		return "Panic"
	case "err":
		return "(Err EInvalid)"
	}
	switch len(r.vals) {
	case 1:
		return "(Ok (OCur " + r.vals[0].ExactString() + "))"
	case 2:
		return "(Ok (OCur2 " + r.vals[0].ExactString() + " " + r.vals[1].ExactString() + "))"
	default:
		return "(Ok (OCur3 " + r.vals[0].ExactString() + " " + r.vals[1].ExactString() + " " + r.vals[2].ExactString() + "))"
	}
}

func c12UsageTerm(u contracts.Usage) string {
	return fmt.Sprintf("(U %s %s %s)", u.RPCRevenue.ExactString(), u.StorageRevenue.ExactString(), u.RiskedCollateral.ExactString())
}

func c12UsageOther(u contracts.Usage) bool {
	return !u.IngressRevenue.IsZero() || !u.EgressRevenue.IsZero() || !u.AccountFunding.IsZero() ||
		!u.RegistryRead.IsZero() || !u.RegistryWrite.IsZero()
}

var (
	c12HostKey    = types.NewPrivateKeyFromSeed(make([]byte, 32))
	c12RenterKey  = types.NewPrivateKeyFromSeed(append(make([]byte, 31), 1))
	c12RenterKey2 = types.NewPrivateKeyFromSeed(append(make([]byte, 31), 2))
)

// c12Session runs one RPC of the real session handler against the renter function over an
// in-memory connection and reports whether the handler panicked.
func c12Session(t *testing.T, sh *SessionHandler, sess *session, renter func(rt *rhp2.Transport)) (panicMsg string) {
	// a real loopback connection: the handlers may answer before they have read the whole
	// request, which needs the kernel's buffering (net.Pipe would block both sides)
	hostConn, renterConn := c12ConnPair(t)
	done := make(chan struct{})
	go func() {
		defer close(done)
		defer renterConn.Close()
		rt, err := rhp2.NewRenterTransport(renterConn, c12HostKey.PublicKey())
		if err != nil {
			return
		}
		rt.SetDeadline(time.Now().Add(20 * time.Second))
		renter(rt)
	}()
	func() {
		defer hostConn.Close()
		gate := &c12GateConn{Conn: hostConn}
		ht, err := rhp2.NewHostTransport(gate, c12HostKey)
		if err != nil {
			t.Fatal("host transport:", err)
		}
		if ch, ok := sh.chain.(*c12Chain); ok { // handshake done: the RPC starts here
			gate.chain, gate.writes = ch, 0
		}
		sess.t = ht
		defer func() {
			if r := recover(); r != nil {
				panicMsg = fmt.Sprint(r)
			}
		}()
		sh.rpcLoop(sess, zap.NewNop())
	}()
	<-done
	return
}

var c12Listener net.Listener

func c12ConnPair(t *testing.T) (hostConn, renterConn net.Conn) {
	if c12Listener == nil {
		l, err := net.Listen("tcp", "127.0.0.1:0")
		if err != nil {
			t.Fatal(err)
		}
		c12Listener = l
		t.Cleanup(func() { l.Close(); c12Listener = nil })
	}
	ch := make(chan net.Conn, 1)
	go func() {
		c, err := net.Dial("tcp", c12Listener.Addr().String())
		if err != nil {
			ch <- nil
			return
		}
		ch <- c
	}()
	hostConn, err := c12Listener.Accept()
	if err != nil {
		t.Fatal(err)
	}
	renterConn = <-ch
	if renterConn == nil {
		t.Fatal("dial failed")
	}
	return hostConn, renterConn
}

func c12RevisionSig(key types.PrivateKey, rev types.FileContractRevision) types.TransactionSignature {
	sig := key.SignHash(rhp.HashRevision(rev))
	return types.TransactionSignature{
		ParentID:      types.Hash256(rev.ParentID),
		CoveredFields: types.CoveredFields{FileContractRevisions: []uint64{0}},
		Signature:     sig[:],
	}
}

// ---------------------------------------------------------------- directed cases

type c12Directed struct {
	kind string // "form", "renew", "hform", "hrenew"
	desc string
	mod  func(c *c12Cand)
}

func c12BaseCfg() c12Cfg {
	return c12Cfg{accepting: true, addr: 5, height: 1000, require: 100000, window: 144, maxdur: 4320,
		price: c12C(100), maxcoll: c12C(10000), unitStorage: c12C(2), unitColl: c12C(3), fixed: c12C(7), baserpc: c12C(10)}
}

func c12BaseFormation() c12Cand {
	cfg := c12BaseCfg()
	return c12Cand{cfg: cfg, fc: c12FC{ws: 1144, we: 1288, uh: 1,
		valid:  []c12Out{{1, c12C(5000)}, {5, c12C(600)}},
		missed: []c12Out{{1, c12C(5000)}, {5, c12C(600)}, {0, types.ZeroCurrency}}}}
}

// existing: 4 MiB stored until 1400; renewal extends to 1500: storage 2*4Mi*100, collateral 3*4Mi*100
func c12BaseRenewal(v3 bool) c12Cand {
	cfg := c12BaseCfg()
	size := uint64(1 << 22)
	storage := c12C(2 * size * 100)
	coll := c12C(3 * size * 100)
	c := c12Cand{cfg: cfg, exOK: true,
		ex: c12FC{size: size, root: 1, ws: 1256, we: 1400, uh: 1, num: 7,
			valid:  []c12Out{{1, c12C(3000)}, {5, c12C(900)}},
			missed: []c12Out{{1, c12C(3000)}, {5, c12C(800)}, {0, c12C(100)}}},
		vals: []types.Currency{c12C(2990), c12C(910)},
	}
	c.clr = c12FC{ws: 1256, we: 1400, uh: 1, num: math.MaxUint64,
		valid: []c12Out{{1, c12C(2990)}, {5, c12C(910)}}, missed: []c12Out{{1, c12C(2990)}, {5, c12C(910)}}}
	c.baseRisk = coll
	c.baseRev = cfg.price.Add(storage)
	minValid := c.baseRev
	if v3 {
		c.baseRev = cfg.fixed.Add(storage)
		minValid = cfg.price.Add(c.baseRev)
	}
	V := minValid.Add(c12C(4000)) // locked collateral 4000
	burn := c.baseRev.Add(c12C(50))
	c.fc = c12FC{size: size, root: 1, ws: 1300, we: 1500, uh: 1,
		valid:  []c12Out{{1, c12C(7000)}, {5, V}},
		missed: []c12Out{{1, c12C(7000)}, {5, V.Sub(burn)}, {0, burn}}}
	return c
}

func c12DirectedV2() []c12Directed {
	return []c12Directed{
		{"hrenew", "witness: renewal window end 2^64-1 makes StoragePrice*size*extension overflow (Mul64 panic)", func(c *c12Cand) {
			c.cfg.unitStorage = types.Siacoins(1).Div64(1e9)
			c.fc.we = math.MaxUint64
		}},
		{"renew", "witness: base revenue + base risked collateral overflows (Add panic)", func(c *c12Cand) {
			c.baseRev, c.baseRisk = c12Max, c12C(1)
		}},
		{"form", "accept: honest formation", func(c *c12Cand) {}},
		{"form", "accept: window start = height + window size", func(c *c12Cand) { c.fc.ws = 1144 }},
		{"form", "reject: window start = height + window size - 1", func(c *c12Cand) { c.fc.ws = 1143 }},
		{"form", "accept: window start = height + max duration", func(c *c12Cand) { c.fc.ws, c.fc.we = 5320, 5464 }},
		{"form", "reject: window start = height + max duration + 1", func(c *c12Cand) { c.fc.ws, c.fc.we = 5321, 5465 }},
		{"form", "reject: window one block short", func(c *c12Cand) { c.fc.we = 1287 }},
		{"form", "accept: host payout = contract price", func(c *c12Cand) { c.fc.valid[1].val, c.fc.missed[1].val = c12C(100), c12C(100) }},
		{"form", "reject: host payout = contract price - 1", func(c *c12Cand) { c.fc.valid[1].val, c.fc.missed[1].val = c12C(99), c12C(99) }},
		{"form", "accept: host payout = max collateral", func(c *c12Cand) { c.fc.valid[1].val, c.fc.missed[1].val = c12C(10000), c12C(10000) }},
		{"form", "reject: host payout = max collateral + 1", func(c *c12Cand) { c.fc.valid[1].val, c.fc.missed[1].val = c12C(10001), c12C(10001) }},
		{"form", "reject: no outputs", func(c *c12Cand) { c.fc.valid, c.fc.missed = nil, nil }},
		{"form", "reject: host and renter addresses swapped", func(c *c12Cand) {
			c.fc.valid[0].addr, c.fc.valid[1].addr = 5, 1
		}},
		{"renew", "accept: honest renewal", func(c *c12Cand) {}},
		{"renew", "accept: burn = base revenue + base collateral", func(c *c12Cand) {
			exp := c.baseRev.Add(c.baseRisk)
			c.fc.valid[1].val = exp.Add(c12C(10))
			c.fc.missed[1].val, c.fc.missed[2].val = c12C(10), exp
		}},
		{"renew", "reject: burn = base revenue + base collateral + 1", func(c *c12Cand) {
			exp := c.baseRev.Add(c.baseRisk).Add(c12C(1))
			c.fc.valid[1].val = exp.Add(c12C(10))
			c.fc.missed[1].val, c.fc.missed[2].val = c12C(10), exp
		}},
		{"renew", "accept: locked collateral = max collateral", func(c *c12Cand) { c.cfg.maxcoll = c12C(4000) }},
		{"renew", "reject: locked collateral = max collateral + 1", func(c *c12Cand) { c.cfg.maxcoll = c12C(3999) }},
		{"hform", "accept: honest formation through rpcFormContract", func(c *c12Cand) {}},
		{"hform", "reject: window start = v2 require height", func(c *c12Cand) { c.cfg.require = c.fc.ws }},
		{"hform", "accept: window start = v2 require height - 1", func(c *c12Cand) { c.cfg.require = c.fc.ws + 1 }},
		{"hform", "reject: window start = height + window size - 1, a block arrives during the RPC", func(c *c12Cand) { c.fc.ws = 1143 }},
		{"hform", "accept: window start = height + window size, a block arrives during the RPC", func(c *c12Cand) { c.fc.ws = 1144 }},
		{"hrenew", "reject: renewal window start = height + window size - 1, a block arrives during the RPC", func(c *c12Cand) { c.fc.ws = 1143 }},
		{"hrenew", "accept: honest renewal through rpcRenewAndClearContract", func(c *c12Cand) {}},
		{"hrenew", "accept: renewal without extension", func(c *c12Cand) {
			c.fc.we = 1444
			c.ex.we, c.clr.we = 1444, 1444
			c.fc.valid[1].val = c12C(100 + 4000)
			c.fc.missed[1].val, c.fc.missed[2].val = c12C(100+4000-20), c12C(20)
		}},
		{"hrenew", "reject: final payment below the base RPC price", func(c *c12Cand) {
			c.vals = []types.Currency{c12C(2991), c12C(909)}
		}},
	}
}

// ---------------------------------------------------------------- the test

func TestVerifC12V2(t *testing.T) {
	em := newVerifEmitter(t, "From HostdBase Require Import Base.\nFrom HostdRevision Require Import Model.\nFrom HostdFormation Require Import Model.\nLocal Open Scope N_scope.", "fcase", "fcheck")
	defer em.Close()
	mon := func(sig, detail string) { em.Monitor(sig, detail) }

	directed := c12DirectedV2()
	n := verifN(3000)
	for id := 0; id < len(directed)+n; id++ {
		if em.Skip(id) {
			continue
		}
		rng := verifCaseRand(id)
		var c c12Cand
		var kind string
		if id < len(directed) {
			d := directed[id]
			kind = d.kind
			if kind == "form" || kind == "hform" {
				c = c12BaseFormation()
			} else {
				c = c12BaseRenewal(false)
			}
			d.mod(&c)
			c.desc = d.desc
			em.Count("directed")
		} else {
			kind = []string{"form", "form", "renew", "renew", "renew", "hform", "hrenew", "hrenew"}[rng.Intn(8)]
			cfg := c12GenCfg(rng)
			renewal := kind == "renew" || kind == "hrenew"
			if renewal {
				c = c12GenRenewal(rng, cfg, false)
			} else {
				c = c12GenFormation(rng, cfg)
			}
			p := c12Perturbations[rng.Intn(len(c12Perturbations))]
			c12Perturb(rng, &c, p, renewal, false)
			if rng.Intn(10) == 0 {
				p2 := c12Perturbations[rng.Intn(len(c12Perturbations))]
				c12Perturb(rng, &c, p2, renewal, false)
				p += "+" + p2
			}
			c.desc = kind + " " + p
			em.Count("perturbation:" + p)
		}
		em.Count("kind:" + kind)
		em.BeginCase(id, c.desc)

		renterKey := c12RenterKey2 // key of the new contract
		hostUK, renterUK := c12HostKey.PublicKey().UnlockKey(), renterKey.PublicKey().UnlockKey()
		expUH := c12UC(hostUK, renterUK).UnlockHash()
		ids := newC12IDs(expUH)
		fc := ids.build(c.fc)
		settings := c.cfg.settings2()
		walletAddr := c12Addr(c.cfg.addr)

		// the existing (locked) contract of renewals
		exUC := c12UC(hostUK, c12RenterKey.PublicKey().UnlockKey())
		exFC := c.ex.clone()
		existing := types.FileContractRevision{ParentID: types.FileContractID{1, 2, 3}, UnlockConditions: exUC}
		{
			exIDs := ids
			existing.FileContract = exIDs.build(exFC)
			existing.UnlockHash = exUC.UnlockHash()
		}
		exTerm := func() string { return ids.fcTerm(existing.FileContract, 1) }

		var inp, out string
		nontrivial := false
		switch kind {
		case "form":
			res := c12Call(func() ([]types.Currency, error) {
				v, err := validateContractFormation(fc, hostUK, renterUK, c.cfg.height, settings)
				return []types.Currency{v}, err
			})
			inp = fmt.Sprintf("(CForm %s 1 %d %s)", ids.fcTerm(fc, 0), c.cfg.height, c.cfg.settings2Term())
			out = c12ValsTerm(res)
			em.Count("result:form:" + res.class)
			switch res.class {
			case "panic":
				em.Monitor("formation-validation-panics", "validateContractFormation: "+res.pmsg)
			case "ok":
				nontrivial = true
				c12MonitorAccepted(mon, "validateContractFormation", c.cfg, walletAddr, fc, c.cfg.price.Big(), res.vals[0])
				if len(fc.MissedProofOutputs) == 3 && !fc.MissedProofOutputs[2].Value.IsZero() {
					em.Monitor("accepted-formation-burns-funds", "void output not zero")
				}
			}
		case "renew":
			res := c12Call(func() ([]types.Currency, error) {
				a, b, l, err := validateContractRenewal(existing, fc, hostUK, renterUK, c.baseRev, c.baseRisk, c.cfg.height, settings)
				return []types.Currency{a, b, l}, err
			})
			inp = fmt.Sprintf("(CRenew2 %s %s 1 %s %s %d %s)", exTerm(), ids.fcTerm(fc, 0), c.baseRev.ExactString(), c.baseRisk.ExactString(), c.cfg.height, c.cfg.settings2Term())
			out = c12ValsTerm(res)
			em.Count("result:renew:" + res.class)
			switch res.class {
			case "panic":
				em.Monitor("renewal-validation-panics", "validateContractRenewal: "+res.pmsg)
			case "ok":
				nontrivial = true
				// baseRev is what the handler passes: contract price + base storage revenue
				c12MonitorAccepted(mon, "validateContractRenewal", c.cfg, walletAddr, fc, c.baseRev.Big(), res.vals[2])
				c12MonitorRenewalFigures(mon, "validateContractRenewal", existing.FileContract, fc, c.baseRev, res.vals[1])
				if res.vals[0] != c.baseRev {
					em.Monitor("storage-revenue-differs-from-base-revenue", "")
				}
			}
		case "hform", "hrenew":
			chain := &c12Chain{height: c.cfg.height, require: c.cfg.require}
			// a block or two arriving while the RPC is in flight: the contract is validated
			// against the height at validation time (c.cfg.height), not the one the RPC started at
			// (not across the v2 require height: rpcLoop's own guard ran before the blocks arrived)
			if late := []uint64{0, 0, 1, 2}[rng.Intn(4)]; id >= len(directed) && late <= c.cfg.height &&
				(c.cfg.height-late >= c.cfg.require) == (c.cfg.height >= c.cfg.require) {
				chain.late = late
			} else if id < len(directed) && strings.Contains(c.desc, "block arrives during the RPC") {
				chain.late = 1
			}
			em.Count(fmt.Sprintf("late-blocks:%d", chain.late))
			wallet := &c12Wallet{addr: walletAddr}
			cm := &c12Contracts{}
			c12TakeEvents()
			sh := &SessionHandler{privateKey: c12HostKey, chain: chain, syncer: c12Syncer{}, wallet: wallet, contracts: cm,
				settings: c12SettingsStub{settings}, log: zap.NewNop(), tg: threadgroup.New()}
			sess := &session{}
			txn := types.Transaction{FileContracts: []types.FileContract{fc}}
			var pmsg string
			if kind == "hform" {
				pmsg = c12Session(t, sh, sess, func(rt *rhp2.Transport) {
					req := &rhp2.RPCFormContractRequest{Transactions: []types.Transaction{txn}, RenterKey: renterUK}
					if rt.WriteRequest(rhp2.RPCFormContractID, req) != nil {
						return
					}
					var adds rhp2.RPCFormContractAdditions
					if rt.ReadResponse(&adds, 65536) != nil {
						return
					}
					rev := rhp.InitialRevision(txn, hostUK, renterUK)
					sigs := &rhp2.RPCFormContractSignatures{RevisionSignature: c12RevisionSig(renterKey, rev)}
					if rt.WriteResponse(sigs) != nil {
						return
					}
					var hostSigs rhp2.RPCFormContractSignatures
					rt.ReadResponse(&hostSigs, 65536)
				})
				inp = fmt.Sprintf("(HForm2 %s 1 %d %d %s)", ids.fcTerm(fc, 0), c.cfg.height, c.cfg.require, c.cfg.settings2Term())
			} else {
				sess.contract = contracts.SignedRevision{Revision: existing}
				pmsg = c12Session(t, sh, sess, func(rt *rhp2.Transport) {
					req := &rhp2.RPCRenewAndClearContractRequest{Transactions: []types.Transaction{txn}, RenterKey: renterUK,
						FinalValidProofValues: c.vals, FinalMissedProofValues: c.vals}
					if rt.WriteRequest(rhp2.RPCRenewClearContractID, req) != nil {
						return
					}
					var adds rhp2.RPCFormContractAdditions
					if rt.ReadResponse(&adds, 65536) != nil {
						return
					}
					rev := rhp.InitialRevision(txn, hostUK, renterUK)
					clearing, err := rhp.ClearingRevision(existing, c.vals)
					if err != nil {
						return
					}
					sig := renterKey.SignHash(rhp.HashRevision(rev))
					sigs := &rhp2.RPCRenewAndClearContractSignatures{
						RevisionSignature:      types.TransactionSignature{ParentID: types.Hash256(rev.ParentID), Signature: sig[:], CoveredFields: types.CoveredFields{FileContractRevisions: []uint64{0}}},
						FinalRevisionSignature: c12RenterKey.SignHash(rhp.HashRevision(clearing)),
					}
					if rt.WriteResponse(sigs) != nil {
						return
					}
					var hostSigs rhp2.RPCRenewAndClearContractSignatures
					rt.ReadResponse(&hostSigs, 65536)
				})
				inp = fmt.Sprintf("(HRenew2 %s %s %s 1 %d %d %s)", exTerm(), c12CursTerm(c.vals), ids.fcTerm(fc, 0), c.cfg.height, c.cfg.require, c.cfg.settings2Term())
			}
			// the height the request was validated at (see c12Chain); everything below — the
			// recorded model input included — speaks about that height
			if eff := chain.validatedAt(); eff != c.cfg.height {
				em.Count("late-blocks:arrived-after-validation")
				c.cfg.height = eff
				inp = strings.Replace(inp, fmt.Sprintf(" 1 %d %d ", chain.height, c.cfg.require), fmt.Sprintf(" 1 %d %d ", eff, c.cfg.require), 1)
			}
			switch {
			case pmsg != "":
				out = "Panic"
				em.Count("result:" + kind + ":panic")
				em.Monitor("contract-rpc-handler-panics", kind+": "+pmsg)
			case len(cm.rec) == 0:
				out = "(Err EInvalid)"
				em.Count("result:" + kind + ":err")
			default:
				nontrivial = true
				em.Count("result:" + kind + ":ok")
				r := cm.rec[0]
				if kind == "hform" {
					out = fmt.Sprintf("(Ok (OForm %s %s))", r.locked.ExactString(), c12UsageTerm(r.usage))
				} else {
					out = fmt.Sprintf("(Ok (ORenew %s %s %s))", r.locked.ExactString(), c12UsageTerm(r.clearingU), c12UsageTerm(r.usage))
				}
				// monitors on what was recorded
				if evs := strings.Join(c12TakeEvents(), ","); evs != "store,broadcast" {
					em.Monitor("contract-broadcast-before-stored", kind+": "+evs)
				}
				if len(cm.rec) != 1 {
					em.Monitor("contract-recorded-more-than-once", fmt.Sprint(len(cm.rec)))
				}
				if !c.cfg.accepting {
					em.Monitor("accepted-while-not-accepting-contracts", kind)
				}
				if fc.WindowStart >= c.cfg.require || c.cfg.height >= c.cfg.require {
					em.Monitor("accepted-window-start-at-or-after-v2-require-height", fmt.Sprintf("%s: start %d height %d require %d", kind, fc.WindowStart, c.cfg.height, c.cfg.require))
				}
				if len(wallet.funded) != 1 || wallet.funded[0] != r.locked {
					em.Monitor("funded-amount-differs-from-locked-collateral", kind)
				}
				if c12UsageOther(r.usage) || c12UsageOther(r.clearingU) {
					em.Monitor("initial-usage-has-unexpected-categories", kind)
				}
				stored := r.revision.Revision
				if len(stored.ValidProofOutputs) != 2 || len(stored.MissedProofOutputs) != 3 || stored.RevisionNumber != 1 ||
					stored.WindowStart != fc.WindowStart || stored.WindowEnd != fc.WindowEnd {
					em.Monitor("stored-initial-revision-not-well-formed", kind)
				}
				storage, _ := c12BaseCosts(c.cfg, c.ex, c12FC{size: fc.Filesize, we: fc.WindowEnd})
				if kind == "hform" {
					storage = new(big.Int)
				}
				minValid := new(big.Int).Add(c.cfg.price.Big(), storage)
				c12MonitorAccepted(mon, kind, c.cfg, walletAddr, fc, minValid, r.locked)
				if r.usage.RPCRevenue != c.cfg.price || r.usage.StorageRevenue.Big().Cmp(storage) != 0 {
					em.Monitor("initial-usage-differs-from-prices", fmt.Sprintf("%s: rpc %v storage %v, want %v %v", kind, r.usage.RPCRevenue.ExactString(), r.usage.StorageRevenue.ExactString(), c.cfg.price.ExactString(), storage))
				}
				// conservation: the host's valid payout is its collateral plus what it earns
				sum := new(big.Int).Add(r.locked.Big(), r.usage.RPCRevenue.Big())
				sum.Add(sum, r.usage.StorageRevenue.Big())
				if len(fc.ValidProofOutputs) == 2 && sum.Cmp(fc.ValidProofOutputs[1].Value.Big()) != 0 {
					em.Monitor("host-payout-differs-from-locked-plus-usage", kind)
				}
				if kind == "hform" {
					if !r.usage.RiskedCollateral.IsZero() {
						em.Monitor("risked-collateral-differs-from-payouts", "formation risks collateral")
					}
				} else {
					br, _ := c12FromBig(minValid)
					c12MonitorRenewalFigures(mon, kind, existing.FileContract, fc, br, r.usage.RiskedCollateral)
					// the clearing revision pays the host what was recorded
					cl := r.clearing.Revision
					if len(cl.ValidProofOutputs) == 2 && len(existing.ValidProofOutputs) == 2 {
						got := new(big.Int).Sub(cl.ValidProofOutputs[1].Value.Big(), existing.ValidProofOutputs[1].Value.Big())
						if got.Cmp(r.clearingU.RPCRevenue.Big()) != 0 {
							em.Monitor("clearing-usage-differs-from-payout-change", "")
						}
					}
					if cl.RevisionNumber != math.MaxUint64 || cl.Filesize != 0 {
						em.Monitor("clearing-accepted-not-cleared", "")
					}
				}
			}
		}
		em.FunCase(id, inp, out, nontrivial)
	}
}

// c12MonitorRenewalFigures: the risked collateral is what the host's missed payout loses beyond
// the base revenue, and the renewal hands the data over unchanged.
func c12MonitorRenewalFigures(mon c12Monitor, what string, existing, fc types.FileContract, baseRev, risked types.Currency) {
	if fc.Filesize != existing.Filesize || fc.FileMerkleRoot != existing.FileMerkleRoot {
		mon("accepted-renewal-changes-data", what)
	}
	if fc.WindowEnd < existing.WindowEnd {
		mon("accepted-renewal-ends-before-existing", what)
	}
	if len(fc.ValidProofOutputs) != 2 || len(fc.MissedProofOutputs) != 3 {
		return
	}
	burn := new(big.Int).Sub(fc.ValidProofOutputs[1].Value.Big(), fc.MissedProofOutputs[1].Value.Big())
	want := new(big.Int).Sub(burn, baseRev.Big())
	if want.Sign() < 0 {
		want.SetInt64(0)
	}
	if want.Cmp(risked.Big()) != 0 {
		mon("risked-collateral-differs-from-payouts", fmt.Sprintf("%s: got %v want %v", what, risked.ExactString(), want))
	}
	if fc.MissedProofOutputs[2].Value.Big().Cmp(burn) != 0 {
		mon("accepted-renewal-burn-not-in-void-output", what)
	}
}
