//go:build verif

package rhp_test

// C15 — the RHP2 session as a user of the contract lock.  Real SessionHandler (Serve, upgrade,
// rpcLoop, rpcLock, rpcUnlock, rpcRenewAndClearContract, ...) on a real host node; real TCP
// connections driven by a renter under controlled schedules, together with direct callers of
// Manager.Lock / Unlock.  The manager handed to the session handler is the real one behind
// contracts.VerifC15UManager (every Lock / Unlock call of a session goroutine is noted; see
// host/contracts/verif_c15_users.go, which also holds the driver).  Every step is recorded for
// coq/Lock/Users.v (trace inclusion).

import (
	"context"
	"fmt"
	"math/rand"
	"net"
	"os"
	"sync"
	"testing"
	"time"

	crhp2 "go.sia.tech/core/rhp/v2"
	"go.sia.tech/core/types"
	"go.sia.tech/coreutils/wallet"
	"go.sia.tech/hostd/v2/host/contracts"
	"go.sia.tech/hostd/v2/internal/testutil"
	rpc2 "go.sia.tech/hostd/v2/internal/testutil/rhp/v2"
	rhp2 "go.sia.tech/hostd/v2/rhp/v2"
	"go.uber.org/zap"
)

const c15v2Header = "From HostdBase Require Import Base.\nFrom HostdLock Require Import Model Users."

type c15v2Sess struct {
	conn net.Conn
	tr   *crhp2.Transport
	rev  crhp2.ContractRevision // what the last accepted Lock RPC returned
}

type c15v2World struct {
	t         *testing.T
	node      *testutil.HostNode
	hostKey   types.PrivateKey
	renterKey types.PrivateKey
	stranger  types.PrivateKey
	addr      string
	settings  crhp2.HostSettings
	mu        sync.Mutex
	sess      map[int]*c15v2Sess
	ids       []types.FileContractID
	bad       []bool
	renewable []bool
}

func (w *c15v2World) get(t int) *c15v2Sess {
	w.mu.Lock()
	defer w.mu.Unlock()
	return w.sess[t]
}

func (w *c15v2World) open(t int) (string, error) {
	conn, err := net.Dial("tcp", w.addr)
	if err != nil {
		return "", err
	}
	tr, err := crhp2.NewRenterTransport(conn, w.hostKey.PublicKey())
	if err != nil {
		conn.Close()
		return "", err
	}
	w.mu.Lock()
	if old := w.sess[t]; old != nil {
		old.conn.Close()
	}
	w.sess[t] = &c15v2Sess{conn: conn, tr: tr}
	w.mu.Unlock()
	return conn.LocalAddr().String(), nil
}

func (w *c15v2World) lock(t, id int, goodSig bool) bool {
	s := w.get(t)
	key := w.renterKey
	if !goodSig {
		key = w.stranger
	}
	req := &crhp2.RPCLockRequest{ContractID: w.ids[id], Signature: s.tr.SignChallenge(key), Timeout: 30000}
	var resp crhp2.RPCLockResponse
	if err := s.tr.Call(crhp2.RPCLockID, req, &resp); err != nil {
		return false
	}
	s.tr.SetChallenge(resp.NewChallenge)
	if !resp.Acquired || len(resp.Signatures) != 2 {
		return false
	}
	s.rev = crhp2.ContractRevision{Revision: resp.Revision, Signatures: [2]types.TransactionSignature{resp.Signatures[0], resp.Signatures[1]}}
	return true
}

func (w *c15v2World) unlock(t int) { w.get(t).tr.WriteRequest(crhp2.RPCUnlockID, nil) }

func (w *c15v2World) other(t int, ok bool) bool {
	s := w.get(t)
	if ok {
		_, err := rpc2.RPCSettings(s.tr)
		return err == nil
	}
	// an RPC id the host does not know: error response, the session ends
	var resp crhp2.RPCSettingsResponse
	s.tr.Call(types.NewSpecifier("VerifBogus"), nil, &resp)
	return false
}

func (w *c15v2World) renew(t, id int) bool {
	s := w.get(t)
	node := w.node
	work := s.rev
	current := work.Revision
	windowEnd := current.WindowEnd + 10
	collateral := crhp2.ContractRenewalCollateral(current.FileContract, 1<<22, w.settings, node.Chain.Tip().Height, windowEnd)
	renewed, basePrice := crhp2.PrepareContractRenewal(current, node.Wallet.Address(), types.Siacoins(10), collateral, w.settings, windowEnd)
	txn := types.Transaction{FileContracts: []types.FileContract{renewed}}
	cost := crhp2.ContractRenewalCost(node.Chain.TipState(), renewed, w.settings.ContractPrice, types.ZeroCurrency, basePrice)
	toSign, err := node.Wallet.FundTransaction(&txn, cost, true)
	if err != nil {
		w.t.Fatal(err)
	}
	node.Wallet.SignTransaction(&txn, toSign, wallet.ExplicitCoveredFields(txn))
	set := append(node.Chain.UnconfirmedParents(txn), txn)
	if _, _, err := rpc2.RPCRenewContract(s.tr, w.renterKey, &work, set, w.settings.BaseRPCPrice); err != nil {
		node.Wallet.ReleaseInputs([]types.Transaction{txn}, nil)
		return false
	}
	// the old contract is at its final revision now: Manager.Lock refuses it from here on
	w.mu.Lock()
	w.bad[id], w.renewable[id] = true, false
	w.mu.Unlock()
	return true
}

func (w *c15v2World) form(duration uint64) types.FileContractID {
	node := w.node
	conn, err := net.Dial("tcp", w.addr)
	if err != nil {
		w.t.Fatal(err)
	}
	defer conn.Close()
	tr, err := crhp2.NewRenterTransport(conn, w.hostKey.PublicKey())
	if err != nil {
		w.t.Fatal(err)
	}
	fc := crhp2.PrepareContractFormation(w.renterKey.PublicKey(), w.hostKey.PublicKey(), types.Siacoins(10), types.Siacoins(20), node.Chain.Tip().Height+duration, w.settings, node.Wallet.Address())
	cost := crhp2.ContractFormationCost(node.Chain.TipState(), fc, w.settings.ContractPrice)
	txn := types.Transaction{FileContracts: []types.FileContract{fc}}
	toSign, err := node.Wallet.FundTransaction(&txn, cost, true)
	if err != nil {
		w.t.Fatal(err)
	}
	node.Wallet.SignTransaction(&txn, toSign, wallet.ExplicitCoveredFields(txn))
	set := append(node.Chain.UnconfirmedParents(txn), txn)
	rev, _, err := rpc2.RPCFormContract(tr, w.renterKey, set)
	if err != nil {
		w.t.Fatal(err)
	}
	return rev.ID()
}

func TestVerifC15Sessions(t *testing.T) {
	em := newVerifEmitter(t, c15v2Header, "ucase", "ucheck")
	defer em.Close()

	log := zap.NewNop()
	w := &c15v2World{t: t, sess: map[int]*c15v2Sess{}}
	w.hostKey = types.NewPrivateKeyFromSeed(make([]byte, 32))
	w.renterKey = types.NewPrivateKeyFromSeed(append(make([]byte, 31), 1))
	w.stranger = types.NewPrivateKeyFromSeed(append(make([]byte, 31), 2))
	network, genesis := testutil.V1Network()
	node := testutil.NewHostNode(t, w.hostKey, network, genesis, log)
	w.node = node
	s := node.Settings.Settings()
	s.AcceptingContracts = true
	s.NetAddress = "localhost:9983"
	if err := node.Settings.UpdateSettings(s); err != nil {
		t.Fatal(err)
	}
	testutil.MineAndSync(t, node, node.Wallet.Address(), int(network.MaturityDelay+32)) // one matured output per funding (renter and host side of 3-6 formations and renewals)

	m := contracts.NewVerifC15UManager(node.Contracts)
	l, err := net.Listen("tcp", "localhost:0")
	if err != nil {
		t.Fatal(err)
	}
	sh := rhp2.NewSessionHandler(&contracts.VerifC15UListener{Listener: l, T: m.T}, w.hostKey, node.Chain, node.Syncer, node.Wallet, m, node.Settings, node.Volumes, log)
	go sh.Serve()
	defer sh.Close()
	w.addr = l.Addr().String()

	{ // host settings for formation / renewal
		conn, err := net.Dial("tcp", w.addr)
		if err != nil {
			t.Fatal(err)
		}
		tr, err := crhp2.NewRenterTransport(conn, w.hostKey.PublicKey())
		if err != nil {
			t.Fatal(err)
		}
		if w.settings, err = rpc2.RPCSettings(tr); err != nil {
			t.Fatal(err)
		}
		conn.Close()
	}

	// contracts: 0, 1 good; 2 too close to its proof window; 3 unknown; 4.. formed over RHP2 with
	// real funds (good, and renewable once)
	uc := types.UnlockConditions{
		PublicKeys:         []types.UnlockKey{w.renterKey.PublicKey().UnlockKey(), w.hostKey.PublicKey().UnlockKey()},
		SignaturesRequired: 2,
	}
	addV1 := func(tag byte, windowStart uint64) types.FileContractID {
		rev := contracts.SignedRevision{
			Revision: types.FileContractRevision{
				FileContract: types.FileContract{
					UnlockHash:  uc.UnlockHash(),
					WindowStart: windowStart,
					WindowEnd:   windowStart + 100,
				},
				ParentID:         types.FileContractID{0xc2, tag},
				UnlockConditions: uc,
			},
		}
		if err := node.Contracts.AddContract(rev, []types.Transaction{}, types.ZeroCurrency, contracts.Usage{}); err != nil {
			t.Fatal(err)
		}
		return rev.Revision.ParentID
	}
	h := node.Chain.Tip().Height
	w.ids = []types.FileContractID{addV1(1, h+1000), addV1(2, h+1000), addV1(3, h+2), {0xc2, 0xff}}
	w.bad = []bool{false, false, true, true}
	w.renewable = []bool{false, false, false, false}
	nRenew := 3
	if os.Getenv("VERIF_TIER") == "thorough" {
		nRenew = 6
	}
	for i := 0; i < nRenew; i++ {
		w.ids = append(w.ids, w.form(150))
		w.bad = append(w.bad, false)
		w.renewable = append(w.renewable, true)
	}
	// the oracle bits against the manager, with nobody else around
	for i, id := range w.ids {
		_, err := node.Contracts.Lock(context.Background(), id)
		if (err != nil) != w.bad[i] {
			t.Fatalf("contract %d: Lock err=%v, harness expects refusal=%v", i, err, w.bad[i])
		}
		if err == nil {
			node.Contracts.Unlock(id)
		}
	}
	if tbl := node.Contracts.VerifC15UTable(w.ids); len(tbl) != 0 {
		node.Contracts.VerifC15UResetLocks() // for the cases to find and report, with a schedule
	}

	ops := &contracts.VerifC15UOps{
		IDs:        w.ids,
		Bad:        func(id int) bool { w.mu.Lock(); defer w.mu.Unlock(); return w.bad[id] },
		SessOpen:   w.open,
		SessLock:   w.lock,
		SessUnlock: w.unlock,
		SessOther:  w.other,
		SessRenew:  w.renew,
		SessClose: func(t int) {
			if s := w.get(t); s != nil {
				s.conn.Close()
			}
		},
		CanRenew: func(id int) bool { w.mu.Lock(); defer w.mu.Unlock(); return w.renewable[id] },
	}

	F, S := contracts.VerifC15UFree, contracts.VerifC15USession
	nextRenewable := func() int {
		for i := range w.ids {
			if ops.CanRenew(i) {
				return i
			}
		}
		return -1
	}
	directed := []contracts.VerifC15UCase{
		// 0: a stranger's Lock RPC (bad challenge signature) is refused; as soon as the renter has the
		// refusal a manager caller takes the contract; the session ends; a late caller must wait
		{Kinds: []int{F, S, F}, Run: func(d *contracts.VerifC15UDir) {
			d.SessLockThenFreeLock(1, 0, false, 0, 0)
			d.FreeLock(2, 0, false)
			d.FreeUnlock(0)
			d.FreeUnlock(2)
		}},
		// 1: lock, unlock, lock again, connection dropped while holding, contract free at once
		{Kinds: []int{F, S}, Run: func(d *contracts.VerifC15UDir) {
			d.SessLock(1, 0, true)
			d.SessUnlock(1)
			d.SessLock(1, 1, true)
			d.SessClose(1)
			d.FreeLock(0, 1, false)
			d.FreeUnlock(0)
		}},
		// 2: Lock RPC refused by the manager: unknown contract, contract too close to its window
		{Kinds: []int{F, S, S}, Run: func(d *contracts.VerifC15UDir) {
			d.SessLockThenFreeLock(1, 3, true, 0, 3)
			d.SessLockThenFreeLock(2, 2, true, 0, 2)
			d.SessNew(1)
			d.SessLock(1, 2, false)
		}},
		// 3: Unlock RPC with nothing locked ends the session; with a contract it frees it
		{Kinds: []int{F, S, S}, Run: func(d *contracts.VerifC15UDir) {
			d.SessUnlock(1)
			d.SessLock(2, 0, true)
			d.FreeLock(0, 0, false)
			d.SessUnlock(2)
			d.SessUnlock(2)
			d.FreeUnlock(0)
		}},
		// 4: hand-off chain through sessions and a manager caller
		{Kinds: []int{F, S, S, F}, Run: func(d *contracts.VerifC15UDir) {
			d.SessLock(1, 0, true)
			d.SessLock(2, 0, true)
			d.FreeLock(0, 0, false)
			d.SessUnlock(1)
			d.FreeLock(3, 0, false)
			d.SessLock(1, 0, true)
		}},
		// 5: a refused Lock RPC in the middle of the queue: admitted, refused, released, next admitted
		{Kinds: []int{F, S, S, F}, Run: func(d *contracts.VerifC15UDir) {
			d.SessLock(1, 0, true)
			d.SessLock(2, 0, false)
			d.FreeLock(0, 0, false)
			d.SessUnlock(1)
			d.FreeLock(3, 0, false)
			d.FreeUnlock(0)
			d.FreeUnlock(3)
		}},
		// 6: a second Lock RPC in a session that holds a contract: refused, session ends, contract freed
		{Kinds: []int{F, S}, Run: func(d *contracts.VerifC15UDir) {
			d.SessLock(1, 0, true)
			d.FreeLock(0, 0, false)
			d.SessLock(1, 1, true)
			d.FreeUnlock(0)
		}},
		// 7: renew-and-clear mid-session; the session keeps (and later releases) the OLD contract
		{Kinds: []int{F, S, F}, Run: func(d *contracts.VerifC15UDir) {
			id := nextRenewable()
			if id < 0 {
				return
			}
			d.SessLock(1, id, true)
			d.SessRenew(1)
			d.FreeLock(0, id, false)
			d.SessOther(1, true)
			d.SessUnlock(1)
			d.FreeLock(2, id, false)
			d.SessLock(1, id, true)
		}},
		// 8: an RPC error while holding, with a waiter
		{Kinds: []int{F, S, S}, Run: func(d *contracts.VerifC15UDir) {
			d.SessLock(1, 1, true)
			d.SessLock(2, 1, true)
			d.FreeLock(0, 1, false)
			d.SessOther(1, false)
			if d.Holding(2) {
				d.SessOther(2, false)
			}
			d.FreeUnlock(0)
		}},
		// 9: connection dropped while holding, a session and a caller queued behind it
		{Kinds: []int{F, S, S}, Run: func(d *contracts.VerifC15UDir) {
			d.SessLock(1, 0, true)
			d.SessLock(2, 0, true)
			d.FreeLock(0, 0, false)
			d.SessClose(1)
			d.FreeUnlock(0)
			if d.Holding(2) {
				d.SessClose(2)
			}
			d.FreeUnlock(0)
		}},
		// 10: a stranger's Lock RPC parked behind a manager caller; then refused while another waits
		{Kinds: []int{F, S, F}, Run: func(d *contracts.VerifC15UDir) {
			d.FreeLock(0, 0, false)
			d.SessLock(1, 0, false)
			d.FreeLock(2, 0, false)
			d.FreeUnlock(0)
			d.FreeLock(0, 0, false)
			d.FreeUnlock(2)
		}},
		// 11: two sessions and a caller arrive at a free contract together; one of them refused
		{Kinds: []int{F, S, S}, Run: func(d *contracts.VerifC15UDir) {
			d.Par(true, d.ActSessLock(1, 1, true), d.ActSessLock(2, 1, false), d.ActFreeLock(0, 1))
			d.FreeUnlock(0)
			if d.Holding(1) {
				d.SessUnlock(1)
			}
			d.FreeUnlock(0)
		}},
		// 12: Unlock RPC racing with a cancelled waiter
		{Kinds: []int{F, S, F}, Run: func(d *contracts.VerifC15UDir) {
			d.SessLock(1, 0, true)
			d.FreeLock(0, 0, false)
			d.FreeLock(2, 0, false)
			d.Par(true, d.ActSessUnlock(1), d.ActFreeCancel(0))
			d.FreeUnlock(0)
			d.FreeUnlock(2)
		}},
	}

	genKinds := func(rng *rand.Rand) []int {
		k := []int{F, S}
		for len(k) < 3+rng.Intn(2) {
			if rng.Intn(2) == 0 {
				k = append(k, S)
			} else {
				k = append(k, F)
			}
		}
		rng.Shuffle(len(k), func(i, j int) { k[i], k[j] = k[j], k[i] })
		return k
	}
	start := time.Now()
	wedged := contracts.VerifC15UDrive(t.Logf, em, m, ops, "rhp2-sessions", directed, verifN(150), genKinds, verifCaseRand)
	t.Logf("C15 rhp2 sessions: %v", time.Since(start))
	w.mu.Lock()
	for _, s := range w.sess {
		s.conn.Close()
	}
	w.mu.Unlock()
	if wedged {
		em.Close()
		fmt.Println("locker wedged")
		os.Exit(3)
	}
}
