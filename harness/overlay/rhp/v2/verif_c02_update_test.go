//go:build verif

package rhp_test

// C02 — the RHP2 "update" write action must not change the bytes the host serves for the OLD
// root: the buffer VolumeManager.ReadSector returns is the one held by the sector cache.  The
// old root stays referenced by the contract (the RPC does not complete) or by other contracts.
// Pure monitor (the model, DataModel.v, has no in-place buffer mutation: callers own copies).

import (
	"context"
	"fmt"
	"net"
	"path/filepath"
	"testing"

	crhp2 "go.sia.tech/core/rhp/v2"
	"go.sia.tech/core/types"
	"go.sia.tech/coreutils/wallet"
	"go.sia.tech/hostd/v2/internal/testutil"
	rpc2 "go.sia.tech/hostd/v2/internal/testutil/rhp/v2"
	rhp2 "go.sia.tech/hostd/v2/rhp/v2"
	"go.uber.org/zap"
)

func TestVerifC02Update(t *testing.T) {
	em := newVerifEmitter(t, "From HostdBase Require Import Base.\nFrom HostdStorage Require Import Model DataModel.\nOpen Scope N_scope.", "dcase", "dcheck")
	defer em.Close()

	for id, cacheSize := range []uint32{4, 0} {
		if em.Skip(id) {
			continue
		}
		em.BeginCase(id, fmt.Sprintf("RHP2 update action, sector cache size %d", cacheSize))
		log := zap.NewNop()
		renterKey, hostKey := types.GeneratePrivateKey(), types.GeneratePrivateKey()
		network, genesis := testutil.V1Network()
		node := testutil.NewHostNode(t, hostKey, network, genesis, log)

		s := node.Settings.Settings()
		s.AcceptingContracts = true
		s.NetAddress = "localhost:9983"
		if err := node.Settings.UpdateSettings(s); err != nil {
			t.Fatal(err)
		}
		res := make(chan error)
		if _, err := node.Volumes.AddVolume(context.Background(), filepath.Join(t.TempDir(), "storage.dat"), 10, res); err != nil {
			t.Fatal(err)
		} else if err := <-res; err != nil {
			t.Fatal(err)
		}
		node.Volumes.ResizeCache(cacheSize)
		testutil.MineAndSync(t, node, node.Wallet.Address(), int(network.MaturityDelay+5))

		l, err := net.Listen("tcp", "localhost:0")
		if err != nil {
			t.Fatal(err)
		}
		sh := rhp2.NewSessionHandler(l, hostKey, node.Chain, node.Syncer, node.Wallet, node.Contracts, node.Settings, node.Volumes, log)
		go sh.Serve()

		transport := dialHost(t, hostKey.PublicKey(), l.Addr().String())
		settings, err := rpc2.RPCSettings(transport)
		if err != nil {
			t.Fatal(err)
		}
		fc := crhp2.PrepareContractFormation(renterKey.PublicKey(), hostKey.PublicKey(), types.Siacoins(10), types.Siacoins(20), node.Chain.Tip().Height+200, settings, node.Wallet.Address())
		formationCost := crhp2.ContractFormationCost(node.Chain.TipState(), fc, settings.ContractPrice)
		txn := types.Transaction{FileContracts: []types.FileContract{fc}}
		toSign, err := node.Wallet.FundTransaction(&txn, formationCost, true)
		if err != nil {
			t.Fatal(err)
		}
		node.Wallet.SignTransaction(&txn, toSign, wallet.ExplicitCoveredFields(txn))
		revision, _, err := rpc2.RPCFormContract(transport, renterKey, append(node.Chain.UnconfirmedParents(txn), txn))
		if err != nil {
			t.Fatal(err)
		} else if _, err := rpc2.RPCLock(transport, renterKey, revision.ID()); err != nil {
			t.Fatal(err)
		}

		var sector [crhp2.SectorSize]byte
		for i := 0; i < 256; i++ {
			sector[i] = byte(i + 1)
		}
		root := crhp2.SectorRoot(&sector)
		if err := rpc2.RPCWrite(transport, renterKey, &revision, []crhp2.RPCWriteAction{{Type: crhp2.RPCWriteActionAppend, Data: sector[:]}}, types.Siacoins(1), types.ZeroCurrency); err != nil {
			t.Fatal(err)
		}
		em.Count("rhp2:append")
		check := func(when string) {
			buf, err := node.Volumes.ReadSector(root)
			if err != nil {
				em.Monitor("referenced-sector-unreadable", fmt.Sprintf("%s: %v", when, err))
			} else if crhp2.SectorRoot(buf) != root {
				em.Monitor("update-sector-changed-bytes-served-for-old-root", fmt.Sprintf("%s (cache size %d): ReadSector(old root) no longer hashes to it", when, cacheSize))
			}
		}
		check("after append")

		// the update: 64 bytes at offset 0 of sector 0.  Whether the RPC completes does not matter
		// here; the old root is still what the contract's signed revision commits to when it fails.
		patch := make([]byte, 64)
		for i := range patch {
			patch[i] = 0xff
		}
		// (sent without a Merkle proof request: with one, core's RPCWriteCost panics on an update
		// action before the handler runs.)  Only the request is sent: the host executes the actions
		// before it answers with the new Merkle root.
		rev := revision.Revision
		price := types.Siacoins(1)
		valid := []types.Currency{rev.ValidProofOutputs[0].Value.Sub(price), rev.ValidProofOutputs[1].Value.Add(price)}
		missed := []types.Currency{rev.MissedProofOutputs[0].Value.Sub(price), rev.MissedProofOutputs[1].Value, rev.MissedProofOutputs[2].Value.Add(price)}
		req := &crhp2.RPCWriteRequest{
			Actions:           []crhp2.RPCWriteAction{{Type: crhp2.RPCWriteActionUpdate, A: 0, B: 0, Data: patch}},
			MerkleProof:       false,
			RevisionNumber:    rev.RevisionNumber + 1,
			ValidProofValues:  valid,
			MissedProofValues: missed,
		}
		uerr := transport.WriteRequest(crhp2.RPCWriteID, req)
		var merkleResp crhp2.RPCWriteMerkleProof
		if uerr == nil {
			uerr = transport.ReadResponse(&merkleResp, 4096)
		}
		em.Count(fmt.Sprintf("rhp2:update:executed=%v", uerr == nil))
		roots := node.Contracts.SectorRoots(revision.ID())
		stillReferenced := len(roots) == 1 && roots[0] == root
		em.Count(fmt.Sprintf("rhp2:update:old-root-still-referenced=%v", stillReferenced))
		if stillReferenced {
			check("after update action")
		}
		transport.Close()
		sh.Close()
		l.Close()
		em.FunCase(id, "0", "[]", true)
	}
}
