//go:build verif

package rhp_test

import (
	"path/filepath"
	"context"
	"fmt"
	"net"
	"strings"
	"testing"

	crhp2 "go.sia.tech/core/rhp/v2"
	"go.sia.tech/core/types"
	"go.sia.tech/coreutils/wallet"
	"go.sia.tech/hostd/v2/internal/testutil"
	rpc2 "go.sia.tech/hostd/v2/internal/testutil/rhp/v2"
	"go.sia.tech/hostd/v2/rhp"
	rhp2 "go.sia.tech/hostd/v2/rhp/v2"
	"go.uber.org/zap"
)

// TestVerifC07Seq runs sequences of paid RPCs of ONE session against a real host node (real
// contract manager and store) and checks every RPC against the revision the host has PERSISTED
// before it: a proposal built from an older revision of the same session (same or higher
// number, the coins of the earlier RPC spent again) must be rejected.  Each RPC is recorded for
// the model as (HRevision persisted-revision number values cost).  No hostile shapes here:
// the handlers run in the server's goroutines.

type c07SeqIDs struct {
	addrs map[types.Address]int
	hashes map[types.Hash256]int
}

func (ids *c07SeqIDs) addr(a types.Address) int {
	if a == types.VoidAddress {
		return 0
	}
	if v, ok := ids.addrs[a]; ok {
		return v
	}
	v := len(ids.addrs) + 1
	ids.addrs[a] = v
	return v
}

func (ids *c07SeqIDs) hash(h types.Hash256) int {
	if h == (types.Hash256{}) {
		return 0
	}
	if v, ok := ids.hashes[h]; ok {
		return v
	}
	v := len(ids.hashes) + 1
	ids.hashes[h] = v
	return v
}

func (ids *c07SeqIDs) term(rev types.FileContractRevision) string {
	outs := func(os []types.SiacoinOutput) string {
		items := make([]string, len(os))
		for i, o := range os {
			items[i] = fmt.Sprintf("O %d %s", ids.addr(o.Address), o.Value.ExactString())
		}
		return "[" + strings.Join(items, "; ") + "]"
	}
	return fmt.Sprintf("(R 0 %d %d %d %d %d %s %s %d %d)", ids.hash(types.Hash256(rev.UnlockConditions.UnlockHash())), rev.Filesize,
		ids.hash(rev.FileMerkleRoot), rev.WindowStart, rev.WindowEnd, outs(rev.ValidProofOutputs), outs(rev.MissedProofOutputs),
		ids.hash(types.Hash256(rev.UnlockHash)), rev.RevisionNumber)
}

func c07SeqCurs(cs []types.Currency) string {
	items := make([]string, len(cs))
	for i, c := range cs {
		items[i] = c.ExactString()
	}
	return "[" + strings.Join(items, "; ") + "]"
}

// pay builds the values of a revision of `from` that moves x from the renter to the host (valid)
// and to the void (missed)
func c07SeqPay(from types.FileContractRevision, x types.Currency) (vs, ms []types.Currency, ok bool) {
	if from.ValidProofOutputs[0].Value.Cmp(x) < 0 || from.MissedProofOutputs[0].Value.Cmp(x) < 0 {
		return nil, nil, false
	}
	vs = []types.Currency{from.ValidProofOutputs[0].Value.Sub(x), from.ValidProofOutputs[1].Value.Add(x)}
	ms = []types.Currency{from.MissedProofOutputs[0].Value.Sub(x), from.MissedProofOutputs[1].Value, from.MissedProofOutputs[2].Value.Add(x)}
	return vs, ms, true
}

func TestVerifC07Seq(t *testing.T) {
	em := newVerifEmitter(t, "From HostdBase Require Import Base.\nFrom HostdRevision Require Import Model.\nLocal Open Scope N_scope.", "case", "check")
	defer em.Close()

	log := zap.NewNop()
	renterKey, hostKey := types.NewPrivateKeyFromSeed(make([]byte, 32)), types.NewPrivateKeyFromSeed(append(make([]byte, 31), 9))
	network, genesis := testutil.V1Network()

	// a host node serves a batch of contracts: v1 contracts must start their proof window before
	// the test network's v2 require height, and every contract is confirmed in its own block
	const perNode = 30
	var node *testutil.HostNode
	var l net.Listener
	var closeNode func()
	newNode := func() {
		if closeNode != nil {
			closeNode()
		}
		node = testutil.NewHostNode(t, hostKey, network, genesis, log)
		s := node.Settings.Settings()
		s.AcceptingContracts = true
		s.NetAddress = "localhost:9983"
		if err := node.Settings.UpdateSettings(s); err != nil {
			t.Fatal(err)
		}
		res := make(chan error)
		if _, err := node.Volumes.AddVolume(context.Background(), filepath.Join(t.TempDir(), "storage.dat"), 64, res); err != nil {
			t.Fatal(err)
		} else if err := <-res; err != nil {
			t.Fatal(err)
		}
		testutil.MineAndSync(t, node, node.Wallet.Address(), int(network.MaturityDelay+5))
		var err error
		l, err = net.Listen("tcp", "localhost:0")
		if err != nil {
			t.Fatal(err)
		}
		sh := rhp2.NewSessionHandler(l, hostKey, node.Chain, node.Syncer, node.Wallet, node.Contracts, node.Settings, node.Volumes, log)
		go sh.Serve()
		closeNode = func() { sh.Close(); l.Close() }
	}
	defer func() {
		if closeNode != nil {
			closeNode()
		}
	}()

	dial := func() *crhp2.Transport {
		conn, err := net.Dial("tcp", l.Addr().String())
		if err != nil {
			t.Fatal(err)
		}
		t.Cleanup(func() { conn.Close() })
		tr, err := crhp2.NewRenterTransport(conn, hostKey.PublicKey())
		if err != nil {
			t.Fatal(err)
		}
		return tr
	}

	// the scenarios: what each RPC of the session is built from
	//   "stored": the revision the host has persisted (an honest renter)
	//   "first":  the revision the session started with (stale after the first accepted RPC)
	//   "prev":   the revision persisted before the previous accepted RPC
	type step struct {
		from   string
		bump   uint64 // revision number = from.number + bump
		factor uint64 // pays factor * cost / 2  (2 = exact cost, 1 = half, 4 = double)
		relock bool   // start a new session (unlock + lock) before this RPC
	}
	scenarios := [][]step{
		{{"stored", 1, 2, false}, {"first", 1, 2, false}, {"stored", 1, 2, false}},
		{{"stored", 1, 2, false}, {"first", 2, 2, false}, {"stored", 1, 4, false}},
		{{"stored", 1, 4, false}, {"stored", 1, 2, false}, {"prev", 3, 2, false}},
		{{"stored", 1, 2, false}, {"stored", 1, 1, false}, {"stored", 5, 2, false}},
		{{"stored", 1, 2, false}, {"first", 1, 2, true}, {"first", 2, 4, true}},
		{{"stored", 2, 2, false}, {"stored", 1, 2, false}, {"first", 3, 6, false}, {"stored", 1, 2, false}},
	}
	n := verifN(6)
	id := 0
	for sc := 0; sc < n; sc++ {
		if sc%perNode == 0 {
			newNode()
		}
		steps := scenarios[sc%len(scenarios)]
		rng := verifCaseRand(sc)
		// form a contract
		transport := dial()
		settings, err := rpc2.RPCSettings(transport)
		if err != nil {
			t.Fatal(err)
		}
		fc := crhp2.PrepareContractFormation(renterKey.PublicKey(), hostKey.PublicKey(), types.Siacoins(uint32(5+rng.Intn(10))), types.Siacoins(uint32(10+rng.Intn(10))), node.Chain.Tip().Height+150+uint64(rng.Intn(20)), settings, node.Wallet.Address())
		formationCost := crhp2.ContractFormationCost(node.Chain.TipState(), fc, settings.ContractPrice)
		txn := types.Transaction{FileContracts: []types.FileContract{fc}}
		toSign, err := node.Wallet.FundTransaction(&txn, formationCost, true)
		if err != nil {
			t.Fatal(err)
		}
		node.Wallet.SignTransaction(&txn, toSign, wallet.ExplicitCoveredFields(txn))
		formed, _, err := rpc2.RPCFormContract(transport, renterKey, append(node.Chain.UnconfirmedParents(txn), txn))
		if err != nil {
			t.Fatal(err)
		}
		cid := formed.ID()
		// confirm it, so the wallet's change output is spendable for the next contract
		testutil.MineAndSync(t, node, types.VoidAddress, 1)
		locked, err := rpc2.RPCLock(transport, renterKey, cid)
		if err != nil {
			t.Fatal(err)
		}
		// one sector, so that the sessions below can ask for a non-empty range of roots
		sector := make([]byte, crhp2.SectorSize)
		sector[0], sector[1] = byte(sc), byte(sc>>8)
		if err := rpc2.RPCWrite(transport, renterKey, &locked, []crhp2.RPCWriteAction{{Type: crhp2.RPCWriteActionAppend, Data: sector}}, types.Siacoins(1).Div64(5), types.ZeroCurrency); err != nil {
			t.Fatal("upload:", err)
		}
		costs := settings.RPCSectorRootsCost(0, 1)
		cost, _ := costs.Total()

		stored := func() types.FileContractRevision {
			c, err := node.Contracts.Contract(cid)
			if err != nil {
				t.Fatal(err)
			}
			return c.Revision
		}
		first := stored()
		prev := first
		dead := false // the host ends the session after a rejected RPC
		for si, st := range steps {
			if em.Skip(id) {
				id++
				continue
			}
			if st.relock || dead || transport.IsClosed() {
				dead = false
				rpc2.RPCUnlock(transport)
				transport.Close()
				transport = dial()
				if _, err := rpc2.RPCLock(transport, renterKey, cid); err != nil {
					t.Fatal("relock:", err)
				}
			}
			cur := stored()
			from := cur
			switch st.from {
			case "first":
				from = first
			case "prev":
				from = prev
			}
			x := cost.Mul64(st.factor).Div64(2)
			vs, ms, ok := c07SeqPay(from, x)
			if !ok {
				id++
				continue
			}
			num := from.RevisionNumber + st.bump
			em.BeginCase(id, fmt.Sprintf("scenario %d step %d: from %s +%d pays %d/2 cost", sc%len(scenarios), si, st.from, st.bump, st.factor))
			em.Count("from:" + st.from)
			req := &crhp2.RPCSectorRootsRequest{RootOffset: 0, NumRoots: 1, RevisionNumber: num, ValidProofValues: vs, MissedProofValues: ms}
			// sign the candidate as built from the revision the renter started from: a host working
			// from that (stale) revision builds exactly this candidate, and a host working from the
			// persisted one builds the same (only number and values come from the renter; addresses,
			// window and file never change in these sessions) or rejects the number
			cand, rerr := rhp.Revise(from, num, vs, ms)
			if rerr == nil {
				req.Signature = renterKey.SignHash(rhp.HashRevision(cand))
			}
			var resp crhp2.RPCSectorRootsResponse
			accepted := false
			if err := transport.WriteRequest(crhp2.RPCSectorRootsID, req); err == nil {
				accepted = transport.ReadResponse(&resp, 4096) == nil
			}
			ids := &c07SeqIDs{addrs: map[types.Address]int{}, hashes: map[types.Hash256]int{}}
			inp := fmt.Sprintf("(HRevision %s %d %s %s %s 0)", ids.term(cur), num, c07SeqCurs(vs), c07SeqCurs(ms), cost.ExactString())
			out := "(Err EInvalid)"
			after := stored()
			if accepted {
				em.Count("result:ok")
				toHost, _ := after.ValidProofOutputs[1].Value.SubWithUnderflow(cur.ValidProofOutputs[1].Value)
				burn, _ := cur.MissedProofOutputs[1].Value.SubWithUnderflow(after.MissedProofOutputs[1].Value)
				out = fmt.Sprintf("(Ok (OCur2 %s %s))", toHost.ExactString(), burn.ExactString())
				// the property, against what the host had persisted
				if num <= cur.RevisionNumber || after.RevisionNumber <= cur.RevisionNumber {
					em.Monitor("accepted-revision-number-not-increased", fmt.Sprintf("persisted %d, accepted %d (session started at %d)", cur.RevisionNumber, num, first.RevisionNumber))
				}
				if after.ValidProofOutputs[0].Value.Cmp(cur.ValidProofOutputs[0].Value) > 0 || after.MissedProofOutputs[0].Value.Cmp(cur.MissedProofOutputs[0].Value) > 0 {
					em.Monitor("accepted-renter-payout-increased", "relative to the persisted revision")
				}
				if toHost.Cmp(cost) < 0 {
					em.Monitor("accepted-host-valid-payout-below-price", fmt.Sprintf("host valid payout %v -> %v, price %v", cur.ValidProofOutputs[1].Value.ExactString(), after.ValidProofOutputs[1].Value.ExactString(), cost.ExactString()))
				}
				if rerr != nil || rhp.HashRevision(after) != rhp.HashRevision(cand) {
					em.Monitor("persisted-revision-differs-from-accepted-candidate", "")
				}
				prev = cur
			} else {
				dead = true
				em.Count("result:err")
				if rhp.HashRevision(after) != rhp.HashRevision(cur) {
					em.Monitor("rejected-rpc-changed-persisted-revision", "")
				}
			}
			em.FunCase(id, inp, out, accepted)
			id++
		}
		rpc2.RPCUnlock(transport)
		transport.Close()
	}
}
