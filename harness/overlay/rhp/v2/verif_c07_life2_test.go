//go:build verif

package rhp_test

// WP-L7 — C07 over a chain of contracts, RHP2.  One session after the other against a real host
// node (real contract manager, store, chain manager with its transaction pool): paid
// RPCSectorRoots on the latest contract of the chain, RPCRenewAndClearContract (honest, with a
// clearing revision that does not pay, with a renewal contract whose renter outputs differ — the
// host's own validators pass it, the pool must not —, with a corrupted funding signature), then
// in the same session and in new ones requests to the renewed predecessors, and so on through
// chains of 3-4 contracts.  Every decided request is recorded as a step of coq/Lifetime/Renew.v
// (xcase/xcheck: accepted or not, the stored revision of EVERY contract of the chain afterwards);
// independent monitors evaluate the property text on the stored revisions.

import (
	"context"
	"fmt"
	"net"
	"path/filepath"
	"strings"
	"testing"

	crhp2 "go.sia.tech/core/rhp/v2"
	"go.sia.tech/core/types"
	"go.sia.tech/coreutils/wallet"
	"go.sia.tech/hostd/v2/host/contracts"
	"go.sia.tech/hostd/v2/internal/testutil"
	rpc2 "go.sia.tech/hostd/v2/internal/testutil/rhp/v2"
	"go.sia.tech/hostd/v2/rhp"
	rhp2 "go.sia.tech/hostd/v2/rhp/v2"
	"go.uber.org/zap"
)

const c07LifeHeader = "From HostdBase Require Import Base.\nFrom HostdRevision Require Import Model.\nFrom HostdLifetime Require Import Life Renew.\nLocal Open Scope N_scope."

type c07Life2 struct {
	t         *testing.T
	em        *verifEmitter
	node      *testutil.HostNode
	addr      string
	renterKey types.PrivateKey
	hostKey   types.PrivateKey
	settings  crhp2.HostSettings
	require   uint64
	ids       *c07SeqIDs
	tr        *crhp2.Transport
	held      types.FileContractID // contract the session has locked (zero: none)
	chain     []types.FileContractID
	renewed   map[types.FileContractID]types.FileContractRevision // predecessor -> the clearing revision stored for it
	nonce     uint64
	accepted  int
}

func (w *c07Life2) stored(id types.FileContractID) types.FileContractRevision {
	c, err := w.node.Contracts.Contract(id)
	if err != nil {
		w.t.Fatal(err)
	}
	return c.Revision
}

func (w *c07Life2) contractCount() int {
	_, n, err := w.node.Store.Contracts(contracts.ContractFilter{})
	if err != nil {
		w.t.Fatal(err)
	}
	return n
}

func (w *c07Life2) view() string {
	items := make([]string, len(w.chain))
	for i, id := range w.chain {
		items[i] = w.ids.term(w.stored(id))
	}
	return "[" + strings.Join(items, ";\n      ") + "]"
}

func (w *c07Life2) dial() {
	if w.tr != nil {
		w.tr.Close()
	}
	conn, err := net.Dial("tcp", w.addr)
	if err != nil {
		w.t.Fatal(err)
	}
	w.t.Cleanup(func() { conn.Close() })
	tr, err := crhp2.NewRenterTransport(conn, w.hostKey.PublicKey())
	if err != nil {
		w.t.Fatal(err)
	}
	w.tr, w.held = tr, types.FileContractID{}
}

// lock makes the session hold contract id (a new session when it holds another one or died)
func (w *c07Life2) lock(id types.FileContractID) bool {
	if w.held == id && !w.tr.IsClosed() {
		return true
	}
	if w.held != (types.FileContractID{}) || w.tr.IsClosed() {
		w.dial()
	}
	if _, err := rpc2.RPCLock(w.tr, w.renterKey, id); err != nil {
		w.dial()
		return false
	}
	w.held = id
	return true
}

// the step is observed: all contracts of the chain, and the monitors every step shares
func (w *c07Life2) record(op string, accepted bool, before []types.FileContractRevision) {
	w.em.Step("XDo ("+op+")", fmt.Sprintf("Some (%v, %s)", accepted, w.view()))
	if accepted {
		w.accepted++
	}
	// nothing is ever signed for a renewed contract again; a refused request changes nothing
	for i, id := range w.chain {
		if i >= len(before) {
			break
		}
		after := w.stored(id)
		if clr, ok := w.renewed[id]; ok && rhp.HashRevision(after) != rhp.HashRevision(clr) {
			w.em.Monitor("revision-signed-for-cleared-contract", fmt.Sprintf("contract %d of the chain was renewed, its stored revision changed afterwards (number %d)", i, after.RevisionNumber))
		}
		if !accepted && rhp.HashRevision(after) != rhp.HashRevision(before[i]) {
			w.em.Monitor("rejected-rpc-changed-persisted-revision", fmt.Sprintf("contract %d of the chain", i))
		}
	}
}

func (w *c07Life2) snapshot() []types.FileContractRevision {
	out := make([]types.FileContractRevision, len(w.chain))
	for i, id := range w.chain {
		out[i] = w.stored(id)
	}
	return out
}

// force: the candidate a host would build from the renter's number and values on cur without
// Revise's own checks (the model's validators then see what the handler refused earlier)
func c07LifeForce(cur types.FileContractRevision, num uint64, vs, ms []types.Currency) types.FileContractRevision {
	rv := cur
	rv.RevisionNumber = num
	mk := func(old []types.SiacoinOutput, vals []types.Currency) []types.SiacoinOutput {
		out := make([]types.SiacoinOutput, len(vals))
		for i := range vals {
			if i < len(old) {
				out[i].Address = old[i].Address
			}
			out[i].Value = vals[i]
		}
		return out
	}
	rv.ValidProofOutputs, rv.MissedProofOutputs = mk(cur.ValidProofOutputs, vs), mk(cur.MissedProofOutputs, ms)
	return rv
}

// revise sends a paid RPCSectorRoots for contract k of the chain, built on `from` (a revision of
// that contract the renter holds), number from.number+bump, paying factor*cost/2
func (w *c07Life2) revise(k int, from types.FileContractRevision, bump, factor uint64, what string) {
	id := w.chain[k]
	cur := w.stored(id)
	before := w.snapshot()
	cost, _ := w.settings.RPCSectorRootsCost(0, 1).Total()
	x := cost.Mul64(factor).Div64(2)
	src := from
	if len(src.MissedProofOutputs) < 3 { // a cleared revision: the renter still sends three missed values
		src.MissedProofOutputs = append(append([]types.SiacoinOutput(nil), src.MissedProofOutputs...), types.SiacoinOutput{})
	}
	vs, ms, ok := c07SeqPay(src, x)
	if !ok {
		return
	}
	num := from.RevisionNumber + bump
	cand, rerr := rhp.Revise(cur, num, vs, ms)
	if rerr != nil {
		cand = c07LifeForce(cur, num, vs, ms)
	}
	_, wasRenewed := w.renewed[id]
	w.em.Count(fmt.Sprintf("revise:%s:on-renewed=%v", what, wasRenewed))
	accepted := false
	if w.lock(id) {
		req := &crhp2.RPCSectorRootsRequest{RootOffset: 0, NumRoots: 1, RevisionNumber: num, ValidProofValues: vs, MissedProofValues: ms}
		req.Signature = w.renterKey.SignHash(rhp.HashRevision(cand))
		var resp crhp2.RPCSectorRootsResponse
		if err := w.tr.WriteRequest(crhp2.RPCSectorRootsID, req); err == nil {
			accepted = w.tr.ReadResponse(&resp, 4096) == nil
		}
		if !accepted {
			w.dial() // the host ends the session after a refused RPC
		}
	}
	w.em.Count(fmt.Sprintf("revise:accepted=%v", accepted))
	after := w.stored(id)
	if accepted {
		if wasRenewed {
			w.em.Monitor("revision-signed-for-cleared-contract", fmt.Sprintf("RPCSectorRoots accepted on contract %d of the chain after it was renewed", k))
		}
		// the property, against what the host had stored
		sum := func(os []types.SiacoinOutput) (s types.Currency) {
			for _, o := range os {
				s = s.Add(o.Value)
			}
			return
		}
		toHost, uf := after.ValidProofOutputs[1].Value.SubWithUnderflow(cur.ValidProofOutputs[1].Value)
		switch {
		case after.RevisionNumber <= cur.RevisionNumber:
			w.em.Monitor("accepted-revision-number-not-increased", fmt.Sprintf("stored %d, accepted %d", cur.RevisionNumber, after.RevisionNumber))
		case after.ValidProofOutputs[0].Value.Cmp(cur.ValidProofOutputs[0].Value) > 0 || after.MissedProofOutputs[0].Value.Cmp(cur.MissedProofOutputs[0].Value) > 0:
			w.em.Monitor("accepted-renter-payout-increased", "relative to the stored revision")
		case uf || toHost.Cmp(cost) < 0:
			w.em.Monitor("accepted-host-valid-payout-below-price", fmt.Sprintf("host valid payout %v -> %v, price %v", cur.ValidProofOutputs[1].Value.ExactString(), after.ValidProofOutputs[1].Value.ExactString(), cost.ExactString()))
		case after.MissedProofOutputs[1].Value.Cmp(cur.MissedProofOutputs[1].Value) < 0:
			w.em.Monitor("accepted-host-missed-payout-burn-above-collateral", "sector roots puts no collateral at risk")
		case !sum(after.ValidProofOutputs).Equals(sum(cur.ValidProofOutputs)):
			w.em.Monitor("accepted-valid-sum-changed", "")
		case !sum(after.MissedProofOutputs).Equals(sum(cur.MissedProofOutputs)):
			w.em.Monitor("accepted-missed-sum-changed", fmt.Sprintf("%v -> %v", sum(cur.MissedProofOutputs).ExactString(), sum(after.MissedProofOutputs).ExactString()))
		case after.UnlockHash != cur.UnlockHash || after.WindowStart != cur.WindowStart || after.WindowEnd != cur.WindowEnd:
			w.em.Monitor("accepted-proof-window-changed", "")
		}
		if rerr != nil || rhp.HashRevision(after) != rhp.HashRevision(cand) {
			w.em.Monitor("persisted-revision-differs-from-accepted-candidate", "")
		}
	}
	w.record(fmt.Sprintf("XRev %d (QRevision %s %s 0)", k, w.ids.term(cand), cost.ExactString()), accepted, before)
}

const (
	c07RenewHonest    = iota
	c07RenewNoPayment // the clearing revision keeps the renter's payout: ValidateClearingRevision must refuse (BaseRPCPrice > 0)
	c07RenewToRenter  // the clearing revision moves coins from the host to the renter
	c07RenewUnequal   // renewal contract with renter missed < renter valid: passes the host's validators, the pool refuses
	c07RenewBadInput  // a corrupted signature on a funding input: the pool refuses
	c07RenewHostShort // renewal contract whose host payout does not cover the contract price
)

var c07RenewName = [...]string{"honest", "clearing-pays-nothing", "clearing-pays-the-renter", "renter-outputs-differ", "bad-input-signature", "host-payout-below-price"}

func (w *c07Life2) settingsTerm() string {
	s := w.settings
	return fmt.Sprintf("(FM.S2 %v %d %d %d %s %s %s %s %s)", s.AcceptingContracts, w.ids.addr(s.Address), s.WindowSize, s.MaxDuration,
		s.ContractPrice.ExactString(), s.MaxCollateral.ExactString(), s.StoragePrice.ExactString(), s.Collateral.ExactString(), s.BaseRPCPrice.ExactString())
}

func (w *c07Life2) fcTerm(fc types.FileContract) string {
	return w.ids.term(types.FileContractRevision{FileContract: fc, UnlockConditions: types.UnlockConditions{}})
}

// renew runs RPCRenewAndClearContract for contract k of the chain
func (w *c07Life2) renew(k int, variant int, rng interface{ Intn(int) int }) {
	node := w.node
	id := w.chain[k]
	cur := w.stored(id)
	before := w.snapshot()
	nBefore := w.contractCount()
	_, wasRenewed := w.renewed[id]
	w.em.Count(fmt.Sprintf("renew:%s:on-renewed=%v", c07RenewName[variant], wasRenewed))
	// the renter's view of the contract (a renewed one: the revision it was cleared from does not
	// matter, the host refuses at the lock)
	endHeight := cur.WindowEnd + 5 + uint64(rng.Intn(5))
	w.nonce++
	collateral := crhp2.ContractRenewalCollateral(cur.FileContract, 1<<22, w.settings, node.Chain.Tip().Height, endHeight)
	renterPayout := types.Siacoins(10).Add(types.NewCurrency64(w.nonce))
	fc, basePrice := crhp2.PrepareContractRenewal(cur, node.Wallet.Address(), renterPayout, collateral, w.settings, endHeight)
	switch variant {
	case c07RenewUnequal:
		fc.MissedProofOutputs[0].Value = fc.MissedProofOutputs[0].Value.Sub(types.NewCurrency64(1000))
	case c07RenewHostShort:
		fc.ValidProofOutputs[1].Value = w.settings.ContractPrice.Sub(types.NewCurrency64(1))
		fc.MissedProofOutputs[1].Value = fc.ValidProofOutputs[1].Value
		fc.MissedProofOutputs[2].Value = types.ZeroCurrency
	}
	txn := types.Transaction{FileContracts: []types.FileContract{fc}}
	cost := crhp2.ContractRenewalCost(node.Chain.TipState(), fc, w.settings.ContractPrice, types.ZeroCurrency, basePrice)
	toSign, err := node.Wallet.FundTransaction(&txn, cost, true)
	if err != nil {
		w.t.Fatal(err)
	}
	node.Wallet.SignTransaction(&txn, toSign, wallet.ExplicitCoveredFields(txn))
	if variant == c07RenewBadInput {
		sig := append([]byte(nil), txn.Signatures[0].Signature...)
		sig[7] ^= 0x20
		txn.Signatures[0].Signature = sig
	}
	set := append(node.Chain.UnconfirmedParents(txn), txn)
	// the clearing values
	pay := w.settings.BaseRPCPrice
	if cur.ValidProofOutputs[0].Value.Cmp(pay) < 0 {
		pay = cur.ValidProofOutputs[0].Value
	}
	finalValid := []types.Currency{cur.ValidProofOutputs[0].Value.Sub(pay), cur.ValidProofOutputs[1].Value.Add(pay)}
	switch variant {
	case c07RenewNoPayment:
		finalValid = []types.Currency{cur.ValidProofOutputs[0].Value, cur.ValidProofOutputs[1].Value}
	case c07RenewToRenter:
		finalValid = []types.Currency{cur.ValidProofOutputs[0].Value.Add(types.NewCurrency64(5)), cur.ValidProofOutputs[1].Value.Sub(types.NewCurrency64(5))}
	}
	height := node.Chain.Tip().Height
	var initRev types.FileContractRevision
	accepted := false
	var rerr error
	if w.lock(id) {
		initRev, rerr = w.rpcRenew(cur, set, finalValid)
		accepted = rerr == nil
		if !accepted {
			w.dial()
		}
	} else {
		rerr = fmt.Errorf("lock refused")
	}
	if !accepted {
		node.Wallet.ReleaseInputs([]types.Transaction{txn}, nil)
		if variant == c07RenewUnequal || variant == c07RenewBadInput {
			w.em.Count(fmt.Sprintf("renew:%s:refused-by-pool=%v", c07RenewName[variant], strings.Contains(rerr.Error(), "broadcast renewal transaction")))
		}
	}
	w.em.Count(fmt.Sprintf("renew:accepted=%v", accepted))
	// the model's request
	uk, rk := w.hostKey.PublicKey().UnlockKey(), w.renterKey.PublicKey().UnlockKey()
	honestInit := rhp.InitialRevision(txn, uk, rk)
	uhexp := w.ids.hash(types.Hash256(honestInit.UnlockConditions.UnlockHash()))
	tail := variant != c07RenewBadInput
	op := fmt.Sprintf("XRenew %d (mkRnw (Renew2 %s %s %d %d %d %s) 0 %d %v)", k, c07SeqCurs(finalValid), w.fcTerm(fc), uhexp, height, w.require, w.settingsTerm(), uhexp, tail)
	if accepted {
		newID := initRev.ParentID
		if wasRenewed {
			w.em.Monitor("revision-signed-for-cleared-contract", fmt.Sprintf("contract %d of the chain renewed a second time", k))
		}
		if variant != c07RenewHonest {
			w.em.Monitor("successor-initial-revision-not-from-validated-renewal", fmt.Sprintf("a renewal with %s was accepted", c07RenewName[variant]))
		}
		clr := w.stored(id)
		// the clearing revision: the property text
		same := func(a, b []types.SiacoinOutput) bool {
			if len(a) != len(b) {
				return false
			}
			for i := range a {
				if a[i] != b[i] {
					return false
				}
			}
			return true
		}
		toHost, uf := clr.ValidProofOutputs[1].Value.SubWithUnderflow(cur.ValidProofOutputs[1].Value)
		fromRenter, uf2 := cur.ValidProofOutputs[0].Value.SubWithUnderflow(clr.ValidProofOutputs[0].Value)
		switch {
		case clr.Filesize != 0 || clr.FileMerkleRoot != (types.Hash256{}):
			w.em.Monitor("clearing-revision-not-clearing", "file not zeroed")
		case clr.RevisionNumber != types.MaxRevisionNumber:
			w.em.Monitor("clearing-revision-not-clearing", fmt.Sprintf("revision number %d", clr.RevisionNumber))
		case !same(clr.MissedProofOutputs, clr.ValidProofOutputs):
			w.em.Monitor("clearing-revision-not-clearing", "missed outputs differ from valid outputs")
		case clr.UnlockHash != cur.UnlockHash || clr.UnlockConditions.UnlockHash() != cur.UnlockConditions.UnlockHash() || clr.WindowStart != cur.WindowStart || clr.WindowEnd != cur.WindowEnd || clr.ParentID != cur.ParentID:
			w.em.Monitor("clearing-revision-not-clearing", "unlock hash, unlock conditions, window or id changed")
		case len(clr.ValidProofOutputs) != 2 || clr.ValidProofOutputs[0].Address != cur.ValidProofOutputs[0].Address || clr.ValidProofOutputs[1].Address != cur.ValidProofOutputs[1].Address:
			w.em.Monitor("clearing-revision-not-clearing", "output addresses changed")
		case uf || uf2 || !toHost.Equals(fromRenter) || toHost.Cmp(pay) < 0:
			w.em.Monitor("clearing-revision-not-clearing", fmt.Sprintf("host gains %v, renter gives %v, payment due %v", toHost.ExactString(), fromRenter.ExactString(), pay.ExactString()))
		}
		// the successor: InitialRevision of the renewal contract the validators saw
		succ := w.stored(newID)
		vsum, msum := types.ZeroCurrency, types.ZeroCurrency
		for _, o := range succ.ValidProofOutputs {
			vsum = vsum.Add(o.Value)
		}
		for _, o := range succ.MissedProofOutputs {
			msum = msum.Add(o.Value)
		}
		switch {
		case rhp.HashRevision(succ) != rhp.HashRevision(initRev) || succ.ParentID != newID || succ.UnlockConditions.UnlockHash() != honestInit.UnlockConditions.UnlockHash():
			w.em.Monitor("successor-initial-revision-not-from-validated-renewal", "stored initial revision is not InitialRevision of the renewal transaction")
		case succ.RevisionNumber != 1 || !same(succ.ValidProofOutputs, fc.ValidProofOutputs) || !same(succ.MissedProofOutputs, fc.MissedProofOutputs):
			w.em.Monitor("successor-initial-revision-not-from-validated-renewal", "number or outputs differ from the renewal contract")
		case succ.Filesize != cur.Filesize || succ.FileMerkleRoot != cur.FileMerkleRoot:
			w.em.Monitor("successor-initial-revision-not-from-validated-renewal", "file size or root differ from the predecessor's")
		case len(succ.ValidProofOutputs) != 2 || len(succ.MissedProofOutputs) != 3 || !vsum.Equals(msum):
			w.em.Monitor("successor-initial-revision-not-from-validated-renewal", fmt.Sprintf("not well formed: %d/%d outputs, sums %v / %v", len(succ.ValidProofOutputs), len(succ.MissedProofOutputs), vsum.ExactString(), msum.ExactString()))
		case succ.ValidProofOutputs[1].Address != w.settings.Address || succ.MissedProofOutputs[1].Address != w.settings.Address || succ.MissedProofOutputs[2].Address != types.VoidAddress:
			w.em.Monitor("successor-initial-revision-not-from-validated-renewal", "host or void address")
		case !succ.MissedProofOutputs[1].Value.Add(succ.MissedProofOutputs[2].Value).Equals(succ.ValidProofOutputs[1].Value):
			w.em.Monitor("successor-initial-revision-not-from-validated-renewal", "host valid payout differs from host missed payout + void")
		}
		w.renewed[id] = clr
		w.chain = append(w.chain, newID)
	} else {
		if variant == c07RenewHonest && !wasRenewed {
			w.em.Monitor("honest-renewal-refused", rerr.Error())
		}
		if n := w.contractCount(); n != nBefore {
			w.em.Monitor("refused-renewal-created-contract", fmt.Sprintf("%s: %d contracts before, %d after", c07RenewName[variant], nBefore, n))
		}
	}
	w.record(op, accepted, before)
}

// rpcRenew: the renter side of RPCRenewAndClearContract with the clearing values given
func (w *c07Life2) rpcRenew(cur types.FileContractRevision, txnSet []types.Transaction, finalValid []types.Currency) (types.FileContractRevision, error) {
	t := w.tr
	set := append([]types.Transaction(nil), txnSet...)
	txn := set[len(set)-1]
	renterSignatures := txn.Signatures
	txn.Signatures = nil
	set[len(set)-1] = txn
	req := &crhp2.RPCRenewAndClearContractRequest{Transactions: set, RenterKey: w.renterKey.PublicKey().UnlockKey(),
		FinalValidProofValues: finalValid, FinalMissedProofValues: finalValid}
	if err := t.WriteRequest(crhp2.RPCRenewClearContractID, req); err != nil {
		return types.FileContractRevision{}, err
	}
	var hostAdditions crhp2.RPCFormContractAdditions
	if err := t.ReadResponse(&hostAdditions, 65536); err != nil {
		return types.FileContractRevision{}, err
	}
	txn.SiacoinInputs = append(txn.SiacoinInputs, hostAdditions.Inputs...)
	txn.SiacoinOutputs = append(txn.SiacoinOutputs, hostAdditions.Outputs...)
	initRev := rhp.InitialRevision(txn, w.hostKey.PublicKey().UnlockKey(), w.renterKey.PublicKey().UnlockKey())
	initSig := w.renterKey.SignHash(rhp.HashRevision(initRev))
	final, err := rhp.ClearingRevision(cur, finalValid)
	if err != nil {
		final = cur
	}
	finalSig := w.renterKey.SignHash(rhp.HashRevision(final))
	err = t.WriteResponse(&crhp2.RPCRenewAndClearContractSignatures{
		ContractSignatures: renterSignatures,
		RevisionSignature: types.TransactionSignature{ParentID: types.Hash256(initRev.ParentID), CoveredFields: types.CoveredFields{FileContractRevisions: []uint64{0}},
			PublicKeyIndex: 0, Signature: initSig[:]},
		FinalRevisionSignature: finalSig,
	})
	if err != nil {
		return types.FileContractRevision{}, err
	}
	var hostSigs crhp2.RPCRenewAndClearContractSignatures
	if err := t.ReadResponse(&hostSigs, 4096); err != nil {
		return types.FileContractRevision{}, err
	}
	// the host's signatures: for the clearing revision and for the initial revision
	if !w.hostKey.PublicKey().VerifyHash(rhp.HashRevision(final), hostSigs.FinalRevisionSignature) {
		return initRev, fmt.Errorf("host signature on the clearing revision does not verify")
	}
	return initRev, nil
}

func TestVerifC07Life2(t *testing.T) {
	em := newVerifEmitter(t, c07LifeHeader, "xcase", "xcheck")
	defer em.Close()
	n := verifN(3)
	for id := 0; id < n; id++ {
		if em.Skip(id) {
			continue
		}
		rng := verifCaseRand(id)
		log := zap.NewNop()
		w := &c07Life2{t: t, em: em, ids: &c07SeqIDs{addrs: map[types.Address]int{}, hashes: map[types.Hash256]int{}},
			renewed: map[types.FileContractID]types.FileContractRevision{}}
		w.renterKey, w.hostKey = types.GeneratePrivateKey(), types.GeneratePrivateKey()
		network, genesis := testutil.V1Network()
		w.require = network.HardforkV2.RequireHeight
		node := testutil.NewHostNode(t, w.hostKey, network, genesis, log)
		w.node = node
		s := node.Settings.Settings()
		s.AcceptingContracts = true
		s.NetAddress = "localhost:9983"
		if id%3 == 2 {
			s.BaseRPCPrice = types.NewCurrency64(uint64(1 + rng.Intn(1000)))
		}
		if err := node.Settings.UpdateSettings(s); err != nil {
			t.Fatal(err)
		}
		res := make(chan error)
		if _, err := node.Volumes.AddVolume(context.Background(), filepath.Join(t.TempDir(), "storage.dat"), 32, res); err != nil {
			t.Fatal(err)
		} else if err := <-res; err != nil {
			t.Fatal(err)
		}
		testutil.MineAndSync(t, node, node.Wallet.Address(), int(network.MaturityDelay+5))
		l, err := net.Listen("tcp", "localhost:0")
		if err != nil {
			t.Fatal(err)
		}
		sh := rhp2.NewSessionHandler(l, w.hostKey, node.Chain, node.Syncer, node.Wallet, node.Contracts, node.Settings, node.Volumes, log)
		go sh.Serve()
		w.addr = l.Addr().String()
		w.dial()
		if w.settings, err = rpc2.RPCSettings(w.tr); err != nil {
			t.Fatal(err)
		}
		// the first contract of the chain, with one sector
		fc := crhp2.PrepareContractFormation(w.renterKey.PublicKey(), w.hostKey.PublicKey(), types.Siacoins(uint32(5+rng.Intn(10))), types.Siacoins(uint32(10+rng.Intn(10))), node.Chain.Tip().Height+150+uint64(rng.Intn(20)), w.settings, node.Wallet.Address())
		txn := types.Transaction{FileContracts: []types.FileContract{fc}}
		toSign, err := node.Wallet.FundTransaction(&txn, crhp2.ContractFormationCost(node.Chain.TipState(), fc, w.settings.ContractPrice), true)
		if err != nil {
			t.Fatal(err)
		}
		node.Wallet.SignTransaction(&txn, toSign, wallet.ExplicitCoveredFields(txn))
		formed, _, err := rpc2.RPCFormContract(w.tr, w.renterKey, append(node.Chain.UnconfirmedParents(txn), txn))
		if err != nil {
			t.Fatal(err)
		}
		testutil.MineAndSync(t, node, types.VoidAddress, 1)
		locked, err := rpc2.RPCLock(w.tr, w.renterKey, formed.ID())
		if err != nil {
			t.Fatal(err)
		}
		w.held = formed.ID()
		sector := make([]byte, crhp2.SectorSize)
		sector[0], sector[1] = byte(id), byte(id>>8)
		if err := rpc2.RPCWrite(w.tr, w.renterKey, &locked, []crhp2.RPCWriteAction{{Type: crhp2.RPCWriteActionAppend, Data: sector}}, types.Siacoins(1).Div64(5), types.ZeroCurrency); err != nil {
			t.Fatal("upload:", err)
		}
		w.chain = []types.FileContractID{formed.ID()}

		em.BeginCase(id, "rhp2 sessions through renewals: revise, renew (honest and hostile), revise the successor, revise and renew the predecessors")
		em.Step("XStart "+w.ids.term(w.stored(formed.ID())), "Some (true, "+w.view()+")")
		gens := 2 + rng.Intn(2)
		if id == 0 {
			gens = 3
		}
		for g := 0; g < gens; g++ {
			k := len(w.chain) - 1
			first := w.stored(w.chain[k]) // what the renter holds of contract k at the start of the generation
			w.revise(k, w.stored(w.chain[k]), 1, 2, "honest")
			if id == 0 || rng.Intn(2) == 0 {
				w.revise(k, first, 1+uint64(rng.Intn(2)), 2, "stale") // built on the revision before the last RPC
			}
			if id == 0 || rng.Intn(3) == 0 {
				w.revise(k, w.stored(w.chain[k]), 1, 1, "underpaid")
			}
			if rng.Intn(2) == 0 {
				w.revise(k, w.stored(w.chain[k]), 1+uint64(rng.Intn(5)), 2+uint64(rng.Intn(4)), "honest")
			}
			// hostile renewals: all refused, the contract stays revisable
			var hostile []int
			if id == 0 {
				hostile = [][]int{{c07RenewNoPayment, c07RenewUnequal}, {c07RenewToRenter, c07RenewBadInput}, {c07RenewHostShort, c07RenewUnequal}}[g%3]
			} else if rng.Intn(3) > 0 {
				hostile = []int{1 + rng.Intn(5)}
			}
			for _, v := range hostile {
				w.renew(k, v, rng)
			}
			if len(hostile) > 0 {
				w.revise(k, w.stored(w.chain[k]), 1, 2, "honest")
			}
			held := w.stored(w.chain[k])
			w.renew(k, c07RenewHonest, rng)
			if len(w.chain) != k+2 {
				break
			}
			// same session: it still holds the predecessor, now cleared
			switch probe := (g + id) % 3; probe {
			case 0:
				w.revise(k, held, 1, 2, "predecessor-same-session")
			case 1:
				w.renew(k, c07RenewHonest, rng)
			default:
				w.revise(k, w.stored(w.chain[k]), 1, 2, "predecessor-on-clearing-revision")
			}
			// new sessions: every predecessor of the chain
			for j := 0; j <= k; j++ {
				if j == k || rng.Intn(2) == 0 {
					w.revise(j, held, 1, 2, "predecessor-new-session")
				}
			}
			if rng.Intn(2) == 0 {
				w.renew(rng.Intn(k+1), c07RenewHonest, rng)
			}
			if g%2 == 1 {
				testutil.MineAndSync(t, node, node.Wallet.Address(), 1)
			}
		}
		// the latest contract is revisable
		w.revise(len(w.chain)-1, w.stored(w.chain[len(w.chain)-1]), 1, 2, "honest")
		em.Count(fmt.Sprintf("chain-length:%d", len(w.chain)))
		em.EndCase(w.accepted > 0)
		w.tr.Close()
		sh.Close()
		l.Close()
	}
}
