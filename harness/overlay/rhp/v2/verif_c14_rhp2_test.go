//go:build verif

package rhp_test

import (
	"context"
	"fmt"
	"math/big"
	"math/rand"
	"net"
	"path/filepath"
	"runtime"
	"strings"
	"testing"
	"time"

	rhp2 "go.sia.tech/core/rhp/v2"
	"go.sia.tech/core/types"
	"go.sia.tech/hostd/v2/host/contracts"
	"go.sia.tech/hostd/v2/internal/testutil"
	"go.sia.tech/hostd/v2/rhp"
	rhp2h "go.sia.tech/hostd/v2/rhp/v2"
	"go.uber.org/zap"
)

func c14PanicSite() string {
	pcs := make([]uintptr, 64)
	n := runtime.Callers(3, pcs)
	frames := runtime.CallersFrames(pcs[:n])
	first := ""
	for {
		f, more := frames.Next()
		fn := f.Function
		if fn != "" && !strings.HasPrefix(fn, "runtime.") && !strings.Contains(fn, "verif") && !strings.Contains(fn, "Verif") && !strings.Contains(fn, "c14") && !strings.HasPrefix(fn, "testing.") {
			short := fn
			if i := strings.LastIndex(short, "/"); i >= 0 {
				short = short[i+1:]
			}
			if first == "" {
				first = short
			}
			if strings.Contains(fn, "go.sia.tech/hostd/") {
				return short
			}
		}
		if !more {
			break
		}
	}
	if first == "" {
		return "unknown"
	}
	return first
}

func c14LE(b []byte) *big.Int {
	r := make([]byte, len(b))
	for i := range b {
		r[len(b)-1-i] = b[i]
	}
	return new(big.Int).SetBytes(r)
}

func c14Roots(hs []types.Hash256) string {
	items := make([]string, len(hs))
	for i := range hs {
		items[i] = c14LE(hs[i][:]).String() + "%N"
	}
	return coqList(items)
}

type c14v2 struct {
	t         *testing.T
	node      *testutil.HostNode
	sh        *rhp2h.SessionHandler
	hostKey   types.PrivateKey
	renterKey types.PrivateKey
	cid       types.FileContractID
	base      []types.Hash256
	log       *zap.Logger
}

func newC14v2(t *testing.T) *c14v2 {
	log := zap.NewNop()
	hostKey := types.NewPrivateKeyFromSeed(make([]byte, 32))
	renterKey := types.NewPrivateKeyFromSeed([]byte(strings.Repeat("r", 32)))
	network, genesis := testutil.V1Network()
	node := testutil.NewHostNode(t, hostKey, network, genesis, log)
	s := node.Settings.Settings()
	s.AcceptingContracts = true
	s.BaseRPCPrice = types.NewCurrency64(3)
	s.SectorAccessPrice = types.NewCurrency64(2)
	s.EgressPrice = types.NewCurrency64(1)
	s.IngressPrice = types.NewCurrency64(1)
	s.StoragePrice = types.NewCurrency64(1)
	if err := node.Settings.UpdateSettings(s); err != nil {
		t.Fatal(err)
	}
	res := make(chan error, 1)
	if _, err := node.Volumes.AddVolume(context.Background(), filepath.Join(t.TempDir(), "storage.dat"), 256, res); err != nil {
		t.Fatal(err)
	} else if err := <-res; err != nil {
		t.Fatal(err)
	}
	l, err := net.Listen("tcp", "127.0.0.1:0")
	if err != nil {
		t.Fatal(err)
	}
	t.Cleanup(func() { l.Close() })
	sh := rhp2h.NewSessionHandler(l, hostKey, node.Chain, node.Syncer, node.Wallet, node.Contracts, node.Settings, node.Volumes, log)
	t.Cleanup(func() { sh.Close() })
	h := &c14v2{t: t, node: node, sh: sh, hostKey: hostKey, renterKey: renterKey, log: log}

	// sectors every contract starts with
	for i := 0; i < 4; i++ {
		var sector [rhp2.SectorSize]byte
		sector[0], sector[200] = byte(i+1), 0x33
		root := rhp2.SectorRoot(&sector)
		if err := node.Volumes.Write(root, &sector); err != nil {
			t.Fatal(err)
		}
		h.base = append(h.base, root)
	}
	// a contract that references all of them, so that they are never pruned
	h.newContract(-1, 4)
	return h
}

// newContract stores a fresh revisable contract (the formation transaction is never
// broadcast) holding the first nroots base sectors: every case starts from the same state.
func (h *c14v2) newContract(salt int, nroots int) {
	t, node, hostKey, renterKey := h.t, h.node, h.hostKey, h.renterKey
	height := node.Chain.Tip().Height
	uc := types.UnlockConditions{
		PublicKeys:         []types.UnlockKey{renterKey.PublicKey().UnlockKey(), hostKey.PublicKey().UnlockKey()},
		SignaturesRequired: 2,
	}
	hostAddr := node.Wallet.Address()
	fc := types.FileContract{
		WindowStart: height + 5000, WindowEnd: height + 5010,
		Payout:     types.Siacoins(4002),
		UnlockHash: uc.UnlockHash(),
		ValidProofOutputs: []types.SiacoinOutput{
			{Address: types.Address{9, 1}, Value: types.Siacoins(2000)},
			{Address: hostAddr, Value: types.Siacoins(2000)},
		},
		MissedProofOutputs: []types.SiacoinOutput{
			{Address: types.Address{9, 1}, Value: types.Siacoins(2000)},
			{Address: hostAddr, Value: types.Siacoins(2000)},
			{Address: types.VoidAddress, Value: types.ZeroCurrency},
		},
	}
	txn := types.Transaction{FileContracts: []types.FileContract{fc}, ArbitraryData: [][]byte{[]byte(fmt.Sprint(salt))}}
	rev := types.FileContractRevision{ParentID: txn.FileContractID(0), UnlockConditions: uc, FileContract: fc}
	rev.RevisionNumber = 1
	sigHash := rhp.HashRevision(rev)
	sr := contracts.SignedRevision{Revision: rev, HostSignature: hostKey.SignHash(sigHash), RenterSignature: renterKey.SignHash(sigHash)}
	if err := node.Contracts.AddContract(sr, []types.Transaction{txn}, types.Siacoins(1000), contracts.Usage{}); err != nil {
		t.Fatal(err)
	}
	h.cid = rev.ParentID
	if nroots > 0 {
		u, err := node.Contracts.ReviseContract(h.cid)
		if err != nil {
			t.Fatal(err)
		}
		defer u.Close()
		for i := 0; i < nroots; i++ {
			u.AppendSector(h.base[i])
		}
		rev.RevisionNumber++
		rev.FileMerkleRoot = u.MerkleRoot()
		rev.Filesize = u.SectorCount() * rhp2.SectorSize
		sigHash := rhp.HashRevision(rev)
		sr := contracts.SignedRevision{Revision: rev, HostSignature: hostKey.SignHash(sigHash), RenterSignature: renterKey.SignHash(sigHash)}
		if err := u.Commit(sr, contracts.Usage{}); err != nil {
			t.Fatal(err)
		}
	}
}

// session runs the host side of one RHP2 session (the body of SessionHandler.upgrade) in
// a goroutine that recovers, and the renter side fn in the caller.
func (h *c14v2) session(fn func(rt *rhp2.Transport)) (pan any, site string) {
	cr, ch := net.Pipe()
	done := make(chan struct{})
	go func() {
		defer close(done)
		defer ch.Close()
		t, err := rhp2.NewHostTransport(ch, h.hostKey)
		if err != nil {
			return
		}
		sess := rhp2h.VerifNewSession(t)
		defer t.Close()
		defer func() { // the end of the session releases the lock it holds: that must not crash the host either
			defer func() {
				if r := recover(); r != nil && pan == nil {
					pan, site = r, "v2.SessionHandler.upgrade(session end)"
				}
			}()
			h.sh.VerifEnd(sess)
		}()
		for {
			var err error
			func() {
				defer func() {
					if r := recover(); r != nil {
						pan, site = r, c14PanicSite()
					}
				}()
				err = h.sh.VerifRPCLoop(sess, h.log)
			}()
			if pan != nil || err != nil {
				return
			}
		}
	}()
	rt, err := rhp2.NewRenterTransport(cr, h.hostKey.PublicKey())
	if err != nil {
		h.t.Fatal(err)
	}
	rt.SetDeadline(time.Now().Add(30 * time.Second))
	fn(rt)
	rt.Close()
	cr.Close()
	<-done
	return
}

func (h *c14v2) lock(rt *rhp2.Transport) (types.FileContractRevision, error) {
	req := &rhp2.RPCLockRequest{ContractID: h.cid, Signature: rt.SignChallenge(h.renterKey), Timeout: 30000}
	var resp rhp2.RPCLockResponse
	if err := rt.Call(rhp2.RPCLockID, req, &resp); err != nil {
		return types.FileContractRevision{}, err
	}
	rt.SetChallenge(resp.NewChallenge)
	return resp.Revision, nil
}

// pay builds the revised output values that move cost from the renter to the host (and
// collateral from the host's missed output to the void), the way a well-behaved renter does.
func c14Pay(cur types.FileContractRevision, cost, collateral types.Currency) (rev types.FileContractRevision, valid, missed []types.Currency) {
	rev = cur
	rev.RevisionNumber++
	rev.ValidProofOutputs = append([]types.SiacoinOutput(nil), cur.ValidProofOutputs...)
	rev.MissedProofOutputs = append([]types.SiacoinOutput(nil), cur.MissedProofOutputs...)
	rev.ValidProofOutputs[0].Value = rev.ValidProofOutputs[0].Value.Sub(cost)
	rev.ValidProofOutputs[1].Value = rev.ValidProofOutputs[1].Value.Add(cost)
	rev.MissedProofOutputs[0].Value = rev.MissedProofOutputs[0].Value.Sub(cost)
	rev.MissedProofOutputs[1].Value = rev.MissedProofOutputs[1].Value.Sub(collateral)
	rev.MissedProofOutputs[2].Value = rev.MissedProofOutputs[2].Value.Add(cost).Add(collateral)
	for _, o := range rev.ValidProofOutputs {
		valid = append(valid, o.Value)
	}
	for _, o := range rev.MissedProofOutputs {
		missed = append(missed, o.Value)
	}
	return
}

func c14Off(rng *rand.Rand, n uint64) uint64 {
	switch rng.Intn(12) {
	case 0, 1, 2:
		return uint64(rng.Intn(int(n) + 2))
	case 3:
		return n - 1 + uint64(rng.Intn(3))
	case 4:
		return 1<<63 - 2 + uint64(rng.Intn(5))
	case 5, 6:
		return ^uint64(0) - uint64(rng.Intn(4))
	case 7:
		return ^uint64(0) - n + uint64(rng.Intn(3))
	case 8:
		return 0
	default:
		return uint64(rng.Intn(4))
	}
}

// c14Sec draws an offset or length inside / around a sector
func c14Sec(rng *rand.Rand) uint64 {
	const ss = rhp2.SectorSize
	switch rng.Intn(14) {
	case 0, 1, 2:
		return 64 * uint64(rng.Intn(6))
	case 3:
		return uint64(rng.Intn(300))
	case 4:
		return ss - 64*uint64(rng.Intn(3))
	case 5:
		return ss - 1 + uint64(rng.Intn(3))
	case 6, 7:
		return ^uint64(0) - 64*uint64(rng.Intn(3)) + 1 - 64
	case 8:
		return ^uint64(0) - uint64(rng.Intn(70))
	case 9:
		return 1 << 63
	case 10:
		return 64 * uint64(1+rng.Intn(4))
	default:
		return 64 * uint64(rng.Intn(ss/64))
	}
}

// TestVerifC14RHP2 drives rpcSectorRoots, rpcRead, rpcWrite, rpcFormContract and
// rpcRenewAndClearContract through real sessions (rpcLoop over an in-memory connection)
// with hostile ranges, indices, lengths and keys, and records every RPC for MDM/Rpc.v.
func TestVerifC14RHP2(t *testing.T) {
	em := newVerifEmitter(t, "From HostdBase Require Import Base.\nFrom HostdMDM Require Import Model Rpc.", "rcase", "check_rpc")
	defer em.Close()
	h := newC14v2(t)
	settings, err := h.node.Settings.RHP2Settings()
	if err != nil {
		t.Fatal(err)
	}

	state := func() (contracts.Contract, []types.Hash256) {
		c, err := h.node.Contracts.Contract(h.cid)
		if err != nil {
			t.Fatal(err)
		}
		return c, h.node.Contracts.SectorRoots(h.cid)
	}
	sectors := map[types.Hash256][]byte{} // what the renter uploaded
	newSector := func(rng *rand.Rand) []byte { // from a small pool, so that the volume never fills up
		b := make([]byte, rhp2.SectorSize)
		b[0], b[1], b[500] = byte(rng.Intn(16)), 0x77, 0x99
		return b
	}
	safeCost := func(f func() (rhp2.RPCCost, error)) (c rhp2.RPCCost, err error) {
		defer func() {
			if r := recover(); r != nil {
				err = fmt.Errorf("cost function panicked: %v", r)
			}
		}()
		return f()
	}

	n := verifN(300)
	for id := 0; id < n; id++ {
		if em.Skip(id) {
			continue
		}
		rng := verifCaseRand(id)
		nr := []int{3, 3, 3, 2, 4, 1, 0}[rng.Intn(7)]
		if id < 14 {
			nr = 3
		}
		h.newContract(id, nr)
		before, roots := state()
		nsec := uint64(len(roots))
		kind := rng.Intn(10)
		if id == 13 {
			kind = 100 // an append, after a refused Lock (below)
		}
		if id < 13 {
			// directed: append, update+proof, empty roots range, wrapping roots range, full
			// roots range, wrapping read section, last leaf, zero-length renter key, renewal
			// with maximal filesize and window end; 109-112: a fully paid update action without
			// proof whose offset+length wraps modulo 2^64 (two sizes), ends exactly at the sector
			// end, and is empty at the sector end
			kind = 100 + id
		}
		em.BeginCase(id, fmt.Sprintf("rhp2 session, kind %d, contract has %d sectors", kind, nsec))
		em.Step(fmt.Sprintf("RSetContract %d %s", before.Revision.RevisionNumber, c14Roots(roots)), "RDone")
		// a session whose Lock request carries a wrong challenge signature: refused, nothing stays
		// locked, the host survives the end of that session; the case's own session follows
		if id == 13 || (id > 13 && rng.Intn(6) == 0) {
			var lerr error
			lpan, lsite := h.session(func(rt *rhp2.Transport) {
				sig := rt.SignChallenge(h.renterKey)
				sig[5] ^= 0x40
				req := &rhp2.RPCLockRequest{ContractID: h.cid, Signature: sig, Timeout: 1000}
				var resp rhp2.RPCLockResponse
				lerr = rt.Call(rhp2.RPCLockID, req, &resp)
			})
			em.Count("lock:bad-challenge")
			if lpan != nil {
				em.Monitor("panic-"+lsite, fmt.Sprintf("Lock with a wrong challenge signature: %v", lpan))
			} else if lerr == nil {
				em.Monitor("lock-granted-for-wrong-challenge-signature", "")
			}
		}

		var op, resTerm string
		readAbsent := false // a read names a sector the host does not have
		rejected := false
		nontrivial := false
		var pan any
		var site string

		readable := func(r types.Hash256) bool { _, err := h.node.Volumes.ReadSector(r); return err == nil }

		switch {
		// ------------------------------------------------------------ SectorRoots
		case kind == 0 || kind == 1 || kind == 102 || kind == 103 || kind == 104:
			off, num := c14Off(rng, nsec), c14Off(rng, nsec)
			if rng.Intn(3) == 0 && nsec > 0 { // valid range
				off = uint64(rng.Intn(int(nsec)))
				num = 1 + uint64(rng.Intn(int(nsec-off)))
			}
			switch kind {
			case 102:
				off, num = 1, 0
			case 103:
				off, num = ^uint64(0), 2
			case 104:
				off, num = 0, nsec
			}
			cost, _ := safeCost(func() (rhp2.RPCCost, error) { return settings.RPCSectorRootsCost(off, num), nil })
			total, _ := cost.Total()
			payOk := true
			switch rng.Intn(6) {
			case 0:
				if !total.IsZero() {
					total = total.Sub(types.NewCurrency64(1))
					payOk = false
				}
			case 1:
				total = total.Add(types.NewCurrency64(uint64(rng.Intn(5))))
			}
			op = fmt.Sprintf("RSectorRoots {| srOff := %d; srNum := %d; srSectors := %d; srPayOk := %s |}", off, num, before.Revision.Filesize/rhp2.SectorSize, coqBool(payOk))
			var got []types.Hash256
			var rerr error
			pan, site = h.session(func(rt *rhp2.Transport) {
				cur, err := h.lock(rt)
				if err != nil {
					t.Fatal(err)
				}
				rev, valid, missed := c14Pay(cur, total, types.ZeroCurrency)
				req := &rhp2.RPCSectorRootsRequest{RootOffset: off, NumRoots: num, RevisionNumber: rev.RevisionNumber,
					ValidProofValues: valid, MissedProofValues: missed, Signature: h.renterKey.SignHash(rhp.HashRevision(rev))}
				if rerr = rt.WriteRequest(rhp2.RPCSectorRootsID, req); rerr != nil {
					return
				}
				var resp rhp2.RPCSectorRootsResponse
				if rerr = rt.ReadResponse(&resp, 1<<20); rerr == nil {
					got = resp.SectorRoots
				}
			})
			if rerr == nil {
				resTerm = fmt.Sprintf("(Ok [%d%%N])", len(got))
				nontrivial = true
				em.Count("sectorroots:ok")
			} else {
				resTerm, rejected = "(Err EInvalid)", true
				em.Count("sectorroots:err")
			}
		// ------------------------------------------------------------ Read
		case kind == 2 || kind == 3 || kind == 4 || kind == 105 || kind == 106:
			proof := rng.Intn(2) == 0
			nsecs := 1 + rng.Intn(3)
			var secs []rhp2.RPCReadRequestSection
			var terms []string
			for k := 0; k < nsecs; k++ {
				var root types.Hash256
				switch {
				case nsec > 0 && rng.Intn(5) > 0:
					root = roots[rng.Intn(int(nsec))]
				default:
					rng.Read(root[:])
				}
				o, l := c14Sec(rng), c14Sec(rng)
				if rng.Intn(2) == 0 { // a valid section
					o = 64 * uint64(rng.Intn(8))
					l = 64 * uint64(1+rng.Intn(4))
				}
				if kind == 105 {
					o, l, proof = ^uint64(0)-63, 128, true
					if nsec > 0 {
						root = roots[0]
					}
				} else if kind == 106 {
					o, l = rhp2.SectorSize-64, 64
				}
				secs = append(secs, rhp2.RPCReadRequestSection{MerkleRoot: root, Offset: o, Length: l})
				present := readable(root)
				readAbsent = readAbsent || !present
				terms = append(terms, fmt.Sprintf("{| scPresent := %s; scOff := %d; scLen := %d |}", coqBool(present), o, l))
			}
			cost, cerr := safeCost(func() (rhp2.RPCCost, error) { return settings.RPCReadCost(secs, proof) })
			total, _ := cost.Total()
			payOk := cerr == nil
			if payOk && rng.Intn(6) == 0 && !total.IsZero() {
				total = total.Sub(types.NewCurrency64(1))
				payOk = false
			}
			op = fmt.Sprintf("RRead {| rdSections := %s; rdProof := %s; rdPayOk := %s |}", coqList(terms), coqBool(proof), coqBool(payOk))
			var lens []string
			var rerr error
			pan, site = h.session(func(rt *rhp2.Transport) {
				cur, err := h.lock(rt)
				if err != nil {
					t.Fatal(err)
				}
				rev, valid, missed := c14Pay(cur, total, types.ZeroCurrency)
				req := &rhp2.RPCReadRequest{Sections: secs, MerkleProof: proof, RevisionNumber: rev.RevisionNumber,
					ValidProofValues: valid, MissedProofValues: missed, Signature: h.renterKey.SignHash(rhp.HashRevision(rev))}
				if rerr = rt.WriteRequest(rhp2.RPCReadID, req); rerr != nil {
					return
				}
				for range secs {
					var resp rhp2.RPCReadResponse
					if rerr = rt.ReadResponse(&resp, 5<<20); rerr != nil {
						return
					}
					lens = append(lens, fmt.Sprintf("%d%%N", len(resp.Data)))
				}
				rt.WriteResponse(&rhp2.RPCReadStop)
			})
			if rerr == nil {
				resTerm = "(Ok " + coqList(lens) + ")"
				nontrivial = true
				em.Count("read:ok")
			} else {
				resTerm, rejected = "(Err EInvalid)", true
				em.Count("read:err")
			}
		// ------------------------------------------------------------ FormContract renter key
		case kind == 5 || kind == 107:
			alg := types.SpecifierEd25519
			if rng.Intn(4) == 0 {
				alg = types.NewSpecifier("entropy")
			}
			klen := []int{0, 1, 16, 31, 32, 33, 64}[rng.Intn(7)]
			if kind == 107 {
				alg, klen = types.SpecifierEd25519, 0
			}
			key := make([]byte, klen)
			rng.Read(key)
			op = fmt.Sprintf("RFormKey %s %d", coqBool(alg == types.SpecifierEd25519), klen)
			var rerr error
			pan, site = h.session(func(rt *rhp2.Transport) {
				fc := types.FileContract{WindowStart: 100, WindowEnd: 200,
					ValidProofOutputs:  []types.SiacoinOutput{{}, {}},
					MissedProofOutputs: []types.SiacoinOutput{{}, {}, {}}}
				req := &rhp2.RPCFormContractRequest{Transactions: []types.Transaction{{FileContracts: []types.FileContract{fc}}},
					RenterKey: types.UnlockKey{Algorithm: alg, Key: key}}
				if rerr = rt.WriteRequest(rhp2.RPCFormContractID, req); rerr != nil {
					return
				}
				var resp rhp2.RPCFormContractAdditions
				rerr = rt.ReadResponse(&resp, 1<<20)
			})
			if rerr != nil && strings.Contains(rerr.Error(), "renter key") {
				resTerm, rejected = "(Err EInvalid)", true
				em.Count("formkey:err")
			} else {
				resTerm = "(Ok [])" // the key was accepted (the junk contract is rejected later)
				rejected = rerr != nil
				em.Count("formkey:ok")
			}
		// ------------------------------------------------------------ RenewAndClear base costs
		case kind == 6 || kind == 108:
			fs := []uint64{0, before.Revision.Filesize, 1 << 40, 1 << 63, ^uint64(0)}[rng.Intn(5)]
			we := []uint64{0, before.Revision.WindowEnd, before.Revision.WindowEnd + 1, before.Revision.WindowEnd + 1000, 1 << 62, ^uint64(0)}[rng.Intn(6)]
			if kind == 108 {
				fs, we = ^uint64(0), ^uint64(0)
			}
			op = fmt.Sprintf("RRenewCosts %s %s %s %d %d %d", settings.ContractPrice.Big(), settings.StoragePrice.Big(), settings.Collateral.Big(), fs, before.Revision.WindowEnd, we)
			var rerr error
			pan, site = h.session(func(rt *rhp2.Transport) {
				cur, err := h.lock(rt)
				if err != nil {
					t.Fatal(err)
				}
				// the clearing revision pays the base RPC price
				pay := settings.BaseRPCPrice
				fvals := []types.Currency{cur.ValidProofOutputs[0].Value.Sub(pay), cur.ValidProofOutputs[1].Value.Add(pay)}
				fc := types.FileContract{Filesize: fs, FileMerkleRoot: cur.FileMerkleRoot, WindowStart: 10, WindowEnd: we,
					ValidProofOutputs:  []types.SiacoinOutput{{}, {}},
					MissedProofOutputs: []types.SiacoinOutput{{}, {}, {}}}
				req := &rhp2.RPCRenewAndClearContractRequest{Transactions: []types.Transaction{{FileContracts: []types.FileContract{fc}}},
					RenterKey: h.renterKey.PublicKey().UnlockKey(), FinalValidProofValues: fvals, FinalMissedProofValues: fvals}
				if rerr = rt.WriteRequest(rhp2.RPCRenewClearContractID, req); rerr != nil {
					return
				}
				var resp rhp2.RPCFormContractAdditions
				rerr = rt.ReadResponse(&resp, 1<<20)
			})
			if rerr != nil && strings.Contains(rerr.Error(), "costs overflow") {
				resTerm, rejected = "(Err EInvalid)", true
				em.Count("renewcosts:overflow")
			} else {
				resTerm = "(Ok [])" // the costs were computed (the junk renewal is rejected later)
				rejected = rerr != nil
				em.Count("renewcosts:computed")
			}
		// ------------------------------------------------------------ Write
		default:
			proof := rng.Intn(2) == 0
			nact := 1 + rng.Intn(3)
			if kind == 100 || kind >= 109 {
				nact = 1
			}
			var acts []rhp2.RPCWriteAction
			type meta struct {
				kind    string
				present bool
				idx     uint64
				newRoot types.Hash256
			}
			var metas []meta
			cur := uint64(nsec) // expected sectors as the actions are applied
			appends := 0
			for k := 0; k < nact; k++ {
				r := rng.Intn(10)
				switch {
				case kind == 100:
					r = 0
				case kind == 101:
					r = 8
					proof = true
				case kind >= 109:
					r = 8
					proof = false
				}
				switch {
				case r < 2 && appends == 0: // append (at most one 4 MiB payload per request)
					data := newSector(rng)
					if rng.Intn(6) == 0 && kind != 100 {
						data = data[:rng.Intn(200)]
					}
					acts = append(acts, rhp2.RPCWriteAction{Type: rhp2.RPCWriteActionAppend, Data: data})
					metas = append(metas, meta{kind: "append"})
					appends++
					cur++
				case r < 4: // trim
					a := c14Off(rng, cur)
					if rng.Intn(2) == 0 {
						a = uint64(rng.Intn(2))
					}
					acts = append(acts, rhp2.RPCWriteAction{Type: rhp2.RPCWriteActionTrim, A: a})
					metas = append(metas, meta{kind: "trim"})
					if a <= cur {
						cur -= a
					}
				case r < 7: // swap
					a, b := c14Off(rng, cur), c14Off(rng, cur)
					if rng.Intn(2) == 0 && cur > 0 {
						a, b = uint64(rng.Intn(int(cur))), uint64(rng.Intn(int(cur)))
					}
					acts = append(acts, rhp2.RPCWriteAction{Type: rhp2.RPCWriteActionSwap, A: a, B: b})
					metas = append(metas, meta{kind: "swap"})
				case r < 9: // update
					idx, off := c14Off(rng, cur), c14Sec(rng)
					dl := 64 * rng.Intn(3)
					if rng.Intn(5) == 0 {
						dl = rng.Intn(100)
					}
					if rng.Intn(2) == 0 && cur > 0 {
						idx, off = uint64(rng.Intn(int(cur))), 64*uint64(rng.Intn(8))
					}
					switch kind {
					case 101:
						idx, off, dl = 0, 0, 64
					case 109:
						idx, off, dl = 0, ^uint64(0)-63, 64
					case 110:
						idx, off, dl = 1, ^uint64(0)-127, 128
					case 111:
						idx, off, dl = 0, rhp2.SectorSize-64, 64
					case 112:
						idx, off, dl = 2, rhp2.SectorSize, 0
					}
					data := make([]byte, dl)
					rng.Read(data)
					acts = append(acts, rhp2.RPCWriteAction{Type: rhp2.RPCWriteActionUpdate, A: idx, B: off, Data: data})
					metas = append(metas, meta{kind: "update", idx: idx})
				default:
					acts = append(acts, rhp2.RPCWriteAction{Type: types.NewSpecifier("Bogus"), A: uint64(rng.Intn(3))})
					metas = append(metas, meta{kind: "unknown"})
				}
			}
			remaining := before.Revision.WindowEnd - h.node.Chain.Tip().Height
			cost, cerr := safeCost(func() (rhp2.RPCCost, error) {
				return settings.RPCWriteCost(acts, before.Revision.Filesize/rhp2.SectorSize, remaining, proof)
			})
			total, coll := cost.Total()
			payOk := cerr == nil
			if payOk && rng.Intn(8) == 0 && !total.IsZero() && kind < 100 {
				total = total.Sub(types.NewCurrency64(1))
				payOk = false
			}
			sigOk := rng.Intn(8) != 0 || kind >= 100
			// which sector an update reads is known only while the actions are applied: follow them
			sim := append([]types.Hash256(nil), roots...)
			for k, a := range acts {
				switch metas[k].kind {
				case "append":
					if len(a.Data) == rhp2.SectorSize {
						sim = append(sim, rhp2.SectorRoot((*[rhp2.SectorSize]byte)(a.Data)))
					}
				case "trim":
					if a.A <= uint64(len(sim)) {
						sim = sim[:uint64(len(sim))-a.A]
					}
				case "swap":
					if a.A < uint64(len(sim)) && a.B < uint64(len(sim)) {
						sim[a.A], sim[a.B] = sim[a.B], sim[a.A]
					}
				case "update":
					if a.A < uint64(len(sim)) {
						// the host patches what it reads under the current root and installs the
						// root of the result (which it stores under the OLD root, so the new one
						// is readable only if it existed before)
						sector, err := h.node.Volumes.ReadSector(sim[a.A])
						metas[k].present = err == nil
						if err == nil && a.B <= rhp2.SectorSize && uint64(len(a.Data)) <= rhp2.SectorSize-a.B {
							updated := *sector
							copy(updated[a.B:], a.Data)
							metas[k].newRoot = rhp2.SectorRoot(&updated)
							sim[a.A] = metas[k].newRoot
						}
					}
				}
			}
			var rerr error
			var newRoot types.Hash256
			stage := ""
			pan, site = h.session(func(rt *rhp2.Transport) {
				curRev, err := h.lock(rt)
				if err != nil {
					t.Fatal(err)
				}
				rev, valid, missed := c14Pay(curRev, total, coll)
				req := &rhp2.RPCWriteRequest{Actions: acts, MerkleProof: proof, RevisionNumber: rev.RevisionNumber, ValidProofValues: valid, MissedProofValues: missed}
				if rerr = rt.WriteRequest(rhp2.RPCWriteID, req); rerr != nil {
					return
				}
				var mp rhp2.RPCWriteMerkleProof
				if rerr = rt.ReadResponse(&mp, 1<<20); rerr != nil {
					stage = "actions"
					return
				}
				newRoot = mp.NewMerkleRoot
				rev.FileMerkleRoot = mp.NewMerkleRoot
				size := curRev.Filesize
				for k, a := range acts {
					switch metas[k].kind {
					case "append":
						size += rhp2.SectorSize
					case "trim":
						size -= rhp2.SectorSize * a.A
					}
				}
				rev.Filesize = size
				sig := h.renterKey.SignHash(rhp.HashRevision(rev))
				if !sigOk {
					sig[3] ^= 0x55
				}
				if rerr = rt.WriteResponse(&rhp2.RPCWriteResponse{Signature: sig}); rerr != nil {
					return
				}
				var hs rhp2.RPCWriteResponse
				rerr = rt.ReadResponse(&hs, 4096)
				stage = "signature"
			})
			_ = newRoot
			var terms []string
			for k, a := range acts {
				switch metas[k].kind {
				case "append":
					root := "0"
					if len(a.Data) == rhp2.SectorSize {
						r := rhp2.SectorRoot((*[rhp2.SectorSize]byte)(a.Data))
						root = c14LE(r[:]).String()
						if rerr == nil {
							sectors[r] = a.Data
						}
					}
					terms = append(terms, fmt.Sprintf("WAppend %d %s", len(a.Data), root))
				case "trim":
					terms = append(terms, fmt.Sprintf("WTrim %d", a.A))
				case "swap":
					terms = append(terms, fmt.Sprintf("WSwap %d %d", a.A, a.B))
				case "update":
					nr := c14LE(metas[k].newRoot[:]).String()
					terms = append(terms, fmt.Sprintf("WUpdate %d %d %d %s %s", a.A, a.B, len(a.Data), coqBool(metas[k].present), nr))
				default:
					terms = append(terms, "WUnknown")
				}
			}
			// the store refuses roots whose sector was never stored (what an update produces)
			commitOk := !(rerr != nil && stage == "signature" && sigOk)
			op = fmt.Sprintf("RWrite {| wrActions := %s; wrProof := %s; wrSectors := %d; wrPayOk := %s; wrSigOk := %s; wrCommitOk := %s |}",
				coqList(terms), coqBool(proof), before.Revision.Filesize/rhp2.SectorSize, coqBool(payOk), coqBool(sigOk), coqBool(commitOk))
			if !commitOk {
				em.Count("write:commit-refused")
			}
			if rerr == nil {
				resTerm = "(Ok [])"
				nontrivial = true
				em.Count("write:ok")
			} else {
				resTerm, rejected = "(Err EInvalid)", true
				em.Count("write:err:" + stage)
			}
		}

		after, rootsAfter := state()
		if pan != nil {
			em.Monitor("panic-"+site, fmt.Sprintf("%s: %v", op, pan))
			resTerm = "Panic"
		} else if rejected {
			// property monitor: a rejected RPC leaves revision and sector list as they were,
			// except a read that was paid for and then named a sector the host does not have
			changed := after.Revision.RevisionNumber != before.Revision.RevisionNumber || fmt.Sprint(rootsAfter) != fmt.Sprint(roots)
			if changed && !(strings.HasPrefix(op, "RRead") && readAbsent) {
				em.Monitor("rejected-rpc-changed-contract", fmt.Sprintf("%s: revision %d -> %d", op, before.Revision.RevisionNumber, after.Revision.RevisionNumber))
			}
		}
		if op != "" {
			em.Step(op, fmt.Sprintf("RRes %s %d %s", resTerm, after.Revision.RevisionNumber, c14Roots(rootsAfter)))
		}
		em.EndCase(nontrivial)
	}
}
