//go:build verif

package sqlite

// C09, process death for real.  TestVerifC09Kill re-executes the test binary as a child
// process (TestVerifC09KillChild) that opens a real sqlite.Store on a copy of a populated
// database and runs a seeded script of exported Store operations; the child parks inside the
// database call the parent chose (before the call reaches SQLite, or after SQLite returned
// and before database/sql sees the reply — verif_c09_kill_driver_test.go) and is killed with
// SIGKILL.  The parent reopens the files the dead process left behind (database, -wal, -shm)
// with the ordinary OpenDatabase and checks, against a twin that ran the same script
// in-process and recorded the state S_i after every operation:
//
//   - an operation that is one transaction is visible completely (S_{i+1}) if its Commit had
//     returned inside SQLite, and not at all (S_i) otherwise;
//   - what a death before call k leaves equals what a hard failure of call k leaves on a twin
//     (the equation behind Model.die / Death.die_is_failed_call);
//   - multi-transaction operations leave a consistent intermediate state (integrity, foreign
//     keys, recounted aggregates);
//   - running the interrupted operation again (unless it is already visible) and the rest of
//     the script ends in the twin's final state;
//   - a host started on the directory has caches that agree with the database.
//
// Every kill is recorded as `Kill m ref class k after` -> `OKill trace changed` and evaluated
// by Txn/Model.v (die).  The node-level part (chain batches, reorganised chain, volume
// operations) is in verif_c09_kill_node_test.go.

import (
	"bufio"
	"bytes"
	"encoding/json"
	"fmt"
	"math/rand"
	"os"
	"os/exec"
	"path/filepath"
	"sort"
	"strings"
	"sync"
	"syscall"
	"testing"
	"time"
)

const verifKillEnv = "VERIF_C09_KILL_CHILD"

// what the parent tells the child
type verifKillSpec struct {
	Dir     string
	TplSeed int64
	NRoots  int
	Script  []int // indices into verifStoreOps (store mode) / the node script (node mode)
	Pos     int   // position in Script of the operation to die in; -1: run to the end
	K       int   // database call of that operation
	After   bool
	Extra   map[string]string
}

// what the parent learned from the pipe
type verifKillOutcome struct {
	acks    []int    // result class of every acknowledged operation
	traces  []string // its driver trace
	started int      // position of the last operation that was started
	killed  bool
	idx     int
	phase   string
	trace   string // driver trace of the operation in flight up to the death
	note    string
	done    bool
	stderr  string
	err     error
}

// verifKillRun starts the child, follows its progress and kills it where it parks.
func verifKillRun(mode string, spec verifKillSpec) (o verifKillOutcome) {
	o.started = -1
	r, w, err := os.Pipe()
	if err != nil {
		o.err = err
		return
	}
	js, _ := json.Marshal(spec)
	cmd := exec.Command(os.Args[0], "-test.run", "^TestVerifC09KillChild$", "-test.timeout", "300s", "-test.count", "1")
	cmd.Env = append(os.Environ(), verifKillEnv+"="+mode, "VERIF_C09_KILL_SPEC="+string(js))
	cmd.ExtraFiles = []*os.File{w}
	var errb bytes.Buffer
	cmd.Stdout, cmd.Stderr = &errb, &errb
	if err := cmd.Start(); err != nil {
		o.err = err
		r.Close()
		w.Close()
		return
	}
	w.Close()
	lines := make(chan string, 64)
	go func() {
		sc := bufio.NewScanner(r)
		sc.Buffer(make([]byte, 1<<20), 1<<24)
		for sc.Scan() {
			lines <- sc.Text()
		}
		close(lines)
	}()
	watchdog := time.After(4 * time.Minute)
loop:
	for {
		select {
		case l, ok := <-lines:
			if !ok {
				break loop
			}
			f := strings.SplitN(l, " ", 5)
			switch f[0] {
			case "S":
				fmt.Sscan(f[1], &o.started)
			case "A":
				var pos, class int
				fmt.Sscan(f[1], &pos)
				fmt.Sscan(f[2], &class)
				o.acks = append(o.acks, class)
				o.traces = append(o.traces, strings.Trim(f[3], "[]"))
			case "K":
				fmt.Sscan(f[1], &o.idx)
				o.phase = f[2]
				o.trace = strings.Trim(f[3], "[]")
				if len(f) > 4 {
					o.note = f[4]
				}
				o.killed = true
				// the child is parked inside the database call: this is the death
				cmd.Process.Signal(syscall.SIGKILL)
				break loop
			case "D":
				o.done = true
			}
		case <-watchdog:
			cmd.Process.Signal(syscall.SIGKILL)
			o.err = fmt.Errorf("child made no progress for 4 minutes")
			break loop
		}
	}
	cmd.Wait()
	r.Close()
	o.stderr = errb.String()
	if !o.killed && !o.done && o.err == nil {
		o.err = fmt.Errorf("child exited without reaching the kill point or the end of its script: %s", verifTail(o.stderr, 1500))
	}
	return
}

func verifTail(s string, n int) string {
	if len(s) > n {
		return "..." + s[len(s)-n:]
	}
	return s
}

func verifKillSpecFromEnv(t *testing.T) verifKillSpec {
	var spec verifKillSpec
	if err := json.Unmarshal([]byte(os.Getenv("VERIF_C09_KILL_SPEC")), &spec); err != nil {
		t.Fatal("bad spec:", err)
	}
	return spec
}

// TestVerifC09KillChild is the process that dies.  It only runs when started by the parent.
func TestVerifC09KillChild(t *testing.T) {
	mode := os.Getenv(verifKillEnv)
	if mode == "" {
		t.Skip("only runs as a child process of TestVerifC09Kill")
	}
	out := os.NewFile(3, "progress")
	spec := verifKillSpecFromEnv(t)
	switch mode {
	case "store":
		verifKillChildStore(t, out, spec)
	default:
		verifKillChildNode(t, out, spec, mode)
	}
}

// verifKillEnvOps rebuilds the description of the populated pre-state (ids, keys) and the
// operations drawn for it: both are functions of the seed alone.
func verifKillEnvOps(t testing.TB, scratch string, tplSeed int64, nRoots int, keep string) (*verifEnv, []verifOp) {
	s, err := OpenDatabase(scratch, verifNopLog())
	if err != nil {
		t.Fatal(err)
	}
	env := verifPopulate(t, s, rand.New(rand.NewSource(tplSeed)), nRoots)
	if err := s.Close(); err != nil {
		t.Fatal(err)
	}
	if keep == "" {
		os.Remove(scratch)
	}
	return env, verifStoreOps(env, rand.New(rand.NewSource(tplSeed+1)))
}

func verifKillChildStore(t *testing.T, out *os.File, spec verifKillSpec) {
	_, ops := verifKillEnvOps(t, filepath.Join(spec.Dir, "scratch.db"), spec.TplSeed, spec.NRoots, "")
	kill := &verifKillCtl{out: out}
	s, ctl, err := verifOpenKillStore(filepath.Join(spec.Dir, "hostd.sqlite3"), verifNopLog(), kill)
	if err != nil {
		t.Fatal(err)
	}
	for pos, oi := range spec.Script {
		fmt.Fprintf(out, "S %d\n", pos)
		kill.begin(pos == spec.Pos, spec.K, spec.After)
		class, _, trace, _ := verifCall(ops[oi], s, ctl, -1, verifFaultNone, false)
		kill.end()
		fmt.Fprintf(out, "A %d %d [%s]\n", pos, class, trace)
	}
	s.Close()
	fmt.Fprintln(out, "D")
}

// a kill point of a script
type verifKillPoint struct {
	pos, k int
	after  bool
}

// verifKillPoints: every (operation, call, phase) of a script, the interesting ones (around
// Begin and Commit) first.
func verifKillPoints(refs []string) (all []verifKillPoint, hot []verifKillPoint) {
	for pos, ref := range refs {
		k := 0
		for _, c := range ref {
			if !strings.ContainsRune("BPXC", c) {
				continue
			}
			for _, after := range []bool{false, true} {
				p := verifKillPoint{pos, k, after}
				all = append(all, p)
				if c == 'C' || (c == 'B' && !after) {
					hot = append(hot, p)
				}
			}
			k++
		}
	}
	return
}

func TestVerifC09Kill(t *testing.T) {
	if os.Getenv(verifKillEnv) != "" {
		t.Skip("child process")
	}
	em := newVerifEmitter(t, "From HostdBase Require Import Base.\nFrom Coq Require Import String.\nFrom HostdTxn Require Import Volume Model.\nOpen Scope string_scope.", "case", "check")
	defer em.Close()
	log := verifNopLog()
	dir := t.TempDir()
	budget := verifN(40) // kills at store level
	thorough := verifTier() == "thorough"
	const scriptLen = 5
	perScript := 8
	tplSeed := verifSeed()*15485863 + 11
	trng := rand.New(rand.NewSource(tplSeed))
	nRoots := 3 + trng.Intn(3)
	tplPath := filepath.Join(dir, "tpl.db")
	env, ops := verifKillEnvOps(t, tplPath, tplSeed, nRoots, "keep")
	cm, _ := verifNewChain(t, true)
	perm := rand.New(rand.NewSource(tplSeed + 2)).Perm(len(ops))
	caseID := 0
	kills := 0
	for sc := 0; sc*scriptLen < len(perm) && kills < budget; sc++ {
		id := caseID
		caseID++
		if em.Skip(id) {
			continue
		}
		rng := verifCaseRand(id)
		script := perm[sc*scriptLen : min((sc+1)*scriptLen, len(perm))]
		var names []string
		for _, oi := range script {
			names = append(names, ops[oi].method+"/"+ops[oi].variant)
		}
		em.BeginCase(id, fmt.Sprintf("kill script %d: %s", sc, strings.Join(names, ", ")))
		// ---- the twin: the same script in-process, state after every operation
		twinPath := filepath.Join(dir, fmt.Sprintf("twin%d.db", sc))
		verifCopyFile(t, tplPath, twinPath)
		ts, tctl, err := verifOpenFaultStore(twinPath, log)
		if err != nil {
			t.Fatal(err)
		}
		states := []verifSnap{verifSnapshot(t, ts, twinPath, env, true)}
		// the recounted aggregates of the twin (a script may call the store with arguments
		// that were drawn for the template, e.g. the sector list of a contract an earlier
		// operation renewed: what the twin shows is the baseline)
		invs := []string{verifInvariants(t, twinPath)}
		var refs []string
		var classes []int
		for _, oi := range script {
			class, _, ref, _ := verifCall(ops[oi], ts, tctl, -1, verifFaultNone, false)
			refs = append(refs, ref)
			classes = append(classes, class)
			st := verifSnapshot(t, ts, twinPath, env, true)
			em.Step(fmt.Sprintf("Call \"%s\" \"%s\" %d%%N None", ops[oi].method, ref, class),
				fmt.Sprintf("OCall %d%%N \"%s\" %s", class, ref, coqBool(states[len(states)-1].diff(st) != "")))
			states = append(states, st)
			invs = append(invs, verifInvariants(t, twinPath))
		}
		ts.Close()
		final := states[len(states)-1]
		// ---- the kill points of this script
		all, hot := verifKillPoints(refs)
		var points []verifKillPoint
		if thorough {
			points = all
			if len(points) > budget-kills {
				rng.Shuffle(len(points), func(i, j int) { points[i], points[j] = points[j], points[i] })
				points = points[:budget-kills]
			}
		} else {
			seen := map[verifKillPoint]bool{}
			for len(points) < perScript && len(points) < len(all) && len(points) < budget-kills {
				var p verifKillPoint
				if len(hot) > 0 && rng.Intn(2) == 0 {
					p = hot[rng.Intn(len(hot))]
				} else {
					p = all[rng.Intn(len(all))]
				}
				if !seen[p] {
					seen[p] = true
					points = append(points, p)
				}
			}
		}
		sort.Slice(points, func(i, j int) bool {
			a, b := points[i], points[j]
			if a.pos != b.pos {
				return a.pos < b.pos
			}
			if a.k != b.k {
				return a.k < b.k
			}
			return !a.after && b.after
		})
		// ---- the children, a few at a time
		outcomes := make([]verifKillOutcome, len(points))
		dirs := make([]string, len(points))
		var wg sync.WaitGroup
		sem := make(chan struct{}, 4)
		for pi, p := range points {
			d := filepath.Join(dir, fmt.Sprintf("k%d_%d", sc, pi))
			os.MkdirAll(d, 0o755)
			verifCopyFile(t, tplPath, filepath.Join(d, "hostd.sqlite3"))
			dirs[pi] = d
			wg.Add(1)
			go func(pi int, p verifKillPoint) {
				defer wg.Done()
				sem <- struct{}{}
				defer func() { <-sem }()
				outcomes[pi] = verifKillRun("store", verifKillSpec{Dir: d, TplSeed: tplSeed, NRoots: nRoots, Script: script, Pos: p.pos, K: p.k, After: p.after})
			}(pi, p)
		}
		wg.Wait()
		// ---- what the dead processes left behind
		for pi, p := range points {
			o := outcomes[pi]
			op := ops[script[p.pos]]
			name := op.method + "/" + op.variant
			where := fmt.Sprintf("script %d, %s killed %s database call %d", sc, name, map[bool]string{false: "before", true: "after"}[p.after], p.k)
			if o.err != nil || !o.killed {
				t.Fatalf("%s: the child did not reach the kill point: %v (acks %v, stderr %s)", where, o.err, o.acks, verifTail(o.stderr, 1500))
			}
			kills++
			em.Count("kill:" + op.method)
			em.Count("kill-phase:" + o.phase)
			if len(o.acks) != p.pos || o.started != p.pos {
				t.Fatalf("%s: the child acknowledged %d operations and started %d", where, len(o.acks), o.started)
			}
			for i, c := range o.acks {
				if c != classes[i] || o.traces[i] != refs[i] {
					em.Monitor("acknowledged-operation-differs-from-twin:"+ops[script[i]].method, fmt.Sprintf("%s: operation %d of the script returned class %d trace %s in the child, class %d trace %s in the twin", where, i, c, o.traces[i], classes[i], refs[i]))
				}
			}
			path := filepath.Join(dirs[pi], "hostd.sqlite3")
			if _, err := os.Stat(path + "-wal"); err == nil {
				em.Count("kill-left-wal")
			}
			rs, err := OpenDatabase(path, log)
			if err != nil {
				em.Monitor("database-does-not-reopen-after-death", fmt.Sprintf("%s: %v", where, err))
				continue
			}
			snap := verifSnapshot(t, rs, path, env, true)
			pre, post := states[p.pos], states[p.pos+1]
			em.Step(fmt.Sprintf("Kill \"%s\" \"%s\" %d%%N %d%%N %s", op.method, refs[p.pos], classes[p.pos], p.k, coqBool(p.after)),
				fmt.Sprintf("OKill \"%s\" %s", o.trace, coqBool(pre.diff(snap) != "")))
			ref := refs[p.pos]
			single := strings.Count(ref, "B") == 1 && strings.HasPrefix(ref, "B") && !strings.ContainsAny(ref, "E")
			committed := strings.Contains(o.trace, "C")
			if snap.health != pre.health {
				em.Monitor("state-after-death-inconsistent:"+op.method, fmt.Sprintf("%s: %s", where, snap.health))
			}
			if inv := verifInvariants(t, path); inv != invs[p.pos] && inv != invs[p.pos+1] {
				em.Monitor("state-after-death-inconsistent:"+op.method, fmt.Sprintf("%s: %s", where, inv))
			}
			if single {
				em.Count("kill-single:" + map[bool]string{false: "before-commit", true: "after-commit"}[committed])
				if committed {
					if d := post.diff(snap); d != "" {
						em.Monitor("committed-then-died-effect-lost:"+op.method, fmt.Sprintf("%s (driver trace %s): SQLite had returned from Commit, yet after reopening: %s", where, o.trace, d))
					}
				} else if d := pre.diff(snap); d != "" {
					em.Monitor("died-before-commit-effect-visible:"+op.method, fmt.Sprintf("%s (driver trace %s): no Commit had completed, yet after reopening: %s", where, o.trace, d))
				}
			} else {
				em.Count("kill-multi")
			}
			// death before call k = hard failure of call k (after call k: of call k+1), on a twin
			if !op.ext {
				kk := p.k
				if p.after {
					kk++
				}
				want := post
				if kk < verifEligible(ref) {
					fpath := filepath.Join(dirs[pi], "failed.db")
					verifCopyFile(t, tplPath, fpath)
					fs, fctl, err := verifOpenFaultStore(fpath, log)
					if err != nil {
						t.Fatal(err)
					}
					for _, oi := range script[:p.pos] {
						verifCall(ops[oi], fs, fctl, -1, verifFaultNone, false)
					}
					verifCall(op, fs, fctl, kk, verifFaultHard, false)
					want = verifSnapshot(t, fs, fpath, env, true)
					fs.Close()
				}
				em.Count("kill-vs-failed-call")
				if d := want.diff(snap); d != "" {
					em.Monitor("death-differs-from-failed-call:"+op.method, fmt.Sprintf("%s: a twin whose database call %d fails ends elsewhere: %s", where, kk, d))
				}
			}
			// resume: the interrupted operation again unless it is already visible, then the rest
			dummy := &verifFaultCtl{}
			if post.diff(snap) != "" {
				verifCall(op, rs, dummy, -1, verifFaultNone, false)
				em.Count("kill-resume:rerun")
			} else {
				em.Count("kill-resume:already-visible")
			}
			for _, oi := range script[p.pos+1:] {
				verifCall(ops[oi], rs, dummy, -1, verifFaultNone, false)
			}
			end := verifSnapshot(t, rs, path, env, true)
			rs.Close()
			if d := final.diff(end); d != "" {
				em.Monitor("resume-after-death-diverges:"+op.method, fmt.Sprintf("%s: after running the operation again and the rest of the script: %s", where, d))
			}
			// a host started on what is left: caches agree with the database
			if pi%2 == 0 || thorough {
				n, err := verifOpenKillNode(dirs[pi], env.hostKey, cm, false, 0, nil)
				if err != nil {
					em.Monitor("host-does-not-start-after-death", fmt.Sprintf("%s: %v", where, err))
				} else {
					if inc := verifKillCoherence(n, env); len(inc) > 0 {
						em.Monitor("cache-differs-from-store-after-death", fmt.Sprintf("%s: %s", where, strings.Join(inc, "; ")))
					}
					n.Close()
					em.Count("kill-host-restart")
				}
			}
			os.RemoveAll(dirs[pi])
		}
		em.EndCase(len(points) > 0)
	}
	verifKillNode(t, em, 1000)
}
