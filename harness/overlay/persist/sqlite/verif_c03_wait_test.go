//go:build verif

package sqlite

// C03 (WP-N) — lists handed out under the contract lock.
//
// Every other case of the C03 / C13 manager harnesses has one caller per contract at a time.
// Here a second (third, fourth) caller is QUEUED on the contract lock — inside LockV2Contract or
// Manager.Lock, registered as a waiter in the manager's lock table — while the holder commits
// revisions that change the sector list (append / trim / swap / update / replace; also rejected and
// failing ones, and a renewal), then releases.  What the caller that gets the lock next is handed
// must be the contract as it is at that moment: the latest signed revision, the list that revision
// commits to, the list the store holds.
//
// Controlled, not timed: a waiter counts as queued when the manager's own lock table says so
// (VerifC03LockWaiters, host/contracts/verif_c03_waiters.go); the holder commits only after that;
// who gets the lock next is observed, not predicted.  No sleep decides an outcome.
//
// Recorded for coq/Roots/Sess.v (sessions over the manager model: SReq / SAcq1 / SAcq2 / SRel and the
// manager calls of the session that makes them).

import (
	"context"
	"fmt"
	"runtime"
	"testing"
	"time"

	rhp2 "go.sia.tech/core/rhp/v2"
	"go.sia.tech/core/types"
	rhp4 "go.sia.tech/coreutils/rhp/v4"
	"go.sia.tech/hostd/v2/host/contracts"
)

const vrSessCoqHeader = "From HostdBase Require Import Base.\nFrom HostdRoots Require Import Model Sess.\nOpen Scope N_scope."

const vrWaitDirected = 4

// vrGot is what a caller of LockV2Contract / Manager.Lock came back with
type vrGot struct {
	sess   int
	v2     bool
	st     rhp4.RevisionState       // v2
	rev    contracts.SignedRevision // v1
	unlock func()
	cls    string
	err    error
}

// vrQueue: the callers of one round
type vrQueue struct {
	w       *vrWorld
	id      types.FileContractID
	v2      bool
	got     chan vrGot
	pending int // callers that have not come back yet
}

func (w *vrWorld) newSess() int {
	w.nextSess++
	return w.nextSess
}

// call starts a caller of the lock in its own goroutine; nothing of the world is touched there
func (q *vrQueue) call(sess int) {
	w, id := q.w, q.id
	q.pending++
	cm := w.cm
	go func() {
		g := vrGot{sess: sess, v2: q.v2}
		g.cls, g.err, _ = vrCall(func() error {
			if q.v2 {
				st, unlock, err := cm.LockV2Contract(id)
				g.st, g.unlock = st, unlock
				return err
			}
			ctx, cancel := context.WithTimeout(context.Background(), 30*time.Second)
			defer cancel()
			rev, err := cm.Lock(ctx, id)
			g.rev, g.unlock = rev, func() { cm.Unlock(id) }
			return err
		})
		q.got <- g
	}()
}

// queued waits until the manager's lock table shows n waiters behind the holder
func (q *vrQueue) queued(n int) {
	deadline := time.Now().Add(20 * time.Second)
	for i := 0; q.w.cm.VerifC03LockWaiters(q.id) < n; i++ {
		if time.Now().After(deadline) {
			q.w.t.Fatalf("caller %d of contract %d never showed up in the lock table", n, q.w.cN(q.id))
		}
		if i < 200 {
			runtime.Gosched()
		} else {
			time.Sleep(50 * time.Microsecond)
		}
	}
}

// wait starts a caller and records it once it is registered as waiter number n
func (q *vrQueue) wait(sess, n int) {
	q.call(sess)
	q.queued(n)
	q.w.em.Step(fmt.Sprintf("SReq %d %d", sess, q.w.cN(q.id)), "SO (ORes (Ok tt))")
	q.w.em.Count("wait:queued-behind-holder")
}

// next: the next caller that comes back; recorded and checked
func (q *vrQueue) next() vrGot {
	var g vrGot
	select {
	case g = <-q.got:
	case <-time.After(40 * time.Second):
		q.w.t.Fatalf("no caller of contract %d came back", q.w.cN(q.id))
	}
	q.pending--
	q.w.noteAcquired(q.id, g)
	return g
}

// noteAcquired records what a caller was handed and evaluates the locked-view monitors
func (w *vrWorld) noteAcquired(id types.FileContractID, g vrGot) {
	n := w.cN(id)
	if g.v2 {
		obs := "SO (OLock2 (" + g.cls + "))"
		if g.err == nil {
			obs = fmt.Sprintf("SO (OLock2 (Ok (%d, %s, %s, %s)))", g.st.Revision.RevisionNumber, coqBool(g.st.Renewed), coqBool(g.st.Revisable), w.coqRoots(g.st.Roots))
		}
		w.em.Step(fmt.Sprintf("SAcq2 %d %d", g.sess, n), obs)
		w.em.Count("wait:acquired2:" + g.cls)
		if g.err != nil {
			return
		}
		st := g.st
		if w.supers[id] {
			if !st.Renewed || st.Revisable {
				w.hit("renewed-predecessor-reports-revisable", fmt.Sprintf("contract %d handed to a waiter: Renewed=%v Revisable=%v", n, st.Renewed, st.Revisable))
			}
			return
		}
		if st.Renewed {
			w.hit("live-contract-reports-renewed", fmt.Sprintf("contract %d", n))
		}
		if c := w.v2[id]; c != nil && st.Revision.RevisionNumber != c.cur.RevisionNumber {
			w.hit("locked-view-revision-is-not-the-latest", fmt.Sprintf("contract %d: LockV2Contract returned revision %d, the host last signed %d", n, st.Revision.RevisionNumber, c.cur.RevisionNumber))
		}
		if st.Revision.Filesize != uint64(len(st.Roots))*rhp2.SectorSize || st.Revision.FileMerkleRoot != rhp2.MetaRoot(st.Roots) {
			w.hit("locked-view-list-differs-from-revision", fmt.Sprintf("contract %d: LockV2Contract returned revision %d with file size %d and %d roots %s (Merkle root matches: %v)",
				n, st.Revision.RevisionNumber, st.Revision.Filesize, len(st.Roots), w.coqRoots(st.Roots), st.Revision.FileMerkleRoot == rhp2.MetaRoot(st.Roots)))
		}
		if db := w.dbRoots(true)[id]; !vrEq(db, st.Roots) {
			w.hit("locked-view-list-differs-from-persisted", fmt.Sprintf("contract %d: LockV2Contract returned %s, the store holds %s", n, w.coqRoots(st.Roots), w.coqRoots(db)))
		}
		if want, ok := w.ref[id]; ok && !vrEq(st.Roots, want) {
			w.hit("served-list-differs-from-accepted-modifications", fmt.Sprintf("contract %d: LockV2Contract roots %s, accepted modifications give %s", n, w.coqRoots(st.Roots), w.coqRoots(want)))
		}
		return
	}
	obs := "SOLock1 (" + g.cls + ")"
	if g.err == nil {
		obs = fmt.Sprintf("SOLock1 (Ok (%d, %d, %d))", g.rev.Revision.RevisionNumber, g.rev.Revision.Filesize, w.hN(g.rev.Revision.FileMerkleRoot))
	}
	w.em.Step(fmt.Sprintf("SAcq1 %d %d", g.sess, n), obs)
	w.em.Count("wait:acquired1:" + g.cls)
	if g.err != nil {
		return
	}
	if w.supers[id] {
		w.hit("renewed-predecessor-accepts-lock", fmt.Sprintf("Manager.Lock handed renewed contract %d to a waiter", n))
		return
	}
	rv := g.rev.Revision
	if c := w.v1[id]; c != nil && rv.RevisionNumber != c.cur.Revision.RevisionNumber {
		w.hit("locked-view-revision-is-not-the-latest", fmt.Sprintf("contract %d: Manager.Lock returned revision %d, the host last signed %d", n, rv.RevisionNumber, c.cur.Revision.RevisionNumber))
	}
	// the list every RPC of the lock holder works on
	served := w.cm.SectorRoots(id)
	if rv.Filesize != uint64(len(served))*rhp2.SectorSize || rv.FileMerkleRoot != rhp2.MetaRoot(served) {
		w.hit("locked-view-list-differs-from-revision", fmt.Sprintf("contract %d: Manager.Lock returned revision %d with file size %d, the manager serves %d roots %s",
			n, rv.RevisionNumber, rv.Filesize, len(served), w.coqRoots(served)))
	}
	if db := w.dbRoots(false)[id]; !vrEq(db, served) {
		w.hit("locked-view-list-differs-from-persisted", fmt.Sprintf("contract %d: the lock holder is served %s, the store holds %s", n, w.coqRoots(served), w.coqRoots(db)))
	}
}

func (w *vrWorld) release(g vrGot, id types.FileContractID) {
	cls, _, _ := vrCall(func() error { g.unlock(); return nil })
	w.em.Step(fmt.Sprintf("SRel %d %d", g.sess, w.cN(id)), "SO (ORes ("+cls+"))")
}

// holderEdits2: the lock holder revises the v2 contract k times (edits of the list it was handed,
// followed through its own accepted revisions), some malformed, some hit by a store failure
func (w *vrWorld) holderEdits2(sess int, id types.FileContractID, k int, allowBad bool) {
	w.sess = sess
	for ; k > 0; k-- {
		nl := w.editList(w.ref[id])
		bad, fault := vrRev2OK, -1
		if allowBad {
			switch r := w.rng.Intn(10); {
			case r == 0:
				bad = vrRev2Bad(1 + w.rng.Intn(8))
			case r == 1:
				fault = w.faultAt(1, 8+2*len(nl))
			}
		}
		w.revise2(id, nl, bad, fault)
	}
}

// holderEdits1: the lock holder revises the v1 contract through an updater (one or several commits)
func (w *vrWorld) holderEdits1(sess int, id types.FileContractID, commits int, allowBad bool) {
	w.sess = sess
	u := w.open1(id)
	for ; commits > 0; commits-- {
		for a := 1 + w.rng.Intn(3); a > 0; a-- {
			w.act(u, w.randAction(len(w.upd[u].list)))
		}
		fault := -1
		if allowBad && w.rng.Intn(8) == 0 {
			fault = w.faultAt(1, 10)
		}
		if ok, _ := w.commit1(u, fault); !ok {
			break
		}
	}
	w.close1(u)
}

// round: holder + waiters on one contract; every caller that gets the lock may revise before it
// lets go.  renewBy: the position (0 = the first holder) of the caller that renews, -1 = nobody.
func (w *vrWorld) waitRound(id types.FileContractID, v2 bool, waiters int, edits []int, renewBy int, allowBad bool) types.FileContractID {
	q := &vrQueue{w: w, id: id, v2: v2, got: make(chan vrGot, 8)}
	tip := id
	q.call(w.newSess())
	holder := q.next()
	if holder.err != nil {
		return tip
	}
	for j := 1; j <= waiters; j++ {
		q.wait(w.newSess(), j)
	}
	for pos := 0; ; pos++ {
		if holder.err == nil {
			k := 0
			if pos < len(edits) {
				k = edits[pos]
			}
			if !w.supers[id] {
				if v2 {
					w.holderEdits2(holder.sess, id, k, allowBad)
				} else if k > 0 {
					w.holderEdits1(holder.sess, id, k, allowBad)
				}
				if pos == renewBy {
					w.sess = holder.sess
					var ok bool
					var nid types.FileContractID
					if v2 {
						nid, ok = w.renew2(id, w.rng.Intn(2) == 0, vrRenew2OK, -1)
					} else {
						nid, ok = w.renew1(id, vrRenewOK, -1)
					}
					if ok {
						tip = nid
					}
				}
			}
			w.release(holder, id)
		}
		if q.pending == 0 {
			break
		}
		holder = q.next()
	}
	// a caller that was never queued sees the same
	q.call(w.newSess())
	if late := q.next(); late.err == nil {
		w.release(late, id)
	}
	w.sess = 1
	return tip
}

// seed2 / seed1: an initial list, written by a session that holds the lock
func (w *vrWorld) seedList(id types.FileContractID, v2 bool, n int) {
	q := &vrQueue{w: w, id: id, v2: v2, got: make(chan vrGot, 2)}
	q.call(w.newSess())
	h := q.next()
	if h.err != nil {
		w.t.Fatal("seed: lock refused: ", h.err)
	}
	w.sess = h.sess
	if v2 {
		var l []types.Hash256
		for i := 0; i < n; i++ {
			l = append(l, w.roots[i%len(w.roots)])
		}
		w.revise2(id, l, vrRev2OK, -1)
	} else {
		u := w.open1(id)
		for i := 0; i < n; i++ {
			w.act(u, vrApp(w.roots[i%len(w.roots)]))
		}
		w.commit1(u, -1)
		w.close1(u)
	}
	w.release(h, id)
	w.sess = 1
}

func (w *vrWorld) waitDirected(k int) {
	switch k {
	case 0: // the C03-mut7 witness: one waiter, the holder appends one root
		w.setup(0, 1, 0)
		id := w.order2[0]
		w.seedList(id, true, 2)
		q := &vrQueue{w: w, id: id, v2: true, got: make(chan vrGot, 4)}
		q.call(w.newSess())
		h := q.next()
		q.wait(w.newSess(), 1)
		w.sess = h.sess
		w.revise2(id, append(vrCopy(w.ref[id]), w.roots[2]), vrRev2OK, -1)
		w.release(h, id)
		wt := q.next()
		w.sess = wt.sess
		w.revise2(id, w.ref[id][:1], vrRev2OK, -1) // the waiter trims to one root
		w.release(wt, id)
		w.sess = 1
		w.waitRound(id, true, 1, []int{0, 0}, -1, false) // nothing committed: the same view
	case 1: // two waiters; swap, trim to zero, a failing revision; the first waiter appends; renewal with a waiter queued
		w.setup(0, 1, 0)
		id := w.order2[0]
		w.seedList(id, true, 3)
		q := &vrQueue{w: w, id: id, v2: true, got: make(chan vrGot, 4)}
		q.call(w.newSess())
		h := q.next()
		q.wait(w.newSess(), 1)
		q.wait(w.newSess(), 2)
		w.sess = h.sess
		l := vrCopy(w.ref[id])
		l[0], l[2] = l[2], l[0]
		w.revise2(id, l, vrRev2OK, -1)
		w.revise2(id, nil, vrRev2OK, -1)
		w.revise2(id, []types.Hash256{w.roots[4]}, vrRev2OK, 3) // store failure: nothing changes
		w.release(h, id)
		w1 := q.next()
		w.sess = w1.sess
		w.revise2(id, []types.Hash256{w.roots[5], w.roots[1]}, vrRev2OK, -1)
		w.release(w1, id)
		w2 := q.next()
		w.release(w2, id)
		w.sess = 1
		tip := w.waitRound(id, true, 1, []int{1}, 0, false)
		w.waitRound(tip, true, 1, []int{1, 1}, -1, false)
	case 2: // v1: a waiter on Manager.Lock through two commits
		w.setup(1, 0, 0)
		id := w.order1[0]
		w.seedList(id, false, 2)
		q := &vrQueue{w: w, id: id, v2: false, got: make(chan vrGot, 4)}
		q.call(w.newSess())
		h := q.next()
		q.wait(w.newSess(), 1)
		w.sess = h.sess
		u := w.open1(id)
		w.act(u, vrApp(w.roots[2]))
		w.act(u, vrApp(w.roots[3]))
		w.commit1(u, -1)
		w.act(u, vrSwap(0, 3))
		w.commit1(u, -1)
		w.close1(u)
		w.release(h, id)
		wt := q.next()
		w.sess = wt.sess
		u = w.open1(id)
		w.act(u, vrTrim(3))
		w.commit1(u, -1)
		w.close1(u)
		w.release(wt, id)
		w.sess = 1
		w.waitRound(id, false, 2, []int{0, 1, 0}, -1, false)
	case 3: // v1: the holder renews while a waiter is queued: the waiter is refused, the successor is free
		w.setup(1, 0, 0)
		id := w.order1[0]
		w.seedList(id, false, 2)
		tip := w.waitRound(id, false, 2, []int{1}, 0, false)
		w.waitRound(tip, false, 1, []int{1, 1}, -1, false)
	}
}

func (w *vrWorld) waitGenerated() {
	n1, n2 := w.rng.Intn(3), w.rng.Intn(3)
	if n1+n2 == 0 {
		n2 = 1
	}
	w.setup(n1, n2, w.rng.Intn(2))
	tips1, tips2 := append([]types.FileContractID(nil), w.order1...), append([]types.FileContractID(nil), w.order2...)
	for _, id := range tips1 {
		w.seedList(id, false, w.rng.Intn(4))
	}
	for _, id := range tips2 {
		w.seedList(id, true, w.rng.Intn(4))
	}
	for r := 2 + w.rng.Intn(4); r > 0; r-- {
		v2 := len(tips1) == 0 || (len(tips2) > 0 && w.rng.Intn(2) == 0)
		tips := tips1
		if v2 {
			tips = tips2
		}
		k := w.rng.Intn(len(tips))
		waiters := 1 + w.rng.Intn(3)
		edits := make([]int, waiters+1)
		for i := range edits {
			if w.rng.Intn(4) > 0 {
				edits[i] = 1 + w.rng.Intn(2)
			}
		}
		renewBy := -1
		if w.rng.Intn(4) == 0 {
			renewBy = w.rng.Intn(waiters + 1)
		}
		w.em.Count(fmt.Sprintf("wait:round:v2=%v:waiters=%d:renewal=%v", v2, waiters, renewBy >= 0))
		tips[k] = w.waitRound(tips[k], v2, waiters, edits, renewBy, true)
		if w.rng.Intn(5) == 0 {
			w.prune()
		}
	}
}

func TestVerifC03Wait(t *testing.T) {
	em := newVerifEmitter(t, vrSessCoqHeader, "scase", "scheck")
	defer em.Close()
	n := verifN(60)
	for id := 0; id < vrWaitDirected+n; id++ {
		if em.Skip(id) {
			continue
		}
		rng := verifCaseRand(id)
		w := vrNewWorld(t, em, rng, id, 6+rng.Intn(4))
		w.sess, w.nextSess = 1, 1
		if id < vrWaitDirected {
			em.BeginCase(id, []string{
				"directed: a caller queued in LockV2Contract while the holder appends a root (then trims)",
				"directed: two callers queued in LockV2Contract through swap, trim to zero, a failing revision; renewal with a caller queued",
				"directed: a caller queued in Manager.Lock through two commits of the holder",
				"directed: callers queued in Manager.Lock while the holder renews the contract"}[id])
			w.waitDirected(id)
		} else {
			em.BeginCase(id, "generated: callers queued on contract locks while the holders revise / renew")
			em.Count("case:generated")
			w.waitGenerated()
		}
		w.finalLooks()
		em.EndCase(w.accepted > 0)
		w.close()
	}
}
