//go:build verif

package sqlite

// C03 — the contract sector list equals what the signed revision commits to.
// Directed cases 0..4, then generated histories (see props/C03.json "rule").

import (
	"fmt"
	"os"
	"testing"

	rhp2 "go.sia.tech/core/rhp/v2"
	"go.sia.tech/core/types"
	"go.sia.tech/hostd/v2/host/contracts"
)

const vrC03Directed = 6

func TestVerifC03(t *testing.T) {
	em := newVerifEmitter(t, vrCoqHeader, "case", "check")
	defer em.Close()
	n := verifN(300)
	small := 0
	if os.Getenv("VERIF_TIER") == "thorough" {
		small = 4 * len(vrSmallAlphabet(nil)) // exhaustive small-scope cases, after the generated ones
	}
	for id := 0; id < vrC03Directed+n+small; id++ {
		if em.Skip(id) {
			continue
		}
		rng := verifCaseRand(id)
		w := vrNewWorld(t, em, rng, id, 6+rng.Intn(5))
		switch {
		case id >= vrC03Directed+n:
			k := id - vrC03Directed - n
			em.BeginCase(id, fmt.Sprintf("small scope, exhaustive: start list %d, first action %d, all continuations of two actions", k%4, k/4))
			em.Count("case:small-scope")
			w.c03SmallScope(k%4, k/4)
		case id == 0:
			em.BeginCase(id, "directed: one updater committed several times (trim, then append)")
			w.c03ReusedUpdater()
		case id == 1:
			em.BeginCase(id, "directed: equal-index swaps, trims to zero, duplicate roots, two contracts sharing sectors")
			w.c03Boundaries()
		case id == 2:
			em.BeginCase(id, "directed: missing stored sector, out-of-range actions")
			w.c03Rejected()
		case id == 3:
			em.BeginCase(id, "directed: a store failure at every statement of one commit")
			w.c03FaultSweepV1()
		case id == 4:
			em.BeginCase(id, "directed: a store failure at every statement of one v2 revision")
			w.c03FaultSweepV2()
		case id == 5:
			em.BeginCase(id, "directed (WP-G): locks held across heights; updaters, commits and renewals through them at the boundaries of the last confirmable height")
			w.c03HeldLock()
		case id%12 == 7 && os.Getenv("VERIF_RAW") == "1":
			// only when asked for (props/C03.json sets VERIF_RAW=1 in the thorough tier): these
			// cases tie the model to the store's defensive code on inputs no disciplined caller
			// produces; a divergence there is about the model, not about the property
			em.BeginCase(id, "generated, undisciplined: store methods called directly with stale lists, unlocked concurrent updaters (correspondence only)")
			em.Count("case:raw")
			w.monitors = false
			w.c03Raw()
		default:
			em.BeginCase(id, "generated history")
			em.Count("case:generated")
			w.c03Generated()
		}
		w.finalLooks()
		if w.monitors {
			w.restart()
			w.finalLooks()
			w.resolveOnChain()
			w.finalLooks()
			w.restart()
			w.finalLooks()
		}
		em.EndCase(w.accepted > 0)
		w.close()
	}
}

// case 5 (WP-G, fixes/C06-revise-guard-at-commit.patch): isGoodForModification is evaluated by Manager.Lock when
// the lock is acquired and again by ReviseContract, ContractUpdater.Commit and RenewContract at the tip of
// that moment.  Two contracts with window start 1000 are locked at height 10 and the locks are kept while
// the tip moves to 855 (two blocks of slack), 856 (the last confirmable height: 856 + 144 = 1000), 857, 999,
// 1000 and 1005: writes, payment-only commits, an updater opened at 856 and committed at 857, renewals.
func (w *vrWorld) c03HeldLock() {
	for _, r := range w.roots {
		w.storeSec(r)
	}
	a, b := w.freshID(), w.freshID()
	w.form1(a, 1000)
	w.form1(b, 1000)
	w.lock1(a)
	w.lock1(b)
	write := func(id types.FileContractID, k int) {
		u := w.open1(id)
		if u < 0 {
			return
		}
		w.act(u, vrApp(w.roots[k%len(w.roots)]))
		w.commit1(u, -1)
		w.commit1(u, -1) // payment only: nothing changed since the last commit
		w.close1(u)
	}
	for k, h := range []uint64{855, 856} {
		w.setHeight(h)
		write(a, k)
		write(b, k)
	}
	// an updater opened while the contract is revisable, committed one block later
	if u := w.open1(a); u >= 0 {
		w.act(u, vrApp(w.roots[2]))
		w.setHeight(857)
		w.commit1(u, -1)
		w.act(u, vrTrim(1))
		w.commit1(u, -1) // still refused: nothing of the refused commit stuck
		w.close1(u)
	}
	for k, h := range []uint64{857, 999, 1000, 1005} {
		w.setHeight(h)
		write(a, k)
		w.renew1(b, vrRenewOK, -1)
		w.look(a, false)
	}
	// the tip goes back (a reorganisation): revisable again, the renewal goes through
	w.setHeight(856)
	write(a, 3)
	w.renew1(b, vrRenewOK, -1)
	w.setHeight(857)
	if u := w.open1(b); u >= 0 { // renewed: refuses whatever the height
		w.hit("renewed-predecessor-accepts-updater", fmt.Sprintf("contract %d", w.cN(b)))
		w.close1(u)
	}
	w.unlock1(a)
	w.unlock1(b)
	w.setHeight(10)
}

func vrApp(r types.Hash256) contracts.SectorChange {
	return contracts.SectorChange{Action: contracts.SectorActionAppend, Root: r}
}
func vrSwap(a, b uint64) contracts.SectorChange {
	return contracts.SectorChange{Action: contracts.SectorActionSwap, A: a, B: b}
}
func vrTrim(n uint64) contracts.SectorChange {
	return contracts.SectorChange{Action: contracts.SectorActionTrim, A: n}
}
func vrUpdate(r types.Hash256, i uint64) contracts.SectorChange {
	return contracts.SectorChange{Action: contracts.SectorActionUpdate, Root: r, A: i}
}

// case 0: the witness of the stale oldRoots defect (fixes/C03-updater-stale-oldroots.patch):
// an updater that is committed, trimmed, committed and appended to again must leave the
// persisted order equal to the served order.
func (w *vrWorld) c03ReusedUpdater() {
	w.setup(1, 0, 0)
	id := w.order1[0]
	w.lock1(id)
	u := w.open1(id)
	for i := 0; i < 3; i++ {
		w.act(u, vrApp(w.roots[i]))
	}
	w.commit1(u, -1)
	w.close1(u)
	u = w.open1(id)
	w.act(u, vrTrim(2))
	w.commit1(u, -1)
	w.act(u, vrApp(w.roots[3])) // unpatched: lands at root_index 3, leaving a gap
	w.commit1(u, -1)
	w.close1(u)
	u = w.open1(id)
	w.act(u, vrApp(w.roots[4])) // unpatched: lands in the gap, the persisted order differs from the served one
	w.commit1(u, -1)
	// same updater: update, commit, swap, commit, update again
	w.act(u, vrUpdate(w.roots[5], 0))
	w.commit1(u, -1)
	w.act(u, vrSwap(0, 2))
	w.commit1(u, -1)
	w.act(u, vrUpdate(w.roots[0], 2))
	w.act(u, vrTrim(1))
	w.commit1(u, -1)
	w.close1(u)
	w.unlock1(id)
}

func (w *vrWorld) c03Boundaries() {
	w.setup(2, 1, 0)
	a, b := w.order1[0], w.order1[1]
	w.lock1(a)
	w.lock1(b)
	ua, ub := w.open1(a), w.open1(b)
	for i := 0; i < 4; i++ {
		w.act(ua, vrApp(w.roots[i%2])) // duplicates
		w.act(ub, vrApp(w.roots[i%3])) // shared with a
	}
	w.act(ua, vrSwap(1, 1))
	w.act(ua, vrSwap(3, 0))
	w.act(ua, vrSwap(0, 3))
	w.commit1(ua, -1)
	w.commit1(ub, -1)
	w.act(ua, vrTrim(4)) // to zero
	w.act(ua, vrTrim(0))
	w.commit1(ua, -1)
	w.act(ua, vrApp(w.roots[2]))
	w.act(ua, vrSwap(0, 0))
	w.act(ua, vrUpdate(w.roots[2], 0)) // update to the same root
	w.commit1(ua, -1)
	w.act(ub, vrTrim(4))
	w.act(ub, vrApp(w.roots[1]))
	w.act(ub, vrApp(w.roots[1]))
	w.commit1(ub, -1)
	// trim several and append in one commit, then append again: the indices must stay dense
	for i := 0; i < 3; i++ {
		w.act(ub, vrApp(w.roots[i]))
	}
	w.commit1(ub, -1)
	w.act(ub, vrTrim(3))
	w.act(ub, vrApp(w.roots[3]))
	w.act(ub, vrSwap(0, 2))
	w.commit1(ub, -1)
	w.act(ub, vrApp(w.roots[0]))
	w.act(ub, vrUpdate(w.roots[1], 3))
	w.commit1(ub, -1)
	w.close1(ua)
	w.close1(ub)
	w.unlock1(a)
	w.unlock1(b)
	v := w.order2[0]
	w.revise2(v, []types.Hash256{w.roots[0], w.roots[0], w.roots[1]}, vrRev2OK, -1)
	w.revise2(v, []types.Hash256{w.roots[1], w.roots[0], w.roots[0]}, vrRev2OK, -1)
	w.revise2(v, nil, vrRev2OK, -1)
	w.revise2(v, []types.Hash256{w.roots[2]}, vrRev2OK, -1)
	w.prune()
	for i := 0; i < 4; i++ {
		w.located(w.roots[i])
	}
}

func (w *vrWorld) c03Rejected() {
	w.setup(1, 1, 2)
	id := w.order1[0]
	missing := w.roots[len(w.roots)-1]
	w.lock1(id)
	w.lock1(id) // busy
	u := w.open1(id)
	w.act(u, vrApp(w.roots[0]))
	w.act(u, vrApp(w.roots[1]))
	w.commit1(u, -1)
	w.act(u, vrSwap(0, 2))
	w.act(u, vrTrim(3))
	w.act(u, vrUpdate(w.roots[2], 2))
	w.act(u, vrApp(missing))
	w.commit1(u, -1) // missing stored sector: rejected as a whole
	w.close1(u)
	u = w.open1(id)
	w.act(u, vrUpdate(missing, 0))
	w.commit1(u, -1)
	w.close1(u)
	w.unlock1(id)
	v := w.order2[0]
	w.revise2(v, []types.Hash256{w.roots[0], missing}, vrRev2OK, -1)
	w.revise2(v, []types.Hash256{w.roots[0]}, vrRev2WrongRoot, -1)
	w.revise2(v, []types.Hash256{w.roots[0]}, vrRev2OK, -1)
	w.lock1(w.freshID()) // unknown contract
	w.lock2(w.freshID())
}

// every statement index of one commit (several actions of every kind)
func (w *vrWorld) c03FaultSweepV1() {
	w.setup(1, 0, 0)
	id := w.order1[0]
	w.lock1(id)
	u := w.open1(id)
	for i := 0; i < 4; i++ {
		w.act(u, vrApp(w.roots[i]))
	}
	w.commit1(u, -1)
	for k := 0; k < 200; k++ {
		w.act(u, vrApp(w.roots[4]))
		w.act(u, vrSwap(0, 3))
		w.act(u, vrUpdate(w.roots[5], 1))
		w.act(u, vrTrim(2))
		ok, fired := w.commit1(u, k)
		if !fired {
			if !ok {
				w.em.Count("sweep:commit1:unfaulted-commit-failed")
				break
			}
			w.em.Count(fmt.Sprintf("sweep:commit1:statements=%d", k))
			break
		}
		// the updater still holds the uncommitted actions: drop it and start over
		w.close1(u)
		u = w.open1(id)
	}
	w.close1(u)
	w.unlock1(id)
}

func (w *vrWorld) c03FaultSweepV2() {
	w.setup(0, 1, 0)
	v := w.order2[0]
	w.revise2(v, []types.Hash256{w.roots[0], w.roots[1], w.roots[2], w.roots[3]}, vrRev2OK, -1)
	next := []types.Hash256{w.roots[1], w.roots[1], w.roots[4]}
	for k := 0; k < 200; k++ {
		if w.revise2(v, next, vrRev2OK, k) {
			w.em.Count(fmt.Sprintf("sweep:revise2:statements=%d", k))
			break
		}
	}
}

// c03Generated: disciplined sessions (lock, updater, actions, one or many commits, close,
// unlock) on several v1 contracts interleaved with v2 revisions, renewals, pruning,
// restarts and store failures.
func (w *vrWorld) c03Generated() {
	rng := w.rng
	w.setup(1+rng.Intn(3), 1+rng.Intn(2), rng.Intn(3))
	type sess struct {
		locked bool
		slot   int // -1: no updater
	}
	ss := map[types.FileContractID]*sess{}
	steps := 25 + rng.Intn(40)
	for i := 0; i < steps; i++ {
		switch r := rng.Intn(100); {
		case r < 58 && len(w.order1) > 0: // advance a v1 session
			id := w.order1[rng.Intn(len(w.order1))]
			s := ss[id]
			if s == nil {
				s = &sess{slot: -1}
				ss[id] = s
			}
			switch {
			case !s.locked:
				s.locked = w.lock1(id)
			case s.slot < 0:
				switch q := rng.Intn(10); {
				case q < 7 && !w.supers[id]: // a session whose contract was just renewed may only unlock
					s.slot = w.open1(id)
				case q < 8 && !w.supers[id]:
					bad := vrRenewOK
					if rng.Intn(3) == 0 {
						bad = vrRenewBad(1 + rng.Intn(6))
					}
					w.renew1(id, bad, w.faultAt(0.2, 12))
				default:
					w.unlock1(id)
					s.locked = false
				}
			default:
				switch q := rng.Intn(20); {
				case q < 12:
					w.act(s.slot, w.randAction(len(w.upd[s.slot].list)))
				case q < 17:
					approx := 8 + 3*len(w.upd[s.slot].list)
					w.commit1(s.slot, w.faultAt(0.2, approx))
				default:
					w.close1(s.slot)
					s.slot = -1
				}
			}
		case r < 80 && len(w.order2) > 0: // v2
			id := w.order2[rng.Intn(len(w.order2))]
			switch q := rng.Intn(20); {
			case q < 15:
				bad := vrRev2OK
				if rng.Intn(6) == 0 {
					bad = vrRev2Bad(1 + rng.Intn(8))
				}
				w.revise2(id, w.editList(w.cm.SectorRoots(id)), bad, w.faultAt(0.15, 14))
			case q < 17:
				w.lock2(id)
			default:
				bad := vrRenew2OK
				if rng.Intn(3) == 0 {
					bad = vrRenew2Bad(1 + rng.Intn(7))
				}
				w.renew2(id, rng.Intn(2) == 0, bad, w.faultAt(0.2, 12))
			}
		case r < 86:
			w.storeSec(w.poolRoot())
		case r < 88:
			w.prune()
			w.located(w.poolRoot())
		case r < 92:
			switch q := rng.Intn(6); {
			case q == 0: // close to (or past) the proof windows: locks are refused
				w.setHeight(800 + uint64(rng.Intn(400)))
				if len(w.order1) > 0 {
					id := w.order1[rng.Intn(len(w.order1))]
					if s := ss[id]; s == nil || !s.locked {
						if w.lock1(id) {
							w.unlock1(id)
						}
					}
				}
				w.setHeight(10 + uint64(rng.Intn(50)))
			case q < 4 && len(w.order1) > 0:
				// WP-G: the tip moves to a boundary of some contract's last confirmable height and STAYS
				// there: the sessions that hold locks meet the guard at ReviseContract / Commit / RenewContract
				c := w.v1[w.order1[rng.Intn(len(w.order1))]]
				off := []int64{-2, -1, 0, 1, 2, vrRevBuffer - 1, vrRevBuffer, vrRevBuffer + 3}[rng.Intn(8)]
				w.setHeight(uint64(int64(c.window) - vrRevBuffer + off))
				w.em.Count(fmt.Sprintf("height:boundary:%+d", off))
			default:
				w.setHeight(10 + uint64(rng.Intn(50)))
			}
		case r < 94:
			w.restart()
			ss = map[types.FileContractID]*sess{}
		case r < 96:
			if rng.Intn(2) == 0 {
				w.lock1(w.freshID())
			} else { // a second caller on a contract some session holds: it has to wait
				for _, id := range w.order1 {
					if s := ss[id]; s != nil && s.locked {
						w.lock1(id)
						break
					}
				}
			}
		default:
			if len(w.order1) > 0 && rng.Intn(2) == 0 {
				w.look(w.order1[rng.Intn(len(w.order1))], false)
			} else if len(w.order2) > 0 {
				w.look(w.order2[rng.Intn(len(w.order2))], true)
			}
		}
	}
	// end the sessions in order
	for _, id := range w.order1 {
		if s := ss[id]; s != nil && s.slot >= 0 {
			w.commit1(s.slot, -1)
			w.close1(s.slot)
		}
	}
	for _, id := range w.order1 {
		if s := ss[id]; s != nil && s.locked {
			w.unlock1(id)
		}
	}
}

// c03Raw ties the replay and diff code of the store on inputs no disciplined caller
// produces: Store.ReviseContract / ReviseV2Contract called directly with arbitrary old
// lists and actions, and updaters opened without the contract lock.
func (w *vrWorld) c03Raw() {
	rng := w.rng
	w.setup(2, 1, 1)
	randList := func() []types.Hash256 {
		var l []types.Hash256
		for i := rng.Intn(5); i > 0; i-- {
			l = append(l, w.poolRoot())
		}
		return l
	}
	for i := 15 + rng.Intn(20); i > 0; i-- {
		switch r := rng.Intn(10); {
		case r < 5:
			id := w.order1[rng.Intn(len(w.order1))]
			c := w.v1[id]
			var old []types.Hash256
			switch rng.Intn(4) {
			case 0:
				old = randList()
			case 1:
				old = w.dbRoots(false)[id]
				if len(old) > 0 {
					old = vrCopy(old[:rng.Intn(len(old)+1)])
				}
			default:
				old = w.dbRoots(false)[id]
			}
			var acts []contracts.SectorChange
			n := len(old)
			for k := 1 + rng.Intn(4); k > 0; k-- {
				a := w.randAction(n + rng.Intn(2))
				if rng.Intn(10) == 0 && a.Action == contracts.SectorActionSwap {
					a.B = a.A + 50 // far out of range
				}
				acts = append(acts, a)
				if a.Action == contracts.SectorActionAppend {
					n++
				}
			}
			next := w.newV1Rev(id, c.uc, c.cur.Revision.RevisionNumber+1, uint64(rng.Intn(4))*rhp2.SectorSize, types.Hash256{byte(rng.Intn(4))}, c.window)
			fa := w.faultAt(0.1, 10)
			if fa >= 0 {
				vrArm(fa)
			}
			cls, err, _ := vrCall(func() error { return w.store.ReviseContract(next, vrCopy(old), contracts.Usage{}, acts) })
			fired, _ := vrDisarm()
			terms := make([]string, len(acts))
			for j, a := range acts {
				terms[j] = vrCoqAction(w, a)
			}
			w.em.Step(fmt.Sprintf("RawRevise1 %d %d %d %d %s %s %s", w.cN(id), next.Revision.RevisionNumber, next.Revision.Filesize,
				w.hN(next.Revision.FileMerkleRoot), w.coqRoots(old), coqList(terms), vrCoqFault(fired)), "ORes ("+cls+")")
			w.em.Count("op:RawRevise1:" + cls)
			if err == nil {
				c.cur = next
				w.accepted++
			}
			w.look(id, false)
		case r < 7:
			id := w.order2[0]
			c := w.v2[id]
			old := w.dbRoots(true)[id]
			if rng.Intn(2) == 0 {
				old = randList()
			}
			nw := randList()
			fc := c.cur
			fc.RevisionNumber++
			cls, err, _ := vrCall(func() error { return w.store.ReviseV2Contract(id, fc, vrCopy(old), vrCopy(nw), proto4Usage()) })
			w.em.Step(fmt.Sprintf("RawRevise2 %d %s %s %s None", w.cN(id), w.coqRv2(fc), w.coqRoots(old), w.coqRoots(nw)), "ORes ("+cls+")")
			w.em.Count("op:RawRevise2:" + cls)
			if err == nil {
				c.cur = fc
				w.accepted++
			}
			w.look(id, true)
		default: // two unlocked updaters on one contract, committed one after the other
			id := w.order1[rng.Intn(len(w.order1))]
			w.ref[id] = w.cm.SectorRoots(id)
			u1, u2 := w.open1(id), w.open1(id)
			for k := 1 + rng.Intn(3); k > 0; k-- {
				w.act(u1, w.randAction(len(w.upd[u1].list)))
				w.act(u2, w.randAction(len(w.upd[u2].list)))
			}
			w.commit1(u1, -1)
			w.commit1(u2, -1)
			w.close1(u1)
			w.close1(u2)
		}
	}
}

// vrSmallAlphabet: the actions of the small-scope enumeration over two roots and indices 0..2.
func vrSmallAlphabet(roots []types.Hash256) []contracts.SectorChange {
	var a, b types.Hash256
	if len(roots) >= 2 {
		a, b = roots[0], roots[1]
	}
	acts := []contracts.SectorChange{vrApp(a), vrApp(b)}
	for i := uint64(0); i < 3; i++ {
		for j := i; j < 3; j++ {
			acts = append(acts, vrSwap(i, j))
		}
	}
	for k := uint64(0); k < 4; k++ {
		acts = append(acts, vrTrim(k))
	}
	for i := uint64(0); i < 3; i++ {
		acts = append(acts, vrUpdate(b, i))
	}
	return acts
}

// c03SmallScope: for one start list (of length 0..3 with a duplicate root) and one first
// action, every continuation of two more actions, each sequence in its own commit.
func (w *vrWorld) c03SmallScope(start, first int) {
	w.setup(1, 0, 0)
	id := w.order1[0]
	a, b := w.roots[0], w.roots[1]
	starts := [][]types.Hash256{nil, {a}, {a, b}, {a, a, b}}
	alpha := vrSmallAlphabet(w.roots)
	w.lock1(id)
	for _, a2 := range alpha {
		for _, a3 := range alpha {
			// bring the contract back to the start list
			u := w.open1(id)
			w.act(u, vrTrim(uint64(len(w.upd[u].list))))
			for _, r := range starts[start] {
				w.act(u, vrApp(r))
			}
			w.commit1(u, -1)
			// the sequence under test (actions the updater refuses are simply not recorded by it)
			w.act(u, alpha[first])
			w.act(u, a2)
			w.act(u, a3)
			w.commit1(u, -1)
			w.close1(u)
		}
	}
	w.unlock1(id)
}
