//go:build verif

package sqlite

// C09, manager level: the exported mutating operations of contracts.Manager (+ the
// contract updater), accounts.AccountManager (+ budgets), settings.ConfigManager,
// webhooks.Manager, registry.Manager and storage.VolumeManager are run with the k-th
// database call failing.  After a failed call the database must be unchanged and the
// managers' in-memory state must still agree with it; a retry must succeed.

import (
	"bytes"
	"context"
	"encoding/json"
	"fmt"
	"math/rand"
	"os"
	"path/filepath"
	"sort"
	"strings"
	"testing"
	"time"

	rhp2 "go.sia.tech/core/rhp/v2"
	rhp3 "go.sia.tech/core/rhp/v3"
	proto4 "go.sia.tech/core/rhp/v4"
	"go.sia.tech/core/types"
	rhp4 "go.sia.tech/coreutils/rhp/v4"
	"go.sia.tech/hostd/v2/host/accounts"
	"go.sia.tech/hostd/v2/host/contracts"
	"go.sia.tech/hostd/v2/host/settings"
	"go.sia.tech/hostd/v2/webhooks"
)

// verifCoherence lists where a manager's in-memory state differs from the store.
func verifCoherence(n *verifNode, env *verifEnv, extra []types.FileContractID) []string {
	var out []string
	dbRoots, err := n.store.SectorRoots()
	if err != nil {
		return []string{"store.SectorRoots: " + err.Error()}
	}
	dbRoots2, err := n.store.V2SectorRoots()
	if err != nil {
		return []string{"store.V2SectorRoots: " + err.Error()}
	}
	ids := append(append(append([]types.FileContractID(nil), env.v1...), env.v2...), extra...)
	for _, id := range ids {
		want := dbRoots[id]
		if r, ok := dbRoots2[id]; ok {
			want = r
		}
		got := n.contracts.SectorRoots(id)
		if len(got) != len(want) {
			out = append(out, fmt.Sprintf("contracts.Manager: SectorRoots(%x) has %d roots, the store %d", id[:4], len(got), len(want)))
			continue
		}
		for i := range got {
			if got[i] != want[i] {
				out = append(out, fmt.Sprintf("contracts.Manager: SectorRoots(%x)[%d] differs from the store", id[:4], i))
				break
			}
		}
	}
	for _, a := range env.acct3 {
		mb, err1 := n.accounts.Balance(a)
		sb, err2 := n.store.AccountBalance(a)
		if err1 != nil || err2 != nil || !mb.Equals(sb) {
			out = append(out, fmt.Sprintf("accounts.AccountManager: Balance(%x) = %v (%v), the store %v (%v)", a[:4], mb, err1, sb, err2))
		}
	}
	ms := n.settings.Settings()
	ss, err := n.store.Settings()
	if err != nil {
		out = append(out, "store.Settings: "+err.Error())
	} else if a, b := verifJSON(ms), verifJSON(ss); a != b {
		out = append(out, "settings.ConfigManager: Settings() = "+a+", the store "+b)
	}
	mh, _ := n.webhooks.Webhooks()
	sh, err := n.store.Webhooks()
	sort.Slice(mh, func(i, j int) bool { return mh[i].ID < mh[j].ID })
	sort.Slice(sh, func(i, j int) bool { return sh[i].ID < sh[j].ID })
	if err != nil {
		out = append(out, "store.Webhooks: "+err.Error())
	} else if a, b := verifJSON(mh), verifJSON(sh); a != b && !(len(mh) == 0 && len(sh) == 0) {
		out = append(out, "webhooks.Manager: Webhooks() = "+a+", the store "+b)
	}
	if n.index != nil {
		st, err := n.store.Tip()
		if err != nil || st != n.index.Tip() {
			out = append(out, fmt.Sprintf("index.Manager: Tip() = %v, the store %v (%v)", n.index.Tip(), st, err))
		}
	}
	return out
}

func verifNewIncoherence(before, after []string) string {
	seen := map[string]bool{}
	for _, b := range before {
		seen[b] = true
	}
	for _, a := range after {
		if !seen[a] {
			return a
		}
	}
	return ""
}

type verifMgrOp struct {
	typ, method, variant string
	tol                  int // trailing transactions whose failure the method tolerates
	run                  func(n *verifNode) error
	newIDs               []types.FileContractID
}

func verifSignV2(n *verifNode, env *verifEnv, fc *types.V2FileContract) {
	h := n.chain.TipState().ContractSigHash(*fc)
	fc.RenterSignature = env.renterKey.SignHash(h)
	fc.HostSignature = env.hostKey.SignHash(h)
}

func verifMgrOps(env *verifEnv, rng *rand.Rand) []verifMgrOp {
	var ops []verifMgrOp
	add := func(typ, method, variant string, run func(n *verifNode) error) *verifMgrOp {
		ops = append(ops, verifMgrOp{typ: typ, method: method, variant: variant, run: run})
		return &ops[len(ops)-1]
	}
	sc := types.Siacoins
	c0 := env.v1[0]
	roots0 := env.v1roots[c0]
	free := env.free[2:]
	// ---- contracts.ContractUpdater.Commit
	commit := func(variant string, edit func(u *contracts.ContractUpdater) error) {
		rev := env.v1rev[c0]
		rev.Revision.RevisionNumber += 2
		add("contracts.ContractUpdater", "Commit", variant, func(n *verifNode) error {
			u, err := n.contracts.ReviseContract(c0)
			if err != nil {
				return err
			}
			defer u.Close()
			if err := edit(u); err != nil {
				return err
			}
			r := rev
			r.Revision.Filesize = u.SectorCount() * proto4.SectorSize
			r.Revision.FileMerkleRoot = u.MerkleRoot()
			return u.Commit(r, contracts.Usage{StorageRevenue: sc(1), RiskedCollateral: sc(1)})
		})
	}
	nApp := 1 + rng.Intn(3)
	commit("append", func(u *contracts.ContractUpdater) error {
		for i := 0; i < nApp; i++ {
			u.AppendSector(free[i])
		}
		return nil
	})
	// a root the host does not store: every check of the manager passes, the store call fails half-way
	commit("append-unknown-root", func(u *contracts.ContractUpdater) error {
		u.AppendSector(free[0])
		u.AppendSector(types.Hash256{0xee, 1})
		return nil
	})
	a, b, nTrim := uint64(rng.Intn(len(roots0))), uint64(rng.Intn(len(roots0))), uint64(1+rng.Intn(len(roots0)-1))
	commit("swap+trim+update", func(u *contracts.ContractUpdater) error {
		if err := u.SwapSectors(a, b); err != nil {
			return err
		} else if err := u.TrimSectors(nTrim); err != nil {
			return err
		}
		return u.UpdateSector(free[0], 0)
	})
	// ---- contracts.Manager
	{
		rev := env.newV1(rng, 300, 400)
		add("contracts.Manager", "AddContract", "new", func(n *verifNode) error {
			return n.contracts.AddContract(rev, []types.Transaction{{ArbitraryData: [][]byte{{9}}}}, sc(1), contracts.Usage{RPCRevenue: sc(1)})
		}).newIDs = []types.FileContractID{rev.Revision.ParentID}

		existing := env.v1rev[c0]
		renewal := env.newV1(rng, 700, 800)
		renewal.Revision.Filesize = existing.Revision.Filesize
		renewal.Revision.FileMerkleRoot = rhp2.MetaRoot(roots0)
		clearing := existing
		clearing.Revision.RevisionNumber = types.MaxRevisionNumber
		clearing.Revision.Filesize = 0
		clearing.Revision.FileMerkleRoot = types.Hash256{}
		add("contracts.Manager", "RenewContract", "with-roots", func(n *verifNode) error {
			return n.contracts.RenewContract(renewal, clearing, []types.Transaction{{ArbitraryData: [][]byte{{7}}}}, sc(2), contracts.Usage{RPCRevenue: sc(1)}, contracts.Usage{RPCRevenue: sc(1)})
		}).newIDs = []types.FileContractID{renewal.Revision.ParentID}
	}
	d0 := env.v2[0]
	droots := env.v2roots[d0]
	{
		newRoots := append(append([]types.Hash256(nil), droots[:1+rng.Intn(len(droots))]...), free[:1+rng.Intn(2)]...)
		add("contracts.Manager", "ReviseV2Contract", "replace-tail", func(n *verifNode) error {
			fc := env.v2fc[d0]
			fc.RevisionNumber += 2
			fc.Filesize = uint64(len(newRoots)) * proto4.SectorSize
			fc.Capacity = fc.Filesize
			fc.FileMerkleRoot = rhp2.MetaRoot(newRoots)
			verifSignV2(n, env, &fc)
			return n.contracts.ReviseV2Contract(d0, fc, newRoots, proto4.Usage{Storage: sc(1), RiskedCollateral: sc(1)})
		})
		badRoots := append(append([]types.Hash256(nil), droots...), free[0], types.Hash256{0xee, 2})
		add("contracts.Manager", "ReviseV2Contract", "unknown-root", func(n *verifNode) error {
			fc := env.v2fc[d0]
			fc.RevisionNumber += 2
			fc.Filesize = uint64(len(badRoots)) * proto4.SectorSize
			fc.Capacity = fc.Filesize
			fc.FileMerkleRoot = rhp2.MetaRoot(badRoots)
			verifSignV2(n, env, &fc)
			return n.contracts.ReviseV2Contract(d0, fc, badRoots, proto4.Usage{Storage: sc(1), RiskedCollateral: sc(1)})
		})
		nfc := env.newV2(rng, 700, 800).V2FileContract
		old := env.v2fc[d0]
		nfc.Filesize, nfc.Capacity, nfc.FileMerkleRoot = old.Filesize, old.Capacity, old.FileMerkleRoot
		renewalSet := rhp4.TransactionSet{Transactions: []types.V2Transaction{{
			FileContractResolutions: []types.V2FileContractResolution{{
				Parent:     types.V2FileContractElement{ID: d0, V2FileContract: old},
				Resolution: &types.V2FileContractRenewal{NewContract: nfc, FinalRenterOutput: old.RenterOutput, FinalHostOutput: old.HostOutput},
			}},
		}}}
		add("contracts.Manager", "RenewV2Contract", "with-roots", func(n *verifNode) error {
			return n.contracts.RenewV2Contract(renewalSet, proto4.Usage{RPC: sc(1)})
		}).newIDs = []types.FileContractID{d0.V2RenewalID()}
		fc := env.v2fc[d0]
		fc.RevisionNumber += 2
		add("contracts.Manager", "CreditAccountsWithContract", "deposit", func(n *verifNode) error {
			_, err := n.contracts.CreditAccountsWithContract([]proto4.AccountDeposit{{Account: env.acct4[0], Amount: sc(1)}}, d0, fc, proto4.Usage{AccountFunding: sc(1)})
			return err
		})
		add("contracts.Manager", "DebitAccount", "funded", func(n *verifNode) error {
			return n.contracts.DebitAccount(env.acct4[0], proto4.Usage{RPC: types.NewCurrency64(1000)})
		})
	}
	// ---- accounts
	{
		rev := env.v1rev[c0]
		rev.Revision.RevisionNumber += 2
		for i, acc := range env.acct3 {
			fund := accounts.FundAccountWithContract{Account: acc, Cost: types.NewCurrency64(1), Amount: sc(1), Revision: rev, Expiration: time.Now().Add(time.Hour)}
			add("accounts.AccountManager", "Credit", []string{"existing-account", "new-account"}[i], func(n *verifNode) error {
				_, err := n.accounts.Credit(fund, false)
				return err
			})
		}
		fundOpen := accounts.FundAccountWithContract{Account: env.acct3[0], Cost: types.NewCurrency64(1), Amount: sc(1), Revision: rev, Expiration: time.Now().Add(time.Hour)}
		add("accounts.AccountManager", "Credit", "while-a-budget-is-open", func(n *verifNode) error {
			bud, err := n.accounts.Budget(env.acct3[0], types.NewCurrency64(5000))
			if err != nil {
				return err
			}
			defer bud.Rollback()
			_, cerr := n.accounts.Credit(fundOpen, false)
			// with the budget still open the in-memory balance is the stored one minus the reservation
			mb, _ := n.accounts.Balance(env.acct3[0])
			n.ctl.mu.Lock()
			armed := n.ctl.armed
			n.ctl.armed = false
			n.ctl.mu.Unlock()
			sb, serr := n.store.AccountBalance(env.acct3[0])
			n.ctl.mu.Lock()
			n.ctl.armed = armed
			n.ctl.mu.Unlock()
			if serr == nil && !mb.Add(types.NewCurrency64(5000)).Equals(sb) {
				verifOpNote = fmt.Sprintf("with a budget of 5000 H open, Balance() = %v but the store has %v (Credit returned %v)", mb, sb, cerr)
			}
			return cerr
		})
		spend := accounts.Usage{RPCRevenue: types.NewCurrency64(uint64(1 + rng.Intn(1000))), EgressRevenue: types.NewCurrency64(uint64(rng.Intn(1000)))}
		add("accounts.Budget", "Commit", "budget-spend-commit", func(n *verifNode) error {
			bud, err := n.accounts.Budget(env.acct3[0], sc(1))
			if err != nil {
				return err
			}
			defer bud.Rollback()
			if err := bud.Spend(spend); err != nil {
				return err
			}
			return bud.Commit()
		})
	}
	// ---- settings
	{
		st := settings.DefaultSettings
		st.NetAddress = "changed.example:9982"
		st.MaxRegistryEntries = uint64(8 + rng.Intn(8))
		st.ContractPrice = sc(uint32(1 + rng.Intn(4)))
		st.IngressLimit = uint64(rng.Intn(100000))
		o := add("settings.ConfigManager", "UpdateSettings", "change", func(n *verifNode) error {
			s := st
			s.Revision = n.settings.Settings().Revision // the API patches the current settings
			return n.settings.UpdateSettings(s)
		})
		o.tol = 1
	}
	// ---- webhooks
	add("webhooks.Manager", "RegisterWebhook", "new", func(n *verifNode) error {
		_, err := n.webhooks.RegisterWebhook("http://127.0.0.1:1/new", []string{"wallet", "alerts/info"})
		return err
	})
	add("webhooks.Manager", "UpdateWebhook", "existing", func(n *verifNode) error {
		_, err := n.webhooks.UpdateWebhook(env.hooks[0], "http://127.0.0.1:1/upd", []string{"test"})
		return err
	})
	add("webhooks.Manager", "RemoveWebhook", "existing", func(n *verifNode) error { return n.webhooks.RemoveWebhook(env.hooks[1]) })
	// ---- registry
	{
		mk := func(k rhp3.RegistryKey, rev uint64) rhp3.RegistryEntry {
			e := rhp3.RegistryEntry{RegistryKey: k, RegistryValue: rhp3.RegistryValue{Revision: rev, Type: rhp3.EntryTypeArbitrary, Data: []byte{byte(rng.Intn(200))}}}
			e.Signature = env.renterKey.SignHash(e.Hash())
			return e
		}
		ins, upd := mk(env.regKeys[1], 1), mk(env.regKeys[0], 5)
		add("registry.Manager", "Put", "insert", func(n *verifNode) error { _, err := n.registry.Put(ins, 1000); return err })
		add("registry.Manager", "Put", "update", func(n *verifNode) error { _, err := n.registry.Put(upd, 1000); return err })
	}
	return ops
}

// verifOpNote is set by an operation that found the managers' live in-memory state out of
// step with the store while it was running
var verifOpNote string

func verifMgrCall(op verifMgrOp, n *verifNode, failAt, kind int) (class int, err error, trace string, fired bool) {
	verifOpNote = ""
	n.ctl.Arm(failAt, kind)
	func() {
		defer func() {
			if r := recover(); r != nil {
				class, err = 2, fmt.Errorf("panic: %v", r)
			}
		}()
		err = op.run(n)
		if err != nil {
			class = 1
		}
	}()
	trace, _, fired = n.ctl.Disarm()
	return
}

func TestVerifC09Mgr(t *testing.T) {
	em := newVerifEmitter(t, "From HostdBase Require Import Base.\nFrom Coq Require Import String.\nFrom HostdTxn Require Import Model.\nOpen Scope string_scope.", "case", "check")
	defer em.Close()
	log := verifNopLog()
	dir := t.TempDir()
	caseID := 0
	for tpl := 0; tpl < verifN(2); tpl++ {
		trng := rand.New(rand.NewSource(verifSeed()*104729 + int64(tpl)))
		tplDir := filepath.Join(dir, fmt.Sprintf("tpl%d", tpl))
		os.MkdirAll(tplDir, 0o755)
		tplPath := filepath.Join(tplDir, "hostd.sqlite3")
		s, err := OpenDatabase(tplPath, log)
		if err != nil {
			t.Fatal(err)
		}
		env := verifPopulate(t, s, trng, 3+trng.Intn(3))
		s.Close()
		ops := verifMgrOps(env, trng)
		cm, _ := verifNewChain(t, true)
		for oi, op := range ops {
			id := caseID
			caseID++
			if em.Skip(id) {
				continue
			}
			name := op.typ + "." + op.method
			full := name + "/" + op.variant
			em.BeginCase(id, fmt.Sprintf("template %d manager op %s", tpl, full))
			open := func(tag string) *verifNode {
				d := filepath.Join(dir, fmt.Sprintf("m%d_%d_%s", tpl, oi, tag))
				os.MkdirAll(d, 0o755)
				verifCopyFile(t, tplPath, filepath.Join(d, "hostd.sqlite3"))
				return verifOpenNode(t, d, env.hostKey, cm, false, 0)
			}
			call := func(f string) string {
				return fmt.Sprintf("MgrCall \"%s\" \"%s\"", op.typ, op.method) + f
			}
			// reference run
			rn := open("ref")
			base := verifCoherence(rn, env, op.newIDs)
			refClass, refErr, ref, _ := verifMgrCall(op, rn, -1, verifFaultNone)
			refPost := verifSnapshot(t, rn.store, rn.path, env, true)
			refCoh := verifNewIncoherence(base, verifCoherence(rn, env, op.newIDs))
			rn.Close()
			if refClass != 0 && os.Getenv("VERIF_DEBUG") != "" {
				t.Logf("reference run of %s: class %d: %v", full, refClass, refErr)
			}
			em.Step(call(fmt.Sprintf(" \"%s\" %d%%N None %d%%N", ref, refClass, op.tol)),
				fmt.Sprintf("OMgr %d%%N \"%s\" %s", refClass, ref, coqBool(refClass == 0 || refCoh == "")))
			em.Count("mgr-op:" + name)
			if refCoh != "" && refClass == 0 {
				em.Count("incoherent-after-success:" + name)
			} else if refCoh != "" {
				// the operation failed by itself (no injected fault): the cache must not have moved
				em.Monitor("cache-differs-from-store-after-failed-call:"+name, fmt.Sprintf("%s (%v): %s", full, refErr, refCoh))
			}
			n := verifEligible(ref)
			fn := open("fault")
			pre := verifSnapshot(t, fn.store, fn.path, env, false)
			for k := 0; k < n; k++ {
				class, err, trace, fired := verifMgrCall(op, fn, k, verifFaultHard)
				post := verifSnapshot(t, fn.store, fn.path, env, false)
				inc := verifNewIncoherence(base, verifCoherence(fn, env, op.newIDs))
				d := pre.diff(post)
				em.Step(call(fmt.Sprintf(" \"%s\" %d%%N %s %d%%N", ref, refClass, verifFaultTerm(k, "Hard"), op.tol)),
					fmt.Sprintf("OMgr %d%%N \"%s\" %s", class, trace, coqBool(inc == "")))
				em.Count("mgr-fault:hard")
				if !fired {
					em.Monitor("fault-not-reached:"+name, fmt.Sprintf("%s k=%d of %d: trace %s", full, k, n, trace))
					continue
				}
				if class == 0 {
					// the method tolerates the failure of this call (e.g. a read-back): it
					// must then have done all of its work
					em.Count("tolerated-fault:" + name)
				}
				if verifOpNote != "" {
					em.Monitor("cache-differs-from-store-after-failed-call:"+name, fmt.Sprintf("%s k=%d: %s", full, k, verifOpNote))
				}
				if inc != "" {
					em.Monitor("cache-differs-from-store-after-failed-call:"+name, fmt.Sprintf("%s k=%d (%v): %s", full, k, err, inc))
				}
				if class != 0 && d != "" && !strings.Contains(trace, "C") {
					em.Monitor("failed-call-changed-state:"+name, fmt.Sprintf("%s k=%d (%v): %s", full, k, err, d))
				}
				if d != "" || inc != "" {
					fn.Close()
					fn = open("fault")
				}
			}
			class, _, trace, _ := verifMgrCall(op, fn, -1, verifFaultNone)
			retryPost := verifSnapshot(t, fn.store, fn.path, env, true)
			inc := verifNewIncoherence(base, verifCoherence(fn, env, op.newIDs))
			fn.Close()
			em.Step(call(fmt.Sprintf(" \"%s\" %d%%N None %d%%N", ref, refClass, op.tol)),
				fmt.Sprintf("OMgr %d%%N \"%s\" %s", class, trace, coqBool(true)))
			if class != refClass {
				em.Monitor("retry-after-fault-failed:"+name, fmt.Sprintf("%s: reference run class %d, retry after %d failed calls class %d", full, refClass, n, class))
			} else if d := refPost.diff(retryPost); d != "" && !strings.Contains(full, "RegisterWebhook") {
				em.Monitor("retry-diverges:"+name, fmt.Sprintf("%s: %s", full, d))
			} else if inc != refCoh {
				em.Monitor("cache-differs-from-store-after-retry:"+name, fmt.Sprintf("%s: %s", full, inc))
			}
			em.EndCase(n > 0)
		}
	}
	verifVolumeFaults(t, em, caseID)
	verifIndexFaults(t, em, caseID+100, 1)
	if verifN(2) > 2 {
		verifIndexFaults(t, em, caseID+101, 3)
	}
}

// ---- storage.VolumeManager: real volume files; monitors only (the background
// goroutine that grows a volume makes the driver trace depend on timing)

func verifVolumeFaults(t *testing.T, em *verifEmitter, id int) {
	dir := t.TempDir()
	hostKey := types.NewPrivateKeyFromSeed(make([]byte, 32))
	cm, _ := verifNewChain(t, true)
	addVolume := func(n *verifNode, path string, sectors uint64) error {
		res := make(chan error, 1)
		if _, err := n.volumes.AddVolume(context.Background(), path, sectors, res); err != nil {
			return err
		}
		return <-res
	}
	volState := func(n *verifNode) string {
		vols, err := n.store.Volumes()
		if err != nil {
			return "ERR " + err.Error()
		}
		b, _ := json.Marshal(vols)
		used, total, _ := n.store.StorageUsage()
		return fmt.Sprintf("%s used=%d total=%d inv=%s", b, used, total, verifInvariants(t, n.path))
	}
	for rep := 0; rep < 1+verifN(2)/8; rep++ {
		if em.Skip(id) {
			id++
			continue
		}
		em.BeginCase(id, "VolumeManager.AddVolume with the k-th database call failing")
		d := filepath.Join(dir, fmt.Sprintf("v%d", rep))
		os.MkdirAll(d, 0o755)
		n := verifOpenNode(t, d, hostKey, cm, false, 0)
		if err := addVolume(n, filepath.Join(d, "base.dat"), 4); err != nil {
			t.Fatal(err)
		}
		// reference: count the calls of an un-faulted AddVolume
		n.ctl.Arm(-1, verifFaultNone)
		if err := addVolume(n, filepath.Join(d, "ref.dat"), 3); err != nil {
			t.Fatal(err)
		}
		_, calls, _ := n.ctl.Disarm()
		for k := 0; k < calls; k++ {
			path := filepath.Join(d, fmt.Sprintf("vol-k%d.dat", k))
			before := volState(n)
			n.ctl.Arm(k, verifFaultHard)
			err := addVolume(n, path, 3)
			_, _, fired := n.ctl.Disarm()
			em.Count("volume-fault:AddVolume")
			if !fired {
				continue
			}
			after := volState(n)
			if err == nil {
				em.Count("volume-fault-tolerated:AddVolume")
				continue
			}
			// registering the volume is the all-or-nothing part; once it is registered the
			// asynchronous initialisation progresses in batches by design
			registered := strings.Contains(after, path)
			if registered {
				em.Count("volume-fault-after-registration:AddVolume")
				continue
			}
			if after != before {
				em.Monitor("failed-call-changed-state:storage.VolumeManager.AddVolume", fmt.Sprintf("k=%d (%v): before %s after %s", k, err, before, after))
			}
			// a failed AddVolume, retried with the same arguments
			if err2 := addVolume(n, path, 3); err2 != nil {
				em.Monitor("retry-after-fault-failed:storage.VolumeManager.AddVolume", fmt.Sprintf("k=%d: AddVolume failed with %q before the volume was registered; the retry with the same path fails with %q", k, err, err2))
			}
		}
		n.Close()
		id++
	}
	_ = bytes.Compare
	_ = webhooks.ScopeAll
}

// ---- index.Manager on a real chain: a batch of chain updates changes wallet,
// contracts, announcement and the processed-tip marker together or not at all, the
// in-memory tip follows the marker, and after the failure the indexer (in-process or
// after a restart) converges to the state of a twin host that never saw a fault.

func verifQuiesce(ctl *verifFaultCtl, d time.Duration) {
	last, stable := -1, 0
	deadline := time.Now().Add(d)
	for time.Now().Before(deadline) {
		ctl.mu.Lock()
		n := len(ctl.trace)
		ctl.mu.Unlock()
		if n == last {
			stable++
			if stable >= 25 {
				return
			}
		} else {
			last, stable = n, 0
		}
		time.Sleep(time.Millisecond)
	}
}

func verifIndexFaults(t *testing.T, em *verifEmitter, id int, batch int) {
	if em.Skip(id) {
		return
	}
	em.BeginCase(id, fmt.Sprintf("index.Manager.syncDB with the k-th database call failing (batch size %d)", batch))
	dir := t.TempDir()
	hostKey := types.NewPrivateKeyFromSeed(bytes.Repeat([]byte{7}, 32))
	addr := types.StandardUnlockHash(hostKey.PublicKey())
	cm, _ := verifNewChain(t, false)
	env := &verifEnv{hostKey: hostKey}
	open := func(name string) *verifNode {
		d := filepath.Join(dir, name)
		os.MkdirAll(d, 0o755)
		return verifOpenNode(t, d, hostKey, cm, true, batch)
	}
	a, b := open("a"), open("b")
	defer func() { a.Close(); b.Close() }()
	sync := func(what string) bool {
		if !a.waitSynced(t, 10*time.Second) {
			em.Monitor("indexer-does-not-converge", fmt.Sprintf("%s: index tip %v, chain tip %v, store tip %v", what, a.index.Tip(), cm.Tip(), verifTip(a.store)))
			return false
		}
		if !b.waitSynced(t, 10*time.Second) {
			t.Fatalf("%s: twin does not sync", what)
		}
		verifQuiesce(a.ctl, time.Second)
		return true
	}
	// the host earns block rewards, they mature, and it announces itself
	verifMine(t, cm, addr, 8)
	if !sync("initial") {
		return
	}
	if err := a.settings.Announce(); err != nil {
		t.Log("announce:", err)
	}
	verifMine(t, cm, addr, 2)
	if !sync("announcement") {
		return
	}
	cmp := func(what string) {
		sa := verifSnapshot(t, a.store, a.path, env, true)
		sb := verifSnapshot(t, b.store, b.path, env, true)
		// the host key differs per database; everything else is a function of the chain
		if d := verifChainDiff(sa, sb); d != "" {
			em.Monitor("resume-diverges-from-uninterrupted-run", what+": "+d)
		}
		if st := verifTip(a.store); st != a.index.Tip() {
			em.Monitor("index-tip-differs-from-store", fmt.Sprintf("%s: index %v store %v", what, a.index.Tip(), st))
		}
	}
	cmp("before the faults")
	kstep := 1
	if verifTier() != "thorough" {
		kstep = 2 // quick tier: every other call of the batch (the post-commit calls are all covered below)
	}
	for k := 0; k < 400; k += kstep {
		pre := verifSnapshot(t, a.store, a.path, env, false)
		preTip := verifTip(a.store)
		// the first blocks pay the host (its outputs are created, mature and are re-proved
		// in later batches); later blocks pay nobody so that a batch stays the same size
		payee := types.VoidAddress
		if k < 6 {
			payee = addr
		}
		a.ctl.Arm(k, verifFaultHard)
		verifMine(t, cm, payee, 1)
		// wait for the fault (or for the sync to complete without reaching call k)
		deadline := time.Now().Add(5 * time.Second)
		for time.Now().Before(deadline) {
			a.ctl.mu.Lock()
			fired := a.ctl.fired
			a.ctl.mu.Unlock()
			if fired || a.index.Tip() == cm.Tip() {
				break
			}
			time.Sleep(time.Millisecond)
		}
		verifQuiesce(a.ctl, time.Second)
		trace, _, fired := a.ctl.Disarm()
		em.Count("index-fault")
		if os.Getenv("VERIF_DEBUG") != "" && (k < 3 || k%50 == 0) {
			t.Logf("index k=%d fired=%v trace=%s", k, fired, trace)
		}
		if !fired {
			em.Count(fmt.Sprintf("index-sync-calls:%d", k))
			sync("last")
			cmp("after the last block")
			verifIndexPostCommit(t, em, a, b, cm, func(to types.Address) { verifMine(t, cm, to, 1) }, addr, sync, cmp)
			break
		}
		inTxn := !strings.Contains(trace[:strings.IndexAny(trace, "bpxc")], "C")
		post := verifSnapshot(t, a.store, a.path, env, false)
		if inTxn {
			em.Count("index-fault:in-batch")
			if d := pre.diff(post); d != "" {
				em.Monitor("failed-batch-changed-state:index.Manager.syncDB", fmt.Sprintf("k=%d trace %s: %s", k, trace, d))
			}
			if st := verifTip(a.store); st != preTip {
				em.Monitor("failed-batch-moved-marker:index.Manager.syncDB", fmt.Sprintf("k=%d: marker %v -> %v", k, preTip, st))
			}
		} else {
			em.Count("index-fault:after-commit")
		}
		if st := verifTip(a.store); st != a.index.Tip() {
			em.Monitor("index-tip-differs-from-store-after-failed-sync", fmt.Sprintf("k=%d (trace %s): the store's marker is %v, the index manager's tip %v", k, trace, st, a.index.Tip()))
		}
		// resume: in-process (the next block triggers a sync) or after a restart
		if (k/kstep)%2 == 1 {
			a.Close()
			a = open("a")
			em.Count("index-resume:restart")
		} else {
			em.Count("index-resume:in-process")
		}
		verifMine(t, cm, types.VoidAddress, 1)
		if !sync(fmt.Sprintf("resume after fault k=%d", k)) {
			return
		}
		cmp(fmt.Sprintf("after the fault at k=%d (trace %s) and the resume", k, trace))
	}
}

// verifIndexPostCommit: the fault hits one of the calls syncDB makes after the batch
// was committed, in a block that pays the host (re-applying it is not idempotent).
func verifIndexPostCommit(t *testing.T, em *verifEmitter, a, b *verifNode, cm interface{ Tip() types.ChainIndex }, mine func(types.Address), addr types.Address, sync func(string) bool, cmp func(string)) {
	for j := 0; j < 40; j++ {
		a.ctl.ArmAfterCommit(j)
		mine(addr)
		deadline := time.Now().Add(5 * time.Second)
		for time.Now().Before(deadline) {
			a.ctl.mu.Lock()
			fired := a.ctl.fired
			a.ctl.mu.Unlock()
			if fired || a.index.Tip() == cm.Tip() {
				break
			}
			time.Sleep(time.Millisecond)
		}
		verifQuiesce(a.ctl, time.Second)
		trace, _, fired := a.ctl.Disarm()
		if !fired {
			sync("post-commit: last")
			return
		}
		em.Count("index-fault:after-commit-paid-block")
		if st := verifTip(a.store); st != a.index.Tip() {
			em.Monitor("index-tip-differs-from-store-after-failed-sync", fmt.Sprintf("post-commit call %d (trace %s): the store's marker is %v, the index manager's tip %v", j, trace, st, a.index.Tip()))
		}
		mine(types.VoidAddress)
		if !sync(fmt.Sprintf("resume after post-commit fault %d", j)) {
			return
		}
		cmp(fmt.Sprintf("after the fault at post-commit call %d (trace %s) and the in-process resume", j, trace))
	}
}

func verifTip(s *Store) types.ChainIndex {
	tip, _ := s.Tip()
	return tip
}

// verifChainDiff compares two hosts that followed the same chain: settings revision,
// host key and peers are per-host, everything derived from the chain must be equal.
func verifChainDiff(a, b verifSnap) string {
	keep := func(s string) string {
		var out []string
		for _, l := range strings.Split(s, "\n") {
			if strings.HasPrefix(l, "global_settings|") {
				// drop the host key column
				parts := strings.Split(l, "|")
				var kept []string
				for _, p := range parts {
					if !strings.HasPrefix(p, "host_key=") {
						kept = append(kept, p)
					}
				}
				l = strings.Join(kept, "|")
			}
			out = append(out, l)
		}
		return strings.Join(out, "\n")
	}
	a.dump, b.dump = keep(a.dump), keep(b.dump)
	return a.diff(b)
}
