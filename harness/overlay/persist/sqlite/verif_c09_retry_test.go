//go:build verif

package sqlite

// C09, transient faults: Store.transaction rolls a transaction that failed with "database is
// locked" back and runs its closure again.  The database part of the failed attempt is gone,
// the Go-side state the closure shares with its function is not.  For every exported Store
// method (the operations of the permanent fault enumeration plus every getter) and every
// database call k of its un-faulted run, the call is made to fail once with the retryable
// error; the operation must then succeed exactly like the un-faulted twin run on an identical
// store: same result class, same returned values, and afterwards the same answer from every
// getter, the same metrics and the same rows in every table.  Sampled: the fault repeated in
// several attempts in a row ([k,k,k] and [k,0,0], see verifFaultCtl.plan).  In the
// repository's `testing` build (9 attempts, back-off 2..512 ms) also: a database that stays
// locked until the budget is exhausted — the call must fail and leave no trace.

import (
	"fmt"
	"math/rand"
	"os"
	"path/filepath"
	"regexp"
	"runtime/debug"
	"sort"
	"strings"
	"sync"
	"testing"
	"time"

	"go.sia.tech/core/types"
	"go.sia.tech/hostd/v2/host/contracts"
)

// a getter under test: returns its rendered result
type verifGetterOp struct {
	method string
	run    func(s *Store) (string, error)
}

func verifGetterOps(env *verifEnv) []verifGetterOp {
	var ops []verifGetterOp
	add := func(method string, run func(s *Store) (any, error)) {
		ops = append(ops, verifGetterOp{method, func(s *Store) (string, error) {
			v, err := run(s)
			return verifJSON(v), err
		}})
	}
	add("Contracts", func(s *Store) (any, error) {
		cs, n, err := s.Contracts(contracts.ContractFilter{Limit: 100})
		return []any{n, cs}, err
	})
	add("V2Contracts", func(s *Store) (any, error) {
		cs, n, err := s.V2Contracts(contracts.V2ContractFilter{Limit: 100})
		return []any{n, cs}, err
	})
	add("Contract", func(s *Store) (any, error) { return s.Contract(env.v1[0]) })
	add("V2Contract", func(s *Store) (any, error) { return s.V2Contract(env.v2[0]) })
	add("V2ContractElement", func(s *Store) (any, error) {
		b, e, err := s.V2ContractElement(env.v2[0])
		return []any{b, e}, err
	})
	add("SectorRoots", func(s *Store) (any, error) { m, err := s.SectorRoots(); return verifRootMap(m), err })
	add("V2SectorRoots", func(s *Store) (any, error) { m, err := s.V2SectorRoots(); return verifRootMap(m), err })
	add("Volumes", func(s *Store) (any, error) { return s.Volumes() })
	add("Volume", func(s *Store) (any, error) { return s.Volume(env.vols[0]) })
	add("StorageUsage", func(s *Store) (any, error) { u, t, err := s.StorageUsage(); return []uint64{u, t}, err })
	add("Accounts", func(s *Store) (any, error) { return s.Accounts(100, 0) })
	add("AccountBalance", func(s *Store) (any, error) { return s.AccountBalance(env.acct3[0]) })
	add("AccountFunding", func(s *Store) (any, error) { return s.AccountFunding(env.acct3[0]) })
	add("RHP4AccountBalances", func(s *Store) (any, error) { return s.RHP4AccountBalances(env.acct4) })
	add("RHP4AccountBalance", func(s *Store) (any, error) { return s.RHP4AccountBalance(env.acct4[0]) })
	add("Settings", func(s *Store) (any, error) { return s.Settings() })
	add("PinnedSettings", func(s *Store) (any, error) { return s.PinnedSettings(nil) })
	add("Webhooks", func(s *Store) (any, error) { return s.Webhooks() })
	add("RegistryEntries", func(s *Store) (any, error) { c, l, err := s.RegistryEntries(); return []uint64{c, l}, err })
	add("GetRegistryValue", func(s *Store) (any, error) { return s.GetRegistryValue(env.regKeys[0]) })
	add("Metrics", func(s *Store) (any, error) { return s.Metrics(time.Unix(2000000000, 0)) })
	add("Tip", func(s *Store) (any, error) { return s.Tip() })
	add("LastAnnouncement", func(s *Store) (any, error) { return s.LastAnnouncement() })
	add("LastV2AnnouncementHash", func(s *Store) (any, error) {
		h, i, err := s.LastV2AnnouncementHash()
		return []any{h, i}, err
	})
	add("UnspentSiacoinElements", func(s *Store) (any, error) { return s.UnspentSiacoinElements() })
	add("WalletEvents", func(s *Store) (any, error) { return s.WalletEvents(0, 100) })
	add("WalletEventCount", func(s *Store) (any, error) { return s.WalletEventCount() })
	add("Peers", func(s *Store) (any, error) { return s.Peers() })
	add("HasSector", func(s *Store) (any, error) { return s.HasSector(env.roots[0]) })
	add("ContractChainIndexElement", func(s *Store) (any, error) { return s.ContractChainIndexElement(env.tip) })
	add("ContractActions", func(s *Store) (any, error) {
		return s.ContractActions(types.ChainIndex{Height: env.height}, env.height+10)
	})
	add("RebroadcastFormationSets", func(s *Store) (any, error) { return s.RebroadcastFormationSets(0) })
	return ops
}

// verifCallTransient runs one operation with the transient plan armed.
func verifCallTransient(op verifOp, s *Store, ctl *verifFaultCtl, plan []int) (class int, err error, trace string, fired int, result string) {
	ctl.ArmTransient(plan)
	ctl.result = ""
	func() {
		defer func() {
			if r := recover(); r != nil {
				class, err = 2, fmt.Errorf("panic: %v", r)
				if os.Getenv("VERIF_DEBUG") != "" {
					fmt.Fprintf(os.Stderr, "panic in %s/%s: %v\n%s\n", op.method, op.variant, r, debug.Stack())
				}
			}
		}()
		err = op.run(s, ctl, false)
		if err != nil {
			class = 1
		}
	}()
	fired = ctl.TransientFired()
	trace, _, _ = ctl.Disarm()
	return class, err, trace, fired, ctl.result
}

// what one faulted run on its own copy of the store showed
type verifRetryOutcome struct {
	plan   []int
	record bool
	class  int
	err    error
	trace  string
	fired  int
	result string
	post   verifSnap
}

// verifFaultIndices: the calls of the reference trace that belong to a transaction (Begin ..
// Commit; a statement on the raw connection such as VACUUM is not retried by anyone) — all of
// them up to kcap, beyond that the transaction boundaries and a sample
func verifFaultIndices(ref string, kcap int, rng *rand.Rand) []int {
	var in []int
	e, open := 0, false
	for _, c := range ref {
		if !strings.ContainsRune("BPXC", c) {
			if c == 'R' {
				open = false
			}
			continue
		}
		if c == 'B' {
			open = true
		}
		if open {
			in = append(in, e)
		}
		if c == 'C' {
			open = false
		}
		e++
	}
	if len(in) <= kcap {
		return in
	}
	isIn := map[int]bool{}
	for _, k := range in {
		isIn[k] = true
	}
	seen := map[int]bool{}
	e = 0
	for _, c := range ref {
		if c == 'B' || c == 'C' {
			for _, k := range []int{e - 1, e, e + 1} {
				if isIn[k] && len(seen) < kcap {
					seen[k] = true
				}
			}
		}
		if strings.ContainsRune("BPXC", c) {
			e++
		}
	}
	for len(seen) < kcap {
		seen[in[rng.Intn(len(in))]] = true
	}
	var ks []int
	for k := range seen {
		ks = append(ks, k)
	}
	sort.Ints(ks)
	return ks
}

// copies of the store worked on at the same time
const verifRetryWorkers = 8

func verifPlanString(plan []int) string {
	return strings.Trim(strings.ReplaceAll(fmt.Sprint(plan), " ", ","), "[]")
}

func TestVerifC09Retry(t *testing.T) {
	em := newVerifEmitter(t, "From HostdBase Require Import Base.\nFrom Coq Require Import String.\nFrom HostdTxn Require Import Model.\nOpen Scope string_scope.", "case", "check")
	defer em.Close()
	log := verifNopLog()
	dir := t.TempDir()
	// the `testing` build has a budget of 9 attempts with a back-off of 2..512 ms: the only
	// build in which exhausting the budget takes about a second instead of minutes
	exhaust := maxRetryAttempts <= 10
	attempts := maxRetryAttempts - 1
	nTemplates := verifN(1)
	kcap := 40
	if verifTier() == "thorough" {
		kcap = 400
	}
	caseID := 0
	for tpl := 0; tpl < nTemplates; tpl++ {
		trng := rand.New(rand.NewSource(verifSeed()*104729 + int64(tpl)))
		nRoots := 3 + trng.Intn(3)
		if sqlSectorBatchSize < 100 {
			nRoots = 6 + trng.Intn(6)
		}
		tplPath := filepath.Join(dir, fmt.Sprintf("tpl%d.db", tpl))
		var env *verifEnv
		var ops []verifOp
		{
			s, err := OpenDatabase(tplPath, log)
			if err != nil {
				t.Fatal(err)
			}
			env = verifPopulate(t, s, trng, nRoots)
			if err := s.Close(); err != nil {
				t.Fatal(err)
			}
			ops = verifStoreOps(env, trng)
			// a property that borrows this harness for its own operations names them
			// (VERIF_C09_OPS: regular expression on the method name)
			if pat := os.Getenv("VERIF_C09_OPS"); pat != "" {
				re := regexp.MustCompile(pat)
				var sel []verifOp
				for _, op := range ops {
					if re.MatchString(op.method) {
						sel = append(sel, op)
					}
				}
				ops = sel
			}
		}
		// directed (first case of a template): a Prepare that fails after it waited longer than
		// longQueryDuration — what "database is locked" looks like when the busy timeout expires.
		// The operation must report the error (hard fault) or be retried (transient fault).
		if id := caseID; !exhaust {
			caseID++
			if !em.Skip(id) {
				em.BeginCase(id, fmt.Sprintf("template %d directed: a slow failing Prepare", tpl))
				for _, op := range ops {
					if op.method != "RHP4CreditAccounts" && op.method != "ReviseContract" {
						continue
					}
					if op.method == "ReviseContract" && op.variant != "append" {
						continue
					}
					name := op.method + "/" + op.variant
					p := filepath.Join(dir, fmt.Sprintf("d%d_%s.db", tpl, op.method))
					verifCopyFile(t, tplPath, p)
					ds, dctl, err := verifOpenFaultStore(p, log)
					if err != nil {
						t.Fatal(err)
					}
					pre := verifSnapshot(t, ds, p, env, false)
					_, _, ref, _, _ := verifCallTransient(op, ds, dctl, nil)
					ds.Close()
					k := strings.Index(ref, "P") // letters before the first P are eligible calls too
					if k < 0 {
						continue
					}
					for _, transient := range []bool{false, true} {
						verifCopyFile(t, tplPath, p)
						ds, dctl, err = verifOpenFaultStore(p, log)
						if err != nil {
							t.Fatal(err)
						}
						var class int
						var cerr error
						var trace string
						func() {
							defer func() {
								if r := recover(); r != nil {
									class, cerr = 2, fmt.Errorf("panic: %v", r)
								}
							}()
							if transient {
								dctl.ArmTransient([]int{k})
							} else {
								dctl.Arm(k, verifFaultHard)
							}
							dctl.SetSlow(2 * longQueryDuration)
							if cerr = op.run(ds, dctl, false); cerr != nil {
								class = 1
							}
						}()
						trace, _, _ = dctl.Disarm()
						post := verifSnapshot(t, ds, p, env, false)
						ds.Close()
						em.Count("directed:slow-prepare")
						want := 1
						if transient {
							want = 0
						}
						if class != want || verifSwallowedPrepare(trace) {
							em.Monitor(verifSigSwallowedPrepare, fmt.Sprintf("%s: Prepare (call %d) fails after %v (transient=%v): class %d (%v), trace %s, expected class %d", name, k, 2*longQueryDuration, transient, class, cerr, trace, want))
						} else if d := pre.diff(post); !transient && d != "" {
							em.Monitor("failed-call-changed-state:"+op.method, fmt.Sprintf("%s: slow failing Prepare: %s", name, d))
						}
					}
				}
				em.EndCase(true)
			}
		}
		for oi, op := range ops {
			id := caseID
			caseID++
			if em.Skip(id) {
				continue
			}
			if exhaust {
				// the `testing` pass is about the exhausted budget: a handful of operations
				if !map[string]bool{"RHP4CreditAccounts/existing+new": true, "ReviseV2Contract/append": true, "ExpireTempSectors/all": true,
					"MigrateSectors/volume0": true, "IncrementRHPDataUsage/both": true, "UpdateChainState/apply-batch": true}[op.method+"/"+op.variant] {
					continue
				}
			}
			rng := verifCaseRand(id)
			name := op.method + "/" + op.variant
			em.BeginCase(id, fmt.Sprintf("template %d op %s", tpl, name))
			open := func(tag string) (*Store, *verifFaultCtl, string) {
				p := filepath.Join(dir, fmt.Sprintf("r%d_%d_%s.db", tpl, oi, tag))
				verifCopyFile(t, tplPath, p)
				s, ctl, err := verifOpenFaultStore(p, log)
				if err != nil {
					t.Fatal(err)
				}
				return s, ctl, p
			}
			// the fault-free twin
			rs, rctl, rpath := open("ref")
			refPre := verifSnapshot(t, rs, rpath, env, true)
			refClass, _, ref, _, refResult := verifCallTransient(op, rs, rctl, nil)
			refPost := verifSnapshot(t, rs, rpath, env, true)
			rs.Close()
			em.Step(fmt.Sprintf("Call \"%s\" \"%s\" %d%%N None", op.method, ref, refClass),
				fmt.Sprintf("OCall %d%%N \"%s\" %s", refClass, ref, coqBool(refPre.diff(refPost) != "")))
			em.Count("op:" + op.method)
			n := verifEligible(ref)
			// the faulted runs, each on its own copy, a few at a time
			var plans [][]int
			var records []bool
			if !exhaust {
				ks := verifFaultIndices(ref, kcap, rng)
				for _, k := range ks {
					plans, records = append(plans, []int{k}), append(records, true)
				}
				// the fault repeated: the same call of three attempts in a row (for an operation
				// of several transactions: of the transaction that is hit), and the call plus
				// the Begin of the next two attempts
				for rep := 0; rep < 2 && len(ks) > 0; rep++ {
					k := ks[rng.Intn(len(ks))]
					kk := k
					e, lastB := 0, 0
					for _, c := range ref {
						if !strings.ContainsRune("BPXC", c) {
							continue
						}
						if c == 'B' {
							lastB = e
						}
						if e == k {
							kk = k - lastB
							break
						}
						e++
					}
					plans, records = append(plans, []int{k, kk, kk}, []int{k, 0, 0}), append(records, false, false)
				}
			} else if n > 0 && strings.HasPrefix(ref, "B") {
				// a database that stays locked: at Begin, and at the last call of the first
				// transaction (its Commit) in every attempt
				first := strings.IndexAny(ref, "CR")
				nFirst := verifEligible(ref[:first+1])
				for _, k := range []int{0, nFirst - 1} {
					plan := make([]int, attempts)
					for i := range plan {
						plan[i] = k
					}
					plans, records = append(plans, plan), append(records, false)
				}
			}
			outs := make([]verifRetryOutcome, len(plans))
			var wg sync.WaitGroup
			sem := make(chan struct{}, verifRetryWorkers)
			for pi := range plans {
				wg.Add(1)
				sem <- struct{}{}
				go func(pi int) {
					defer wg.Done()
					defer func() { <-sem }()
					o := &outs[pi]
					o.plan, o.record = plans[pi], records[pi]
					ts, tctl, tpath := open(fmt.Sprintf("t%d", pi))
					defer ts.Close()
					if exhaust {
						pre := verifSnapshot(t, ts, tpath, env, false)
						o.class, o.err, o.trace, o.fired, _ = verifCallTransient(op, ts, tctl, o.plan)
						post := verifSnapshot(t, ts, tpath, env, false)
						what := fmt.Sprintf("%s with \"database is locked\" at call %d of %d attempts (trace %s)", name, o.plan[0], attempts, o.trace)
						if verifSwallowedPrepare(o.trace) {
							o.result = verifSigSwallowedPrepare + "\x00" + what
							return
						}
						if o.fired != attempts {
							// the operation ended before the budget was used up
							if d := refPost.diff(verifSnapshot(t, ts, tpath, env, true)); o.class == 0 && d != "" {
								o.result = "retried-operation-differs-from-clean-run:" + op.method + "\x00" + fmt.Sprintf("%s: returned nil after %d failed attempts: %s", what, o.fired, d)
							} else {
								o.result = "fault-not-reached:" + op.method + "\x00" + fmt.Sprintf("%s: %d faults injected", what, o.fired)
							}
							return
						}
						if o.class != 1 || !strings.Contains(fmt.Sprint(o.err), "database is locked") {
							o.result = "exhausted-retries-not-reported:" + op.method + "\x00" + fmt.Sprintf("%s: class %d, %v", what, o.class, o.err)
							return
						}
						if d := pre.diff(post); d != "" {
							o.result = "exhausted-retries-changed-state:" + op.method + "\x00" + fmt.Sprintf("%s: %s", what, d)
							return
						}
						// the database is available again: the operation completes as if nothing had happened
						class2, _, _, _, result2 := verifCallTransient(op, ts, tctl, nil)
						post2 := verifSnapshot(t, ts, tpath, env, true)
						if class2 != refClass {
							o.result = "retried-operation-failed:" + op.method + "\x00" + fmt.Sprintf("%s, then un-faulted: class %d, twin %d", what, class2, refClass)
						} else if result2 != refResult {
							o.result = "retried-operation-returns-different-values:" + op.method + "\x00" + fmt.Sprintf("%s, then un-faulted: returned %s, twin %s", what, result2, refResult)
						} else if d := refPost.diff(post2); d != "" {
							o.result = "retried-operation-differs-from-clean-run:" + op.method + "\x00" + fmt.Sprintf("%s, then un-faulted: %s", what, d)
						} else {
							o.result = ""
						}
						return
					}
					o.class, o.err, o.trace, o.fired, o.result = verifCallTransient(op, ts, tctl, o.plan)
					o.post = verifSnapshot(t, ts, tpath, env, true)
				}(pi)
			}
			wg.Wait()
			for _, o := range outs {
				if exhaust {
					em.Count("exhausted")
					if o.result != "" {
						parts := strings.SplitN(o.result, "\x00", 2)
						em.Monitor(parts[0], parts[1])
					}
					continue
				}
				what := fmt.Sprintf("%s with \"database is locked\" at call(s) %s of %d (trace %s)", name, verifPlanString(o.plan), n, o.trace)
				em.Count(fmt.Sprintf("transient:%d-faults", len(o.plan)))
				if o.fired == 0 {
					em.Monitor("fault-not-reached:"+op.method, what)
					continue
				}
				em.Count(fmt.Sprintf("transient-fired:%d", o.fired))
				if verifSwallowedPrepare(o.trace) {
					em.Monitor(verifSigSwallowedPrepare, fmt.Sprintf("%s: class %d (%v)", what, o.class, o.err))
					continue
				}
				quiet := true
				if o.class != refClass {
					em.Monitor("retried-operation-failed:"+op.method, fmt.Sprintf("%s: class %d (%v), the un-faulted twin run: class %d", what, o.class, o.err, refClass))
					quiet = false
				} else {
					if o.result != refResult {
						em.Monitor("retried-operation-returns-different-values:"+op.method, fmt.Sprintf("%s: returned %s, the un-faulted twin run returned %s", what, o.result, refResult))
						quiet = false
					}
					if d := refPost.diff(o.post); d != "" {
						em.Monitor("retried-operation-differs-from-clean-run:"+op.method, fmt.Sprintf("%s: %s", what, d))
						quiet = false
					}
				}
				// the model predicts the driver trace of a transparent retry; a run that a monitor
				// already reports is not recorded for it as well
				if o.record && quiet {
					em.Step(fmt.Sprintf("Call \"%s\" \"%s\" %d%%N %s", op.method, ref, refClass, verifFaultTerm(o.plan[0], "Busy")),
						fmt.Sprintf("OCall %d%%N \"%s\" %s", o.class, o.trace, coqBool(refPre.diff(o.post) != "")))
				}
			}
			em.EndCase(n > 0)
		}
		if exhaust {
			continue
		}
		// getters: nothing is written, one store serves all fault positions
		gs, gctl, gpath := func() (*Store, *verifFaultCtl, string) {
			p := filepath.Join(dir, fmt.Sprintf("g%d.db", tpl))
			verifCopyFile(t, tplPath, p)
			s, ctl, err := verifOpenFaultStore(p, log)
			if err != nil {
				t.Fatal(err)
			}
			return s, ctl, p
		}()
		gpre, _ := verifDump(t, gpath, false)
		for _, g := range verifGetterOps(env) {
			id := caseID
			caseID++
			if em.Skip(id) {
				continue
			}
			rng := verifCaseRand(id)
			em.BeginCase(id, fmt.Sprintf("template %d getter %s", tpl, g.method))
			run := func(plan []int) (class int, err error, trace string, fired int, result string) {
				gctl.ArmTransient(plan)
				func() {
					defer func() {
						if r := recover(); r != nil {
							class, err = 2, fmt.Errorf("panic: %v", r)
						}
					}()
					result, err = g.run(gs)
					if err != nil {
						class = 1
					}
				}()
				fired = gctl.TransientFired()
				trace, _, _ = gctl.Disarm()
				return
			}
			refClass, _, ref, _, refResult := run(nil)
			em.Step(fmt.Sprintf("Call \"%s\" \"%s\" %d%%N None", g.method, ref, refClass),
				fmt.Sprintf("OCall %d%%N \"%s\" false", refClass, ref))
			em.Count("getter:" + g.method)
			n := verifEligible(ref)
			var plans [][]int
			gks := verifFaultIndices(ref, kcap, rng)
			for _, k := range gks {
				plans = append(plans, []int{k})
			}
			if len(gks) > 0 {
				k := gks[rng.Intn(len(gks))]
				plans = append(plans, []int{k, k, k}, []int{k, 0, 0})
			}
			for _, plan := range plans {
				class, err, trace, fired, result := run(plan)
				what := fmt.Sprintf("%s with \"database is locked\" at call(s) %s of %d (trace %s)", g.method, verifPlanString(plan), n, trace)
				em.Count(fmt.Sprintf("transient-getter:%d-faults", len(plan)))
				if verifSwallowedPrepare(trace) {
					em.Monitor(verifSigSwallowedPrepare, fmt.Sprintf("%s: class %d (%v)", what, class, err))
				} else if fired == 0 {
					em.Monitor("fault-not-reached:"+g.method, what)
				} else if class != refClass {
					em.Monitor("retried-operation-failed:"+g.method, fmt.Sprintf("%s: class %d (%v), un-faulted: class %d", what, class, err, refClass))
				} else if result != refResult {
					em.Monitor("retried-operation-returns-different-values:"+g.method, fmt.Sprintf("%s: returned %.300s, un-faulted: %.300s", what, result, refResult))
				} else if len(plan) == 1 {
					em.Step(fmt.Sprintf("Call \"%s\" \"%s\" %d%%N %s", g.method, ref, refClass, verifFaultTerm(plan[0], "Busy")),
						fmt.Sprintf("OCall %d%%N \"%s\" false", class, trace))
				}
			}
			em.EndCase(n > 0)
		}
		gs.Close()
		if gpost, _ := verifDump(t, gpath, false); gpost != gpre {
			em.Monitor("getter-changed-state", "the tables differ after the getters ran under transient faults")
		}
	}
}
