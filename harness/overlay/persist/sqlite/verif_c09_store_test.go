//go:build verif

package sqlite

// C09, store level: every exported mutating method of sqlite.Store is run on a populated
// store opened on the fault-injecting driver, once without faults (reference trace and
// post-state) and then with the k-th database call failing, for every k; after each
// failed call every getter, every table, the foreign-key and the integrity check must be
// exactly as before, and an un-faulted retry must reach the reference post-state.

import (
	"context"
	"errors"
	"fmt"
	"math/rand"
	"os"
	"path/filepath"
	"sort"
	"strings"
	"testing"
	"time"

	rhp3 "go.sia.tech/core/rhp/v3"
	proto4 "go.sia.tech/core/rhp/v4"
	"go.sia.tech/core/types"
	"go.sia.tech/coreutils/wallet"
	rhp4 "go.sia.tech/coreutils/rhp/v4"
	"go.sia.tech/hostd/v2/host/accounts"
	"go.sia.tech/hostd/v2/host/contracts"
	"go.sia.tech/hostd/v2/host/settings"
	"go.sia.tech/hostd/v2/host/settings/pin"
	"go.sia.tech/hostd/v2/host/storage"
	"go.sia.tech/hostd/v2/index"
)

// a verifOp is one call of an exported Store method with fixed arguments
type verifOp struct {
	method  string // name of the exported Store method
	variant string
	ext     bool // the method calls back into the caller (data write) between/inside transactions
	run     func(s *Store, ctl *verifFaultCtl, extFail bool) error
}

var errVerifExt = errors.New("verif: injected data-write failure")

// verifStoreOps draws the arguments of every operation for the given pre-state.
func verifStoreOps(env *verifEnv, rng *rand.Rand) []verifOp {
	var ops []verifOp
	add := func(method, variant string, run func(s *Store) error) {
		ops = append(ops, verifOp{method: method, variant: variant, run: func(s *Store, _ *verifFaultCtl, _ bool) error { return run(s) }})
	}
	addExt := func(method, variant string, run func(s *Store, ctl *verifFaultCtl, extFail bool) error) {
		ops = append(ops, verifOp{method: method, variant: variant, ext: true, run: run})
	}
	sc := func(n uint32) types.Currency { return types.Siacoins(n) }
	pick := func(n int) int {
		if n <= 0 {
			return 0
		}
		return rng.Intn(n)
	}

	// ---- v1 contracts
	{
		rev := env.newV1(rng, 300+uint64(pick(50)), 400)
		add("AddContract", "new", func(s *Store) error {
			return s.AddContract(rev, []types.Transaction{{ArbitraryData: [][]byte{{9}}}}, sc(1), contracts.Usage{RPCRevenue: sc(1)}, 90)
		})
		dup := env.v1rev[env.v1[0]]
		add("AddContract", "duplicate-id", func(s *Store) error {
			return s.AddContract(dup, nil, sc(1), contracts.Usage{}, 90)
		})
	}
	c0 := env.v1[0]
	roots0 := env.v1roots[c0]
	free := env.free[2:]
	reviseV1 := func(variant string, changes []contracts.SectorChange, delta int) {
		rev := env.v1rev[c0]
		rev.Revision.RevisionNumber += 2
		rev.Revision.Filesize = uint64(len(roots0)+delta) * proto4.SectorSize
		usage := contracts.Usage{StorageRevenue: sc(uint32(1 + pick(3))), IngressRevenue: types.NewCurrency64(uint64(pick(100))), RiskedCollateral: sc(1)}
		add("ReviseContract", variant, func(s *Store) error { return s.ReviseContract(rev, roots0, usage, changes) })
	}
	{
		nApp := 1 + pick(3)
		var app []contracts.SectorChange
		for i := 0; i < nApp; i++ {
			app = append(app, contracts.SectorChange{Action: contracts.SectorActionAppend, Root: free[i]})
		}
		reviseV1("append", app, nApp)
		nTrim := 1 + pick(len(roots0))
		reviseV1("trim", []contracts.SectorChange{{Action: contracts.SectorActionTrim, A: uint64(nTrim)}}, -nTrim)
		a, b := pick(len(roots0)), pick(len(roots0))
		reviseV1("swap", []contracts.SectorChange{{Action: contracts.SectorActionSwap, A: uint64(a), B: uint64(b)}}, 0)
		reviseV1("update", []contracts.SectorChange{{Action: contracts.SectorActionUpdate, A: uint64(pick(len(roots0))), Root: free[0]}}, 0)
		reviseV1("mixed", []contracts.SectorChange{
			{Action: contracts.SectorActionAppend, Root: free[1]},
			{Action: contracts.SectorActionSwap, A: 0, B: uint64(len(roots0))},
			{Action: contracts.SectorActionTrim, A: 1},
			{Action: contracts.SectorActionUpdate, A: 0, Root: free[2]},
		}, 0)
		reviseV1("no-sector-change", nil, 0)
		// a root that is not stored: the method fails by itself half-way
		reviseV1("append-unknown-root", []contracts.SectorChange{{Action: contracts.SectorActionAppend, Root: free[0]}, {Action: contracts.SectorActionAppend, Root: types.Hash256{0xee}}}, 2)
	}
	{
		existing := env.v1rev[c0]
		renewal := env.newV1(rng, 700, 800)
		renewal.Revision.Filesize = existing.Revision.Filesize
		clearing := existing
		clearing.Revision.RevisionNumber = types.MaxRevisionNumber
		clearing.Revision.Filesize = 0
		clearing.Revision.FileMerkleRoot = types.Hash256{}
		add("RenewContract", "with-roots", func(s *Store) error {
			return s.RenewContract(renewal, clearing, []types.Transaction{{ArbitraryData: [][]byte{{7}}}}, sc(2), contracts.Usage{RPCRevenue: sc(1)}, contracts.Usage{RPCRevenue: sc(1), StorageRevenue: sc(2)}, 95)
		})
		existing1 := env.v1rev[env.v1[1]]
		renewal1 := env.newV1(rng, 700, 800)
		clearing1 := existing1
		clearing1.Revision.RevisionNumber = types.MaxRevisionNumber
		add("RenewContract", "empty", func(s *Store) error {
			return s.RenewContract(renewal1, clearing1, nil, sc(2), contracts.Usage{}, contracts.Usage{RPCRevenue: sc(1)}, 95)
		})
	}
	// ---- v2 contracts
	d0 := env.v2[0]
	droots := env.v2roots[d0]
	{
		c := env.newV2(rng, 300, 400)
		c.NegotiationHeight = 95
		c.Usage = proto4.Usage{RPC: sc(1)}
		add("AddV2Contract", "new", func(s *Store) error { return s.AddV2Contract(c, rhp4.TransactionSet{}) })
		reviseV2 := func(variant string, newRoots []types.Hash256) {
			fc := env.v2fc[d0]
			fc.RevisionNumber += 2
			fc.Filesize = uint64(len(newRoots)) * proto4.SectorSize
			usage := proto4.Usage{Storage: sc(uint32(1 + pick(3))), Egress: types.NewCurrency64(uint64(pick(100))), RiskedCollateral: sc(1)}
			add("ReviseV2Contract", variant, func(s *Store) error { return s.ReviseV2Contract(d0, fc, droots, newRoots, usage) })
		}
		reviseV2("append", append(append([]types.Hash256(nil), droots...), free[:1+pick(3)]...))
		reviseV2("truncate", append([]types.Hash256(nil), droots[:pick(len(droots))]...))
		mod := append([]types.Hash256(nil), droots...)
		mod[pick(len(mod))] = free[0]
		mod[0], mod[len(mod)-1] = mod[len(mod)-1], mod[0]
		reviseV2("replace", mod)
		reviseV2("unknown-root", append(append([]types.Hash256(nil), droots...), types.Hash256{0xee}))

		ren := env.newV2(rng, 700, 800)
		ren.ID = d0.V2RenewalID()
		ren.RenewedFrom = d0
		ren.NegotiationHeight = 95
		ren.V2FileContract.Filesize = env.v2fc[d0].Filesize
		ren.Usage = proto4.Usage{RPC: sc(1), Storage: sc(1)}
		add("RenewV2Contract", "with-roots", func(s *Store) error { return s.RenewV2Contract(ren, rhp4.TransactionSet{}, d0, droots) })
	}
	expH := env.height
	add("ExpireContractSectors", "elapsed-window", func(s *Store) error { return s.ExpireContractSectors(expH) })
	add("ExpireContractSectors", "nothing", func(s *Store) error { return s.ExpireContractSectors(10) })
	add("ExpireV2ContractSectors", "expired", func(s *Store) error { return s.ExpireV2ContractSectors(expH) })

	// ---- accounts
	{
		rev := env.v1rev[c0]
		rev.Revision.RevisionNumber += 2
		for i, a := range []rhp3.Account{env.acct3[0], env.acct3[1]} {
			fund := accounts.FundAccountWithContract{Account: a, Cost: types.NewCurrency64(1), Amount: sc(uint32(1 + pick(3))), Revision: rev, Expiration: time.Unix(1900000000, 0)}
			add("CreditAccountWithContract", []string{"existing-account", "new-account"}[i], func(s *Store) error { return s.CreditAccountWithContract(fund) })
		}
		u := accounts.Usage{RPCRevenue: types.NewCurrency64(uint64(1 + pick(1000))), StorageRevenue: types.NewCurrency64(uint64(pick(1000))), RegistryRead: types.NewCurrency64(uint64(pick(10)))}
		add("DebitAccount", "funded", func(s *Store) error { return s.DebitAccount(env.acct3[0], u) })
		add("DebitAccount", "all", func(s *Store) error { return s.DebitAccount(env.acct3[0], accounts.Usage{EgressRevenue: sc(2)}) })
		add("DebitAccount", "insufficient", func(s *Store) error { return s.DebitAccount(env.acct3[0], accounts.Usage{RPCRevenue: sc(50)}) })
		fc := env.v2fc[d0]
		fc.RevisionNumber += 2
		deps := []proto4.AccountDeposit{{Account: env.acct4[0], Amount: sc(uint32(1 + pick(3)))}, {Account: env.acct4[1], Amount: sc(1)}}
		total := deps[0].Amount.Add(deps[1].Amount)
		ops = append(ops, verifOp{method: "RHP4CreditAccounts", variant: "existing+new", run: func(s *Store, ctl *verifFaultCtl, _ bool) error {
			balances, err := s.RHP4CreditAccounts(deps, d0, fc, proto4.Usage{AccountFunding: total})
			ctl.result = fmt.Sprint(balances)
			return err
		}})
		u4 := proto4.Usage{RPC: types.NewCurrency64(uint64(1 + pick(1000))), Storage: types.NewCurrency64(uint64(pick(1000)))}
		add("RHP4DebitAccount", "funded", func(s *Store) error { return s.RHP4DebitAccount(env.acct4[0], u4) })
		add("RHP4DebitAccount", "all", func(s *Store) error { return s.RHP4DebitAccount(env.acct4[0], proto4.Usage{Ingress: sc(2)}) })
		add("PruneAccounts", "height", func(s *Store) error { return s.PruneAccounts(expH) })
	}
	// ---- chain state
	{
		next := types.ChainIndex{Height: env.height + 1, ID: types.BlockID(verifHash(rng))}
		created := []types.SiacoinElement{{ID: types.SiacoinOutputID(verifHash(rng)), StateElement: types.StateElement{LeafIndex: 9, MerkleProof: []types.Hash256{{3}}},
			SiacoinOutput: types.SiacoinOutput{Value: sc(uint32(1 + pick(5))), Address: env.sces[0].SiacoinOutput.Address}, MaturityHeight: []uint64{0, next.Height + 5}[pick(2)]}}
		spent := []types.SiacoinElement{env.sces[0]}
		evs := []wallet.Event{{ID: verifHash(rng), Index: next, Type: wallet.EventTypeMinerPayout, Data: wallet.EventPayout{SiacoinElement: created[0]}, MaturityHeight: created[0].MaturityHeight, Timestamp: time.Unix(1700000600, 0)}}
		rev := env.v1rev[c0]
		changes := contracts.StateChanges{
			Revised:    []contracts.RevisedContract{{ID: c0, FileContract: rev.Revision.FileContract}},
			Successful: []types.FileContractID{env.v1[2]},
			RevisedV2:  []contracts.RevisedV2Contract{{ID: d0, V2FileContract: env.v2fc[d0]}},
			FailedV2:   []types.FileContractID{env.v2[2]},
		}
		batch := func(tx index.UpdateTx) error {
			if err := tx.WalletApplyIndex(next, created, spent, evs, time.Now()); err != nil {
				return fmt.Errorf("wallet: %w", err)
			} else if err := tx.ApplyContracts(next, changes); err != nil {
				return fmt.Errorf("contracts: %w", err)
			} else if _, _, err := tx.RejectContracts(next.Height - 18); err != nil {
				return fmt.Errorf("reject: %w", err)
			} else if err := tx.AddContractChainIndexElement(types.ChainIndexElement{ID: next.ID, ChainIndex: next, StateElement: types.StateElement{LeafIndex: 4}}); err != nil {
				return err
			} else if err := tx.SetLastAnnouncement(settings.Announcement{Index: next, Address: "other.example:9982"}); err != nil {
				return fmt.Errorf("announcement: %w", err)
			} else if err := tx.SetLastV2AnnouncementHash(types.Hash256{5}, next); err != nil {
				return err
			}
			return tx.SetLastIndex(next)
		}
		add("UpdateChainState", "apply-batch", func(s *Store) error { return s.UpdateChainState(batch) })
		revert := func(tx index.UpdateTx) error {
			prev := types.ChainIndex{Height: env.height - 1, ID: types.BlockID{0xaa}}
			if err := tx.WalletRevertIndex(env.tip, env.sces, nil, time.Now()); err != nil {
				return fmt.Errorf("wallet: %w", err)
			} else if err := tx.RevertContractChainIndexElement(env.tip); err != nil {
				return err
			} else if err := tx.RevertLastAnnouncement(); err != nil {
				return err
			}
			return tx.SetLastIndex(prev)
		}
		add("UpdateChainState", "revert-tip", func(s *Store) error { return s.UpdateChainState(revert) })
		add("UpdateChainState", "batch-fails-late", func(s *Store) error {
			return s.UpdateChainState(func(tx index.UpdateTx) error {
				if err := batch(tx); err != nil {
					return err
				}
				return errors.New("verif: update aborted by the caller after all writes")
			})
		})
		add("ResetChainState", "reset", func(s *Store) error { return s.ResetChainState() })
	}
	// ---- metrics, peers, maintenance
	in, eg := uint64(1+pick(1000)), uint64(pick(1000))
	add("IncrementRHPDataUsage", "both", func(s *Store) error { return s.IncrementRHPDataUsage(in, eg) })
	add("IncrementSectorStats", "all", func(s *Store) error { return s.IncrementSectorStats(in, eg, 3, 4) })
	add("IncrementRegistryAccess", "both", func(s *Store) error { return s.IncrementRegistryAccess(in, 1+eg) })
	add("AddPeer", "new", func(s *Store) error { return s.AddPeer("5.6.7.8:9981") })
	add("Ban", "ip", func(s *Store) error { return s.Ban("9.9.9.9:9981", time.Hour, "verif") })
	add("RecalcContractAccountFunding", "recalc", func(s *Store) error { return s.RecalcContractAccountFunding() })
	add("CheckContractAccountFunding", "check", func(s *Store) error { return s.CheckContractAccountFunding() })
	add("Vacuum", "vacuum", func(s *Store) error { return s.Vacuum() })
	add("VerifyWalletKey", "first", func(s *Store) error { return s.VerifyWalletKey(types.Hash256{1, 2, 3}) })
	// ---- registry
	{
		val := rhp3.RegistryValue{Revision: uint64(2 + pick(5)), Data: []byte{byte(pick(200)), 2}}
		add("SetRegistryValue", "update", func(s *Store) error {
			return s.SetRegistryValue(rhp3.RegistryEntry{RegistryKey: env.regKeys[0], RegistryValue: val}, 2000)
		})
		add("SetRegistryValue", "insert", func(s *Store) error {
			return s.SetRegistryValue(rhp3.RegistryEntry{RegistryKey: env.regKeys[1], RegistryValue: val}, 2000)
		})
	}
	// ---- sectors
	add("RemoveSector", "referenced", func(s *Store) error { return s.RemoveSector(roots0[0]) })
	add("RemoveSector", "unknown", func(s *Store) error { return s.RemoveSector(types.Hash256{0xee}) })
	add("AddTempSector", "stored", func(s *Store) error { return s.AddTempSector(free[3], 500) })
	add("AddTemporarySectors", "two", func(s *Store) error {
		return s.AddTemporarySectors([]storage.TempSector{{Root: free[3], Expiration: 500}, {Root: free[0], Expiration: 501}})
	})
	add("ExpireTempSectors", "first-generation", func(s *Store) error { return s.ExpireTempSectors(expH) })
	add("ExpireTempSectors", "all", func(s *Store) error { return s.ExpireTempSectors(1000) })
	add("PruneSectors", "unreferenced", func(s *Store) error { return s.PruneSectors(context.Background(), time.Now().Add(time.Hour)) })
	add("SectorLocation", "stored", func(s *Store) error { _, err := s.SectorLocation(roots0[0]); return err })
	add("SectorReferences", "stored", func(s *Store) error { _, err := s.SectorReferences(roots0[0]); return err })
	// ---- settings
	{
		st := settings.DefaultSettings
		st.MaxRegistryEntries = uint64(4 + pick(8))
		st.ContractPrice = sc(uint32(1 + pick(4)))
		st.NetAddress = "new.example:9982"
		st.IngressLimit = uint64(pick(1000))
		add("UpdateSettings", "change", func(s *Store) error { return s.UpdateSettings(st) })
		p := pin.PinnedSettings{Currency: "eur", Threshold: 0.1, Egress: pin.Pin{Pinned: true, Value: float64(1 + pick(9))}}
		add("UpdatePinnedSettings", "change", func(s *Store) error { return s.UpdatePinnedSettings(nil, p) })
		add("UpdateLastAnnouncement", "set", func(s *Store) error {
			return s.UpdateLastAnnouncement(settings.Announcement{Index: types.ChainIndex{Height: 77, ID: types.BlockID{7}}, Address: "ann.example:1"})
		})
		add("RevertLastAnnouncement", "revert", func(s *Store) error { return s.RevertLastAnnouncement() })
	}
	// ---- volumes
	{
		newRoot := verifHash(rng)
		addExt("StoreSector", "new-root", func(s *Store, ctl *verifFaultCtl, extFail bool) error {
			return s.StoreSector(newRoot, func(storage.SectorLocation) error {
				ctl.External(extFail)
				if extFail {
					return errVerifExt
				}
				return nil
			})
		})
		addExt("StoreSector", "known-root", func(s *Store, ctl *verifFaultCtl, extFail bool) error {
			return s.StoreSector(roots0[0], func(storage.SectorLocation) error { ctl.External(false); return nil })
		})
		addExt("MigrateSectors", "volume0", func(s *Store, ctl *verifFaultCtl, extFail bool) error {
			migrated, failed, err := s.MigrateSectors(context.Background(), env.vols[0], 0, func(from, to storage.SectorLocation) error {
				ctl.External(extFail)
				if extFail {
					return errVerifExt
				}
				return nil
			})
			ctl.result = fmt.Sprintf("migrated=%d failed=%d", migrated, failed)
			if err == nil && failed > 0 && !extFail {
				return fmt.Errorf("%d sectors failed to migrate", failed)
			}
			return err
		})
		add("AddVolume", "new", func(s *Store) error { _, err := s.AddVolume("/vol9.dat", false); return err })
		add("RemoveVolume", "force", func(s *Store) error { return s.RemoveVolume(env.vols[1], true) })
		add("RemoveVolume", "empty", func(s *Store) error { return s.RemoveVolume(env.vols[2], false) })
		add("RemoveVolume", "not-empty", func(s *Store) error { return s.RemoveVolume(env.vols[0], false) })
		grow := uint64(2 + pick(4))
		add("GrowVolume", "empty-volume", func(s *Store) error { return s.GrowVolume(env.vols[2], 4+grow) })
		shrink := uint64(1 + pick(3))
		add("ShrinkVolume", "empty-volume", func(s *Store) error { return s.ShrinkVolume(env.vols[2], shrink) })
		add("ShrinkVolume", "in-use", func(s *Store) error { return s.ShrinkVolume(env.vols[0], 1) })
		add("SetReadOnly", "on", func(s *Store) error { return s.SetReadOnly(env.vols[0], true) })
		add("SetAvailable", "off", func(s *Store) error { return s.SetAvailable(env.vols[1], false) })
	}
	// ---- webhooks
	add("RegisterWebhook", "new", func(s *Store) error {
		_, err := s.RegisterWebhook("http://127.0.0.1:1/new", "secretN", []string{"wallet", "alerts/info"})
		return err
	})
	add("RegisterWebhook", "duplicate-url", func(s *Store) error {
		_, err := s.RegisterWebhook("http://127.0.0.1:1/hook0", "secretM", []string{"wallet"})
		return err
	})
	add("UpdateWebhook", "existing", func(s *Store) error { return s.UpdateWebhook(env.hooks[0], "http://127.0.0.1:1/upd", []string{"test"}) })
	add("UpdateWebhook", "unknown", func(s *Store) error { return s.UpdateWebhook(9999, "http://127.0.0.1:1/upd", []string{"test"}) })
	add("RemoveWebhook", "existing", func(s *Store) error { return s.RemoveWebhook(env.hooks[1]) })
	return ops
}

// verifCall runs one operation with the controller armed and classifies the outcome:
// 0 = nil, 1 = error, 2 = panic.
func verifCall(op verifOp, s *Store, ctl *verifFaultCtl, failAt, kind int, extFail bool) (class int, err error, trace string, fired bool) {
	ctl.Arm(failAt, kind)
	ctl.result = ""
	func() {
		defer func() {
			if r := recover(); r != nil {
				class, err = 2, fmt.Errorf("panic: %v", r)
			}
		}()
		err = op.run(s, ctl, extFail)
		if err != nil {
			class = 1
		}
	}()
	trace, _, fired = ctl.Disarm()
	return
}

// verifExtBetween: is the first callback of the reference trace outside a transaction?
func verifExtBetween(ref string) bool {
	in := false
	for _, c := range ref {
		switch c {
		case 'B':
			in = true
		case 'C', 'R':
			in = false
		case 'E':
			return !in
		}
	}
	return false
}

// verifSwallowedPrepare: does the trace show database calls after a Prepare that was made to
// fail?  txn.Prepare (persist/sqlite/sql.go) drops the error of a Prepare that took longer than
// longQueryDuration (10 ms) and hands out a statement without a handle; with injected faults
// that return at once this only happens when the machine is busy enough to stall the call.
const verifSigSwallowedPrepare = "failing-prepare-reported-as-success-when-slow"

func verifSwallowedPrepare(trace string) bool {
	for i := 0; i+1 < len(trace); i++ {
		if trace[i] == 'p' && trace[i+1] != 'R' {
			return true
		}
	}
	return false
}

func verifEligible(trace string) (n int) {
	for _, c := range trace {
		switch c {
		case 'B', 'P', 'X', 'C', 'b', 'p', 'x', 'c':
			n++
		}
	}
	return
}

var verifMultiOps = map[string]bool{"ExpireContractSectors": true, "ExpireV2ContractSectors": true, "ExpireTempSectors": true,
	"PruneSectors": true, "MigrateSectors": true, "RemoveVolume": true, "StoreSector": true, "GrowVolume": true, "ShrinkVolume": true}

func verifTier() string { return os.Getenv("VERIF_TIER") }

func verifFaultTerm(k int, kind string) string {
	return fmt.Sprintf("(Some (%d%%N, %s))", k, kind)
}

func TestVerifC09Store(t *testing.T) {
	em := newVerifEmitter(t, "From HostdBase Require Import Base.\nFrom Coq Require Import String.\nFrom HostdTxn Require Import Model.\nOpen Scope string_scope.", "case", "check")
	defer em.Close()
	log := verifNopLog()
	dir := t.TempDir()
	covered := map[string]bool{}
	// VERIF_OPS=multi: only the operations that span several transactions (second pass
	// with the repository's small SQL batch size)
	onlyMulti := os.Getenv("VERIF_OPS") == "multi"
	nTemplates := verifN(3)
	caseID := 0
	for tpl := 0; tpl < nTemplates; tpl++ {
		trng := rand.New(rand.NewSource(verifSeed()*7919 + int64(tpl)))
		nRoots := 3 + trng.Intn(3)
		if sqlSectorBatchSize < 100 {
			nRoots = 6 + trng.Intn(6) // more than one SQL batch per loop in the repository's `testing` build
		}
		tplPath := filepath.Join(dir, fmt.Sprintf("tpl%d.db", tpl))
		var env *verifEnv
		var ops []verifOp
		{
			s, err := OpenDatabase(tplPath, log)
			if err != nil {
				t.Fatal(err)
			}
			env = verifPopulate(t, s, trng, nRoots)
			if err := s.Close(); err != nil {
				t.Fatal(err)
			}
			ops = verifStoreOps(env, trng)
		}
		for oi, op := range ops {
			id := caseID
			caseID++
			if em.Skip(id) || (onlyMulti && !verifMultiOps[op.method]) {
				continue
			}
			rng := verifCaseRand(id)
			name := op.method + "/" + op.variant
			covered[op.method] = true
			em.BeginCase(id, fmt.Sprintf("template %d op %s", tpl, name))
			open := func(tag string) (*Store, *verifFaultCtl, string) {
				p := filepath.Join(dir, fmt.Sprintf("c%d_%d_%s.db", tpl, oi, tag))
				verifCopyFile(t, tplPath, p)
				s, ctl, err := verifOpenFaultStore(p, log)
				if err != nil {
					t.Fatal(err)
				}
				return s, ctl, p
			}
			// reference run
			rs, rctl, rpath := open("ref")
			refPre := verifSnapshot(t, rs, rpath, env, false)
			refClass, refErr, ref, _ := verifCall(op, rs, rctl, -1, verifFaultNone, false)
			refPostFull := verifSnapshot(t, rs, rpath, env, false)
			refPost := verifSnapshot(t, rs, rpath, env, true)
			rs.Close()
			refChanged := refPre.diff(refPostFull) != ""
			if refClass != 0 && os.Getenv("VERIF_DEBUG") != "" {
				t.Logf("reference run of %s: class %d: %v", name, refClass, refErr)
			}
			em.Step(fmt.Sprintf("Call \"%s\" \"%s\" %d%%N None", op.method, ref, refClass),
				fmt.Sprintf("OCall %d%%N \"%s\" %s", refClass, ref, coqBool(refChanged)))
			em.Count("op:" + op.method)
			em.Count(fmt.Sprintf("ref-class:%d", refClass))
			if refClass == 1 && refChanged && !strings.Contains(ref, "C") {
				em.Monitor("failed-call-changed-state:"+op.method, fmt.Sprintf("%s returned %v without any commit, yet: %s", name, refErr, refPre.diff(refPostFull)))
			}
			n := verifEligible(ref)
			// which fault indices: all of them up to 48, beyond that the transaction boundaries and a sample
			ks := make([]int, 0, n)
			kcap := 48
			if strings.Count(ref, "C") > 2 && verifTier() != "thorough" {
				kcap = 20 // every batch of a loop sleeps 50-75 ms
			}
			if n <= kcap {
				for k := 0; k < n; k++ {
					ks = append(ks, k)
				}
			} else {
				seen := map[int]bool{}
				e := 0
				for _, c := range ref {
					switch c {
					case 'B', 'C':
						for _, k := range []int{e - 1, e, e + 1} {
							if k >= 0 && k < n {
								seen[k] = true
							}
						}
					}
					if strings.ContainsRune("BPXC", c) {
						e++
					}
				}
				for len(seen) < kcap && len(seen) < n {
					seen[rng.Intn(n)] = true
				}
				for len(seen) > kcap {
					for k := range seen {
						delete(seen, k)
						break
					}
				}
				for k := range seen {
					ks = append(ks, k)
				}
				sort.Ints(ks)
			}
			// hard faults, all on one clone: a failed call must leave the store as it was
			fs, fctl, fpath := open("fault")
			pre := verifSnapshot(t, fs, fpath, env, false)
			for _, k := range ks {
				class, err, trace, fired := verifCall(op, fs, fctl, k, verifFaultHard, false)
				if verifSwallowedPrepare(trace) {
					em.Monitor(verifSigSwallowedPrepare, fmt.Sprintf("%s k=%d: class %d (%v), trace %s", name, k, class, err, trace))
					fs.Close()
					fs, fctl, fpath = open("fault")
					continue
				}
				post := verifSnapshot(t, fs, fpath, env, false)
				d := pre.diff(post)
				em.Step(fmt.Sprintf("Call \"%s\" \"%s\" %d%%N %s", op.method, ref, refClass, verifFaultTerm(k, "Hard")),
					fmt.Sprintf("OCall %d%%N \"%s\" %s", class, trace, coqBool(d != "")))
				em.Count("fault:hard")
				if !fired {
					em.Monitor("fault-not-reached:"+op.method, fmt.Sprintf("%s k=%d of %d: trace %s", name, k, n, trace))
					continue
				}
				committed := strings.Count(trace, "C")
				if class == 0 {
					em.Monitor("injected-fault-swallowed:"+op.method, fmt.Sprintf("%s k=%d: the call returned nil although database call %d failed (trace %s)", name, k, k, trace))
				}
				if post.health != pre.health {
					em.Monitor("fault-breaks-integrity:"+op.method, fmt.Sprintf("%s k=%d: %s", name, k, post.health))
				}
				if d != "" {
					if committed == 0 || strings.Count(ref, "B") <= 1 {
						em.Monitor("failed-call-changed-state:"+op.method, fmt.Sprintf("%s k=%d (%v, trace %s): %s", name, k, err, trace, d))
					} else {
						em.Count("partial-progress:" + op.method)
					}
					// continue from a clean copy
					fs.Close()
					fs, fctl, fpath = open("fault")
				}
			}
			// retry without faults on the store that saw the last failed call
			class, _, trace, _ := verifCall(op, fs, fctl, -1, verifFaultNone, false)
			retryPost := verifSnapshot(t, fs, fpath, env, true)
			retryFull := verifSnapshot(t, fs, fpath, env, false)
			fs.Close()
			em.Step(fmt.Sprintf("Call \"%s\" \"%s\" %d%%N None", op.method, ref, refClass),
				fmt.Sprintf("OCall %d%%N \"%s\" %s", class, trace, coqBool(pre.diff(retryFull) != "")))
			if class != refClass {
				em.Monitor("retry-after-fault-failed:"+op.method, fmt.Sprintf("%s: reference run class %d, retry after %d failed calls class %d", name, refClass, len(ks), class))
			} else if d := refPost.diff(retryPost); d != "" {
				em.Monitor("retry-diverges:"+op.method, fmt.Sprintf("%s: state after failed calls + retry differs from the uninterrupted run: %s", name, d))
			}
			// multi-transaction operations: interrupt once at a sampled point, check the
			// intermediate state, retry and compare with the uninterrupted run
			if strings.Count(ref, "C") > 1 && n > 0 {
				for rep := 0; rep < 3; rep++ {
					k := rng.Intn(n)
					ms, mctl, mpath := open("multi")
					class, _, trace, _ := verifCall(op, ms, mctl, k, verifFaultHard, false)
					if verifSwallowedPrepare(trace) {
						em.Monitor(verifSigSwallowedPrepare, fmt.Sprintf("%s k=%d: class %d, trace %s", name, k, class, trace))
						ms.Close()
						continue
					}
					_, health := verifDump(t, mpath, true)
					em.Step(fmt.Sprintf("Call \"%s\" \"%s\" %d%%N %s", op.method, ref, refClass, verifFaultTerm(k, "Hard")),
						fmt.Sprintf("OCall %d%%N \"%s\" %s", class, trace, coqBool(strings.Contains(trace, "C"))))
					em.Count("fault:hard-multi")
					if health != refPre.health {
						em.Monitor("intermediate-state-inconsistent:"+op.method, fmt.Sprintf("%s k=%d: %s", name, k, health))
					}
					if inv := verifInvariants(t, mpath); inv != "" {
						em.Monitor("intermediate-state-inconsistent:"+op.method, fmt.Sprintf("%s k=%d: %s", name, k, inv))
					}
					class2, _, _, _ := verifCall(op, ms, mctl, -1, verifFaultNone, false)
					post := verifSnapshot(t, ms, mpath, env, true)
					ms.Close()
					if class2 != refClass {
						em.Monitor("retry-after-fault-failed:"+op.method, fmt.Sprintf("%s k=%d: retry class %d, reference %d", name, k, class2, refClass))
					} else if d := refPost.diff(post); d != "" {
						em.Monitor("retry-diverges:"+op.method, fmt.Sprintf("%s k=%d: %s", name, k, d))
					}
				}
			}
			// "database is locked" at a few sampled points: the transaction is retried by
			// the store itself and the call must behave like the uninterrupted one
			if n > 0 && !op.ext && strings.Contains(ref, "B") {
				for rep := 0; rep < 2; rep++ {
					k := rng.Intn(n)
					bs, bctl, bpath := open("busy")
					class, _, trace, _ := verifCall(op, bs, bctl, k, verifFaultBusy, false)
					post := verifSnapshot(t, bs, bpath, env, true)
					bfull := verifSnapshot(t, bs, bpath, env, false)
					bs.Close()
					if verifSwallowedPrepare(trace) {
						em.Monitor(verifSigSwallowedPrepare, fmt.Sprintf("%s k=%d (database is locked): class %d, trace %s", name, k, class, trace))
						continue
					}
					em.Step(fmt.Sprintf("Call \"%s\" \"%s\" %d%%N %s", op.method, ref, refClass, verifFaultTerm(k, "Busy")),
						fmt.Sprintf("OCall %d%%N \"%s\" %s", class, trace, coqBool(refPre.diff(bfull) != "")))
					em.Count("fault:busy")
					if class != refClass {
						em.Monitor("busy-retry-changes-result:"+op.method, fmt.Sprintf("%s k=%d: class %d, reference %d (trace %s)", name, k, class, refClass, trace))
					} else if d := refPost.diff(post); d != "" {
						em.Monitor("busy-retry-diverges:"+op.method, fmt.Sprintf("%s k=%d: %s", name, k, d))
					}
				}
			}
			// failing data write
			if op.ext && strings.Contains(ref, "E") {
				xs, xctl, xpath := open("ext")
				xpre := verifSnapshot(t, xs, xpath, env, true)
				class, _, trace, _ := verifCall(op, xs, xctl, -1, verifFaultNone, true)
				xpost := verifSnapshot(t, xs, xpath, env, true)
				if ei := strings.Index(trace, "e"); ei >= 0 && verifExtBetween(ref) {
					// the data write sits between transactions: the model predicts the compensating transaction
					j := strings.Count(trace[ei:], "X")
					em.Step(fmt.Sprintf("Call \"%s\" \"%s\" %d%%N (Some (%d%%N, ExtFail))", op.method, ref, refClass, j),
						fmt.Sprintf("OCall %d%%N \"%s\" %s", class, trace, coqBool(verifVisibleDiff(xpre, xpost) != "")))
				}
				em.Count("fault:ext")
				if d := verifVisibleDiff(xpre, xpost); d != "" {
					em.Monitor("failed-data-write-changed-state:"+op.method, fmt.Sprintf("%s: %s", name, d))
				}
				class2, _, _, _ := verifCall(op, xs, xctl, -1, verifFaultNone, false)
				post := verifSnapshot(t, xs, xpath, env, true)
				xs.Close()
				if class2 != refClass {
					em.Monitor("retry-after-fault-failed:"+op.method, fmt.Sprintf("%s after failed data write: retry class %d, reference %d", name, class2, refClass))
				} else if d := verifVisibleDiff(refPost, post); d != "" {
					em.Monitor("retry-diverges:"+op.method, fmt.Sprintf("%s after failed data write: %s", name, d))
				}
			}
			em.EndCase(n > 0)
		}
	}
	// coverage of the generated table
	if !em.Skip(caseID) && !onlyMulti {
		var names []string
		for m := range covered {
			names = append(names, "\""+m+"\"")
		}
		sort.Strings(names)
		em.BeginCase(caseID, "coverage of the exported mutating Store methods")
		em.Step("Covered "+coqList(names), "OCovered true")
		em.EndCase(true)
	}
}

// verifVisibleDiff compares what the getters show and the health of the database; rows
// of stored_sectors that nothing refers to are not visible through any getter.
func verifVisibleDiff(a, b verifSnap) string {
	a.dump, b.dump = "", ""
	return a.diff(b)
}

// verifInvariants recounts the aggregates the store maintains next to the rows.
func verifInvariants(t testing.TB, path string) string {
	db, err := sqlOpenRO(path)
	if err != nil {
		t.Fatal(err)
	}
	defer db.Close()
	var bad []string
	one := func(q string) (v int64) {
		if err := db.QueryRow(q).Scan(&v); err != nil {
			t.Fatalf("%s: %v", q, err)
		}
		return
	}
	stat := func(name string) int64 {
		var buf []byte
		err := db.QueryRow(`SELECT stat_value FROM host_stats WHERE stat=? ORDER BY date_created DESC LIMIT 1`, name).Scan(&buf)
		if err != nil || len(buf) != 8 {
			return 0
		}
		return int64(mustScanUint64(buf))
	}
	chk := func(what string, got, want int64) {
		if got != want {
			bad = append(bad, fmt.Sprintf("%s: %d, recount %d", what, got, want))
		}
	}
	chk("metric contractSectors", stat(metricContractSectors), one(`SELECT (SELECT COUNT(*) FROM contract_sector_roots)+(SELECT COUNT(*) FROM contract_v2_sector_roots)`))
	chk("metric tempSectors", stat(metricTempSectors), one(`SELECT COUNT(*) FROM temp_storage_sector_roots`))
	chk("metric totalSectors", stat(metricTotalSectors), one(`SELECT COUNT(*) FROM volume_sectors`))
	chk("metric physicalSectors", stat(metricPhysicalSectors), one(`SELECT COUNT(*) FROM volume_sectors WHERE sector_id IS NOT NULL`))
	chk("sum used_sectors", one(`SELECT COALESCE(SUM(used_sectors),0) FROM storage_volumes`), one(`SELECT COUNT(*) FROM volume_sectors WHERE sector_id IS NOT NULL`))
	chk("sum total_sectors", one(`SELECT COALESCE(SUM(total_sectors),0) FROM storage_volumes`), one(`SELECT COUNT(*) FROM volume_sectors`))
	chk("volumes whose counters differ from their rows", one(`SELECT COUNT(*) FROM storage_volumes v WHERE v.used_sectors<>(SELECT COUNT(*) FROM volume_sectors s WHERE s.volume_id=v.id AND s.sector_id IS NOT NULL) OR v.total_sectors<>(SELECT COUNT(*) FROM volume_sectors s WHERE s.volume_id=v.id)`), 0)
	return strings.Join(bad, "; ")
}
