//go:build verif

package sqlite

import (
	"fmt"
	"math/big"
	"math/rand"
	"path/filepath"
	"sort"
	"strings"
	"testing"
	"time"

	rhp3 "go.sia.tech/core/rhp/v3"
	proto4 "go.sia.tech/core/rhp/v4"
	"go.sia.tech/core/types"
	rhp4 "go.sia.tech/coreutils/rhp/v4"
	"go.sia.tech/hostd/v2/host/accounts"
	"go.sia.tech/hostd/v2/host/contracts"
	"go.uber.org/zap"
)

func c11Key(i int) types.PublicKey {
	var pk types.PublicKey
	pk[0] = 0xB0
	pk[1] = byte(i + 1)
	return pk
}

func c11ID(v, i int) types.FileContractID { return types.FileContractID{0xC0 + byte(v), byte(i)} }

func c11Rev(i int) contracts.SignedRevision {
	return contracts.SignedRevision{Revision: types.FileContractRevision{
		ParentID: c11ID(1, i),
		UnlockConditions: types.UnlockConditions{PublicKeys: []types.UnlockKey{
			{Algorithm: types.SpecifierEd25519, Key: make([]byte, 32)},
			{Algorithm: types.SpecifierEd25519, Key: make([]byte, 32)},
		}},
	}}
}

func c11CUsage1(u contracts.Usage) string {
	return fmt.Sprintf("{| cRpc := %s; cStorage := %s; cIngress := %s; cEgress := %s; cRegR := %s; cRegW := %s; cFunding := %s; cRisked := %s |}",
		u.RPCRevenue.ExactString(), u.StorageRevenue.ExactString(), u.IngressRevenue.ExactString(), u.EgressRevenue.ExactString(),
		u.RegistryRead.ExactString(), u.RegistryWrite.ExactString(), u.AccountFunding.ExactString(), u.RiskedCollateral.ExactString())
}

func c11CUsage2(u proto4.Usage) string {
	return fmt.Sprintf("{| cRpc := %s; cStorage := %s; cIngress := %s; cEgress := %s; cRegR := 0; cRegW := 0; cFunding := %s; cRisked := %s |}",
		u.RPC.ExactString(), u.Storage.ExactString(), u.Ingress.ExactString(), u.Egress.ExactString(),
		u.AccountFunding.ExactString(), u.RiskedCollateral.ExactString())
}

func c11U6(u accounts.Usage) string {
	return fmt.Sprintf("{| qStorage := %s; qIngress := %s; qEgress := %s; qRegR := %s; qRegW := %s; qRpc := %s |}",
		u.StorageRevenue.ExactString(), u.IngressRevenue.ExactString(), u.EgressRevenue.ExactString(),
		u.RegistryRead.ExactString(), u.RegistryWrite.ExactString(), u.RPCRevenue.ExactString())
}

func c11U4(u proto4.Usage) string {
	return fmt.Sprintf("{| rRpc := %s; rStorage := %s; rEgress := %s; rIngress := %s; rFunding := %s; rRisked := %s |}",
		u.RPC.ExactString(), u.Storage.ExactString(), u.Egress.ExactString(), u.Ingress.ExactString(),
		u.AccountFunding.ExactString(), u.RiskedCollateral.ExactString())
}

// c11Cats: a contract's unspent funding and its six revenue categories as big ints
// (v2 contracts have no registry categories)
type c11Cats struct {
	funding, risked *big.Int
	rev             [6]*big.Int // storage, ingress, egress, regread, regwrite, rpc
}

func c11SnapString[T ~[]E, E ~[4]c11Cats](s T) string {
	var b strings.Builder
	for v, row := range s {
		for c, x := range row {
			if x.funding == nil {
				continue
			}
			fmt.Fprintf(&b, "v%d/c%d: funding %v risked %v revenue %v; ", v, c, x.funding, x.risked, x.rev)
		}
	}
	return b.String()
}

func (c c11Cats) revenue() *big.Int {
	s := new(big.Int)
	for _, r := range c.rev {
		s.Add(s, r)
	}
	return s
}

func c11Cats1(u contracts.Usage) c11Cats {
	return c11Cats{funding: u.AccountFunding.Big(), risked: u.RiskedCollateral.Big(), rev: [6]*big.Int{u.StorageRevenue.Big(), u.IngressRevenue.Big(),
		u.EgressRevenue.Big(), u.RegistryRead.Big(), u.RegistryWrite.Big(), u.RPCRevenue.Big()}}
}

func c11Cats2(u proto4.Usage) c11Cats {
	return c11Cats{funding: u.AccountFunding.Big(), risked: u.RiskedCollateral.Big(), rev: [6]*big.Int{u.Storage.Big(), u.Ingress.Big(),
		u.Egress.Big(), new(big.Int), new(big.Int), u.RPC.Big()}}
}

type c11Row struct {
	contract, account int
	amount            types.Currency
}

// TestVerifC11 drives the real store's account credit/debit methods with deposits from several
// v1 and v2 contracts (in any status) into several accounts and debits of arbitrary category
// mixes, records them for coq/Funding/Model.v and evaluates the C11 monitors.
func TestVerifC11(t *testing.T) {
	em := newVerifEmitter(t, "From HostdBase Require Import Base.\nFrom HostdFunding Require Import Model.", "case", "check")
	defer em.Close()

	const nAcct, nCon = 4, 3
	n := verifN(300)
	const nDirected = 7
	for id := 0; id < n+nDirected; id++ {
		if em.Skip(id) {
			continue
		}
		rng := verifCaseRand(id)
		// the store runs on the fault-injecting driver of the C08 harness: `faultNext >= 0` makes
		// the faultNext-th database call of the next credit/debit fail
		db, ctl, err := c08OpenHookStore(filepath.Join(t.TempDir(), fmt.Sprintf("c11_%d.db", id)), zap.NewNop())
		if err != nil {
			t.Fatal(err)
		}
		faultNext := -1
		em.BeginCase(id, "funding attribution history")
		reported := map[string]bool{}
		monitor := func(sig, detail string) {
			if !reported[sig] {
				reported[sig] = true
				em.Monitor(sig, detail)
			}
		}
		guard := func(what string, f func()) (panicked bool) {
			defer func() {
				if r := recover(); r != nil {
					panicked = true
					monitor("funding-op-panics", fmt.Sprintf("%s: %v", what, r))
				}
			}()
			f()
			return false
		}
		cur := func(v uint64) types.Currency { return types.NewCurrency64(v) }
		acctIdx := func(pk types.PublicKey) int {
			for i := 0; i < nAcct; i++ {
				if pk == c11Key(i) {
					return i
				}
			}
			return -1
		}
		conIdx := func(id types.FileContractID) int { return int(id[1]) }

		// ---- read-only views ---------------------------------------------------------------
		rows := func(v int) (out []c11Row) {
			q := `SELECT c.contract_id, a.account_id, f.amount FROM contract_account_funding f INNER JOIN contracts c ON c.id=f.contract_id INNER JOIN accounts a ON a.id=f.account_id ORDER BY f.id`
			if v == 2 {
				q = `SELECT c.contract_id, a.account_id, f.amount FROM contract_v2_account_funding f INNER JOIN contracts_v2 c ON c.id=f.contract_id INNER JOIN accounts a ON a.id=f.account_id ORDER BY f.id`
			}
			rs, err := db.db.Query(q)
			if err != nil {
				t.Fatal(err)
			}
			defer rs.Close()
			for rs.Next() {
				var cid types.FileContractID
				var pk types.PublicKey
				var amt types.Currency
				if err := rs.Scan(decode(&cid), decode(&pk), decode(&amt)); err != nil {
					t.Fatal(err)
				}
				out = append(out, c11Row{conIdx(cid), acctIdx(pk), amt})
			}
			return
		}
		usage := func(v, c int) (c11Cats, string, bool) {
			if v == 1 {
				con, err := db.Contract(c11ID(1, c))
				if err != nil {
					return c11Cats{}, "(OErr ENotFound)", false
				}
				return c11Cats1(con.Usage), "OUsage " + c11CUsage1(con.Usage), true
			}
			con, err := db.V2Contract(c11ID(2, c))
			if err != nil {
				return c11Cats{}, "(OErr ENotFound)", false
			}
			return c11Cats2(con.Usage), "OUsage " + c11CUsage2(con.Usage), true
		}
		balance := func(a int) types.Currency {
			b, err := db.AccountBalance(rhp3.Account(c11Key(a)))
			if err != nil {
				t.Fatal(err)
			}
			return b
		}
		snapshot := func() (s [3][nCon + 1]c11Cats) {
			for v := 1; v <= 2; v++ {
				for c := 1; c <= nCon; c++ {
					s[v][c], _, _ = usage(v, c)
				}
			}
			return
		}

		// withFault runs a store call with the pending fault (if any) armed.  faulted = the fault
		// fired and the call reported an error: the call is then not recorded for the model; it
		// must have left every funding record, every contract's unspent funding and revenue as
		// they were (the observation that follows is checked against the unchanged model state).
		// A fault the call swallows is recorded as the success the call claims to be.
		withFault := func(what string, before [3][nCon + 1]c11Cats, call func() error) (err error, panicked, faulted bool) {
			k := faultNext
			faultNext = -1
			if k >= 0 {
				ctl.Arm(k, nil)
			}
			panicked = guard(what, func() { err = call() })
			if k >= 0 {
				_, _, fired := ctl.Disarm()
				em.Count(fmt.Sprintf("fault:%s:fired=%v,reported=%v", what, fired, err != nil))
				if fired && err != nil && !panicked {
					if a, b := c11SnapString(before[:]), c11SnapString(func() [][nCon + 1]c11Cats { x := snapshot(); return x[:] }()); a != b {
						monitor("failed-funding-call-changed-state", fmt.Sprintf("%s with database call %d failing returned %v; before %s after %s", what, k, err, a, b))
					}
					return err, false, true
				}
			}
			return err, panicked, false
		}

		// the account's history as far as the "came entirely from one protocol version" clause goes
		creditedBy := make([]map[int]bool, nAcct)
		debitedBy := make([]map[int]bool, nAcct)
		for i := range creditedBy {
			creditedBy[i], debitedBy[i] = map[int]bool{}, map[int]bool{}
		}
		// every deposit into a came from contracts of version v ...
		funded := func(a, v int) bool { return !creditedBy[a][3-v] }
		// ... and it was never debited through the other version either
		pure := func(a, v int) bool { return funded(a, v) && !debitedBy[a][3-v] }
		nMoved := 0

		// ---- observations recorded as steps + state monitors ------------------------------
		observe := func() {
			for v := 1; v <= 2; v++ {
				rs := rows(v)
				var items []string
				sum := map[int]*big.Int{}
				perAcct := map[int]*big.Int{}
				for _, r := range rs {
					items = append(items, fmt.Sprintf("(%d%%N, %d%%N, %s%%N)", r.contract, r.account, r.amount.ExactString()))
					if sum[r.contract] == nil {
						sum[r.contract] = new(big.Int)
					}
					sum[r.contract].Add(sum[r.contract], r.amount.Big())
					if perAcct[r.account] == nil {
						perAcct[r.account] = new(big.Int)
					}
					perAcct[r.account].Add(perAcct[r.account], r.amount.Big())
				}
				em.Step(fmt.Sprintf("Rows%d", v), "ORows "+coqList(items))
				for c := 1; c <= nCon; c++ {
					cats, obs, ok := usage(v, c)
					em.Step(fmt.Sprintf("Contract%d %d", v, c), obs)
					if !ok {
						continue
					}
					want := sum[c]
					if want == nil {
						want = new(big.Int)
					}
					if cats.funding.Cmp(want) != 0 {
						monitor("contract-unspent-funding-differs-from-funding-records", fmt.Sprintf("v%d contract %d: unspent account funding %v, sum of its funding records %v", v, c, cats.funding, want))
					}
				}
				for a := 0; a < nAcct; a++ {
					if pure(a, v) && (len(creditedBy[a]) > 0) {
						have := perAcct[a]
						if have == nil {
							have = new(big.Int)
						}
						if b := balance(a); b.Big().Cmp(have) != 0 {
							monitor("single-version-account-balance-differs-from-its-funding-records", fmt.Sprintf("v%d-only account %d: balance %v, funding records %v", v, a, b, have))
						}
					}
				}
			}
			for a := 0; a < nAcct; a++ {
				srcs, err := db.AccountFunding(rhp3.Account(c11Key(a)))
				if err != nil {
					t.Fatal(err)
				}
				var items, fromSQL []string
				for _, s := range srcs {
					items = append(items, fmt.Sprintf("(%d%%N, %s%%N)", conIdx(s.ContractID), s.Amount.ExactString()))
				}
				for _, r := range rows(1) {
					if r.account == a {
						fromSQL = append(fromSQL, fmt.Sprintf("(%d%%N, %s%%N)", r.contract, r.amount.ExactString()))
					}
				}
				em.Step(fmt.Sprintf("Funding1 %d", a), "OSources "+coqList(items))
				x, y := append([]string{}, items...), append([]string{}, fromSQL...)
				sort.Strings(x)
				sort.Strings(y)
				if strings.Join(x, ";") != strings.Join(y, ";") {
					monitor("account-funding-listing-differs-from-table", fmt.Sprintf("account %d: %v vs %v", a, items, fromSQL))
				}
				em.Step(fmt.Sprintf("Balance %d", a), "OBal "+balance(a).ExactString())
			}
		}

		// ---- operations -------------------------------------------------------------------
		addC1 := func(c int, u contracts.Usage) {
			err := db.AddContract(c11Rev(c), []types.Transaction{{}}, types.Siacoins(1), u, 1)
			obs := "ODone"
			if err != nil {
				obs = "(OErr EOther)"
			}
			em.Step(fmt.Sprintf("AddC1 %d %s", c, c11CUsage1(u)), obs)
		}
		addC2 := func(c int, u proto4.Usage) {
			err := db.AddV2Contract(contracts.V2Contract{ID: c11ID(2, c), Usage: u, V2FileContract: types.V2FileContract{ProofHeight: 100, ExpirationHeight: 200}}, rhp4.TransactionSet{})
			obs := "ODone"
			if err != nil {
				obs = "(OErr EOther)"
			}
			em.Step(fmt.Sprintf("AddC2 %d %s", c, c11CUsage2(u)), obs)
		}
		setStatus := func(v, c int) {
			// contracts in any status: the status only selects which revenue metrics a usage update moves
			if v == 1 {
				st := []contracts.ContractStatus{contracts.ContractStatusPending, contracts.ContractStatusRejected, contracts.ContractStatusActive, contracts.ContractStatusSuccessful, contracts.ContractStatusFailed}[rng.Intn(5)]
				if _, err := db.db.Exec(`UPDATE contracts SET contract_status=? WHERE contract_id=?`, st, encode(c11ID(1, c))); err != nil {
					t.Fatal(err)
				}
				em.Count(fmt.Sprintf("status:v1=%d", st))
			} else {
				st := []contracts.V2ContractStatus{contracts.V2ContractStatusPending, contracts.V2ContractStatusRejected, contracts.V2ContractStatusActive, contracts.V2ContractStatusRenewed, contracts.V2ContractStatusSuccessful, contracts.V2ContractStatusFailed}[rng.Intn(6)]
				if _, err := db.db.Exec(`UPDATE contracts_v2 SET contract_status=? WHERE contract_id=?`, st, encode(c11ID(2, c))); err != nil {
					t.Fatal(err)
				}
				em.Count("status:v2=" + string(st))
			}
		}
		fund1 := func(c, a int, cost, amt types.Currency) {
			before := snapshot()
			err, panicked, faulted := withFault("CreditAccountWithContract", before, func() error {
				return db.CreditAccountWithContract(accounts.FundAccountWithContract{Account: rhp3.Account(c11Key(a)), Cost: cost, Amount: amt,
					Revision: c11Rev(c), Expiration: time.Now().Add(time.Hour)})
			})
			if faulted {
				observe()
				return
			}
			obs := "ODone"
			if panicked {
				obs = "OPanic"
			} else if err != nil {
				obs = "(OErr EOther)"
			} else {
				creditedBy[a][1] = true
			}
			em.Step(fmt.Sprintf("Fund1 %d %d %s %s", c, a, cost.ExactString(), amt.ExactString()), obs)
			em.Count("op:Fund1")
			em.Count("fund1:" + obs)
			if obs == "ODone" {
				after := snapshot()
				d := new(big.Int).Sub(after[1][c].funding, before[1][c].funding)
				if d.Cmp(amt.Big()) != 0 {
					monitor("deposit-not-added-to-contract-unspent-funding", fmt.Sprintf("v1 contract %d: deposit %v, unspent funding moved by %v", c, amt, d))
				}
			}
			observe()
		}
		fund2 := func(c int, deps []proto4.AccountDeposit, idx []int, extra proto4.Usage) {
			var total types.Currency
			var items []string
			for i, d := range deps {
				total = total.Add(d.Amount)
				items = append(items, fmt.Sprintf("(%d%%N, %s%%N)", idx[i], d.Amount.ExactString()))
			}
			u := extra
			u.AccountFunding = total // what rhp4.ReviseForFundAccounts passes
			var bals []types.Currency
			err, panicked, faulted := withFault("RHP4CreditAccounts", snapshot(), func() (err error) {
				bals, err = db.RHP4CreditAccounts(deps, c11ID(2, c), types.V2FileContract{RevisionNumber: 1, ProofHeight: 100, ExpirationHeight: 200}, u)
				return
			})
			if faulted {
				observe()
				return
			}
			obs := ""
			if panicked {
				obs = "OPanic"
			} else if err != nil {
				obs = "(OErr EOther)"
			} else {
				var bs []string
				for _, b := range bals {
					bs = append(bs, b.ExactString()+"%N")
				}
				obs = "OBals " + coqList(bs)
				for _, a := range idx {
					creditedBy[a][2] = true
				}
			}
			em.Step(fmt.Sprintf("Fund2 %d %s %s", c, coqList(items), c11U4(u)), obs)
			em.Count("op:Fund2")
			em.Count("fund2:" + strings.SplitN(obs, " ", 2)[0])
			observe()
		}
		// after a debit: per contract, unspent funding + revenue is unchanged; the total moved is
		// bounded by the debit and equals it for single-version accounts
		checkDebit := func(v, a int, ok bool, cats [6]*big.Int, before, after [3][nCon + 1]c11Cats) {
			moved := new(big.Int)
			movedCat := [6]*big.Int{}
			for i := range movedCat {
				movedCat[i] = new(big.Int)
			}
			for vv := 1; vv <= 2; vv++ {
				for c := 1; c <= nCon; c++ {
					b, af := before[vv][c], after[vv][c]
					if b.funding == nil || af.funding == nil {
						continue
					}
					lhs := new(big.Int).Add(b.funding, b.revenue())
					rhs := new(big.Int).Add(af.funding, af.revenue())
					if lhs.Cmp(rhs) != 0 {
						monitor("debit-changed-contract-funding-plus-revenue", fmt.Sprintf("v%d contract %d: unspent funding + revenue %v -> %v (funding %v -> %v)", vv, c, lhs, rhs, b.funding, af.funding))
					}
					if b.risked.Cmp(af.risked) != 0 {
						monitor("debit-changed-risked-collateral", fmt.Sprintf("v%d contract %d", vv, c))
					}
					if af.funding.Cmp(b.funding) > 0 {
						monitor("debit-increased-unspent-funding", fmt.Sprintf("v%d contract %d: %v -> %v", vv, c, b.funding, af.funding))
					}
					for i := 0; i < 6; i++ {
						d := new(big.Int).Sub(af.rev[i], b.rev[i])
						if d.Sign() < 0 {
							monitor("debit-decreased-a-revenue-category", fmt.Sprintf("v%d contract %d category %d: %v -> %v", vv, c, i, b.rev[i], af.rev[i]))
						}
						if d.Sign() != 0 && (vv != v || !ok) {
							monitor("debit-touched-unrelated-contract", fmt.Sprintf("v%d debit (ok=%v) moved v%d contract %d", v, ok, vv, c))
						}
						movedCat[i].Add(movedCat[i], d)
						moved.Add(moved, d)
					}
				}
			}
			if !ok {
				return
			}
			total := new(big.Int)
			for i := 0; i < 6; i++ {
				total.Add(total, cats[i])
				if movedCat[i].Cmp(cats[i]) > 0 {
					monitor("attributed-more-than-debited", fmt.Sprintf("category %d: debited %v, attributed %v", i, cats[i], movedCat[i]))
				}
				if funded(a, v) && movedCat[i].Cmp(cats[i]) != 0 {
					monitor("debit-not-fully-attributed", fmt.Sprintf("v%d-only account %d, category %d: debited %v, attributed %v", v, a, i, cats[i], movedCat[i]))
				}
			}
			if moved.Sign() > 0 {
				nMoved++
			}
			if funded(a, v) && moved.Cmp(total) != 0 {
				monitor("debit-not-fully-attributed", fmt.Sprintf("v%d-only account %d: debited %v, attributed %v", v, a, total, moved))
			}
			em.Count(fmt.Sprintf("debit:single-version-funded=%v,fully-attributed=%v", funded(a, v), moved.Cmp(total) == 0))
		}
		debit1 := func(a int, u accounts.Usage) {
			before := snapshot()
			err, panicked, faulted := withFault("DebitAccount", before, func() error { return db.DebitAccount(rhp3.Account(c11Key(a)), u) })
			if faulted {
				observe()
				return
			}
			obs := "ODone"
			if panicked {
				obs = "OPanic"
			} else if err != nil {
				obs = "(OErr EOther)"
			}
			em.Step(fmt.Sprintf("Debit1 %d %s", a, c11U6(u)), obs)
			em.Count("op:Debit1")
			em.Count("debit1:" + obs)
			if obs == "ODone" {
				debitedBy[a][1] = true
			}
			checkDebit(1, a, obs == "ODone", [6]*big.Int{u.StorageRevenue.Big(), u.IngressRevenue.Big(), u.EgressRevenue.Big(), u.RegistryRead.Big(), u.RegistryWrite.Big(), u.RPCRevenue.Big()}, before, snapshot())
			observe()
		}
		debit2 := func(a int, u proto4.Usage) {
			before := snapshot()
			err, panicked, faulted := withFault("RHP4DebitAccount", before, func() error { return db.RHP4DebitAccount(proto4.Account(c11Key(a)), u) })
			if faulted {
				observe()
				return
			}
			obs := "ODone"
			if panicked {
				obs = "OPanic"
			} else if err != nil {
				obs = "(OErr EInsufficient)"
			}
			em.Step(fmt.Sprintf("Debit2 %d %s", a, c11U4(u)), obs)
			em.Count("op:Debit2")
			em.Count("debit2:" + obs)
			if obs == "ODone" {
				debitedBy[a][2] = true
			}
			checkDebit(2, a, obs == "ODone", [6]*big.Int{u.Storage.Big(), u.Ingress.Big(), u.Egress.Big(), new(big.Int), new(big.Int), u.RPC.Big()}, before, snapshot())
			observe()
		}
		recalc := func() {
			before := snapshot()
			err := db.RecalcContractAccountFunding()
			obs := "ODone"
			if err != nil {
				obs = "(OErr EOther)"
			}
			em.Step("Recalc", obs)
			em.Count("op:Recalc")
			after := snapshot()
			for c := 1; c <= nCon; c++ {
				if before[1][c].funding != nil && before[1][c].funding.Cmp(after[1][c].funding) != 0 {
					monitor("recalc-changed-contract-unspent-funding", fmt.Sprintf("v1 contract %d: %v -> %v", c, before[1][c].funding, after[1][c].funding))
				}
			}
			observe()
		}
		addAll := func() {
			for c := 1; c <= nCon; c++ {
				addC1(c, contracts.Usage{RPCRevenue: cur(uint64(rng.Intn(5))), StorageRevenue: cur(uint64(rng.Intn(3))), RiskedCollateral: cur(uint64(rng.Intn(4)))})
				addC2(c, proto4.Usage{RPC: cur(uint64(rng.Intn(5))), Egress: cur(uint64(rng.Intn(3))), RiskedCollateral: cur(uint64(rng.Intn(4)))})
			}
		}
		dep := func(a int, v uint64) proto4.AccountDeposit {
			return proto4.AccountDeposit{Account: proto4.Account(c11Key(a)), Amount: cur(v)}
		}

		switch id {
		case 0: // v1 debit with registry categories (regression witness of cb8ed00)
			addAll()
			fund1(1, 0, cur(1), cur(10))
			debit1(0, accounts.Usage{RegistryRead: cur(3), RegistryWrite: cur(2), StorageRevenue: cur(1)})
			debit1(0, accounts.Usage{RegistryWrite: cur(4)})
		case 1: // v1 debit spanning three funding contracts, exact exhaustion of the first
			addAll()
			fund1(1, 0, cur(1), cur(5))
			fund1(2, 0, cur(0), cur(5))
			fund1(3, 0, cur(2), cur(5))
			debit1(0, accounts.Usage{StorageRevenue: cur(5), EgressRevenue: cur(7)})
			debit1(0, accounts.Usage{RPCRevenue: cur(3)}) // exhausts everything
			debit1(0, accounts.Usage{RPCRevenue: cur(1)}) // insufficient
		case 2: // the same through RHP4, several accounts in one deposit call
			addAll()
			fund2(1, []proto4.AccountDeposit{dep(0, 5), dep(1, 4), dep(0, 2)}, []int{0, 1, 0}, proto4.Usage{})
			fund2(2, []proto4.AccountDeposit{dep(0, 5)}, []int{0}, proto4.Usage{RPC: cur(1)})
			debit2(0, proto4.Usage{Storage: cur(6), Ingress: cur(3), RiskedCollateral: cur(9)})
			debit2(0, proto4.Usage{RPC: cur(3)})
			debit2(1, proto4.Usage{Egress: cur(5)}) // insufficient
		case 3: // an account funded through both protocol versions: the v1 debit exceeds the v1 funding
			addAll()
			fund1(1, 2, cur(1), cur(4))
			fund2(1, []proto4.AccountDeposit{dep(2, 6)}, []int{2}, proto4.Usage{})
			debit1(2, accounts.Usage{IngressRevenue: cur(3), RegistryRead: cur(4)})
			debit2(2, proto4.Usage{Storage: cur(3)})
			recalc()
		case 4: // zero deposits create zero-amount records that the loops skip; zero debits
			addAll()
			fund1(1, 0, cur(0), cur(0))
			fund1(2, 0, cur(0), cur(3))
			debit1(0, accounts.Usage{})
			debit1(0, accounts.Usage{EgressRevenue: cur(3)})
			fund2(1, []proto4.AccountDeposit{dep(1, 0)}, []int{1}, proto4.Usage{})
			debit2(1, proto4.Usage{})
			fund1(9, 0, cur(1), cur(1)) // no such contract
			addC1(1, contracts.Usage{}) // duplicate id
		case 5: // every contract status
			addAll()
			for c := 1; c <= nCon; c++ {
				fund1(c, 0, cur(1), cur(6))
				fund2(c, []proto4.AccountDeposit{dep(1, 6)}, []int{1}, proto4.Usage{})
			}
			for i := 0; i < 6; i++ {
				for c := 1; c <= nCon; c++ {
					setStatus(1, c)
					setStatus(2, c)
				}
				debit1(0, accounts.Usage{StorageRevenue: cur(1), RegistryRead: cur(1), RPCRevenue: cur(1)})
				debit2(1, proto4.Usage{Storage: cur(1), Egress: cur(1), RPC: cur(1)})
			}
		case 6: // a database fault at every call of a credit and of a debit that spans two funding contracts
			addAll()
			for k := 0; k < 40; k++ {
				faultNext = k
				fund1(1+k%2, 0, cur(1), cur(4))
				faultNext = k
				fund2(1+k%2, []proto4.AccountDeposit{dep(1, 3), dep(2, 1)}, []int{1, 2}, proto4.Usage{})
			}
			for k := 0; k < 40; k++ {
				faultNext = k
				debit1(0, accounts.Usage{StorageRevenue: cur(3), EgressRevenue: cur(2)}) // more than one contract's share
				faultNext = k
				debit2(1, proto4.Usage{Storage: cur(3), Egress: cur(1)})
			}
		default:
			addAll()
			small := func() types.Currency {
				switch rng.Intn(8) {
				case 0:
					return cur(0)
				case 1:
					return cur(1)
				default:
					return cur(uint64(rng.Intn(20)))
				}
			}
			// a debit total chosen against the account's funding records: exact exhaustion of the
			// first source, one more (spanning), everything, more than everything, the balance
			target := func(v, a int) types.Currency {
				var mine []types.Currency
				sum := types.ZeroCurrency
				for _, r := range rows(v) {
					if r.account == a && !r.amount.IsZero() {
						mine = append(mine, r.amount)
						sum = sum.Add(r.amount)
					}
				}
				bal := balance(a)
				switch k := rng.Intn(10); {
				case k == 0:
					return cur(0)
				case k == 1 && len(mine) > 0:
					return mine[0]
				case k == 2 && len(mine) > 0:
					return mine[0].Add(cur(1))
				case k == 3 && len(mine) > 1:
					return mine[0].Add(mine[1])
				case k == 4:
					return sum
				case k == 5:
					return sum.Add(cur(1))
				case k == 6:
					return bal
				case k == 7:
					return bal.Add(cur(1))
				case k == 8 && !bal.IsZero():
					return bal.Sub(cur(1))
				default:
					if bal.Cmp(cur(12)) < 0 { // mostly affordable
						return cur(uint64(rng.Intn(int(bal.Lo) + 2)))
					}
					return cur(uint64(rng.Intn(12)))
				}
			}
			split := func(total types.Currency, nCat int) []types.Currency {
				out := make([]types.Currency, nCat)
				rem := total
				for k := rng.Intn(4); k > 0 && !rem.IsZero(); k-- {
					part := rem.Div64(uint64(1 + rng.Intn(3)))
					i := rng.Intn(nCat)
					out[i] = out[i].Add(part)
					rem = rem.Sub(part)
				}
				i := rng.Intn(nCat)
				out[i] = out[i].Add(rem)
				return out
			}
			// most cases keep some accounts on one protocol version
			mode := rng.Intn(3) // 0: accounts 0,1 v1-only and 2 v2-only; 1: anything; 2: v2 heavy
			versionFor := func(a int) int {
				switch mode {
				case 0:
					if a <= 1 {
						return 1
					} else if a == 2 {
						return 2
					}
				case 2:
					if rng.Intn(4) > 0 {
						return 2
					}
				}
				return 1 + rng.Intn(2)
			}
			steps := 8 + rng.Intn(22)
			for i := 0; i < steps; i++ {
				a := rng.Intn(nAcct)
				if rng.Intn(2) == 0 {
					a = rng.Intn(2) // concentrate so that several contracts fund one account
				}
				v := versionFor(a)
				r := rng.Intn(100)
				if id%3 == 0 && rng.Intn(5) == 0 { // one call in five of every third case runs into a database fault
					faultNext = rng.Intn(24)
				}
				if r >= 38 && r < 88 && balance(a).IsZero() && rng.Intn(6) > 0 {
					r = 0 // nothing to debit yet: deposit instead
				}
				switch {
				case r < 38:
					c := 1 + rng.Intn(nCon)
					if rng.Intn(25) == 0 {
						c = 9
					}
					if v == 1 {
						fund1(c, a, small(), small())
					} else {
						nd := 1 + rng.Intn(3)
						deps := []proto4.AccountDeposit{{Account: proto4.Account(c11Key(a)), Amount: small()}}
						idx := []int{a}
						for j := 1; j < nd; j++ {
							x := rng.Intn(nAcct)
							if mode == 0 && versionFor(x) != 2 {
								continue
							}
							deps = append(deps, proto4.AccountDeposit{Account: proto4.Account(c11Key(x)), Amount: small()})
							idx = append(idx, x)
						}
						extra := proto4.Usage{}
						if rng.Intn(4) == 0 {
							extra = proto4.Usage{RPC: small(), RiskedCollateral: small()}
						}
						fund2(c, deps, idx, extra)
					}
				case r < 88:
					if v == 1 {
						p := split(target(1, a), 6)
						debit1(a, accounts.Usage{RPCRevenue: p[0], StorageRevenue: p[1], EgressRevenue: p[2], IngressRevenue: p[3], RegistryRead: p[4], RegistryWrite: p[5]})
					} else {
						p := split(target(2, a), 4)
						debit2(a, proto4.Usage{RPC: p[0], Storage: p[1], Egress: p[2], Ingress: p[3], RiskedCollateral: small()})
					}
				case r < 96:
					setStatus(1+rng.Intn(2), 1+rng.Intn(nCon))
				default:
					recalc()
				}
			}
		}
		em.EndCase(nMoved > 0)
		db.Close()
	}
}

var _ = rand.Int
