//go:build verif

package sqlite

// Fault-injecting database/sql driver used by the C09 (atomicity) and C18 (restart)
// harnesses.  It wraps the real sqlite3 driver's Conn/Stmt/Tx, records every database
// call as one letter of a trace and can fail the k-th call after it was armed:
//
//	B  BeginTx        P  Prepare         X  Exec/Query (on the connection or a statement)
//	C  Commit         R  Rollback        E  external callback (recorded by the harness)
//	lower case = the call that was failed by injection
//
// A failed Commit rolls the inner transaction back first, which is what go-sqlite3's
// own SQLiteTx.Commit does when COMMIT fails.  Nothing here is written into /repo: the
// file is injected with `go test -overlay`.

import (
	"context"
	"database/sql"
	"database/sql/driver"
	"errors"
	"fmt"
	"sync"
	"sync/atomic"
	"time"

	"github.com/mattn/go-sqlite3"
	"go.uber.org/zap"
)

const (
	verifFaultNone = iota
	verifFaultHard // a plain error: the operation must fail and leave no trace
	verifFaultBusy // "database is locked" once: Store.transaction retries the transaction
)

var errVerifInjected = errors.New("verif: injected database fault")
var errVerifBusy = errors.New("verif: injected fault: database is locked")

type verifFaultCtl struct {
	mu     sync.Mutex
	armed  bool
	failAt int // index among the eligible calls since Arm; <0: record only
	kind   int
	n      int // eligible calls seen since Arm
	fired  bool
	trace  []byte
	// afterCommit: the countdown starts only after the first Commit since Arm
	afterCommit bool
	commits     int
	// transient mode: a list of countdowns; the call at which the first one reaches zero fails
	// with "database is locked", the next countdown starts at the call after it, and so on.
	// [k] = the k-th call, once; [k,0,0] = the k-th call and the next two calls (the Begin of
	// the next two attempts); [k,k,k] = the k-th call of three attempts in a row (for an
	// operation that is one transaction).
	plan      []int
	planFired int
	// result: what the operation under test returned besides its error (set by the operation)
	result string
	slow   time.Duration
}

// Arm starts recording; the failAt-th eligible call (0-based) fails with the given kind.
func (c *verifFaultCtl) Arm(failAt, kind int) {
	c.mu.Lock()
	defer c.mu.Unlock()
	c.armed, c.failAt, c.kind, c.n, c.fired = true, failAt, kind, 0, false
	c.afterCommit, c.commits = false, 0
	c.plan, c.planFired = nil, 0
	c.slow = 0
	c.trace = c.trace[:0]
}

// ArmTransient starts recording; the calls selected by plan (see verifFaultCtl.plan) fail with
// the error Store.transaction treats as retryable.
func (c *verifFaultCtl) ArmTransient(plan []int) {
	c.Arm(-1, verifFaultNone)
	c.mu.Lock()
	c.plan = append([]int(nil), plan...)
	c.mu.Unlock()
}

// TransientFired: how many of the planned transient faults were injected.
func (c *verifFaultCtl) TransientFired() int {
	c.mu.Lock()
	defer c.mu.Unlock()
	return c.planFired
}

// ArmAfterCommit fails the j-th eligible call that follows the first successful Commit.
func (c *verifFaultCtl) ArmAfterCommit(j int) {
	c.Arm(j, verifFaultHard)
	c.mu.Lock()
	c.afterCommit = true
	c.mu.Unlock()
}

// Disarm stops recording and returns the trace, the number of eligible calls and whether the fault fired.
func (c *verifFaultCtl) Disarm() (trace string, calls int, fired bool) {
	c.mu.Lock()
	defer c.mu.Unlock()
	c.armed = false
	return string(c.trace), c.n, c.fired
}

// External records a non-database step of an operation (data write, migration callback).
func (c *verifFaultCtl) External(failed bool) {
	c.mu.Lock()
	defer c.mu.Unlock()
	if c.armed {
		if failed {
			c.trace = append(c.trace, 'e')
		} else {
			c.trace = append(c.trace, 'E')
		}
	}
}

// hit records an eligible call and says whether it has to fail.  With SetSlow the failing
// call takes that long before it returns its error (a call that waited for a lock).
func (c *verifFaultCtl) hit(ev byte) error {
	err, delay := c.hitLocked(ev)
	if err != nil && delay > 0 {
		time.Sleep(delay)
	}
	return err
}

func (c *verifFaultCtl) hitLocked(ev byte) (error, time.Duration) {
	c.mu.Lock()
	defer c.mu.Unlock()
	if !c.armed {
		return nil, 0
	}
	if c.afterCommit && c.commits == 0 {
		if ev == 'C' {
			c.commits++
		}
		c.trace = append(c.trace, ev)
		return nil, 0
	}
	idx := c.n
	c.n++
	if len(c.plan) > 0 {
		if c.plan[0] == 0 {
			c.plan = c.plan[1:]
			c.planFired++
			c.fired = true
			c.trace = append(c.trace, ev+('a'-'A'))
			return errVerifBusy, c.slow
		}
		c.plan[0]--
		c.trace = append(c.trace, ev)
		return nil, 0
	}
	if !c.fired && c.failAt >= 0 && idx == c.failAt && c.kind != verifFaultNone {
		c.fired = true
		c.trace = append(c.trace, ev+('a'-'A'))
		if c.kind == verifFaultBusy {
			return errVerifBusy, c.slow
		}
		return errVerifInjected, c.slow
	}
	c.trace = append(c.trace, ev)
	return nil, 0
}

// SetSlow (after Arm/ArmTransient): injected failures take d before they return.
func (c *verifFaultCtl) SetSlow(d time.Duration) {
	c.mu.Lock()
	c.slow = d
	c.mu.Unlock()
}

func (c *verifFaultCtl) note(ev byte) {
	c.mu.Lock()
	defer c.mu.Unlock()
	if c.armed {
		c.trace = append(c.trace, ev)
	}
}

type verifDriver struct {
	ctl   *verifFaultCtl
	inner *sqlite3.SQLiteDriver
}

func (d *verifDriver) Open(dsn string) (driver.Conn, error) {
	c, err := d.inner.Open(dsn)
	if err != nil {
		return nil, err
	}
	return &verifConn{ctl: d.ctl, c: c.(*sqlite3.SQLiteConn)}, nil
}

type verifConn struct {
	ctl *verifFaultCtl
	c   *sqlite3.SQLiteConn
}

func (c *verifConn) Close() error { return c.c.Close() }

func (c *verifConn) Begin() (driver.Tx, error) { return c.BeginTx(context.Background(), driver.TxOptions{}) }

func (c *verifConn) BeginTx(ctx context.Context, opts driver.TxOptions) (driver.Tx, error) {
	if err := c.ctl.hit('B'); err != nil {
		return nil, err
	}
	tx, err := c.c.BeginTx(ctx, opts)
	if err != nil {
		return nil, err
	}
	return &verifTx{ctl: c.ctl, tx: tx}, nil
}

func (c *verifConn) Prepare(q string) (driver.Stmt, error) { return c.PrepareContext(context.Background(), q) }

func (c *verifConn) PrepareContext(ctx context.Context, q string) (driver.Stmt, error) {
	if err := c.ctl.hit('P'); err != nil {
		return nil, err
	}
	s, err := c.c.PrepareContext(ctx, q)
	if err != nil {
		return nil, err
	}
	return &verifStmt{ctl: c.ctl, s: s.(*sqlite3.SQLiteStmt)}, nil
}

func (c *verifConn) ExecContext(ctx context.Context, q string, args []driver.NamedValue) (driver.Result, error) {
	if err := c.ctl.hit('X'); err != nil {
		return nil, err
	}
	return c.c.ExecContext(ctx, q, args)
}

func (c *verifConn) QueryContext(ctx context.Context, q string, args []driver.NamedValue) (driver.Rows, error) {
	if err := c.ctl.hit('X'); err != nil {
		return nil, err
	}
	return c.c.QueryContext(ctx, q, args)
}

func (c *verifConn) Ping(ctx context.Context) error { return c.c.Ping(ctx) }

type verifStmt struct {
	ctl *verifFaultCtl
	s   *sqlite3.SQLiteStmt
}

func (s *verifStmt) Close() error  { return s.s.Close() }
func (s *verifStmt) NumInput() int { return s.s.NumInput() }

func (s *verifStmt) Exec(args []driver.Value) (driver.Result, error) {
	return nil, errors.New("verif: legacy Exec not used")
}

func (s *verifStmt) Query(args []driver.Value) (driver.Rows, error) {
	return nil, errors.New("verif: legacy Query not used")
}

func (s *verifStmt) ExecContext(ctx context.Context, args []driver.NamedValue) (driver.Result, error) {
	if err := s.ctl.hit('X'); err != nil {
		return nil, err
	}
	return s.s.ExecContext(ctx, args)
}

func (s *verifStmt) QueryContext(ctx context.Context, args []driver.NamedValue) (driver.Rows, error) {
	if err := s.ctl.hit('X'); err != nil {
		return nil, err
	}
	return s.s.QueryContext(ctx, args)
}

type verifTx struct {
	ctl *verifFaultCtl
	tx  driver.Tx
}

func (t *verifTx) Commit() error {
	if err := t.ctl.hit('C'); err != nil {
		t.tx.Rollback() // what go-sqlite3 does itself when COMMIT fails
		return err
	}
	return t.tx.Commit()
}

func (t *verifTx) Rollback() error {
	t.ctl.note('R')
	return t.tx.Rollback()
}

var verifDriverSeq atomic.Int64

// verifOpenFaultStore is the in-package constructor: OpenDatabase on the wrapping driver.
func verifOpenFaultStore(fp string, log *zap.Logger) (*Store, *verifFaultCtl, error) {
	ctl := &verifFaultCtl{}
	name := fmt.Sprintf("sqlite3_verif_%d", verifDriverSeq.Add(1))
	sql.Register(name, &verifDriver{ctl: ctl, inner: &sqlite3.SQLiteDriver{}})
	db, err := sql.Open(name, sqliteFilepath(fp))
	if err != nil {
		return nil, nil, fmt.Errorf("failed to open database: %w", err)
	}
	db.SetMaxOpenConns(1)
	store := &Store{db: db, log: log}
	if err := store.init(); err != nil {
		db.Close()
		return nil, nil, err
	}
	return store, ctl, nil
}
