//go:build verif

package sqlite

// C08 — PruneSectors WITH A CUTOFF between the (re-)store of a sector and the commit that
// references it, and the same root held by temporary storage several times.
//
// The plain C08 harness prunes with "everything" / "nothing" cutoffs and takes a snapshot through
// Store.SectorLocation after every operation, which refreshes every sector's last-access time.
// Here the last-access times are under the harness's control: snapshots read the slots by SQL,
// stored_sectors rows are aged by SQL, and the harness keeps its own ledger of when each root was
// last accessed through the Store API (wall-clock bounds around the call).  A prune with cutoff c
// is predicted from that ledger — a slot is released iff its sector has no reference and its last
// access lies before c — and recorded for coq/Storage/Model.v as the single-slot pieces
// (PruneOne v i) of exactly the predicted slots, so a store whose timestamps disagree with the
// ledger diverges from the model.  Cutoffs are only placed where the ledger is unambiguous (a whole
// second before the earliest / after the latest possible access time).
// Monitors: prune-removed-recently-accessed-sector (a slot whose sector was accessed after the
// cutoff was released), slot-occupancy-differs-from-references (after a reference was committed:
// a referenced sector that was never prunable nor removed has no slot), and the reclamation
// monitors of the plain harness (referenced-sector-reclaimed ...) through w.reclaim.

import (
	"context"
	"fmt"
	"os"
	"path/filepath"
	"sort"
	"sync"
	"testing"
	"time"

	"go.sia.tech/hostd/v2/host/storage"
	"go.uber.org/zap"
)

type c08Access struct{ lo, hi int64 } // unix seconds: the last access happened within [lo, hi]

type c08Cut struct {
	w      *c08World
	access map[int]c08Access // per root
	expect map[int]bool      // the ledger's prediction: the root has a slot
}

func (c *c08Cut) slotOf() map[int][2]int64 {
	out := map[int][2]int64{}
	for _, s := range c.w.slots() {
		if s.root != 0 {
			out[s.root] = [2]int64{s.vol, int64(s.idx)}
		}
	}
	return out
}

// snapshotRO is w.snapshot() without Store.SectorLocation (which would refresh last-access times).
func (c *c08Cut) snapshotRO() {
	w := c.w
	var rs, vs, locs, crs []string
	vols, err := w.db.Volumes()
	if err != nil {
		w.fatalf("volumes: %v", err)
	}
	for _, v := range vols {
		vs = append(vs, fmt.Sprintf("(%d, %s, %s, %s, %s)", v.ID, coqBool(v.ReadOnly), coqBool(v.Available), coqZ(int64(v.TotalSectors)), coqZ(int64(v.UsedSectors))))
	}
	m, err := w.db.Metrics(time.Now().Add(time.Hour))
	if err != nil {
		w.fatalf("metrics: %v", err)
	}
	at := c.slotOf()
	for r := 1; r <= w.nroots; r++ {
		rs = append(rs, fmt.Sprint(r))
		if l, ok := at[r]; ok {
			locs = append(locs, fmt.Sprintf("Some (%d, %d)", l[0], l[1]))
		} else {
			locs = append(locs, "None")
		}
	}
	v1, err := w.db.SectorRoots()
	if err != nil {
		w.fatalf("roots: %v", err)
	}
	v2, err := w.db.V2SectorRoots()
	if err != nil {
		w.fatalf("v2 roots: %v", err)
	}
	for _, k := range w.cons {
		roots := v1[k.id]
		if k.v2 {
			roots = v2[k.id]
		}
		if len(roots) == 0 {
			continue
		}
		var l []string
		for _, r := range roots {
			l = append(l, fmt.Sprint(c08RootNum(r)))
		}
		crs = append(crs, fmt.Sprintf("(%d, %s, %s)", k.num, coqBool(k.v2), coqList(l)))
	}
	w.step("Snapshot "+coqList(rs), fmt.Sprintf("OSnap %s (%s, %s, %s, %s, %s) %s %s", coqList(vs),
		coqZ(int64(m.Storage.TotalSectors)), coqZ(int64(m.Storage.PhysicalSectors)), coqZ(int64(m.Storage.LostSectors)),
		coqZ(int64(m.Storage.ContractSectors)), coqZ(int64(m.Storage.TempSectors)), coqList(locs), coqList(crs)))
}

func (c *c08Cut) after(what string) {
	c.w.recount(what)
	c.snapshotRO()
}

// touching runs one of the plain harness's operations, whose snapshot refreshes the last-access
// time of every root the store knows.
func (c *c08Cut) touching(fn func()) {
	t0 := time.Now().Unix()
	fn()
	t1 := time.Now().Unix()
	for r := range c.access {
		c.access[r] = c08Access{t0, t1}
	}
}

// store = Store.StoreSector with a succeeding write; returns the bounds of the access time.
func (c *c08Cut) store(r int) c08Access {
	w := c.w
	var loc *storage.SectorLocation
	t0 := time.Now().Unix()
	err, p := c08Call(func() error {
		return w.db.StoreSector(c08Root(r), func(l storage.SectorLocation) error { loc = &l; return nil })
	})
	t1 := time.Now().Unix()
	locTerm := "None"
	if loc != nil {
		locTerm = fmt.Sprintf("(Some (%d, %d))", loc.Volume, loc.Index)
		w.placed = true
	}
	w.step(fmt.Sprintf("Store %d %s true", r, locTerm), c08ErrTerm(err, p))
	w.count(fmt.Sprintf("cut:Store:placed=%v,had-row=%v:%s", loc != nil, c.known(r), c08Outcome(err, p)))
	if err == nil && !p {
		c.access[r] = c08Access{t0, t1}
		c.expect[r] = true
	}
	c.after("StoreSector")
	return c08Access{t0, t1}
}

func (c *c08Cut) known(r int) bool { _, ok := c.access[r]; return ok }

// age: the root's stored_sectors row was last accessed d ago (set over SQL).
func (c *c08Cut) age(r int, d time.Duration) {
	t := time.Now().Add(-d).Unix()
	if _, err := c.w.db.db.Exec(`UPDATE stored_sectors SET last_access_timestamp=? WHERE sector_root=?`, t, encode(c08Root(r))); err != nil {
		c.w.fatalf("age: %v", err)
	}
	if c.known(r) {
		c.access[r] = c08Access{t, t}
	}
	c.w.count("cut:Age")
}

// prune = the real PruneSectors(ctx, cutoff), predicted from the ledger.
func (c *c08Cut) prune(cutoff int64, why string) {
	w := c.w
	refs := w.references()
	before := c.slotOf()
	type sl struct {
		r    int
		v, i int64
	}
	var predicted []sl
	spare := map[int]bool{}
	for r, l := range before {
		a, ok := c.access[r]
		if !ok {
			w.fatalf("slot holds root %d the ledger does not know", r)
		}
		switch {
		case len(refs[r]) > 0:
		case a.hi < cutoff:
			predicted = append(predicted, sl{r, l[0], l[1]})
		case a.lo >= cutoff:
			spare[r] = true
		default:
			w.fatalf("ambiguous cutoff %d for root %d accessed in [%d,%d]", cutoff, r, a.lo, a.hi)
		}
	}
	sort.Slice(predicted, func(a, b int) bool {
		if predicted[a].v != predicted[b].v {
			return predicted[a].v < predicted[b].v
		}
		return predicted[a].i < predicted[b].i
	})
	err, p := c08Call(func() error { return w.db.PruneSectors(context.Background(), time.Unix(cutoff, 0)) })
	if err != nil || p {
		w.fatalf("PruneSectors: %v panicked=%v", err, p)
	}
	if len(predicted) == 0 {
		w.step("Prune false", c08ErrTerm(err, p))
	}
	for _, s := range predicted {
		w.step(fmt.Sprintf("PruneOne %d %d", s.v, s.i), "ORes (Ok tt)")
		c.expect[s.r] = false
	}
	w.count(fmt.Sprintf("cut:Prune:%s:predicted=%d,spared-unreferenced=%d", why, min(len(predicted), 3), min(len(spare), 3)))
	now := c.slotOf()
	for r := range spare {
		if _, ok := now[r]; !ok {
			a := c.access[r]
			w.monitor("prune-removed-recently-accessed-sector", fmt.Sprintf("PruneSectors(cutoff=%d) released the slot of root %d, last accessed through the Store API in [%d,%d] (%s)", cutoff, r, a.lo, a.hi, why))
		}
	}
	c.after("PruneSectors")
}

// occupancy: after a reference was committed, every referenced root the ledger expects on disk has a slot.
func (c *c08Cut) occupancy(when string) {
	w := c.w
	refs := w.references()
	now := c.slotOf()
	for r, l := range refs {
		if len(l) == 0 || !c.expect[r] {
			continue
		}
		if _, ok := now[r]; !ok {
			w.monitor("slot-occupancy-differs-from-references", fmt.Sprintf("%s: root %d is referenced (%+v), was stored at [%d,%d] and never prunable since, but occupies no slot", when, r, l, c.access[r].lo, c.access[r].hi))
		}
	}
}

// commit references root r from a fresh contract (v1 append / v2 root list) or temporary storage.
func (c *c08Cut) commit(r int, kind int, endH uint64) {
	w := c.w
	c.touching(func() {
		switch kind {
		case 0:
			k := w.addContract(false, endH, 1)
			w.reviseV1(k, []c08Change{{kind: "append", r: uint64(r)}})
		case 1:
			k := w.addContract(true, endH, 1)
			w.reviseV2(k, []int{r})
		default:
			w.addTemps([][2]uint64{{uint64(r), endH}})
		}
	})
	c.occupancy(fmt.Sprintf("after the commit of a reference to %d", r))
}

const c08CutDirected = 6

func (c *c08Cut) directed(id int) bool {
	w := c.w
	hour := time.Hour
	switch id {
	case 0: // re-upload of a root that was stored and pruned long ago; the periodic prune runs before the commit
		w.res.desc = "directed: re-store of a pruned root, prune with the cutoff just before the store, v1 commit"
		w.volume(3)
		c.store(1)
		c.age(1, 2*hour)
		c.prune(time.Now().Add(-hour).Unix(), "one interval ago, everything older")
		a := c.store(1) // the row exists with a two hours old timestamp
		c.prune(a.lo-1, "just before the re-store")
		c.prune(time.Now().Add(-5*time.Minute).Unix(), "the volume manager's cutoff")
		c.commit(1, 0, 100)
		w.reclaim(50)
		w.reclaim(101)
	case 1: // "exists": the root still has its slot and an old timestamp when it is uploaded again
		w.res.desc = "directed: re-store of a root that still has a slot (exists), cutoff just before, v2 commit"
		w.volume(3)
		c.store(1)
		c.store(2)
		c.age(1, 3*hour)
		c.age(2, 3*hour)
		a := c.store(1)                             // exists: refreshed
		c.prune(a.lo-1, "just before the re-store") // takes 2, must spare 1
		c.commit(1, 1, 100)
		w.reclaim(50)
	case 2: // cutoffs around the store time: before spares, after releases; a referenced sector is spared regardless
		w.res.desc = "directed: cutoffs just before / just after the store time; referenced sectors are spared regardless"
		w.volume(4)
		a := c.store(1)
		c.prune(a.lo-1, "just before the store")
		c.store(2)
		c.commit(2, 2, 100)
		c.age(2, 5*hour)
		a = c.store(3)
		c.prune(a.hi+1, "just after the store") // 1 and 3 go (unreferenced), 2 stays
		a = c.store(1)
		c.prune(a.lo-1, "just before the re-store")
		c.commit(1, 2, 100)
	case 3, 4: // one root held by temporary storage two / three times; expiry at every boundary height + prune
		k := id - 1
		w.res.desc = fmt.Sprintf("directed: one root %d times in temporary storage, reclaim at every boundary height", k)
		w.volume(3)
		c.store(1)
		c.store(2)
		c.touching(func() {
			for j := 0; j < k; j++ {
				if j%2 == 0 {
					w.addTemps([][2]uint64{{1, uint64(10 + 2*j)}})
				} else {
					w.addTemp1(1, uint64(10+2*j))
				}
			}
			w.addTemps([][2]uint64{{2, 11}})
			for h := uint64(9); h <= uint64(10+2*k); h++ {
				w.reclaim(h)
			}
		})
	case 5: // ... in one batch, descending expirations, and shared with a contract
		w.res.desc = "directed: one root three times in one AddTemporarySectors batch, shared with a v1 contract"
		w.volume(3)
		c.store(1)
		c.touching(func() {
			w.addTemps([][2]uint64{{1, 14}, {1, 10}, {1, 12}})
			for _, h := range []uint64{10, 11} {
				w.reclaim(h)
			}
			k := w.addContract(false, 13, 1)
			w.reviseV1(k, []c08Change{{kind: "append", r: 1}})
			for _, h := range []uint64{12, 13, 14, 15} {
				w.reclaim(h)
			}
		})
	default:
		return false
	}
	return true
}

func (c *c08Cut) generated() {
	w := c.w
	rng := w.rng
	w.res.desc = "generated: stores, ageing, prunes with cutoffs around the store times, commits"
	w.volume(uint64(3 + rng.Intn(4)))
	if rng.Intn(3) == 0 {
		w.volume(uint64(1 + rng.Intn(3)))
	}
	w.nroots = 6
	steps := 10 + rng.Intn(14)
	var last c08Access
	lastRoot := 0
	for i := 0; i < steps; i++ {
		r := 1 + rng.Intn(w.nroots)
		switch x := rng.Intn(100); {
		case x < 30:
			last, lastRoot = c.store(r), r
		case x < 45:
			if c.known(r) {
				c.age(r, time.Duration(2+rng.Intn(3))*time.Hour)
			}
		case x < 70: // a prune whose cutoff the ledger can judge
			var cut int64
			why := ""
			switch y := rng.Intn(5); {
			case y == 0 && lastRoot != 0 && c.access[lastRoot] == last:
				cut, why = last.lo-1, "just before the last store"
			case y == 1 && lastRoot != 0 && c.access[lastRoot] == last:
				cut, why = last.hi+1, "just after the last store"
			case y == 2:
				cut, why = time.Now().Add(-time.Hour).Unix(), "one hour ago"
			case y == 3:
				cut, why = time.Now().Add(-5*time.Minute).Unix(), "five minutes ago"
			default:
				cut, why = time.Now().Add(time.Hour).Unix(), "in the future"
			}
			ok := true
			for _, a := range c.access {
				if a.lo < cut && cut <= a.hi {
					ok = false
				}
			}
			if ok {
				c.prune(cut, why)
			}
		case x < 92: // commit a reference to a root the ledger expects on disk
			var cand []int
			for q := 1; q <= w.nroots; q++ {
				if c.expect[q] {
					cand = append(cand, q)
				}
			}
			if len(cand) > 0 {
				c.commit(cand[rng.Intn(len(cand))], rng.Intn(3), uint64(20+rng.Intn(5)))
			}
		default:
			c.touching(func() { w.reclaim(uint64(18 + rng.Intn(10))) })
			for q := range c.expect { // what reclaim released is judged by its own monitor; resync the ledger
				c.expect[q] = false
			}
			for q := range c.slotOf() {
				c.expect[q] = true
			}
		}
	}
	c.occupancy("at the end")
}

func c08RunCutCase(id int, dir string) (res *c08Result) {
	res = &c08Result{id: id}
	defer func() {
		if r := recover(); r != nil {
			res.fatal = fmt.Sprint(r)
		}
	}()
	db, err := OpenDatabase(filepath.Join(dir, fmt.Sprintf("c08cut_%d.db", id)), zap.NewNop())
	if err != nil {
		res.fatal = err.Error()
		return
	}
	defer db.Close()
	w := &c08World{res: res, rng: verifCaseRand(id), db: db, nroots: 6}
	c := &c08Cut{w: w, access: map[int]c08Access{}, expect: map[int]bool{}}
	if !c.directed(id) {
		c.generated()
	}
	res.nontriv = w.placed
	return
}

func TestVerifC08Cutoff(t *testing.T) {
	em := newVerifEmitter(t, "From HostdBase Require Import Base.\nFrom HostdStorage Require Import Model.\nOpen Scope N_scope.", "case", "check")
	defer em.Close()

	n := verifN(60) + c08CutDirected
	dir, err := os.MkdirTemp("", "verif-c08cut-")
	if err != nil {
		t.Fatal(err)
	}
	defer os.RemoveAll(dir)

	var ids []int
	for id := 0; id < n; id++ {
		if !em.Skip(id) {
			ids = append(ids, id)
		}
	}
	results := make([]*c08Result, len(ids))
	var wg sync.WaitGroup
	sem := make(chan struct{}, 24)
	for i, id := range ids {
		wg.Add(1)
		sem <- struct{}{}
		go func(i, id int) {
			defer wg.Done()
			defer func() { <-sem }()
			results[i] = c08RunCutCase(id, dir)
		}(i, id)
	}
	wg.Wait()

	sort.Slice(results, func(i, j int) bool { return results[i].id < results[j].id })
	for _, r := range results {
		if r.fatal != "" {
			t.Fatalf("case %d: %s", r.id, r.fatal)
		}
		em.BeginCase(r.id, r.desc)
		for _, s := range r.steps {
			em.Step(s[0], s[1])
		}
		for _, k := range r.counts {
			em.Count(k)
		}
		for _, m := range r.monitors {
			em.Monitor(m[0], m[1])
		}
		em.EndCase(r.nontriv)
	}
}
